import Tahoe.Storage.LemmasSlot
import Tahoe.Storage.LemmasImmLease
/-!
Lifting the container-level lease theorems of C25 to whole buckets and the server-level operations
(`add_lease`, `renew_lease`, `allocate_buckets` renewing the shares already held,
`slot_testv_and_readv_and_writev` renewing on every share it leaves behind).
-/
namespace Tahoe.Storage.Slot
open Tahoe.Base.File Tahoe.Storage Tahoe.Storage.Mutable

/-! ### container level: every listed lease is kept (proofs used by `Props/C25.no_backdating*`) -/

theorem mut_renew_keeps (h : Bytes → Bytes) (f : File) (hwf : WF f) (secret : Bytes) (t : Nat) (ht : t < 2 ^ 32)
    (j : Nat) (x : Lease) (hx : (j, x) ∈ enumerateLeases f) :
    ∃ x', (j, x') ∈ enumerateLeases (Mutable.renewLease h f secret t).1 ∧ x.expire ≤ x'.expire ∧
      x'.owner = x.owner ∧ x'.renew = x.renew ∧ x'.cancel = x.cancel ∧ x'.nodeid = x.nodeid := by
  unfold Mutable.renewLease
  split
  · exact ⟨x, hx, Nat.le_refl _, rfl, rfl, rfl, rfl⟩
  · split
    · exact ⟨x, hx, Nat.le_refl _, rfl, rfl, rfl, rfl⟩
    · rename_i s _ i l hfind
      have hmem := (findRenew_some hfind).1
      obtain ⟨ho, ho', he, hr, hc, hn⟩ := listed_lease f hwf i l hmem
      split
      · rename_i hgt
        have hw := enumerateLeases_write f hwf i l { l with expire := t } hmem (serMut { l with expire := t })
          (length_serMut _) (by unfold decodeRec; rw [parseMut_serMut { l with expire := t } ho' ht hr hc hn]; simp [ho])
        simp only
        rw [hw]
        by_cases hj : j = i
        · subst hj
          have a := (mem_enumerateLeases.mp hx).2
          have b := (mem_enumerateLeases.mp hmem).2
          rw [a] at b
          simp only [Option.some.injEq] at b
          subst b
          refine ⟨{ x with expire := t }, ?_, by simp only; omega, rfl, rfl, rfl, rfl⟩
          rw [List.mem_map]
          exact ⟨(j, x), hx, by simp⟩
        · refine ⟨x, ?_, Nat.le_refl _, rfl, rfl, rfl, rfl⟩
          rw [List.mem_map]
          exact ⟨(j, x), hx, by simp [hj]⟩
      · exact ⟨x, hx, Nat.le_refl _, rfl, rfl, rfl, rfl⟩


theorem mut_addOrRenew_keeps (h : Bytes → Bytes) (f : File) (hwf : WF f) (avail : Nat) (li : Lease)
    (hexp : li.expire < 2 ^ 32) (j : Nat) (x : Lease) (hx : (j, x) ∈ enumerateLeases f) :
    ∃ x', (j, x') ∈ enumerateLeases (Mutable.addOrRenew h f avail li).1 ∧ x.expire ≤ x'.expire ∧
      x'.owner = x.owner ∧ x'.renew = x.renew ∧ x'.cancel = x.cancel ∧ x'.nodeid = x.nodeid := by
  have hr := mut_renew_keeps h f hwf li.renew li.expire hexp j x hx
  unfold Mutable.addOrRenew
  split
  · exact ⟨x, hx, Nat.le_refl _, rfl, rfl, rfl, rfl⟩
  · split
    · rename_i f' e; rw [e] at hr; exact hr
    · exact ⟨x, addLease_keeps f hwf avail _ j x hx, Nat.le_refl _, rfl, rfl, rfl, rfl⟩
    · rename_i f' e' _ e; rw [e] at hr; exact hr


theorem imm_renew_keeps (h : Bytes → Bytes) (f : File) (hwf : ImmL.WF f) (secret : Bytes) (t : Nat)
    (ht : t < 2 ^ 32) (j : Nat) (x : Lease) (hx : (ImmL.getLeases f)[j]? = some x) :
    ∃ x', (ImmL.getLeases (ImmL.renewLease h f secret t).1)[j]? = some x' ∧ x.expire ≤ x'.expire ∧
      x'.owner = x.owner ∧ x'.renew = x.renew ∧ x'.cancel = x.cancel ∧ x'.nodeid = x.nodeid := by
  unfold ImmL.renewLease
  split
  · exact ⟨x, hx, Nat.le_refl _, rfl, rfl, rfl, rfl⟩
  · split
    · exact ⟨x, hx, Nat.le_refl _, rfl, rfl, rfl, rfl⟩
    · rename_i s _ i l hfind
      obtain ⟨_, hget, _⟩ := ImmL.findRenew_some hfind
      rw [Nat.sub_zero] at hget
      obtain ⟨hi, _, ho, he, hr, hc, hn⟩ := ImmL.listed_lease hwf hget
      split
      · rename_i hgt
        have w := ImmL.write_spec f hwf i hi (serImm { l with expire := t }) (length_serImm _)
        simp only [ImmL.writeLeaseRecord]
        rw [w.getElem? hwf j, ImmL.parseImm_serImm { l with expire := t } ho ht hr hc hn]
        by_cases hj : j = i
        · subst hj
          rw [hget] at hx
          simp only [Option.some.injEq] at hx
          subst hx
          exact ⟨{ l with expire := t }, by simp [hi], by simp only; omega, rfl, rfl, rfl, rfl⟩
        · exact ⟨x, by simp [hj, hx], Nat.le_refl _, rfl, rfl, rfl, rfl⟩
      · exact ⟨x, hx, Nat.le_refl _, rfl, rfl, rfl, rfl⟩


theorem imm_addOrRenew_keeps (h : Bytes → Bytes) (f : File) (hwf : ImmL.WF f) (avail : Nat) (li : Lease)
    (hexp : li.expire < 2 ^ 32) (hcount : ImmL.numLeases f + 1 < 2 ^ 32)
    (j : Nat) (x : Lease) (hx : (ImmL.getLeases f)[j]? = some x) :
    ∃ x', (ImmL.getLeases (ImmL.addOrRenew h f avail li).1)[j]? = some x' ∧ x.expire ≤ x'.expire ∧
      x'.owner = x.owner ∧ x'.renew = x.renew ∧ x'.cancel = x.cancel ∧ x'.nodeid = x.nodeid := by
  have hr := imm_renew_keeps h f hwf li.renew li.expire hexp j x hx
  unfold ImmL.addOrRenew
  split
  · rename_i f' e; rw [e] at hr; exact hr
  · split
    · exact ⟨x, hx, Nat.le_refl _, rfl, rfl, rfl, rfl⟩
    · refine ⟨x, ?_, Nat.le_refl _, rfl, rfl, rfl, rfl⟩
      unfold ImmL.addLease
      cases hs : ImmL.schemaOf f with
      | none => exact hx
      | some s =>
        simp only [ImmL.writeLeaseRecord]
        have w := ImmL.append_spec f hwf (serImm (toStored h s li)) (length_serImm _) hcount
        rw [w.getLeases hwf, List.getElem?_append_left]
        · exact hx
        · have := ImmL.listed_lease hwf hx
          rw [ImmL.length_getLeases hwf]; exact this.1
  · rename_i f' e' _ e; rw [e] at hr; exact hr


/-! ### container kinds are disjoint and preserved -/

/-- a file whose first four bytes are the immutable version number 1 or 2 never starts with a mutable magic -/
theorem imm_not_mutable (f : File) (h : (ImmL.schemaOf f).isSome) : Mutable.schemaOf f = none := by
  unfold Mutable.schemaOf
  have h4 : ∀ m : Bytes, pread f 0 32 = m → pread f 0 4 = pread m 0 4 := by
    intro m e; rw [← e, pread_pread _ _ _ _ _ (by omega)]
  simp only
  split
  · rename_i e
    have := h4 _ e
    unfold ImmL.schemaOf at h
    rw [this] at h
    revert h; decide
  · split
    · rename_i e
      have := h4 _ e
      unfold ImmL.schemaOf at h
      rw [this] at h
      revert h; decide
    · rfl

theorem kindOf_mutable {f : File} (h : (Mutable.schemaOf f).isSome) : kindOf f = .mutable := by
  unfold kindOf; simp [h]

theorem kindOf_immutable {f : File} (h : (ImmL.schemaOf f).isSome) : kindOf f = .immutable := by
  unfold kindOf; simp [imm_not_mutable f h, h]

theorem kindOf_mutable_iff {f : File} : kindOf f = .mutable ↔ (Mutable.schemaOf f).isSome := by
  constructor
  · intro h
    by_cases hm : (Mutable.schemaOf f).isSome
    · exact hm
    · rw [kindOf, if_neg hm] at h; split at h <;> simp at h
  · exact kindOf_mutable

theorem kindOf_immutable_iff {f : File} : kindOf f = .immutable ↔ (ImmL.schemaOf f).isSome := by
  constructor
  · intro h
    by_cases hm : (Mutable.schemaOf f).isSome
    · rw [kindOf, if_pos hm] at h; simp at h
    · rw [kindOf, if_neg hm] at h
      by_cases hi : (ImmL.schemaOf f).isSome
      · exact hi
      · rw [if_neg hi] at h; simp at h
  · exact kindOf_immutable

/-! ### "every lease is kept": the relation that lifts through buckets -/

/-- every lease listed for `f` is listed for `f'` with the same owner, secrets and nodeid and an expiry that is
    not smaller -/
def Kept (f f' : File) : Prop :=
  ∀ x ∈ leasesOf f, ∃ x' ∈ leasesOf f', x.expire ≤ x'.expire ∧ x'.owner = x.owner ∧ x'.renew = x.renew ∧
    x'.cancel = x.cancel ∧ x'.nodeid = x.nodeid

theorem Kept.refl (f : File) : Kept f f := fun x hx => ⟨x, hx, Nat.le_refl _, rfl, rfl, rfl, rfl⟩

theorem Kept.trans {f g k : File} (a : Kept f g) (b : Kept g k) : Kept f k := by
  intro x hx
  obtain ⟨y, hy, e1, o1, r1, c1, n1⟩ := a x hx
  obtain ⟨z, hz, e2, o2, r2, c2, n2⟩ := b y hy
  exact ⟨z, hz, Nat.le_trans e1 e2, o2.trans o1, r2.trans r1, c2.trans c1, n2.trans n1⟩

theorem Kept.of_eq {f f' : File} (h : leasesOf f' = leasesOf f) : Kept f f' := by
  intro x hx; exact ⟨x, by rw [h]; exact hx, Nat.le_refl _, rfl, rfl, rfl, rfl⟩

/-- the per-share invariant of a bucket that may mix container kinds -/
def ShareWF (f : File) : Prop :=
  match kindOf f with
  | .mutable => Mutable.WF f
  | .immutable => ImmL.WF f ∧ ImmL.numLeases f + 1 < 2 ^ 32
  | .other => True

theorem leasesOf_mutable {f : File} (h : kindOf f = .mutable) : leasesOf f = Mutable.getLeases f := by
  unfold leasesOf; rw [h]

theorem leasesOf_immutable {f : File} (h : kindOf f = .immutable) : leasesOf f = ImmL.getLeases f := by
  unfold leasesOf; rw [h]

theorem mem_getLeases_mut {f : File} {x : Lease} : x ∈ Mutable.getLeases f ↔ ∃ j, (j, x) ∈ enumerateLeases f := by
  unfold Mutable.getLeases
  rw [List.mem_map]
  constructor
  · rintro ⟨p, hp, rfl⟩; exact ⟨p.1, hp⟩
  · rintro ⟨j, hj⟩; exact ⟨(j, x), hj, rfl⟩

/-- a mutable-container operation that keeps every (slot, lease) entry and the schema keeps every lease -/
theorem Kept.of_mut {f f' : File} (hk : kindOf f = .mutable) (hs : Mutable.schemaOf f' = Mutable.schemaOf f)
    (h : ∀ j x, (j, x) ∈ enumerateLeases f → ∃ x', (j, x') ∈ enumerateLeases f' ∧ x.expire ≤ x'.expire ∧
      x'.owner = x.owner ∧ x'.renew = x.renew ∧ x'.cancel = x.cancel ∧ x'.nodeid = x.nodeid) : Kept f f' := by
  have hk' : kindOf f' = .mutable := kindOf_mutable (by rw [hs]; exact kindOf_mutable_iff.mp hk)
  intro x hx
  rw [leasesOf_mutable hk, mem_getLeases_mut] at hx
  obtain ⟨j, hj⟩ := hx
  obtain ⟨x', hx', rest⟩ := h j x hj
  exact ⟨x', by rw [leasesOf_mutable hk', mem_getLeases_mut]; exact ⟨j, hx'⟩, rest⟩

theorem Kept.of_imm {f f' : File} (hk : kindOf f = .immutable) (hs : ImmL.schemaOf f' = ImmL.schemaOf f)
    (h : ∀ (j : Nat) x, (ImmL.getLeases f)[j]? = some x → ∃ x', (ImmL.getLeases f')[j]? = some x' ∧ x.expire ≤ x'.expire ∧
      x'.owner = x.owner ∧ x'.renew = x.renew ∧ x'.cancel = x.cancel ∧ x'.nodeid = x.nodeid) : Kept f f' := by
  have hk' : kindOf f' = .immutable := kindOf_immutable (by rw [hs]; exact kindOf_immutable_iff.mp hk)
  intro x hx
  rw [leasesOf_immutable hk] at hx
  obtain ⟨j, hj⟩ := List.getElem?_of_mem hx
  obtain ⟨x', hx', rest⟩ := h j x hj
  exact ⟨x', by rw [leasesOf_immutable hk']; exact List.mem_of_getElem? hx', rest⟩

theorem imm_renew_schema (h : Bytes → Bytes) (f : File) (hwf : ImmL.WF f) (secret : Bytes) (t : Nat) :
    ImmL.schemaOf (ImmL.renewLease h f secret t).1 = ImmL.schemaOf f ∧ ImmL.WF (ImmL.renewLease h f secret t).1 ∧
    ImmL.numLeases (ImmL.renewLease h f secret t).1 = ImmL.numLeases f := by
  unfold ImmL.renewLease
  split
  · exact ⟨rfl, hwf, rfl⟩
  · split
    · exact ⟨rfl, hwf, rfl⟩
    · rename_i s _ i l hfind
      obtain ⟨_, hget, _⟩ := ImmL.findRenew_some hfind
      rw [Nat.sub_zero] at hget
      have hi := (ImmL.listed_lease hwf hget).1
      split
      · have w := ImmL.write_spec f hwf i hi (serImm { l with expire := t }) (length_serImm _)
        exact ⟨w.schema, w.wf, w.num⟩
      · exact ⟨rfl, hwf, rfl⟩

theorem imm_addOrRenew_schema (h : Bytes → Bytes) (f : File) (hwf : ImmL.WF f) (hc : ImmL.numLeases f + 1 < 2 ^ 32)
    (avail : Nat) (li : Lease) :
    ImmL.schemaOf (ImmL.addOrRenew h f avail li).1 = ImmL.schemaOf f ∧ ImmL.WF (ImmL.addOrRenew h f avail li).1 := by
  have hr := imm_renew_schema h f hwf li.renew li.expire
  unfold ImmL.addOrRenew
  split
  · rename_i f' e; rw [e] at hr; exact ⟨hr.1, hr.2.1⟩
  · split
    · exact ⟨rfl, hwf⟩
    · unfold ImmL.addLease
      cases hs : ImmL.schemaOf f with
      | none => simp only; exact ⟨hs, hwf⟩
      | some s =>
        simp only [ImmL.writeLeaseRecord]
        have w := ImmL.append_spec f hwf (serImm (toStored h s li)) (length_serImm _) hc
        exact ⟨w.schema.trans hs, w.wf⟩
  · rename_i f' e' _ e; rw [e] at hr; exact ⟨hr.1, hr.2.1⟩

/-- `add_or_renew_lease` on one share file of either kind keeps every lease -/
theorem shareAddOrRenew_kept (env : Env) (f : File) (hwf : ShareWF f) (li : Lease) (hexp : li.expire < 2 ^ 32) :
    Kept f (shareAddOrRenew env f li).1 := by
  unfold ShareWF at hwf
  unfold shareAddOrRenew
  cases hk : kindOf f with
  | mutable =>
    rw [hk] at hwf
    simp only
    exact Kept.of_mut hk (addOrRenew_spec env.h f hwf env.avail li).schema
      (fun j x hx => mut_addOrRenew_keeps env.h f hwf env.avail li hexp j x hx)
  | immutable =>
    rw [hk] at hwf
    simp only
    exact Kept.of_imm hk (imm_addOrRenew_schema env.h f hwf.1 hwf.2 env.avail li).1
      (fun j x hx => imm_addOrRenew_keeps env.h f hwf.1 env.avail li hexp hwf.2 j x hx)
  | other => exact Kept.refl f

/-- `renew_lease` on one share file of either kind keeps every lease -/
theorem shareRenew_kept (env : Env) (f : File) (hwf : ShareWF f) (secret : Bytes) (t : Nat) (ht : t < 2 ^ 32) :
    Kept f (shareRenew env f secret t).1 := by
  unfold ShareWF at hwf
  unfold shareRenew
  cases hk : kindOf f with
  | mutable =>
    rw [hk] at hwf
    simp only
    exact Kept.of_mut hk (renewLease_spec env.h f hwf secret t).schema
      (fun j x hx => mut_renew_keeps env.h f hwf secret t ht j x hx)
  | immutable =>
    rw [hk] at hwf
    simp only
    exact Kept.of_imm hk (imm_renew_schema env.h f hwf.1 secret t).1
      (fun j x hx => imm_renew_keeps env.h f hwf.1 secret t ht j x hx)
  | other => exact Kept.refl f

/-! ### buckets -/

/-- same share numbers in the same order, and every share keeps every lease -/
inductive BucketKept : Bucket → Bucket → Prop where
  | nil : BucketKept [] []
  | cons {p q : Nat × File} {t t' : Bucket} (h : p.1 = q.1 ∧ Kept p.2 q.2) (r : BucketKept t t') :
      BucketKept (p :: t) (q :: t')

theorem BucketKept.refl (b : Bucket) : BucketKept b b := by
  induction b with
  | nil => exact BucketKept.nil
  | cons p t ih => exact BucketKept.cons ⟨rfl, Kept.refl _⟩ ih

theorem BucketKept.lookup {b b' : Bucket} (h : BucketKept b b') (n : Nat) (f : File) (hl : lookup b n = some f) :
    ∃ f', lookup b' n = some f' ∧ Kept f f' := by
  unfold Slot.lookup at hl ⊢
  induction h with
  | nil => simp at hl
  | @cons p q t t' hpq _ ih =>
    simp only [List.find?_cons] at hl ⊢
    by_cases hp : (p.1 == n) = true
    · have hq : (q.1 == n) = true := by rw [← hpq.1]; exact hp
      simp only [hp, Option.map_some, Option.some.injEq] at hl
      simp only [hq, Option.map_some, Option.some.injEq]
      subst hl
      exact ⟨q.2, rfl, hpq.2⟩
    · have hq : ¬ (q.1 == n) = true := by rw [← hpq.1]; exact hp
      simp only [hp] at hl
      simp only [hq]
      exact ih hl

/-- every share of the bucket satisfies its container invariant -/
def MixedWF (b : Bucket) : Prop := ∀ p ∈ b, ShareWF p.2

/-- `StorageServer.add_lease` / the renewal of `allocate_buckets`: every share keeps every lease (also when the
    loop is interrupted by `NoSpace`) -/
theorem addLeaseAll_kept (env : Env) (li : Lease) (hexp : li.expire < 2 ^ 32) (b : Bucket) (hb : MixedWF b) :
    BucketKept b (addLeaseAll env li b).1 := by
  induction b with
  | nil => exact BucketKept.nil
  | cons p t ih =>
    obtain ⟨n, f⟩ := p
    have hk := shareAddOrRenew_kept env f (hb (n, f) (List.mem_cons_self ..)) li hexp
    have iht := ih (fun q hq => hb q (List.mem_cons_of_mem _ hq))
    simp only [addLeaseAll]
    generalize shareAddOrRenew env f li = r at *
    obtain ⟨f', e⟩ := r
    cases e with
    | none => exact BucketKept.cons ⟨rfl, hk⟩ iht
    | some e => exact BucketKept.cons ⟨rfl, hk⟩ (BucketKept.refl t)

theorem renewAll_kept (env : Env) (secret : Bytes) (tm : Nat) (ht : tm < 2 ^ 32) (b : Bucket) (hb : MixedWF b) :
    BucketKept b (renewAll env secret tm b).1 := by
  induction b with
  | nil => exact BucketKept.nil
  | cons p t ih =>
    obtain ⟨n, f⟩ := p
    have hk := shareRenew_kept env f (hb (n, f) (List.mem_cons_self ..)) secret tm ht
    have iht := ih (fun q hq => hb q (List.mem_cons_of_mem _ hq))
    simp only [renewAll]
    generalize shareRenew env f secret tm = r at *
    obtain ⟨f', e⟩ := r
    cases e with
    | none => exact BucketKept.cons ⟨rfl, hk⟩ iht
    | some e => exact BucketKept.cons ⟨rfl, hk⟩ (BucketKept.refl t)

/-! ### no duplicate at the bucket level -/

/-- some lease of the share carries the renew secret (as `renew_lease`'s search sees it) -/
def KnowsRenew (h : Bytes → Bytes) (f : File) (secret : Bytes) : Prop :=
  match kindOf f with
  | .mutable => ∃ s i l, Mutable.schemaOf f = some s ∧ Mutable.findRenew h s secret (enumerateLeases f) = some (i, l)
  | .immutable => ∃ s i l, ImmL.schemaOf f = some s ∧ ImmL.findRenew h s secret (ImmL.getLeases f) 0 = some (i, l)
  | .other => False

theorem mut_renew_or_add_len (h : Bytes → Bytes) (f : File) (hwf : Mutable.WF f) (s : Schema)
    (hs : Mutable.schemaOf f = some s) (avail : Nat) (li : Lease) (hexp : li.expire < 2 ^ 32) (i : Nat) (l : Lease)
    (hfind : Mutable.findRenew h s li.renew (enumerateLeases f) = some (i, l)) :
    (Mutable.addOrRenew h f avail li).2 = none ∧
    (Mutable.getLeases (Mutable.addOrRenew h f avail li).1).length = (Mutable.getLeases f).length := by
  have hmem := (Mutable.findRenew_some hfind).1
  obtain ⟨ho, ho', he, hr, hc, hn⟩ := listed_lease f hwf i l hmem
  simp only [Mutable.addOrRenew, Mutable.renewLease, hs, hfind]
  by_cases hgt : li.expire > l.expire
  · simp only [hgt, if_true, true_and]
    unfold Mutable.getLeases
    rw [enumerateLeases_write f hwf i l { l with expire := li.expire } hmem _ (length_serMut _)
      (by unfold decodeRec; rw [parseMut_serMut { l with expire := li.expire } ho' hexp hr hc hn]; simp [ho])]
    simp
  · simp only [hgt, if_false, true_and]

theorem imm_renew_or_add_len (h : Bytes → Bytes) (f : File) (hwf : ImmL.WF f) (s : Schema)
    (hs : ImmL.schemaOf f = some s) (avail : Nat) (li : Lease) (_hexp : li.expire < 2 ^ 32) (i : Nat) (l : Lease)
    (hfind : ImmL.findRenew h s li.renew (ImmL.getLeases f) 0 = some (i, l)) :
    (ImmL.addOrRenew h f avail li).2 = none ∧
    (ImmL.getLeases (ImmL.addOrRenew h f avail li).1).length = (ImmL.getLeases f).length := by
  obtain ⟨_, hget, _⟩ := ImmL.findRenew_some hfind
  rw [Nat.sub_zero] at hget
  obtain ⟨hi, _, ho, he, hr, hc, hn⟩ := ImmL.listed_lease hwf hget
  simp only [ImmL.addOrRenew, ImmL.renewLease, hs, hfind]
  by_cases hgt : li.expire > l.expire
  · simp only [hgt, if_true, true_and, ImmL.writeLeaseRecord]
    have w := ImmL.write_spec f hwf i hi (serImm { l with expire := li.expire }) (length_serImm _)
    rw [ImmL.length_getLeases w.wf, ImmL.length_getLeases hwf, w.num]
  · simp only [hgt, if_false, true_and]

/-- a share that already holds the renew secret: `add_or_renew_lease` succeeds and the number of leases is unchanged -/
theorem shareAddOrRenew_no_duplicate (env : Env) (f : File) (hwf : ShareWF f) (li : Lease) (hexp : li.expire < 2 ^ 32)
    (hk : KnowsRenew env.h f li.renew) :
    (shareAddOrRenew env f li).2 = none ∧ (leasesOf (shareAddOrRenew env f li).1).length = (leasesOf f).length := by
  unfold ShareWF at hwf
  unfold KnowsRenew at hk
  cases hkind : kindOf f with
  | mutable =>
    rw [hkind] at hwf hk
    obtain ⟨s, i, l, hs, hfind⟩ := hk
    have r := mut_renew_or_add_len env.h f hwf s hs env.avail li hexp i l hfind
    have hsch := (addOrRenew_spec env.h f hwf env.avail li).schema
    have hk' : kindOf (Mutable.addOrRenew env.h f env.avail li).1 = .mutable :=
      kindOf_mutable (by rw [hsch, hs]; rfl)
    simp only [shareAddOrRenew, hkind]
    rw [leasesOf_mutable hk', leasesOf_mutable hkind]
    exact r
  | immutable =>
    rw [hkind] at hwf hk
    obtain ⟨s, i, l, hs, hfind⟩ := hk
    have r := imm_renew_or_add_len env.h f hwf.1 s hs env.avail li hexp i l hfind
    have hsch := (imm_addOrRenew_schema env.h f hwf.1 hwf.2 env.avail li).1
    have hk' : kindOf (ImmL.addOrRenew env.h f env.avail li).1 = .immutable :=
      kindOf_immutable (by rw [hsch, hs]; rfl)
    simp only [shareAddOrRenew, hkind]
    rw [leasesOf_immutable hk', leasesOf_immutable hkind]
    exact r
  | other => rw [hkind] at hk; exact hk.elim

/-- when `add_lease` completes without error, every share file has been through `add_or_renew_lease` -/
theorem addLeaseAll_lookup (env : Env) (li : Lease) (b : Bucket) (hok : (addLeaseAll env li b).2 = none) (n : Nat) :
    lookup (addLeaseAll env li b).1 n = (lookup b n).map (fun f => (shareAddOrRenew env f li).1) := by
  induction b with
  | nil => rfl
  | cons p t ih =>
    obtain ⟨m, f⟩ := p
    simp only [addLeaseAll] at hok ⊢
    generalize hr : shareAddOrRenew env f li = r at *
    obtain ⟨f', e⟩ := r
    cases e with
    | some e => simp at hok
    | none =>
      simp only at hok ⊢
      have iht := ih hok
      unfold Slot.lookup at iht ⊢
      simp only [List.find?_cons]
      by_cases hm : (m == n) = true
      · simp [hm, hr]
      · simp only [hm]; exact iht

/-! ### read-test-write: shares that survive keep their leases -/

theorem lookup_store_self (b : Bucket) (n : Nat) (f : File) : lookup (store b n f) n = some f := by
  unfold store
  cases hl : lookup b n with
  | none =>
    simp only [Option.isSome_none, Bool.false_eq_true, if_false]
    unfold Slot.lookup at hl ⊢
    rw [List.find?_append]
    simp only [Option.map_eq_none_iff] at hl
    simp [hl]
  | some g =>
    simp only [Option.isSome_some, if_true]
    unfold Slot.lookup at hl ⊢
    induction b with
    | nil => simp at hl
    | cons p t ih =>
      simp only [List.map_cons, List.find?_cons] at hl ⊢
      by_cases hp : (p.1 == n) = true
      · simp [hp]
      · simp only [hp] at hl ⊢
        simp only [Bool.false_eq_true, if_false, hp]
        exact ih hl

theorem lookup_map_replace_ne (b : Bucket) (n m : Nat) (f : File) (hne : m ≠ n) :
    lookup (b.map (fun p => if p.1 == n then (n, f) else p)) m = lookup b m := by
  unfold Slot.lookup
  induction b with
  | nil => rfl
  | cons p t ih =>
    simp only [List.map_cons, List.find?_cons]
    by_cases hp : (p.1 == n) = true
    · have hpn : p.1 = n := by simpa using hp
      have hm : (n == m) = false := by simpa using fun e : n = m => hne e.symm
      have hm' : (p.1 == m) = false := by rw [hpn]; exact hm
      simp only [hp, if_true, hm, hm']; exact ih
    · simp only [hp, Bool.false_eq_true, if_false]
      by_cases hq : (p.1 == m) = true
      · simp [hq]
      · simp only [hq]; exact ih

theorem lookup_store_ne (b : Bucket) (n m : Nat) (f : File) (hne : m ≠ n) : lookup (store b n f) m = lookup b m := by
  unfold store
  split
  · exact lookup_map_replace_ne b n m f hne
  · unfold Slot.lookup
    rw [List.find?_append]
    have hm : (n == m) = false := by simpa using fun e : n = m => hne e.symm
    cases List.find? (fun x => x.1 == m) b <;> simp [hm]

/-- mutable containers: every (slot, lease) entry of `get_slot_leases` is kept, expiry not smaller -/
def KeptM (f f' : File) : Prop :=
  ∀ j x, (j, x) ∈ enumerateLeases f → ∃ x', (j, x') ∈ enumerateLeases f' ∧ x.expire ≤ x'.expire ∧
    x'.owner = x.owner ∧ x'.renew = x.renew ∧ x'.cancel = x.cancel ∧ x'.nodeid = x.nodeid

theorem KeptM.refl (f : File) : KeptM f f := fun _ x hx => ⟨x, hx, Nat.le_refl _, rfl, rfl, rfl, rfl⟩

theorem KeptM.trans {f g k : File} (a : KeptM f g) (b : KeptM g k) : KeptM f k := by
  intro j x hx
  obtain ⟨y, hy, e1, o1, r1, c1, n1⟩ := a j x hx
  obtain ⟨z, hz, e2, o2, r2, c2, n2⟩ := b j y hy
  exact ⟨z, hz, Nat.le_trans e1 e2, o2.trans o1, r2.trans r1, c2.trans c1, n2.trans n1⟩

theorem KeptM.of_meta {f f' : File} (h : SameMeta f f') : KeptM f f' := by
  intro j x hx; exact ⟨x, by rw [enumerateLeases_congr h]; exact hx, Nat.le_refl _, rfl, rfl, rfl, rfl⟩

/-- shares the request does not name are not touched by the write phase -/
theorem evalWrites_untouched (nodeid we : Bytes) (tw : List (Nat × TW)) :
    ∀ (b : Bucket) (rem : List Nat) (n : Nat), n ∉ tw.map (·.1) →
      lookup (evalWrites nodeid we b tw rem).1 n = lookup b n := by
  induction tw with
  | nil => intro b rem n _; rfl
  | cons p rest ih =>
    intro b rem n hn
    obtain ⟨m, t⟩ := p
    simp only [List.map_cons, List.mem_cons, not_or] at hn
    simp only [evalWrites]
    split
    · rw [ih _ _ n hn.2, lookup_erase_ne b m n hn.1]
    · generalize writev (targetFile nodeid we b m) t.datav t.newLength = r
      obtain ⟨f1, e⟩ := r
      cases e with
      | none => simp only; rw [ih _ _ n hn.2, lookup_store_ne b m n f1 hn.1]
      | some e => simp only; exact lookup_store_ne b m n f1 hn.1

/-- the write phase (whatever its outcome) changes no lease of a share that is still there afterwards -/
theorem evalWrites_meta (nodeid we : Bytes) (tw : List (Nat × TW)) (hnd : (tw.map (·.1)).Nodup) :
    ∀ (b : Bucket) (rem : List Nat) (n : Nat) (f f' : File), BucketWF b → lookup b n = some f →
      lookup (evalWrites nodeid we b tw rem).1 n = some f' → SameMeta f f' := by
  induction tw with
  | nil => intro b rem n f f' _ h1 h2; simp only [evalWrites] at h2; rw [h1] at h2; cases h2; exact SameMeta.refl f
  | cons p rest ih =>
    intro b rem n f f' hb h1 h2
    obtain ⟨m, t⟩ := p
    simp only [List.map_cons, List.nodup_cons] at hnd
    simp only [evalWrites] at h2
    by_cases hnm : n = m
    · subst hnm
      split at h2
      · rw [evalWrites_untouched nodeid we rest _ _ n hnd.1, lookup_erase_self] at h2; simp at h2
      · have htf : targetFile nodeid we b n = f := by unfold targetFile; rw [h1]
        have hw := writev_any f (hb.lookup h1) t.datav t.newLength
        rw [htf] at h2
        generalize writev f t.datav t.newLength = r at *
        obtain ⟨f1, e⟩ := r
        cases e with
        | none =>
          simp only at h2
          rw [evalWrites_untouched nodeid we rest _ _ n hnd.1, lookup_store_self] at h2
          cases h2; exact hw.2
        | some e =>
          simp only at h2
          rw [lookup_store_self] at h2
          cases h2; exact hw.2
    · split at h2
      · exact ih hnd.2 _ _ n f f' (hb.erase m) (by rw [lookup_erase_ne b m n hnm]; exact h1) h2
      · have hw := writev_any _ (targetFile_wf hb nodeid we m) t.datav t.newLength
        generalize writev (targetFile nodeid we b m) t.datav t.newLength = r at *
        obtain ⟨f1, e⟩ := r
        cases e with
        | none =>
          simp only at h2
          exact ih hnd.2 _ _ n f f' (hb.store m hw.1) (by rw [lookup_store_ne b m n f1 hnm]; exact h1) h2
        | some e =>
          simp only at h2
          rw [lookup_store_ne b m n f1 hnm, h1] at h2
          cases h2; exact SameMeta.refl f

/-- the lease phase keeps every lease of every share -/
theorem renewShares_keptM (env : Env) (li : Lease) (hexp : li.expire < 2 ^ 32) (ns : List Nat) :
    ∀ (b : Bucket) (n : Nat) (f f' : File), BucketWF b → lookup b n = some f →
      lookup (renewShares env li b ns).1 n = some f' → KeptM f f' := by
  induction ns with
  | nil => intro b n f f' _ h1 h2; simp only [renewShares] at h2; rw [h1] at h2; cases h2; exact KeptM.refl f
  | cons k rest ih =>
    intro b n f f' hb h1 h2
    simp only [renewShares] at h2
    cases hl : lookup b k with
    | none => simp only [hl] at h2; exact ih b n f f' hb h1 h2
    | some g =>
      simp only [hl] at h2
      have lw := addOrRenew_spec env.h g (hb.lookup hl) env.avail li
      have hk : KeptM g (addOrRenew env.h g env.avail li).1 :=
        fun j x hx => mut_addOrRenew_keeps env.h g (hb.lookup hl) env.avail li hexp j x hx
      generalize addOrRenew env.h g env.avail li = r at *
      obtain ⟨g', e⟩ := r
      by_cases hnk : n = k
      · subst hnk
        rw [h1] at hl; cases hl
        cases e with
        | none =>
          simp only at h2
          exact hk.trans (ih _ n g' f' (hb.store n lw.wf) (lookup_store_self b n g') h2)
        | some e =>
          simp only at h2
          rw [lookup_store_self] at h2; cases h2; exact hk
      · cases e with
        | none =>
          simp only at h2
          exact ih _ n f f' (hb.store k lw.wf) (by rw [lookup_store_ne b k n g' hnk]; exact h1) h2
        | some e =>
          simp only at h2
          rw [lookup_store_ne b k n g' hnk, h1] at h2; cases h2; exact KeptM.refl f

/-- `slot_testv_and_readv_and_writev` as a whole: a share that exists before and after the request keeps every
    lease (data writes, container growth and the request's own lease renewal included), whatever the outcome -/
theorem rtw_keptM (env : Env) (b : Bucket) (hb : BucketWF b) (we renew cancel : Bytes) (tw : List (Nat × TW))
    (hnd : (tw.map (·.1)).Nodup) (rv : List (Nat × Nat)) (rl : Bool) (hexp : env.now + renewalTime < 2 ^ 32)
    (n : Nat) (f f' : File) (h1 : lookup b n = some f)
    (h2 : lookup (rtw env b we renew cancel tw rv rl).bucket n = some f') : KeptM f f' := by
  have same : lookup b n = some f' → KeptM f f' := by
    intro h; rw [h1] at h; cases h; exact KeptM.refl f
  unfold rtw at h2
  split at h2
  · exact same h2
  · simp only at h2
    split at h2
    · exact same h2
    · split at h2
      · exact same h2
      · have hm := evalWrites_meta env.nodeid we tw hnd b [] n f
        have hw := evalWrites_wf env.nodeid we tw b [] hb
        split at h2
        · rename_i e; rw [e] at hm; exact KeptM.of_meta (hm f' hb h1 h2)
        · rename_i b1 rem e
          rw [e] at hm hw
          split at h2
          · exact KeptM.of_meta (hm f' hb h1 h2)
          · have hr := renewShares_keptM env (makeLease env renew cancel) hexp rem b1 n
            cases hl : lookup b1 n with
            | none =>
              -- the share was deleted by the write phase; the lease phase cannot bring it back
              have : ∀ (ns : List Nat) (bb : Bucket), lookup bb n = none →
                  lookup (renewShares env (makeLease env renew cancel) bb ns).1 n = none := by
                intro ns
                induction ns with
                | nil => intro bb h; exact h
                | cons k rest ih =>
                  intro bb h
                  simp only [renewShares]
                  cases hk : lookup bb k with
                  | none => exact ih bb h
                  | some g =>
                    have hnk : n ≠ k := by intro e; subst e; rw [h] at hk; cases hk
                    simp only
                    generalize addOrRenew env.h g env.avail (makeLease env renew cancel) = r
                    obtain ⟨g', e⟩ := r
                    cases e with
                    | none => simp only; exact ih _ (by rw [lookup_store_ne bb k n g' hnk]; exact h)
                    | some e => simp only; rw [lookup_store_ne bb k n g' hnk]; exact h
              have hnone := this rem b1 hl
              split at h2 <;> (rename_i e2; rw [e2] at hnone; simp only at hnone; rw [hnone] at h2; cases h2)
            | some g =>
              have k1 := KeptM.of_meta (hm g hb h1 hl)
              split at h2
              · rename_i e2; rw [e2] at hr; exact k1.trans (hr g f' hw hl h2)
              · rename_i e2; rw [e2] at hr; exact k1.trans (hr g f' hw hl h2)

/-! ### second proof round: unnamed shares, requests that return on the unrepaired server, lease counts -/

/-- the shares handed to the lease phase are shares the request names -/
theorem evalWrites_rem_subset (nodeid we : Bytes) (tw : List (Nat × TW)) :
    ∀ (b : Bucket) (rem : List Nat) (k : Nat), k ∈ (evalWrites nodeid we b tw rem).2.1 → k ∈ rem ∨ k ∈ tw.map (·.1) := by
  induction tw with
  | nil => intro b rem k hk; simp only [evalWrites, List.mem_reverse] at hk; exact Or.inl hk
  | cons p rest ih =>
    intro b rem k hk
    obtain ⟨m, t⟩ := p
    simp only [evalWrites] at hk
    simp only [List.map_cons, List.mem_cons]
    split at hk
    · rcases ih _ _ k hk with h | h
      · exact Or.inl h
      · exact Or.inr (Or.inr h)
    · generalize writev (targetFile nodeid we b m) t.datav t.newLength = r at hk
      obtain ⟨f1, e⟩ := r
      cases e with
      | none =>
        simp only at hk
        rcases ih _ _ k hk with h | h
        · rcases List.mem_cons.mp h with h | h
          · exact Or.inr (Or.inl h)
          · exact Or.inl h
        · exact Or.inr (Or.inr h)
      | some e => simp only [List.mem_reverse] at hk; exact Or.inl hk

/-- the lease phase touches only the shares it is given -/
theorem renewShares_untouched (env : Env) (li : Lease) (ns : List Nat) :
    ∀ (b : Bucket) (n : Nat), n ∉ ns → lookup (renewShares env li b ns).1 n = lookup b n := by
  induction ns with
  | nil => intro b n _; rfl
  | cons k rest ih =>
    intro b n hn
    simp only [List.mem_cons, not_or] at hn
    simp only [renewShares]
    cases hl : lookup b k with
    | none => exact ih b n hn.2
    | some g =>
      simp only
      generalize addOrRenew env.h g env.avail li = r
      obtain ⟨g', e⟩ := r
      cases e with
      | none => simp only; rw [ih _ n hn.2, lookup_store_ne b k n g' hn.1]
      | some e => simp only; exact lookup_store_ne b k n g' hn.1

/-- a share the request does not name is byte-for-byte untouched by the WHOLE request — test, write and lease
    phases — whatever its outcome, repaired or unrepaired server -/
theorem rtw_untouched (env : Env) (b : Bucket) (we renew cancel : Bytes) (tw : List (Nat × TW))
    (rv : List (Nat × Nat)) (rl : Bool) (n : Nat) (hn : n ∉ tw.map (·.1)) :
    lookup (rtw env b we renew cancel tw rv rl).bucket n = lookup b n := by
  unfold rtw
  split
  · rfl
  · simp only
    split
    · rfl
    · split
      · rfl
      · have hu := evalWrites_untouched env.nodeid we tw b [] n hn
        have hs := evalWrites_rem_subset env.nodeid we tw b []
        split
        · rename_i e; rw [e] at hu; exact hu
        · rename_i b1 rem e
          rw [e] at hu hs
          have hrem : n ∉ rem := by
            intro h
            rcases hs n h with h' | h'
            · simp at h'
            · exact hn h'
          split
          · exact hu
          · have hr := renewShares_untouched env (makeLease env renew cancel) rem b1 n hrem
            split
            · rename_i e2; rw [e2] at hr; exact hr.trans hu
            · rename_i e2; rw [e2] at hr; exact hr.trans hu

/-- a `writev` loop that did not raise had only admissible vectors -/
theorem writeAll_none_fits (dv : List (Nat × Bytes)) :
    ∀ f : File, WF f → (writeAll f dv).2 = none → FitsAll dv := by
  induction dv with
  | nil => intro f _ _ p hp; simp at hp
  | cons q rest ih =>
    intro f hwf hnone
    obtain ⟨o, d⟩ := q
    by_cases h : o + d.length ≤ MAX_SIZE
    · obtain ⟨f1, e1, w⟩ := wsd_ok f hwf o d h
      simp only [writeAll, e1] at hnone
      have hr := ih f1 w.wf hnone
      intro p hp
      rcases List.mem_cons.mp hp with hp | hp
      · subst hp; exact h
      · exact hr p hp
    · have e := wsd_err f hwf o d (by omega)
      simp only [writeAll, e] at hnone
      simp at hnone

theorem writev_none_fits (f : File) (hwf : WF f) (dv : List (Nat × Bytes)) (nl : Option Nat)
    (h : (writev f dv nl).2 = none) : FitsAll dv := by
  apply writeAll_none_fits dv f hwf
  unfold writev at h
  generalize writeAll f dv = r at *
  obtain ⟨f1, e⟩ := r
  cases e with
  | none => rfl
  | some e => simp at h

/-- a write phase that did not raise applied only admissible vectors -/
theorem evalWrites_none_fits (nodeid we : Bytes) (tw : List (Nat × TW)) :
    ∀ (b : Bucket) (rem : List Nat), BucketWF b → (evalWrites nodeid we b tw rem).2.2 = none → TwFits tw := by
  induction tw with
  | nil => intro b rem _ _ p hp; simp at hp
  | cons q rest ih =>
    intro b rem hb hnone
    obtain ⟨m, t⟩ := q
    simp only [evalWrites] at hnone
    split at hnone
    · rename_i h0
      have hr := ih _ _ (hb.erase m) hnone
      intro p hp hne
      rcases List.mem_cons.mp hp with hp | hp
      · subst hp; simp only [beq_iff_eq] at h0; exact absurd h0 hne
      · exact hr p hp hne
    · have hwf := targetFile_wf hb nodeid we m
      have hfit := writev_none_fits _ hwf t.datav t.newLength
      have hw := writev_any _ hwf t.datav t.newLength
      generalize writev (targetFile nodeid we b m) t.datav t.newLength = r at *
      obtain ⟨f1, e⟩ := r
      cases e with
      | some e => simp at hnone
      | none =>
        simp only at hnone
        have hr := ih _ _ (hb.store m hw.1) hnone
        intro p hp hne
        rcases List.mem_cons.mp hp with hp | hp
        · subst hp; exact hfit rfl
        · exact hr p hp hne

/-! ### lease counts under `renew_lease` and `allocate_buckets` -/

/-- same share numbers in the same order, every pair of files related by `R` -/
inductive BucketRel (R : File → File → Prop) : Bucket → Bucket → Prop where
  | nil : BucketRel R [] []
  | cons {p q : Nat × File} {t t' : Bucket} (h : p.1 = q.1 ∧ R p.2 q.2) (r : BucketRel R t t') :
      BucketRel R (p :: t) (q :: t')

theorem BucketRel.refl {R : File → File → Prop} (hR : ∀ f, R f f) (b : Bucket) : BucketRel R b b := by
  induction b with
  | nil => exact BucketRel.nil
  | cons p t ih => exact BucketRel.cons ⟨rfl, hR _⟩ ih

theorem BucketRel.lookup {R : File → File → Prop} {b b' : Bucket} (h : BucketRel R b b') (n : Nat) (f : File)
    (hl : lookup b n = some f) : ∃ f', lookup b' n = some f' ∧ R f f' := by
  unfold Slot.lookup at hl ⊢
  induction h with
  | nil => simp at hl
  | @cons p q t t' hpq _ ih =>
    simp only [List.find?_cons] at hl ⊢
    by_cases hp : (p.1 == n) = true
    · have hq : (q.1 == n) = true := by rw [← hpq.1]; exact hp
      simp only [hp, Option.map_some, Option.some.injEq] at hl
      simp only [hq, Option.map_some, Option.some.injEq]
      subst hl
      exact ⟨q.2, rfl, hpq.2⟩
    · have hq : ¬ (q.1 == n) = true := by rw [← hpq.1]; exact hp
      simp only [hp] at hl
      simp only [hq]
      exact ih hl

theorem renewAll_rel (R : File → File → Prop) (hR : ∀ f, R f f) (env : Env) (secret : Bytes) (tm : Nat)
    (hstep : ∀ f, ShareWF f → R f (shareRenew env f secret tm).1) (b : Bucket) (hb : MixedWF b) :
    BucketRel R b (renewAll env secret tm b).1 := by
  induction b with
  | nil => exact BucketRel.nil
  | cons p t ih =>
    obtain ⟨n, f⟩ := p
    have hk := hstep f (hb (n, f) (List.mem_cons_self ..))
    have iht := ih (fun q hq => hb q (List.mem_cons_of_mem _ hq))
    simp only [renewAll]
    generalize shareRenew env f secret tm = r at *
    obtain ⟨f', e⟩ := r
    cases e with
    | none => exact BucketRel.cons ⟨rfl, hk⟩ iht
    | some e => exact BucketRel.cons ⟨rfl, hk⟩ (BucketRel.refl hR t)

/-- the number of leases `get_leases` lists is the same -/
def SameCount (f f' : File) : Prop := (leasesOf f').length = (leasesOf f).length

theorem mut_renew_len (h : Bytes → Bytes) (f : File) (hwf : Mutable.WF f) (secret : Bytes) (t : Nat) (ht : t < 2 ^ 32) :
    (Mutable.getLeases (Mutable.renewLease h f secret t).1).length = (Mutable.getLeases f).length := by
  unfold Mutable.renewLease
  split
  · rfl
  · split
    · rfl
    · rename_i s _ i l hfind
      have hmem := (Mutable.findRenew_some hfind).1
      obtain ⟨ho, ho', he, hr, hc, hn⟩ := listed_lease f hwf i l hmem
      split
      · simp only
        unfold Mutable.getLeases
        rw [enumerateLeases_write f hwf i l { l with expire := t } hmem _ (length_serMut _)
          (by unfold decodeRec; rw [parseMut_serMut { l with expire := t } ho' ht hr hc hn]; simp [ho])]
        simp
      · rfl

/-- `renew_lease` on a share file of either kind never changes the number of its leases -/
theorem shareRenew_count (env : Env) (secret : Bytes) (t : Nat) (ht : t < 2 ^ 32) (f : File) (hwf : ShareWF f) :
    SameCount f (shareRenew env f secret t).1 := by
  unfold ShareWF at hwf
  unfold SameCount shareRenew
  cases hk : kindOf f with
  | mutable =>
    rw [hk] at hwf
    simp only
    have hs := (renewLease_spec env.h f hwf secret t).schema
    have hk' : kindOf (Mutable.renewLease env.h f secret t).1 = .mutable :=
      kindOf_mutable (by rw [hs]; exact kindOf_mutable_iff.mp hk)
    rw [leasesOf_mutable hk', leasesOf_mutable hk]
    exact mut_renew_len env.h f hwf secret t ht
  | immutable =>
    rw [hk] at hwf
    simp only
    obtain ⟨hs, hw, hn⟩ := imm_renew_schema env.h f hwf.1 secret t
    have hk' : kindOf (ImmL.renewLease env.h f secret t).1 = .immutable :=
      kindOf_immutable (by rw [hs]; exact kindOf_immutable_iff.mp hk)
    rw [leasesOf_immutable hk', leasesOf_immutable hk, ImmL.length_getLeases hw, ImmL.length_getLeases hwf.1, hn]
  | other => rfl

/-- the bucket and the error of `allocate_buckets` are those of putting its lease on the shares already held -/
theorem allocate_eq (env : Env) (b : Bucket) (inc : Incoming) (n size : Nat) (renew cancel : Bytes) :
    (allocate env b inc n size renew cancel).1 = (addLeaseAll env
      { owner := 0, expire := env.now + renewalTime, renew := renew, cancel := cancel, nodeid := env.nodeid } b).1 ∧
    (allocate env b inc n size renew cancel).2.2.2 = (addLeaseAll env
      { owner := 0, expire := env.now + renewalTime, renew := renew, cancel := cancel, nodeid := env.nodeid } b).2 := by
  simp only [allocate]
  split
  · rename_i e; rw [e]; exact ⟨rfl, rfl⟩
  · rename_i e; rw [e]
    split
    · exact ⟨rfl, rfl⟩
    · split <;> exact ⟨rfl, rfl⟩

end Tahoe.Storage.Slot
