import Tahoe.Storage.Immutable
import Tahoe.Storage.ImmSpec
/-! Helper lemmas for the immutable-storage model (used by Props/C22, C28, C29). Mathlib-free. -/
namespace Tahoe.Storage.Imm
open Tahoe.Base.File

/-! ### association lists -/

theorem getK_eraseK {α : Type} (k k' : Key) (l : List (Key × α)) :
    getK k' (eraseK k l) = if k = k' then none else getK k' l := by
  induction l with
  | nil => simp [eraseK, getK]
  | cons e rest ih =>
    obtain ⟨ke, v⟩ := e
    simp only [eraseK] at ih
    by_cases h1 : ke = k
    · subst h1
      simp only [eraseK, List.filter_cons, ne_eq, not_true_eq_false, decide_false, getK]
      simp only [Bool.false_eq_true, if_false]
      rw [ih]; split <;> simp_all
    · simp only [eraseK, List.filter_cons, ne_eq, h1, not_false_eq_true, decide_true, if_true, getK]
      rw [ih]
      by_cases h2 : ke = k'
      · subst h2; simp [Ne.symm h1]
      · simp [h2]

theorem getK_setK {α : Type} (k k' : Key) (v : α) (l : List (Key × α)) :
    getK k' (setK k v l) = if k = k' then some v else getK k' l := by
  simp only [setK, getK]
  split
  · rfl
  · rename_i h; rw [getK_eraseK]; simp [h]

theorem getK_none_iff {α : Type} (k : Key) (l : List (Key × α)) :
    getK k l = none ↔ k ∉ l.map (·.1) := by
  induction l with
  | nil => simp [getK]
  | cons e rest ih =>
    obtain ⟨ke, v⟩ := e
    simp only [getK, List.map_cons, List.mem_cons]
    by_cases h : ke = k
    · simp [h]
    · simp [h, ih]; grind

theorem keys_eraseK_sub {α : Type} (k : Key) (l : List (Key × α)) :
    ((eraseK k l).map (·.1)).Sublist (l.map (·.1)) :=
  (List.filter_sublist).map _

theorem nodup_eraseK {α : Type} (k : Key) (l : List (Key × α)) (h : (l.map (·.1)).Nodup) :
    ((eraseK k l).map (·.1)).Nodup := h.sublist (keys_eraseK_sub k l)

theorem not_mem_keys_eraseK {α : Type} (k : Key) (l : List (Key × α)) :
    k ∉ (eraseK k l).map (·.1) := by
  simp [eraseK]

theorem nodup_setK {α : Type} (k : Key) (v : α) (l : List (Key × α)) (h : (l.map (·.1)).Nodup) :
    ((setK k v l).map (·.1)).Nodup := by
  simp only [setK, List.map_cons, List.nodup_cons]
  exact ⟨not_mem_keys_eraseK k l, nodup_eraseK k l h⟩

theorem findWid_mem (wid : Nat) (l : List (Key × (Writer × File))) (e) (h : findWid wid l = some e) :
    e ∈ l ∧ e.2.1.wid = wid := by
  induction l with
  | nil => simp [findWid] at h
  | cons x rest ih =>
    simp only [findWid] at h
    split at h
    · simp at h; subst h; simp_all
    · have := ih h; simp_all

theorem getK_of_mem_nodup {α : Type} (l : List (Key × α)) (h : (l.map (·.1)).Nodup) (e : Key × α)
    (he : e ∈ l) : getK e.1 l = some e.2 := by
  induction l with
  | nil => simp at he
  | cons x rest ih =>
    obtain ⟨kx, vx⟩ := x
    simp only [List.map_cons, List.nodup_cons] at h
    simp only [getK]
    rcases List.mem_cons.mp he with rfl | hm
    · simp
    · have hne : kx ≠ e.1 := by
        intro heq; apply h.1; rw [heq]; exact List.mem_map_of_mem hm
      simp [hne, ih h.2 hm]

theorem findWid_getK (wid : Nat) (l : List (Key × (Writer × File))) (h : (l.map (·.1)).Nodup) (e)
    (hf : findWid wid l = some e) : getK e.1 l = some e.2 :=
  getK_of_mem_nodup l h e (findWid_mem wid l e hf).1

/-! ### RangeMap -/

theorem rmMem_cons (r : Nat × Nat) (w : Ranges) (x : Nat) :
    rmMem (r :: w) x = ((decide (r.1 ≤ x) && decide (x < r.2)) || rmMem w x) := by
  simp [rmMem]

/-- `set(True, a, b)` adds exactly the points of `[a, b)` -/
theorem rmMem_rmSet (w : Ranges) (a b x : Nat) :
    rmMem (rmSet w a b) x = (rmMem w x || (decide (a ≤ x) && decide (x < b))) := by
  induction w generalizing a b with
  | nil => simp [rmSet, rmMem]
  | cons r rest ih =>
    obtain ⟨s, e⟩ := r
    simp only [rmSet]
    split
    · simp only [rmMem_cons, ih, Bool.or_assoc]
    · split
      · simp only [rmMem_cons]
        cases rmMem rest x <;> simp <;> grind
      · rw [ih]; simp only [rmMem_cons]
        cases rmMem rest x <;> simp <;> grind

theorem rmMem_iff (w : Ranges) (x : Nat) :
    rmMem w x = true ↔ ∃ r ∈ w, r.1 ≤ x ∧ x < r.2 := by
  simp [rmMem]


/-! ### container bytes -/

theorem numLeases_pwrite (f : File) (off : Nat) (d : Bytes) (h : 12 ≤ off) (hf : 12 ≤ f.length) :
    numLeases (pwrite f off d) = numLeases f := by
  simp only [numLeases]; rw [pread_pwrite_lt f off d 8 4 (by omega) (by omega)]

theorem version_pwrite (f : File) (off : Nat) (d : Bytes) (h : 4 ≤ off) (hf : 4 ≤ f.length) :
    version (pwrite f off d) = version f := by
  simp only [version]; rw [pread_pwrite_lt f off d 0 4 (by omega) (by omega)]

theorem length_header (n : Nat) : (header n).length = 12 := by simp [header]

theorem version_header (n : Nat) : version (header n) = 2 := by
  simp only [version, header, pread, List.drop_zero, List.append_assoc]
  rw [List.take_append_of_le_length (by simp)]
  simp only [List.take_of_length_le (Nat.le_of_eq (length_packBE 4 2))]
  decide

theorem length_newContainer (size : Nat) (rec : Bytes) (hr : rec.length = 72) :
    (newContainer size rec).length = 12 + size + 72 := by
  simp only [newContainer, writeLeaseRecord, length_pwrite, length_header, length_packBE, hr]
  simp; omega

theorem numLeases_newContainer (size : Nat) (rec : Bytes) : numLeases (newContainer size rec) = 1 := by
  simp only [numLeases, newContainer]
  have := pread_pwrite_eq (writeLeaseRecord (size + 12) (header size) 0 rec) 8 (packBE 4 1)
  rw [length_packBE] at this
  rw [this]; decide

theorem version_newContainer (size : Nat) (rec : Bytes) : version (newContainer size rec) = 2 := by
  simp only [newContainer, writeLeaseRecord]
  rw [version_pwrite _ _ _ (by omega) (by rw [length_pwrite]; split <;> simp [length_header] <;> omega)]
  rw [version_pwrite _ _ _ (by omega) (by simp [length_header])]
  exact version_header size

theorem zero_newContainer (size : Nat) (rec : Bytes) (hr : rec.length = 72) (i : Nat) (hi : i < size) :
    (newContainer size rec)[12 + i]? = some 0 := by
  simp only [newContainer, writeLeaseRecord, getElem?_pwrite, length_packBE, length_header, hr]
  have h1 : ¬ (12 + i < 8) := by omega
  have h2 : ¬ (12 + i < 8 + 4) := by omega
  have h3 : 12 + i < size + 12 + 0 * 72 := by omega
  have h4 : ¬ (12 + i < 12) := by omega
  simp [h1, h2, h3]

theorem cellAt_cellsOf (w : Writer) (f : File) (i : Nat) :
    cellAt (cellsOf w f) i = if i < w.maxSize ∧ rmMem w.written i = true then f[12 + i]? else none := by
  simp only [cellAt, cellsOf, List.getElem?_map]
  by_cases h : i < w.maxSize
  · simp [h]
  · simp [h]

theorem wfInc_new (s : Server) (size : Nat) (rec : Bytes) (hr : rec.length = 72) :
    WFInc (mkWriter s size) (newContainer size rec) where
  len := length_newContainer size rec hr
  nl := numLeases_newContainer size rec
  ver := version_newContainer size rec
  bound := by simp [mkWriter, rmMem]
  zero := fun i hi _ => zero_newContainer size rec hr i hi

theorem cellsOf_new (s : Server) (size : Nat) (rec : Bytes) :
    cellsOf (mkWriter s size) (newContainer size rec) = List.replicate size none := by
  apply List.ext_getElem?; intro i
  simp [cellsOf, mkWriter, rmMem, List.getElem?_replicate]
  split <;> simp_all


/-! ### the conflict check of `BucketWriter.write` -/

theorem readShareData_eq (lo : Nat) (f : File) (off len : Nat) :
    readShareData lo f off len = pread f (12 + off) (min len (lo - (12 + off))) := by
  simp only [readShareData]
  split
  · rename_i h; rw [h, pread_zero]
  · rfl

/-- some already-written offset in the window holds a byte different from the one being written -/
def ConflictAt (w : Writer) (f : File) (off : Nat) (data : Bytes) : Prop :=
  ∃ x, off ≤ x ∧ x < off + data.length ∧ rmMem w.written x = true ∧ f[12 + x]? ≠ data[x - off]?

theorem conflicts_iff (w : Writer) (f : File) (off : Nat) (data : Bytes) (h : WFInc w f) :
    conflicts w f off data = true ↔ ConflictAt w f off data := by
  simp only [conflicts, List.any_eq_true, rmRanges, List.mem_filterMap, ConflictAt]
  constructor
  · rintro ⟨c, ⟨r, hr, hc⟩, hne⟩
    split at hc
    · rename_i hlt
      simp only [Option.some.injEq] at hc; subst hc
      simp only [bne_iff_ne, ne_eq] at hne
      have hr2 : r.2 ≤ w.maxSize := by
        have := h.bound (r.2 - 1) ((rmMem_iff _ _).mpr ⟨r, hr, by omega, by omega⟩); omega
      rw [readShareData_eq] at hne
      have hmin : min (min r.2 (off + data.length) - max r.1 off)
          (w.maxSize + 12 - (12 + max r.1 off)) = min r.2 (off + data.length) - max r.1 off := by omega
      rw [hmin] at hne
      have : ∃ j : Nat, (pread f (12 + max r.1 off) (min r.2 (off + data.length) - max r.1 off))[j]? ≠
          (pread data (max r.1 off - off) (min r.2 (off + data.length) - max r.1 off))[j]? := by
        apply Classical.byContradiction; intro hall
        apply hne; apply List.ext_getElem?; intro j
        apply Classical.byContradiction; intro hj; exact hall ⟨j, hj⟩
      obtain ⟨j, hj⟩ := this
      simp only [getElem?_pread] at hj
      by_cases hjn : j < min r.2 (off + data.length) - max r.1 off
      · simp only [hjn, if_true] at hj
        refine ⟨max r.1 off + j, by omega, by omega, (rmMem_iff _ _).mpr ⟨r, hr, by omega, by omega⟩, ?_⟩
        have e1 : 12 + (max r.1 off + j) = 12 + max r.1 off + j := by omega
        have e2 : max r.1 off + j - off = max r.1 off - off + j := by omega
        rw [e1, e2]; exact hj
      · simp [hjn] at hj
    · simp at hc
  · rintro ⟨x, hx1, hx2, hm, hne⟩
    obtain ⟨r, hr, hr1, hr2⟩ := (rmMem_iff _ _).mp hm
    have hlt : max r.1 off < min r.2 (off + data.length) := by omega
    refine ⟨(max r.1 off, min r.2 (off + data.length)), ⟨r, hr, by simp [hlt]⟩, ?_⟩
    simp only [bne_iff_ne, ne_eq]
    intro heq
    have hrm : r.2 ≤ w.maxSize := by
      have := h.bound (r.2 - 1) ((rmMem_iff _ _).mpr ⟨r, hr, by omega, by omega⟩); omega
    rw [readShareData_eq] at heq
    have hmin : min (min r.2 (off + data.length) - max r.1 off)
        (w.maxSize + 12 - (12 + max r.1 off)) = min r.2 (off + data.length) - max r.1 off := by omega
    rw [hmin] at heq
    have := congrArg (fun l => l[x - max r.1 off]?) heq
    simp only [getElem?_pread] at this
    have hj : x - max r.1 off < min r.2 (off + data.length) - max r.1 off := by omega
    simp only [hj, if_true] at this
    have e1 : 12 + max r.1 off + (x - max r.1 off) = 12 + x := by omega
    have e2 : max r.1 off - off + (x - max r.1 off) = x - off := by omega
    rw [e1, e2] at this
    exact hne this

theorem specConflict_cellsOf (w : Writer) (f : File) (off : Nat) (data : Bytes) (h : WFInc w f) :
    specConflict (cellsOf w f) off data = true ↔ ConflictAt w f off data := by
  simp only [specConflict, List.any_eq_true, List.mem_range, ConflictAt]
  have hfl : ∀ x, x < w.maxSize → ∃ b, f[12 + x]? = some b := by
    intro x hx
    have : 12 + x < f.length := by rw [h.len]; omega
    exact ⟨f[12 + x], by simp [this]⟩
  constructor
  · rintro ⟨j, hj, hc⟩
    rw [cellAt_cellsOf] at hc
    split at hc
    · rename_i b hb
      split at hb
      · rename_i hcond
        refine ⟨off + j, by omega, by omega, hcond.2, ?_⟩
        have e : off + j - off = j := by omega
        rw [e, hb]; intro heq; simp [heq] at hc
      · simp at hb
    · simp at hc
  · rintro ⟨x, hx1, hx2, hm, hne⟩
    refine ⟨x - off, by omega, ?_⟩
    have e : off + (x - off) = x := by omega
    rw [e, cellAt_cellsOf]
    have hxm := h.bound x hm
    obtain ⟨b, hb⟩ := hfl x hxm
    simp only [hxm, hm, and_self, if_true, hb]
    simp only [bne_iff_ne, ne_eq]
    intro heq; rw [hb] at hne; exact hne heq.symm

theorem conflicts_eq_spec (w : Writer) (f : File) (off : Nat) (data : Bytes) (h : WFInc w f) :
    conflicts w f off data = specConflict (cellsOf w f) off data := by
  have a := conflicts_iff w f off data h
  have b := specConflict_cellsOf w f off data h
  cases h1 : conflicts w f off data <;> cases h2 : specConflict (cellsOf w f) off data <;> simp_all


/-! ### `BucketWriter.write` against the write-once array -/

theorem bwWrite_spec (w : Writer) (f : File) (off : Nat) (data : Bytes) (h : WFInc w f) :
    let r := bwWrite w f off data
    cellsOf r.1 r.2.1 = (specWrite w.maxSize (cellsOf w f) off data).1 ∧
    toSpecRes r.2.2 = (specWrite w.maxSize (cellsOf w f) off data).2 ∧
    r.1.maxSize = w.maxSize ∧ r.1.wid = w.wid ∧ WFInc r.1 r.2.1 := by
  simp only [bwWrite, specWrite, ← conflicts_eq_spec w f off data h]
  by_cases hc : conflicts w f off data = true
  · simp [hc, toSpecRes, h]
  · simp only [hc, Bool.false_eq_true, if_false]
    by_cases hl : off + data.length > w.maxSize
    · simp [hl, toSpecRes, h]
    · simp only [hl, if_false]
      by_cases h0 : data.length = 0
      · have : pwrite f (12 + off) data = f := by simp [pwrite, h0]
        simp [h0, toSpecRes, this, h]
      · simp only [h0, if_false, toSpecRes, true_and]
        have hfl : f.length = 12 + w.maxSize + 72 := h.len
        refine ⟨?_, ?_⟩
        · -- cells
          conv => lhs; simp only [cellsOf]
          simp only [specWriteCells]
          apply List.map_congr_left
          intro i hi
          simp only [List.mem_range] at hi
          rw [rmMem_rmSet, getElem?_pwrite, cellAt_cellsOf]
          simp only [h0, if_false]
          by_cases hw : off ≤ i ∧ i < off + data.length
          · have a1 : ¬ (12 + i < 12 + off) := by omega
            have a2 : 12 + i < 12 + off + data.length := by omega
            have a3 : 12 + i - (12 + off) = i - off := by omega
            simp [hw, a1, a2, a3]
          · have hdec : (decide (off ≤ i) && decide (i < off + data.length)) = false := by
              simp; omega
            simp only [hdec, Bool.or_false, hw, if_false, hi, true_and]
            by_cases hm : rmMem w.written i = true
            · simp only [hm, if_true]
              by_cases a1 : 12 + i < 12 + off
              · have : 12 + i < f.length := by omega
                simp [a1, this]
              · have a2 : ¬ (12 + i < 12 + off + data.length) := by omega
                simp [a1, a2]
            · simp [hm]
        · -- invariant
          have hlen : (pwrite f (12 + off) data).length = f.length :=
            length_pwrite_of_le f (12 + off) data (by omega)
          refine ⟨by rw [hlen]; exact hfl, ?_, ?_, ?_, ?_⟩
          · rw [numLeases_pwrite f _ _ (by omega) (by omega)]; exact h.nl
          · rw [version_pwrite f _ _ (by omega) (by omega)]; exact h.ver
          · intro x hx
            show x < w.maxSize
            dsimp only at hx
            rw [rmMem_rmSet] at hx
            simp only [Bool.or_eq_true, Bool.and_eq_true, decide_eq_true_eq] at hx
            rcases hx with hx | hx
            · exact h.bound x hx
            · omega
          · intro i hi hx
            dsimp only at hi hx
            rw [rmMem_rmSet] at hx
            simp only [Bool.or_eq_false_iff, Bool.and_eq_false_iff, decide_eq_false_iff_not] at hx
            have hz := h.zero i hi hx.1
            rw [getElem?_pwrite]
            simp only [h0, if_false]
            by_cases a1 : 12 + i < 12 + off
            · have : 12 + i < f.length := by omega
              rw [if_pos a1, if_pos this]; exact hz
            · have a2 : ¬ (12 + i < 12 + off + data.length) := by omega
              rw [if_neg a1, if_neg a2]; exact hz


/-! ### lease operations never touch the share data of a completed container -/

/-- the data bytes of a completed container as a reader sees them -/
def shareData (f : File) : Bytes := pread f 12 (shareLength f)

/-- `f'` is a well-formed container holding the same share data as `f` -/
def SameData (f f' : File) : Prop := WFFin f' ∧ shareData f' = shareData f ∧ shareLength f' = shareLength f

theorem sameData_refl (f : File) (h : WFFin f) : SameData f f := ⟨h, rfl, rfl⟩

theorem sameData_trans {f g k : File} (a : SameData f g) (b : SameData g k) : SameData f k :=
  ⟨b.1, b.2.1.trans a.2.1, b.2.2.trans a.2.2⟩

/-- an in-place write inside the lease area -/
theorem sameData_pwrite_leases (f : File) (h : WFFin f) (o : Nat) (d : Bytes)
    (h1 : 12 + shareLength f ≤ o) (h2 : o + d.length ≤ f.length) :
    SameData f (pwrite f o d) := by
  have hl : (pwrite f o d).length = f.length := length_pwrite_of_le f o d h2
  have hlen := h.len
  have hn : numLeases (pwrite f o d) = numLeases f := numLeases_pwrite f o d (by omega) (by omega)
  have hs : shareLength (pwrite f o d) = shareLength f := by simp only [shareLength, hl, hn]
  refine ⟨⟨?_, by rw [hl, hn]; exact hlen⟩, ?_, hs⟩
  · rw [version_pwrite f o d (by omega) (by omega)]; exact h.ver
  · simp only [shareData, hs]
    exact pread_pwrite_lt f o d 12 (shareLength f) h1 (by simp only [shareLength]; omega)

theorem sameData_addLease (f : File) (h : WFFin f) (rec : Bytes) (hr : rec.length = 72) (f' : File)
    (ha : addLease (f.length - numLeases f * 72) f rec = some f') : SameData f f' := by
  simp only [addLease, writeLeaseRecord] at ha
  split at ha
  · rename_i hn
    simp only [Option.some.injEq] at ha; subst ha
    have hlen := h.len
    have e : f.length - numLeases f * 72 + numLeases f * 72 = f.length := by omega
    rw [e]
    have hl1 : (pwrite f f.length rec).length = f.length + 72 := by
      rw [length_pwrite]; simp [hr]
    have hl2 : (pwrite (pwrite f f.length rec) 8 (packBE 4 (numLeases f + 1))).length = f.length + 72 := by
      rw [length_pwrite_of_le _ _ _ (by rw [hl1, length_packBE]; omega), hl1]
    have hn2 : numLeases (pwrite (pwrite f f.length rec) 8 (packBE 4 (numLeases f + 1))) = numLeases f + 1 := by
      have := pread_pwrite_eq (pwrite f f.length rec) 8 (packBE 4 (numLeases f + 1))
      rw [length_packBE] at this
      show unpackBE (pread _ 8 4) = _
      rw [this]; exact unpackBE_packBE_of_lt 4 _ (by simpa using hn)
    have hs : shareLength (pwrite (pwrite f f.length rec) 8 (packBE 4 (numLeases f + 1))) = shareLength f := by
      simp only [shareLength, hl2, hn2]; omega
    refine ⟨⟨?_, by rw [hl2, hn2]; omega⟩, ?_, hs⟩
    · simp only [version]
      rw [pread_pwrite_lt _ 8 _ 0 4 (by omega) (by rw [hl1]; omega)]
      rw [pread_pwrite_lt f _ _ 0 4 (by omega) (by omega)]
      exact h.ver
    · simp only [shareData, hs]
      rw [pread_pwrite_gt _ 8 _ 12 _ (by rw [length_packBE]; omega)]
      exact pread_pwrite_lt f _ _ 12 _ (by simp only [shareLength]; omega) (by simp only [shareLength]; omega)
  · simp at ha

theorem length_getLeases_le (lo : Nat) (f : File) : (getLeases lo f).length ≤ numLeases f := by
  simp only [getLeases]
  exact Nat.le_trans (List.length_filterMap_le _ _) (by simp)

theorem sameData_renewLoop (f : File) (h : WFFin f) (rec : Bytes) (ls : List Bytes) (i : Nat)
    (hi : i + ls.length ≤ numLeases f) (f' : File)
    (hr : renewLoop (f.length - numLeases f * 72) f rec i ls = some f') : SameData f f' := by
  induction ls generalizing i with
  | nil => simp [renewLoop] at hr
  | cons l rest ih =>
    simp only [renewLoop] at hr
    simp only [List.length_cons] at hi
    split at hr
    · split at hr
      · simp only [Option.some.injEq, writeLeaseRecord] at hr; subst hr
        have hlen := h.len
        apply sameData_pwrite_leases f h
        · simp only [shareLength]; omega
        · have : (pread l 0 68 ++ pread rec 68 4).length ≤ 72 := by
            simp only [List.length_append, length_pread]; omega
          have : (i + 1) * 72 ≤ numLeases f * 72 := Nat.mul_le_mul_right 72 (by omega)
          omega
      · simp only [Option.some.injEq] at hr; subst hr; exact sameData_refl f h
    · exact ih (i + 1) (by omega) hr

theorem sameData_addOrRenew (f : File) (h : WFFin f) (avail : Nat) (rec : Bytes) (hr : rec.length = 72)
    (f' : File) (ha : addOrRenew avail (f.length - numLeases f * 72) f rec = .ok f') : SameData f f' := by
  simp only [addOrRenew, renewLease] at ha
  split at ha
  · rename_i g hg
    simp only [LeaseRes.ok.injEq] at ha; subst ha
    exact sameData_renewLoop f h rec _ 0 (by simpa using length_getLeases_le _ f) _ hg
  · split at ha
    · simp at ha
    · split at ha
      · rename_i g hg
        simp only [LeaseRes.ok.injEq] at ha; subst ha
        exact sameData_addLease f h rec hr _ hg
      · simp at ha

theorem openLeaseOffset_wf (f : File) (h : WFFin f) :
    openLeaseOffset f = some (f.length - numLeases f * 72) := by
  have := h.len
  simp [openLeaseOffset, h.ver]; omega

end Tahoe.Storage.Imm
