import Tahoe.Storage.LemmasMutable
/-!
Helper lemmas about the lease functions of the mutable container (C23 `WF` preservation, C25).
-/
namespace Tahoe.Storage.Mutable
open Tahoe.Base.File Tahoe.Storage

theorem filterMap_congr' {α β : Type} {l : List α} {f g : α → Option β} (h : ∀ x ∈ l, f x = g x) :
    l.filterMap f = l.filterMap g := by
  induction l with
  | nil => rfl
  | cons a t ih =>
    simp only [List.filterMap_cons, h a (List.mem_cons_self ..)]
    rw [ih (fun x hx => h x (List.mem_cons_of_mem _ hx))]

theorem find?_congr' {α : Type} {l : List α} {p q : α → Bool} (h : ∀ x ∈ l, p x = q x) :
    l.find? p = l.find? q := by
  induction l with
  | nil => rfl
  | cons a t ih =>
    simp only [List.find?_cons, h a (List.mem_cons_self ..)]
    rw [ih (fun x hx => h x (List.mem_cons_of_mem _ hx))]

/-- leases are a function of the metadata only -/
theorem readLeaseRecord_congr {f f' : File} (h : SameMeta f f') (i : Nat) :
    readLeaseRecord f' i = readLeaseRecord f i := by
  unfold readLeaseRecord slotOff
  rw [h.num]
  by_cases h1 : i < 4
  · simp only [h1, if_true]
    have e : ∀ g : File, pread g (100 + i * 92) 92 = pread (slots4 g) (i * 92) 92 := by
      intro g; unfold slots4; rw [pread_pread _ _ _ _ _ (by omega)]
    rw [e f', e f, h.s4]
  · simp only [h1, if_false]
    by_cases h2 : i - 4 < numExtra f
    · simp only [h2, if_true]
      have e : ∀ g : File, numExtra g = numExtra f →
          pread g (extOff g + 4 + (i - 4) * 92) 92 = pread (leaseBlock g) (4 + (i - 4) * 92) 92 := by
        intro g hg; unfold leaseBlock
        rw [pread_pread _ _ _ _ _ (by rw [hg]; omega), Nat.add_assoc]
      rw [e f' h.num, e f rfl, h.blk]
    · simp only [h2, if_false]

theorem enumerateLeases_congr {f f' : File} (h : SameMeta f f') : enumerateLeases f' = enumerateLeases f := by
  unfold enumerateLeases numLeaseSlots
  rw [h.num]
  apply filterMap_congr'
  intro i _
  rw [readLeaseRecord_congr h i]

theorem getLeases_congr {f f' : File} (h : SameMeta f f') : getLeases f' = getLeases f := by
  unfold getLeases; rw [enumerateLeases_congr h]

theorem firstEmptySlot_congr {f f' : File} (h : SameMeta f f') : firstEmptySlot f' = firstEmptySlot f := by
  unfold firstEmptySlot numLeaseSlots
  rw [h.num]
  apply find?_congr'
  intro i _
  rw [readLeaseRecord_congr h i]

/-! ### `_write_lease_record` -/

/-- what a lease-record write keeps: everything below the lease slots and the whole data area -/
structure LeaseWrote (f g : File) : Prop where
  wf : WF g
  frame : ∀ o m, (o + m ≤ 100 ∨ (468 ≤ o ∧ o + m ≤ extOff f)) → pread g o m = pread f o m
  num_ge : numExtra f ≤ numExtra g

theorem LeaseWrote.ext {f g : File} (h : LeaseWrote f g) : extOff g = extOff f := by
  exact congrArg unpackBE (h.frame 92 8 (Or.inl (by omega)))

theorem LeaseWrote.dlen {f g : File} (h : LeaseWrote f g) : dataLength g = dataLength f := by
  exact congrArg unpackBE (h.frame 84 8 (Or.inl (by omega)))

theorem LeaseWrote.data {f g : File} (hwf : WF f) (h : LeaseWrote f g) : absData g = absData f := by
  unfold absData; rw [h.dlen]; exact h.frame 468 _ (Or.inr ⟨by omega, by have := hwf.data_le; omega⟩)

theorem LeaseWrote.enabler {f g : File} (h : LeaseWrote f g) : enabler g = enabler f := by
  unfold Mutable.enabler; exact h.frame 52 32 (Or.inl (by omega))

theorem LeaseWrote.schema {f g : File} (h : LeaseWrote f g) : schemaOf g = schemaOf f := by
  unfold schemaOf; rw [h.frame 0 32 (Or.inl (by omega))]

theorem LeaseWrote.refl {f : File} (hwf : WF f) : LeaseWrote f f := ⟨hwf, fun _ _ _ => rfl, Nat.le_refl _⟩

theorem unpack_packU32_small (n : Nat) (h : n < 2 ^ 32) : unpackBE (packU32 n) = n := unpackBE_packU32 n h

theorem writeLeaseRecord_spec (f : File) (hwf : WF f) (i : Nat) (rec : Bytes) (hrec : rec.length = 92)
    (hi : i ≤ 4 + numExtra f) (hn : i < 4 + numExtra f ∨ numExtra f + 1 < 2 ^ 32) :
    LeaseWrote f (writeLeaseRecord f i rec) ∧
    numExtra (writeLeaseRecord f i rec) = (if i < 4 + numExtra f then numExtra f else numExtra f + 1) := by
  have hdata := hwf.data_le; have hext := hwf.ext_le; have hlen := hwf.len_ge
  unfold writeLeaseRecord
  by_cases h1 : i < 4
  · simp only [h1, if_true]
    have hin : 100 + i * 92 + rec.length ≤ f.length := by omega
    have hl := length_pwrite_of_le f _ rec hin
    have fr : ∀ o m, (o + m ≤ 100 ∨ 468 ≤ o) → pread (pwrite f (100 + i * 92) rec) o m = pread f o m := by
      intro o m hor; apply pread_pwrite_disj; omega
    have he : extOff (pwrite f (100 + i * 92) rec) = extOff f := congrArg unpackBE (fr 92 8 (Or.inl (by omega)))
    have hnum : numExtra (pwrite f (100 + i * 92) rec) = numExtra f := by
      unfold numExtra; rw [he]; exact congrArg unpackBE (fr (extOff f) 4 (Or.inr (by omega)))
    have hd : dataLength (pwrite f (100 + i * 92) rec) = dataLength f := by
      exact congrArg unpackBE (fr 84 8 (Or.inl (by omega)))
    have hlt : i < 4 + numExtra f := by omega
    refine ⟨⟨⟨by rw [hd, he]; exact hdata, by rw [he]; exact hext, by rw [he, hnum, hl]; exact hlen⟩, ?_, by rw [hnum]; exact Nat.le_refl _⟩,
      by rw [hnum, if_pos hlt]⟩
    intro o m hor; apply fr; omega
  · simp only [h1, if_false]
    by_cases h2 : i - 4 < numExtra f
    · simp only [h2, if_true]
      have hin : extOff f + 4 + (i - 4) * 92 + rec.length ≤ f.length := by omega
      have hl := length_pwrite_of_le f _ rec hin
      have fr : ∀ o m, (o + m ≤ extOff f + 4) → pread (pwrite f (extOff f + 4 + (i - 4) * 92) rec) o m = pread f o m := by
        intro o m hor; apply pread_pwrite_disj; omega
      have he : extOff (pwrite f (extOff f + 4 + (i - 4) * 92) rec) = extOff f := by
        exact congrArg unpackBE (fr 92 8 (by omega))
      have hnum : numExtra (pwrite f (extOff f + 4 + (i - 4) * 92) rec) = numExtra f := by
        unfold numExtra; rw [he]; exact congrArg unpackBE (fr (extOff f) 4 (by omega))
      have hd : dataLength (pwrite f (extOff f + 4 + (i - 4) * 92) rec) = dataLength f := by
        exact congrArg unpackBE (fr 84 8 (by omega))
      have hlt : i < 4 + numExtra f := by omega
      refine ⟨⟨⟨by rw [hd, he]; exact hdata, by rw [he]; exact hext, by rw [he, hnum, hl]; exact hlen⟩, ?_, by rw [hnum]; exact Nat.le_refl _⟩,
        by rw [hnum, if_pos hlt]⟩
      intro o m hor; apply fr; omega
    · simp only [h2, if_false]
      have hi' : i - 4 = numExtra f := by omega
      have hn : numExtra f + 1 < 2 ^ 32 := by rcases hn with hn | hn <;> omega
      rw [hi']
      generalize hn' : numExtra f = n at *
      generalize heo : extOff f = eo at *
      have hl1 : (pwrite f eo (packU32 (n + 1))).length = f.length :=
        length_pwrite_of_le _ _ _ (by rw [length_packU32]; omega)
      have hl2 : eo + 4 + n * 92 + 92 ≤ (pwrite (pwrite f eo (packU32 (n + 1))) (eo + 4 + n * 92) rec).length := by
        rw [length_pwrite, hrec, hl1]; simp; omega
      have fr1 : ∀ o m, (o + m ≤ eo) → pread (pwrite f eo (packU32 (n + 1))) o m = pread f o m := by
        intro o m hor; apply pread_pwrite_disj; omega
      have fr2 : ∀ o m, (o + m ≤ eo + 4) →
          pread (pwrite (pwrite f eo (packU32 (n + 1))) (eo + 4 + n * 92) rec) o m
            = pread (pwrite f eo (packU32 (n + 1))) o m := by
        intro o m hor; apply pread_pwrite_disj; rw [hl1]; omega
      have he : extOff (pwrite (pwrite f eo (packU32 (n + 1))) (eo + 4 + n * 92) rec) = eo := by
        have e1 := congrArg unpackBE (fr2 92 8 (by omega))
        have e2 := congrArg unpackBE (fr1 92 8 (by omega))
        exact (e1.trans e2).trans heo
      have hnum : numExtra (pwrite (pwrite f eo (packU32 (n + 1))) (eo + 4 + n * 92) rec) = n + 1 := by
        unfold numExtra; rw [he, fr2 eo 4 (by omega)]
        have := pread_pwrite_eq f eo (packU32 (n + 1))
        rw [length_packU32] at this
        rw [this, unpack_packU32_small _ hn]
      have hd : dataLength (pwrite (pwrite f eo (packU32 (n + 1))) (eo + 4 + n * 92) rec) = dataLength f := by
        unfold dataLength; rw [fr2 84 8 (by omega), fr1 84 8 (by omega)]
      have hge : ¬ (i < 4 + n) := by omega
      refine ⟨⟨⟨by rw [hd, he]; exact hdata, by rw [he]; exact hext, by rw [he, hnum]; omega⟩, ?_, by rw [hnum]; omega⟩,
        by rw [hnum, if_neg hge]⟩
      intro o m hor
      rw [fr2 o m (by omega), fr1 o m (by omega)]

/-! ### `add_lease`, `renew_lease`, `add_or_renew_lease` keep the invariant and the data -/

theorem firstEmptySlot_lt {f : File} {i : Nat} (h : firstEmptySlot f = some i) : i < 4 + numExtra f := by
  unfold firstEmptySlot numLeaseSlots at h
  have := List.mem_of_find?_eq_some h
  exact List.mem_range.mp this

theorem firstEmptySlot_empty {f : File} {i : Nat} (h : firstEmptySlot f = some i) :
    readLeaseRecord f i = some none := by
  unfold firstEmptySlot at h
  have := List.find?_some h
  simpa using this

theorem mem_enumerateLeases {f : File} {i : Nat} {l : Lease} :
    (i, l) ∈ enumerateLeases f ↔ i < 4 + numExtra f ∧ readLeaseRecord f i = some (some l) := by
  unfold enumerateLeases numLeaseSlots
  rw [List.mem_filterMap]
  constructor
  · rintro ⟨j, hj, e⟩
    have hj' := List.mem_range.mp hj
    split at e
    · rename_i l' hl'
      simp only [Option.some.injEq, Prod.mk.injEq] at e
      obtain ⟨rfl, rfl⟩ := e
      exact ⟨hj', hl'⟩
    · simp at e
  · rintro ⟨hi, e⟩
    exact ⟨i, List.mem_range.mpr hi, by rw [e]⟩

theorem findRenew_some {h : Bytes → Bytes} {s : Schema} {sec : Bytes} {L : List (Nat × Lease)} {i : Nat} {l : Lease}
    (e : findRenew h s sec L = some (i, l)) : (i, l) ∈ L ∧ isRenewSecret h s l sec = true := by
  induction L with
  | nil => simp [findRenew] at e
  | cons p rest ih =>
    obtain ⟨j, x⟩ := p
    simp only [findRenew] at e
    split at e
    · rename_i hm
      simp only [Option.some.injEq, Prod.mk.injEq] at e
      obtain ⟨rfl, rfl⟩ := e
      exact ⟨List.mem_cons_self .., hm⟩
    · obtain ⟨a, b⟩ := ih e
      exact ⟨List.mem_cons_of_mem _ a, b⟩

theorem addLease_spec (f : File) (hwf : WF f) (avail : Nat) (l : Lease) :
    LeaseWrote f (addLease f avail l).1 := by
  unfold addLease
  split
  · rename_i i hi
    have hlt := firstEmptySlot_lt hi
    exact (writeLeaseRecord_spec f hwf i _ (length_serMut l) (by omega) (Or.inl hlt)).1
  · split
    · exact LeaseWrote.refl hwf
    · split
      · exact LeaseWrote.refl hwf
      · rename_i hn
        exact (writeLeaseRecord_spec f hwf _ _ (length_serMut l) (Nat.le_refl _) (Or.inr (by omega))).1

theorem renewLease_spec (h : Bytes → Bytes) (f : File) (hwf : WF f) (sec : Bytes) (t : Nat) :
    LeaseWrote f (renewLease h f sec t).1 := by
  unfold renewLease
  split
  · exact LeaseWrote.refl hwf
  · split
    · exact LeaseWrote.refl hwf
    · rename_i s _ i l hf
      have hm := (mem_enumerateLeases.mp (findRenew_some hf).1).1
      split
      · exact (writeLeaseRecord_spec f hwf i _ (length_serMut _) (by omega) (Or.inl hm)).1
      · exact LeaseWrote.refl hwf

theorem addOrRenew_spec (h : Bytes → Bytes) (f : File) (hwf : WF f) (avail : Nat) (li : Lease) :
    LeaseWrote f (addOrRenew h f avail li).1 := by
  unfold addOrRenew
  split
  · exact LeaseWrote.refl hwf
  · have r := renewLease_spec h f hwf li.renew li.expire
    split
    · rename_i f' e; rw [e] at r; exact r
    · exact addLease_spec f hwf avail _
    · rename_i f' e' _ e; rw [e] at r; exact r

theorem renewLease_err (h : Bytes → Bytes) (f : File) (sec : Bytes) (t : Nat) :
    ∀ e, (renewLease h f sec t).2 = some e → e = .indexError ∨ e = .unknownVersion := by
  intro e he
  unfold renewLease at he
  split at he
  · simp only [Option.some.injEq] at he; exact Or.inr he.symm
  · split at he
    · simp only [Option.some.injEq] at he; exact Or.inl he.symm
    · split at he <;> simp at he

theorem addLease_err (f : File) (avail : Nat) (l : Lease) :
    ∀ e, (addLease f avail l).2 = some e → e = .noSpace ∨ e = .structError := by
  intro e he
  unfold addLease at he
  split at he
  · simp at he
  · split at he
    · simp only [Option.some.injEq] at he; exact Or.inl he.symm
    · split at he
      · simp only [Option.some.injEq] at he; exact Or.inr he.symm
      · simp at he

theorem addOrRenew_err (h : Bytes → Bytes) (f : File) (avail : Nat) (li : Lease) :
    ∀ e, (addOrRenew h f avail li).2 = some e → e = .noSpace ∨ e = .structError ∨ e = .unknownVersion := by
  intro e he
  unfold addOrRenew at he
  split at he
  · simp only [Option.some.injEq] at he; exact Or.inr (Or.inr he.symm)
  · have hr := renewLease_err h f li.renew li.expire
    split at he
    · simp at he
    · rcases addLease_err _ _ _ e he with x | x
      · exact Or.inl x
      · exact Or.inr (Or.inl x)
    · rename_i f' e' hne heq
      simp only [Option.some.injEq] at he
      subst he
      rcases hr e' (by rw [heq]) with x | x
      · subst x; exact (hne rfl).elim
      · exact Or.inr (Or.inr x)

/-! ### reading leases back after a record write (C25 `renew_or_add`) -/

theorem parseMut_serMut (l : Lease) (ho : l.owner < 2 ^ 32) (he : l.expire < 2 ^ 32)
    (hr : l.renew.length = 32) (hc : l.cancel.length = 32) (hn : l.nodeid.length = 20) :
    parseMut (serMut l) = l := by
  unfold parseMut serMut
  rw [fixN_of_length _ _ hr, fixN_of_length _ _ hc, fixN_of_length _ _ hn]
  simp only [List.append_assoc]
  have e0 : pread (packU32 l.owner ++ (packU32 l.expire ++ (l.renew ++ (l.cancel ++ l.nodeid)))) 0 4 = packU32 l.owner :=
    pread_append_prefix _ _ _ (by simp)
  have e1 : pread (packU32 l.owner ++ (packU32 l.expire ++ (l.renew ++ (l.cancel ++ l.nodeid)))) 4 4 = packU32 l.expire := by
    rw [pread_append_of_le _ _ _ _ (by simp)]; simp only [length_packU32, Nat.sub_self]
    exact pread_append_prefix _ _ _ (by simp)
  have e2 : pread (packU32 l.owner ++ (packU32 l.expire ++ (l.renew ++ (l.cancel ++ l.nodeid)))) 8 32 = l.renew := by
    rw [pread_append_of_le _ _ _ _ (by simp), pread_append_of_le _ _ _ _ (by simp)]
    simp only [length_packU32]
    exact pread_append_prefix _ _ _ (by omega)
  have e3 : pread (packU32 l.owner ++ (packU32 l.expire ++ (l.renew ++ (l.cancel ++ l.nodeid)))) 40 32 = l.cancel := by
    rw [pread_append_of_le _ _ _ _ (by simp), pread_append_of_le _ _ _ _ (by simp),
      pread_append_of_le _ _ _ _ (by simp; omega)]
    simp only [length_packU32, hr]
    exact pread_append_prefix _ _ _ (by omega)
  have e4 : pread (packU32 l.owner ++ (packU32 l.expire ++ (l.renew ++ (l.cancel ++ l.nodeid)))) 72 20 = l.nodeid := by
    rw [pread_append_of_le _ _ _ _ (by simp), pread_append_of_le _ _ _ _ (by simp),
      pread_append_of_le _ _ _ _ (by simp; omega), pread_append_of_le _ _ _ _ (by simp; omega)]
    simp only [length_packU32, hr, hc]
    have := pread_all l.nodeid
    rw [hn] at this
    exact this
  rw [e0, e1, e2, e3, e4, unpackBE_packU32 _ ho, unpackBE_packU32 _ he]

theorem parseMut_fields (d : Bytes) (hd : d.length = 92) :
    (parseMut d).owner < 2 ^ 32 ∧ (parseMut d).expire < 2 ^ 32 ∧ (parseMut d).renew.length = 32 ∧
    (parseMut d).cancel.length = 32 ∧ (parseMut d).nodeid.length = 20 := by
  unfold parseMut
  have a := unpackBE_lt (pread d 0 4)
  have b := unpackBE_lt (pread d 4 4)
  rw [length_pread_of_le _ _ _ (by omega)] at a b
  refine ⟨by simpa using a, by simpa using b, ?_, ?_, ?_⟩ <;> exact length_pread_of_le _ _ _ (by omega)

/-- byte offset of lease slot `i` -/
def offOf (f : File) (i : Nat) : Nat := if i < 4 then 100 + i * 92 else extOff f + 4 + (i - 4) * 92

theorem slotOff_eq (f : File) (i : Nat) (hi : i < 4 + numExtra f) : slotOff f i = some (offOf f i) := by
  unfold slotOff offOf
  by_cases h : i < 4
  · simp [h]
  · have : i - 4 < numExtra f := by omega
    simp [h, this]

theorem writeLeaseRecord_eq (f : File) (i : Nat) (rec : Bytes) (hi : i < 4 + numExtra f) :
    writeLeaseRecord f i rec = pwrite f (offOf f i) rec := by
  unfold writeLeaseRecord offOf
  by_cases h : i < 4
  · simp [h]
  · have : i - 4 < numExtra f := by omega
    simp [h, this]

/-- the decoding step of `_read_lease_record` -/
def decodeRec (d : Bytes) : Option Lease := if (parseMut d).owner = 0 then none else some (parseMut d)

theorem readLeaseRecord_eq (f : File) (i : Nat) (hi : i < 4 + numExtra f) :
    readLeaseRecord f i = some (decodeRec (pread f (offOf f i) 92)) := by
  unfold readLeaseRecord decodeRec
  rw [slotOff_eq f i hi]

theorem readLeaseRecord_write (f : File) (hwf : WF f) (i : Nat) (hi : i < 4 + numExtra f) (rec : Bytes)
    (hrec : rec.length = 92) (j : Nat) (hj : j < 4 + numExtra f) :
    readLeaseRecord (writeLeaseRecord f i rec) j =
      if j = i then some (decodeRec rec) else readLeaseRecord f j := by
  obtain ⟨lw, hnum⟩ := writeLeaseRecord_spec f hwf i rec hrec (by omega) (Or.inl hi)
  rw [if_pos hi] at hnum
  have hext := lw.ext
  have hdata := hwf.data_le
  have hlen := hwf.len_ge
  rw [readLeaseRecord_eq _ j (by rw [hnum]; exact hj), readLeaseRecord_eq f j hj]
  have hoff : ∀ k, offOf (writeLeaseRecord f i rec) k = offOf f k := by
    intro k; unfold offOf; rw [hext]
  rw [hoff, writeLeaseRecord_eq f i rec hi]
  by_cases hji : j = i
  · subst hji
    rw [if_pos rfl]
    have := pread_pwrite_eq f (offOf f j) rec
    rw [hrec] at this
    rw [this]
  · rw [if_neg hji]
    congr 2
    apply pread_pwrite_disj
    rw [hrec]
    unfold offOf
    by_cases h1 : i < 4 <;> by_cases h2 : j < 4 <;> simp only [h1, h2, if_true, if_false] <;> omega

theorem map_filterMap' {α β γ : Type} (f : α → Option β) (g : β → γ) (l : List α) :
    (l.filterMap f).map g = l.filterMap (fun x => (f x).map g) := by
  induction l with
  | nil => rfl
  | cons a t ih =>
    simp only [List.filterMap_cons]
    cases f a with
    | none => simpa using ih
    | some b => simp [ih]

/-- the lease list after overwriting the record of a listed lease: that entry is replaced, nothing else moves -/
theorem enumerateLeases_write (f : File) (hwf : WF f) (i : Nat) (l l' : Lease) (hmem : (i, l) ∈ enumerateLeases f)
    (rec : Bytes) (hrec : rec.length = 92) (hdec : decodeRec rec = some l') :
    enumerateLeases (writeLeaseRecord f i rec) =
      (enumerateLeases f).map (fun p => if p.1 = i then (i, l') else p) := by
  obtain ⟨hi, hread⟩ := mem_enumerateLeases.mp hmem
  obtain ⟨_, hnum⟩ := writeLeaseRecord_spec f hwf i rec hrec (by omega) (Or.inl hi)
  rw [if_pos hi] at hnum
  unfold enumerateLeases numLeaseSlots
  rw [hnum, map_filterMap']
  apply filterMap_congr'
  intro j hj
  have hj' := List.mem_range.mp hj
  rw [readLeaseRecord_write f hwf i hi rec hrec j hj']
  by_cases hji : j = i
  · subst hji
    simp [hdec, hread]
  · simp only [hji, if_false]
    cases readLeaseRecord f j with
    | none => rfl
    | some o =>
      cases o with
      | none => rfl
      | some x => simp [hji]

/-- the stored lease behind a listed entry is the parse of a full 92-byte record with a non-zero owner -/
theorem listed_lease (f : File) (hwf : WF f) (i : Nat) (l : Lease) (hmem : (i, l) ∈ enumerateLeases f) :
    l.owner ≠ 0 ∧ l.owner < 2 ^ 32 ∧ l.expire < 2 ^ 32 ∧ l.renew.length = 32 ∧ l.cancel.length = 32 ∧
    l.nodeid.length = 20 := by
  obtain ⟨hi, hread⟩ := mem_enumerateLeases.mp hmem
  rw [readLeaseRecord_eq f i hi] at hread
  simp only [Option.some.injEq] at hread
  unfold decodeRec at hread
  have hlen : (pread f (offOf f i) 92).length = 92 := by
    apply length_pread_of_le
    have := hwf.data_le; have := hwf.len_ge
    unfold offOf; split <;> omega
  split at hread
  · simp at hread
  · rename_i ho
    simp only [Option.some.injEq] at hread
    subst hread
    exact ⟨ho, parseMut_fields _ hlen⟩

/-- `findRenew = none` means exactly: no listed lease matches the secret -/
theorem findRenew_none_iff (h : Bytes → Bytes) (s : Schema) (secret : Bytes) (L : List (Nat × Lease)) :
    Mutable.findRenew h s secret L = none ↔ ∀ p ∈ L, isRenewSecret h s p.2 secret = false := by
  induction L with
  | nil => simp [Mutable.findRenew]
  | cons p rest ih =>
    obtain ⟨i, l⟩ := p
    simp only [Mutable.findRenew, List.mem_cons, forall_eq_or_imp]
    by_cases hm : isRenewSecret h s l secret = true
    · simp [hm]
    · simp only [hm, Bool.false_eq_true, if_false, ih]
      simp at hm; simp

theorem findRenew_v2_congr (h h' : Bytes → Bytes) (rs rs' : Bytes) (hr : h rs = h' rs') (L : List (Nat × Lease)) :
    Mutable.findRenew h .v2 rs L = Mutable.findRenew h' .v2 rs' L := by
  induction L with
  | nil => rfl
  | cons p rest ih =>
    obtain ⟨i, l⟩ := p
    unfold Mutable.findRenew
    rw [ih]
    simp only [isRenewSecret, hr]
    by_cases hm : (l.renew == h' rs') = true <;> simp [hm]

theorem imm_findRenew_v2_congr (h h' : Bytes → Bytes) (rs rs' : Bytes) (hr : h rs = h' rs') (L : List Lease) (i : Nat) :
    ImmL.findRenew h .v2 rs L i = ImmL.findRenew h' .v2 rs' L i := by
  induction L generalizing i with
  | nil => rfl
  | cons l rest ih =>
    unfold ImmL.findRenew
    rw [ih]
    simp only [isRenewSecret, hr]
    by_cases hm : (l.renew == h' rs') = true <;> simp [hm]

/-! ### `cancel_lease` (mutable container) -/

theorem filter_filterMap' {α β : Type} (f : α → Option β) (p : β → Bool) (l : List α) :
    (l.filterMap f).filter p = l.filterMap (fun x => (f x).filter p) := by
  induction l with
  | nil => rfl
  | cons a t ih =>
    simp only [List.filterMap_cons]
    cases h : f a with
    | none => simpa using ih
    | some b =>
      by_cases hp : p b <;> simp [hp, ih, Option.filter]

/-- a record with owner 0 decodes to "empty slot" -/
theorem decodeRec_blank (l : Lease) (h0 : l.owner = 0) : decodeRec (serMut l) = none := by
  unfold decodeRec parseMut serMut
  have : pread (packU32 l.owner ++ packU32 l.expire ++ fixN 32 l.renew ++ fixN 32 l.cancel ++ fixN 20 l.nodeid) 0 4
      = packU32 l.owner := by
    simp only [List.append_assoc]; exact pread_append_prefix _ _ _ (by simp)
  rw [h0] at this
  have hz : unpackBE (packU32 0) = 0 := unpackBE_packU32 0 (by omega)
  simp only [h0]
  rw [if_pos (by rw [this]; exact hz)]

/-- blanking slot `i` removes exactly the entry of slot `i` from the lease list -/
theorem enumerateLeases_blank (f : File) (hwf : WF f) (i : Nat) (hi : i < 4 + numExtra f) (rec : Bytes)
    (hrec : rec.length = 92) (hdec : decodeRec rec = none) :
    enumerateLeases (writeLeaseRecord f i rec) = (enumerateLeases f).filter (fun p => p.1 != i) := by
  obtain ⟨_, hnum⟩ := writeLeaseRecord_spec f hwf i rec hrec (by omega) (Or.inl hi)
  rw [if_pos hi] at hnum
  unfold enumerateLeases numLeaseSlots
  rw [hnum, filter_filterMap']
  apply filterMap_congr'
  intro j hj
  have hj' := List.mem_range.mp hj
  rw [readLeaseRecord_write f hwf i hi rec hrec j hj']
  by_cases hji : j = i
  · subst hji
    simp only [if_true, hdec]
    cases readLeaseRecord f j with
    | none => rfl
    | some o => cases o <;> simp [Option.filter]
  · simp only [hji, if_false]
    cases readLeaseRecord f j with
    | none => rfl
    | some o => cases o <;> simp [Option.filter, hji]

theorem blankSlots_spec (rec : Bytes) (hrec : rec.length = 92) (hdec : decodeRec rec = none) (is : List Nat) :
    ∀ f : File, WF f → (∀ i ∈ is, i < 4 + numExtra f) →
      WF (blankSlots f rec is) ∧ absData (blankSlots f rec is) = absData f ∧
      enabler (blankSlots f rec is) = enabler f ∧ schemaOf (blankSlots f rec is) = schemaOf f ∧
      enumerateLeases (blankSlots f rec is) = (enumerateLeases f).filter (fun p => !is.contains p.1) := by
  induction is with
  | nil =>
    intro f hwf _
    have : ∀ L : List (Nat × Lease), L.filter (fun _ => true) = L := by
      intro L; induction L with
      | nil => rfl
      | cons a t ih => simp [ih]
    simp [blankSlots, hwf, this]
  | cons i rest ih =>
    intro f hwf his
    have hi := his i (List.mem_cons_self ..)
    obtain ⟨lw, hnum⟩ := writeLeaseRecord_spec f hwf i rec hrec (by omega) (Or.inl hi)
    rw [if_pos hi] at hnum
    obtain ⟨a, b, c, d, e⟩ := ih (writeLeaseRecord f i rec) lw.wf
      (fun j hj => by rw [hnum]; exact his j (List.mem_cons_of_mem _ hj))
    simp only [blankSlots]
    refine ⟨a, b.trans (lw.data hwf), c.trans lw.enabler, d.trans lw.schema, ?_⟩
    rw [e, enumerateLeases_blank f hwf i hi rec hrec hdec, List.filter_filter]
    apply List.filter_congr
    intro p _
    by_cases hp : p.1 = i <;> simp [hp, Bool.and_comm]

/-! ### `add_lease` keeps every listed lease (C25 `no_backdating`, add path) -/

/-- appending a record in a new extra slot leaves every existing slot readable as before -/
theorem readLeaseRecord_append (f : File) (hwf : WF f) (rec : Bytes) (hrec : rec.length = 92)
    (hn : numExtra f + 1 < 2 ^ 32) (j : Nat) (hj : j < 4 + numExtra f) :
    readLeaseRecord (writeLeaseRecord f (4 + numExtra f) rec) j = readLeaseRecord f j := by
  obtain ⟨lw, hnum⟩ := writeLeaseRecord_spec f hwf (4 + numExtra f) rec hrec (Nat.le_refl _) (Or.inr hn)
  rw [if_neg (by omega)] at hnum
  have hext := lw.ext
  have hdata := hwf.data_le
  have hlen := hwf.len_ge
  rw [readLeaseRecord_eq _ j (by rw [hnum]; omega), readLeaseRecord_eq f j hj]
  have hoff : offOf (writeLeaseRecord f (4 + numExtra f) rec) j = offOf f j := by
    unfold offOf; rw [hext]
  rw [hoff]
  congr 2
  have h1 : ¬ (4 + numExtra f < 4) := by omega
  have h2 : ¬ (4 + numExtra f - 4 < numExtra f) := by omega
  have h3 : 4 + numExtra f - 4 = numExtra f := by omega
  have h4 : ¬ (numExtra f < numExtra f) := Nat.lt_irrefl _
  simp only [writeLeaseRecord, h1, if_false, h3, h4]
  have hl1 : (pwrite f (extOff f) (packU32 (numExtra f + 1))).length = f.length :=
    length_pwrite_of_le _ _ _ (by rw [length_packU32]; omega)
  have hjo : offOf f j + 92 ≤ extOff f ∨ (extOff f + 4 ≤ offOf f j ∧ offOf f j + 92 ≤ extOff f + 4 + numExtra f * 92) := by
    unfold offOf
    by_cases hj4 : j < 4
    · left; simp only [hj4, if_true]; omega
    · right; simp only [hj4, if_false]
      have : (j - 4 + 1) * 92 ≤ numExtra f * 92 := Nat.mul_le_mul_right 92 (by omega)
      omega
  rw [pread_pwrite_disj _ _ _ _ _ (Or.inl ⟨by omega, by rw [hl1]; omega⟩)]
  apply pread_pwrite_disj
  rw [length_packU32]
  rcases hjo with h | h
  · left; omega
  · right; omega

theorem addLease_keeps (f : File) (hwf : WF f) (avail : Nat) (l : Lease) (j : Nat) (x : Lease)
    (hx : (j, x) ∈ enumerateLeases f) : (j, x) ∈ enumerateLeases (addLease f avail l).1 := by
  obtain ⟨hj, hread⟩ := mem_enumerateLeases.mp hx
  unfold addLease
  split
  · rename_i i hi
    have hlt := firstEmptySlot_lt hi
    have hemp := firstEmptySlot_empty hi
    have hji : j ≠ i := by
      intro e; subst e; rw [hemp] at hread; simp at hread
    obtain ⟨_, hnum⟩ := writeLeaseRecord_spec f hwf i (serMut l) (length_serMut l) (by omega) (Or.inl hlt)
    rw [if_pos hlt] at hnum
    apply mem_enumerateLeases.mpr
    refine ⟨by rw [hnum]; exact hj, ?_⟩
    rw [readLeaseRecord_write f hwf i hlt _ (length_serMut l) j hj, if_neg hji]
    exact hread
  · split
    · exact hx
    · split
      · exact hx
      · rename_i hn
        have hn' : numExtra f + 1 < 2 ^ 32 := by omega
        obtain ⟨_, hnum⟩ := writeLeaseRecord_spec f hwf (4 + numExtra f) (serMut l) (length_serMut l)
          (Nat.le_refl _) (Or.inr hn')
        apply mem_enumerateLeases.mpr
        refine ⟨by rw [show numLeaseSlots f = 4 + numExtra f from rfl, hnum]; split <;> omega, ?_⟩
        rw [show numLeaseSlots f = 4 + numExtra f from rfl,
          readLeaseRecord_append f hwf _ (length_serMut l) hn' j hj]
        exact hread

end Tahoe.Storage.Mutable
