import Tahoe.Generated.Gc
/-!
# Model of the lease-expiry decision (storage/expirer.py, storage/lease.py, cancel_lease)

`processShare` mirrors `LeaseCheckingCrawler.process_share` as a pure function of
(config, now, share type, leases); `processBucket` mirrors `process_bucket` (counting part).

Transcribed:
* `LeaseInfo.get_grant_renew_time_time` = `expiration_time - 31 d` (`renewTime`; the constant is
  extracted from the live source into `Generated.Gc.lease_grant_renew_offset`),
  `LeaseInfo.get_age` = `now - get_grant_renew_time_time()` (`age`);
* the `age` / `cutoff-date` branches with their strict comparisons, the override test
  `is not None`, the share-type filter applied *after* the mode test;
* `ShareFile.cancel_lease` / `MutableShareFile.cancel_lease`: every lease whose cancel secret
  matches is removed, `IndexError` when none matches, the share file is unlinked when no lease
  remains (`cancelLease`); the crawler calls it once per expired lease, in order, with that
  lease's own secret (`cancelAll`) - a second call for a secret that is already gone raises
  (`IndexError`, or `FileNotFoundError` when the file was unlinked) and the exception leaves
  `process_share`/`process_bucket` (they only catch container-version / struct errors).

Deviations:
* AGE MODE WITHOUT OVERRIDE IS MODELLED AS REPAIRED by `fixes/C26-age-mode.diff`
  (`age_limit = original_expiration_time - grant_renew_time`, i.e. the lease's own duration).
  The tree as shipped uses `age_limit = original_expiration_time` (an epoch timestamp);
  `modeExpiredShipped` below is that comparator; the `example` at the end of this file shows the defect.
* times are `Int` (the code compares Python ints/floats; the harness uses integral clocks);
  secrets are `Nat` identities (two leases have the same secret iff the same number);
* statistics that depend on `os.stat` (sharebytes, diskbytes) and the lease-age histogram are not
  modelled; the per-share / per-bucket *counts* of `space-recovered` are (`tally`).
-/
namespace Tahoe.Storage.Expire

inductive ShareType where
  | immutable | mutable
  deriving DecidableEq, Repr

/-- `expire.mode` with its parameter: `age` (+ optional `override_lease_duration`, seconds) or
    `cutoff-date` (seconds since the epoch). -/
inductive Mode where
  | age (override : Option Int)
  | cutoff (date : Int)
  deriving DecidableEq, Repr

structure Config where
  enabled : Bool          -- expiration_enabled
  mode : Mode
  expImmutable : Bool     -- "immutable" in sharetypes_to_expire
  expMutable : Bool       -- "mutable" in sharetypes_to_expire
  deriving DecidableEq, Repr

structure Lease where
  cancel : Nat            -- identity of the cancel secret
  expiry : Int            -- expiration_time
  deriving DecidableEq, Repr

/-- the 31-day constant hard-coded in `get_grant_renew_time_time` -/
def grantRenewOffset : Int := (Generated.Gc.lease_grant_renew_offset : Nat)

/-- `LeaseInfo.get_grant_renew_time_time` -/
def renewTime (l : Lease) : Int := l.expiry - grantRenewOffset

/-- `LeaseInfo.get_age` (with `time.time() = now`) -/
def age (now : Int) (l : Lease) : Int := now - renewTime l

/-- `sharetype in self.sharetypes_to_expire` -/
def typeEnabled (cfg : Config) : ShareType → Bool
  | .immutable => cfg.expImmutable
  | .mutable => cfg.expMutable

/-- the mode test of `process_share` (before the share-type filter), REPAIRED age limit -/
def modeExpired (cfg : Config) (now : Int) (l : Lease) : Bool :=
  match cfg.mode with
  | .age ov =>
      let ageLimit : Int := match ov with
        | none => l.expiry - renewTime l      -- fixed: the lease's own duration
        | some o => o
      decide (age now l > ageLimit)
  | .cutoff d => decide (renewTime l < d)

/-- the mode test as shipped: `age_limit = original_expiration_time` when there is no override -/
def modeExpiredShipped (cfg : Config) (now : Int) (l : Lease) : Bool :=
  match cfg.mode with
  | .age ov =>
      let ageLimit : Int := match ov with
        | none => l.expiry
        | some o => o
      decide (age now l > ageLimit)
  | .cutoff d => decide (renewTime l < d)

/-- `expired` at the end of the loop body of `process_share` -/
def expired (cfg : Config) (now : Int) (ty : ShareType) (l : Lease) : Bool :=
  if typeEnabled cfg ty then modeExpired cfg now l else false

inductive CancelErr where
  | index     -- IndexError: no lease with that cancel secret
  | nofile    -- FileNotFoundError: the share file was already unlinked
  deriving DecidableEq, Repr

/-- The share file as the crawler sees it: does it still exist, and its leases in slot order. -/
structure Share where
  present : Bool
  leases : List Lease
  deriving DecidableEq, Repr

/-- `ShareFile.cancel_lease(secret)` / `MutableShareFile.cancel_lease(secret)` -/
def cancelLease (s : Share) (secret : Nat) : Except CancelErr Share :=
  if !s.present then .error .nofile
  else
    let rest := s.leases.filter (fun l => l.cancel != secret)
    if rest.length == s.leases.length then .error .index
    else .ok { present := !rest.isEmpty, leases := rest }

/-- `for li in expired_leases_configured: sf.cancel_lease(li.cancel_secret)` -/
def cancelAll (s : Share) : List Lease → Option CancelErr × Share
  | [] => (none, s)
  | li :: rest =>
    match cancelLease s li.cancel with
    | .error e => (some e, s)
    | .ok s' => cancelAll s' rest

structure ShareResult where
  raised : Option CancelErr     -- exception leaving process_share
  share : Share                 -- the share afterwards
  numLeases : Nat
  wks : Nat × Nat × Nat         -- would_keep_share[0..2] (meaningful when nothing was raised)
  deriving DecidableEq, Repr

/-- `LeaseCheckingCrawler.process_share` -/
def processShare (cfg : Config) (now : Int) (ty : ShareType) (leases : List Lease) : ShareResult :=
  let numValidOriginal := (leases.filter (fun l => decide (l.expiry > now))).length
  let expiredLeases := leases.filter (expired cfg now ty)
  let numValidConfigured := (leases.filter (fun l => !expired cfg now ty l)).length
  let start : Share := { present := true, leases := leases }
  let (err, sh) := if cfg.enabled then cancelAll start expiredLeases else (none, start)
  { raised := err, share := sh, numLeases := leases.length,
    wks := (if numValidOriginal == 0 then 0 else 1,
            if numValidConfigured == 0 then 0 else 1,
            if numValidConfigured == 0 && cfg.enabled then 0 else 1) }

/-- The share file was removed by this pass. -/
def ShareResult.removed (r : ShareResult) : Bool := !r.share.present

/-! ## process_bucket (counts only) -/

structure BucketResult where
  shares : List (ShareType × ShareResult)   -- processed shares, in listdir order
  raised : Bool                             -- an exception left process_bucket
  deriving Repr

def processBucketAux (cfg : Config) (now : Int) :
    List (ShareType × List Lease) → List (ShareType × ShareResult) → BucketResult
  | [], acc => { shares := acc.reverse, raised := false }
  | (ty, ls) :: rest, acc =>
    let r := processShare cfg now ty ls
    if r.raised.isSome then { shares := ((ty, r) :: acc).reverse, raised := true }
    else processBucketAux cfg now rest ((ty, r) :: acc)

/-- `LeaseCheckingCrawler.process_bucket` over the share files of one bucket -/
def processBucket (cfg : Config) (now : Int) (shares : List (ShareType × List Lease)) : BucketResult :=
  processBucketAux cfg now shares []

/-- Counters of `state["cycle-to-date"]["space-recovered"]` this bucket adds, in the order
    examined, original, configured, actual × (shares, shares-immutable, shares-mutable,
    buckets, buckets-immutable, buckets-mutable). When an exception left `process_share`
    the counters of that share and of the bucket are not added. -/
def tally (b : BucketResult) : List Nat :=
  let done := b.shares.filter (fun p => p.2.raised.isNone)
  let cntIn (l : List (ShareType × ShareResult)) (f : ShareResult → Bool) (ty : Option ShareType) : Nat :=
    (l.filter (fun p => f p.2 && (match ty with | none => true | some t => decide (p.1 = t)))).length
  let lastTy : Option ShareType := (done.getLast?).map (·.1)
  let bucketAll (f : ShareResult → Nat) : Bool := !b.raised && (done.map (fun p => f p.2)).sum == 0
  let bk (ok : Bool) (ty : Option ShareType) : Nat :=
    if ok && (match ty with | none => true | some t => lastTy == some t) then 1 else 0
  let row (l : List (ShareType × ShareResult)) (f : ShareResult → Bool) (bucketOk : Bool) : List Nat :=
    [cntIn l f none, cntIn l f (some .immutable), cntIn l f (some .mutable),
     bk bucketOk none, bk bucketOk (some .immutable), bk bucketOk (some .mutable)]
  -- `increment_space("examined", …)` runs before the cancel loop, so a raising share is counted there
  row b.shares (fun _ => true) (!b.raised)
  ++ row done (fun r => r.wks.1 == 0) (bucketAll (·.wks.1))
  ++ row done (fun r => r.wks.2.1 == 0) (bucketAll (·.wks.2.1))
  ++ row done (fun r => r.wks.2.2 == 0) (bucketAll (·.wks.2.2))

/-! ## From `tahoe.cfg` to the crawler's configuration
(`client.py _Client.get_anonymous_storage_server` + `LeaseCheckingCrawler.__init__`)

The `[storage] expire.*` settings after *value* parsing: booleans by configparser, the duration by
`parse_duration`, the date by `parse_date` (midnight UTC of the day) - the value parsers are C48's.
`none` = the key is absent.  Transcribed: `expire.enabled` defaults to False; `expire.mode` is
required when enabled, else defaults to "age"; `expire.cutoff_date` is read (and required) only in
"cutoff-date" mode; `expire.immutable` / `expire.mutable` default to True and select the tuple of
share-type names; the crawler keeps the override only in age mode and rejects any other mode name.
An override given together with cutoff-date mode, or a cutoff date given in age mode, is silently
ignored (the documentation says "rejected"; the code does not). -/

structure Settings where
  enabled : Option Bool
  mode : Option String
  overrideDuration : Option Int
  cutoffDate : Option Int
  immutable : Option Bool
  mutable : Option Bool
  deriving DecidableEq, Repr

inductive ConfigErr where
  | missingMode      -- MissingConfigEntry: expire.enabled without expire.mode
  | missingCutoff    -- MissingConfigEntry: cutoff-date mode without expire.cutoff_date
  | badMode          -- ValueError("GC mode … must be 'age' or 'cutoff-date'")
  deriving DecidableEq, Repr

def configFromSettings (s : Settings) : Except ConfigErr Config :=
  let en := s.enabled.getD false
  let imm := s.immutable.getD true
  let mu := s.mutable.getD true
  match (if en then s.mode else some (s.mode.getD "age")) with
  | none => .error .missingMode
  | some m =>
    if m = "cutoff-date" then
      match s.cutoffDate with
      | none => .error .missingCutoff
      | some d => .ok { enabled := en, mode := .cutoff d, expImmutable := imm, expMutable := mu }
    else if m = "age" then
      .ok { enabled := en, mode := .age s.overrideDuration, expImmutable := imm, expMutable := mu }
    else .error .badMode

/-! ## The defect in the tree as shipped (age mode, no override) -/

/-- With `age_limit = original_expiration_time` a lease that expired 369 days ago
    (renewed 400 days ago) is not expired, while the repaired comparator expires it. -/
example :
    let cfg : Config := { enabled := true, mode := .age none, expImmutable := true, expMutable := true }
    let t0 : Int := 1700000000
    let l : Lease := { cancel := 1, expiry := t0 + 31 * 86400 }
    modeExpiredShipped cfg (t0 + 400 * 86400) l = false ∧ modeExpired cfg (t0 + 400 * 86400) l = true := by
  decide

/-! ## The expirer's own state in the crawler state file: the lease-age histogram

`state["cycle-to-date"]["lease-age-histogram"]` is a dict `(minage, maxage) → count` in memory
(`add_lease_age_to_histogram`, `increment`), is written to the state file in its JSON-safe form, a
list of `[minage, maxage, count]` sorted by key (`get_state` → `convert_lease_age_histogram`), and
is turned back into the dict by `add_initial_state` when a crawler is created from a state file
saved inside a cycle (`dict(((minage, maxage), count) for …)`, the repair e6c3ed8).
A Python dict is modelled as an association list in insertion order. -/

abbrev HistKey := Int × Int
abbrev Hist := List (HistKey × Nat)

/-- `d.get(k, 0)` -/
def histLookup (h : Hist) (k : HistKey) : Nat :=
  match h.find? (fun e => e.1 == k) with
  | some e => e.2
  | none => 0

/-- `d[k] = v` -/
def dictSet (h : Hist) (k : HistKey) (v : Nat) : Hist :=
  if h.any (fun e => e.1 == k) then h.map (fun e => if e.1 == k then (e.1, v) else e) else h ++ [(k, v)]

/-- `bucket_number = int(age/bucket_interval)` (truncation towards zero) and the key built from it -/
def histKeyOfAge (age : Int) : HistKey :=
  let n := Int.tdiv age 86400
  (n * 86400, n * 86400 + 86400)

/-- `add_lease_age_to_histogram(age)`: `increment(d, k, 1)` -/
def histAdd (h : Hist) (age : Int) : Hist :=
  let k := histKeyOfAge age
  dictSet h k (histLookup h k + 1)

/-- tuple order on keys -/
def histKeyLe (a b : HistKey) : Bool := decide (a.1 < b.1) || (a.1 == b.1 && decide (a.2 ≤ b.2))

def histInsert (e : HistKey × Nat) : Hist → Hist
  | [] => [e]
  | x :: r => if histKeyLe e.1 x.1 then e :: x :: r else x :: histInsert e r

/-- `convert_lease_age_histogram`: `for k in sorted(lah): (minage, maxage, lah[k])` -/
def histToJson (h : Hist) : List (Int × Int × Nat) :=
  (h.foldr histInsert []).map (fun e => (e.1.1, e.1.2, e.2))

/-- `dict(((minage, maxage), count) for (minage, maxage, count) in lah)` -/
def histFromJson (l : List (Int × Int × Nat)) : Hist :=
  l.foldl (fun d t => dictSet d (t.1, t.2.1) t.2.2) []

/-! ## Vocabulary of the C26 statements -/

/-- 31 days, the documented lease duration (docs/garbage-collection.rst). -/
def leaseDuration : Int := 31 * 24 * 60 * 60

/-- The create/renew timestamp of a lease: the server grants `expiry = renewal + 31 d`. -/
def lastRenewal (l : Lease) : Int := l.expiry - leaseDuration

/-- The DOCUMENTED expiry predicate (docs/garbage-collection.rst, the property statement):
    age mode: `renewal + duration < now`, or `renewal + override < now` with an override;
    cutoff mode: `renewal < cutoff`. -/
def DocExpired (cfg : Config) (now : Int) (l : Lease) : Prop :=
  match cfg.mode with
  | .age none => lastRenewal l + leaseDuration < now
  | .age (some o) => lastRenewal l + o < now
  | .cutoff d => lastRenewal l < d

instance (cfg : Config) (now : Int) (l : Lease) : Decidable (DocExpired cfg now l) := by
  unfold DocExpired; cases cfg.mode with
  | age ov => cases ov <;> exact inferInstance
  | cutoff d => exact inferInstance

/-- Cancel secrets of the leases of a share are pairwise distinct. -/
def DistinctSecrets (ls : List Lease) : Prop := (ls.map (·.cancel)).Nodup

/-- The shares the full theorem is about: at least one lease, pairwise distinct cancel secrets.
    This excludes exactly the inputs of the three open findings (shared secret x2, lease-less share). -/
def WellFormedLeases (ls : List Lease) : Prop := ls ≠ [] ∧ DistinctSecrets ls

end Tahoe.Storage.Expire
