import Tahoe.Storage.ImmServerLemmas
/-! Handle / connection lemmas for the immutable-storage model: the handle invariant `WFH` is
    preserved by every operation (direct calls and the Foolscap front end), and losing a connection
    removes exactly the writers registered on it.  Mathlib-free. -/
namespace Tahoe.Storage.Imm
open Tahoe.Base.File

abbrev Inc := List (Key × (Writer × File))

theorem eq_of_wid_eq (l : Inc) (hn : (l.map (fun e => e.2.1.wid)).Nodup) (a b : Key × (Writer × File))
    (ha : a ∈ l) (hb : b ∈ l) (h : a.2.1.wid = b.2.1.wid) : a = b := by
  induction l with
  | nil => simp at ha
  | cons x rest ih =>
    simp only [List.map_cons, List.nodup_cons, List.mem_map, not_exists, not_and] at hn
    rcases List.mem_cons.mp ha with rfl | ha' <;> rcases List.mem_cons.mp hb with rfl | hb'
    · rfl
    · exact absurd h.symm (hn.1 b hb')
    · exact absurd h (hn.1 a ha')
    · exact ih hn.2 ha' hb'

theorem findWid_eq_none (wid : Nat) (l : Inc) (h : ∀ x ∈ l, x.2.1.wid ≠ wid) : findWid wid l = none := by
  induction l with
  | nil => rfl
  | cons x rest ih =>
    simp only [findWid, h x List.mem_cons_self, if_false]
    exact ih (fun y hy => h y (List.mem_cons_of_mem _ hy))

theorem findWid_none_all (wid : Nat) (l : Inc) (h : findWid wid l = none) : ∀ x ∈ l, x.2.1.wid ≠ wid := by
  induction l with
  | nil => simp
  | cons x rest ih =>
    simp only [findWid] at h
    split at h
    · simp at h
    · rename_i hx
      intro y hy
      rcases List.mem_cons.mp hy with rfl | hy'
      · exact hx
      · exact ih h y hy'

/-- with one writer per key and per handle, removing a live handle's file = removing the handle -/
theorem eraseK_eq_filter_wid (l : Inc) (hk : (l.map (·.1)).Nodup) (hw : (l.map (fun e => e.2.1.wid)).Nodup)
    (wid : Nat) (e : Key × (Writer × File)) (hf : findWid wid l = some e) :
    eraseK e.1 l = l.filter (fun x => x.2.1.wid != wid) := by
  obtain ⟨hem, hew⟩ := findWid_mem wid l e hf
  simp only [eraseK]
  apply List.filter_congr
  intro x hx
  by_cases hkx : x.1 = e.1
  · have h1 := getK_of_mem_nodup l hk x hx
    have h2 := getK_of_mem_nodup l hk e hem
    rw [hkx, h2] at h1
    have hxe : x = e := by
      cases x; cases e; simp only [Option.some.injEq] at h1; simp_all
    subst hxe
    simp [hew]
  · have hne : x.2.1.wid ≠ wid := by
      intro hxw
      apply hkx
      rw [eq_of_wid_eq l hw x e hx hem (hxw.trans hew.symm)]
    simp [hkx, hne]

theorem abortOp_eq_filter (s : Server) (hk : (s.incoming.map (·.1)).Nodup)
    (hw : (s.incoming.map (fun e => e.2.1.wid)).Nodup) (wid : Nat) :
    abortOp s wid = { s with incoming := s.incoming.filter (fun x => x.2.1.wid != wid) } := by
  simp only [abortOp]
  cases hf : findWid wid s.incoming with
  | none =>
    have : s.incoming.filter (fun x => x.2.1.wid != wid) = s.incoming := by
      apply List.filter_eq_self.mpr
      intro x hx; simpa using findWid_none_all wid _ hf x hx
    simp only [this]
  | some e =>
    obtain ⟨k, v⟩ := e
    simp only
    rw [eraseK_eq_filter_wid s.incoming hk hw wid (k, v) hf]

/-- aborting a list of handles removes exactly the writers holding one of them -/
theorem foldl_abort_eq_filter (wids : List Nat) (s : Server) (hk : (s.incoming.map (·.1)).Nodup)
    (hw : (s.incoming.map (fun e => e.2.1.wid)).Nodup) :
    wids.foldl abortOp s =
      { s with incoming := s.incoming.filter (fun x => !(wids.contains x.2.1.wid)) } := by
  induction wids generalizing s with
  | nil =>
    have : s.incoming.filter (fun x => !([] : List Nat).contains x.2.1.wid) = s.incoming := by simp
    simp only [List.foldl_nil, this]
  | cons wid rest ih =>
    simp only [List.foldl_cons]
    rw [abortOp_eq_filter s hk hw wid]
    rw [ih _ (hk.sublist ((List.filter_sublist).map _)) (hw.sublist ((List.filter_sublist).map _))]
    simp only [List.filter_filter]
    congr 1
    apply List.filter_congr
    intro x _
    simp only [List.contains_cons, Bool.not_or, bne, Bool.and_comm]

/-! ### `WFH` is preserved -/

theorem wfh_of_sublist {s s' : Server} (h : WFH s) (hi : s'.incoming.Sublist s.incoming)
    (hn : s'.nextId = s.nextId) (hc : s'.conns = s.conns) : WFH s' where
  widLt := fun e he => by rw [hn]; exact h.widLt e (hi.subset he)
  widNodup := h.widNodup.sublist (hi.map _)
  connLt := fun p hp => by rw [hn]; rw [hc] at hp; exact h.connLt p hp
  connNodup := by rw [hc]; exact h.connNodup

theorem wfh_empty (ro : Bool) (rs : Nat) : WFH (Server.empty ro rs) :=
  ⟨by simp [Server.empty], by simp [Server.empty], by simp [Server.empty], by simp [Server.empty]⟩

theorem bwWrite_wid (w : Writer) (f : File) (off : Nat) (data : Bytes) :
    (bwWrite w f off data).1.wid = w.wid := by
  simp only [bwWrite]
  split
  · rfl
  · split
    · rfl
    · split <;> rfl

theorem wfh_writeOp (s : Server) (h : WFH s) (wid off : Nat) (data : Bytes) : WFH (writeOp s wid off data).1 := by
  simp only [writeOp]
  cases hf : findWid wid s.incoming with
  | none => exact h
  | some e =>
    obtain ⟨k, w, f⟩ := e
    obtain ⟨hem, _⟩ := findWid_mem wid _ _ hf
    have hwid : (bwWrite { w with deadline := s.now + 30 * 60 } f off data).1.wid = w.wid := bwWrite_wid _ f off data
    have hsub : (eraseK k s.incoming).Sublist s.incoming := List.filter_sublist
    refine ⟨?_, ?_, h.connLt, h.connNodup⟩
    · intro e he
      simp only [setK, List.mem_cons] at he
      rcases he with rfl | he
      · simp only [hwid]; exact h.widLt _ hem
      · exact h.widLt e (hsub.subset he)
    · simp only [setK, List.map_cons, List.nodup_cons, hwid]
      refine ⟨?_, h.widNodup.sublist (hsub.map _)⟩
      intro hmem
      obtain ⟨x, hx, hxw⟩ := List.mem_map.mp hmem
      have hxl : x ∈ s.incoming := hsub.subset hx
      have := eq_of_wid_eq s.incoming h.widNodup x (k, w, f) hxl hem hxw
      subst this
      simp [eraseK] at hx

theorem wfh_closeOp (s : Server) (h : WFH s) (wid : Nat) : WFH (closeOp s wid).1 := by
  simp only [closeOp]
  cases hf : findWid wid s.incoming with
  | none => exact h
  | some e => obtain ⟨k, w, f⟩ := e; exact wfh_of_sublist h List.filter_sublist rfl rfl

theorem wfh_abortOp (s : Server) (h : WFH s) (wid : Nat) : WFH (abortOp s wid) := by
  simp only [abortOp]
  cases hf : findWid wid s.incoming with
  | none => exact h
  | some e => obtain ⟨k, v⟩ := e; exact wfh_of_sublist h List.filter_sublist rfl rfl

theorem wfh_advanceOp (s : Server) (h : WFH s) (dt : Nat) : WFH (advanceOp s dt) :=
  wfh_of_sublist h List.filter_sublist rfl rfl

/-- what the allocation loop does to handles -/
structure AllocH (s s' : Server) (ws : List (Nat × Nat)) : Prop where
  nextLe : s.nextId ≤ s'.nextId
  conns : s'.conns = s.conns
  wfh : WFH s → WFH s'
  wsRange : ∀ p ∈ ws, s.nextId ≤ p.2 ∧ p.2 < s'.nextId
  wsNodup : (ws.map (·.2)).Nodup

theorem allocLoop_h (si size : Nat) (rec : Bytes) (shs : List Nat) (s : Server) (rem : Int) :
    AllocH s (allocLoop si size rec s rem shs).1 (allocLoop si size rec s rem shs).2 := by
  induction shs generalizing s rem with
  | nil => exact ⟨Nat.le_refl _, rfl, id, by simp [allocLoop], by simp [allocLoop]⟩
  | cons sh rest ih =>
    simp only [allocLoop]
    split
    · exact ih s rem
    · split
      · exact ih s rem
      · split
        · exact ih s rem
        · split
          · let s1 : Server := { s with nextId := s.nextId + 1, incoming := ((si, sh), (mkWriter s size, newContainer size rec)) :: s.incoming }
            have e := ih s1 (rem - size)
            have hn1 : s1.nextId = s.nextId + 1 := rfl
            show AllocH s (allocLoop si size rec s1 (rem - ↑size) rest).1
              ((sh, (mkWriter s size).wid) :: (allocLoop si size rec s1 (rem - ↑size) rest).2)
            generalize allocLoop si size rec s1 (rem - ↑size) rest = r at e ⊢
            have hle := e.nextLe
            refine ⟨by omega, e.conns, fun h => e.wfh ?_, ?_, ?_⟩
            · refine ⟨?_, ?_, fun p hp => Nat.lt_succ_of_lt (h.connLt p hp), h.connNodup⟩
              · intro x hx
                simp only [s1, List.mem_cons] at hx
                rcases hx with rfl | hx
                · show s.nextId < s.nextId + 1; omega
                · exact Nat.lt_succ_of_lt (h.widLt x hx)
              · simp only [s1, List.map_cons, List.nodup_cons, mkWriter]
                refine ⟨?_, h.widNodup⟩
                intro hmem
                obtain ⟨x, hx, hxw⟩ := List.mem_map.mp hmem
                have := h.widLt x hx
                omega
            · intro p hp
              simp only [List.mem_cons] at hp
              rcases hp with rfl | hp
              · show s.nextId ≤ s.nextId ∧ s.nextId < r.1.nextId; omega
              · have := e.wsRange p hp; omega
            · simp only [List.map_cons, List.nodup_cons, mkWriter]
              refine ⟨?_, e.wsNodup⟩
              intro hmem
              obtain ⟨p, hp, hpw⟩ := List.mem_map.mp hmem
              have := (e.wsRange p hp).1
              omega
          · exact ih s rem

theorem allocate_h (s : Server) (h : WFH s) (si : Nat) (shs : List Nat) (size : Nat) (rec : Bytes)
    (free : Nat) (order : List Nat) :
    WFH (allocate s si shs size rec free order).1 ∧
    s.nextId ≤ (allocate s si shs size rec free order).1.nextId ∧
    (allocate s si shs size rec free order).1.conns = s.conns ∧
    (∀ o, (allocate s si shs size rec free order).2 = .ok o →
      (∀ p ∈ o.writers, s.nextId ≤ p.2 ∧ p.2 < (allocate s si shs size rec free order).1.nextId) ∧
      (o.writers.map (·.2)).Nodup) := by
  simp only [allocate, allocateWith]
  generalize leaseLoop (availableSpace s free) rec si s.final order = ll
  obtain ⟨fin', err⟩ := ll
  have h0 : WFH { s with final := fin' } := ⟨h.widLt, h.widNodup, h.connLt, h.connNodup⟩
  cases err with
  | some e => exact ⟨h0, Nat.le_refl _, rfl, by simp⟩
  | none =>
    simp only
    have e := allocLoop_h si size rec shs { s with final := fin' }
      ((availableSpace s free : Int) - (allocatedSize s : Int))
    refine ⟨e.wfh h0, e.nextLe, e.conns, ?_⟩
    intro o ho
    simp only [Except.ok.injEq] at ho
    subst ho
    exact ⟨e.wsRange, e.wsNodup⟩

theorem wfh_allocateConn (s : Server) (h : WFH s) (c si : Nat) (shs : List Nat) (size : Nat) (rec : Bytes)
    (free : Nat) (order : List Nat) : WFH (allocateConn s c si shs size rec free order).1 := by
  have a := allocate_h s h si shs size rec free order
  simp only [allocateConn]
  cases hr : (allocate s si shs size rec free order).2 with
  | error e => simp only; exact a.1
  | ok o =>
    simp only
    obtain ⟨rng, nd⟩ := a.2.2.2 o hr
    refine ⟨a.1.widLt, a.1.widNodup, ?_, ?_⟩
    · intro p hp
      simp only [List.mem_append, List.mem_map] at hp
      rcases hp with hp | ⟨q, hq, rfl⟩
      · exact a.1.connLt p hp
      · exact (rng q hq).2
    · simp only [List.map_append, List.map_map]
      have hmap : (o.writers.map ((fun x => x.1) ∘ fun p => (p.2, c))) = o.writers.map (·.2) := by
        apply List.map_congr_left; intro x _; rfl
      rw [hmap, List.nodup_append]
      refine ⟨a.1.connNodup, nd, ?_⟩
      intro x hx y hy hxy
      subst hxy
      obtain ⟨p, hp, rfl⟩ := List.mem_map.mp hx
      obtain ⟨q, hq, hqe⟩ := List.mem_map.mp hy
      rw [a.2.2.1] at hp
      have := h.connLt p hp
      have := (rng q hq).1
      omega

theorem wf_conns (s : Server) (h : WF s) (cs : List (Nat × Nat)) : WF { s with conns := cs } :=
  ⟨h.incKeys, h.inc, h.fin, h.disj⟩

theorem wf_foldl_abort (wids : List Nat) (s : Server) (h : WF s) :
    WF (wids.foldl abortOp s) ∧ (wids.foldl abortOp s).final = s.final := by
  induction wids generalizing s with
  | nil => exact ⟨h, rfl⟩
  | cons wid rest ih =>
    simp only [List.foldl_cons]
    cases hf : findWid wid s.incoming with
    | none => rw [(findWid_none_effects s wid hf 0 []).2.2]; exact ih s h
    | some e =>
      obtain ⟨k, w, f⟩ := e
      have e := abortOp_effect s h wid k w f hf
      have r := ih (abortOp s wid) e.1
      exact ⟨r.1, r.2.trans e.2.1⟩

theorem wfh_foldl_abort (wids : List Nat) (s : Server) (h : WFH s) : WFH (wids.foldl abortOp s) := by
  induction wids generalizing s with
  | nil => exact h
  | cons wid rest ih => simp only [List.foldl_cons]; exact ih _ (wfh_abortOp s h wid)

/-- every operation (direct or through the front end) preserves both invariants -/
theorem fstep_inv (s : Server) (h : WF s) (hh : WFH s) (op : FOp) (ok : FOpOk op) :
    WF (fstep s op) ∧ WFH (fstep s op) := by
  cases op with
  | direct op =>
    refine ⟨(step_refines s h op ok).1, ?_⟩
    cases op with
    | alloc si shs size rec free order => exact (allocate_h s hh si shs size rec free order).1
    | write wid off data => exact wfh_writeOp s hh wid off data
    | close wid => exact wfh_closeOp s hh wid
    | abort wid => exact wfh_abortOp s hh wid
    | advance dt => exact wfh_advanceOp s hh dt
    | read k off len => exact hh
    | list si => exact hh
  | allocConn c si shs size rec free order =>
    refine ⟨?_, wfh_allocateConn s hh c si shs size rec free order⟩
    have e := (allocate_effect s h si shs size rec ok free order).1
    simp only [fstep, allocateConn]
    cases hr : (allocate s si shs size rec free order).2 with
    | error e' => simp only; exact e
    | ok o => simp only; exact wf_conns _ e _
  | disconnect c =>
    exact ⟨(wf_foldl_abort _ s h).1, wfh_foldl_abort _ s hh⟩
  | restart =>
    exact ⟨⟨by simp [fstep, restartOp], by simp [fstep, restartOp, getK], h.fin, by simp [fstep, restartOp, getK]⟩,
           ⟨by simp [fstep, restartOp], by simp [fstep, restartOp], by simp [fstep, restartOp], by simp [fstep, restartOp]⟩⟩

theorem frun_inv (s : Server) (h : WF s) (hh : WFH s) (ops : List FOp) (ok : ∀ o ∈ ops, FOpOk o) :
    WF (frun s ops) ∧ WFH (frun s ops) := by
  induction ops generalizing s with
  | nil => exact ⟨h, hh⟩
  | cons op rest ih =>
    simp only [frun, List.foldl_cons]
    have e := fstep_inv s h hh op (ok op List.mem_cons_self)
    exact ih _ e.1 e.2 (fun o ho => ok o (List.mem_cons_of_mem _ ho))

theorem allocSum_filter_split (l : Inc) (p : Key × (Writer × File) → Bool) :
    allocSum (l.filter p) + allocSum (l.filter (fun x => !p x)) = allocSum l := by
  induction l with
  | nil => rfl
  | cons x rest ih =>
    simp only [allocSum, List.filter_cons, List.map_cons, List.sum_cons] at ih ⊢
    cases hp : p x <;> simp [List.sum_cons] <;> omega

theorem absShare_conns (s : Server) (cs : List (Nat × Nat)) (k : Key) :
    absShare { s with conns := cs } k = absShare s k := rfl

theorem allocateConn_fields (s : Server) (c si : Nat) (shs : List Nat) (size : Nat) (rec : Bytes)
    (free : Nat) (order : List Nat) :
    (allocateConn s c si shs size rec free order).1.final = (allocate s si shs size rec free order).1.final ∧
    (allocateConn s c si shs size rec free order).1.incoming = (allocate s si shs size rec free order).1.incoming := by
  simp only [allocateConn]
  cases (allocate s si shs size rec free order).2 <;> exact ⟨rfl, rfl⟩

theorem absShare_congr (s t : Server) (hf : t.final = s.final) (hi : t.incoming = s.incoming) (k : Key) :
    absShare t k = absShare s k := by
  simp only [absShare, hf, hi]

/-- one front-end step preserves the invariants and refines the specification -/
theorem fstep_refines (s : Server) (h : WF s) (hh : WFH s) (op : FOp) (ok : FOpOk op) :
    FSpecStep s (absShare s) op (absShare (fstep s op)) := by
  cases op with
  | direct o => exact (step_refines s h o ok).2
  | allocConn c si shs size rec free order =>
    have e := (allocate_effect s h si shs size rec ok free order).2.2
    have f := allocateConn_fields s c si shs size rec free order
    intro k
    simp only [fstep]
    rw [absShare_congr _ _ f.1 f.2 k]
    exact e k
  | disconnect c =>
    intro k
    have heq := foldl_abort_eq_filter (widsOfConn s c) s h.incKeys hh.widNodup
    simp only [fstep, disconnectOp]
    rw [heq]
    simp only [absShare]
    cases hfin : getK k s.final with
    | some f =>
      have := h.disj k (by simp [hfin])
      simp only [this]
    | none =>
      simp only
      rw [getK_filter _ _ h.incKeys]
      cases hinc : getK k s.incoming with
      | none => simp
      | some v =>
        obtain ⟨w, f⟩ := v
        simp only
        cases hc : (widsOfConn s c).contains w.wid <;> simp [hc]
  | restart =>
    intro k
    simp only [fstep, restartOp, absShare, getK]
    cases hfin : getK k s.final with
    | some f => rfl
    | none =>
      simp only
      cases getK k s.incoming with
      | none => rfl
      | some v => rfl

end Tahoe.Storage.Imm
