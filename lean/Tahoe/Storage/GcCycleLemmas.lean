import Tahoe.Storage.GcCycle
import Tahoe.Storage.CrawlerLemmas
import Tahoe.Storage.ExpireLemmas
/-! Helper lemmas for the schedule-level C26 theorems (crawler ∘ expirer). -/
namespace Tahoe.Storage.GcCycle
open Tahoe.Storage.Crawler Tahoe.Storage.Expire

theorem zip_map_self {α β : Type} (l : List α) (f : α → β) : l.zip (l.map f) = l.map (fun x => (x, f x)) := by
  induction l with
  | nil => rfl
  | cons a r ih => simp [ih]

/-- what one share file looks like after `process_share` (`none`: unlinked) -/
def shareAfter (cfg : Config) (now : Int) (s : Nat × ShareType × List Lease) : Option (Nat × ShareType × List Lease) :=
  if (processShare cfg now s.2.1 s.2.2).share.present then
    some (s.1, s.2.1, (processShare cfg now s.2.1 s.2.2).share.leases) else none

/-- when no share makes `process_share` raise, `process_bucket` is `process_share` on every file -/
theorem processBucketW_noraise (cfg : Config) (now : Int) (bk : Bucket)
    (h : ∀ s ∈ bk, (processShare cfg now s.2.1 s.2.2).raised = none) :
    processBucketW cfg now bk = bk.filterMap (shareAfter cfg now) := by
  have hn := processBucketAux_noraise cfg now (bk.map (fun s => (s.2.1, s.2.2))) []
    (by intro sh hsh; obtain ⟨s, hs, rfl⟩ := List.mem_map.1 hsh; exact h s hs)
  unfold processBucketW processBucket
  rw [hn]
  simp only [List.reverse_nil, List.nil_append, List.map_map, List.length_map, List.drop_length, List.append_nil]
  rw [zip_map_self, List.filterMap_map]
  rfl

/-- `process_share` on a well-formed share with expiration enabled, in `shareAfter` terms -/
theorem shareAfter_wellformed (cfg : Config) (now : Int) (hon : cfg.enabled = true)
    (s : Nat × ShareType × List Lease) (hwf : WellFormedLeases s.2.2) :
    (processShare cfg now s.2.1 s.2.2).raised = none ∧
    (shareAfter cfg now s = none ↔ typeEnabled cfg s.2.1 = true ∧ ∀ l ∈ s.2.2, DocExpired cfg now l) ∧
    (∀ t, shareAfter cfg now s = some t →
      t.1 = s.1 ∧ t.2.1 = s.2.1 ∧
      t.2.2 = s.2.2.filter (fun l => !(typeEnabled cfg s.2.1 && decide (DocExpired cfg now l))) ∧
      WellFormedLeases t.2.2) := by
  obtain ⟨h1, h2, h3⟩ := processShare_wellformed cfg now s.2.1 s.2.2 hon hwf.1 hwf.2
  simp only [ShareResult.removed, Bool.not_eq_true'] at h3
  refine ⟨h1, ?_, ?_⟩
  · unfold shareAfter
    cases hp : (processShare cfg now s.2.1 s.2.2).share.present
    · simp only [Bool.false_eq_true, if_false, true_iff]; exact h3.1 hp
    · simp only [if_true, false_iff, reduceCtorEq]
      intro hh; have := h3.2 hh; rw [hp] at this; cases this
  · intro t ht
    unfold shareAfter at ht
    cases hp : (processShare cfg now s.2.1 s.2.2).share.present
    · rw [hp] at ht; simp at ht
    · rw [hp] at ht
      simp only [if_true, Option.some.injEq] at ht
      subst ht
      refine ⟨rfl, rfl, h2, ?_, hwf.2.filter _ |> fun hd => by rw [h2]; exact hd⟩
      -- not removed: some lease is kept
      have hnot : ¬ (typeEnabled cfg s.2.1 = true ∧ ∀ l ∈ s.2.2, DocExpired cfg now l) := by
        intro hh; have := h3.2 hh; rw [hp] at this; cases this
      show (processShare cfg now s.2.1 s.2.2).share.leases ≠ []
      rw [h2]
      intro hnil
      apply hnot
      rw [List.filter_eq_nil_iff] at hnil
      cases hte : typeEnabled cfg s.2.1
      · obtain ⟨l, hl⟩ := List.exists_mem_of_ne_nil _ hwf.1
        have := hnil l hl
        simp [hte] at this
      · refine ⟨rfl, ?_⟩
        intro l hl
        have := hnil l hl
        simpa [hte] using this

theorem shareAfter_disabled (cfg : Config) (now : Int) (hoff : cfg.enabled = false)
    (s : Nat × ShareType × List Lease) :
    (processShare cfg now s.2.1 s.2.2).raised = none ∧ shareAfter cfg now s = some s := by
  have h : (processShare cfg now s.2.1 s.2.2).share = ⟨true, s.2.2⟩ ∧ (processShare cfg now s.2.1 s.2.2).raised = none := by
    simp [processShare, hoff]
  refine ⟨h.2, ?_⟩
  unfold shareAfter
  rw [h.1]
  rfl

/-- the log of the composed machine is the crawler's log; the crawler state is the crawler's state -/
theorem gcRun_crawler (cfg : Config) (np : Nat) (gs : List GEvent) : ∀ (s : St) (w : World),
    (gcRun cfg np s w gs).1 = (run np s (gs.map (·.ev))).1 ∧
    (gcRun cfg np s w gs).2.2 = (run np s (gs.map (·.ev))).2 := by
  induction gs with
  | nil => intro s w; exact ⟨rfl, rfl⟩
  | cons g gs ih =>
    intro s w
    obtain ⟨h1, h2⟩ := ih (step np s g.ev).1 (applyLog cfg g.now w (step np s g.ev).2)
    simp only [gcRun, run, List.map_cons]
    exact ⟨h1, by rw [h2]⟩

/-! ### invariants of the share files along a schedule -/

section inv
variable (cfg : Config) (b k : Nat) (N : List Int)

/-- all shares everywhere are well-formed -/
def AllWF (w : World) : Prop := ∀ b' s, s ∈ w b' → WellFormedLeases s.2.2

/-- share number `k` is no longer in bucket `b` -/
def Gone (w : World) : Prop := ∀ s ∈ w b, s.1 ≠ k

/-- every file numbered `k` in bucket `b` is of an enabled type and all-expired at every clock of `N` -/
def Doomed (w : World) : Prop :=
  ∀ s ∈ w b, s.1 = k → typeEnabled cfg s.2.1 = true ∧ ∀ l ∈ s.2.2, ∀ now ∈ N, DocExpired cfg now l

/-- some file numbered `k` in bucket `b` still holds lease `l0` -/
def Holds (ty : ShareType) (l0 : Lease) (w : World) : Prop := ∃ s ∈ w b, s.1 = k ∧ s.2.1 = ty ∧ l0 ∈ s.2.2

theorem processBucketW_wf (hon : cfg.enabled = true) (now : Int) (bk : Bucket)
    (hwf : ∀ s ∈ bk, WellFormedLeases s.2.2) :
    processBucketW cfg now bk = bk.filterMap (shareAfter cfg now) :=
  processBucketW_noraise cfg now bk (fun s hs => (shareAfter_wellformed cfg now hon s (hwf s hs)).1)

theorem step_world (hon : cfg.enabled = true) (now : Int) (hnow : now ∈ N) (w : World) (e : Entry)
    (hwf : AllWF w) (hd : Doomed cfg b k N w) :
    let w' : World := fun b' => if b' = e.bucket then processBucketW cfg now (w b') else w b'
    AllWF w' ∧ Doomed cfg b k N w' ∧ (Gone b k w → Gone b k w') ∧ (e.bucket = b → Gone b k w') ∧
    (∀ ty l0, (typeEnabled cfg ty = false ∨ ¬ DocExpired cfg now l0) → Holds b k ty l0 w → Holds b k ty l0 w') := by
  intro w'
  have hpb : ∀ b', processBucketW cfg now (w b') = (w b').filterMap (shareAfter cfg now) :=
    fun b' => processBucketW_wf cfg hon now (w b') (fun s hs => hwf b' s hs)
  have hmem : ∀ b' t, t ∈ processBucketW cfg now (w b') →
      ∃ s ∈ w b', shareAfter cfg now s = some t := by
    intro b' t ht
    rw [hpb, List.mem_filterMap] at ht
    exact ht
  refine ⟨?_, ?_, ?_, ?_, ?_⟩
  · intro b' t ht
    by_cases hb : b' = e.bucket
    · simp only [w', hb, if_true] at ht
      obtain ⟨s, hs, hst⟩ := hmem _ t ht
      exact ((shareAfter_wellformed cfg now hon s (hwf _ s hs)).2.2 t hst).2.2.2
    · simp only [w', hb, if_false] at ht
      exact hwf b' t ht
  · intro t ht htk
    by_cases hb : b = e.bucket
    · simp only [w', hb, if_true] at ht
      obtain ⟨s, hs, hst⟩ := hmem _ t ht
      obtain ⟨q1, q2, q3, _⟩ := (shareAfter_wellformed cfg now hon s (hwf _ s hs)).2.2 t hst
      have := hd s (hb ▸ hs) (by rw [← q1]; exact htk)
      refine ⟨by rw [q2]; exact this.1, ?_⟩
      intro l hl
      rw [q3] at hl
      exact this.2 l (List.mem_filter.1 hl).1
    · simp only [w', hb, if_false] at ht
      exact hd t ht htk
  · intro hg t ht
    by_cases hb : b = e.bucket
    · simp only [w', hb, if_true] at ht
      obtain ⟨s, hs, hst⟩ := hmem _ t ht
      have q1 := ((shareAfter_wellformed cfg now hon s (hwf _ s hs)).2.2 t hst).1
      rw [q1]; exact hg s (hb ▸ hs)
    · simp only [w', hb, if_false] at ht
      exact hg t ht
  · intro hb t ht
    simp only [w', hb.symm, if_true] at ht
    obtain ⟨s, hs, hst⟩ := hmem _ t ht
    obtain ⟨_, q0, q⟩ := shareAfter_wellformed cfg now hon s (hwf _ s hs)
    have q1 := (q t hst).1
    intro htk
    have hsd := hd s (hb ▸ hs) (by rw [← q1]; exact htk)
    have : shareAfter cfg now s = none := q0.2 ⟨hsd.1, fun l hl => hsd.2 l hl now hnow⟩
    rw [this] at hst; cases hst
  · intro ty l0 hkeep ⟨s, hs, hsk, hsty, hl0⟩
    by_cases hb : b = e.bucket
    · obtain ⟨_, q0, q⟩ := shareAfter_wellformed cfg now hon s (hwf _ s hs)
      cases hsa : shareAfter cfg now s with
      | none =>
        have := q0.1 hsa
        rcases hkeep with hk | hk
        · rw [hsty, hk] at this; cases this.1
        · exact absurd (this.2 l0 hl0) hk
      | some t =>
        obtain ⟨q1, q2, q3, _⟩ := q t hsa
        refine ⟨t, ?_, by rw [q1]; exact hsk, by rw [q2]; exact hsty, ?_⟩
        · simp only [w', hb, if_true]
          rw [hpb, List.mem_filterMap]
          exact ⟨s, hb ▸ hs, hsa⟩
        · rw [q3, List.mem_filter]
          refine ⟨hl0, ?_⟩
          rcases hkeep with hk | hk
          · rw [hsty, hk]; simp
          · simp [hk]
    · exact ⟨s, by simp only [w', hb, if_false]; exact hs, hsk, hsty, hl0⟩

theorem applyLog_inv (hon : cfg.enabled = true) (now : Int) (hnow : now ∈ N) (log : List Entry) :
    ∀ (w : World), AllWF w → Doomed cfg b k N w →
      AllWF (applyLog cfg now w log) ∧ Doomed cfg b k N (applyLog cfg now w log) ∧
      (Gone b k w → Gone b k (applyLog cfg now w log)) ∧
      ((∃ e ∈ log, e.bucket = b) → Gone b k (applyLog cfg now w log)) ∧
      (∀ ty l0, (typeEnabled cfg ty = false ∨ ¬ DocExpired cfg now l0) → Holds b k ty l0 w →
        Holds b k ty l0 (applyLog cfg now w log)) := by
  induction log with
  | nil => intro w hwf hd; exact ⟨hwf, hd, id, (by rintro ⟨e, he, _⟩; cases he), fun _ _ _ h => h⟩
  | cons e es ih =>
    intro w hwf hd
    obtain ⟨s1, s2, s3, s4, s5⟩ := step_world cfg b k N hon now hnow w e hwf hd
    obtain ⟨i1, i2, i3, i4, i5⟩ := ih _ s1 s2
    refine ⟨i1, i2, fun hg => i3 (s3 hg), ?_, fun ty l0 hk hh => i5 ty l0 hk (s5 ty l0 hk hh)⟩
    rintro ⟨x, hx, hxb⟩
    rcases List.mem_cons.1 hx with rfl | hx
    · exact i3 (s4 hxb)
    · exact i4 ⟨x, hx, hxb⟩

theorem gcRun_inv (hon : cfg.enabled = true) (np : Nat) (gs : List GEvent) :
    ∀ (s : St) (w : World), (∀ g ∈ gs, g.now ∈ N) → AllWF w → Doomed cfg b k N w →
      (Gone b k w → Gone b k (gcRun cfg np s w gs).2.1) ∧
      ((∃ e ∈ (gcRun cfg np s w gs).2.2, e.bucket = b) → Gone b k (gcRun cfg np s w gs).2.1) ∧
      (∀ ty l0, (typeEnabled cfg ty = false ∨ ∀ now ∈ N, ¬ DocExpired cfg now l0) → Holds b k ty l0 w →
        Holds b k ty l0 (gcRun cfg np s w gs).2.1) := by
  induction gs with
  | nil =>
    intro s w _ _ _
    exact ⟨id, (by rintro ⟨e, he, _⟩; cases he), fun _ _ _ h => h⟩
  | cons g gs ih =>
    intro s w hn hwf hd
    have hg : g.now ∈ N := hn g List.mem_cons_self
    obtain ⟨a1, a2, a3, a4, a5⟩ := applyLog_inv cfg b k N hon g.now hg (step np s g.ev).2 w hwf hd
    obtain ⟨i1, i2, i3⟩ := ih (step np s g.ev).1 _ (fun x hx => hn x (List.mem_cons_of_mem _ hx)) a1 a2
    refine ⟨fun h => i1 (a3 h), ?_, ?_⟩
    · rintro ⟨e, he, heb⟩
      simp only [gcRun] at he
      rcases List.mem_append.1 he with he | he
      · exact i1 (a4 ⟨e, he, heb⟩)
      · exact i2 ⟨e, he, heb⟩
    · intro ty l0 hk hh
      refine i3 ty l0 hk (a5 ty l0 ?_ hh)
      rcases hk with hk | hk
      · exact Or.inl hk
      · exact Or.inr (hk g.now hg)

end inv

/-! ### survival of a share that holds a lease which never expires during the schedule -/

theorem step_world_holds (cfg : Config) (hon : cfg.enabled = true) (now : Int) (w : World) (e : Entry)
    (hwf : AllWF w) (b k : Nat) (ty : ShareType) (l0 : Lease)
    (hkeep : typeEnabled cfg ty = false ∨ ¬ DocExpired cfg now l0) (hh : Holds b k ty l0 w) :
    let w' : World := fun b' => if b' = e.bucket then processBucketW cfg now (w b') else w b'
    AllWF w' ∧ Holds b k ty l0 w' := by
  intro w'
  have hpb : ∀ b', processBucketW cfg now (w b') = (w b').filterMap (shareAfter cfg now) :=
    fun b' => processBucketW_wf cfg hon now (w b') (fun s hs => hwf b' s hs)
  refine ⟨?_, ?_⟩
  · intro b' t ht
    by_cases hb : b' = e.bucket
    · simp only [w', hb, if_true] at ht
      rw [hpb, List.mem_filterMap] at ht
      obtain ⟨s, hs, hst⟩ := ht
      exact ((shareAfter_wellformed cfg now hon s (hwf _ s hs)).2.2 t hst).2.2.2
    · simp only [w', hb, if_false] at ht
      exact hwf b' t ht
  · obtain ⟨s, hs, hsk, hsty, hl0⟩ := hh
    by_cases hb : b = e.bucket
    · obtain ⟨_, q0, q⟩ := shareAfter_wellformed cfg now hon s (hwf _ s hs)
      cases hsa : shareAfter cfg now s with
      | none =>
        have := q0.1 hsa
        rcases hkeep with hk | hk
        · rw [hsty, hk] at this; cases this.1
        · exact absurd (this.2 l0 hl0) hk
      | some t =>
        obtain ⟨q1, q2, q3, _⟩ := q t hsa
        refine ⟨t, ?_, by rw [q1]; exact hsk, by rw [q2]; exact hsty, ?_⟩
        · simp only [w', hb, if_true]
          rw [hpb, List.mem_filterMap]
          exact ⟨s, hb ▸ hs, hsa⟩
        · rw [q3, List.mem_filter]
          refine ⟨hl0, ?_⟩
          rcases hkeep with hk | hk
          · rw [hsty, hk]; simp
          · simp [hk]
    · exact ⟨s, by simp only [w', hb, if_false]; exact hs, hsk, hsty, hl0⟩

theorem applyLog_holds (cfg : Config) (hon : cfg.enabled = true) (now : Int) (b k : Nat) (ty : ShareType)
    (l0 : Lease) (hkeep : typeEnabled cfg ty = false ∨ ¬ DocExpired cfg now l0) (log : List Entry) :
    ∀ (w : World), AllWF w → Holds b k ty l0 w →
      AllWF (applyLog cfg now w log) ∧ Holds b k ty l0 (applyLog cfg now w log) := by
  induction log with
  | nil => intro w hwf hh; exact ⟨hwf, hh⟩
  | cons e es ih =>
    intro w hwf hh
    obtain ⟨s1, s2⟩ := step_world_holds cfg hon now w e hwf b k ty l0 hkeep hh
    exact ih _ s1 s2

theorem gcRun_holds (cfg : Config) (hon : cfg.enabled = true) (np : Nat) (b k : Nat) (ty : ShareType) (l0 : Lease)
    (gs : List GEvent) :
    ∀ (s : St) (w : World), (typeEnabled cfg ty = false ∨ ∀ g ∈ gs, ¬ DocExpired cfg g.now l0) →
      AllWF w → Holds b k ty l0 w → Holds b k ty l0 (gcRun cfg np s w gs).2.1 := by
  induction gs with
  | nil => intro s w _ _ hh; exact hh
  | cons g gs ih =>
    intro s w hk hwf hh
    have hk1 : typeEnabled cfg ty = false ∨ ¬ DocExpired cfg g.now l0 := by
      rcases hk with h | h
      · exact Or.inl h
      · exact Or.inr (h g List.mem_cons_self)
    have hk2 : typeEnabled cfg ty = false ∨ ∀ x ∈ gs, ¬ DocExpired cfg x.now l0 := by
      rcases hk with h | h
      · exact Or.inl h
      · exact Or.inr (fun x hx => h x (List.mem_cons_of_mem _ hx))
    obtain ⟨a1, a2⟩ := applyLog_holds cfg hon g.now b k ty l0 hk1 (step np s g.ev).2 w hwf hh
    exact ih (step np s g.ev).1 _ hk2 a1 a2

/-- expiration disabled: no schedule changes any share file -/
theorem gcRun_disabled (cfg : Config) (hoff : cfg.enabled = false) (np : Nat) (gs : List GEvent) :
    ∀ (s : St) (w : World), (gcRun cfg np s w gs).2.1 = w := by
  have hpb : ∀ now (bk : Bucket), processBucketW cfg now bk = bk := by
    intro now bk
    rw [processBucketW_noraise cfg now bk (fun s _ => (shareAfter_disabled cfg now hoff s).1)]
    induction bk with
    | nil => rfl
    | cons a r ih => rw [List.filterMap_cons, (shareAfter_disabled cfg now hoff a).2, ih]
  have hlog : ∀ now (log : List Entry) (w : World), applyLog cfg now w log = w := by
    intro now log
    induction log with
    | nil => intro w; rfl
    | cons e es ih =>
      intro w
      simp only [applyLog]
      rw [ih]
      funext b'
      split
      · exact hpb now _
      · rfl
  induction gs with
  | nil => intro s w; rfl
  | cons g gs ih =>
    intro s w
    simp only [gcRun]
    rw [ih, hlog]

end Tahoe.Storage.GcCycle
