import Tahoe.Storage.Crawler
/-! Helper lemmas for C27: what one `process_prefixdir`, one loop of `start_current_prefix`,
    one slice do to the position `(next, last-complete-bucket)` and to the log. -/
namespace Tahoe.Storage.Crawler

/-- `b ≤ last-complete-bucket` (false when that is None) -/
def LeOpt (b : Nat) (lcb : Option Nat) : Prop := ∃ l, lcb = some l ∧ b ≤ l

theorem skip_iff (lcb : Option Nat) (b : Nat) : skip lcb b = true ↔ LeOpt b lcb := by
  cases lcb <;> simp [skip, LeOpt]

theorem leOpt_some (b l : Nat) : LeOpt b (some l) ↔ b ≤ l := by simp [LeOpt]

theorem not_leOpt_none (b : Nat) : ¬ LeOpt b none := by simp [LeOpt]

/-! ### process_prefixdir -/

theorem ppd_mono (cyc i : Nat) (bs : List Nat) : ∀ (lcb : Option Nat) (o : List Bool) (x : Nat),
    LeOpt x lcb → LeOpt x (processPrefixdir cyc i lcb bs o).lcb := by
  induction bs with
  | nil => intro lcb o x h; simpa [processPrefixdir] using h
  | cons b rest ih =>
    intro lcb o x h
    simp only [processPrefixdir]
    split
    · exact ih _ _ _ h
    · rename_i hs
      have hlt : ¬ LeOpt b lcb := fun hh => hs ((skip_iff _ _).2 hh)
      have hxb : x ≤ b := by
        obtain ⟨l, hl, hxl⟩ := h
        have : ¬ b ≤ l := fun hbl => hlt ⟨l, hl, hbl⟩
        omega
      split
      · exact ⟨b, rfl, hxb⟩
      · exact ih _ _ _ ⟨b, rfl, hxb⟩

theorem ppd_src (cyc i : Nat) (bs : List Nat) : ∀ (lcb : Option Nat) (o : List Bool),
    (processPrefixdir cyc i lcb bs o).lcb = lcb ∨ ∃ l ∈ bs, (processPrefixdir cyc i lcb bs o).lcb = some l := by
  induction bs with
  | nil => intro lcb o; simp [processPrefixdir]
  | cons b rest ih =>
    intro lcb o
    simp only [processPrefixdir]
    split
    · rcases ih lcb o with h | ⟨l, hl, h⟩
      · exact Or.inl h
      · exact Or.inr ⟨l, List.mem_cons_of_mem _ hl, h⟩
    · split
      · exact Or.inr ⟨b, List.mem_cons_self, rfl⟩
      · rcases ih (some b) (tick o).2 with h | ⟨l, hl, h⟩
        · exact Or.inr ⟨b, List.mem_cons_self, h⟩
        · exact Or.inr ⟨l, List.mem_cons_of_mem _ hl, h⟩

/-- every call made by `process_prefixdir`: right cycle/prefix, a listed bucket, strictly beyond the
    old `last-complete-bucket`, at most the new one -/
theorem ppd_entries (cyc i : Nat) (bs : List Nat) : ∀ (lcb : Option Nat) (o : List Bool),
    ∀ e ∈ (processPrefixdir cyc i lcb bs o).log,
      e.cycle = cyc ∧ e.pfx = i ∧ e.bucket ∈ bs ∧ ¬ LeOpt e.bucket lcb ∧
      LeOpt e.bucket (processPrefixdir cyc i lcb bs o).lcb := by
  induction bs with
  | nil => intro lcb o e he; simp [processPrefixdir] at he
  | cons b rest ih =>
    intro lcb o e he
    simp only [processPrefixdir] at he ⊢
    split at he
    · rename_i hs
      simp only [hs, if_true]
      obtain ⟨h1, h2, h3, h4, h5⟩ := ih lcb o e he
      exact ⟨h1, h2, List.mem_cons_of_mem _ h3, h4, h5⟩
    · rename_i hs
      have hlt : ¬ LeOpt b lcb := fun hh => hs ((skip_iff _ _).2 hh)
      simp only [hs]
      split at he
      · rename_i ht
        simp only [ht, if_true]
        simp only [List.mem_singleton] at he
        subst he
        exact ⟨rfl, rfl, List.mem_cons_self, hlt, ⟨b, rfl, Nat.le_refl _⟩⟩
      · rename_i ht
        simp only [ht]
        simp only [List.mem_cons] at he
        rcases he with he | he
        · subst he
          exact ⟨rfl, rfl, List.mem_cons_self, hlt, ppd_mono cyc i rest _ _ _ ⟨b, rfl, Nat.le_refl _⟩⟩
        · obtain ⟨h1, h2, h3, h4, h5⟩ := ih (some b) (tick o).2 e he
          refine ⟨h1, h2, List.mem_cons_of_mem _ h3, ?_, h5⟩
          intro ⟨l, hl, hel⟩
          have : ¬ b ≤ l := fun hbl => hlt ⟨l, hl, hbl⟩
          exact h4 ⟨b, rfl, by omega⟩

theorem ppd_incr (cyc i : Nat) (bs : List Nat) : ∀ (lcb : Option Nat) (o : List Bool),
    (processPrefixdir cyc i lcb bs o).log.Pairwise (fun a b => a.bucket < b.bucket) := by
  induction bs with
  | nil => intro lcb o; simp [processPrefixdir]
  | cons b rest ih =>
    intro lcb o
    simp only [processPrefixdir]
    split
    · exact ih _ _
    · split
      · simp
      · simp only [List.pairwise_cons]
        refine ⟨?_, ih _ _⟩
        intro e he
        have := (ppd_entries cyc i rest (some b) (tick o).2 e he).2.2.2.1
        simp only [leOpt_some] at this
        show b < e.bucket
        omega

/-- if `process_prefixdir` returns normally every listed bucket is at or before the new
    `last-complete-bucket` -/
theorem ppd_done (cyc i : Nat) (bs : List Nat) : ∀ (lcb : Option Nat) (o : List Bool),
    (processPrefixdir cyc i lcb bs o).ex = false → ∀ x ∈ bs, LeOpt x (processPrefixdir cyc i lcb bs o).lcb := by
  induction bs with
  | nil => intro lcb o _ x hx; cases hx
  | cons b rest ih =>
    intro lcb o hex x hx
    simp only [processPrefixdir] at hex ⊢
    split
    · rename_i hs
      simp only [hs, if_true] at hex
      rcases List.mem_cons.1 hx with rfl | hx
      · exact ppd_mono cyc i rest _ _ _ ((skip_iff _ _).1 hs)
      · exact ih _ _ hex x hx
    · rename_i hs
      simp only [hs] at hex
      split
      · rename_i ht; simp [ht] at hex
      · rename_i ht
        simp only [ht] at hex
        rcases List.mem_cons.1 hx with rfl | hx
        · exact ppd_mono cyc i rest _ _ _ ⟨x, rfl, Nat.le_refl _⟩
        · exact ih _ _ hex x hx

/-- on a sorted listing: a listed bucket at or before the new `last-complete-bucket` was either
    already behind the old one or has been processed by this call -/
theorem ppd_cover (cyc i : Nat) (bs : List Nat) : ∀ (lcb : Option Nat) (o : List Bool),
    bs.Pairwise (· ≤ ·) → ∀ x ∈ bs, LeOpt x (processPrefixdir cyc i lcb bs o).lcb →
      LeOpt x lcb ∨ (⟨cyc, i, x⟩ : Entry) ∈ (processPrefixdir cyc i lcb bs o).log := by
  induction bs with
  | nil => intro lcb o _ x hx; cases hx
  | cons b rest ih =>
    intro lcb o hsorted x hx hle
    simp only [List.pairwise_cons] at hsorted
    simp only [processPrefixdir] at hle ⊢
    split
    · rename_i hs
      simp only [hs, if_true] at hle
      rcases List.mem_cons.1 hx with rfl | hx
      · exact Or.inl ((skip_iff _ _).1 hs)
      · exact ih _ _ hsorted.2 x hx hle
    · rename_i hs
      simp only [hs] at hle
      split
      · rename_i ht
        have hle' : x ≤ b := by simpa [ht, leOpt_some] using hle
        rcases List.mem_cons.1 hx with rfl | hx
        · exact Or.inr (by simp)
        · have := hsorted.1 x hx
          have : x = b := by omega
          subst this; exact Or.inr (by simp)
      · rename_i ht
        simp only [ht] at hle
        rcases List.mem_cons.1 hx with rfl | hx
        · exact Or.inr (by simp)
        · rcases ih (some b) (tick o).2 hsorted.2 x hx hle with h | h
          · have := hsorted.1 x hx
            simp only [leOpt_some] at h
            have : x = b := by omega
            subst this; exact Or.inr (by simp)
          · exact Or.inr (List.mem_cons_of_mem _ h)

/-! ### listings -/

theorem mem_insertName (a x : Nat) (l : List Nat) : x ∈ insertName a l ↔ x = a ∨ x ∈ l := by
  induction l with
  | nil => simp [insertName]
  | cons b r ih =>
    simp only [insertName]
    split
    · simp
    · simp only [List.mem_cons, ih]
      constructor
      · rintro (h | h | h) <;> simp [h]
      · rintro (h | h | h) <;> simp [h]

theorem sorted_insertName (a : Nat) (l : List Nat) (h : l.Pairwise (· ≤ ·)) :
    (insertName a l).Pairwise (· ≤ ·) := by
  induction l with
  | nil => simp [insertName]
  | cons b r ih =>
    simp only [List.pairwise_cons] at h
    simp only [insertName]
    split
    · rename_i hab
      simp only [List.pairwise_cons, List.mem_cons]
      refine ⟨?_, h.1, h.2⟩
      rintro x (rfl | hx)
      · exact hab
      · exact Nat.le_trans hab (h.1 x hx)
    · rename_i hab
      simp only [List.pairwise_cons]
      refine ⟨?_, ih h.2⟩
      intro x hx
      rcases (mem_insertName a x r).1 hx with rfl | hx
      · omega
      · exact h.1 x hx

theorem mem_sortNames (l : List Nat) (x : Nat) : x ∈ sortNames l ↔ x ∈ l := by
  unfold sortNames
  induction l with
  | nil => simp
  | cons a r ih => simp only [List.foldr_cons, mem_insertName, ih, List.mem_cons]

theorem sorted_sortNames (l : List Nat) : (sortNames l).Pairwise (· ≤ ·) := by
  unfold sortNames
  induction l with
  | nil => simp
  | cons a r ih => exact sorted_insertName a _ ih

/-- a cached listing that may be used for prefix `i` is a sorted listing of names of prefix `i` -/
def CacheGood (pf : Nat → Nat) (cache : Option (Nat × List Nat)) (i : Nat) : Prop :=
  ∀ j bs, cache = some (j, bs) → j = i → (∀ x ∈ bs, pf x = j) ∧ bs.Pairwise (· ≤ ·)

/-- the target bucket `(p, b)` is behind the position `(next, lcb)` -/
def Behind (p b next : Nat) (lcb : Option Nat) : Prop := p < next ∨ LeOpt b lcb

section loop
set_option linter.unusedSectionVars false
variable (pf : Nat → Nat) (hmono : ∀ a b, a ≤ b → pf a ≤ pf b)
variable (ls : Nat → List Nat) (hls : ∀ i x, x ∈ ls i → pf x = i)
variable (cyc : Nat)
include hmono hls

theorem bucketsFor_good (cache : Option (Nat × List Nat)) (i : Nat) (hc : CacheGood pf cache i) :
    (∀ x ∈ bucketsFor ls cache i, pf x = i) ∧ (bucketsFor ls cache i).Pairwise (· ≤ ·) := by
  have hfresh : (∀ x ∈ sortNames (ls i), pf x = i) ∧ (sortNames (ls i)).Pairwise (· ≤ ·) :=
    ⟨fun x hx => hls i x ((mem_sortNames _ _).1 hx), sorted_sortNames _⟩
  unfold bucketsFor
  split
  · rename_i j bs
    split
    · rename_i hij
      have := hc j bs rfl hij.symm
      subst hij
      exact this
    · exact hfresh
  · exact hfresh

omit hmono hls in
theorem bucketsFor_mem (T : Prop) (p b : Nat) (hpres : T → b ∈ ls p)
    (cache : Option (Nat × List Nat)) (i : Nat)
    (hin : T → ∀ j bs, cache = some (j, bs) → j = i → j = p → b ∈ bs) :
    T → i = p → b ∈ bucketsFor ls cache i := by
  intro ht hip
  unfold bucketsFor
  split
  · rename_i j bs
    split
    · rename_i hij
      exact hin ht j bs rfl hij.symm (by omega)
    · subst hip; exact (mem_sortNames _ _).2 (hpres ht)
  · subst hip; exact (mem_sortNames _ _).2 (hpres ht)

/-- one prefix: what `process_prefixdir` on a good listing of prefix `i` does to "behind" -/
theorem prefix_step (T : Prop) (p b : Nat) (hpb : pf b = p) (i : Nat) (lcb : Option Nat) (o : List Bool)
    (buckets : List Nat) (hb1 : ∀ x ∈ buckets, pf x = i) (hb2 : buckets.Pairwise (· ≤ ·))
    (hbin : T → i = p → b ∈ buckets) (ht : T) :
    let r := processPrefixdir cyc i lcb buckets o
    (Behind p b i r.lcb → Behind p b i lcb ∨ (⟨cyc, p, b⟩ : Entry) ∈ r.log) ∧
    (r.ex = false → Behind p b (i + 1) r.lcb → Behind p b i lcb ∨ (⟨cyc, p, b⟩ : Entry) ∈ r.log) := by
  intro r
  have hle : LeOpt b r.lcb → Behind p b i lcb ∨ (⟨cyc, p, b⟩ : Entry) ∈ r.log := by
    intro h
    rcases ppd_src cyc i buckets lcb o with hsame | ⟨l, hl, hsome⟩
    · exact Or.inl (Or.inr (hsame ▸ h))
    · have hbl : b ≤ l := by
        obtain ⟨l', hl', hbl'⟩ := h
        have : r.lcb = some l := hsome
        rw [this] at hl'; cases hl'; exact hbl'
      have h1 := hmono b l hbl
      rw [hpb, hb1 l hl] at h1
      by_cases hpi : p < i
      · exact Or.inl (Or.inl hpi)
      · have hip : i = p := by omega
        rcases ppd_cover cyc i buckets lcb o hb2 b (hbin ht hip) h with h2 | h2
        · exact Or.inl (Or.inr h2)
        · exact Or.inr (hip ▸ h2)
  refine ⟨?_, ?_⟩
  · rintro (h | h)
    · exact Or.inl (Or.inl h)
    · exact hle h
  · intro hex
    rintro (h | h)
    · by_cases hpi : p < i
      · exact Or.inl (Or.inl hpi)
      · have hip : i = p := by omega
        exact hle (ppd_done cyc i buckets lcb o hex b (hbin ht hip))
    · exact hle h

theorem loop_wf (fuel : Nat) : ∀ (i : Nat) (lcb : Option Nat) (cache : Option (Nat × List Nat)) (o : List Bool),
    (∀ l, lcb = some l → pf l ≤ i) → CacheGood pf cache i →
    let r := loop ls cyc fuel i lcb cache o
    i ≤ r.next ∧ r.next ≤ i + fuel ∧ (r.ex = false → r.next = i + fuel) ∧
    (∀ l, r.lcb = some l → pf l ≤ r.next) ∧ CacheGood pf r.cache r.next ∧
    (∀ j bs, r.cache = some (j, bs) →
      (r.cache = cache ∧ r.next = i ∧ fuel = 0) ∨ ((j + 1 = r.next ∨ j = r.next) ∧ j < i + fuel)) := by
  induction fuel with
  | zero =>
    intro i lcb cache o hlcb hc
    dsimp only [loop]
    exact ⟨Nat.le_refl _, Nat.le_refl _, fun _ => rfl, hlcb, hc, fun j bs _ => Or.inl ⟨rfl, rfl, rfl⟩⟩
  | succ fuel ih =>
    intro i lcb cache o hlcb hc
    obtain ⟨hb1, hb2⟩ := bucketsFor_good pf hmono ls hls cache i hc
    have hl1 : ∀ l, (processPrefixdir cyc i lcb (bucketsFor ls cache i) o).lcb = some l → pf l ≤ i := by
      intro l hl
      rcases ppd_src cyc i (bucketsFor ls cache i) lcb o with hsame | ⟨l', hl', hsome⟩
      · exact hlcb l (hsame ▸ hl)
      · rw [hsome] at hl; cases hl; exact Nat.le_of_eq (hb1 l hl')
    simp only [loop]
    split
    · dsimp only
      refine ⟨Nat.le_refl _, by omega, by simp, hl1, ?_, ?_⟩
      · intro j bs h hj; cases h; exact ⟨hb1, hb2⟩
      · intro j bs h; cases h; exact Or.inr ⟨Or.inr rfl, by omega⟩
    · split
      · dsimp only
        refine ⟨by omega, by omega, by simp, fun l hl => Nat.le_succ_of_le (hl1 l hl), ?_, ?_⟩
        · intro j bs h hj; cases h; omega
        · intro j bs h; cases h; exact Or.inr ⟨Or.inl rfl, by omega⟩
      · have hc' : CacheGood pf (some (i, bucketsFor ls cache i)) (i + 1) := by
          intro j bs h hj; cases h; omega
        obtain ⟨h1, h2, h3, h4, h5, h6⟩ := ih (i + 1) _ (some (i, bucketsFor ls cache i))
          (tick (processPrefixdir cyc i lcb (bucketsFor ls cache i) o).o).2
          (fun l hl => Nat.le_succ_of_le (hl1 l hl)) hc'
        dsimp only at h1 h2 h3 h4 h5 h6 ⊢
        refine ⟨by omega, by omega, fun hex => by have := h3 hex; omega, h4, h5, ?_⟩
        intro j bs h
        rcases h6 j bs h with ⟨ha, hb, hc⟩ | ⟨ha, hb⟩
        · rw [ha] at h; cases h
          exact Or.inr ⟨Or.inl hb.symm, by omega⟩
        · exact Or.inr ⟨ha, by omega⟩

theorem loop_cover (T : Prop) (p b : Nat) (hpb : pf b = p) (hpres : T → b ∈ ls p) (fuel : Nat) :
    ∀ (i : Nat) (lcb : Option Nat) (cache : Option (Nat × List Nat)) (o : List Bool),
    (∀ l, lcb = some l → pf l ≤ i) → CacheGood pf cache i →
    (T → ∀ j bs, cache = some (j, bs) → j = i → j = p → b ∈ bs) →
    let r := loop ls cyc fuel i lcb cache o
    (T → ∀ j bs, r.cache = some (j, bs) → j = r.next → j = p → b ∈ bs) ∧
    (T → Behind p b r.next r.lcb → Behind p b i lcb ∨ (⟨cyc, p, b⟩ : Entry) ∈ r.log) := by
  induction fuel with
  | zero =>
    intro i lcb cache o _ _ hin
    dsimp only [loop]
    exact ⟨hin, fun _ h => Or.inl h⟩
  | succ fuel ih =>
    intro i lcb cache o hlcb hc hin
    obtain ⟨hb1, hb2⟩ := bucketsFor_good pf hmono ls hls cache i hc
    have hbin := bucketsFor_mem ls T p b hpres cache i hin
    have hl1 : ∀ l, (processPrefixdir cyc i lcb (bucketsFor ls cache i) o).lcb = some l → pf l ≤ i := by
      intro l hl
      rcases ppd_src cyc i (bucketsFor ls cache i) lcb o with hsame | ⟨l', hl', hsome⟩
      · exact hlcb l (hsame ▸ hl)
      · rw [hsome] at hl; cases hl; exact Nat.le_of_eq (hb1 l hl')
    simp only [loop]
    split
    · dsimp only
      refine ⟨?_, ?_⟩
      · intro ht j bs h hj hjp; cases h; exact hbin ht hjp
      · intro ht h
        exact (prefix_step pf hmono ls hls cyc T p b hpb i lcb o _ hb1 hb2 hbin ht).1 h
    · rename_i hex
      have hex' : (processPrefixdir cyc i lcb (bucketsFor ls cache i) o).ex = false := by
        simpa using hex
      split
      · dsimp only
        refine ⟨?_, ?_⟩
        · intro ht j bs h hj; cases h; omega
        · intro ht h
          exact (prefix_step pf hmono ls hls cyc T p b hpb i lcb o _ hb1 hb2 hbin ht).2 hex' h
      · have hc' : CacheGood pf (some (i, bucketsFor ls cache i)) (i + 1) := by
          intro j bs h hj; cases h; omega
        obtain ⟨h1, h2⟩ := ih (i + 1) _ (some (i, bucketsFor ls cache i))
          (tick (processPrefixdir cyc i lcb (bucketsFor ls cache i) o).o).2
          (fun l hl => Nat.le_succ_of_le (hl1 l hl)) hc'
          (by intro _ j bs h hj; cases h; omega)
        dsimp only at h1 h2 ⊢
        refine ⟨h1, ?_⟩
        intro ht h
        rcases h2 ht h with h3 | h3
        · rcases (prefix_step pf hmono ls hls cyc T p b hpb i lcb o _ hb1 hb2 hbin ht).2 hex' h3 with h4 | h4
          · exact Or.inl h4
          · exact Or.inr (List.mem_append_left _ h4)
        · exact Or.inr (List.mem_append_right _ h3)

end loop

/-- the calls of one loop: cycle number, strictly beyond the old `last-complete-bucket`, at most
    the new one, strictly increasing; `last-complete-bucket` never decreases -/
theorem loop_log (ls : Nat → List Nat) (cyc : Nat) (fuel : Nat) :
    ∀ (i : Nat) (lcb : Option Nat) (cache : Option (Nat × List Nat)) (o : List Bool),
    let r := loop ls cyc fuel i lcb cache o
    (∀ x, LeOpt x lcb → LeOpt x r.lcb) ∧
    (∀ e ∈ r.log, e.cycle = cyc ∧ ¬ LeOpt e.bucket lcb ∧ LeOpt e.bucket r.lcb) ∧
    r.log.Pairwise (fun a b => a.bucket < b.bucket) := by
  induction fuel with
  | zero => intro i lcb cache o; simp [loop]
  | succ fuel ih =>
    intro i lcb cache o
    have hm := ppd_mono cyc i (bucketsFor ls cache i) lcb o
    have he := ppd_entries cyc i (bucketsFor ls cache i) lcb o
    have hp := ppd_incr cyc i (bucketsFor ls cache i) lcb o
    simp only [loop]
    split
    · exact ⟨hm, fun e h => ⟨(he e h).1, (he e h).2.2.2.1, (he e h).2.2.2.2⟩, hp⟩
    · split
      · exact ⟨hm, fun e h => ⟨(he e h).1, (he e h).2.2.2.1, (he e h).2.2.2.2⟩, hp⟩
      · obtain ⟨h1, h2, h3⟩ := ih (i + 1) (processPrefixdir cyc i lcb (bucketsFor ls cache i) o).lcb
          (some (i, bucketsFor ls cache i)) (tick (processPrefixdir cyc i lcb (bucketsFor ls cache i) o).o).2
        refine ⟨fun x hx => h1 x (hm x hx), ?_, ?_⟩
        · intro e h
          rcases List.mem_append.1 h with h | h
          · exact ⟨(he e h).1, (he e h).2.2.2.1, h1 _ (he e h).2.2.2.2⟩
          · exact ⟨(h2 e h).1, fun hh => (h2 e h).2.1 (hm _ hh), (h2 e h).2.2⟩
        · rw [List.pairwise_append]
          refine ⟨hp, h3, ?_⟩
          intro a ha c hc
          obtain ⟨l, hl, hal⟩ := (he a ha).2.2.2.2
          have hnc := (h2 c hc).2.1
          have : ¬ c.bucket ≤ l := fun hcl => hnc ⟨l, hl, hcl⟩
          show a.bucket < c.bucket
          omega

/-! ### slices, events, schedules -/

/-- cycle bookkeeping of a state at a slice boundary -/
structure WfC (s : St) : Prop where
  cur_eq : ∀ x, s.p.cur = some x → x = nextCycle s.p.lcf
  idle : s.p.cur = none → s.p.next = 0 ∧ s.p.lcb = none

/-- position / cache bookkeeping -/
structure WfP (pf : Nat → Nat) (np : Nat) (s : St) : Prop where
  next_le : s.p.next ≤ np
  lcb_ok : ∀ l, s.p.lcb = some l → pf l ≤ s.p.next
  cache_good : CacheGood pf s.cache s.p.next
  cache_shape : ∀ j bs, s.cache = some (j, bs) →
    j < np ∧ (s.p.cur = none → j + 1 = np) ∧ (s.p.cur.isSome → j = s.p.next ∨ j + 1 = s.p.next)

theorem wfC_init : WfC init := ⟨by simp [init], by simp [init]⟩

theorem wfP_init (pf : Nat → Nat) (np : Nat) : WfP pf np init :=
  ⟨(by simp [init]), (by simp [init]), (by intro j bs h; simp [init] at h), (by intro j bs h; simp [init] at h)⟩

theorem cycleOf_eq (s : St) (h : WfC s) : cycleOf s.p = nextCycle s.p.lcf := by
  unfold cycleOf
  cases hc : s.p.cur with
  | none => rfl
  | some x => exact h.cur_eq x hc

theorem slice_wfC (np : Nat) (ls : Nat → List Nat) (s : St) (o : List Bool) (h : WfC s) :
    WfC (slice np ls s o).1 := by
  have hc := cycleOf_eq s h
  unfold slice
  dsimp only
  split
  · exact ⟨(by intro x hx; cases hx; exact hc), (by intro hx; cases hx)⟩
  · exact ⟨(by intro x hx; cases hx), fun _ => ⟨rfl, rfl⟩⟩

theorem step_wfC (np : Nat) (s : St) (ev : Event) (h : WfC s) : WfC (step np s ev).1 := by
  cases ev with
  | slice ls o => exact slice_wfC np ls s o h
  | killed ls o k => exact ⟨h.cur_eq, h.idle⟩
  | restart => exact ⟨h.cur_eq, h.idle⟩

/-- how the cycle bookkeeping moves in one event -/
theorem step_cycle (np : Nat) (s : St) (ev : Event) (h : WfC s) :
    ((step np s ev).1.p.lcf = s.p.lcf ∨
      ((step np s ev).1.p.lcf = some (nextCycle s.p.lcf) ∧ (step np s ev).1.p.cur = none)) ∧
    ∀ e ∈ (step np s ev).2, e.cycle = nextCycle s.p.lcf := by
  have hc := cycleOf_eq s h
  cases ev with
  | slice ls o =>
    have hl := (loop_log ls (cycleOf s.p) (np - s.p.next) s.p.next s.p.lcb s.cache o).2.1
    simp only [step, slice]
    split
    · exact ⟨Or.inl rfl, fun e he => hc ▸ (hl e he).1⟩
    · exact ⟨Or.inr ⟨by rw [hc], rfl⟩, fun e he => hc ▸ (hl e he).1⟩
  | killed ls o k =>
    have hl := (loop_log ls (cycleOf s.p) (np - s.p.next) s.p.next s.p.lcb s.cache o).2.1
    refine ⟨Or.inl rfl, ?_⟩
    intro e he
    have he' : e ∈ (slice np ls s o).2 := List.mem_of_mem_take he
    simp only [slice] at he'
    split at he' <;> exact hc ▸ (hl e he').1
  | restart => exact ⟨Or.inl rfl, (by intro e he; cases he)⟩

theorem run_wfC (np : Nat) (evs : List Event) : ∀ s, WfC s → WfC (run np s evs).1 := by
  induction evs with
  | nil => intro s h; exact h
  | cons ev evs ih => intro s h; exact ih _ (step_wfC np s ev h)

section sched
variable (pf : Nat → Nat) (hmono : ∀ a b, a ≤ b → pf a ≤ pf b) (np : Nat) (hnp : 2 ≤ np)
include hmono hnp

theorem slice_wfP (ls : Nat → List Nat) (hls : ∀ i x, x ∈ ls i → pf x = i) (s : St) (o : List Bool)
    (hC : WfC s) (hP : WfP pf np s) : WfP pf np (slice np ls s o).1 := by
  obtain ⟨h1, h2, h3, h4, h5, h6⟩ := loop_wf pf hmono ls hls (cycleOf s.p) (np - s.p.next) s.p.next s.p.lcb
    s.cache o hP.lcb_ok hP.cache_good
  have hnl := hP.next_le
  unfold slice
  dsimp only
  split
  · refine ⟨by dsimp only; omega, h4, h5, ?_⟩
    intro j bs hj
    dsimp only at hj ⊢
    rcases h6 j bs hj with ⟨ha, hb, hc⟩ | ⟨ha, hb⟩
    · rw [ha] at hj
      obtain ⟨q1, q2, q3⟩ := hP.cache_shape j bs hj
      refine ⟨q1, (by intro hx; cases hx), fun _ => ?_⟩
      cases hcur : s.p.cur with
      | none => have := (hC.idle hcur).1; omega
      | some x => rw [hb]; exact q3 (by simp [hcur])
    · exact ⟨(by omega), (by intro hx; cases hx), fun _ => (by omega)⟩
  · rename_i hex
    have hnext := h3 (by simpa using hex)
    have hidx : ∀ j bs, (loop ls (cycleOf s.p) (np - s.p.next) s.p.next s.p.lcb s.cache o).cache = some (j, bs) →
        j + 1 = np := by
      intro j bs hj
      rcases h6 j bs hj with ⟨ha, hb, hc⟩ | ⟨ha, hb⟩
      · rw [ha] at hj
        obtain ⟨q1, q2, q3⟩ := hP.cache_shape j bs hj
        cases hcur : s.p.cur with
        | none => exact q2 hcur
        | some x => have := q3 (by simp [hcur]); omega
      · omega
    refine ⟨Nat.zero_le _, (by intro l hl; cases hl), ?_, ?_⟩
    · intro j bs hj hj0
      dsimp only at hj hj0
      have := hidx j bs hj; omega
    · intro j bs hj
      dsimp only at hj ⊢
      have := hidx j bs hj
      exact ⟨(by omega), fun _ => this, (by intro hx; cases hx)⟩

theorem step_wfP (s : St) (ev : Event) (hls : ∀ ls, ev.listing = some ls → ∀ i x, x ∈ ls i → pf x = i)
    (hC : WfC s) (hP : WfP pf np s) : WfP pf np (step np s ev).1 := by
  cases ev with
  | slice ls o => exact slice_wfP pf hmono np hnp ls (hls ls rfl) s o hC hP
  | killed ls o k =>
    exact ⟨hP.next_le, hP.lcb_ok, (by intro j bs h; cases h), (by intro j bs h; cases h)⟩
  | restart =>
    exact ⟨hP.next_le, hP.lcb_ok, (by intro j bs h; cases h), (by intro j bs h; cases h)⟩

/-- coverage invariant for the target bucket `(p, b)` and cycle `c` -/
structure Cov (c p b : Nat) (s : St) (log : List Entry) : Prop where
  behind : nextCycle s.p.lcf = c → s.p.cur.isSome → Behind p b s.p.next s.p.lcb → (⟨c, p, b⟩ : Entry) ∈ log
  cache_in : nextCycle s.p.lcf = c → ∀ j bs, s.cache = some (j, bs) → j = s.p.next → j = p → b ∈ bs
  done : c < nextCycle s.p.lcf → (⟨c, p, b⟩ : Entry) ∈ log

omit hmono hnp in
theorem cov_init (c p b : Nat) : Cov c p b init [] :=
  ⟨by simp [init], by simp [init], by simp [init, nextCycle]⟩

omit hmono hnp in
theorem not_behind_idle (p b : Nat) (s : St) (hC : WfC s) (hcur : s.p.cur = none) :
    ¬ Behind p b s.p.next s.p.lcb := by
  obtain ⟨h1, h2⟩ := hC.idle hcur
  rw [h1, h2]
  rintro (h | h)
  · omega
  · exact not_leOpt_none _ h

theorem slice_cov (c p b : Nat) (hpb : pf b = p) (hp : p < np)
    (ls : Nat → List Nat) (hls : ∀ i x, x ∈ ls i → pf x = i) (s : St) (o : List Bool) (log : List Entry)
    (hC : WfC s) (hP : WfP pf np s) (hcov : Cov c p b s log)
    (hpres : nextCycle s.p.lcf = c → b ∈ ls p) :
    Cov c p b (slice np ls s o).1 (log ++ (slice np ls s o).2) := by
  have hwf' := slice_wfP pf hmono np hnp ls hls s o hC hP
  have hcyc := cycleOf_eq s hC
  obtain ⟨_, _, h3, _, _, _⟩ := loop_wf pf hmono ls hls (cycleOf s.p) (np - s.p.next) s.p.next s.p.lcb
    s.cache o hP.lcb_ok hP.cache_good
  obtain ⟨k1, k2⟩ := loop_cover pf hmono ls hls (cycleOf s.p) (nextCycle s.p.lcf = c) p b hpb hpres
    (np - s.p.next) s.p.next s.p.lcb s.cache o hP.lcb_ok hP.cache_good hcov.cache_in
  have hnl := hP.next_le
  -- whatever is behind the start position of this slice is already in the log
  have hstart : nextCycle s.p.lcf = c → Behind p b s.p.next s.p.lcb → (⟨c, p, b⟩ : Entry) ∈ log := by
    intro ht hb
    cases hcur : s.p.cur with
    | none => exact absurd hb (not_behind_idle p b s hC hcur)
    | some x => exact hcov.behind ht (by simp [hcur]) hb
  have hadv : nextCycle s.p.lcf = c →
      Behind p b (loop ls (cycleOf s.p) (np - s.p.next) s.p.next s.p.lcb s.cache o).next
        (loop ls (cycleOf s.p) (np - s.p.next) s.p.next s.p.lcb s.cache o).lcb →
      (⟨c, p, b⟩ : Entry) ∈ log ++ (loop ls (cycleOf s.p) (np - s.p.next) s.p.next s.p.lcb s.cache o).log := by
    intro ht hb
    rcases k2 ht hb with h | h
    · exact List.mem_append_left _ (hstart ht h)
    · have heq : (⟨cycleOf s.p, p, b⟩ : Entry) = ⟨c, p, b⟩ := by rw [hcyc, ht]
      rw [heq] at h; exact List.mem_append_right _ h
  unfold slice at hwf' ⊢
  dsimp only at hwf' ⊢
  split
  · rename_i hex
    simp only [hex, if_true] at hwf'
    refine ⟨?_, ?_, ?_⟩
    · intro ht _ hb; exact hadv ht hb
    · intro ht; exact k1 ht
    · intro hlt; exact List.mem_append_left _ (hcov.done hlt)
  · rename_i hex
    simp only [hex] at hwf'
    have hnext := h3 (by simpa using hex)
    refine ⟨?_, ?_, ?_⟩
    · intro _ hsome; simp at hsome
    · intro _ j bs hj hj0 _
      dsimp only at hj hj0
      have := (hwf'.cache_shape j bs hj).2.1 rfl
      omega
    · intro hlt
      dsimp only [nextCycle] at hlt
      rw [hcyc] at hlt
      by_cases hc : c < nextCycle s.p.lcf
      · exact List.mem_append_left _ (hcov.done hc)
      · have ht : nextCycle s.p.lcf = c := by omega
        apply hadv ht
        left; omega

theorem step_cov (c p b : Nat) (hpb : pf b = p) (hp : p < np) (s : St) (ev : Event) (log : List Entry)
    (hls : ∀ ls, ev.listing = some ls → ∀ i x, x ∈ ls i → pf x = i)
    (hC : WfC s) (hP : WfP pf np s) (hcov : Cov c p b s log)
    (hpres : nextCycle s.p.lcf = c → ∀ ls, ev.listing = some ls → b ∈ ls p) :
    Cov c p b (step np s ev).1 (log ++ (step np s ev).2) := by
  cases ev with
  | slice ls o =>
    exact slice_cov pf hmono np hnp c p b hpb hp ls (hls ls rfl) s o log hC hP hcov (fun h => hpres h ls rfl)
  | killed ls o k =>
    exact ⟨fun h1 h2 h3 => List.mem_append_left _ (hcov.behind h1 h2 h3), (by intro _ j bs h; cases h),
      fun h => List.mem_append_left _ (hcov.done h)⟩
  | restart =>
    exact ⟨fun h1 h2 h3 => List.mem_append_left _ (hcov.behind h1 h2 h3), (by intro _ j bs h; cases h),
      fun h => List.mem_append_left _ (hcov.done h)⟩

theorem run_cov (c p b : Nat) (hpb : pf b = p) (hp : p < np) (evs : List Event) :
    ∀ (s : St) (log : List Entry), ListingsFollowPrefixes pf evs → WfC s → WfP pf np s → Cov c p b s log →
      PresentThroughout np c p b s evs → Cov c p b (run np s evs).1 (log ++ (run np s evs).2) := by
  induction evs with
  | nil => intro s log _ _ _ hcov _; simpa [run] using hcov
  | cons ev evs ih =>
    intro s log hl hC hP hcov hpres
    have hl1 : ∀ ls, ev.listing = some ls → ∀ i x, x ∈ ls i → pf x = i := hl ev List.mem_cons_self
    have hl2 : ListingsFollowPrefixes pf evs := fun e he => hl e (List.mem_cons_of_mem _ he)
    obtain ⟨hp1, hp2⟩ := hpres
    have := ih (step np s ev).1 (log ++ (step np s ev).2) hl2 (step_wfC np s ev hC)
      (step_wfP pf hmono np hnp s ev hl1 hC hP)
      (step_cov pf hmono np hnp c p b hpb hp s ev log hl1 hC hP hcov hp1) hp2
    simpa [run, List.append_assoc] using this

end sched

/-! ### at most once without mid-slice kills -/

structure Uniq (c : Nat) (s : St) (log : List Entry) : Prop where
  bound : ∀ e ∈ log, e.cycle = c →
    c < nextCycle s.p.lcf ∨ (nextCycle s.p.lcf = c ∧ s.p.cur.isSome ∧ LeOpt e.bucket s.p.lcb)
  incr : log.Pairwise (fun a b => a.cycle = c → b.cycle = c → a.bucket < b.bucket)

theorem uniq_init (c : Nat) : Uniq c init [] := ⟨(by intro e he; cases he), List.Pairwise.nil⟩

theorem slice_uniq (np : Nat) (c : Nat) (ls : Nat → List Nat) (s : St) (o : List Bool) (log : List Entry)
    (hC : WfC s) (hu : Uniq c s log) : Uniq c (slice np ls s o).1 (log ++ (slice np ls s o).2) := by
  have hcyc := cycleOf_eq s hC
  obtain ⟨m1, m2, m3⟩ := loop_log ls (cycleOf s.p) (np - s.p.next) s.p.next s.p.lcb s.cache o
  have hincr : (log ++ (loop ls (cycleOf s.p) (np - s.p.next) s.p.next s.p.lcb s.cache o).log).Pairwise
      (fun a b => a.cycle = c → b.cycle = c → a.bucket < b.bucket) := by
    rw [List.pairwise_append]
    refine ⟨hu.incr, m3.imp (fun h _ _ => h), ?_⟩
    intro a ha e he hac hec
    obtain ⟨e1, e2, _⟩ := m2 e he
    rcases hu.bound a ha hac with h | ⟨_, _, l, hl, hal⟩
    · rw [hcyc] at e1; omega
    · have : ¬ e.bucket ≤ l := fun hh => e2 ⟨l, hl, hh⟩
      omega
  unfold slice
  dsimp only
  split
  · refine ⟨?_, hincr⟩
    intro e he hec
    rcases List.mem_append.1 he with he | he
    · rcases hu.bound e he hec with h | ⟨h1, _, h3⟩
      · exact Or.inl h
      · exact Or.inr ⟨h1, rfl, m1 _ h3⟩
    · obtain ⟨e1, _, e3⟩ := m2 e he
      exact Or.inr ⟨by rw [← hcyc, ← e1, hec], rfl, e3⟩
  · refine ⟨?_, hincr⟩
    intro e he hec
    left
    dsimp only [nextCycle]
    rw [hcyc]
    rcases List.mem_append.1 he with he | he
    · rcases hu.bound e he hec with h | ⟨h1, _, _⟩ <;> omega
    · obtain ⟨e1, _, _⟩ := m2 e he
      rw [hcyc] at e1; omega

theorem run_uniq (np : Nat) (c : Nat) (evs : List Event) :
    ∀ (s : St) (log : List Entry), (∀ ev ∈ evs, ev.isKill = false) → WfC s → Uniq c s log →
      Uniq c (run np s evs).1 (log ++ (run np s evs).2) := by
  induction evs with
  | nil => intro s log _ _ hu; simpa [run] using hu
  | cons ev evs ih =>
    intro s log hk hC hu
    have hk2 : ∀ e ∈ evs, e.isKill = false := fun e he => hk e (List.mem_cons_of_mem _ he)
    have hstep : Uniq c (step np s ev).1 (log ++ (step np s ev).2) := by
      cases ev with
      | slice ls o => exact slice_uniq np c ls s o log hC hu
      | killed ls o k => have := hk _ List.mem_cons_self; simp [Event.isKill] at this
      | restart => simpa [step] using (⟨hu.bound, hu.incr⟩ : Uniq c { s with cache := none } log)
    have := ih (step np s ev).1 (log ++ (step np s ev).2) hk2 (step_wfC np s ev hC) hstep
    simpa [run, List.append_assoc] using this

theorem count_le_one_of_pairwise (log : List Entry) (e : Entry) (c : Nat) (hc : e.cycle = c)
    (h : log.Pairwise (fun a b => a.cycle = c → b.cycle = c → a.bucket < b.bucket)) :
    log.count e ≤ 1 := by
  induction log with
  | nil => simp
  | cons x xs ih =>
    simp only [List.pairwise_cons] at h
    by_cases hx : x = e
    · subst hx
      have : xs.count x = 0 := by
        rw [List.count_eq_zero]
        intro hmem
        have := h.1 x hmem hc hc
        omega
      simp [this]
    · rw [List.count_cons_of_ne hx]
      exact ih h.2

/-! ### the state file -/

theorem load_save (p : Persist) : (loadState (saveState p)).p = p := by
  cases p with
  | mk cur lcf next lcb =>
    cases next with
    | zero => simp [loadState, saveState]
    | succ n => simp [loadState, saveState]

/-- the file on disk is a faithful image of the in-memory progress -/
def Sync (P : Proc) : Prop := loadFile P.file = { P.mem with cache := none }

theorem sync_init : Sync procInit := by simp [Sync, procInit, loadFile, init]

theorem sync_saved (s : St) : Sync { mem := s, file := some (saveState s.p) } := by
  have h := load_save s.p
  show loadState (saveState s.p) = { s with cache := none }
  cases hs : loadState (saveState s.p) with
  | mk p cache =>
    have hc : cache = none := by
      have : (loadState (saveState s.p)).cache = none := rfl
      rw [hs] at this; exact this
    rw [hs] at h
    simp only at h
    subst hc; subst h; rfl

theorem sync_loaded (f : Option FileState) : Sync { mem := loadFile f, file := f } := by
  show loadFile f = { loadFile f with cache := none }
  cases f with
  | none => rfl
  | some f => rfl

theorem stepProc_sync (np : Nat) (P : Proc) (ev : PEvent) : Sync (stepProc np P ev).1 := by
  cases ev with
  | slice ls o => exact sync_saved _
  | killed ls o k => exact sync_loaded _
  | restart => exact sync_loaded _
  | stop => exact sync_loaded _

theorem runProc_sync (np : Nat) (evs : List PEvent) : ∀ P, Sync P → Sync (runProc np P evs).1 := by
  induction evs with
  | nil => intro P h; exact h
  | cons ev evs ih => intro P _; exact ih _ (stepProc_sync np P ev)

/-- one event: the process machine does what the slice machine does -/
theorem stepProc_eq_step (np : Nat) (P : Proc) (ev : PEvent) (h : Sync P) :
    (stepProc np P ev).1.mem = (step np P.mem ev.toEvent).1 ∧ (stepProc np P ev).2 = (step np P.mem ev.toEvent).2 := by
  cases ev with
  | slice ls o => exact ⟨rfl, rfl⟩
  | killed ls o k => exact ⟨h, rfl⟩
  | restart => exact ⟨h, rfl⟩
  | stop =>
    refine ⟨?_, rfl⟩
    exact sync_saved P.mem

theorem runProc_eq_run (np : Nat) (evs : List PEvent) : ∀ P, Sync P →
    (runProc np P evs).1.mem = (run np P.mem (evs.map PEvent.toEvent)).1 ∧
    (runProc np P evs).2 = (run np P.mem (evs.map PEvent.toEvent)).2 := by
  induction evs with
  | nil => intro P _; exact ⟨rfl, rfl⟩
  | cons ev evs ih =>
    intro P h
    obtain ⟨h1, h2⟩ := stepProc_eq_step np P ev h
    obtain ⟨i1, i2⟩ := ih (stepProc np P ev).1 (stepProc_sync np P ev)
    simp only [runProc, run, List.map_cons]
    rw [h1] at i1 i2
    exact ⟨i1, by rw [h2, i2]⟩

/-! ### kills inside the state write -/

theorem wfC_of_p_eq {s t : St} (h : s.p = t.p) (ht : WfC t) : WfC s :=
  ⟨by rw [h]; exact ht.cur_eq, by rw [h]; exact ht.idle⟩

theorem sync_p {P : Proc} (h : Sync P) : (loadFile P.file).p = P.mem.p := by
  rw [h]

theorem stepProc_wfC (np : Nat) (P : Proc) (ev : PEvent) (h : Sync P) (hw : WfC P.mem) :
    WfC (stepProc np P ev).1.mem := by
  rw [(stepProc_eq_step np P ev h).1]
  exact step_wfC np P.mem ev.toEvent hw

/-- with the atomic write, a kill inside `save` leaves the old or the new file - never garbage -/
theorem fileAfterSaveKill_atomic (old : Option FileState) (new : FileState) (pt : SavePoint) :
    fileAfterSaveKill true old new pt = old ∨ fileAfterSaveKill true old new pt = some new := by
  cases pt <;> simp [fileAfterSaveKill]

theorem stepProcA_sync (atomic : Bool) (np : Nat) (P : Proc) (ev : PEventA) : Sync (stepProcA atomic np P ev).1 := by
  cases ev with
  | ev e => exact stepProc_sync np P e
  | saveKill ls o pt => exact sync_loaded _
  | stopKill pt => exact sync_loaded _

theorem loadFile_saved_p (p : Persist) : (loadFile (some (saveState p))).p = p := load_save p

/-- one event of the ATOMIC process machine, kills inside the state write included: cycle
    bookkeeping stays well-formed and moves by at most one completed cycle -/
theorem stepProcA_cycle (np : Nat) (P : Proc) (ev : PEventA) (h : Sync P) (hw : WfC P.mem) :
    WfC (stepProcA true np P ev).1.mem ∧
    ((stepProcA true np P ev).1.mem.p.lcf = P.mem.p.lcf ∨
      ((stepProcA true np P ev).1.mem.p.lcf = some (nextCycle P.mem.p.lcf) ∧ (stepProcA true np P ev).1.mem.p.cur = none)) ∧
    ∀ e ∈ (stepProcA true np P ev).2, e.cycle = nextCycle P.mem.p.lcf := by
  cases ev with
  | ev e =>
    obtain ⟨h1, h2⟩ := stepProc_eq_step np P e h
    have hc := step_cycle np P.mem e.toEvent hw
    refine ⟨stepProc_wfC np P e h hw, ?_, ?_⟩
    · have hm : (stepProcA true np P (.ev e)).1.mem = (step np P.mem e.toEvent).1 := h1
      rw [hm]; exact hc.1
    · show ∀ x ∈ (stepProc np P e).2, _
      rw [h2]; exact hc.2
  | saveKill ls o pt =>
    have hc := step_cycle np P.mem (.slice ls o) hw
    have hwS := slice_wfC np ls P.mem o hw
    simp only [step] at hc
    refine ⟨?_, ?_, hc.2⟩
    · rcases fileAfterSaveKill_atomic P.file (saveState (slice np ls P.mem o).1.p) pt with hf | hf
      · exact wfC_of_p_eq (s := (stepProcA true np P (.saveKill ls o pt)).1.mem) (t := P.mem)
          (by show (loadFile (fileAfterSaveKill true P.file _ pt)).p = _; rw [hf]; exact sync_p h) hw
      · exact wfC_of_p_eq (s := (stepProcA true np P (.saveKill ls o pt)).1.mem) (t := (slice np ls P.mem o).1)
          (by show (loadFile (fileAfterSaveKill true P.file _ pt)).p = _; rw [hf]; exact loadFile_saved_p _) hwS
    · rcases fileAfterSaveKill_atomic P.file (saveState (slice np ls P.mem o).1.p) pt with hf | hf
      · left
        show (loadFile (fileAfterSaveKill true P.file _ pt)).p.lcf = _
        rw [hf, sync_p h]
      · have hp : (stepProcA true np P (.saveKill ls o pt)).1.mem.p = (slice np ls P.mem o).1.p := by
          show (loadFile (fileAfterSaveKill true P.file _ pt)).p = _
          rw [hf]; exact loadFile_saved_p _
        rw [hp]; exact hc.1
  | stopKill pt =>
    refine ⟨?_, ?_, by intro e he; cases he⟩
    · rcases fileAfterSaveKill_atomic P.file (saveState P.mem.p) pt with hf | hf
      · exact wfC_of_p_eq (s := (stepProcA true np P (.stopKill pt)).1.mem) (t := P.mem)
          (by show (loadFile (fileAfterSaveKill true P.file _ pt)).p = _; rw [hf]; exact sync_p h) hw
      · exact wfC_of_p_eq (s := (stepProcA true np P (.stopKill pt)).1.mem) (t := P.mem)
          (by show (loadFile (fileAfterSaveKill true P.file _ pt)).p = _; rw [hf]; exact loadFile_saved_p _) hw
    · left
      rcases fileAfterSaveKill_atomic P.file (saveState P.mem.p) pt with hf | hf
      · show (loadFile (fileAfterSaveKill true P.file _ pt)).p.lcf = _
        rw [hf, sync_p h]
      · show (loadFile (fileAfterSaveKill true P.file _ pt)).p.lcf = _
        rw [hf, loadFile_saved_p]

theorem runProcA_inv (np : Nat) (evs : List PEventA) : ∀ P, Sync P → WfC P.mem →
    Sync (runProcA true np P evs).1 ∧ WfC (runProcA true np P evs).1.mem := by
  induction evs with
  | nil => intro P h hw; exact ⟨h, hw⟩
  | cons ev evs ih =>
    intro P h hw
    exact ih _ (stepProcA_sync true np P ev) (stepProcA_cycle np P ev h hw).1

/-- with the atomic write a kill inside the final `save_state` of a slice is, for the crawl, either a
    slice killed just before its save (old file) or a complete slice followed by a restart (new file) -/
theorem saveKill_is_kill_or_restart (np : Nat) (P : Proc) (ls : Nat → List Nat) (o : List Bool) (pt : SavePoint)
    (h : Sync P) :
    let r := stepProcA true np P (.saveKill ls o pt)
    (r.1.mem = (step np P.mem (.killed ls o (slice np ls P.mem o).2.length)).1 ∧
      r.2 = (step np P.mem (.killed ls o (slice np ls P.mem o).2.length)).2) ∨
    (r.1.mem = (step np (slice np ls P.mem o).1 .restart).1 ∧ r.2 = (slice np ls P.mem o).2) := by
  rcases fileAfterSaveKill_atomic P.file (saveState (slice np ls P.mem o).1.p) pt with hf | hf
  · left
    refine ⟨?_, by simp [stepProcA, step]⟩
    show loadFile (fileAfterSaveKill true P.file _ pt) = _
    rw [hf]; exact h
  · right
    refine ⟨?_, rfl⟩
    show loadFile (fileAfterSaveKill true P.file _ pt) = _
    rw [hf]; exact sync_saved (slice np ls P.mem o).1

theorem runProcA_sync (atomic : Bool) (np : Nat) (evs : List PEventA) :
    ∀ P, Sync P → Sync (runProcA atomic np P evs).1 := by
  induction evs with
  | nil => intro P h; exact h
  | cons ev evs ih => intro P _; exact ih _ (stepProcA_sync atomic np P ev)

/-! ### a concrete instance used by the `example`s of Props/C27 -/

def exLs : Nat → List Nat := fun i => if i = 1 then [5, 3] else if i = 2 then [9] else []
def exPf : Nat → Nat := fun b => if b < 3 then 0 else if b < 9 then 1 else 2
def exEvs : List Event := [.slice exLs [false, true], .killed exLs [] 1, .slice exLs [], .slice exLs []]
def exNoKill : List Event := [.slice exLs [false, true], .restart, .slice exLs [false, false, true], .slice exLs []]


theorem ex_mono : ∀ a b, a ≤ b → exPf a ≤ exPf b := by
  intro a b h; unfold exPf; split <;> split <;> (try split) <;> (try split) <;> omega

theorem ex_follow (evs : List Event) (h : ∀ ev ∈ evs, ∀ ls, ev.listing = some ls → ls = exLs) :
    ListingsFollowPrefixes exPf evs := by
  intro ev hev ls hl i x hx
  rw [h ev hev ls hl] at hx
  unfold exLs at hx
  unfold exPf
  split at hx
  · simp at hx; rcases hx with rfl | rfl <;> simp_all
  · split at hx
    · simp at hx; subst hx; simp_all
    · cases hx


end Tahoe.Storage.Crawler
