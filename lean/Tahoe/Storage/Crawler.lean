import Tahoe.Generated.Gc
/-!
# Model of the share crawler (storage/crawler.py `ShareCrawler`)

State machine over *slices* (`start_slice` = `start_current_prefix` + `save_state`).

Transcribed:
* `start_current_prefix`: a new cycle gets the number 0 / `last-cycle-finished + 1`; the loop over
  `range(last_complete_prefix_index+1, len(prefixes))`; the `bucket_cache` test
  `i == self.bucket_cache[0]`, otherwise `os.listdir` + `sort` and the cache is replaced;
  `last_complete_prefix_index = i` after `process_prefixdir`; the time check after each prefix;
  at the end of the loop: index := -1, `last-complete-bucket` := None, `last-cycle-finished` := cycle,
  `current-cycle` := None, `save_state`.
* `process_prefixdir`: skip `bucket <= last-complete-bucket` (when it is not None),
  `process_bucket`, `last-complete-bucket = bucket`, the time check after each processed bucket
  (a skipped bucket is followed by no check).  NOTE `last-complete-bucket` is *not* reset when a
  prefix is finished - only at the end of the cycle - the code relies on bucket names of later
  prefixes comparing greater.
* `time.time() >= start_slice + cpu_slice` is an oracle: one boolean per check, consumed from a
  list (`tick`; an exhausted list answers `False`, "no more interruptions in this slice").
* `save_state` happens only at the end of a slice (and at the end of a cycle, immediately followed
  by the slice-end save with the same content, and in `stopService`).  Hence at slice boundaries
  the state file equals the in-memory state, and a process kill in the middle of a slice reverts to
  the state at the beginning of that slice with an empty `bucket_cache` (`Event.killed`: the
  `process_bucket` calls completed before the kill stay in the log).  A restart between slices
  (`Event.restart`) only loses the cache.  A missing/unreadable state file is `init` (the `except`
  branch of `load_state`).

Deviations (representation only):
* bucket names are `Nat` under an order-preserving encoding of the base32 strings (the harness
  sends the rank of each name); prefixes are their indices in the sorted `self.prefixes`;
* `last_complete_prefix_index` is stored as `next = index + 1` (`0` = `-1`/None);
* `os.listdir(prefixdir)` is a parameter `ls : prefix index → names` of each slice (the crawler
  runs synchronously, nothing else changes the directories during a slice); `EnvironmentError`
  ⇒ `[]` is the same as an empty listing; `sort` is an insertion sort;
* timing statistics, `current-cycle-start-time`, subclass hooks and subclass state are not modelled.
-/
namespace Tahoe.Storage.Crawler

/-- The persisted keys the base class uses. -/
structure Persist where
  cur : Option Nat      -- "current-cycle"
  lcf : Option Nat      -- "last-cycle-finished"
  next : Nat            -- last_complete_prefix_index + 1 ("last-complete-prefix" as an index)
  lcb : Option Nat      -- "last-complete-bucket"
  deriving DecidableEq, Repr

/-- In-memory crawler at a slice boundary (the state file holds `p`). -/
structure St where
  p : Persist
  cache : Option (Nat × List Nat)   -- bucket_cache; `none` = `(None, [])`
  deriving DecidableEq, Repr

/-- One completed `process_bucket(cycle, prefix, prefixdir, bucket)` call. -/
structure Entry where
  cycle : Nat
  pfx : Nat
  bucket : Nat
  deriving DecidableEq, Repr

/-- state of a crawler without (readable) state file -/
def init : St := { p := { cur := none, lcf := none, next := 0, lcb := none }, cache := none }

/-- the number a cycle started now would get -/
def nextCycle : Option Nat → Nat
  | none => 0
  | some c => c + 1

/-- one time-slice check -/
def tick : List Bool → Bool × List Bool
  | [] => (false, [])
  | b :: o => (b, o)

/-- `bucket <= last_complete` with `last_complete is not None` -/
def skip (lcb : Option Nat) (b : Nat) : Bool :=
  match lcb with
  | some l => decide (b ≤ l)
  | none => false

structure PR where
  lcb : Option Nat
  log : List Entry
  o : List Bool
  ex : Bool            -- TimeSliceExceeded was raised
  deriving Repr

/-- `process_prefixdir` -/
def processPrefixdir (cyc i : Nat) : Option Nat → List Nat → List Bool → PR
  | lcb, [], o => { lcb := lcb, log := [], o := o, ex := false }
  | lcb, b :: rest, o =>
    if skip lcb b then processPrefixdir cyc i lcb rest o
    else
      if (tick o).1 then { lcb := some b, log := [⟨cyc, i, b⟩], o := (tick o).2, ex := true }
      else
        let r := processPrefixdir cyc i (some b) rest (tick o).2
        { r with log := ⟨cyc, i, b⟩ :: r.log }

/-- ordered insertion -/
def insertName (a : Nat) : List Nat → List Nat
  | [] => [a]
  | b :: r => if a ≤ b then a :: b :: r else b :: insertName a r

/-- `buckets = os.listdir(prefixdir); buckets.sort()` (modelled as insertion sort) -/
def sortNames (l : List Nat) : List Nat := l.foldr insertName []

structure LR where
  next : Nat
  lcb : Option Nat
  cache : Option (Nat × List Nat)
  log : List Entry
  o : List Bool
  ex : Bool
  deriving Repr

/-- the buckets `start_current_prefix` uses for prefix `i` -/
def bucketsFor (ls : Nat → List Nat) (cache : Option (Nat × List Nat)) (i : Nat) : List Nat :=
  match cache with
  | some (j, bs) => if i = j then bs else sortNames (ls i)
  | none => sortNames (ls i)

/-- the `for i in range(...)` loop of `start_current_prefix`; `fuel = len(prefixes) - i` -/
def loop (ls : Nat → List Nat) (cyc : Nat) : Nat → Nat → Option Nat → Option (Nat × List Nat) → List Bool → LR
  | 0, i, lcb, cache, o => { next := i, lcb := lcb, cache := cache, log := [], o := o, ex := false }
  | fuel + 1, i, lcb, cache, o =>
    let buckets := bucketsFor ls cache i
    let r := processPrefixdir cyc i lcb buckets o
    if r.ex then { next := i, lcb := r.lcb, cache := some (i, buckets), log := r.log, o := r.o, ex := true }
    else if (tick r.o).1 then
      { next := i + 1, lcb := r.lcb, cache := some (i, buckets), log := r.log, o := (tick r.o).2, ex := true }
    else
      let r2 := loop ls cyc fuel (i + 1) r.lcb (some (i, buckets)) (tick r.o).2
      { r2 with log := r.log ++ r2.log }

/-- the cycle number a slice started in state `p` works on -/
def cycleOf (p : Persist) : Nat :=
  match p.cur with
  | some c => c
  | none => nextCycle p.lcf

/-- `start_slice` (without the reactor): `start_current_prefix` then `save_state` -/
def slice (np : Nat) (ls : Nat → List Nat) (s : St) (o : List Bool) : St × List Entry :=
  let cyc := cycleOf s.p
  let r := loop ls cyc (np - s.p.next) s.p.next s.p.lcb s.cache o
  if r.ex then
    ({ p := { cur := some cyc, lcf := s.p.lcf, next := r.next, lcb := r.lcb }, cache := r.cache }, r.log)
  else
    ({ p := { cur := none, lcf := some cyc, next := 0, lcb := none }, cache := r.cache }, r.log)

inductive Event where
  /-- a complete slice under listing `ls` and time-check oracle `o` -/
  | slice (ls : Nat → List Nat) (o : List Bool)
  /-- a slice during which the process is killed after `k` completed `process_bucket` calls
      (or, if the slice has fewer, just before its `save_state`), then restarted -/
  | killed (ls : Nat → List Nat) (o : List Bool) (k : Nat)
  /-- the process is stopped/killed between two slices and restarted from the state file -/
  | restart

def Event.listing : Event → Option (Nat → List Nat)
  | .slice ls _ => some ls
  | .killed ls _ _ => some ls
  | .restart => none

def Event.isKill : Event → Bool
  | .killed _ _ _ => true
  | _ => false

def step (np : Nat) (s : St) : Event → St × List Entry
  | .slice ls o => slice np ls s o
  | .killed ls o k => ({ s with cache := none }, (slice np ls s o).2.take k)
  | .restart => ({ s with cache := none }, [])

/-- a whole schedule: final state and the log of `process_bucket` calls -/
def run (np : Nat) : St → List Event → St × List Entry
  | s, [] => (s, [])
  | s, ev :: evs =>
    let r := step np s ev
    let r2 := run np r.1 evs
    (r2.1, r.2 ++ r2.2)

/-! ## The process and its state file (`save_state` / `load_state` made explicit)

The slice machine above keeps one `Persist` per slice boundary, on the grounds that `start_slice`
always ends with `save_state`.  The machine below does not assume that: it carries the in-memory
crawler and the JSON state file separately, writes the file exactly where the code calls
`save_state` (end of `start_slice`; `stopService`), and builds a new crawler with `load_state` after
a kill / restart.  `Tahoe.C27.state_file_tracks_memory` and `proc_refines_slice_machine` then PROVE
that the file always equals the in-memory progress (incl. `last-complete-bucket`) and that both
machines make the same `process_bucket` calls.

Transcribed: `save_state` stores `last-complete-prefix = None if index == -1 else prefixes[index]`
(here: the index itself), `load_state` maps it back with `self.prefixes.index(lcp)` and the loop
restarts at `index + 1`; a missing/unreadable file is the default state (`except` branch). -/

/-- the four keys of the JSON state file the base class owns; `lcp` is the index of
    "last-complete-prefix" in `self.prefixes` (`none` = JSON null) -/
structure FileState where
  cur : Option Nat
  lcf : Option Nat
  lcp : Option Nat
  lcb : Option Nat
  deriving DecidableEq, Repr

/-- `save_state` (the part that concerns the base class) -/
def saveState (p : Persist) : FileState :=
  { cur := p.cur, lcf := p.lcf, lcp := if p.next = 0 then none else some (p.next - 1), lcb := p.lcb }

/-- `load_state` on an existing file: `last_complete_prefix_index = prefixes.index(lcp)` (or -1),
    `bucket_cache = (None, [])` -/
def loadState (f : FileState) : St :=
  { p := { cur := f.cur, lcf := f.lcf, next := (match f.lcp with | none => 0 | some i => i + 1), lcb := f.lcb },
    cache := none }

/-- `ShareCrawler.__init__` → `load_state`: no (readable) file gives the default state -/
def loadFile : Option FileState → St
  | none => init
  | some f => loadState f

/-- a crawler process together with the state file on disk -/
structure Proc where
  mem : St
  file : Option FileState
  deriving DecidableEq, Repr

def procInit : Proc := { mem := init, file := none }

inductive PEvent where
  | slice (ls : Nat → List Nat) (o : List Bool)
  | killed (ls : Nat → List Nat) (o : List Bool) (k : Nat)
  /-- the process disappears between two slices; a new one is started -/
  | restart
  /-- orderly `stopService()` (which calls `save_state`) between two slices, then a new process -/
  | stop

/-- the same schedule for the slice machine -/
def PEvent.toEvent : PEvent → Event
  | .slice ls o => .slice ls o
  | .killed ls o k => .killed ls o k
  | .restart => .restart
  | .stop => .restart

def stepProc (np : Nat) (P : Proc) : PEvent → Proc × List Entry
  | .slice ls o =>
    let r := slice np ls P.mem o
    ({ mem := r.1, file := some (saveState r.1.p) }, r.2)
  | .killed ls o k => ({ mem := loadFile P.file, file := P.file }, (slice np ls P.mem o).2.take k)
  | .restart => ({ mem := loadFile P.file, file := P.file }, [])
  | .stop =>
    let f := some (saveState P.mem.p)
    ({ mem := loadFile f, file := f }, [])

def runProc (np : Nat) : Proc → List PEvent → Proc × List Entry
  | P, [] => (P, [])
  | P, ev :: evs =>
    let r := stepProc np P ev
    let r2 := runProc np r.1 evs
    (r2.1, r.2 ++ r2.2)

/-! ## Kills inside the state write; atomicity of `_LeaseStateSerializer.save` as a parameter

`save` writes the JSON to a sibling `.tmp` file and renames it over the state file
(`fileutil.move_into_place`): `atomic = true`.  The variant that writes the state file in place is
`atomic = false`.  A kill can hit the write after the truncating `open("wb")`, after a partial
write, after the complete write (before the rename), or after the rename.  An empty / truncated
JSON file is unreadable: `load_state` swallows the error and starts from the default state
(`loadFile none`).  The harness observes which variant the code implements (does `save` write to the
state path itself?) and runs the driver with that flag. -/

inductive SavePoint where
  | truncated | halfWritten | written | renamed
  deriving DecidableEq, Repr

/-- the state file after a kill at `pt` inside `save(new)` over the file `old` -/
def fileAfterSaveKill (atomic : Bool) (old : Option FileState) (new : FileState) : SavePoint → Option FileState
  | .truncated => if atomic then old else none
  | .halfWritten => if atomic then old else none
  | .written => if atomic then old else some new
  | .renamed => some new

inductive PEventA where
  | ev (e : PEvent)
  /-- a complete slice whose final `save_state` is hit by a kill at `pt`; then a new process -/
  | saveKill (ls : Nat → List Nat) (o : List Bool) (pt : SavePoint)
  /-- `stopService()` between slices whose `save_state` is hit by a kill at `pt`; then a new process -/
  | stopKill (pt : SavePoint)

def stepProcA (atomic : Bool) (np : Nat) (P : Proc) : PEventA → Proc × List Entry
  | .ev e => stepProc np P e
  | .saveKill ls o pt =>
    let r := slice np ls P.mem o
    let f := fileAfterSaveKill atomic P.file (saveState r.1.p) pt
    ({ mem := loadFile f, file := f }, r.2)
  | .stopKill pt =>
    let f := fileAfterSaveKill atomic P.file (saveState P.mem.p) pt
    ({ mem := loadFile f, file := f }, [])

def runProcA (atomic : Bool) (np : Nat) : Proc → List PEventA → Proc × List Entry
  | P, [] => (P, [])
  | P, ev :: evs =>
    let r := stepProcA atomic np P ev
    let r2 := runProcA atomic np r.1 evs
    (r2.1, r.2 ++ r2.2)

/-! ## Vocabulary of the C27 statements -/

/-- Bucket `b` of prefix `p` is present in the listing of every slice (complete or killed) that
    works on cycle `c`, along the schedule `evs` started in state `s`. -/
def PresentThroughout (np c p b : Nat) : St → List Event → Prop
  | _, [] => True
  | s, ev :: evs =>
    (nextCycle s.p.lcf = c → ∀ ls, ev.listing = some ls → b ∈ ls p) ∧
    PresentThroughout np c p b (step np s ev).1 evs

/-- Every name listed under prefix `i` belongs to prefix `i` (`pf` = "prefix index of a name"). -/
def ListingsFollowPrefixes (pf : Nat → Nat) (evs : List Event) : Prop :=
  ∀ ev ∈ evs, ∀ ls, ev.listing = some ls → ∀ i x, x ∈ ls i → pf x = i

end Tahoe.Storage.Crawler
