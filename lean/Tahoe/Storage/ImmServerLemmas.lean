import Tahoe.Storage.ImmLemmas
/-! Server-level lemmas for the immutable-storage model: invariant preservation and the effect of
    every operation on the abstraction `absShare`. Mathlib-free. -/
namespace Tahoe.Storage.Imm
open Tahoe.Base.File

/-- relation between the entries of one key before/after a lease loop -/
def FinRel : Option File → Option File → Prop
  | none, none => True
  | some f, some f' => SameData f f'
  | _, _ => False

theorem finRel_refl (o : Option File) (h : ∀ f, o = some f → WFFin f) : FinRel o o := by
  cases o with
  | none => trivial
  | some f => exact sameData_refl f (h f rfl)

theorem finRel_trans {a b c : Option File} (x : FinRel a b) (y : FinRel b c) : FinRel a c := by
  cases a <;> cases b <;> cases c <;> simp_all [FinRel]
  exact sameData_trans x y

theorem leaseLoop_rel (avail : Nat) (rec : Bytes) (hr : rec.length = 72) (si : Nat) (order : List Nat)
    (fin : List (Key × File)) (H : ∀ k f, getK k fin = some f → WFFin f) :
    ∀ k, FinRel (getK k fin) (getK k (leaseLoop avail rec si fin order).1) := by
  induction order generalizing fin with
  | nil => intro k; simp only [leaseLoop]; exact finRel_refl _ (H k)
  | cons sh rest ih =>
    intro k
    simp only [leaseLoop]
    split
    · exact ih fin H k
    · rename_i f hf
      have hw := H _ _ hf
      rw [openLeaseOffset_wf f hw]
      simp only
      split
      · rename_i f' hok
        have sd := sameData_addOrRenew f hw avail rec hr f' hok
        have H' : ∀ k f, getK k (setK (si, sh) f' fin) = some f → WFFin f := by
          intro k2 f2 h2
          rw [getK_setK] at h2
          split at h2
          · simp only [Option.some.injEq] at h2; subst h2; exact sd.1
          · exact H _ _ h2
        refine finRel_trans ?_ (ih _ H' k)
        rw [getK_setK]
        split
        · rename_i hk; subst hk; rw [hf]; exact sd
        · exact finRel_refl _ (H k)
      · exact finRel_refl _ (H k)

theorem wfFin_of_rel {fin fin' : List (Key × File)} (R : ∀ k, FinRel (getK k fin) (getK k fin'))
    (k : Key) (f : File) (h : getK k fin' = some f) : WFFin f := by
  have := R k; rw [h] at this
  cases hg : getK k fin <;> simp_all [FinRel]
  exact this.1

theorem isSome_of_rel {fin fin' : List (Key × File)} (R : ∀ k, FinRel (getK k fin) (getK k fin'))
    (k : Key) : (getK k fin').isSome = (getK k fin).isSome := by
  have := R k
  cases hg : getK k fin <;> cases hg' : getK k fin' <;> simp_all [FinRel]

/-! ### the allocation loop -/

theorem wfInc_fresh (w : Writer) (size : Nat) (rec : Bytes) (hr : rec.length = 72)
    (hm : w.maxSize = size) (hw : w.written = []) : WFInc w (newContainer size rec) where
  len := by rw [hm]; exact length_newContainer size rec hr
  nl := numLeases_newContainer size rec
  ver := version_newContainer size rec
  bound := by simp [hw, rmMem]
  zero := fun i hi _ => zero_newContainer size rec hr i (by omega)

theorem cellsOf_fresh (w : Writer) (size : Nat) (rec : Bytes) (hm : w.maxSize = size) (hw : w.written = []) :
    cellsOf w (newContainer size rec) = List.replicate size none := by
  apply List.ext_getElem?; intro i
  simp [cellsOf, hm, hw, rmMem, List.getElem?_replicate]
  split <;> simp_all

/-- what one run of the allocation loop does to the server -/
structure AllocEffect (si size : Nat) (rec : Bytes) (shs : List Nat) (s s' : Server) : Prop where
  final : s'.final = s.final
  ro : s'.readonly = s.readonly
  keys : (s.incoming.map (·.1)).Nodup → (s'.incoming.map (·.1)).Nodup
  entry : ∀ k, getK k s'.incoming = getK k s.incoming ∨
    (getK k s.incoming = none ∧ getK k s.final = none ∧ k.1 = si ∧ k.2 ∈ shs ∧
      ∃ w, getK k s'.incoming = some (w, newContainer size rec) ∧ w.maxSize = size ∧ w.written = [])

theorem allocLoop_effect (si size : Nat) (rec : Bytes) (shs : List Nat) (s : Server) (rem : Int) :
    AllocEffect si size rec shs s (allocLoop si size rec s rem shs).1 := by
  induction shs generalizing s rem with
  | nil => exact ⟨rfl, rfl, id, fun _ => Or.inl rfl⟩
  | cons sh rest ih =>
    have weaken : ∀ {s'}, AllocEffect si size rec rest s s' → AllocEffect si size rec (sh :: rest) s s' := by
      intro s' e
      refine ⟨e.final, e.ro, e.keys, fun k => ?_⟩
      rcases e.entry k with h | ⟨a, b, c, d, w⟩
      · exact Or.inl h
      · exact Or.inr ⟨a, b, c, List.mem_cons_of_mem _ d, w⟩
    simp only [allocLoop]
    split
    · exact weaken (ih s rem)
    · split
      · exact weaken (ih s rem)
      · split
        · exact weaken (ih s rem)
        · split
          · rename_i hfin hinc _ _
            simp only [Option.isSome_iff_ne_none, ne_eq, Decidable.not_not] at hfin hinc
            let s1 : Server := { s with nextId := s.nextId + 1, incoming := ((si, sh), (mkWriter s size, newContainer size rec)) :: s.incoming }
            have e := ih s1 (rem - size)
            refine ⟨e.final, e.ro, ?_, fun k => ?_⟩
            · intro hn
              apply e.keys
              simp only [s1, List.map_cons, List.nodup_cons]
              exact ⟨(getK_none_iff _ _).mp hinc, hn⟩
            · rcases e.entry k with h | ⟨a, b, c, d, w⟩
              · by_cases hk : (si, sh) = k
                · subst hk
                  refine Or.inr ⟨hinc, hfin, rfl, List.mem_cons_self, mkWriter s size, ?_, rfl, rfl⟩
                  rw [h]; simp [s1, getK]
                · left; rw [h]; simp [s1, getK, hk]
              · by_cases hk : (si, sh) = k
                · subst hk; simp [s1, getK] at a
                · refine Or.inr ⟨?_, b, c, List.mem_cons_of_mem _ d, w⟩
                  simpa [s1, getK, hk] using a
          · exact weaken (ih s rem)

end Tahoe.Storage.Imm
