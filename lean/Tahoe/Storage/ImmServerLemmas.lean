import Tahoe.Storage.ImmLemmas
/-! Server-level lemmas for the immutable-storage model: invariant preservation and the effect of
    every operation on the abstraction `absShare`. Mathlib-free. -/
namespace Tahoe.Storage.Imm
open Tahoe.Base.File

/-- relation between the entries of one key before/after a lease loop -/
def FinRel : Option File → Option File → Prop
  | none, none => True
  | some f, some f' => SameData f f'
  | _, _ => False

theorem finRel_refl (o : Option File) (h : ∀ f, o = some f → WFFin f) : FinRel o o := by
  cases o with
  | none => trivial
  | some f => exact sameData_refl f (h f rfl)

theorem finRel_trans {a b c : Option File} (x : FinRel a b) (y : FinRel b c) : FinRel a c := by
  cases a <;> cases b <;> cases c <;> simp_all [FinRel]
  exact sameData_trans x y

theorem leaseLoop_rel (avail : Nat) (rec : Bytes) (hr : rec.length = 72) (si : Nat) (order : List Nat)
    (fin : List (Key × File)) (H : ∀ k f, getK k fin = some f → WFFin f) :
    ∀ k, FinRel (getK k fin) (getK k (leaseLoop avail rec si fin order).1) := by
  induction order generalizing fin with
  | nil => intro k; simp only [leaseLoop]; exact finRel_refl _ (H k)
  | cons sh rest ih =>
    intro k
    simp only [leaseLoop]
    split
    · exact ih fin H k
    · rename_i f hf
      have hw := H _ _ hf
      rw [openLeaseOffset_wf f hw]
      simp only
      split
      · rename_i f' hok
        have sd := sameData_addOrRenew f hw avail rec hr f' hok
        have H' : ∀ k f, getK k (setK (si, sh) f' fin) = some f → WFFin f := by
          intro k2 f2 h2
          rw [getK_setK] at h2
          split at h2
          · simp only [Option.some.injEq] at h2; subst h2; exact sd.1
          · exact H _ _ h2
        refine finRel_trans ?_ (ih _ H' k)
        rw [getK_setK]
        split
        · rename_i hk; subst hk; rw [hf]; exact sd
        · exact finRel_refl _ (H k)
      · exact finRel_refl _ (H k)

theorem wfFin_of_rel {fin fin' : List (Key × File)} (R : ∀ k, FinRel (getK k fin) (getK k fin'))
    (k : Key) (f : File) (h : getK k fin' = some f) : WFFin f := by
  have := R k; rw [h] at this
  cases hg : getK k fin <;> simp_all [FinRel]
  exact this.1

theorem isSome_of_rel {fin fin' : List (Key × File)} (R : ∀ k, FinRel (getK k fin) (getK k fin'))
    (k : Key) : (getK k fin').isSome = (getK k fin).isSome := by
  have := R k
  cases hg : getK k fin <;> cases hg' : getK k fin' <;> simp_all [FinRel]

/-! ### the allocation loop -/

theorem wfInc_fresh (w : Writer) (size : Nat) (rec : Bytes) (hr : rec.length = 72)
    (hm : w.maxSize = size) (hw : w.written = []) : WFInc w (newContainer size rec) where
  len := by rw [hm]; exact length_newContainer size rec hr
  nl := numLeases_newContainer size rec
  ver := version_newContainer size rec
  bound := by simp [hw, rmMem]
  zero := fun i hi _ => zero_newContainer size rec hr i (by omega)

theorem cellsOf_fresh (w : Writer) (size : Nat) (rec : Bytes) (hm : w.maxSize = size) (hw : w.written = []) :
    cellsOf w (newContainer size rec) = List.replicate size none := by
  apply List.ext_getElem?; intro i
  simp [cellsOf, hm, hw, rmMem, List.getElem?_replicate]
  split <;> simp_all

/-- what one run of the allocation loop does to the server -/
structure AllocEffect (si size : Nat) (rec : Bytes) (shs : List Nat) (s s' : Server) : Prop where
  final : s'.final = s.final
  ro : s'.readonly = s.readonly
  keys : (s.incoming.map (·.1)).Nodup → (s'.incoming.map (·.1)).Nodup
  entry : ∀ k, getK k s'.incoming = getK k s.incoming ∨
    (getK k s.incoming = none ∧ getK k s.final = none ∧ k.1 = si ∧ k.2 ∈ shs ∧
      ∃ w, getK k s'.incoming = some (w, newContainer size rec) ∧ w.maxSize = size ∧ w.written = [])

theorem allocLoop_effect (si size : Nat) (rec : Bytes) (shs : List Nat) (s : Server) (rem : Int) :
    AllocEffect si size rec shs s (allocLoop si size rec s rem shs).1 := by
  induction shs generalizing s rem with
  | nil => exact ⟨rfl, rfl, id, fun _ => Or.inl rfl⟩
  | cons sh rest ih =>
    have weaken : ∀ {s'}, AllocEffect si size rec rest s s' → AllocEffect si size rec (sh :: rest) s s' := by
      intro s' e
      refine ⟨e.final, e.ro, e.keys, fun k => ?_⟩
      rcases e.entry k with h | ⟨a, b, c, d, w⟩
      · exact Or.inl h
      · exact Or.inr ⟨a, b, c, List.mem_cons_of_mem _ d, w⟩
    simp only [allocLoop]
    split
    · exact weaken (ih s rem)
    · split
      · exact weaken (ih s rem)
      · split
        · exact weaken (ih s rem)
        · split
          · rename_i hfin hinc _ _
            simp only [Option.isSome_iff_ne_none, ne_eq, Decidable.not_not] at hfin hinc
            let s1 : Server := { s with nextId := s.nextId + 1, incoming := ((si, sh), (mkWriter s size, newContainer size rec)) :: s.incoming }
            have e := ih s1 (rem - size)
            refine ⟨e.final, e.ro, ?_, fun k => ?_⟩
            · intro hn
              apply e.keys
              simp only [s1, List.map_cons, List.nodup_cons]
              exact ⟨(getK_none_iff _ _).mp hinc, hn⟩
            · rcases e.entry k with h | ⟨a, b, c, d, w⟩
              · by_cases hk : (si, sh) = k
                · subst hk
                  refine Or.inr ⟨hinc, hfin, rfl, List.mem_cons_self, mkWriter s size, ?_, rfl, rfl⟩
                  rw [h]; simp [s1, getK]
                · left; rw [h]; simp [s1, getK, hk]
              · by_cases hk : (si, sh) = k
                · subst hk; simp [s1, getK] at a
                · refine Or.inr ⟨?_, b, c, List.mem_cons_of_mem _ d, w⟩
                  simpa [s1, getK, hk] using a
          · exact weaken (ih s rem)


/-! ### per-operation effects -/

theorem wfInc_deadline (w : Writer) (f : File) (d : Nat) (h : WFInc w f) :
    WFInc { w with deadline := d } f := ⟨h.len, h.nl, h.ver, h.bound, h.zero⟩

theorem final_none_of_inc (s : Server) (h : WF s) (k : Key) (x) (hi : getK k s.incoming = some x) :
    getK k s.final = none := by
  cases hf : getK k s.final with
  | none => rfl
  | some f => have := h.disj k (by simp [hf]); simp_all

theorem shareLength_of_wfInc (w : Writer) (f : File) (h : WFInc w f) : shareLength f = w.maxSize := by
  simp only [shareLength, h.len, h.nl]; omega

theorem shareData_of_wfInc (w : Writer) (f : File) (h : WFInc w f) :
    pread f 12 (shareLength f) = specData (cellsOf w f) := by
  rw [shareLength_of_wfInc w f h]
  apply List.ext_getElem?; intro i
  simp only [getElem?_pread, specData, cellsOf, List.getElem?_map, List.map_map]
  by_cases hi : i < w.maxSize
  · have hlt : 12 + i < f.length := by rw [h.len]; omega
    have hb : f[12 + i]? = some f[12 + i] := by simp [hlt]
    simp only [hi, if_true, List.getElem?_range hi, Option.map_some, Function.comp]
    by_cases hm : rmMem w.written i = true
    · simp [hm, hb]
    · have hz := h.zero i hi (by simpa using hm)
      simp [hm, hz]
  · simp [hi]

theorem wfFin_of_wfInc (w : Writer) (f : File) (h : WFInc w f) : WFFin f :=
  ⟨h.ver, by rw [h.nl, h.len]; omega⟩

def allocSum (l : List (Key × (Writer × File))) : Nat := (l.map (fun e => e.2.1.maxSize)).sum

theorem allocSum_eraseK (l : List (Key × (Writer × File))) (hn : (l.map (·.1)).Nodup) (k : Key)
    (w : Writer) (f : File) (hg : getK k l = some (w, f)) :
    allocSum (eraseK k l) + w.maxSize = allocSum l := by
  induction l with
  | nil => simp [getK] at hg
  | cons e rest ih =>
    obtain ⟨ke, we, fe⟩ := e
    simp only [List.map_cons, List.nodup_cons] at hn
    simp only [getK] at hg
    by_cases hk : ke = k
    · subst hk
      simp only [if_true, Option.some.injEq, Prod.mk.injEq] at hg
      obtain ⟨rfl, rfl⟩ := hg
      have : eraseK ke rest = rest := by
        simp only [eraseK]
        apply List.filter_eq_self.mpr
        intro a ha; simp only [ne_eq, decide_eq_true_eq]
        intro heq; apply hn.1; rw [← heq]; exact List.mem_map_of_mem ha
      have e2 : eraseK ke ((ke, we, fe) :: rest) = eraseK ke rest := by simp [eraseK]
      rw [e2, this]; simp [allocSum]; omega
    · simp only [hk, if_false] at hg
      have := ih hn.2 hg
      simp only [eraseK, allocSum, List.filter_cons, ne_eq, hk, not_false_eq_true, decide_true, if_true,
        List.map_cons, List.sum_cons] at this ⊢
      omega

theorem writeOp_effect (s : Server) (h : WF s) (wid off : Nat) (data : Bytes) (k : Key) (w : Writer)
    (f : File) (hf : findWid wid s.incoming = some (k, (w, f))) :
    WF (writeOp s wid off data).1 ∧ (writeOp s wid off data).1.final = s.final ∧
    absShare s k = .inProgress w.maxSize (cellsOf w f) ∧
    (∀ k', absShare (writeOp s wid off data).1 k' =
        if k' = k then specWriteShare (absShare s k) off data else absShare s k') ∧
    toSpecRes (writeOp s wid off data).2 = (specWrite w.maxSize (cellsOf w f) off data).2 ∧
    allocatedSize (writeOp s wid off data).1 = allocatedSize s := by
  have hg : getK k s.incoming = some (w, f) := findWid_getK wid _ h.incKeys _ hf
  have hfin := final_none_of_inc s h k _ hg
  have hw := wfInc_deadline w f (s.now + 30 * 60) (h.inc k w f hg)
  have sp := bwWrite_spec { w with deadline := s.now + 30 * 60 } f off data hw
  simp only at sp
  obtain ⟨sp1, sp2, sp3, _, sp5⟩ := sp
  have habs : absShare s k = .inProgress w.maxSize (cellsOf w f) := by
    simp only [absShare, hfin, hg]
  simp only [writeOp, hf]
  refine ⟨⟨nodup_setK _ _ _ h.incKeys, ?_, h.fin, ?_⟩, trivial, habs, ?_, sp2, ?_⟩
  · intro k2 w2 f2 h2
    rw [getK_setK] at h2
    split at h2
    · simp only [Option.some.injEq, Prod.mk.injEq] at h2
      obtain ⟨rfl, rfl⟩ := h2; exact sp5
    · exact h.inc k2 w2 f2 h2
  · intro k2 h2
    simp only [getK_setK]
    split
    · rename_i hk; subst hk; simp [hfin] at h2
    · exact h.disj k2 h2
  · intro k'
    simp only [absShare, getK_setK]
    by_cases hk : k' = k
    · subst hk
      simp only [hfin, if_true, hg, specWriteShare]
      rw [sp1, sp3]; rfl
    · have hk' : ¬ (k = k') := fun e => hk e.symm
      simp only [hk, hk', if_false]
  · have e := allocSum_eraseK s.incoming h.incKeys k w f hg
    simp only [allocatedSize, setK, List.map_cons, List.sum_cons, allocSum] at e ⊢
    rw [sp3]; omega

theorem closeOp_effect (s : Server) (h : WF s) (wid : Nat) (k : Key) (w : Writer)
    (f : File) (hf : findWid wid s.incoming = some (k, (w, f))) :
    WF (closeOp s wid).1 ∧ (closeOp s wid).2 = true ∧
    absShare s k = .inProgress w.maxSize (cellsOf w f) ∧
    (∀ k', absShare (closeOp s wid).1 k' = if k' = k then specClose (absShare s k) else absShare s k') ∧
    (∀ k', getK k' (closeOp s wid).1.final = if k = k' then some f else getK k' s.final) ∧
    allocatedSize (closeOp s wid).1 + w.maxSize = allocatedSize s := by
  have hg : getK k s.incoming = some (w, f) := findWid_getK wid _ h.incKeys _ hf
  have hfin := final_none_of_inc s h k _ hg
  have hw := h.inc k w f hg
  have habs : absShare s k = .inProgress w.maxSize (cellsOf w f) := by
    simp only [absShare, hfin, hg]
  simp only [closeOp, hf]
  refine ⟨⟨nodup_eraseK _ _ h.incKeys, ?_, ?_, ?_⟩, trivial, habs, ?_, fun k' => getK_setK _ _ _ _, ?_⟩
  · intro k2 w2 f2 h2
    rw [getK_eraseK] at h2
    split at h2
    · simp at h2
    · exact h.inc k2 w2 f2 h2
  · intro k2 f2 h2
    rw [getK_setK] at h2
    split at h2
    · simp only [Option.some.injEq] at h2; subst h2; exact wfFin_of_wfInc w f hw
    · exact h.fin k2 f2 h2
  · intro k2 h2
    simp only [getK_setK, getK_eraseK] at h2 ⊢
    split
    · rfl
    · rename_i hk; simp only [hk, if_false] at h2; exact h.disj k2 h2
  · intro k'
    simp only [absShare, getK_setK, getK_eraseK]
    by_cases hk : k' = k
    · subst hk
      simp only [if_true, hfin, hg, specClose]
      rw [shareData_of_wfInc w f hw]
    · have hk' : ¬ (k = k') := fun e => hk e.symm
      simp only [hk, hk', if_false]
  · exact allocSum_eraseK s.incoming h.incKeys k w f hg

theorem abortOp_effect (s : Server) (h : WF s) (wid : Nat) (k : Key) (w : Writer)
    (f : File) (hf : findWid wid s.incoming = some (k, (w, f))) :
    WF (abortOp s wid) ∧ (abortOp s wid).final = s.final ∧
    getK k (abortOp s wid).incoming = none ∧
    (∀ k', absShare (abortOp s wid) k' = if k' = k then .absent else absShare s k') ∧
    allocatedSize (abortOp s wid) + w.maxSize = allocatedSize s := by
  have hg : getK k s.incoming = some (w, f) := findWid_getK wid _ h.incKeys _ hf
  have hfin := final_none_of_inc s h k _ hg
  simp only [abortOp, hf]
  refine ⟨⟨nodup_eraseK _ _ h.incKeys, ?_, h.fin, ?_⟩, trivial, by simp [getK_eraseK], ?_, ?_⟩
  · intro k2 w2 f2 h2
    rw [getK_eraseK] at h2
    split at h2
    · simp at h2
    · exact h.inc k2 w2 f2 h2
  · intro k2 h2
    simp only [getK_eraseK]
    split
    · rfl
    · exact h.disj k2 h2
  · intro k'
    simp only [absShare, getK_eraseK]
    by_cases hk : k' = k
    · subst hk; simp only [if_true, hfin]
    · have hk' : ¬ (k = k') := fun e => hk e.symm
      simp only [hk, hk', if_false]
  · exact allocSum_eraseK s.incoming h.incKeys k w f hg


theorem getK_filter {α : Type} (p : Key × α → Bool) (l : List (Key × α)) (hn : (l.map (·.1)).Nodup)
    (k : Key) :
    getK k (l.filter p) = match getK k l with
      | some v => if p (k, v) then some v else none
      | none => none := by
  induction l with
  | nil => simp [getK]
  | cons e rest ih =>
    obtain ⟨ke, v⟩ := e
    simp only [List.map_cons, List.nodup_cons] at hn
    have ih := ih hn.2
    by_cases hk : ke = k
    · subst hk
      have hnone : getK ke rest = none := (getK_none_iff _ _).mpr hn.1
      simp only [List.filter_cons, getK, if_true]
      by_cases hp : p (ke, v) = true
      · simp [hp, getK]
      · simp only [hp, Bool.false_eq_true, if_false]
        rw [ih, hnone]
    · simp only [List.filter_cons, getK, hk, if_false]
      split
      · simp only [getK, hk, if_false]; exact ih
      · exact ih

theorem advanceOp_effect (s : Server) (h : WF s) (dt : Nat) :
    WF (advanceOp s dt) ∧ (advanceOp s dt).final = s.final ∧
    (∀ k w f, getK k (advanceOp s dt).incoming = some (w, f) →
        getK k s.incoming = some (w, f) ∧ s.now + dt < w.deadline) ∧
    (∀ k w f, getK k s.incoming = some (w, f) → w.deadline ≤ s.now + dt →
        getK k (advanceOp s dt).incoming = none) ∧
    (∀ k, absShare (advanceOp s dt) k = absShare s k ∨
        (∃ size cells, absShare s k = .inProgress size cells ∧ absShare (advanceOp s dt) k = .absent)) := by
  have gf := fun k => getK_filter (fun e : Key × (Writer × File) => decide (s.now + dt < e.2.1.deadline))
    s.incoming h.incKeys k
  have sub : ∀ k w f, getK k (advanceOp s dt).incoming = some (w, f) →
      getK k s.incoming = some (w, f) ∧ s.now + dt < w.deadline := by
    intro k w f hk
    simp only [advanceOp] at hk
    rw [gf k] at hk
    split at hk
    · rename_i v hv
      split at hk
      · rename_i hp
        simp only [Option.some.injEq] at hk; subst hk
        exact ⟨hv, by simpa using hp⟩
      · simp at hk
    · simp at hk
  refine ⟨⟨?_, ?_, h.fin, ?_⟩, rfl, sub, ?_, ?_⟩
  · exact h.incKeys.sublist ((List.filter_sublist).map _)
  · intro k w f hk; exact h.inc k w f (sub k w f hk).1
  · intro k hk
    have := h.disj k hk
    simp only [advanceOp]; rw [gf k, this]
  · intro k w f hk hd
    simp only [advanceOp]; rw [gf k, hk]
    have : ¬ (s.now + dt < w.deadline) := by omega
    simp [this]
  · intro k
    simp only [absShare, advanceOp]
    cases hfin : getK k s.final with
    | some f => left; rfl
    | none =>
      simp only
      rw [gf k]
      cases hinc : getK k s.incoming with
      | none => left; rfl
      | some v =>
        obtain ⟨w, f⟩ := v
        simp only
        by_cases hp : s.now + dt < w.deadline
        · left; simp [hp]
        · right; simp [hp]

/-- effect of `allocate_buckets` on the abstraction -/
theorem allocate_effect (s : Server) (h : WF s) (si : Nat) (shs : List Nat) (size : Nat) (rec : Bytes)
    (hr : rec.length = 72) (free : Nat) (order : List Nat) :
    WF (allocate s si shs size rec free order).1 ∧
    (∀ k, visible (allocate s si shs size rec free order).1 k = visible s k) ∧
    (∀ k, absShare (allocate s si shs size rec free order).1 k = absShare s k ∨
      (k.1 = si ∧ k.2 ∈ shs ∧ absShare s k = .absent ∧
        absShare (allocate s si shs size rec free order).1 k =
          .inProgress size (List.replicate size none))) := by
  have R := leaseLoop_rel (availableSpace s free) rec hr si order s.final h.fin
  generalize hll : leaseLoop (availableSpace s free) rec si s.final order = ll at R
  obtain ⟨fin', err⟩ := ll
  simp only at R
  -- the server after the lease loop
  have wf0 : WF { s with final := fin' } :=
    ⟨h.incKeys, h.inc, fun k f hk => wfFin_of_rel R k f hk,
     fun k hk => h.disj k (by rw [← isSome_of_rel R k]; exact hk)⟩
  have abs0 : ∀ k, absShare { s with final := fin' } k = absShare s k := by
    intro k
    have := R k
    simp only [absShare]
    cases hg : getK k s.final <;> cases hg' : getK k fin' <;> simp_all [FinRel]
    exact this.2.1
  have vis0 : ∀ k, visible { s with final := fin' } k = visible s k := fun k => isSome_of_rel R k
  simp only [allocate, allocateWith, hll]
  cases err with
  | some e => exact ⟨wf0, vis0, fun k => Or.inl (abs0 k)⟩
  | none =>
    simp only
    have e := allocLoop_effect si size rec shs { s with final := fin' }
      ((availableSpace s free : Int) - (allocatedSize s : Int))
    generalize (allocLoop si size rec { s with final := fin' }
      ((availableSpace s free : Int) - (allocatedSize s : Int)) shs).1 = s' at e
    have hfin : s'.final = fin' := e.final
    refine ⟨⟨e.keys h.incKeys, ?_, ?_, ?_⟩, ?_, ?_⟩
    · intro k w f hk
      rcases e.entry k with h1 | ⟨_, _, _, _, w', hw', hm, hwr⟩
      · rw [h1] at hk; exact h.inc k w f hk
      · rw [hw'] at hk
        simp only [Option.some.injEq, Prod.mk.injEq] at hk
        obtain ⟨rfl, rfl⟩ := hk
        exact wfInc_fresh w' size rec hr hm hwr
    · intro k f hk; rw [hfin] at hk; exact wf0.fin k f hk
    · intro k hk
      rw [hfin] at hk
      rcases e.entry k with h1 | ⟨_, hnf, _⟩
      · rw [h1]; exact wf0.disj k hk
      · simp only at hnf; rw [hnf] at hk; simp at hk
    · intro k; simp only [visible, hfin]; exact vis0 k
    · intro k
      rcases e.entry k with h1 | ⟨hni, hnf, hsi, hsh, w', hw', hm, hwr⟩
      · left
        rw [← abs0 k]
        simp only [absShare, hfin, h1]
      · right
        refine ⟨hsi, hsh, ?_, ?_⟩
        · rw [← abs0 k]; simp only [absShare] at *; simp only [hnf, hni]
        · simp only at hnf
          simp only [absShare, hfin, hnf, hw', hm]
          rw [cellsOf_fresh w' size rec hm hwr]


theorem findWid_none_effects (s : Server) (wid : Nat) (h : findWid wid s.incoming = none) (off : Nat)
    (data : Bytes) :
    writeOp s wid off data = (s, .closed) ∧ closeOp s wid = (s, false) ∧ abortOp s wid = s := by
  simp [writeOp, closeOp, abortOp, h]

theorem wf_empty (ro : Bool) (rs : Nat) : WF (Server.empty ro rs) :=
  ⟨by simp [Server.empty], by simp [Server.empty, getK], by simp [Server.empty, getK],
   by simp [Server.empty, getK]⟩

/-- one step preserves the invariant and refines the specification -/
theorem step_refines (s : Server) (h : WF s) (op : Op) (ok : OpOk op) :
    WF (step s op) ∧ SpecStep s (absShare s) op (absShare (step s op)) := by
  cases op with
  | alloc si shs size rec free order =>
    have e := allocate_effect s h si shs size rec ok free order
    exact ⟨e.1, e.2.2⟩
  | write wid off data =>
    simp only [step, SpecStep]
    cases hf : findWid wid s.incoming with
    | none => rw [(findWid_none_effects s wid hf off data).1]; exact ⟨h, fun _ => rfl⟩
    | some e =>
      obtain ⟨k, w, f⟩ := e
      have := writeOp_effect s h wid off data k w f hf
      exact ⟨this.1, this.2.2.2.1⟩
  | close wid =>
    simp only [step, SpecStep]
    cases hf : findWid wid s.incoming with
    | none => rw [(findWid_none_effects s wid hf 0 []).2.1]; exact ⟨h, fun _ => rfl⟩
    | some e =>
      obtain ⟨k, w, f⟩ := e
      have := closeOp_effect s h wid k w f hf
      exact ⟨this.1, this.2.2.2.1⟩
  | abort wid =>
    simp only [step, SpecStep]
    cases hf : findWid wid s.incoming with
    | none => rw [(findWid_none_effects s wid hf 0 []).2.2]; exact ⟨h, fun _ => rfl⟩
    | some e =>
      obtain ⟨k, w, f⟩ := e
      have := abortOp_effect s h wid k w f hf
      exact ⟨this.1, this.2.2.2.1⟩
  | advance dt =>
    have := advanceOp_effect s h dt
    exact ⟨this.1, this.2.2.2.2⟩
  | read k off len => exact ⟨h, fun _ => rfl⟩
  | list si => exact ⟨h, fun _ => rfl⟩

theorem wf_run (s : Server) (h : WF s) (ops : List Op) (ok : ∀ op ∈ ops, OpOk op) : WF (run s ops) := by
  induction ops generalizing s with
  | nil => exact h
  | cons op rest ih =>
    simp only [run, List.foldl_cons]
    exact ih _ (step_refines s h op (ok op List.mem_cons_self)).1
      (fun o ho => ok o (List.mem_cons_of_mem _ ho))

theorem read_refines (s : Server) (h : WF s) (k : Key) (off len : Nat) :
    readOp s k off len = specRead (absShare s k) off len := by
  simp only [readOp, absShare]
  cases hf : getK k s.final with
  | none =>
    simp only
    cases getK k s.incoming <;> simp [specRead]
  | some f =>
    have hw := h.fin k f hf
    have hlen := hw.len
    simp only [openLeaseOffset_wf f hw, specRead, Option.some.injEq]
    rw [readShareData_eq]
    apply List.ext_getElem?; intro i
    simp only [getElem?_pread, shareLength]
    by_cases hi : i < len
    · by_cases h2 : off + i < f.length - 12 - numLeases f * 72
      · have : i < min len (f.length - numLeases f * 72 - (12 + off)) := by omega
        simp [hi, h2, this, Nat.add_assoc]
      · have : ¬ i < min len (f.length - numLeases f * 72 - (12 + off)) := by omega
        simp [hi, h2, this]
    · have : ¬ i < min len (f.length - numLeases f * 72 - (12 + off)) := by omega
      simp [hi, this]

end Tahoe.Storage.Imm
