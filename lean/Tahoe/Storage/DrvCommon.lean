import Tahoe.Base.DrvUtil
import Tahoe.Storage.Slot
/-!
Shared line driver of C23 / C24 / C25 (Mathlib-free; `lean/Drv/C23.lean`, `C24.lean`, `C25.lean` are
thin wrappers).  One input line = one whole operation history on ONE bucket (storage index):

    hist P=<0|1> N=<nodeid hex> H=<sec:hash,…|-> op op op …

Each `op` is one token; fields are separated by `|`.  The output is one field per op joined by `;`.

    rtw|now|avail|we|renew|cancel|<0|1 renew_leases>|tw|rv
         tw  = `_` or entries joined by `/`; entry = n~testv~datav~newlen
               testv = `_` or off.len.hex,…   datav = `_` or off.hex,…   newlen = `n` (None) or a number
         rv  = `_` or off.len,…
         →  E:<Err>   |   T:<reads>   |   F:<reads>        reads = `_` or n=hex.hex,…  (`n=` for no vectors)
    readv|shares|rv        shares = `_` or n,n,…            →  reads
    leases                 →  per share n=[owner.expire.renew.cancel.nodeid,…] joined by `/`
    dump                   →  per share n=<rle bytes> joined by `/`  (`_` for an empty bucket)
    put|n|<rle bytes>      fabricate the container file of share n          → ok
    order|n,n,…            reorder the bucket (directory listing order)     → ok
    addlease|now|avail|renew|cancel                                        → ok | E:<Err>
    renew|now|secret                                                       → ok | E:<Err>
    cancel|n|secret        `cancel_lease(secret)` on the file of share n    → ok:<freed> | E:<Err> | E:NoShare
    alloc|now|avail|n|size|renew|cancel   allocate_buckets for one immutable share  → ok:<created 0/1>:<already got> | E:<Err>
    bwrite|n|off|hex       BucketWriter.write on the open upload of share n → ok | E:<Err> | E:NoWriter
    bclose|n               BucketWriter.close (incoming → bucket)           → ok | E:NoWriter
    idump                  raw bytes of the incoming (open upload) files    → like dump

Bytes are lowercase hex (`-` = empty).  "rle bytes" = chunks joined by `*`, a chunk being hex or
`z<count>` (a run of zero bytes).  `H` is the table of the abstract hash (blake2b, computed by the real
library on the harness side); hashing a secret that is not in the table makes the line `bad-op`.
-/
namespace Tahoe.Storage.Drv
open Tahoe.Drv hiding Bytes
open Tahoe.Base.File Tahoe.Storage Tahoe.Storage.Mutable Tahoe.Storage.Slot

structure RleSt where
  chunks : List String := []     -- reversed
  lit : List UInt8 := []         -- reversed
  zrun : Nat := 0

def RleSt.flush (st : RleSt) : RleSt :=
  if st.zrun ≥ 16 then
    { chunks := s!"z{st.zrun}" :: (if st.lit.isEmpty then st.chunks else hexOfBytes st.lit.reverse :: st.chunks),
      lit := [], zrun := 0 }
  else { st with lit := List.replicate st.zrun 0 ++ st.lit, zrun := 0 }

/-- run-length encode: runs of ≥ 16 zero bytes become `z<count>` -/
def rleChunks (b : Bytes) : List String :=
  let st := b.foldl (fun (st : RleSt) x =>
    if x == 0 then { st with zrun := st.zrun + 1 }
    else let st' := st.flush; { st' with lit := x :: st'.lit }) {}
  let st := st.flush
  (if st.lit.isEmpty then st.chunks else hexOfBytes st.lit.reverse :: st.chunks).reverse

def encRle (b : Bytes) : String :=
  if b.isEmpty then "-" else "*".intercalate (rleChunks b)

def decRle (s : String) : Option Bytes :=
  if s == "-" then some [] else
  (s.splitOn "*").foldlM (fun acc c =>
    if c.startsWith "z" then do
      let n ← (c.drop 1).toNat?
      pure (acc ++ List.replicate n (0 : UInt8))
    else do
      let b ← bytesOfHex c
      pure (acc ++ b)) []

def listOf (s : String) (sep : String) : List String :=
  if s == "_" then [] else s.splitOn sep

def parseTestv (s : String) : Option (List (Nat × Nat × Bytes)) :=
  (listOf s ",").mapM fun e => match e.splitOn "." with
    | [o, l, x] => do pure ((← o.toNat?), (← l.toNat?), (← bytesOfHex x))
    | _ => none

def parseDatav (s : String) : Option (List (Nat × Bytes)) :=
  (listOf s ",").mapM fun e => match e.splitOn "." with
    | [o, x] => do pure ((← o.toNat?), (← bytesOfHex x))
    | _ => none

def parseRv (s : String) : Option (List (Nat × Nat)) :=
  (listOf s ",").mapM fun e => match e.splitOn "." with
    | [o, l] => do pure ((← o.toNat?), (← l.toNat?))
    | _ => none

def parseNewLen (s : String) : Option (Option Nat) :=
  if s == "n" then some none else s.toNat?.map some

def parseTw (s : String) : Option (List (Nat × TW)) :=
  (listOf s "/").mapM fun e => match e.splitOn "~" with
    | [n, tv, dv, nl] => do
        pure ((← n.toNat?), { testv := (← parseTestv tv), datav := (← parseDatav dv), newLength := (← parseNewLen nl) })
    | _ => none

def parseNats (s : String) : Option (List Nat) := (listOf s ",").mapM String.toNat?

def parseHashTable (s : String) : Option (List (Bytes × Bytes)) :=
  if s == "-" then some [] else
  (s.splitOn ",").mapM fun e => match e.splitOn ":" with
    | [a, b] => do pure ((← bytesOfHex a), (← bytesOfHex b))
    | _ => none

/-- marker returned for a secret that is not in the table (the driver then prints `bad-op`) -/
def missingMark : Bytes := [0x6d, 0x69, 0x73, 0x73]

def hashOf (tbl : List (Bytes × Bytes)) (x : Bytes) : Bytes :=
  match tbl.find? (·.1 == x) with
  | some p => p.2
  | none => missingMark

def showReads (r : List (Nat × List Bytes)) : String :=
  if r.isEmpty then "_" else
  ",".intercalate (r.map fun (n, ds) => s!"{n}=" ++ ".".intercalate (ds.map hexOfBytes))

def showLease (l : Lease) : String :=
  s!"{l.owner}.{l.expire}.{hexOfBytes l.renew}.{hexOfBytes l.cancel}.{hexOfBytes l.nodeid}"

def showLeases (b : Bucket) : String :=
  if b.isEmpty then "_" else
  "/".intercalate (b.map fun (n, f) =>
    let ls := leasesOf f
    s!"{n}=[" ++ ",".intercalate (ls.map showLease) ++ "]")

def showDump (b : Bucket) : String :=
  if b.isEmpty then "_" else "/".intercalate (b.map fun (n, f) => s!"{n}=" ++ encRle f)

def sortByFst {α : Type} (l : List (Nat × α)) : List (Nat × α) :=
  (l.toArray.qsort (fun a c => a.1 < c.1)).toList

def sortBucket (b : Bucket) : Bucket := sortByFst b

structure Ctx where
  precheck : Bool
  nodeid : Bytes
  tbl : List (Bytes × Bytes)

def envOf (c : Ctx) (now avail : Nat) : Env :=
  { h := hashOf c.tbl, nodeid := c.nodeid, now := now, avail := avail, precheck := c.precheck }

def showErr (e : Option Err) : String := match e with
  | none => "ok"
  | some e => "E:" ++ e.toString

/-- did any stored lease pick up the missing-hash marker? (checked by scanning for it is not
    reliable; instead every secret that gets hashed is checked up front) -/
def knows (c : Ctx) (x : Bytes) : Bool := (c.tbl.find? (·.1 == x)).isSome

def stepOp (c : Ctx) (b : Bucket) (op : String) : Option (Bucket × String) :=
  match op.splitOn "|" with
  | ["rtw", now, avail, we, renew, cancel, rl, tw, rv] => do
      let env := envOf c (← now.toNat?) (← avail.toNat?)
      let renew ← bytesOfHex renew
      let cancel ← bytesOfHex cancel
      if !(knows c renew && knows c cancel) then none
      let rl ← (if rl == "1" then some true else if rl == "0" then some false else none)
      let r := rtw env b (← bytesOfHex we) renew cancel (← parseTw tw) (← parseRv rv) rl
      let out := match r.out with
        | .error e => "E:" ++ e.toString
        | .ok (g, reads) => (if g then "T:" else "F:") ++ showReads (sortByFst reads)
      pure (r.bucket, out)
  | ["readv", shares, rv] => do
      let r := slotReadv b (← parseNats shares) (← parseRv rv)
      pure (b, showReads (sortByFst r))
  | ["leases"] => some (b, showLeases (sortBucket b))
  | ["dump"] => some (b, showDump (sortBucket b))
  | ["put", n, bytes] => do
      pure (store b (← n.toNat?) (← decRle bytes), "ok")
  | ["order", ns] => do
      let ns ← parseNats ns
      -- listed shares first, in listing order; shares the listing does not mention keep their place behind
      -- them (a listing that differs from the model's bucket then shows up as a disagreement in the next dump,
      -- not as a rejected line)
      let b' := ns.filterMap fun n => (b.find? (·.1 == n))
      pure (b' ++ b.filter (fun p => !ns.contains p.1), "ok")
  | ["addlease", now, avail, renew, cancel] => do
      let env := envOf c (← now.toNat?) (← avail.toNat?)
      let renew ← bytesOfHex renew
      let cancel ← bytesOfHex cancel
      if !(knows c renew && knows c cancel) then none
      let (b', e) := serverAddLease env b renew cancel
      pure (b', showErr e)
  | ["cancel", n, secret] => do
      let env := envOf c 0 0
      let secret ← bytesOfHex secret
      if !(knows c secret && knows c (zeros 32)) then none
      match shareCancel env b (← n.toNat?) secret with
      | none => pure (b, "E:NoShare")
      | some (b', freed, none) => pure (b', s!"ok:{freed}")
      | some (b', _, some e) => pure (b', "E:" ++ e.toString)
  | ["renew", now, secret] => do
      let env := envOf c (← now.toNat?) 0
      let secret ← bytesOfHex secret
      if !(knows c secret) then none
      let (b', e) := serverRenewLease env b secret
      pure (b', showErr e)
  | _ => none

/-- upload ops (state = bucket + incoming files), everything else is `stepOp` on the bucket -/
def stepOp2 (c : Ctx) (st : Bucket × Incoming) (op : String) : Option ((Bucket × Incoming) × String) :=
  match op.splitOn "|" with
  | ["alloc", now, avail, n, size, renew, cancel] => do
      let env := envOf c (← now.toNat?) (← avail.toNat?)
      let renew ← bytesOfHex renew
      let cancel ← bytesOfHex cancel
      if !(knows c renew && knows c cancel) then none
      let (b', inc', created, e) := allocate env st.1 st.2 (← n.toNat?) (← size.toNat?) renew cancel
      match e with
      | some e => pure ((b', inc'), "E:" ++ e.toString)
      | none => pure ((b', inc'), s!"ok:{if created then 1 else 0}:" ++
          (if b'.isEmpty then "_" else ",".intercalate ((sortBucket b').map fun p => toString p.1)))
  | ["bwrite", n, off, d] => do
      match bucketWrite st.2 (← n.toNat?) (← off.toNat?) (← bytesOfHex d) with
      | none => pure (st, "E:NoWriter")
      | some (inc', none) => pure ((st.1, inc'), "ok")
      | some (inc', some e) => pure ((st.1, inc'), "E:" ++ e.toString)
  | ["bclose", n] => do
      match bucketClose st.1 st.2 (← n.toNat?) with
      | none => pure (st, "E:NoWriter")
      | some st' => pure (st', "ok")
  | ["idump"] => some (st, showDump (sortBucket (st.2.map fun p => (p.1, p.2.2))))
  | _ => (stepOp c st.1 op).map fun (b', out) => ((b', st.2), out)

def runOps (c : Ctx) (st : Bucket × Incoming) (acc : List String) : List String → Option (List String)
  | [] => some acc.reverse
  | op :: rest => match stepOp2 c st op with
    | some (st', out) => runOps c st' (out :: acc) rest
    | none => none

def kv (key : String) (tok : String) : Option String :=
  if tok.startsWith (key ++ "=") then some (tok.drop (key.length + 1)).toString else none

def handle : List String → String
  | "hist" :: p :: n :: h :: ops =>
    match (do
      let p ← kv "P" p
      let n ← kv "N" n
      let h ← kv "H" h
      let pc ← (if p == "1" then some true else if p == "0" then some false else none)
      let c : Ctx := { precheck := pc, nodeid := (← bytesOfHex n), tbl := (← parseHashTable h) }
      runOps c ([], []) [] ops) with
    | some outs => ";".intercalate outs
    | none => "bad-op"
  | _ => "bad-op"

end Tahoe.Storage.Drv
