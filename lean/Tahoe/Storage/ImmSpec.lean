import Tahoe.Storage.Immutable
/-!
The abstract specification of C22: a map from (SI, shnum) to a write-once byte array with an
in-progress flag, and the abstraction function from the concrete server model.  Mathlib-free.
-/
namespace Tahoe.Storage.Imm
open Tahoe.Base.File

/-- one share of the specification: a cell is `none` until it is written, and is written once -/
inductive Share where
  | absent
  | inProgress (size : Nat) (cells : List (Option UInt8))
  | complete (data : Bytes)
deriving DecidableEq, Repr

abbrev Spec := Key → Share

def cellAt (cells : List (Option UInt8)) (i : Nat) : Option UInt8 := (cells[i]?).join

/-- some byte of `data` lands on a cell that already holds a different byte -/
def specConflict (cells : List (Option UInt8)) (off : Nat) (data : Bytes) : Bool :=
  (List.range data.length).any (fun j =>
    match cellAt cells (off + j) with
    | some b => data[j]? != some b
    | none => false)

def specWriteCells (size : Nat) (cells : List (Option UInt8)) (off : Nat) (data : Bytes) :
    List (Option UInt8) :=
  (List.range size).map (fun i =>
    if off ≤ i ∧ i < off + data.length then data[i - off]? else cellAt cells i)

inductive SpecRes where
  | accepted | conflict | tooLarge | empty | closed
deriving DecidableEq, Repr

/-- write-once array write: rejected (array unchanged) on a conflicting overlap, when it would
    cross the allocated size, or when empty; otherwise the cells of `[off, off+len)` are set -/
def specWrite (size : Nat) (cells : List (Option UInt8)) (off : Nat) (data : Bytes) :
    List (Option UInt8) × SpecRes :=
  if specConflict cells off data then (cells, .conflict)
  else if off + data.length > size then (cells, .tooLarge)
  else if data.length = 0 then (cells, .empty)
  else (specWriteCells size cells off data, .accepted)

/-- the bytes a completed share holds: written cells, zeros elsewhere -/
def specData (cells : List (Option UInt8)) : Bytes := cells.map (fun c => c.getD 0)

def specWriteShare (sh : Share) (off : Nat) (data : Bytes) : Share :=
  match sh with
  | .inProgress size cells => .inProgress size (specWrite size cells off data).1
  | other => other

def specClose : Share → Share
  | .inProgress _ cells => .complete (specData cells)
  | other => other

/-- reads see completed shares only, clipped at the end of the data -/
def specRead (sh : Share) (off len : Nat) : Option Bytes :=
  match sh with
  | .complete data => some (pread data off len)
  | _ => none

/-! ### abstraction function -/

/-- the write-once cells of an upload in progress: the file byte where `_already_written` covers
    the offset, unwritten elsewhere -/
def cellsOf (w : Writer) (f : File) : List (Option UInt8) :=
  (List.range w.maxSize).map (fun i => if rmMem w.written i then f[12 + i]? else none)

def absShare (s : Server) (k : Key) : Share :=
  match getK k s.final with
  | some f => .complete (pread f 12 (shareLength f))
  | none =>
    match getK k s.incoming with
    | some (w, f) => .inProgress w.maxSize (cellsOf w f)
    | none => .absent

def toSpecRes : WriteRes → SpecRes
  | .ok _ => .accepted | .conflict => .conflict | .tooLarge => .tooLarge
  | .valueError => .empty | .closed => .closed

/-! ### invariants -/

/-- container of an upload in progress -/
structure WFInc (w : Writer) (f : File) : Prop where
  len : f.length = 12 + w.maxSize + 72
  nl : numLeases f = 1
  ver : version f = 2
  bound : ∀ x, rmMem w.written x = true → x < w.maxSize
  zero : ∀ i, i < w.maxSize → rmMem w.written i = false → f[12 + i]? = some 0

/-- container of a completed share -/
structure WFFin (f : File) : Prop where
  ver : version f = 2
  len : 12 + numLeases f * 72 ≤ f.length

structure WF (s : Server) : Prop where
  incKeys : (s.incoming.map (·.1)).Nodup
  inc : ∀ k w f, getK k s.incoming = some (w, f) → WFInc w f
  fin : ∀ k f, getK k s.final = some f → WFFin f
  disj : ∀ k, (getK k s.final).isSome → getK k s.incoming = none


/-- handle invariant: the handles (`wid`) of the writers in progress are pairwise distinct and were
    all issued (`< nextId`, never reused); the handles registered in `conns`
    (`_bucket_writer_disconnect_markers`) are pairwise distinct and were all issued.  Together with
    `WF.incKeys` (one writer per incoming file) this makes writers, incoming files and live handles
    correspond one-to-one, and a registered handle denotes either the live writer it was registered
    for or nothing (closed / aborted: a stale entry can never denote another writer). -/
structure WFH (s : Server) : Prop where
  widLt : ∀ e ∈ s.incoming, e.2.1.wid < s.nextId
  widNodup : (s.incoming.map (fun e => e.2.1.wid)).Nodup
  connLt : ∀ p ∈ s.conns, p.1 < s.nextId
  connNodup : (s.conns.map (·.1)).Nodup

/-! ### the specification's transition relation -/

/-- well-formed operation: a lease record is 72 bytes (`struct.pack(">L32s32sL", …)`) -/
def OpOk : Op → Prop
  | .alloc _ _ _ rec _ _ => rec.length = 72
  | _ => True

def FOpOk : FOp → Prop
  | .direct op => OpOk op
  | .allocConn _ _ _ _ rec _ _ => rec.length = 72
  | .disconnect _ => True
  | .restart => True

/-- One step of the specification "map (SI, shnum) → write-once byte array with an in-progress
    flag".  Handles (`wid`) are resolved to their key through the concrete writer table `s`.
    Allocation is nondeterministic (the spec does not know about disk space): any set of absent
    requested shares may start. A timeout step may drop any uploads in progress. -/
def SpecStep (s : Server) (a : Spec) (op : Op) (a' : Spec) : Prop :=
  match op with
  | .alloc si shs size _ _ _ =>
    ∀ k, a' k = a k ∨ (k.1 = si ∧ k.2 ∈ shs ∧ a k = .absent ∧
                        a' k = .inProgress size (List.replicate size none))
  | .write wid off data =>
    match findWid wid s.incoming with
    | none => ∀ k, a' k = a k
    | some e => ∀ k, a' k = if k = e.1 then specWriteShare (a e.1) off data else a k
  | .close wid =>
    match findWid wid s.incoming with
    | none => ∀ k, a' k = a k
    | some e => ∀ k, a' k = if k = e.1 then specClose (a e.1) else a k
  | .abort wid =>
    match findWid wid s.incoming with
    | none => ∀ k, a' k = a k
    | some e => ∀ k, a' k = if k = e.1 then .absent else a k
  | .advance _ =>
    ∀ k, a' k = a k ∨ (∃ size cells, a k = .inProgress size cells ∧ a' k = .absent)
  | .read _ _ _ => ∀ k, a' k = a k
  | .list _ => ∀ k, a' k = a k

/-- One step of the specification for front-end operations: a Foolscap allocation is an allocation;
    losing connection `c` makes exactly the uploads in progress whose handle is registered on `c`
    absent and changes nothing else. -/
def FSpecStep (s : Server) (a : Spec) (op : FOp) (a' : Spec) : Prop :=
  match op with
  | .direct o => SpecStep s a o a'
  | .allocConn _ si shs size _ _ _ =>
    ∀ k, a' k = a k ∨ (k.1 = si ∧ k.2 ∈ shs ∧ a k = .absent ∧
                        a' k = .inProgress size (List.replicate size none))
  | .disconnect c =>
    ∀ k, match getK k s.incoming with
      | some (w, _) => a' k = if (widsOfConn s c).contains w.wid then .absent else a k
      | none => a' k = a k
  | .restart =>
    ∀ k, a' k = match a k with
      | .inProgress _ _ => .absent
      | other => other

end Tahoe.Storage.Imm
