import Tahoe.Storage.Expire
/-! Helper lemmas for C26 (cancel loop of `process_share` under distinct cancel secrets). -/
namespace Tahoe.Storage.Expire

/-- Cancel secrets of the leases of a share are pairwise distinct. -/
def DistinctSecrets (ls : List Lease) : Prop := (ls.map (·.cancel)).Nodup

theorem DistinctSecrets.filter {ls : List Lease} (h : DistinctSecrets ls) (f : Lease → Bool) :
    DistinctSecrets (ls.filter f) := by
  unfold DistinctSecrets at *
  exact List.Nodup.sublist (List.Sublist.map _ List.filter_sublist) h

theorem DistinctSecrets.inj {ls : List Lease} (h : DistinctSecrets ls) {a b : Lease}
    (ha : a ∈ ls) (hb : b ∈ ls) (hc : a.cancel = b.cancel) : a = b := by
  unfold DistinctSecrets at h
  induction ls with
  | nil => cases ha
  | cons x xs ih =>
    simp only [List.map_cons, List.nodup_cons, List.mem_map, not_exists, not_and] at h
    simp only [List.mem_cons] at ha hb
    rcases ha with rfl | ha <;> rcases hb with rfl | hb
    · rfl
    · exact absurd hc.symm (h.1 b hb)
    · exact absurd hc (h.1 a ha)
    · exact ih h.2 ha hb

/-- The cancel loop, when every lease to cancel is on the share and no two of them share a secret:
    nothing is raised, exactly the leases carrying one of those secrets are removed, and the file
    is unlinked iff none remains (and at least one lease was cancelled). -/
theorem cancelAll_distinct (todo : List Lease) :
    ∀ (p : Bool) (cur : List Lease), (todo ≠ [] → p = true) →
      (∀ l ∈ todo, l ∈ cur) → (todo.map (·.cancel)).Nodup →
      cancelAll ⟨p, cur⟩ todo =
        (none, ⟨if todo = [] then p else !(cur.filter (fun l => !(todo.map (·.cancel)).contains l.cancel)).isEmpty,
                cur.filter (fun l => !(todo.map (·.cancel)).contains l.cancel)⟩) := by
  induction todo with
  | nil =>
    intro p cur _ _ _
    have : cur.filter (fun _ => true) = cur := List.filter_eq_self.2 (by simp)
    simp [cancelAll, this]
  | cons t ts ih =>
    intro p cur hp hsub hnd
    have hpt : p = true := hp (by simp)
    subst hpt
    have ht : t ∈ cur := hsub t (by simp)
    simp only [List.map_cons, List.nodup_cons] at hnd
    have hlen : ((cur.filter (fun l => l.cancel != t.cancel)).length == cur.length) = false := by
      have : (cur.filter (fun l => l.cancel != t.cancel)).length < cur.length := by
        apply List.length_filter_lt_length_iff_exists.mpr
        exact ⟨t, ht, by simp⟩
      simp only [beq_eq_false_iff_ne, ne_eq]; omega
    simp only [cancelAll, cancelLease, Bool.not_true, Bool.false_eq_true, ↓reduceIte, hlen]
    have hsub' : ∀ l ∈ ts, l ∈ cur.filter (fun l => l.cancel != t.cancel) := by
      intro l hl
      simp only [List.mem_filter, bne_iff_ne, ne_eq]
      refine ⟨hsub l (by simp [hl]), ?_⟩
      intro hc
      exact hnd.1 (by rw [← hc]; exact List.mem_map_of_mem hl)
    have hp' : ts ≠ [] → (!(cur.filter (fun l => l.cancel != t.cancel)).isEmpty) = true := by
      intro hts
      obtain ⟨u, hu⟩ := List.exists_mem_of_ne_nil ts hts
      have := hsub' u hu
      cases hcf : cur.filter (fun l => l.cancel != t.cancel) with
      | nil => rw [hcf] at this; cases this
      | cons _ _ => rfl
    rw [ih _ _ hp' hsub' hnd.2]
    have hfil : (cur.filter (fun l => l.cancel != t.cancel)).filter (fun l => !(ts.map (·.cancel)).contains l.cancel)
        = cur.filter (fun l => !((t :: ts).map (·.cancel)).contains l.cancel) := by
      rw [List.filter_filter]
      apply List.filter_congr
      intro l _
      simp only [List.map_cons, List.contains_cons, Bool.not_or]
      rw [Bool.and_comm]
      congr 1
    by_cases hts : ts = []
    · subst hts
      have h1 : (cur.filter (fun l => l.cancel != t.cancel)).filter (fun l => !(([] : List Lease).map (·.cancel)).contains l.cancel)
          = cur.filter (fun l => l.cancel != t.cancel) := List.filter_eq_self.2 (by simp)
      rw [← hfil, h1]; simp
    · rw [hfil]; simp [hts]

end Tahoe.Storage.Expire
