import Tahoe.Storage.Expire
/-! Helper lemmas for C26 (cancel loop of `process_share` under distinct cancel secrets). -/
namespace Tahoe.Storage.Expire

theorem DistinctSecrets.filter {ls : List Lease} (h : DistinctSecrets ls) (f : Lease → Bool) :
    DistinctSecrets (ls.filter f) := by
  unfold DistinctSecrets at *
  exact List.Nodup.sublist (List.Sublist.map _ List.filter_sublist) h

theorem DistinctSecrets.inj {ls : List Lease} (h : DistinctSecrets ls) {a b : Lease}
    (ha : a ∈ ls) (hb : b ∈ ls) (hc : a.cancel = b.cancel) : a = b := by
  unfold DistinctSecrets at h
  induction ls with
  | nil => cases ha
  | cons x xs ih =>
    simp only [List.map_cons, List.nodup_cons, List.mem_map, not_exists, not_and] at h
    simp only [List.mem_cons] at ha hb
    rcases ha with rfl | ha <;> rcases hb with rfl | hb
    · rfl
    · exact absurd hc.symm (h.1 b hb)
    · exact absurd hc (h.1 a ha)
    · exact ih h.2 ha hb

/-- The cancel loop, when every lease to cancel is on the share and no two of them share a secret:
    nothing is raised, exactly the leases carrying one of those secrets are removed, and the file
    is unlinked iff none remains (and at least one lease was cancelled). -/
theorem cancelAll_distinct (todo : List Lease) :
    ∀ (p : Bool) (cur : List Lease), (todo ≠ [] → p = true) →
      (∀ l ∈ todo, l ∈ cur) → (todo.map (·.cancel)).Nodup →
      cancelAll ⟨p, cur⟩ todo =
        (none, ⟨if todo = [] then p else !(cur.filter (fun l => !(todo.map (·.cancel)).contains l.cancel)).isEmpty,
                cur.filter (fun l => !(todo.map (·.cancel)).contains l.cancel)⟩) := by
  induction todo with
  | nil =>
    intro p cur _ _ _
    have : cur.filter (fun _ => true) = cur := List.filter_eq_self.2 (by simp)
    simp [cancelAll, this]
  | cons t ts ih =>
    intro p cur hp hsub hnd
    have hpt : p = true := hp (by simp)
    subst hpt
    have ht : t ∈ cur := hsub t (by simp)
    simp only [List.map_cons, List.nodup_cons] at hnd
    have hlen : ((cur.filter (fun l => l.cancel != t.cancel)).length == cur.length) = false := by
      have : (cur.filter (fun l => l.cancel != t.cancel)).length < cur.length := by
        apply List.length_filter_lt_length_iff_exists.mpr
        exact ⟨t, ht, by simp⟩
      simp only [beq_eq_false_iff_ne, ne_eq]; omega
    simp only [cancelAll, cancelLease, Bool.not_true, Bool.false_eq_true, ↓reduceIte, hlen]
    have hsub' : ∀ l ∈ ts, l ∈ cur.filter (fun l => l.cancel != t.cancel) := by
      intro l hl
      simp only [List.mem_filter, bne_iff_ne, ne_eq]
      refine ⟨hsub l (by simp [hl]), ?_⟩
      intro hc
      exact hnd.1 (by rw [← hc]; exact List.mem_map_of_mem hl)
    have hp' : ts ≠ [] → (!(cur.filter (fun l => l.cancel != t.cancel)).isEmpty) = true := by
      intro hts
      obtain ⟨u, hu⟩ := List.exists_mem_of_ne_nil ts hts
      have := hsub' u hu
      cases hcf : cur.filter (fun l => l.cancel != t.cancel) with
      | nil => rw [hcf] at this; cases this
      | cons _ _ => rfl
    rw [ih _ _ hp' hsub' hnd.2]
    have hfil : (cur.filter (fun l => l.cancel != t.cancel)).filter (fun l => !(ts.map (·.cancel)).contains l.cancel)
        = cur.filter (fun l => !((t :: ts).map (·.cancel)).contains l.cancel) := by
      rw [List.filter_filter]
      apply List.filter_congr
      intro l _
      simp only [List.map_cons, List.contains_cons, Bool.not_or]
      rw [Bool.and_comm]
      congr 1
    by_cases hts : ts = []
    · subst hts
      have h1 : (cur.filter (fun l => l.cancel != t.cancel)).filter (fun l => !(([] : List Lease).map (·.cancel)).contains l.cancel)
          = cur.filter (fun l => l.cancel != t.cancel) := List.filter_eq_self.2 (by simp)
      rw [← hfil, h1]; simp
    · rw [hfil]; simp [hts]

/-- `process_bucket` over shares none of which makes `process_share` raise: every share file of the
    bucket is processed, in order. -/
theorem processBucketAux_noraise (cfg : Config) (now : Int) (shares : List (ShareType × List Lease)) :
    ∀ acc, (∀ sh ∈ shares, (processShare cfg now sh.1 sh.2).raised = none) →
      processBucketAux cfg now shares acc =
        { shares := acc.reverse ++ shares.map (fun sh => (sh.1, processShare cfg now sh.1 sh.2)), raised := false } := by
  induction shares with
  | nil => intro acc _; simp [processBucketAux]
  | cons sh rest ih =>
    intro acc h
    obtain ⟨ty, ls⟩ := sh
    have h1 : (processShare cfg now ty ls).raised = none := h (ty, ls) List.mem_cons_self
    simp only [processBucketAux, h1, Option.isSome_none, Bool.false_eq_true, if_false]
    rw [ih _ (fun s hs => h s (List.mem_cons_of_mem _ hs))]
    simp

/-! ### the lease-age histogram across the state file -/

theorem mem_histInsert (e x : HistKey × Nat) (l : Hist) : x ∈ histInsert e l ↔ x = e ∨ x ∈ l := by
  induction l with
  | nil => simp [histInsert]
  | cons y r ih =>
    simp only [histInsert]
    split
    · simp
    · simp only [List.mem_cons, ih]
      constructor
      · rintro (h | h | h) <;> simp [h]
      · rintro (h | h | h) <;> simp [h]

theorem mem_histSorted (h : Hist) (x : HistKey × Nat) : x ∈ h.foldr histInsert [] ↔ x ∈ h := by
  induction h with
  | nil => simp
  | cons e r ih => simp only [List.foldr_cons, mem_histInsert, ih, List.mem_cons]

theorem keys_histInsert (e : HistKey × Nat) (l : Hist) (k : HistKey) :
    k ∈ (histInsert e l).map (·.1) ↔ k = e.1 ∨ k ∈ l.map (·.1) := by
  simp only [List.mem_map, mem_histInsert]
  constructor
  · rintro ⟨x, (rfl | hx), rfl⟩
    · exact Or.inl rfl
    · exact Or.inr ⟨x, hx, rfl⟩
  · rintro (rfl | ⟨x, hx, rfl⟩)
    · exact ⟨e, Or.inl rfl, rfl⟩
    · exact ⟨x, Or.inr hx, rfl⟩

theorem nodup_histInsert (e : HistKey × Nat) (l : Hist) (hk : e.1 ∉ l.map (·.1)) (hn : (l.map (·.1)).Nodup) :
    ((histInsert e l).map (·.1)).Nodup := by
  induction l with
  | nil => simp [histInsert]
  | cons y r ih =>
    simp only [List.map_cons, List.nodup_cons, List.mem_cons, not_or] at hk hn
    simp only [histInsert]
    split
    · simp only [List.map_cons, List.nodup_cons, List.mem_cons, not_or]
      exact ⟨⟨hk.1, hk.2⟩, hn.1, hn.2⟩
    · simp only [List.map_cons, List.nodup_cons]
      refine ⟨?_, ih hk.2 hn.2⟩
      rw [keys_histInsert]
      rintro (h | h)
      · exact hk.1 h.symm
      · exact hn.1 h

theorem nodup_histSorted (h : Hist) (hn : (h.map (·.1)).Nodup) : ((h.foldr histInsert []).map (·.1)).Nodup := by
  induction h with
  | nil => simp
  | cons e r ih =>
    simp only [List.map_cons, List.nodup_cons] at hn
    simp only [List.foldr_cons]
    apply nodup_histInsert _ _ _ (ih hn.2)
    intro hk
    obtain ⟨x, hx, hxe⟩ := List.mem_map.1 hk
    exact hn.1 (List.mem_map.2 ⟨x, (mem_histSorted r x).1 hx, hxe⟩)

theorem dictSet_new (d : Hist) (k : HistKey) (v : Nat) (hk : k ∉ d.map (·.1)) : dictSet d k v = d ++ [(k, v)] := by
  unfold dictSet
  have : d.any (fun e => e.1 == k) = false := by
    rw [List.any_eq_false]
    intro x hx hh
    exact hk (List.mem_map.2 ⟨x, hx, by simpa using hh⟩)
  simp [this]

/-- rebuilding a dict from a list of distinct keys gives exactly that list -/
theorem fromJson_distinct (l : Hist) : ∀ (acc : Hist), ((acc ++ l).map (·.1)).Nodup →
    (l.map (fun e => (e.1.1, e.1.2, e.2))).foldl (fun d t => dictSet d (t.1, t.2.1) t.2.2) acc = acc ++ l := by
  induction l with
  | nil => intro acc _; simp
  | cons e r ih =>
    intro acc hn
    simp only [List.map_cons, List.foldl_cons]
    have hk : e.1 ∉ acc.map (·.1) := by
      intro hin
      rw [List.map_append, List.nodup_append] at hn
      exact (hn.2.2 e.1 hin e.1 (by simp)) rfl
    have he : ((e.1.1, e.1.2) : HistKey) = e.1 := rfl
    rw [he, dictSet_new acc e.1 e.2 hk]
    have : acc ++ [(e.1, e.2)] = acc ++ [e] := rfl
    rw [this, ih (acc ++ [e]) (by simpa [List.append_assoc] using hn)]
    simp

/-- what a crawler created from a mid-cycle state file holds: the same dict, keys in sorted order -/
theorem hist_reload (h : Hist) (hn : (h.map (·.1)).Nodup) :
    histFromJson (histToJson h) = h.foldr histInsert [] := by
  unfold histFromJson histToJson
  have := fromJson_distinct (h.foldr histInsert []) [] (by simpa using nodup_histSorted h hn)
  simpa using this

/-! ### tahoe.cfg → configuration -/

theorem configFromSettings_ok (s : Settings) (cfg : Config) (h : configFromSettings s = .ok cfg) :
    cfg.enabled = s.enabled.getD false ∧ cfg.expImmutable = s.immutable.getD true ∧
    cfg.expMutable = s.mutable.getD true ∧
    ((∃ d, s.cutoffDate = some d ∧ cfg.mode = .cutoff d ∧ (s.mode = some "cutoff-date")) ∨
     (cfg.mode = .age s.overrideDuration ∧ (s.mode = some "age" ∨ (s.mode = none ∧ s.enabled.getD false = false)))) := by
  unfold configFromSettings at h
  dsimp only at h
  split at h
  · cases h
  · rename_i m hm
    have hmode : s.mode = some m ∨ (s.mode = none ∧ m = "age" ∧ s.enabled.getD false = false) := by
      split at hm
      · exact Or.inl hm
      · rename_i hen
        cases hsm : s.mode with
        | none => rw [hsm] at hm; simp at hm; exact Or.inr ⟨rfl, hm.symm, by simpa using hen⟩
        | some x => rw [hsm] at hm; simp at hm; exact Or.inl (by rw [hm])
    split at h
    · rename_i hcut
      split at h
      · cases h
      · rename_i d hd
        cases h
        refine ⟨rfl, rfl, rfl, Or.inl ⟨d, hd, rfl, ?_⟩⟩
        rcases hmode with h1 | ⟨_, h2, _⟩
        · rw [h1, hcut]
        · rw [hcut] at h2; exact absurd h2 (by decide)
    · split at h
      · rename_i hage
        cases h
        refine ⟨rfl, rfl, rfl, Or.inr ⟨rfl, ?_⟩⟩
        rcases hmode with h1 | ⟨h1, _, h3⟩
        · exact Or.inl (by rw [h1, hage])
        · exact Or.inr ⟨h1, h3⟩
      · cases h

/-! ### the documented predicate and the cancel loop together -/

/-- The constants the live source uses are the documented 31 days: the renewal-time hack of
    `LeaseInfo.get_grant_renew_time_time` and the duration the server grants. -/
theorem grant_renew_offset_is_31_days :
    (Tahoe.Generated.Gc.lease_grant_renew_offset : Int) = leaseDuration ∧
    (Tahoe.Generated.Gc.server_lease_duration : Int) = leaseDuration := by
  decide

/-- The (repaired) mode test of `process_share` is the documented predicate. -/
theorem modeExpired_iff_doc (cfg : Config) (now : Int) (l : Lease) :
    modeExpired cfg now l = true ↔ DocExpired cfg now l := by
  have h := grant_renew_offset_is_31_days.1
  unfold modeExpired DocExpired age renewTime lastRenewal grantRenewOffset
  rw [h]
  cases cfg.mode with
  | age ov => cases ov <;> simp <;> omega
  | cutoff d => simp

/-- With expiration enabled, on a share that has at least one lease and whose leases carry
    pairwise distinct cancel secrets: the crawler raises nothing, cancels exactly the leases that
    are expired under the DOCUMENTED predicate (and only when the share type is enabled), and
    removes the share file iff its type is enabled and every lease is expired. -/
theorem processShare_wellformed (cfg : Config) (now : Int) (ty : ShareType) (leases : List Lease)
    (hon : cfg.enabled = true) (hne : leases ≠ []) (hds : DistinctSecrets leases) :
    let r := processShare cfg now ty leases
    r.raised = none ∧
    r.share.leases = leases.filter (fun l => !(typeEnabled cfg ty && decide (DocExpired cfg now l))) ∧
    (r.removed = true ↔ typeEnabled cfg ty = true ∧ ∀ l ∈ leases, DocExpired cfg now l) := by
  have hexp : ∀ l, expired cfg now ty l = (typeEnabled cfg ty && decide (DocExpired cfg now l)) := by
    intro l
    unfold expired
    cases hte : typeEnabled cfg ty
    · simp
    · simp only [if_true, Bool.true_and]
      by_cases hd : DocExpired cfg now l
      · simp [hd, (modeExpired_iff_doc cfg now l).2 hd]
      · have : modeExpired cfg now l = false := by
          cases hm : modeExpired cfg now l
          · rfl
          · exact absurd ((modeExpired_iff_doc cfg now l).1 hm) hd
        simp [hd, this]
  -- the leases left after the loop are those whose secret is not among the expired ones
  have hkeep : leases.filter (fun l => !((leases.filter (expired cfg now ty)).map (·.cancel)).contains l.cancel)
      = leases.filter (fun l => !(expired cfg now ty l)) := by
    apply List.filter_congr
    intro l hl
    congr 1
    cases he : expired cfg now ty l
    · apply Bool.eq_false_iff.2
      intro hc
      simp only [List.contains_eq_mem, List.mem_map, List.mem_filter, decide_eq_true_eq] at hc
      obtain ⟨m, ⟨hm, hme⟩, hmc⟩ := hc
      have := hds.inj hm hl hmc
      subst this
      rw [he] at hme; cases hme
    · simp only [List.contains_eq_mem, List.mem_map, List.mem_filter, decide_eq_true_eq]
      exact ⟨l, ⟨hl, he⟩, rfl⟩
  have hca := cancelAll_distinct (leases.filter (expired cfg now ty)) true leases (fun _ => rfl)
    (fun l hl => (List.mem_filter.1 hl).1) (hds.filter _)
  rw [hkeep] at hca
  have hfun : (fun l => !(expired cfg now ty l)) = (fun l => !(typeEnabled cfg ty && decide (DocExpired cfg now l))) := by
    funext l; rw [hexp]
  simp only [processShare, hon, if_true, hca, ShareResult.removed]
  refine ⟨trivial, by rw [hfun], ?_⟩
  by_cases hnone : leases.filter (expired cfg now ty) = []
  · -- nothing expired: file stays; and not every lease is expired since there is one
    simp only [hnone, if_true, Bool.not_true, Bool.false_eq_true, false_iff, not_and]
    intro hte hall
    obtain ⟨l, hl⟩ := List.exists_mem_of_ne_nil leases hne
    have : l ∈ leases.filter (expired cfg now ty) := by
      rw [List.mem_filter, hexp, hte]; simp [hl, hall l hl]
    rw [hnone] at this; cases this
  · simp only [hnone, if_false, Bool.not_not, List.isEmpty_iff]
    rw [List.filter_eq_nil_iff]
    constructor
    · intro h
      have hte : typeEnabled cfg ty = true := by
        obtain ⟨l, hl⟩ := List.exists_mem_of_ne_nil _ hnone
        have := (List.mem_filter.1 hl).2
        rw [hexp] at this
        exact (Bool.and_eq_true_iff.1 this).1
      refine ⟨hte, ?_⟩
      intro l hl
      have := h l hl
      rw [hexp, hte] at this
      simpa using this
    · intro ⟨hte, hall⟩ l hl
      rw [hexp, hte]; simp [hall l hl]

end Tahoe.Storage.Expire
