import Tahoe.Storage.ImmDirLemmas
/-! The written-range map of a BucketWriter is sorted, disjoint and non-adjacent, hence
    `_is_finished()` (sum of the range lengths == allocated size) holds exactly when every byte of
    the allocated size has been written.  Mathlib-free. -/
namespace Tahoe.Storage.Imm
open Tahoe.Base.File

/-- ranges are non-empty, start at or after `lo`, ascending, with a gap of at least one between
    neighbours (RangeMap merges equal-valued neighbours) -/
def RSorted : Nat → Ranges → Prop
  | _, [] => True
  | lo, (s, e) :: rest => lo ≤ s ∧ s < e ∧ RSorted (e + 1) rest

theorem rsorted_mono {lo lo' : Nat} (h : lo' ≤ lo) : ∀ {w : Ranges}, RSorted lo w → RSorted lo' w
  | [], _ => trivial
  | (_, _) :: _, hw => ⟨Nat.le_trans h hw.1, hw.2.1, hw.2.2⟩

theorem rsorted_rmSet (w : Ranges) (lo a b : Nat) (hw : RSorted lo w) (hlo : lo ≤ a) (hab : a < b) :
    RSorted lo (rmSet w a b) := by
  induction w generalizing lo a b with
  | nil => exact ⟨hlo, hab, trivial⟩
  | cons r rest ih =>
    obtain ⟨s, e⟩ := r
    obtain ⟨h1, h2, h3⟩ := hw
    simp only [rmSet]
    split
    · exact ⟨h1, h2, ih (e + 1) a b h3 (by omega) hab⟩
    · split
      · exact ⟨hlo, hab, by omega, h2, h3⟩
      · exact ih lo (min s a) (max e b) (rsorted_mono (by omega) h3) (by omega) (by omega)

theorem rsorted_mem_ge (w : Ranges) (lo x : Nat) (hw : RSorted lo w) (hx : rmMem w x = true) : lo ≤ x := by
  induction w generalizing lo with
  | nil => simp [rmMem] at hx
  | cons r rest ih =>
    obtain ⟨s, e⟩ := r
    obtain ⟨h1, h2, h3⟩ := hw
    rw [rmMem_cons] at hx
    simp only [Bool.or_eq_true, Bool.and_eq_true, decide_eq_true_eq] at hx
    rcases hx with hx | hx
    · omega
    · have := ih (e + 1) h3 hx; omega

theorem rmTotal_cons (r : Nat × Nat) (w : Ranges) : rmTotal (r :: w) = (r.2 - r.1) + rmTotal w := by
  simp [rmTotal]

/-- total length of sorted, gapped ranges below `hi`: at most `hi - lo`, with equality only for the
    single range `[lo, hi)` -/
theorem rmTotal_le (w : Ranges) (lo hi : Nat) (hw : RSorted lo w) (hb : ∀ r ∈ w, r.2 ≤ hi) :
    rmTotal w ≤ hi - lo ∧ (rmTotal w = hi - lo → w = [(lo, hi)] ∨ (w = [] ∧ hi ≤ lo)) := by
  induction w generalizing lo with
  | nil => simp [rmTotal]; omega
  | cons r rest ih =>
    obtain ⟨s, e⟩ := r
    obtain ⟨h1, h2, h3⟩ := hw
    have he : e ≤ hi := hb (s, e) List.mem_cons_self
    have hr := ih (e + 1) h3 (fun r hr => hb r (List.mem_cons_of_mem _ hr))
    rw [rmTotal_cons]
    simp only
    cases rest with
    | nil =>
      simp only [rmTotal, List.map_nil, List.sum_nil, Nat.add_zero]
      refine ⟨by omega, fun heq => Or.inl ?_⟩
      have : s = lo ∧ e = hi := by omega
      rw [this.1, this.2]
    | cons r2 rest2 =>
      obtain ⟨s2, e2⟩ := r2
      have h32 := h3
      obtain ⟨g1, g2, _⟩ := h32
      have he2 : e2 ≤ hi := hb (s2, e2) (by simp)
      have := hr.1
      refine ⟨by omega, fun heq => ?_⟩
      omega

/-- `_is_finished()` ⇔ every byte of the allocated size is covered by the written ranges -/
theorem finished_iff_covered (w : Ranges) (size : Nat) (hw : RSorted 0 w)
    (hb : ∀ x, rmMem w x = true → x < size) :
    (rmTotal w == size) = true ↔ ∀ i, i < size → rmMem w i = true := by
  have hends : ∀ r ∈ w, r.2 ≤ size := by
    intro r hr
    -- every range of a sorted list is non-empty, so its last point is a member
    have hne : ∀ (lo : Nat) (w : Ranges), RSorted lo w → ∀ r ∈ w, r.1 < r.2 := by
      intro lo w
      induction w generalizing lo with
      | nil => simp
      | cons q rest ih =>
        obtain ⟨s, e⟩ := q
        intro h r hr
        rcases List.mem_cons.mp hr with rfl | hr'
        · exact h.2.1
        · exact ih (e + 1) h.2.2 r hr'
    have hlt := hne 0 w hw r hr
    have := hb (r.2 - 1) ((rmMem_iff _ _).mpr ⟨r, hr, by omega, by omega⟩)
    omega
  have tot := rmTotal_le w 0 size hw hends
  simp only [Nat.sub_zero, beq_iff_eq] at tot ⊢
  constructor
  · intro heq i hi
    rcases tot.2 heq with h | ⟨_, h⟩
    · subst h; simp [rmMem]; omega
    · omega
  · intro hall
    cases w with
    | nil =>
      cases size with
      | zero => simp [rmTotal]
      | succ n => have := hall 0 (by omega); simp [rmMem] at this
    | cons r rest =>
      obtain ⟨s, e⟩ := r
      obtain ⟨h1, h2, h3⟩ := hw
      have hes : e ≤ size := hends (s, e) List.mem_cons_self
      have hsz : 0 < size := by omega
      -- point 0 is covered, and not by the rest (which starts after e)
      have h0 := hall 0 hsz
      rw [rmMem_cons] at h0
      simp only [Bool.or_eq_true, Bool.and_eq_true, decide_eq_true_eq] at h0
      have hs0 : s = 0 := by
        rcases h0 with h0 | h0
        · omega
        · have := rsorted_mem_ge rest (e + 1) 0 h3 h0; omega
      -- point e is not covered by (s,e) nor by the rest, so e = size
      have hee : e = size := by
        apply Classical.byContradiction
        intro hne
        have hcov := hall e (by omega)
        rw [rmMem_cons] at hcov
        simp only [Bool.or_eq_true, Bool.and_eq_true, decide_eq_true_eq] at hcov
        rcases hcov with hc | hc
        · omega
        · have := rsorted_mem_ge rest (e + 1) e h3 hc; omega
      cases rest with
      | nil => simp [rmTotal, hs0, hee]
      | cons r2 rest2 =>
        obtain ⟨s2, e2⟩ := r2
        obtain ⟨g1, g2, _⟩ := h3
        have := hends (s2, e2) (by simp)
        omega

/-- reachable-state invariant: every writer's range map is sorted and gapped -/
def WFR (s : Server) : Prop := ∀ e ∈ s.incoming, RSorted 0 e.2.1.written

theorem bwWrite_rsorted (w : Writer) (f : File) (off : Nat) (data : Bytes) (h : RSorted 0 w.written) :
    RSorted 0 (bwWrite w f off data).1.written := by
  simp only [bwWrite]
  split
  · exact h
  · split
    · exact h
    · split
      · exact h
      · rename_i h0
        exact rsorted_rmSet _ 0 _ _ h (Nat.zero_le _) (by omega)

theorem allocLoop_written (si size : Nat) (rec : Bytes) (shs : List Nat) (s : Server) (rem : Int)
    (e : Key × (Writer × File)) (he : e ∈ (allocLoop si size rec s rem shs).1.incoming) :
    e ∈ s.incoming ∨ e.2.1.written = [] := by
  induction shs generalizing s rem with
  | nil => left; simpa [allocLoop] using he
  | cons sh rest ih =>
    by_cases c1 : (getK (si, sh) s.final).isSome = true
    · simp only [allocLoop, c1, ↓reduceIte] at he; exact ih s rem he
    · by_cases c2 : (getK (si, sh) s.incoming).isSome = true
      · simp only [allocLoop, c1, c2, ↓reduceIte] at he; exact ih s rem he
      · by_cases c3 : s.readonly = true
        · simp only [allocLoop, c1, c2, c3, ↓reduceIte] at he; exact ih s rem he
        · by_cases c4 : rem ≥ (size : Int)
          · simp only [allocLoop, c1, c2, c3, c4, ↓reduceIte] at he
            rcases ih _ _ he with h1 | h1
            · simp only [List.mem_cons] at h1
              rcases h1 with rfl | h1
              · right; rfl
              · left; exact h1
            · right; exact h1
          · simp only [allocLoop, c1, c2, c3, c4, ↓reduceIte] at he; exact ih s rem he

theorem wfr_allocate (s : Server) (h : WFR s) (si : Nat) (shs : List Nat) (size : Nat) (rec : Bytes)
    (free : Nat) (order : List Nat) : WFR (allocate s si shs size rec free order).1 := by
  simp only [allocate, allocateWith]
  generalize leaseLoop (availableSpace s free) rec si s.final order = ll
  obtain ⟨fin', err⟩ := ll
  cases err with
  | some x => exact h
  | none =>
    intro e he
    rcases allocLoop_written si size rec shs _ _ e he with h1 | h1
    · exact h e h1
    · rw [h1]; trivial

theorem wfr_of_sublist {s s' : Server} (h : WFR s) (hi : s'.incoming.Sublist s.incoming) : WFR s' :=
  fun e he => h e (hi.subset he)

theorem wfr_abortOp (s : Server) (h : WFR s) (wid : Nat) : WFR (abortOp s wid) := by
  simp only [abortOp]
  cases hf : findWid wid s.incoming with
  | none => exact h
  | some e => obtain ⟨k, v⟩ := e; exact wfr_of_sublist h List.filter_sublist

theorem wfr_foldl_abort (wids : List Nat) (s : Server) (h : WFR s) : WFR (wids.foldl abortOp s) := by
  induction wids generalizing s with
  | nil => exact h
  | cons w rest ih => simp only [List.foldl_cons]; exact ih _ (wfr_abortOp s h w)

theorem wfr_fstep (s : Server) (h : WFR s) (op : FOp) : WFR (fstep s op) := by
  cases op with
  | allocConn c si shs size rec free order =>
    intro e he
    simp only [fstep, (allocateConn_fields s c si shs size rec free order).2] at he
    exact wfr_allocate s h si shs size rec free order e he
  | disconnect c => exact wfr_foldl_abort _ s h
  | restart => intro e he; simp [fstep, restartOp] at he
  | direct o =>
    cases o with
    | alloc si shs size rec free order => exact wfr_allocate s h si shs size rec free order
    | write wid off data =>
      simp only [fstep, step, writeOp]
      cases hf : findWid wid s.incoming with
      | none => exact h
      | some x =>
        obtain ⟨k, w, f⟩ := x
        intro e he
        simp only [setK, List.mem_cons] at he
        rcases he with rfl | he
        · exact bwWrite_rsorted _ f off data (h _ (findWid_mem wid _ _ hf).1)
        · exact h e (List.mem_filter.mp he).1
    | close wid =>
      simp only [fstep, step, closeOp]
      cases hf : findWid wid s.incoming with
      | none => exact h
      | some x => obtain ⟨k, w, f⟩ := x; exact wfr_of_sublist h List.filter_sublist
    | abort wid => exact wfr_abortOp s h wid
    | advance dt => exact wfr_of_sublist h List.filter_sublist
    | read k off len => exact h
    | list si => exact h

theorem wfr_frun (s : Server) (h : WFR s) (ops : List FOp) : WFR (frun s ops) := by
  induction ops generalizing s with
  | nil => exact h
  | cons op rest ih => simp only [frun, List.foldl_cons]; exact ih _ (wfr_fstep s h op)

theorem bwWrite_ok (w : Writer) (f : File) (off : Nat) (data : Bytes) (b : Bool)
    (h : (bwWrite w f off data).2.2 = .ok b) :
    b = (rmTotal (bwWrite w f off data).1.written == w.maxSize) ∧ (bwWrite w f off data).1.maxSize = w.maxSize := by
  simp only [bwWrite] at h ⊢
  split at h
  · simp at h
  · split at h
    · simp at h
    · split at h
      · simp at h
      · rename_i h1 h2 h3
        simp only [h1, h2, h3, ↓reduceIte]
        simp only [WriteRes.ok.injEq] at h
        exact ⟨h.symm, rfl⟩

end Tahoe.Storage.Imm
