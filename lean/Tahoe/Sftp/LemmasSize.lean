import Tahoe.Sftp.LemmasClient
/-! `set_current_size` keeps the invariant (no read is pending: caller contract). -/
namespace Tahoe.Sftp

/-- `set_current_size` in one piece: truncate, extend through `overwrite`, set the sizes, maybe finish -/
theorem setSize_eq (s : St) (size : Nat) :
    setSize s size =
      (let s1 : St := { s with f := if size < s.cs ∨ size < s.dl then ftruncate s.f size else s.f }
       let s2 : St := if size > s.cs then overwrite s1 s.cs (zeros (size - s.cs)) else s1
       let s3 : St := { s2 with cs := size, ds := if size < s.ds then size else s.ds }
       if s.dl ≥ s3.ds then downloadDone s3 true else s3) := by
  unfold setSize
  by_cases h1 : size < s.cs ∨ size < s.dl <;> by_cases h2 : size > s.cs <;> simp [h1, h2, overwrite]

theorem refSize_eq_refWrite (ref : Bytes) (size : Nat) (h : ref.length < size) :
    ref.take size ++ zeros (size - ref.length) = refWrite ref ref.length (zeros (size - ref.length)) := by
  apply List.ext_getElem?
  intro i
  rw [refWrite_getElem?]
  simp only [List.getElem?_append, List.getElem?_take, List.length_take, zeros_getElem?, zeros_length]
  grind

theorem finish_inv (orig ref : Bytes) (s3 : St) (h : Inv orig ref s3) :
    Inv orig ref (if s3.dl ≥ s3.ds then downloadDone s3 true else s3) := by
  split
  · rename_i hge
    obtain ⟨ff, fdl, fds, fcs, fow, fcl, fpos⟩ := downloadDone_fields s3 true
    exact ⟨downloadDone_inv0 orig ref s3 true h.toInv0 (fun _ _ => Or.inr (fun i hi => Or.inl (by omega))),
      by rw [ff, fcs]; exact h.flen, by rw [fcl, fdl, fds, fpos]; exact h.C⟩
  · exact h

theorem setSize_inv (orig ref : Bytes) (s : St) (size : Nat) (h : Inv orig ref s)
    (hms : s.ms = []) (hq : s.queue = []) :
    Inv orig (ref.take size ++ zeros (size - ref.length)) (setSize s size) := by
  rw [setSize_eq]
  have hrl := h.reflen
  have hdscs := h.dscs
  have hflen := h.flen
  by_cases hgrow : size > s.cs
  · -- extension: (maybe) truncate, then overwrite with zeroes from the old end
    simp only [hgrow, ↓reduceIte]
    have hds : ¬ size < s.ds := by omega
    simp only [hds, ↓reduceIte]
    generalize hf1 : (if size < s.cs ∨ size < s.dl then ftruncate s.f size else s.f) = f1
    have hf1get : ∀ i, i < s.f.length → f1[i]? = s.f[i]? := by
      intro i hi
      rw [← hf1]
      split
      · rw [ftruncate_getElem?]; simp [hi]; omega
      · rfl
    have hf1len : f1.length ≤ size := by
      rw [← hf1]; split
      · simp
      · omega
    have h1 : Inv0 orig ref { s with f := f1 } := by
      refine ⟨h.reflen, h.dscs, h.dsorig, ?_, h.B, h.sorted, h.D, h.ms, h.q, h.qf⟩
      intro i hi hk
      have := known_lt orig ref s h.toInv0 i hi hk
      show f1[i]? = ref[i]?
      rw [hf1get i this.1]; exact this.2
    have h2 := overwrite_inv0 orig ref { s with f := f1 } s.cs (zeros (size - s.cs)) h1 hms hq
      (fun hx => by simp at hx)
    rw [refSize_eq_refWrite ref size (by omega), hrl]
    obtain ⟨fdl, fds, fcs, fms, fq, fdone, fcl, fpos⟩ := overwrite_fields { s with f := f1 } s.cs (zeros (size - s.cs))
    have hcs : (overwrite { s with f := f1 } s.cs (zeros (size - s.cs))).cs = size := by
      rw [fcs]; simp; omega
    refine finish_inv orig _ { overwrite { s with f := f1 } s.cs (zeros (size - s.cs)) with cs := size, ds := s.ds } ?_
    have h3 : Inv0 orig (refWrite ref s.cs (zeros (size - s.cs)))
        { overwrite { s with f := f1 } s.cs (zeros (size - s.cs)) with cs := size, ds := s.ds } :=
      inv0_of_mono orig _ _ _ h2.1 (by rw [fds]) (by rw [hcs]) rfl rfl rfl rfl (fun i x => by
          simpa [known, fds] using x)
        (fun i hi hk => h2.1.A i (by rw [hcs]; exact hi) (by simpa [known, fds] using hk)) h2.1.sorted
    refine ⟨h3, ?_, ?_⟩
    · have := h2.2
      simp only [zeros_length] at this
      show (overwrite { s with f := f1 } s.cs (zeros (size - s.cs))).f.length ≤ size
      have hx : ({ s with f := f1 } : St).f.length = f1.length := rfl
      have hy : ({ s with f := f1 } : St).cs = s.cs := rfl
      omega
    · intro hc hlt
      show (overwrite { s with f := f1 } s.cs (zeros (size - s.cs))).pos
        = (overwrite { s with f := f1 } s.cs (zeros (size - s.cs))).dl
      rw [fpos, fdl]
      exact h.C (by rw [← fcl]; exact hc) (by rw [← fdl]; exact hlt)
  · -- truncation (or no change of size)
    simp only [hgrow, ↓reduceIte]
    generalize hds' : (if size < s.ds then size else s.ds) = ds'
    have hds1 : ds' ≤ s.ds ∧ ds' ≤ size ∧ (ds' = s.ds ∨ ds' = size) := by rw [← hds']; split <;> omega
    generalize hf1 : (if size < s.cs ∨ size < s.dl then ftruncate s.f size else s.f) = f1
    have hf1get : ∀ i, i < s.f.length → i < size → f1[i]? = s.f[i]? := by
      intro i hi hi2
      rw [← hf1]
      split
      · rw [ftruncate_getElem?]; simp [hi, hi2]
      · rfl
    have hf1len : f1.length ≤ size := by
      rw [← hf1]; split
      · simp
      · omega
    have hrget : ∀ i, i < size → (ref.take size ++ zeros (size - ref.length))[i]? = ref[i]? := by
      intro i hi
      simp only [List.getElem?_append, List.getElem?_take, List.length_take]
      grind
    have hkn : ∀ i, i < size → (known { s with f := f1, cs := size, ds := ds' } i ↔ known s i) := by
      intro i hi
      simp only [known]
      constructor
      · rintro (a | a | a)
        · exact Or.inl a
        · exact Or.inr (Or.inl (by omega))
        · exact Or.inr (Or.inr a)
      · rintro (a | a | a)
        · exact Or.inl a
        · exact Or.inr (Or.inl (by show ds' ≤ i; omega))
        · exact Or.inr (Or.inr a)
    refine finish_inv orig _ { s with f := f1, cs := size, ds := ds' } ?_
    refine ⟨⟨(by simp; omega), hds1.2.1, (by have := h.dsorig; show ds' ≤ orig.length; omega), ?_, ?_, h.sorted, ?_,
      (by intro r hr; rw [show ({ s with f := f1, cs := size, ds := ds' } : St).ms = s.ms from rfl, hms] at hr; cases hr),
      (by intro r hr; rw [show ({ s with f := f1, cs := size, ds := ds' } : St).queue = s.queue from rfl, hq] at hr; cases hr),
      (by intro r hr; rw [show ({ s with f := f1, cs := size, ds := ds' } : St).queue = s.queue from rfl, hq] at hr; cases hr)⟩,
      hf1len, ?_⟩
    · intro i hi hk
      have hi' : i < size := hi
      have := known_lt orig ref s h.toInv0 i (by omega) ((hkn i hi').mp hk)
      show f1[i]? = _
      rw [hrget i hi', hf1get i this.1 hi']; exact this.2
    · intro i hi hk
      have hi' : i < ds' := hi
      rw [hrget i (by omega)]
      exact h.B i (by omega) (fun x => hk ((hkn i (by omega)).mpr x))
    · intro hd
      rcases h.D hd with a | a
      · exact Or.inl a
      · exact Or.inr (fun i hi => by
          have hi' : i < ds' := hi
          exact (hkn i (by omega)).mpr (a i (by omega)))
    · intro hc hlt
      have hlt' : s.dl < ds' := hlt
      exact h.C hc (by omega)

end Tahoe.Sftp
