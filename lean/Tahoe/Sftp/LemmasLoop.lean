import Tahoe.Sftp.LemmasWrite
/-! The loop of `write` keeps the invariant (repaired variant). -/
namespace Tahoe.Sftp

/-- `data` is the original contents in `[s.dl, min next s.ds)` -/
def DataOK (orig : Bytes) (s : St) (next : Nat) (data : Bytes) : Prop :=
  data.length = min next s.ds - s.dl ∧ ∀ j, j < data.length → data[j]? = orig[s.dl + j]?

theorem dl_le_flen (orig ref : Bytes) (s : St) (h : Inv0 orig ref s) (hdl : s.dl ≤ s.cs) : s.dl ≤ s.f.length := by
  by_cases h0 : s.dl = 0
  · omega
  · have := h.A (s.dl - 1) (by omega) (Or.inl (by omega))
    have hr : (s.dl - 1) < ref.length := by rw [h.reflen]; omega
    rw [List.getElem?_eq_getElem hr] at this
    have := (List.getElem?_eq_some_iff.mp this).1
    omega

/-- writing original bytes over positions that are neither downloaded nor overwritten -/
theorem prefix_write (orig ref : Bytes) (s : St) (w : Bytes) (h : Inv0 orig ref s)
    (hw : ∀ j, j < w.length → w[j]? = orig[s.dl + j]?)
    (hds : w ≠ [] → s.dl + w.length ≤ s.ds)
    (hnc : ∀ i, s.dl ≤ i → i < s.dl + w.length → ¬ covered s.ow i) :
    (∀ i, i < s.cs → (known s i ∨ (s.dl ≤ i ∧ i < s.dl + w.length)) → (pwrite s.f s.dl w)[i]? = ref[i]?)
    ∧ (s.f.length ≤ s.cs → (pwrite s.f s.dl w).length ≤ s.cs) := by
  by_cases hwe : w = []
  · subst hwe
    refine ⟨fun i hi hk => ?_, fun hl => by simpa [pwrite] using hl⟩
    simp only [pwrite, List.isEmpty_nil, ↓reduceIte]
    rcases hk with hk | hk
    · exact h.A i hi hk
    · simp at hk; omega
  · have hds' := hds hwe
    have hdscs := h.dscs
    have hfl := dl_le_flen orig ref s h (by omega)
    refine ⟨fun i hi hk => ?_, fun hl => by rw [pwrite_length]; simp [hwe]; omega⟩
    rw [pwrite_getElem?]
    simp only [hwe, ↓reduceIte]
    by_cases h1 : i < s.dl
    · simp only [h1, ↓reduceIte, show i < s.f.length by omega]
      exact h.A i hi (Or.inl h1)
    · simp only [h1, ↓reduceIte]
      by_cases h2 : i < s.dl + w.length
      · simp only [h2, ↓reduceIte]
        have hnk : ¬ known s i := by
          intro hk'
          rcases hk' with a | a | a
          · omega
          · omega
          · exact hnc i (by omega) h2 a
        rw [h.B i (by omega) hnk, hw (i - s.dl) (by omega)]
        congr 1; omega
      · simp only [h2, ↓reduceIte]
        rcases hk with hk | hk
        · exact h.A i hi hk
        · omega

/-- a state that differs in `f`, `ow`, `dl` only, knows at least as much, and agrees with the
reference on what it knows, satisfies the invariant again -/
theorem inv0_of_mono (orig ref : Bytes) (s t : St) (h : Inv0 orig ref s)
    (e1 : t.ds = s.ds) (e2 : t.cs = s.cs) (e3 : t.ms = s.ms) (e4 : t.queue = s.queue)
    (e5 : t.done = s.done) (e6 : t.closed = s.closed)
    (mono : ∀ i, known s i → known t i)
    (hA : ∀ i, i < t.cs → known t i → t.f[i]? = ref[i]?)
    (hs : SortedOw t.ow) : Inv0 orig ref t := by
  refine ⟨by rw [e2]; exact h.reflen, by rw [e1, e2]; exact h.dscs, by rw [e1]; exact h.dsorig, hA, ?_, hs, ?_, ?_, ?_, ?_⟩
  · intro i hi hk; exact h.B i (by rwa [e1] at hi) (fun x => hk (mono i x))
  · intro hd
    rw [e6, e1]
    rcases h.D (by rwa [e5] at hd) with a | a
    · exact Or.inl a
    · exact Or.inr (fun i hi => mono i (a i hi))
  · intro r hr; rw [e2, e1]; exact h.ms r (by rwa [e3] at hr)
  · intro r hr
    rw [e6, e2]
    rcases h.q r (by rwa [e4] at hr) with a | a
    · exact Or.inl a
    · exact Or.inr ⟨a.1, fun i x y => mono i (a.2 i x y)⟩
  · intro r hr; rw [e5]; exact h.qf r (by rwa [e4] at hr)

theorem sorted_head_le (p : Nat × Nat) (l : List (Nat × Nat)) (h : SortedOw (p :: l)) :
    ∀ q ∈ p :: l, p.1 ≤ q.1 := by
  intro q hq
  simp only [SortedOw, List.pairwise_cons] at h
  rcases List.mem_cons.mp hq with rfl | hq
  · exact Nat.le_refl _
  · exact h.1 q hq

/-- `f`, `ow` replaced, then `_update_downloaded(nd)` -/
theorem upd_inv0 (orig ref : Bytes) (s : St) (f' : Bytes) (ow' : List (Nat × Nat)) (nd : Nat)
    (h : Inv0 orig ref s)
    (mono : ∀ i, known s i → known { s with f := f', ow := ow', dl := nd } i)
    (hA : ∀ i, i < s.cs → known { s with f := f', ow := ow', dl := nd } i → f'[i]? = ref[i]?)
    (hs : SortedOw ow') :
    Inv0 orig ref (updateDownloaded { s with f := f', ow := ow' } nd) := by
  have hu : updateDownloaded { s with f := f', ow := ow' } nd
      = updateDownloaded { s with f := f', ow := ow', dl := nd } nd := by
    simp [updateDownloaded]
  rw [hu]
  apply updateDownloaded_inv0 _ _ _ _ rfl
  exact inv0_of_mono orig ref s { s with f := f', ow := ow', dl := nd } h rfl rfl rfl rfl rfl rfl mono hA hs

/-- the last `seek/write/_update_downloaded` of `write`, when no recorded overwrite starts before `next` -/
theorem final_write_inv (orig ref : Bytes) (s : St) (next : Nat) (data : Bytes)
    (h : Inv0 orig ref s) (hfl : s.f.length ≤ s.cs) (hdl : s.dl ≤ next) (hd : DataOK orig s next data)
    (hall : ∀ p ∈ s.ow, next ≤ p.1) :
    Inv0 orig ref (updateDownloaded { s with f := pwrite s.f s.dl data } next)
    ∧ (updateDownloaded { s with f := pwrite s.f s.dl data } next).f.length
        ≤ (updateDownloaded { s with f := pwrite s.f s.dl data } next).cs := by
  have hpw := prefix_write orig ref s data h hd.2 (fun hne => by
      have := hd.1; have : data.length ≠ 0 := by simpa using hne
      omega)
    (fun i h1 h2 hc => by
      obtain ⟨p, hp, hp1, hp2⟩ := hc
      have := hall p hp
      have := hd.1
      omega)
  obtain ⟨ff, fdl, fds, fcs, fow, fcl, fpos, fid⟩ := updateDownloaded_fields { s with f := pwrite s.f s.dl data } next
  refine ⟨?_, by rw [ff, fcs]; exact hpw.2 hfl⟩
  have := upd_inv0 orig ref s (pwrite s.f s.dl data) s.ow next h ?_ ?_ h.sorted
  · exact this
  · intro i hk
    rcases hk with a | a | a
    · exact Or.inl (by simp; omega)
    · exact Or.inr (Or.inl a)
    · exact Or.inr (Or.inr a)
  · intro i hi hk
    apply hpw.1 i hi
    have := hd.1
    rcases hk with a | a | a
    · simp at a
      by_cases hx : i < s.dl
      · exact Or.inl (Or.inl hx)
      · by_cases hy : i < s.ds
        · exact Or.inr ⟨by omega, by omega⟩
        · exact Or.inl (Or.inr (Or.inl (by omega)))
    · exact Or.inl (Or.inr (Or.inl a))
    · exact Or.inl (Or.inr (Or.inr a))

theorem writeLoop_inv (orig ref : Bytes) (next : Nat) : ∀ (fuel : Nat) (s : St) (data : Bytes),
    Inv0 orig ref s → s.f.length ≤ s.cs → s.ow.length ≤ fuel → s.dl ≤ next → DataOK orig s next data →
    Inv0 orig ref (writeLoop .fixed next fuel s data)
    ∧ (writeLoop .fixed next fuel s data).f.length ≤ (writeLoop .fixed next fuel s data).cs
    ∧ (writeLoop .fixed next fuel s data).dl = next
    ∧ (writeLoop .fixed next fuel s data).ds = s.ds
    ∧ (writeLoop .fixed next fuel s data).cs = s.cs
    ∧ (writeLoop .fixed next fuel s data).closed = s.closed
    ∧ (writeLoop .fixed next fuel s data).pos = s.pos
    ∧ (writeLoop .fixed next fuel s data).nextId = s.nextId := by
  intro fuel
  induction fuel with
  | zero =>
    intro s data h hfl hfuel hdl hd
    have hnil : s.ow = [] := by cases hs : s.ow <;> simp_all
    have := final_write_inv orig ref s next data h hfl hdl hd (by simp [hnil])
    obtain ⟨ff, fdl, fds, fcs, fow, fcl, fpos, fid⟩ := updateDownloaded_fields { s with f := pwrite s.f s.dl data } next
    simp only [writeLoop]
    exact ⟨this.1, this.2, fdl, fds, fcs, fcl, fpos, fid⟩
  | succ fuel ih =>
    intro s data h hfl hfuel hdl hd
    obtain ⟨ff, fdl, fds, fcs, fow, fcl, fpos, fid⟩ := updateDownloaded_fields { s with f := pwrite s.f s.dl data } next
    generalize hr : writeLoop .fixed next (fuel + 1) s data = r
    simp only [writeLoop] at hr
    split at hr
    · rename_i hs
      have := final_write_inv orig ref s next data h hfl hdl hd (by simp [hs])
      subst hr
      exact ⟨this.1, this.2, fdl, fds, fcs, fcl, fpos, fid⟩
    · rename_i start en rest hs
      have hsorted : SortedOw ((start, en) :: rest) := by rw [← hs]; exact h.sorted
      have hhead := sorted_head_le (start, en) rest hsorted
      have hfuel' : rest.length ≤ fuel := by rw [hs] at hfuel; simpa using hfuel
      by_cases hge : start ≥ next
      · have := final_write_inv orig ref s next data h hfl hdl hd (by
          intro q hq; rw [hs] at hq; have := hhead q hq; simp at this; omega)
        simp only [hge, ↓reduceIte] at hr
        subst hr
        exact ⟨this.1, this.2, fdl, fds, fcs, fcl, fpos, fid⟩
      · simp only [hge, ↓reduceIte] at hr
        have hsr : SortedOw rest := by simp only [SortedOw, List.pairwise_cons] at hsorted; exact hsorted.2
        have hcov : ∀ i, covered s.ow i ↔
            ((start ≤ i ∧ i < (mergeRun .fixed en rest).1) ∨ covered (mergeRun .fixed en rest).2 i) := by
          intro i
          rw [hs, ← mergeRun_cov start rest en (fun q hq => by have := hhead q (by simp [hq]); simpa using this) i,
            covered_cons]
        obtain ⟨hm1, hm2, hm3, hm4⟩ := mergeRun_props rest en hsr
        generalize mergeRun .fixed en rest = m at *
        -- the prefix write
        let w : Bytes := if start > s.dl then data.take (start - s.dl) else []
        have hf1 : (if start > s.dl then pwrite s.f s.dl (data.take (start - s.dl)) else s.f) = pwrite s.f s.dl w := by
          by_cases hgt : start > s.dl <;> simp [w, hgt, pwrite]
        rw [hf1] at hr
        have hwl : w.length = if start > s.dl then min (start - s.dl) data.length else 0 := by
          by_cases hgt : start > s.dl <;> simp [w, hgt]
        have hdl1 := hd.1
        have hw : ∀ j, j < w.length → w[j]? = orig[s.dl + j]? := by
          intro j hj
          by_cases hgt : start > s.dl
          · simp only [w, hgt, ↓reduceIte] at hj ⊢
            simp only [List.length_take] at hj
            rw [List.getElem?_take, if_pos (by omega)]
            exact hd.2 j (by omega)
          · simp [w, hgt] at hj
        have hpw := prefix_write orig ref s w h hw
          (fun hne => by
            have : w.length ≠ 0 := by simpa using hne
            split at hwl <;> omega)
          (fun i h1 h2 hc => by
            obtain ⟨q, hq, hq1, hq2⟩ := hc
            rw [hs] at hq
            have := hhead q hq
            simp at this
            split at hwl <;> omega)
        -- how the prefix relates to what is known
        have hpre : ∀ i, s.dl ≤ i → i < start → i < next → (s.dl ≤ i ∧ i < s.dl + w.length) ∨ s.ds ≤ i := by
          intro i h1 h2 h3
          have hgt : start > s.dl := by omega
          simp only [hgt, ↓reduceIte] at hwl
          by_cases hx : i < s.dl + w.length
          · exact Or.inl ⟨h1, hx⟩
          · right; omega
        by_cases hb1 : m.1 ≥ next
        · -- the merged overwrite reaches past the chunk
          simp only [hb1, ↓reduceIte] at hr
          subst hr
          obtain ⟨gf, gdl, gds, gcs, gow, gcl, gpos, gid⟩ :=
            updateDownloaded_fields { s with f := pwrite s.f s.dl w, ow := owInsert (next, m.1) m.2 } next
          have hk : ∀ i, known { s with f := pwrite s.f s.dl w, ow := owInsert (next, m.1) m.2, dl := next } i ↔
              (i < next ∨ s.ds ≤ i ∨ (next ≤ i ∧ i < m.1) ∨ covered m.2 i) := by
            intro i; simp [known, covered_owInsert]
          have := upd_inv0 orig ref s (pwrite s.f s.dl w) (owInsert (next, m.1) m.2) next h
            (by
              intro i hkn
              rw [hk]
              rcases hkn with a | a | a
              · left; omega
              · exact Or.inr (Or.inl a)
              · rcases (hcov i).mp a with b | b
                · by_cases hx : i < next
                  · exact Or.inl hx
                  · exact Or.inr (Or.inr (Or.inl ⟨by omega, b.2⟩))
                · exact Or.inr (Or.inr (Or.inr b)))
            (by
              intro i hi hkn
              apply hpw.1 i hi
              rcases (hk i).mp hkn with a | a | a | a
              · by_cases hx : i < s.dl
                · exact Or.inl (Or.inl hx)
                · by_cases hy : start ≤ i
                  · exact Or.inl (Or.inr (Or.inr ((hcov i).mpr (Or.inl ⟨hy, by omega⟩))))
                  · rcases hpre i (by omega) (by omega) a with b | b
                    · exact Or.inr b
                    · exact Or.inl (Or.inr (Or.inl b))
              · exact Or.inl (Or.inr (Or.inl a))
              · exact Or.inl (Or.inr (Or.inr ((hcov i).mpr (Or.inl ⟨by omega, a.2⟩))))
              · exact Or.inl (Or.inr (Or.inr ((hcov i).mpr (Or.inr a)))))
            (sorted_owInsert _ _ hm2)
          exact ⟨this, by rw [gf, gcs]; exact hpw.2 hfl, gdl, gds, gcs, gcl, gpos, gid⟩
        · simp only [hb1, ↓reduceIte] at hr
          by_cases hb2 : m.1 ≥ s.dl
          · -- skip the overwritten part and go on
            simp only [hb2, ↓reduceIte] at hr
            subst hr
            obtain ⟨gf, gdl, gds, gcs, gow, gcl, gpos, gid⟩ :=
              updateDownloaded_fields { s with f := pwrite s.f s.dl w, ow := m.2 } m.1
            have hk : ∀ i, known { s with f := pwrite s.f s.dl w, ow := m.2, dl := m.1 } i ↔
                (i < m.1 ∨ s.ds ≤ i ∨ covered m.2 i) := by
              intro i; simp [known]
            have hinv := upd_inv0 orig ref s (pwrite s.f s.dl w) m.2 m.1 h
              (by
                intro i hkn
                rw [hk]
                rcases hkn with a | a | a
                · left; omega
                · exact Or.inr (Or.inl a)
                · rcases (hcov i).mp a with b | b
                  · exact Or.inl b.2
                  · exact Or.inr (Or.inr b))
              (by
                intro i hi hkn
                apply hpw.1 i hi
                rcases (hk i).mp hkn with a | a | a
                · by_cases hx : i < s.dl
                  · exact Or.inl (Or.inl hx)
                  · by_cases hy : start ≤ i
                    · exact Or.inl (Or.inr (Or.inr ((hcov i).mpr (Or.inl ⟨hy, a⟩))))
                    · rcases hpre i (by omega) (by omega) (by omega) with b | b
                      · exact Or.inr b
                      · exact Or.inl (Or.inr (Or.inl b))
                · exact Or.inl (Or.inr (Or.inl a))
                · exact Or.inl (Or.inr (Or.inr ((hcov i).mpr (Or.inr a)))))
              hm2
            have hrec := ih (updateDownloaded { s with f := pwrite s.f s.dl w, ow := m.2 } m.1)
              (data.drop (m.1 - s.dl)) hinv (by rw [gf, gcs]; exact hpw.2 hfl)
              (by rw [gow]; simp only []; omega) (by rw [gdl]; omega)
              (by
                refine ⟨by rw [gdl, gds]; simp; omega, fun j hj => ?_⟩
                rw [gdl]
                simp only [List.length_drop] at hj
                rw [List.getElem?_drop, hd.2 _ (by omega)]
                congr 1; omega)
            obtain ⟨r1, r2, r3, r4, r5, r6, r7, r8⟩ := hrec
            exact ⟨r1, r2, r3, by rw [r4, gds], by rw [r5, gcs], by rw [r6, gcl], by rw [r7, gpos], by rw [r8, gid]⟩
          · -- the merged overwrite lies wholly before `downloaded`
            simp only [hb2, ↓reduceIte] at hr
            subst hr
            have hk : ∀ i, known { s with f := pwrite s.f s.dl w, ow := m.2 } i ↔
                (i < s.dl ∨ s.ds ≤ i ∨ covered m.2 i) := by
              intro i; simp [known]
            have hinv := inv0_of_mono orig ref s { s with f := pwrite s.f s.dl w, ow := m.2 } h rfl rfl rfl rfl rfl rfl
              (by
                intro i hkn
                rw [hk]
                rcases hkn with a | a | a
                · exact Or.inl a
                · exact Or.inr (Or.inl a)
                · rcases (hcov i).mp a with b | b
                  · left; omega
                  · exact Or.inr (Or.inr b))
              (by
                intro i hi hkn
                apply hpw.1 i hi
                rcases (hk i).mp hkn with a | a | a
                · exact Or.inl (Or.inl a)
                · exact Or.inl (Or.inr (Or.inl a))
                · exact Or.inl (Or.inr (Or.inr ((hcov i).mpr (Or.inr a)))))
              hm2
            have hrec := ih { s with f := pwrite s.f s.dl w, ow := m.2 } data hinv (hpw.2 hfl)
              (by simp only []; omega) hdl hd
            exact hrec

end Tahoe.Sftp
