import Tahoe.Sftp.LemmasLoop
/-! Every event keeps the invariant, and the reads it completes return reference bytes. -/
namespace Tahoe.Sftp

/-- what the property demands of a completed read, against the reference `ref` -/
def OutOK (ref : Bytes) (s' : St) (o : Out) : Prop :=
  (∀ b, o.res = .data b → b = pread ref o.off o.len)
  ∧ (o.res = .eof → ref.length ≤ o.off)
  ∧ (o.res = .fail → s'.done = .failed ∨ s'.closed = true)

theorem init_inv (orig : Bytes) : Inv orig orig (init orig) := by
  refine ⟨⟨rfl, Nat.le_refl _, Nat.le_refl _, ?_, ?_, by simp [init, SortedOw], by simp [init], by simp [init],
    by simp [init], by simp [init]⟩, by simp [init], by simp [init]⟩
  · intro i hi hk
    rcases hk with a | a | a
    · simp [init] at a
    · simp [init] at a hi; omega
    · simp [init, covered] at a
  · intro i hi hk; rfl

theorem downloadDone_fields (s : St) (ok : Bool) :
    (downloadDone s ok).f = s.f ∧ (downloadDone s ok).dl = s.dl ∧ (downloadDone s ok).ds = s.ds
    ∧ (downloadDone s ok).cs = s.cs ∧ (downloadDone s ok).ow = s.ow
    ∧ (downloadDone s ok).closed = s.closed ∧ (downloadDone s ok).pos = s.pos := by
  unfold downloadDone; split <;> simp

theorem downloadDone_inv0 (orig ref : Bytes) (s : St) (ok : Bool) (h : Inv0 orig ref s)
    (hok : ok = true → s.done = .running → s.closed = true ∨ ∀ i, i < s.ds → known s i) :
    Inv0 orig ref (downloadDone s ok) := by
  unfold downloadDone
  split
  · rename_i hrun
    refine ⟨h.reflen, h.dscs, h.dsorig, h.A, h.B, h.sorted, ?_, by simp, ?_, ?_⟩
    · intro hd
      cases ok
      · simp at hd
      · exact hok rfl hrun
    · intro r hr
      simp only [List.mem_append, List.mem_map] at hr
      rcases hr with hr | ⟨a, ha, hae⟩
      · exact h.q r hr
      · simp at hae
        obtain ⟨rfl, rfl⟩ := hae
        rcases hok rfl hrun with hc | hall
        · exact Or.inl hc
        · refine Or.inr ⟨(h.ms a ha).1, fun i h1 h2 => ?_⟩
          by_cases hi : i < s.ds
          · exact hall i hi
          · exact Or.inr (Or.inl (by show s.ds ≤ i; omega))
    · intro r hr
      simp only [List.mem_append, List.mem_map] at hr
      rcases hr with hr | ⟨a, ha, hae⟩
      · have := h.qf r hr; rw [hrun] at this; cases this
      · simp at hae; obtain ⟨_, rfl⟩ := hae; simp
  · exact h

theorem inv0_pos (orig ref : Bytes) (s : St) (p : Nat) (h : Inv0 orig ref s) : Inv0 orig ref { s with pos := p } :=
  ⟨h.reflen, h.dscs, h.dsorig, h.A, h.B, h.sorted, h.D, h.ms, h.q, h.qf⟩

/-- `write(data)` with `data` = the original contents from `downloaded` on -/
theorem write_inv (orig ref : Bytes) (t : St) (data : Bytes) (h : Inv0 orig ref t) (hfl : t.f.length ≤ t.cs)
    (hget : t.closed = false → t.dl < t.ds → ∀ j, j < data.length → data[j]? = orig[t.dl + j]?) :
    Inv0 orig ref (write .fixed t data) ∧ (write .fixed t data).f.length ≤ (write .fixed t data).cs
    ∧ (write .fixed t data).pos = t.pos ∧ (write .fixed t data).closed = t.closed
    ∧ (write .fixed t data).ds = t.ds
    ∧ (t.closed = false → t.dl < t.ds → (write .fixed t data).dl = t.dl + data.length) := by
  generalize hr : write .fixed t data = r
  unfold write at hr
  split at hr
  · rename_i hc
    subst hr
    exact ⟨h, hfl, rfl, rfl, rfl, fun hf => by rw [hc] at hf; cases hf⟩
  · rename_i hc
    have hc' : t.closed = false := by simpa using hc
    split at hr
    · rename_i hge
      subst hr
      exact ⟨h, hfl, rfl, rfl, rfl, fun _ hlt => by omega⟩
    · rename_i hge
      have hget' := hget hc' (by omega)
      have := writeLoop_inv orig ref (t.dl + data.length) t.ow.length t
        (if t.dl + data.length > t.ds then data.take (t.ds - t.dl) else data)
        h hfl (Nat.le_refl _) (by simp) (by
          constructor
          · split <;> (try simp only [List.length_take]) <;> omega
          · intro j hj
            split
            · rename_i hgt
              simp only [hgt, ↓reduceIte, List.length_take] at hj
              rw [List.getElem?_take, if_pos (by omega)]
              exact hget' j (by omega)
            · rename_i hgt
              simp only [hgt, ↓reduceIte] at hj
              exact hget' j hj)
      obtain ⟨r1, r2, r3, r4, r5, r6, r7, r8⟩ := this
      subst hr
      exact ⟨r1, r2, r7, r6, r4, fun _ _ => r3⟩

/-- a download chunk keeps the invariant -/
theorem chunk_inv (orig ref : Bytes) (s : St) (n : Nat) (h : Inv orig ref s) :
    Inv orig ref (step .fixed orig s (.chunk n)).1 := by
  simp only [step]
  generalize hdata : (orig.drop s.pos).take n = data
  have hdso := h.dsorig
  have := write_inv orig ref { s with pos := s.pos + data.length } data (inv0_pos orig ref s _ h.toInv0) h.flen
    (by
      intro hc hlt j hj
      have hpos : s.pos = s.dl := h.C hc hlt
      show data[j]? = orig[s.dl + j]?
      have hlen : data.length = min n (orig.length - s.dl) := by rw [← hdata, hpos]; simp
      rw [← hdata, hpos, List.getElem?_take, if_pos (by omega), List.getElem?_drop])
  obtain ⟨r1, r2, r3, r4, r5, r6⟩ := this
  refine ⟨r1, r2, fun hc hlt => ?_⟩
  rw [r4] at hc
  rw [r5] at hlt
  by_cases hlt0 : s.dl < s.ds
  · have hpos : s.pos = s.dl := h.C hc hlt0
    rw [r3, r6 hc hlt0]
    show s.pos + data.length = s.dl + data.length
    omega
  · -- `write` returned at once; `downloaded` is unchanged and not below `download_size`
    exfalso
    have : (write .fixed { s with pos := s.pos + data.length } data).dl = s.dl := by
      generalize hr : write .fixed { s with pos := s.pos + data.length } data = r
      unfold write at hr
      split at hr
      · subst hr; rfl
      · split at hr
        · subst hr; rfl
        · rename_i hx; exact absurd (show s.dl ≥ s.ds by omega) hx
    rw [this] at hlt
    exact hlt0 hlt

end Tahoe.Sftp
