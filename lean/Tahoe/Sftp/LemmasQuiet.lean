import Tahoe.Sftp.LemmasLive
/-! A consumer on which no read was ever issued has no milestones and an empty callback queue
(the situation of the handle model, which does not issue reads). -/
namespace Tahoe.Sftp

def Quiet (s : St) : Prop := s.ms = [] ∧ s.queue = []

theorem downloadDone_quiet (s : St) (ok : Bool) (h : Quiet s) : Quiet (downloadDone s ok) := by
  unfold downloadDone Quiet
  split
  · simp [h.1, h.2]
  · exact h

theorem updateDownloaded_quiet (s : St) (nd : Nat) (h : Quiet s) : Quiet (updateDownloaded s nd) := by
  unfold updateDownloaded
  simp only [h.1, h.2, List.takeWhile_nil, List.dropWhile_nil, List.map_nil, List.append_nil, List.isEmpty_nil, ↓reduceIte]
  split
  · exact downloadDone_quiet _ true ⟨rfl, rfl⟩
  · exact ⟨rfl, rfl⟩

theorem writeLoop_quiet (v : Variant) (next : Nat) : ∀ (fuel : Nat) (s : St) (data : Bytes),
    Quiet s → Quiet (writeLoop v next fuel s data) := by
  intro fuel
  induction fuel with
  | zero => intro s data h; simp only [writeLoop]; exact updateDownloaded_quiet _ _ h
  | succ fuel ih =>
    intro s data h
    simp only [writeLoop]
    split
    · exact updateDownloaded_quiet _ _ h
    · split
      · exact updateDownloaded_quiet _ _ h
      · split
        · exact updateDownloaded_quiet _ _ h
        · split
          · exact ih _ _ (updateDownloaded_quiet _ _ h)
          · exact ih _ _ h

theorem write_quiet (v : Variant) (s : St) (data : Bytes) (h : Quiet s) : Quiet (write v s data) := by
  unfold write
  split
  · exact h
  · split
    · exact h
    · exact writeLoop_quiet v _ _ _ _ h

theorem overwrite_quiet (s : St) (off : Nat) (data : Bytes) (h : Quiet s) : Quiet (overwrite s off data) := h

theorem setSize_quiet (s : St) (size : Nat) (h : Quiet s) : Quiet (setSize s size) := by
  rw [setSize_stages]
  have h1 : Quiet (ssTrunc size s) := by unfold ssTrunc; split <;> exact h
  have h2 : Quiet (ssExt size (ssTrunc size s)) := by
    unfold ssExt; split
    · exact h1
    · exact h1
  have h3 : Quiet (ssSizes size (ssExt size (ssTrunc size s))) := h2
  unfold ssFinish
  split
  · exact downloadDone_quiet _ true h3
  · exact h3

/-- every consumer event except `read` keeps the consumer quiet -/
theorem step_quiet (v : Variant) (orig : Bytes) (s : St) (e : Ev) (hr : ∀ o l, e ≠ .read o l) (h : Quiet s) :
    Quiet (step v orig s e).1 := by
  cases e with
  | chunk n => exact write_quiet v _ _ h
  | overwrite off data => simp only [step]; split <;> exact h
  | setSize n =>
    simp only [step]; split
    · exact h
    · exact setSize_quiet s n h
  | read o l => exact absurd rfl (hr o l)
  | done ok => exact downloadDone_quiet s ok h
  | flush => exact ⟨h.1, rfl⟩
  | close => exact downloadDone_quiet { s with closed := true } true h

theorem setSize_closed (s : St) (size : Nat) : (setSize s size).closed = s.closed := by
  rw [setSize_stages]
  have h1 : (ssTrunc size s).closed = s.closed := by unfold ssTrunc; split <;> rfl
  have h2 : (ssExt size (ssTrunc size s)).closed = s.closed := by
    unfold ssExt; split
    · simp [overwrite, h1]
    · exact h1
  have h3 : (ssSizes size (ssExt size (ssTrunc size s))).closed = s.closed := h2
  unfold ssFinish
  split
  · unfold downloadDone; split <;> simp [h3]
  · exact h3

end Tahoe.Sftp
