import Tahoe.Sftp.Inv
import Tahoe.Sftp.LemmasBytes
/-! The download side of C39: `write` / `_update_downloaded` keep the invariant (repaired variant). -/
namespace Tahoe.Sftp

theorem covered_nil (i : Nat) : ¬ covered [] i := by simp [covered]

theorem covered_cons (p : Nat × Nat) (l : List (Nat × Nat)) (i : Nat) :
    covered (p :: l) i ↔ (p.1 ≤ i ∧ i < p.2) ∨ covered l i := by
  simp [covered]

theorem covered_owInsert (x : Nat × Nat) (l : List (Nat × Nat)) (i : Nat) :
    covered (owInsert x l) i ↔ (x.1 ≤ i ∧ i < x.2) ∨ covered l i := by
  induction l with
  | nil => simp [owInsert, covered]
  | cons y r ih =>
    simp only [owInsert]
    split
    · simp [covered_cons]
    · rw [covered_cons, ih, covered_cons]; grind

theorem sorted_owInsert (x : Nat × Nat) (l : List (Nat × Nat)) (h : SortedOw l) : SortedOw (owInsert x l) := by
  induction l with
  | nil => simp [owInsert, SortedOw]
  | cons y r ih =>
    simp only [SortedOw, List.pairwise_cons] at h
    simp only [owInsert]
    split
    · rename_i hle
      simp only [SortedOw, List.pairwise_cons]
      refine ⟨?_, h⟩
      intro b hb
      have hxy : x.1 ≤ y.1 := by simp [owLe] at hle; omega
      rcases List.mem_cons.mp hb with rfl | hb
      · exact hxy
      · exact Nat.le_trans hxy (h.1 b hb)
    · rename_i hle
      have hyx : y.1 ≤ x.1 := by simp [owLe] at hle; omega
      have ih' := ih h.2
      simp only [SortedOw, List.pairwise_cons]
      refine ⟨?_, ih'⟩
      intro b hb
      have : b = x ∨ b ∈ r := by
        clear ih ih' h hle hyx
        induction r with
        | nil => simp [owInsert] at hb; exact Or.inl hb
        | cons z r ihr =>
          simp only [owInsert] at hb
          split at hb
          · simp at hb; grind
          · simp at hb; grind
      rcases this with rfl | hb
      · exact hyx
      · exact h.1 b hb

/-- the merge loop: everything between `lo` and the final end is covered by what was popped -/
theorem mergeRun_cov (lo : Nat) (rest : List (Nat × Nat)) (e : Nat)
    (hlo : ∀ p ∈ rest, lo ≤ p.1) (i : Nat) :
    ((lo ≤ i ∧ i < e) ∨ covered rest i) ↔
      ((lo ≤ i ∧ i < (mergeRun .fixed e rest).1) ∨ covered (mergeRun .fixed e rest).2 i) := by
  induction rest generalizing e with
  | nil => simp [mergeRun]
  | cons p r ih =>
    obtain ⟨s1, e1⟩ := p
    simp only [mergeRun]
    split
    · simp
    · rename_i hgt
      rw [← ih (mergeEnd .fixed e e1) (fun q hq => hlo q (by simp [hq]))]
      have := hlo (s1, e1) (by simp)
      simp only [covered_cons, mergeEnd]
      simp at this
      grind

theorem mergeRun_props (rest : List (Nat × Nat)) (e : Nat) (hs : SortedOw rest) :
    e ≤ (mergeRun .fixed e rest).1 ∧ SortedOw (mergeRun .fixed e rest).2
    ∧ (mergeRun .fixed e rest).2.length ≤ rest.length
    ∧ (∀ p ∈ (mergeRun .fixed e rest).2, (mergeRun .fixed e rest).1 < p.1 ∧ p ∈ rest) := by
  induction rest generalizing e with
  | nil => simp [mergeRun, SortedOw]
  | cons p r ih =>
    obtain ⟨s1, e1⟩ := p
    simp only [SortedOw, List.pairwise_cons] at hs
    simp only [mergeRun]
    split
    · rename_i hgt
      refine ⟨Nat.le_refl _, by simpa [SortedOw] using hs, Nat.le_refl _, ?_⟩
      intro q hq
      rcases List.mem_cons.mp hq with rfl | hq'
      · exact ⟨hgt, by simp⟩
      · have h1 : s1 ≤ q.1 := hs.1 q hq'
        exact ⟨by omega, by simp [hq']⟩
    · have := ih (mergeEnd .fixed e e1) hs.2
      refine ⟨?_, this.2.1, by simp; omega, fun q hq => ⟨(this.2.2.2 q hq).1, by simp [(this.2.2.2 q hq).2]⟩⟩
      have h1 := this.1
      have h2 : e ≤ mergeEnd .fixed e e1 := Nat.le_max_left e e1
      omega

/-! ### `_update_downloaded` -/

theorem updateDownloaded_fields (s : St) (nd : Nat) :
    (updateDownloaded s nd).f = s.f ∧ (updateDownloaded s nd).dl = nd ∧ (updateDownloaded s nd).ds = s.ds
    ∧ (updateDownloaded s nd).cs = s.cs ∧ (updateDownloaded s nd).ow = s.ow
    ∧ (updateDownloaded s nd).closed = s.closed ∧ (updateDownloaded s nd).pos = s.pos
    ∧ (updateDownloaded s nd).nextId = s.nextId := by
  unfold updateDownloaded downloadDone
  simp only
  split <;> (try split) <;> (try split) <;> simp

theorem known_congr {s t : St} (h1 : t.dl = s.dl) (h2 : t.ds = s.ds) (h3 : t.ow = s.ow) (i : Nat) :
    known t i ↔ known s i := by simp [known, h1, h2, h3]

theorem mem_takeWhile_imp {α} (p : α → Bool) (l : List α) (x : α) (h : x ∈ l.takeWhile p) : p x = true ∧ x ∈ l := by
  induction l with
  | nil => simp at h
  | cons a r ih =>
    simp only [List.takeWhile] at h
    split at h
    · rcases List.mem_cons.mp h with rfl | h'
      · simp_all
      · exact ⟨(ih h').1, by simp [(ih h').2]⟩
    · simp at h

theorem mem_dropWhile_imp {α} (p : α → Bool) (l : List α) (x : α) (h : x ∈ l.dropWhile p) : x ∈ l :=
  (List.dropWhile_sublist p).subset h

/-- firing milestones and possibly finishing, in a state that already satisfies the invariant with
`dl = nd` -/
theorem updateDownloaded_inv0 (orig ref : Bytes) (s : St) (nd : Nat) (hnd : s.dl = nd)
    (h : Inv0 orig ref s) : Inv0 orig ref (updateDownloaded s nd) := by
  have hm : ∀ i, i < milestoneOf s.ow nd → known s i := by
    intro i hi
    unfold milestoneOf at hi
    split at hi
    · rename_i st en r hw
      split at hi
      · by_cases hlt : i < nd
        · exact Or.inl (by omega)
        · exact Or.inr (Or.inr ⟨(st, en), by simp [hw], by simp; omega, by simpa using hi⟩)
      · exact Or.inl (by omega)
    · exact Or.inl (by omega)
  have hk : ∀ i, known (updateDownloaded s nd) i ↔ known s i := fun i =>
    known_congr (by rw [(updateDownloaded_fields s nd).2.1, hnd]) (updateDownloaded_fields s nd).2.2.1
      (updateDownloaded_fields s nd).2.2.2.2.1 i
  have hq : ∀ r, r ∈ s.ms → r.needed ≤ milestoneOf s.ow nd →
      (r.off + r.len ≤ s.cs ∧ ∀ i, r.off ≤ i → i < r.off + r.len → known s i) := by
    intro r hr hle
    refine ⟨(h.ms r hr).1, fun i h1 h2 => ?_⟩
    by_cases hi : i < r.needed
    · exact hm i (by omega)
    · exact Or.inr (Or.inl ((h.ms r hr).2 i (by omega) h2))
  obtain ⟨ff, fdl, fds, fcs, fow, fcl, fpos, fid⟩ := updateDownloaded_fields s nd
  refine ⟨by rw [fcs]; exact h.reflen, by rw [fds, fcs]; exact h.dscs, by rw [fds]; exact h.dsorig, ?_, ?_,
    by rw [fow]; exact h.sorted, ?_, ?_, ?_, ?_⟩
  · intro i hi hkn; rw [ff]; exact h.A i (by rwa [fcs] at hi) ((hk i).mp hkn)
  · intro i hi hkn; exact h.B i (by rwa [fds] at hi) (fun x => hkn ((hk i).mpr x))
  · -- D
    intro hdone
    rw [fcl, fds]
    by_cases hd : s.done = .ok
    · rcases h.D hd with hc | hall
      · exact Or.inl hc
      · exact Or.inr (fun i hi => (hk i).mpr (hall i hi))
    · right
      intro i hi
      apply (hk i).mpr
      unfold updateDownloaded downloadDone at hdone
      simp only at hdone
      split at hdone
      · split at hdone
        · rename_i hge
          exact hm i (by simp at hge; omega)
        · exact absurd hdone hd
      · exact absurd hdone hd
  · -- ms
    intro r hr
    rw [fcs, fds]
    have : r ∈ s.ms := by
      unfold updateDownloaded downloadDone at hr
      simp only at hr
      split at hr
      · split at hr
        · split at hr <;> simp at hr <;> exact mem_dropWhile_imp _ _ _ hr
        · exact mem_dropWhile_imp _ _ _ hr
      · exact mem_dropWhile_imp _ _ _ hr
    exact h.ms r this
  · -- q
    intro r hr
    rw [fcl, fcs]
    have : (r, true) ∈ s.queue ∨ (r ∈ s.ms ∧ r.needed ≤ milestoneOf s.ow nd) ∨
        (r ∈ s.ms ∧ s.ds ≤ milestoneOf s.ow nd) := by
      unfold updateDownloaded downloadDone at hr
      simp only at hr
      split at hr
      · split at hr
        · rename_i hge
          split at hr
          · simp only [List.mem_append, List.mem_map] at hr
            rcases hr with (hr | ⟨a, ha, hae⟩) | ⟨a, ha, hae⟩
            · exact Or.inl hr
            · have := mem_takeWhile_imp _ _ _ ha
              simp at hae; subst hae
              exact Or.inr (Or.inl ⟨this.2, by simpa using this.1⟩)
            · simp at hae; obtain ⟨rfl, _⟩ := hae
              exact Or.inr (Or.inr ⟨mem_dropWhile_imp _ _ _ ha, by simpa using hge⟩)
          · simp only [List.mem_append, List.mem_map] at hr
            rcases hr with hr | ⟨a, ha, hae⟩
            · exact Or.inl hr
            · have := mem_takeWhile_imp _ _ _ ha
              simp at hae; subst hae
              exact Or.inr (Or.inl ⟨this.2, by simpa using this.1⟩)
        · simp only [List.mem_append, List.mem_map] at hr
          rcases hr with hr | ⟨a, ha, hae⟩
          · exact Or.inl hr
          · have := mem_takeWhile_imp _ _ _ ha
            simp at hae; subst hae
            exact Or.inr (Or.inl ⟨this.2, by simpa using this.1⟩)
      · simp only [List.mem_append, List.mem_map] at hr
        rcases hr with hr | ⟨a, ha, hae⟩
        · exact Or.inl hr
        · have := mem_takeWhile_imp _ _ _ ha
          simp at hae; subst hae
          exact Or.inr (Or.inl ⟨this.2, by simpa using this.1⟩)
    rcases this with hq0 | ⟨hr1, hr2⟩ | ⟨hr1, hr2⟩
    · rcases h.q r hq0 with hc | ⟨h1, h2⟩
      · exact Or.inl hc
      · exact Or.inr ⟨h1, fun i a b => (hk i).mpr (h2 i a b)⟩
    · have := hq r hr1 hr2
      exact Or.inr ⟨this.1, fun i a b => (hk i).mpr (this.2 i a b)⟩
    · refine Or.inr ⟨(h.ms r hr1).1, fun i a b => (hk i).mpr ?_⟩
      by_cases hi : i < s.ds
      · exact hm i (by omega)
      · exact Or.inr (Or.inl (by omega))
  · -- qf
    intro r hr
    have : (r, false) ∈ s.queue := by
      unfold updateDownloaded downloadDone at hr
      simp only at hr
      split at hr
      · split at hr
        · split at hr <;> simp at hr <;> exact hr
        · simpa using hr
      · simpa using hr
    have hf := h.qf r this
    unfold updateDownloaded downloadDone
    simp only
    split
    · split
      · simp [hf]
      · exact hf
    · exact hf

end Tahoe.Sftp
