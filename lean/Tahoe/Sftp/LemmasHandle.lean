import Tahoe.Sftp.Handle
import Tahoe.Sftp.LemmasMain
import Tahoe.Sftp.LemmasQuiet
/-! The handle model commits the reference whenever an accepted write precedes the close. -/
namespace Tahoe.Sftp

def QOp.isClient : QOp → Bool
  | .write _ _ => true
  | .setSize _ => true
  | _ => false

def applyQ1 (r : Bytes) : QOp → Bytes
  | .write off data => refWrite r off data
  | .setSize n => r.take n ++ zeros (n - r.length)
  | _ => r

def applyQ (r : Bytes) (l : List QOp) : Bytes := l.foldl applyQ1 r

def tailOp (commit : Bool) : QOp := if commit then .commitClose else .closeOnly

/-- the environment's part: `download_done(bytes)` only after the whole original was delivered -/
def hallowed (orig : Bytes) (h : HSt) : HEv → Prop
  | .done true => h.started = true → orig.length ≤ h.c.pos
  | _ => True

def HWF (hv : HVariant) (orig : Bytes) : HSt → List HEv → Prop
  | _, [] => True
  | h, e :: es => hallowed orig h e ∧ HWF hv orig (hstep hv orig h e) es

instance (orig : Bytes) (h : HSt) (e : HEv) : Decidable (hallowed orig h e) := by
  cases e <;> unfold hallowed <;> (try split) <;> infer_instance

instance instDecidableHWF (hv : HVariant) (orig : Bytes) : (h : HSt) → (es : List HEv) → Decidable (HWF hv orig h es)
  | _, [] => isTrue trivial
  | h, e :: es =>
    match (inferInstance : Decidable (hallowed orig h e)), instDecidableHWF hv orig (hstep hv orig h e) es with
    | isTrue h1, isTrue h2 => isTrue ⟨h1, h2⟩
    | isFalse h1, _ => isFalse (fun x => h1 x.1)
    | _, isFalse h2 => isFalse (fun x => h2 x.2)

/-- ghost: has a request that marks the file as changed been accepted (requested before close)?
A writeChunk always marks; a size change marks iff `sz` (the variant's `sizeSets`). -/
def markStep (sz : Bool) (w : Bool × Bool) : HEv → Bool × Bool       -- (marked, close requested)
  | .write _ _ => if w.2 then w else (true, false)
  | .setSize _ => if w.2 then w else (w.1 || sz, false)
  | .close => (w.1, true)
  | _ => w

/-- the phases of a handle, with the reference of the accepted requests so far -/
inductive Phase (orig ref : Bytes) (w : Bool) (h : HSt) : Prop
  | queued (cl : List QOp) (hcl : ∀ op ∈ cl, op.isClient = true) (hs : h.started = false) (hp : h.pend = cl)
      (hr : ref = applyQ orig cl) (hc : h.closedReq = false) (hw : h.waiting = false)
      (hf : w = true → h.hasChanged = true) (hres : h.res = .pending)
  | queuedClosed (cl : List QOp) (commit : Bool) (hcl : ∀ op ∈ cl, op.isClient = true) (hs : h.started = false)
      (hp : h.pend = cl ++ [tailOp commit]) (hr : ref = applyQ orig cl) (hc : h.closedReq = true)
      (hw : h.waiting = false) (hf : w = true → commit = true) (hres : commit = true → h.res = .pending)
  | live (hs : h.started = true) (hp : h.pend = []) (hc : h.closedReq = false) (hw : h.waiting = false)
      (hinv : Inv orig ref h.c) (hq : Quiet h.c) (hcc : h.c.closed = false)
      (hf : w = true → h.hasChanged = true) (hres : h.res = .pending)
  | committing (hs : h.started = true) (hp : h.pend = []) (hc : h.closedReq = true) (hw : h.waiting = true)
      (hinv : Inv orig ref h.c) (hq : Quiet h.c) (hcc : h.c.closed = false) (hres : h.res = .pending)
  | finished (hs : h.started = true) (hp : h.pend = []) (hc : h.closedReq = true) (hw : h.waiting = false)
      (hfin : w = true → h.res = .ok → h.stored = some ref)

theorem applyQ_append (r : Bytes) (a b : List QOp) : applyQ r (a ++ b) = applyQ (applyQ r a) b := by
  simp [applyQ, List.foldl_append]

/-- one client callback on a live consumer -/
theorem exec1_client (sz : Bool) (orig ref : Bytes) (h : HSt) (op : QOp) (hop : op.isClient = true)
    (hinv : Inv orig ref h.c) (hq : Quiet h.c) (hcc : h.c.closed = false) :
    ∃ c', exec1 ⟨.atRequest, sz⟩ orig h op = { h with c := c' }
      ∧ Inv orig (applyQ1 ref op) c' ∧ Quiet c' ∧ c'.closed = false := by
  cases op with
  | write off data =>
    refine ⟨(step .fixed orig h.c (.overwrite off data)).1, rfl, ?_, ?_, ?_⟩
    · exact (step_inv orig ref h.c (.overwrite off data) hinv ⟨hcc, hq.1, hq.2⟩).1
    · exact step_quiet _ _ _ _ (fun _ _ => by simp) hq
    · simp [step, hcc, overwrite]
  | setSize n =>
    refine ⟨(step .fixed orig h.c (.setSize n)).1, rfl, ?_, ?_, ?_⟩
    · exact (step_inv orig ref h.c (.setSize n) hinv ⟨hcc, hq.1, hq.2⟩).1
    · exact step_quiet _ _ _ _ (fun _ _ => by simp) hq
    · simp only [step, hcc, Bool.false_eq_true, ↓reduceIte]; rw [setSize_closed]; exact hcc
  | commitClose => simp [QOp.isClient] at hop
  | closeOnly => simp [QOp.isClient] at hop

/-- the queued client callbacks, run at `start` -/
theorem drain_client (sz : Bool) (orig : Bytes) : ∀ (cl t : List QOp) (h : HSt) (ref : Bytes),
    (∀ op ∈ cl, op.isClient = true) → h.waiting = false → Inv orig ref h.c → Quiet h.c → h.c.closed = false →
    ∃ c', drain ⟨.atRequest, sz⟩ orig h (cl ++ t) = drain ⟨.atRequest, sz⟩ orig { h with c := c' } t
      ∧ Inv orig (applyQ ref cl) c' ∧ Quiet c' ∧ c'.closed = false := by
  intro cl
  induction cl with
  | nil => intro t h ref _ _ hinv hq hcc; exact ⟨h.c, rfl, hinv, hq, hcc⟩
  | cons op rest ih =>
    intro t h ref hcl hw hinv hq hcc
    obtain ⟨c1, e1, i1, q1, cc1⟩ := exec1_client sz orig ref h op (hcl op (by simp)) hinv hq hcc
    obtain ⟨c2, e2, i2, q2, cc2⟩ := ih t { h with c := c1 } (applyQ1 ref op) (fun o ho => hcl o (by simp [ho])) hw i1 q1 cc1
    refine ⟨c2, ?_, ?_, q2, cc2⟩
    · have hd : drain ⟨.atRequest, sz⟩ orig h (op :: (rest ++ t))
          = drain ⟨.atRequest, sz⟩ orig (exec1 ⟨.atRequest, sz⟩ orig h op) (rest ++ t) := by
        rw [drain, if_neg (by rw [hw]; simp)]
      rw [List.cons_append, hd, e1]
      exact e2
    · simpa [applyQ] using i2

abbrev hvR (sz : Bool) : HVariant := ⟨.atRequest, sz⟩

/-- a field fact of a record that `simp` may have partly evaluated -/
macro "fld " x:term : term => `(by first | exact $x | rfl | simp [$x:term] | simp_all)

/-- a client request (write / setSize) that is accepted -/
theorem client_request_phase (sz : Bool) (orig ref : Bytes) (w : Bool) (h h1 : HSt) (op : QOp) (hop : op.isClient = true)
    (hp : Phase orig ref w h) (hc : h.closedReq = false)
    (e1 : h1 = { h with hasChanged := h1.hasChanged })
    (w' : Bool) (hw' : (w = true → h.hasChanged = true) → w' = true → h1.hasChanged = true) :
    Phase orig (applyQ1 ref op) w' (enqueue (hvR sz) orig h1 op)
    ∧ (enqueue (hvR sz) orig h1 op).closedReq = false := by
  have f1 : h1.closedReq = h.closedReq := by rw [e1]
  have f2 : h1.started = h.started := by rw [e1]
  have f3 : h1.pend = h.pend := by rw [e1]
  have f4 : h1.waiting = h.waiting := by rw [e1]
  have f5 : h1.c = h.c := by rw [e1]
  have f6 : h1.res = h.res := by rw [e1]
  cases hp with
  | queued cl hcl hs hp hr hc0 hw hf hres =>
    have : enqueue (hvR sz) orig h1 op = { h1 with pend := h1.pend ++ [op] } := by
      simp [enqueue, f2, hs]
    rw [this]
    refine ⟨Phase.queued (cl ++ [op]) ?_ (by simpa [f2] using hs) (by simp [f3, hp]) ?_ (by simpa [f1] using hc0)
      (by simpa [f4] using hw) (hw' hf) (by simpa [f6] using hres), by simpa [f1] using hc0⟩
    · intro o ho
      rcases List.mem_append.mp ho with a | a
      · exact hcl o a
      · simp at a; subst a; exact hop
    · rw [applyQ_append, ← hr]; simp [applyQ]
  | queuedClosed cl commit hcl hs hp hr hc0 hw hf hres => rw [hc] at hc0; cases hc0
  | live hs hp hc0 hw hinv hq hcc hf hres =>
    have hst : (h1.started && !h1.waiting) = true := by simp [f2, f4, hs, hw]
    obtain ⟨c', e', i', q', cc'⟩ := exec1_client sz orig ref h1 op hop (by rw [f5]; exact hinv) (by rw [f5]; exact hq)
      (by rw [f5]; exact hcc)
    have : enqueue (hvR sz) orig h1 op = { h1 with c := c' } := by
      simp only [enqueue, hst, ↓reduceIte]; exact e'
    rw [this]
    exact ⟨Phase.live (by simpa [f2] using hs) (by simpa [f3] using hp) (by simpa [f1] using hc0) (by simpa [f4] using hw)
      i' q' cc' (hw' hf) (by simpa [f6] using hres), by simpa [f1] using hc0⟩
  | committing hs hp hc0 hw hinv hq hcc hres => rw [hc] at hc0; cases hc0
  | finished hs hp hc0 hw hfin => rw [hc] at hc0; cases hc0

theorem close_phase (sz : Bool) (orig ref : Bytes) (w : Bool) (h : HSt) (hp : Phase orig ref w h) :
    Phase orig ref w (hstep (hvR sz) orig h .close) ∧ (hstep (hvR sz) orig h .close).closedReq = true := by
  cases hp with
  | queued cl hcl hs hp hr hc hw hf hres =>
    simp only [hstep, hc, Bool.false_eq_true, ↓reduceIte]
    cases hch : h.hasChanged
    · simp only [Bool.false_eq_true, ↓reduceIte, enqueue, hs, Bool.false_and]
      exact ⟨Phase.queuedClosed cl false hcl (fld hs) (by simp [(fld hp), tailOp]) hr rfl (fld hw)
        (fun hw1 => by rw [hf hw1] at hch; cases hch) (fun x => by cases x), (by first | rfl | trivial | simp_all)⟩
    · simp only [↓reduceIte, enqueue, hs, Bool.false_and, Bool.false_eq_true]
      exact ⟨Phase.queuedClosed cl true hcl (fld hs) (by simp [(fld hp), tailOp]) hr rfl (fld hw) (fun _ => rfl) (fun _ => (fld hres)), (by first | rfl | trivial | simp_all)⟩
  | queuedClosed cl commit hcl hs hp hr hc hw hf hres =>
    simp only [hstep, hc, ↓reduceIte]
    exact ⟨Phase.queuedClosed cl commit hcl (fld hs) (fld hp) hr (fld hc) (fld hw) hf (fld hres), (fld hc)⟩
  | live hs hp hc hw hinv hq hcc hf hres =>
    simp only [hstep, hc, Bool.false_eq_true, ↓reduceIte]
    cases hch : h.hasChanged
    · simp only [Bool.false_eq_true, ↓reduceIte, enqueue, hs, hw, Bool.not_false, Bool.and_self, exec1]
      exact ⟨Phase.finished (fld hs) (fld hp) rfl (fld hw) (fun hw1 => by rw [hf hw1] at hch; cases hch), (by first | rfl | trivial | simp_all)⟩
    · simp only [↓reduceIte, enqueue, hs, hw, Bool.not_false, Bool.and_self, exec1]
      exact ⟨Phase.committing (fld hs) (fld hp) rfl rfl hinv hq hcc (fld hres), (by first | rfl | trivial | simp_all)⟩
  | committing hs hp hc hw hinv hq hcc hres =>
    simp only [hstep, hc, ↓reduceIte]
    exact ⟨Phase.committing (fld hs) (fld hp) (fld hc) (fld hw) hinv hq hcc (fld hres), (fld hc)⟩
  | finished hs hp hc hw hfin =>
    simp only [hstep, hc, ↓reduceIte]
    exact ⟨Phase.finished (fld hs) (fld hp) (fld hc) (fld hw) hfin, (fld hc)⟩

theorem start_phase (sz : Bool) (orig ref : Bytes) (w : Bool) (h : HSt) (hp : Phase orig ref w h) :
    Phase orig ref w (hstep (hvR sz) orig h .start) ∧ (hstep (hvR sz) orig h .start).closedReq = h.closedReq := by
  cases hp with
  | queued cl hcl hs hp hr hc hw hf hres =>
    simp only [hstep, hs, Bool.false_eq_true, ↓reduceIte]
    rw [hp]
    obtain ⟨c', e', i', q', cc'⟩ := drain_client sz orig cl [] { h with started := true, pend := cl, c := init orig } orig hcl hw
      (init_inv orig) ⟨rfl, (by first | rfl | trivial | simp_all)⟩ rfl
    rw [List.append_nil] at e'
    rw [e']
    simp only [drain]
    exact ⟨Phase.live rfl rfl (fld hc) (fld hw) (by rw [hr]; exact i') q' cc' hf (fld hres), (by first | rfl | trivial | simp_all)⟩
  | queuedClosed cl commit hcl hs hp hr hc hw hf hres =>
    simp only [hstep, hs, Bool.false_eq_true, ↓reduceIte]
    rw [hp]
    obtain ⟨c', e', i', q', cc'⟩ := drain_client sz orig cl [tailOp commit]
      { h with started := true, pend := cl ++ [tailOp commit], c := init orig } orig hcl hw (init_inv orig) ⟨rfl, (by first | rfl | trivial | simp_all)⟩ rfl
    rw [e']
    cases commit
    · simp only [tailOp, Bool.false_eq_true, ↓reduceIte, drain, hw, exec1]
      exact ⟨Phase.finished rfl rfl (fld hc) (fld hw) (fun hw1 => by cases hf hw1), (by first | rfl | trivial | simp_all)⟩
    · simp only [tailOp, ↓reduceIte, drain, hw, Bool.false_eq_true, exec1]
      exact ⟨Phase.committing rfl rfl (fld hc) rfl (by rw [hr]; exact i') q' cc' (hres rfl), (by first | rfl | trivial | simp_all)⟩
  | live hs hp hc hw hinv hq hcc hf hres =>
    simp only [hstep, hs, ↓reduceIte]
    exact ⟨Phase.live (fld hs) (fld hp) (fld hc) (fld hw) hinv hq hcc hf (fld hres), (by first | rfl | trivial | simp_all)⟩
  | committing hs hp hc hw hinv hq hcc hres =>
    simp only [hstep, hs, ↓reduceIte]
    exact ⟨Phase.committing (fld hs) (fld hp) (fld hc) (fld hw) hinv hq hcc (fld hres), (by first | rfl | trivial | simp_all)⟩
  | finished hs hp hc hw hfin =>
    simp only [hstep, hs, ↓reduceIte]
    exact ⟨Phase.finished (fld hs) (fld hp) (fld hc) (fld hw) hfin, (by first | rfl | trivial | simp_all)⟩

theorem writeLoop_closed (v : Variant) (next : Nat) : ∀ (fuel : Nat) (s : St) (data : Bytes),
    (writeLoop v next fuel s data).closed = s.closed := by
  intro fuel
  induction fuel with
  | zero => intro s data; simp only [writeLoop]; exact (updateDownloaded_fields _ _).2.2.2.2.2.1
  | succ fuel ih =>
    intro s data
    simp only [writeLoop]
    split
    · exact (updateDownloaded_fields _ _).2.2.2.2.2.1
    · split
      · exact (updateDownloaded_fields _ _).2.2.2.2.2.1
      · split
        · exact (updateDownloaded_fields _ _).2.2.2.2.2.1
        · split
          · rw [ih]; exact (updateDownloaded_fields _ _).2.2.2.2.2.1
          · rw [ih]

/-- a download-side consumer event (chunk / done) -/
theorem env_phase (orig ref : Bytes) (w : Bool) (h : HSt) (e : Ev) (he : (∃ n, e = .chunk n) ∨ (∃ ok, e = .done ok))
    (hal : h.started = true → allowed orig h.c e) (hp : Phase orig ref w h) :
    Phase orig ref w (if h.started then { h with c := (step .fixed orig h.c e).1 } else h) := by
  have hne : ∀ o l, e ≠ .read o l := by rcases he with ⟨n, rfl⟩ | ⟨ok, rfl⟩ <;> simp
  have hrs : refStep ref e = ref := by rcases he with ⟨n, rfl⟩ | ⟨ok, rfl⟩ <;> rfl
  have hcl : ∀ s : St, (step .fixed orig s e).1.closed = s.closed := by
    intro s
    rcases he with ⟨n, rfl⟩ | ⟨ok, rfl⟩
    · simp only [step]
      generalize hd : List.take n (List.drop s.pos orig) = data
      generalize hr : write .fixed { s with pos := s.pos + data.length } data = r
      unfold write at hr
      split at hr
      · subst hr; rfl
      · split at hr
        · subst hr; rfl
        · subst hr
          exact writeLoop_closed _ _ _ _ _
    · exact (downloadDone_fields s ok).2.2.2.2.2.1
  cases hp with
  | queued cl hcl' hs hp hr hc hw hf hres =>
    simp only [hs, Bool.false_eq_true, ↓reduceIte]; exact Phase.queued cl hcl' (fld hs) (fld hp) hr (fld hc) (fld hw) hf (fld hres)
  | queuedClosed cl commit hcl' hs hp hr hc hw hf hres =>
    simp only [hs, Bool.false_eq_true, ↓reduceIte]; exact Phase.queuedClosed cl commit hcl' (fld hs) (fld hp) hr (fld hc) (fld hw) hf (fld hres)
  | live hs hp hc hw hinv hq hcc hf hres =>
    simp only [hs, ↓reduceIte]
    have := (step_inv orig ref h.c e hinv (hal hs)).1
    rw [hrs] at this
    exact Phase.live (fld hs) (fld hp) (fld hc) (fld hw) this (step_quiet _ _ _ _ hne hq) (by rw [hcl]; exact hcc) hf (fld hres)
  | committing hs hp hc hw hinv hq hcc hres =>
    simp only [hs, ↓reduceIte]
    have := (step_inv orig ref h.c e hinv (hal hs)).1
    rw [hrs] at this
    exact Phase.committing (fld hs) (fld hp) (fld hc) (fld hw) this (step_quiet _ _ _ _ hne hq) (by rw [hcl]; exact hcc) (fld hres)
  | finished hs hp hc hw hfin =>
    simp only [hs, ↓reduceIte]; exact Phase.finished (fld hs) (fld hp) (fld hc) (fld hw) hfin

theorem turn_phase (sz : Bool) (orig ref : Bytes) (w : Bool) (h : HSt) (hp : Phase orig ref w h) :
    Phase orig ref w (hstep (hvR sz) orig h .turn) ∧ (hstep (hvR sz) orig h .turn).closedReq = h.closedReq := by
  cases hp with
  | queued cl hcl hs hp hr hc hw hf hres =>
    simp only [hstep, hw, Bool.false_eq_true, ↓reduceIte]
    exact ⟨Phase.queued cl hcl hs hp hr hc hw hf hres, (by first | rfl | trivial | simp_all)⟩
  | queuedClosed cl commit hcl hs hp hr hc hw hf hres =>
    simp only [hstep, hw, Bool.false_eq_true, ↓reduceIte]
    exact ⟨Phase.queuedClosed cl commit hcl hs hp hr hc hw hf hres, (by first | rfl | trivial | simp_all)⟩
  | live hs hp hc hw hinv hq hcc hf hres =>
    simp only [hstep, hw, Bool.false_eq_true, ↓reduceIte]
    exact ⟨Phase.live hs hp hc hw hinv hq hcc hf hres, (by first | rfl | trivial | simp_all)⟩
  | committing hs hp hc hw hinv hq hcc hres =>
    generalize hr : hstep (hvR sz) orig h .turn = r
    simp only [hstep] at hr
    rw [if_pos hw] at hr
    split at hr
    · subst hr; exact ⟨Phase.committing hs hp hc hw hinv hq hcc hres, (by first | rfl | trivial | simp_all)⟩
    · rename_i hd
      have hfe := final_eq orig ref h.c hinv hd hcc
      rw [hp] at hr
      simp only [drain] at hr
      subst hr
      exact ⟨Phase.finished hs rfl hc rfl (fun _ _ => by simp [hfe]), (by first | rfl | trivial | simp_all)⟩
    · rw [hp] at hr
      simp only [drain] at hr
      subst hr
      exact ⟨Phase.finished hs rfl hc rfl (fun _ hx => by simp at hx), (by first | rfl | trivial | simp_all)⟩
  | finished hs hp hc hw hfin =>
    simp only [hstep, hw, Bool.false_eq_true, ↓reduceIte]
    exact ⟨Phase.finished hs hp hc hw hfin, (by first | rfl | trivial | simp_all)⟩

/-- every event keeps the phase invariant, with the reference and the ghost flags stepped along -/
theorem hstep_phase (sz : Bool) (orig : Bytes) (h : HSt) (r : Bytes × Bool) (w : Bool × Bool) (e : HEv)
    (hp : Phase orig r.1 w.1 h) (hcr : h.closedReq = r.2) (hcw : w.2 = r.2) (hal : hallowed orig h e) :
    Phase orig (hrefStep r e).1 (markStep sz w e).1 (hstep (hvR sz) orig h e)
    ∧ (hstep (hvR sz) orig h e).closedReq = (hrefStep r e).2 ∧ (markStep sz w e).2 = (hrefStep r e).2 := by
  cases e with
  | write off data =>
    cases hc : r.2
    · have hc' : h.closedReq = false := by rw [hcr, hc]
      have hw2 : w.2 = false := by rw [hcw, hc]
      have := client_request_phase sz orig r.1 w.1 h { h with hasChanged := true } (.write off data) rfl hp hc' rfl
        true (fun _ _ => rfl)
      have hs_eq : hstep (hvR sz) orig h (.write off data)
          = enqueue (hvR sz) orig { h with hasChanged := true } (.write off data) := by
        simp only [hstep]; rw [if_neg (by rw [hc']; simp)]
      rw [hs_eq]
      simp only [hrefStep, hc, markStep, hw2, Bool.false_eq_true, ↓reduceIte]
      exact ⟨this.1, this.2, (by first | rfl | trivial | simp_all)⟩
    · have hc' : h.closedReq = true := by rw [hcr, hc]
      have hw2 : w.2 = true := by rw [hcw, hc]
      simp only [hstep, hc', ↓reduceIte, hrefStep, hc, markStep, hw2]
      exact ⟨hp, (by first | rfl | trivial | simp_all), (by first | rfl | trivial | simp_all)⟩
  | setSize n =>
    cases hc : r.2
    · have hc' : h.closedReq = false := by rw [hcr, hc]
      have := client_request_phase sz orig r.1 w.1 h (if sz then { h with hasChanged := true } else h) (.setSize n) rfl hp hc'
        (by cases sz <;> rfl) (w.1 || sz) (fun hf hw1 => by cases sz <;> simp_all)
      have hs_eq : hstep (hvR sz) orig h (.setSize n)
          = enqueue (hvR sz) orig (if sz then { h with hasChanged := true } else h) (.setSize n) := by
        simp only [hstep]; rw [if_neg (by rw [hc']; simp)]
      rw [hs_eq]
      have hw2 : w.2 = false := by rw [hcw, hc]
      simp only [hrefStep, hc, markStep, hw2, Bool.false_eq_true, ↓reduceIte]
      exact ⟨this.1, this.2, (by first | rfl | trivial | simp_all)⟩
    · have hc' : h.closedReq = true := by rw [hcr, hc]
      have hw2 : w.2 = true := by rw [hcw, hc]
      simp only [hstep, hc', ↓reduceIte, hrefStep, hc, markStep, hw2]
      exact ⟨hp, (by first | rfl | trivial | simp_all), (by first | rfl | trivial | simp_all)⟩
  | close =>
    have := close_phase sz orig r.1 w.1 h hp
    simp only [hrefStep, markStep]
    exact ⟨this.1, this.2, (by first | rfl | trivial | simp_all)⟩
  | start =>
    have := start_phase sz orig r.1 w.1 h hp
    simp only [hrefStep, markStep]
    exact ⟨this.1, by rw [this.2, hcr], hcw⟩
  | chunk n =>
    have := env_phase orig r.1 w.1 h (.chunk n) (Or.inl ⟨n, rfl⟩) (fun _ => trivial) hp
    simp only [hrefStep, markStep, hstep]
    refine ⟨this, ?_, hcw⟩
    split <;> simp [hcr]
  | done ok =>
    have := env_phase orig r.1 w.1 h (.done ok) (Or.inr ⟨ok, rfl⟩) (fun hs => by
      cases ok
      · trivial
      · exact hal hs) hp
    simp only [hrefStep, markStep, hstep]
    refine ⟨this, ?_, hcw⟩
    split <;> simp [hcr]
  | turn =>
    have := turn_phase sz orig r.1 w.1 h hp
    simp only [hrefStep, markStep]
    exact ⟨this.1, by rw [this.2, hcr], hcw⟩

theorem hrun_phase (sz : Bool) (orig : Bytes) : ∀ (es : List HEv) (h : HSt) (r : Bytes × Bool) (w : Bool × Bool),
    Phase orig r.1 w.1 h → h.closedReq = r.2 → w.2 = r.2 → HWF (hvR sz) orig h es →
    Phase orig (es.foldl hrefStep r).1 (es.foldl (markStep sz) w).1 (hrun (hvR sz) orig h es) := by
  intro es
  induction es with
  | nil => intro h r w hp _ _ _; simpa [hrun] using hp
  | cons e es ih =>
    intro h r w hp hcr hcw hwf
    obtain ⟨p1, p2, p3⟩ := hstep_phase sz orig h r w e hp hcr hcw hwf.1
    simp only [List.foldl_cons, hrun]
    exact ih _ _ _ p1 p2 p3 hwf.2

theorem hinit_phase (orig : Bytes) : Phase orig orig false (hinit orig) :=
  Phase.queued [] (by simp) rfl rfl rfl rfl rfl (fun x => by cases x) rfl

end Tahoe.Sftp
