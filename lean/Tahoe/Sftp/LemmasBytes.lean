import Tahoe.Sftp.Consumer
/-! Pointwise descriptions of the byte-list operations of the C39 model. -/
namespace Tahoe.Sftp

theorem zeros_getElem? (n i : Nat) : (zeros n)[i]? = if i < n then some 0 else none := by
  simp [zeros, List.getElem?_replicate]

@[simp] theorem zeros_length (n : Nat) : (zeros n).length = n := by simp [zeros]

theorem pwrite_getElem? (f d : Bytes) (off i : Nat) :
    (pwrite f off d)[i]? =
      if d = [] then f[i]?
      else if i < off then (if i < f.length then f[i]? else some 0)
      else if i < off + d.length then d[i - off]? else f[i]? := by
  unfold pwrite
  by_cases hd : d = []
  · simp [hd]
  · have : d.isEmpty = false := by cases d <;> simp_all
    simp only [this, Bool.false_eq_true, ↓reduceIte, hd]
    simp only [List.getElem?_append, List.getElem?_take, List.getElem?_drop, List.length_append,
      List.length_take, zeros_length, zeros_getElem?]
    grind

theorem pwrite_length (f d : Bytes) (off : Nat) :
    (pwrite f off d).length = if d = [] then f.length else max f.length (off + d.length) := by
  unfold pwrite
  by_cases hd : d = []
  · simp [hd]
  · have : d.isEmpty = false := by cases d <;> simp_all
    simp only [this, Bool.false_eq_true, ↓reduceIte, hd, List.length_append, List.length_take,
      List.length_drop, zeros_length]
    omega

theorem ftruncate_getElem? (f : Bytes) (n i : Nat) :
    (ftruncate f n)[i]? = if i < n then (if i < f.length then f[i]? else some 0) else none := by
  unfold ftruncate
  simp only [List.getElem?_append, List.getElem?_take, List.length_take, zeros_getElem?]
  grind

@[simp] theorem ftruncate_length (f : Bytes) (n : Nat) : (ftruncate f n).length = n := by
  unfold ftruncate; simp; omega

theorem refWrite_getElem? (r d : Bytes) (off i : Nat) :
    (refWrite r off d)[i]? =
      if i < off then (if i < r.length then r[i]? else some 0)
      else if i < off + d.length then d[i - off]? else r[i]? := by
  unfold refWrite
  simp only [List.getElem?_append, List.getElem?_take, List.getElem?_drop, List.length_append,
    List.length_take, zeros_length, zeros_getElem?]
  grind

theorem refWrite_length (r d : Bytes) (off : Nat) :
    (refWrite r off d).length = max r.length (off + d.length) := by
  unfold refWrite
  simp only [List.length_append, List.length_take, List.length_drop, zeros_length]
  omega

theorem pread_congr (f r : Bytes) (off len : Nat)
    (h : ∀ i, off ≤ i → i < off + len → f[i]? = r[i]?) : pread f off len = pread r off len := by
  unfold pread
  apply List.ext_getElem?
  intro j
  simp only [List.getElem?_take, List.getElem?_drop]
  split
  · exact h (off + j) (by omega) (by omega)
  · rfl

theorem eq_of_getElem?_agree (f r : Bytes) (hlen : f.length ≤ r.length)
    (h : ∀ i, i < r.length → f[i]? = r[i]?) : f = r := by
  apply List.ext_getElem?
  intro i
  by_cases hi : i < r.length
  · exact h i hi
  · rw [List.getElem?_eq_none (by omega), List.getElem?_eq_none (by omega)]

end Tahoe.Sftp
