import Tahoe.Sftp.LemmasStep
/-! reads, eventual-queue turns, `download_done`, `close`. -/
namespace Tahoe.Sftp

theorem mem_msInsert (x r : Rd) (l : List Rd) : x ∈ msInsert r l ↔ x = r ∨ x ∈ l := by
  induction l with
  | nil => simp [msInsert]
  | cons y t ih =>
    simp only [msInsert]
    split
    · simp
    · simp [ih]; grind

/-- reading positions that are all known returns reference bytes -/
theorem pread_known (orig ref : Bytes) (s : St) (off len : Nat) (h : Inv0 orig ref s) (hle : off + len ≤ s.cs)
    (hk : ∀ i, off ≤ i → i < off + len → known s i) : pread s.f off len = pread ref off len :=
  pread_congr _ _ _ _ (fun i h1 h2 => h.A i (by omega) (hk i h1 h2))

theorem read_inv (orig ref : Bytes) (s : St) (off len : Nat) (h : Inv orig ref s) (hc : s.closed = false) :
    Inv orig ref (read s off len).1 ∧ ∀ o ∈ (read s off len).2, OutOK ref (read s off len).1 o := by
  generalize hr : read s off len = r
  unfold read at hr
  simp only at hr
  have hbase : Inv orig ref { s with nextId := s.nextId + 1 } :=
    ⟨⟨h.reflen, h.dscs, h.dsorig, h.A, h.B, h.sorted, h.D, h.ms, h.q, h.qf⟩, h.flen, h.C⟩
  split at hr
  · rename_i hge
    subst hr
    refine ⟨hbase, fun o ho => ?_⟩
    simp at ho; subst ho
    exact ⟨by simp, fun _ => by rw [h.reflen]; exact hge, by simp⟩
  · rename_i hlt
    have hlt' : off < s.cs := by simpa using hlt
    generalize hlen' : (if off + len > s.cs then s.cs - off else len) = len' at hr
    have hle : off + len' ≤ s.cs := by rw [← hlen']; split <;> omega
    have hrun : ∀ (hk : ∀ i, off ≤ i → i < off + len' → known s i),
        OutOK ref { s with nextId := s.nextId + 1 }
          (runRead { s with nextId := s.nextId + 1 } ⟨s.nextId, min (off + len') s.ds, off, len'⟩) := by
      intro hk
      unfold runRead
      simp only [hc, Bool.false_eq_true, ↓reduceIte, show ¬ (s.cs < off + len') by omega]
      refine ⟨fun b hb => ?_, by simp, by simp⟩
      simp at hb; subst hb
      exact pread_known orig ref s off len' h.toInv0 hle hk
    split at hr
    · rename_i hd
      subst hr
      refine ⟨hbase, fun o ho => ?_⟩
      simp at ho; subst ho
      apply hrun
      intro i h1 h2
      have hd' : s.done = .ok := hd
      rcases h.D hd' with a | a
      · rw [hc] at a; cases a
      · by_cases hi : i < s.ds
        · exact a i hi
        · exact Or.inr (Or.inl (by omega))
    · rename_i hd
      subst hr
      refine ⟨hbase, fun o ho => ?_⟩
      simp at ho; subst ho
      exact ⟨by simp, by simp, fun _ => Or.inl hd⟩
    · rename_i hd
      split at hr
      · rename_i hnd
        subst hr
        refine ⟨hbase, fun o ho => ?_⟩
        simp at ho; subst ho
        apply hrun
        intro i h1 h2
        have hnd' : min (off + len') s.ds ≤ s.dl := hnd
        by_cases hi : i < s.dl
        · exact Or.inl hi
        · exact Or.inr (Or.inl (by omega))
      · subst hr
        refine ⟨⟨⟨h.reflen, h.dscs, h.dsorig, h.A, h.B, h.sorted, h.D, ?_, h.q, h.qf⟩, h.flen, h.C⟩, by simp⟩
        intro r hr
        rcases (mem_msInsert _ _ _).mp hr with rfl | hr
        · exact ⟨hle, fun i h1 h2 => by simp only [] at h1 h2; show s.ds ≤ i; omega⟩
        · exact h.ms r hr

theorem flush_inv (orig ref : Bytes) (s : St) (h : Inv orig ref s) :
    Inv orig ref (flush s).1 ∧ ∀ o ∈ (flush s).2, OutOK ref (flush s).1 o := by
  unfold flush
  refine ⟨⟨⟨h.reflen, h.dscs, h.dsorig, h.A, h.B, h.sorted, h.D, h.ms, by simp, by simp⟩, h.flen, h.C⟩, ?_⟩
  intro o ho
  simp only [List.mem_map] at ho
  obtain ⟨⟨r, ok⟩, hmem, rfl⟩ := ho
  cases ok
  · simp only [Bool.false_eq_true, ↓reduceIte]
    exact ⟨by simp, by simp, fun _ => Or.inl (h.qf r hmem)⟩
  · simp only [↓reduceIte]
    unfold runRead
    rcases h.q r hmem with hc | ⟨hle, hk⟩
    · simp only [hc, ↓reduceIte]
      exact ⟨by simp, by simp, fun _ => Or.inr rfl⟩
    · cases hc : s.closed
      · simp only [Bool.false_eq_true, ↓reduceIte, show ¬ (s.cs < r.off + r.len) by omega]
        refine ⟨fun b hb => ?_, by simp, by simp⟩
        simp at hb; subst hb
        exact pread_known orig ref s r.off r.len h.toInv0 hle hk
      · simp only [↓reduceIte]
        exact ⟨by simp, by simp, fun _ => Or.inr rfl⟩

theorem done_inv (orig ref : Bytes) (s : St) (ok : Bool) (h : Inv orig ref s)
    (hal : allowed orig s (.done ok)) : Inv orig ref (downloadDone s ok) := by
  obtain ⟨ff, fdl, fds, fcs, fow, fcl, fpos⟩ := downloadDone_fields s ok
  refine ⟨downloadDone_inv0 orig ref s ok h.toInv0 ?_, by rw [ff, fcs]; exact h.flen,
    by rw [fcl, fdl, fds, fpos]; exact h.C⟩
  intro hok _
  subst hok
  simp only [allowed] at hal
  cases hc : s.closed
  · right
    intro i hi
    have hdso := h.dsorig
    by_cases hlt : s.dl < s.ds
    · have := h.C hc hlt; omega
    · exact Or.inl (by omega)
  · exact Or.inl rfl

theorem close_inv (orig ref : Bytes) (s : St) (h : Inv orig ref s) : Inv orig ref (close s) := by
  unfold close
  obtain ⟨ff, fdl, fds, fcs, fow, fcl, fpos⟩ := downloadDone_fields { s with closed := true } true
  have h0 : Inv0 orig ref { s with closed := true } :=
    ⟨h.reflen, h.dscs, h.dsorig, h.A, h.B, h.sorted, fun _ => Or.inl rfl, h.ms, fun _ _ => Or.inl rfl, h.qf⟩
  refine ⟨downloadDone_inv0 orig ref _ true h0 (fun _ _ => Or.inl rfl), by rw [ff, fcs]; exact h.flen, ?_⟩
  intro hc
  rw [fcl] at hc
  cases hc

end Tahoe.Sftp
