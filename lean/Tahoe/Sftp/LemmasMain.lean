import Tahoe.Sftp.LemmasSize
/-! Every allowed event keeps the invariant; hence every history does. -/
namespace Tahoe.Sftp

theorem step_inv (orig ref : Bytes) (s : St) (e : Ev) (h : Inv orig ref s) (hal : allowed orig s e) :
    Inv orig (refStep ref e) (step .fixed orig s e).1
    ∧ ∀ o ∈ (step .fixed orig s e).2, OutOK (refStep ref e) (step .fixed orig s e).1 o := by
  cases e with
  | chunk n => exact ⟨chunk_inv orig ref s n h, by simp [step]⟩
  | overwrite off data =>
    obtain ⟨hc, hms, hq⟩ := hal
    simp only [step, hc, Bool.false_eq_true, ↓reduceIte, refStep]
    refine ⟨?_, by simp⟩
    have := overwrite_inv0 orig ref s off data h.toInv0 hms hq (fun _ => h.flen)
    obtain ⟨fdl, fds, fcs, fms, fq, fdone, fcl, fpos⟩ := overwrite_fields s off data
    refine ⟨this.1, ?_, ?_⟩
    · have := this.2; have := h.flen; rw [fcs]; omega
    · rw [fcl, fdl, fds, fpos]; exact h.C
  | setSize n =>
    obtain ⟨hc, hms, hq⟩ := hal
    simp only [step, hc, Bool.false_eq_true, ↓reduceIte, refStep]
    exact ⟨setSize_inv orig ref s n h hms hq, by simp⟩
  | read off len =>
    simp only [step, refStep]
    cases hc : s.closed
    · simp only [Bool.false_eq_true, ↓reduceIte]
      exact read_inv orig ref s off len h hc
    · simp only [↓reduceIte]
      exact ⟨h, by simp⟩
  | done ok => exact ⟨done_inv orig ref s ok h hal, by simp [step]⟩
  | flush => exact flush_inv orig ref s h
  | close => exact ⟨close_inv orig ref s h, by simp [step]⟩

theorem trace_inv (orig : Bytes) : ∀ (es : List Ev) (s : St) (ref : Bytes), Inv orig ref s → WF .fixed orig s es →
    ∀ x ∈ trace .fixed orig s ref es, Inv orig x.2.1 x.1 ∧ ∀ o ∈ x.2.2, OutOK x.2.1 x.1 o := by
  intro es
  induction es with
  | nil => intro s ref _ _ x hx; simp [trace] at hx
  | cons e es ih =>
    intro s ref h hwf x hx
    have hs := step_inv orig ref s e h hwf.1
    simp only [trace, List.mem_cons] at hx
    rcases hx with rfl | hx
    · exact hs
    · exact ih _ _ hs.1 hwf.2 x hx

theorem run_inv (orig : Bytes) : ∀ (es : List Ev) (s : St) (ref : Bytes), Inv orig ref s → WF .fixed orig s es →
    Inv orig (es.foldl refStep ref) (run .fixed orig s es).1 := by
  intro es
  induction es with
  | nil => intro s ref h _; simpa [run] using h
  | cons e es ih =>
    intro s ref h hwf
    have hs := step_inv orig ref s e h hwf.1
    simp only [run, List.foldl_cons]
    exact ih _ _ hs.1 hwf.2

/-- once the download has finished successfully, the temporary file *is* the reference -/
theorem final_eq (orig ref : Bytes) (s : St) (h : Inv orig ref s) (hd : s.done = .ok) (hc : s.closed = false) :
    s.f = ref := by
  apply eq_of_getElem?_agree
  · rw [h.reflen]; exact h.flen
  · intro i hi
    rw [h.reflen] at hi
    rcases h.D hd with a | a
    · rw [hc] at a; cases a
    · apply h.A i hi
      by_cases hx : i < s.ds
      · exact a i hx
      · exact Or.inr (Or.inl (by omega))

theorem foldl_refStep_keepsRef (ds : List Ev) (r : Bytes) (h : ∀ e ∈ ds, e.keepsRef = true) :
    ds.foldl refStep r = r := by
  induction ds generalizing r with
  | nil => rfl
  | cons e es ih =>
    have he := h e (by simp)
    have : refStep r e = r := by cases e <;> simp_all [refStep, Ev.keepsRef]
    simp only [List.foldl_cons, this]
    exact ih r (fun x hx => h x (by simp [hx]))

theorem pread_refWrite (r d : Bytes) (off : Nat) : pread (refWrite r off d) off d.length = d := by
  unfold pread
  apply List.ext_getElem?
  intro j
  simp only [List.getElem?_take, List.getElem?_drop, refWrite_getElem?]
  by_cases hj : j < d.length
  · have h1 : ¬ (off + j < off) := by omega
    have h2 : off + j < off + d.length := by omega
    have h3 : off + j - off = j := by omega
    simp only [hj, h1, h2, h3, ↓reduceIte]
  · simp [hj]

end Tahoe.Sftp
