/-
Model of `allmydata/frontends/sftpd.py` class `OverwriteableFileConsumer` (Mathlib-free, executable;
used by the driver `Drv/C39.lean`).

State mirrored: `f` (the temporary file as a byte list, POSIX semantics: a write or a truncate past
the end zero-fills the gap), `downloaded`, `download_size`, `current_size`, the `overwrites` heap,
the `milestones` heap, `done_status`, `is_closed`.

Deviations from the text of the code, each checked by the correspondence run:
* the two `heapq` heaps are kept as sorted lists (`heappop` = head, `heappush` = ordered insert);
  the harness compares `sorted(self.overwrites)` / the sorted milestone indices with these lists.
  Milestones with *equal* indices are outside the model: `heapq` then compares two `Deferred`s and
  raises `TypeError` on Python 3 (the harness never has two pending reads with the same index).
* a Deferred fired through `eventually_callback` is an entry of `queue` (FIFO); the event `flush`
  is one turn of foolscap's eventual queue and runs every queued `_reached_in_read`.
* the producer (environment) is the field `pos`: the event `chunk n` delivers the next `n` bytes of
  the original contents to `write`.
* the outer `while` of `write` pops at least one heap entry per iteration; it is modelled with
  fuel `overwrites.length` (structural recursion, so that `decide` can run the model).
* `mergeEnd` is the one place where the repaired code differs from the code as it is:
  `end = end1` (as is, `Variant.asIs`) versus `end = max(end, end1)` (proposed fix, `Variant.fixed`,
  fixes/C39-overwrite-merge.diff).  The driver runs `Variant.fixed`.
-/
namespace Tahoe.Sftp

abbrev Bytes := List UInt8

def zeros (n : Nat) : Bytes := List.replicate n 0

/-- `f.seek(off); f.write(d)` on a regular file: nothing happens for empty `d`; otherwise a gap
between the old end and `off` reads back as zeroes. -/
def pwrite (f : Bytes) (off : Nat) (d : Bytes) : Bytes :=
  if d.isEmpty then f
  else (f ++ zeros (off - f.length)).take off ++ d ++ f.drop (off + d.length)

/-- `f.seek(off); f.read(len)` -/
def pread (f : Bytes) (off len : Nat) : Bytes := (f.drop off).take len

/-- `f.truncate(n)` (shrinks, or extends with zeroes) -/
def ftruncate (f : Bytes) (n : Nat) : Bytes := f.take n ++ zeros (n - f.length)

/-- a pending read: `(needed, d)` in the milestones heap, with the closure data of `_reached_in_read` -/
structure Rd where
  id : Nat
  needed : Nat
  off : Nat
  len : Nat
deriving DecidableEq, Repr

inductive DoneSt | running | ok | failed
deriving DecidableEq, Repr

inductive Res
  | data (b : Bytes)     -- the Deferred fired with these bytes
  | eof                  -- EOFError("read past end of file")
  | fail                 -- the Deferred errbacked (download failed / file closed / assertion)
deriving DecidableEq, Repr

structure Out where
  id : Nat
  off : Nat
  len : Nat              -- the length after clipping to `current_size` (as requested for `eof`)
  res : Res
deriving DecidableEq, Repr

structure St where
  f : Bytes
  dl : Nat               -- self.downloaded
  ds : Nat               -- self.download_size
  cs : Nat               -- self.current_size
  ow : List (Nat × Nat)  -- self.overwrites, sorted
  ms : List Rd           -- self.milestones, sorted by `needed`
  queue : List (Rd × Bool)  -- eventual queue: `d.callback(res)`, Bool = res is bytes (not a Failure)
  done : DoneSt          -- self.done_status
  closed : Bool          -- self.is_closed
  pos : Nat              -- environment: how many bytes the producer has delivered
  nextId : Nat           -- environment: numbering of read requests
deriving DecidableEq, Repr

inductive Variant | asIs | fixed
deriving DecidableEq, Repr

def mergeEnd : Variant → Nat → Nat → Nat
  | .asIs, _, end1 => end1
  | .fixed, e, end1 => max e end1

/-- tuple order of the heap entries `(start, end)` -/
def owLe (a b : Nat × Nat) : Bool := a.1 < b.1 || (a.1 == b.1 && a.2 ≤ b.2)

/-- `heapq.heappush(self.overwrites, x)` on the sorted-list representation -/
def owInsert (x : Nat × Nat) : List (Nat × Nat) → List (Nat × Nat)
  | [] => [x]
  | y :: r => if owLe x y then x :: y :: r else y :: owInsert x r

def msInsert (x : Rd) : List Rd → List Rd
  | [] => [x]
  | y :: r => if x.needed ≤ y.needed then x :: y :: r else y :: msInsert x r

/-- `download_done(res)`; only the first call counts; all milestones fire with `res` -/
def downloadDone (s : St) (ok : Bool) : St :=
  match s.done with
  | .running =>
    { s with done := if ok then .ok else .failed,
             queue := s.queue ++ s.ms.map (fun r => (r, ok)),
             ms := [] }
  | _ => s

/-- the `milestone` computed at the top of `_update_downloaded` -/
def milestoneOf (ow : List (Nat × Nat)) (nd : Nat) : Nat :=
  match ow with
  | (st, en) :: _ => if st ≤ nd ∧ en > nd then en else nd
  | [] => nd

/-- `_update_downloaded(new_downloaded)`.  Note the early `return` inside the milestone loop: the
`download_done` test is skipped when a milestone beyond `milestone` remains. -/
def updateDownloaded (s : St) (nd : Nat) : St :=
  let milestone : Nat := milestoneOf s.ow nd
  let fired := s.ms.takeWhile (fun r => r.needed ≤ milestone)
  let rest := s.ms.dropWhile (fun r => r.needed ≤ milestone)
  let s1 := { s with dl := nd, ms := rest, queue := s.queue ++ fired.map (fun r => (r, true)) }
  if rest.isEmpty then
    if milestone ≥ s1.ds then downloadDone s1 true else s1
  else s1

/-- the inner `while` of `write`: absorb following heap entries that start at or before `end` -/
def mergeRun (v : Variant) (e : Nat) : List (Nat × Nat) → Nat × List (Nat × Nat)
  | [] => (e, [])
  | (s1, e1) :: rest => if s1 > e then (e, (s1, e1) :: rest) else mergeRun v (mergeEnd v e e1) rest

/-- the outer `while` of `write` followed by the final `seek/write/_update_downloaded` -/
def writeLoop (v : Variant) (next : Nat) : Nat → St → Bytes → St
  | 0, s, data => updateDownloaded { s with f := pwrite s.f s.dl data } next
  | fuel + 1, s, data =>
    match s.ow with
    | [] => updateDownloaded { s with f := pwrite s.f s.dl data } next
    | (start, en) :: rest =>
      if start ≥ next then updateDownloaded { s with f := pwrite s.f s.dl data } next
      else
        let f1 := if start > s.dl then pwrite s.f s.dl (data.take (start - s.dl)) else s.f
        let m := mergeRun v en rest
        if m.1 ≥ next then
          updateDownloaded { s with f := f1, ow := owInsert (next, m.1) m.2 } next
        else if m.1 ≥ s.dl then
          writeLoop v next fuel (updateDownloaded { s with f := f1, ow := m.2 } m.1) (data.drop (m.1 - s.dl))
        else
          writeLoop v next fuel { s with f := f1, ow := m.2 } data

/-- `write(data)` (called by the download) -/
def write (v : Variant) (s : St) (data : Bytes) : St :=
  if s.closed then s
  else if s.dl ≥ s.ds then s
  else
    let next := s.dl + data.length
    let data := if next > s.ds then data.take (s.ds - s.dl) else data
    writeLoop v next s.ow.length s data

/-- `overwrite(offset, data)` on an open consumer -/
def overwrite (s : St) (off : Nat) (data : Bytes) : St :=
  let f1 := if off > s.cs then pwrite s.f s.cs (zeros (off - s.cs)) else s.f
  let start := if off > s.cs then s.cs else off
  let f2 := pwrite f1 off data
  let en := off + data.length
  { s with f := f2, cs := max s.cs en,
           ow := if en > s.dl then owInsert (start, en) s.ow else s.ow }

/-- `set_current_size(size)` on an open consumer -/
def setSize (s : St) (size : Nat) : St :=
  let s1 := if size < s.cs ∨ size < s.dl then { s with f := ftruncate s.f size } else s
  let s2 := if size > s1.cs then overwrite s1 s1.cs (zeros (size - s1.cs)) else s1
  let s3 := { s2 with cs := size, ds := if size < s2.ds then size else s2.ds }
  if s3.dl ≥ s3.ds then downloadDone s3 true else s3

/-- `_reached_in_read` for a successful milestone: assert, seek, read -/
def runRead (s : St) (r : Rd) : Out :=
  if s.closed then ⟨r.id, r.off, r.len, .fail⟩              -- seek on a closed file raises
  else if s.cs < r.off + r.len then ⟨r.id, r.off, r.len, .fail⟩   -- `_assert` fails
  else ⟨r.id, r.off, r.len, .data (pread s.f r.off r.len)⟩

/-- `read(offset, length)` on an open consumer: an immediate answer, or a new milestone -/
def read (s : St) (off len : Nat) : St × List Out :=
  let id := s.nextId
  let s := { s with nextId := id + 1 }
  if off ≥ s.cs then (s, [⟨id, off, len, .eof⟩])
  else
    let len' := if off + len > s.cs then s.cs - off else len
    let needed := min (off + len') s.ds
    let r : Rd := ⟨id, needed, off, len'⟩
    match s.done with
    | .ok => (s, [runRead s r])
    | .failed => (s, [⟨id, off, len, .fail⟩])
    | .running =>
      if needed ≤ s.dl then (s, [runRead s r])
      else ({ s with ms := msInsert r s.ms }, [])

/-- one turn of the eventual queue -/
def flush (s : St) : St × List Out :=
  ({ s with queue := [] },
   s.queue.map (fun (r, ok) => if ok then runRead s r else ⟨r.id, r.off, r.len, .fail⟩))

/-- `close()`: closes the temporary file, then `download_done(b"closed")` (bytes, so pending reads are
called back and fail at the `seek` on the closed file) -/
def close (s : St) : St := downloadDone { s with closed := true } true

inductive Ev
  | chunk (n : Nat)                    -- the producer calls `write` with its next `n` bytes
  | overwrite (off : Nat) (data : Bytes)
  | setSize (n : Nat)
  | read (off len : Nat)
  | done (ok : Bool)                   -- `download_done(b"download finished")` / `download_done(Failure)`
  | flush
  | close
deriving DecidableEq, Repr

def init (orig : Bytes) : St :=
  { f := [], dl := 0, ds := orig.length, cs := orig.length, ow := [], ms := [], queue := [],
    done := .running, closed := false, pos := 0, nextId := 0 }

/-- Client operations on a closed consumer raise in the code; the model leaves the state alone and
answers nothing (the harness and the theorems never issue them). -/
def step (v : Variant) (orig : Bytes) (s : St) : Ev → St × List Out
  | .chunk n =>
    let data := (orig.drop s.pos).take n
    (write v { s with pos := s.pos + data.length } data, [])
  | .overwrite off data => if s.closed then (s, []) else (overwrite s off data, [])
  | .setSize n => if s.closed then (s, []) else (setSize s n, [])
  | .read off len => if s.closed then (s, []) else read s off len
  | .done ok => (downloadDone s ok, [])
  | .flush => flush s
  | .close => (close s, [])

/-- run a history, collecting the outputs of every step -/
def run (v : Variant) (orig : Bytes) : St → List Ev → St × List Out
  | s, [] => (s, [])
  | s, e :: es =>
    let r := step v orig s e
    let r2 := run v orig r.1 es
    (r2.1, r.2 ++ r2.2)

/-! ### the reference: the original contents with the client's operations applied in order -/

/-- a client write at `off`: a hole between the old end and `off` reads as zeroes (also for empty data,
the reading taken by the code's own comment in `overwrite`) -/
def refWrite (r : Bytes) (off : Nat) (d : Bytes) : Bytes :=
  let r' := r ++ zeros (off - r.length)
  r'.take off ++ d ++ r'.drop (off + d.length)

def refStep (r : Bytes) : Ev → Bytes
  | .overwrite off d => refWrite r off d
  | .setSize n => r.take n ++ zeros (n - r.length)
  | _ => r

def refRun (orig : Bytes) (es : List Ev) : Bytes := es.foldl refStep orig

end Tahoe.Sftp
