import Tahoe.Sftp.Consumer
/-
Model of `allmydata/frontends/sftpd.py` class `GeneralSFTPFile` for a handle opened on an EXISTING file
with FXF_WRITE and without FXF_TRUNC / FXF_CREAT: the request queue `async_`, the flag `has_changed`,
and the commit decision of `close`.  The consumer below it is `Tahoe/Sftp/Consumer.lean` (repaired
variant).  Mathlib-free, executable; driver `Drv/C39.lean`, command `c39h`.

* `writeChunk` / `setAttrs(size)` / `close` are *requests*: they return at once and append a callback
  to `async_`.  Until `open`'s `get_best_readable_version()` has fired (event `start`: the consumer is
  created and the download begins) the callbacks wait in `pend`; afterwards `async_` has already fired
  and a new callback runs synchronously — unless `_commit` is waiting for `consumer.when_done()`
  (`waiting`), which can only happen after `close`, when no further request is accepted.
* `has_changed` is set by `writeChunk` at the time of the request (`SetPoint.atRequest`, the code);
  `SetPoint.atApply` sets it when the queued write runs (seeded change C39-e).  `setAttrs(size)` sets it
  too, at the request (`sizeSets = true`, the code since fixes/C39-setattrs-has-changed.diff was committed
  as d9a6762; `sizeSets = false` is the code before that fix).
* `close` samples `has_changed` at the request: if it is false the close is reported successful at once
  and only `consumer.close()` is queued; otherwise `_commit` is queued: wait for `when_done()`, upload
  the whole temporary file (modelled as one atomic read: once the download is done no download write
  changes the file any more — `Inv.D` of the consumer), then `consumer.close()` and report.
* Not modelled: `readChunk` (reads are answered by the consumer, C39's other theorems), FXF_APPEND,
  `abandon`, rename, the directory update of `_commit` (stored contents only), errors of the upload.
-/
namespace Tahoe.Sftp

inductive SetPoint | atRequest | atApply
deriving DecidableEq, Repr

structure HVariant where
  setPoint : SetPoint
  sizeSets : Bool          -- does `setAttrs(size)` set `has_changed`?
deriving DecidableEq, Repr

/-- the code as it is in /repo (with fixes/C39-setattrs-has-changed.diff, commit d9a6762) -/
def HVariant.code : HVariant := ⟨.atRequest, true⟩
/-- the code before that fix: `setAttrs(size)` did not set `has_changed` -/
def HVariant.preFix : HVariant := ⟨.atRequest, false⟩
/-- seeded change C39-e (on top of the current code) -/
def HVariant.seedE : HVariant := ⟨.atApply, true⟩

/-- a callback on `async_` -/
inductive QOp
  | write (off : Nat) (data : Bytes)
  | setSize (n : Nat)
  | commitClose          -- `_commit` followed by `_do_close(d)`
  | closeOnly            -- `_do_close` alone (the close was already reported)
deriving DecidableEq, Repr

inductive CloseRes | pending | ok | failed
deriving DecidableEq, Repr

structure HSt where
  hasChanged : Bool
  closedReq : Bool        -- `self.closed`: close has been requested
  started : Bool          -- `async_` has reached `_read`: the consumer exists, the download runs
  pend : List QOp         -- callbacks not yet run
  waiting : Bool          -- `_commit` waits for `when_done()`
  c : St                  -- the consumer (meaningful once `started`)
  stored : Option Bytes   -- what `_commit` uploaded (`none`: nothing, the grid keeps the original)
  res : CloseRes          -- what the close request reported
deriving DecidableEq, Repr

inductive HEv
  | write (off : Nat) (data : Bytes)     -- request writeChunk
  | setSize (n : Nat)                    -- request setAttrs({"size": n})
  | close                                -- request close
  | start                                -- get_best_readable_version() fired
  | chunk (n : Nat)                      -- the download calls consumer.write
  | done (ok : Bool)                     -- the download calls consumer.download_done
  | turn                                 -- the eventual-queue turn in which `when_done()` can fire
deriving DecidableEq, Repr

def hinit (orig : Bytes) : HSt :=
  { hasChanged := false, closedReq := false, started := false, pend := [], waiting := false,
    c := init orig, stored := none, res := .pending }

/-- run one callback on a started handle whose chain is not blocked -/
def exec1 (hv : HVariant) (orig : Bytes) (h : HSt) : QOp → HSt
  | .write off data =>
    { h with c := (step .fixed orig h.c (.overwrite off data)).1,
             hasChanged := match hv.setPoint with | .atApply => true | .atRequest => h.hasChanged }
  | .setSize n => { h with c := (step .fixed orig h.c (.setSize n)).1 }
  | .commitClose => { h with waiting := true }
  | .closeOnly => { h with c := close h.c }

/-- run queued callbacks in order until the chain blocks on `_commit` -/
def drain (hv : HVariant) (orig : Bytes) : HSt → List QOp → HSt
  | h, [] => { h with pend := [] }
  | h, op :: rest => if h.waiting then { h with pend := op :: rest } else drain hv orig (exec1 hv orig h op) rest

/-- `async_.addCallback(op)` -/
def enqueue (hv : HVariant) (orig : Bytes) (h : HSt) (op : QOp) : HSt :=
  if h.started && !h.waiting then exec1 hv orig h op else { h with pend := h.pend ++ [op] }

def hstep (hv : HVariant) (orig : Bytes) (h : HSt) : HEv → HSt
  | .write off data =>
    if h.closedReq then h      -- "cannot write to a closed file handle"
    else
      let h1 := match hv.setPoint with | .atRequest => { h with hasChanged := true } | .atApply => h
      enqueue hv orig h1 (.write off data)
  | .setSize n =>
    if h.closedReq then h
    else enqueue hv orig (if hv.sizeSets then { h with hasChanged := true } else h) (.setSize n)
  | .close =>
    if h.closedReq then h
    else if h.hasChanged then enqueue hv orig { h with closedReq := true } .commitClose
    else enqueue hv orig { h with closedReq := true, res := .ok } .closeOnly
  | .start => if h.started then h else drain hv orig { h with started := true, c := init orig } h.pend
  | .chunk n => if h.started then { h with c := (step .fixed orig h.c (.chunk n)).1 } else h
  | .done ok => if h.started then { h with c := (step .fixed orig h.c (.done ok)).1 } else h
  | .turn =>
    if h.waiting then
      match h.c.done with
      | .running => h
      | .ok => drain hv orig { h with stored := some h.c.f, c := close h.c, res := .ok, waiting := false } h.pend
      | .failed => drain hv orig { h with c := close h.c, res := .failed, waiting := false } h.pend
    else h

def hrun (hv : HVariant) (orig : Bytes) : HSt → List HEv → HSt
  | h, [] => h
  | h, e :: es => hrun hv orig (hstep hv orig h e) es

/-- the reference: the original with the *accepted* requests (those made before `close`) applied in order -/
def hrefStep (r : Bytes × Bool) : HEv → Bytes × Bool      -- (reference, close requested)
  | .write off data => if r.2 then r else (refWrite r.1 off data, false)
  | .setSize n => if r.2 then r else (r.1.take n ++ zeros (n - r.1.length), false)
  | .close => (r.1, true)
  | _ => r

def href (orig : Bytes) (es : List HEv) : Bytes := (es.foldl hrefStep (orig, false)).1

end Tahoe.Sftp
