import Tahoe.Sftp.LemmasStep2
/-! client writes and size changes keep the invariant (no read is pending: caller contract). -/
namespace Tahoe.Sftp

theorem known_lt (orig ref : Bytes) (s : St) (h : Inv0 orig ref s) (i : Nat) (hi : i < s.cs) (hk : known s i) :
    i < s.f.length ∧ s.f[i]? = ref[i]? := by
  have := h.A i hi hk
  have hr : i < ref.length := by rw [h.reflen]; exact hi
  rw [List.getElem?_eq_getElem hr] at this
  exact ⟨(List.getElem?_eq_some_iff.mp this).1, by rw [this, List.getElem?_eq_getElem hr]⟩

theorem overwrite_fields (s : St) (off : Nat) (data : Bytes) :
    (overwrite s off data).dl = s.dl ∧ (overwrite s off data).ds = s.ds
    ∧ (overwrite s off data).cs = max s.cs (off + data.length)
    ∧ (overwrite s off data).ms = s.ms ∧ (overwrite s off data).queue = s.queue
    ∧ (overwrite s off data).done = s.done ∧ (overwrite s off data).closed = s.closed
    ∧ (overwrite s off data).pos = s.pos := by
  simp [overwrite]

theorem known_overwrite (s : St) (off : Nat) (data : Bytes) (i : Nat) :
    known (overwrite s off data) i ↔
      known s i ∨ (off + data.length > s.dl ∧ (if off > s.cs then s.cs else off) ≤ i ∧ i < off + data.length) := by
  simp only [known, overwrite]
  split
  · simp only [covered_owInsert]; grind
  · grind

theorem overwrite_inv0 (orig ref : Bytes) (s : St) (off : Nat) (data : Bytes) (h : Inv0 orig ref s)
    (hms : s.ms = []) (hq : s.queue = []) (hfl : off > s.cs → s.f.length ≤ s.cs) :
    Inv0 orig (refWrite ref off data) (overwrite s off data)
    ∧ (overwrite s off data).f.length ≤ max s.f.length (max s.cs (off + data.length)) := by
  obtain ⟨fdl, fds, fcs, fms, fq, fdone, fcl, fpos⟩ := overwrite_fields s off data
  have hk := known_overwrite s off data
  have hrl := h.reflen
  have hdscs := h.dscs
  have hrf := refWrite_getElem? ref data off
  have hff : (overwrite s off data).f =
      pwrite (if off > s.cs then pwrite s.f s.cs (zeros (off - s.cs)) else s.f) off data := by simp [overwrite]
  constructor
  · refine ⟨by rw [refWrite_length, fcs, hrl], by rw [fds, fcs]; omega, by rw [fds]; exact h.dsorig, ?_, ?_, ?_, ?_, ?_, ?_, ?_⟩
    · -- A
      intro i hi hkn
      rw [fcs] at hi
      rw [hff, hrf, pwrite_getElem?]
      have hkn' := (hk i).mp hkn
      by_cases hg : off > s.cs
      · have hfl' := hfl hg
        simp only [hg, ↓reduceIte] at hkn' ⊢
        have hz : zeros (off - s.cs) ≠ [] := by
          intro hz; have := congrArg List.length hz; simp at this; omega
        have hl1 : (pwrite s.f s.cs (zeros (off - s.cs))).length = off := by
          rw [pwrite_length]; simp [hz]; omega
        rw [hl1]
        by_cases hd : data = []
        · subst hd
          simp only [↓reduceIte, List.length_nil, Nat.add_zero] at hi hkn' ⊢
          rw [pwrite_getElem?]
          simp only [hz, ↓reduceIte, zeros_length, zeros_getElem?]
          by_cases h1 : i < s.cs
          · have hks : known s i := by
              rcases hkn' with a | a
              · exact a
              · omega
            have := known_lt orig ref s h i h1 hks
            obtain ⟨hx1, hx2⟩ := this; grind
          · have : i < off := by omega
            grind
        · simp only [hd, ↓reduceIte]
          by_cases h2 : i < off
          · simp only [h2, ↓reduceIte]
            rw [pwrite_getElem?]
            simp only [hz, ↓reduceIte, zeros_length, zeros_getElem?]
            by_cases h1 : i < s.cs
            · have hks : known s i := by
                rcases hkn' with a | a
                · exact a
                · omega
              have := known_lt orig ref s h i h1 hks
              obtain ⟨hx1, hx2⟩ := this; grind
            · grind
          · simp only [h2, ↓reduceIte]
            by_cases h3 : i < off + data.length
            · simp [h3]
            · omega
      · simp only [hg, ↓reduceIte] at hkn' ⊢
        by_cases hd : data = []
        · subst hd
          simp only [↓reduceIte, List.length_nil, Nat.add_zero] at hi hkn' ⊢
          have h1 : i < s.cs := by omega
          have hks : known s i := by
            rcases hkn' with a | a
            · exact a
            · omega
          have := known_lt orig ref s h i h1 hks
          obtain ⟨hx1, hx2⟩ := this; grind
        · simp only [hd, ↓reduceIte]
          by_cases h2 : i < off
          · have h1 : i < s.cs := by omega
            have hks : known s i := by
              rcases hkn' with a | a
              · exact a
              · omega
            have := known_lt orig ref s h i h1 hks
            obtain ⟨hx1, hx2⟩ := this; grind
          · simp only [h2, ↓reduceIte]
            by_cases h3 : i < off + data.length
            · simp [h3]
            · have h1 : i < s.cs := by omega
              have hks : known s i := by
                rcases hkn' with a | a
                · exact a
                · omega
              simp only [h3, ↓reduceIte]
              exact h.A i h1 hks
    · -- B
      intro i hi hnk
      rw [fds] at hi
      have hnks : ¬ known s i := fun x => hnk ((hk i).mpr (Or.inl x))
      rw [hrf, ← h.B i hi hnks]
      have h1 : i < s.cs := by omega
      by_cases hg : off > s.cs
      · simp [show i < off by omega, hrl, h1]
      · by_cases h2 : i < off
        · simp [h2, hrl, h1]
        · by_cases h3 : i < off + data.length
          · exfalso
            by_cases h4 : off + data.length > s.dl
            · exact hnk ((hk i).mpr (Or.inr ⟨h4, by simp [hg]; omega, h3⟩))
            · exact hnks (Or.inl (by omega))
          · simp [h2, h3]
    · simp only [overwrite]
      split
      · exact sorted_owInsert _ _ h.sorted
      · exact h.sorted
    · intro hd
      rw [fcl, fds]
      rcases h.D (by rwa [fdone] at hd) with a | a
      · exact Or.inl a
      · exact Or.inr (fun i hi => (hk i).mpr (Or.inl (a i hi)))
    · intro r hr; rw [fms, hms] at hr; cases hr
    · intro r hr; rw [fq, hq] at hr; cases hr
    · intro r hr; rw [fq, hq] at hr; cases hr
  · rw [hff, pwrite_length]
    by_cases hd : data = []
    · subst hd
      simp only [↓reduceIte]
      split
      · rw [pwrite_length]; split <;> (try simp only [zeros_length]) <;> omega
      · omega
    · simp only [hd, ↓reduceIte]
      split
      · rw [pwrite_length]; split <;> (try simp only [zeros_length]) <;> omega
      · omega

end Tahoe.Sftp
