import Tahoe.Sftp.Inv
/-! Once `done_status` is set no read waits on a milestone any more (used for the liveness theorem of C39). -/
namespace Tahoe.Sftp

/-- no milestone is left once the download is done (in any way) -/
def NoWait (s : St) : Prop := s.done ≠ .running → s.ms = []

theorem downloadDone_noWait (s : St) (ok : Bool) (h : NoWait s) :
    NoWait (downloadDone s ok) ∧ (downloadDone s ok).done ≠ .running := by
  unfold downloadDone NoWait
  split
  · refine ⟨fun _ => rfl, ?_⟩
    cases ok <;> simp
  · rename_i hd
    exact ⟨h, fun x => by simp_all⟩

theorem updateDownloaded_noWait (s : St) (nd : Nat) (h : NoWait s) : NoWait (updateDownloaded s nd) := by
  unfold updateDownloaded
  simp only
  by_cases hd : s.done = .running
  · split
    · rename_i hr
      split
      · apply (downloadDone_noWait _ true _).1
        intro _
        simpa using hr
      · intro _; simpa using hr
    · intro hx; exact absurd hd hx
  · have hms : s.ms = [] := h hd
    split
    · split
      · apply (downloadDone_noWait _ true _).1
        intro _; simp [hms]
      · intro _; simp [hms]
    · intro _; simp [hms]

theorem writeLoop_noWait (v : Variant) (next : Nat) : ∀ (fuel : Nat) (s : St) (data : Bytes),
    NoWait s → NoWait (writeLoop v next fuel s data) := by
  intro fuel
  induction fuel with
  | zero => intro s data h; simp only [writeLoop]; exact updateDownloaded_noWait _ _ h
  | succ fuel ih =>
    intro s data h
    simp only [writeLoop]
    split
    · exact updateDownloaded_noWait _ _ h
    · split
      · exact updateDownloaded_noWait _ _ h
      · split
        · exact updateDownloaded_noWait _ _ h
        · split
          · exact ih _ _ (updateDownloaded_noWait _ _ h)
          · exact ih _ _ h

theorem mem_msInsert_ne_nil (r : Rd) (l : List Rd) : msInsert r l ≠ [] := by
  cases l <;> simp [msInsert]; split <;> simp

/-- the four stages of `set_current_size` (proof-side decomposition; `setSize_stages` is by `rfl`) -/
def ssTrunc (size : Nat) (s : St) : St := if size < s.cs ∨ size < s.dl then { s with f := ftruncate s.f size } else s
def ssExt (size : Nat) (s1 : St) : St := if size > s1.cs then overwrite s1 s1.cs (zeros (size - s1.cs)) else s1
def ssSizes (size : Nat) (s2 : St) : St := { s2 with cs := size, ds := if size < s2.ds then size else s2.ds }
def ssFinish (s3 : St) : St := if s3.dl ≥ s3.ds then downloadDone s3 true else s3

theorem setSize_stages (s : St) (size : Nat) :
    setSize s size = ssFinish (ssSizes size (ssExt size (ssTrunc size s))) := rfl

theorem setSize_noWait (s : St) (size : Nat) (h : NoWait s) : NoWait (setSize s size) := by
  rw [setSize_stages]
  have h1 : NoWait (ssTrunc size s) := by unfold ssTrunc; split <;> exact h
  have h2 : NoWait (ssExt size (ssTrunc size s)) := by
    unfold ssExt; split
    · exact h1
    · exact h1
  have h3 : NoWait (ssSizes size (ssExt size (ssTrunc size s))) := h2
  unfold ssFinish
  split
  · exact (downloadDone_noWait _ true h3).1
  · exact h3

theorem read_noWait (s : St) (off len : Nat) (h : NoWait s) : NoWait (read s off len).1 := by
  generalize hr : read s off len = r
  unfold read at hr
  simp only at hr
  split at hr
  · subst hr; exact h
  · split at hr
    · subst hr; exact h
    · subst hr; exact h
    · rename_i hd
      have hd' : s.done = .running := hd
      split at hr <;> split at hr <;> subst hr <;>
        first
          | exact h
          | (intro hx; exact absurd hd' hx)

theorem step_noWait (v : Variant) (orig : Bytes) (s : St) (e : Ev) (h : NoWait s) : NoWait (step v orig s e).1 := by
  cases e with
  | chunk n =>
    simp only [step, write]
    split
    · exact h
    · split
      · exact h
      · exact writeLoop_noWait v _ _ _ _ h
  | overwrite off data =>
    simp only [step]; split
    · exact h
    · exact h
  | setSize n =>
    simp only [step]; split
    · exact h
    · exact setSize_noWait s n h
  | read off len =>
    simp only [step]; split
    · exact h
    · exact read_noWait s off len h
  | done ok => exact (downloadDone_noWait s ok h).1
  | flush => exact h
  | close => exact (downloadDone_noWait { s with closed := true } true h).1

theorem run_noWait (v : Variant) (orig : Bytes) : ∀ (es : List Ev) (s : St), NoWait s → NoWait (run v orig s es).1 := by
  intro es
  induction es with
  | nil => intro s h; simpa [run] using h
  | cons e es ih => intro s h; simp only [run]; exact ih _ (step_noWait v orig s e h)

end Tahoe.Sftp
