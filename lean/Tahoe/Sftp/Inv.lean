import Tahoe.Sftp.Consumer
/-! Definitions used to state and prove the C39 refinement: which positions of the temporary file
are already final (`known`), the invariant, and the well-formedness of histories (the caller
contract of `read`, and the wiring of `download_done` in `GeneralSFTPFile.open`). -/
namespace Tahoe.Sftp

/-- position `i` lies in a recorded overwrite -/
def covered (ow : List (Nat × Nat)) (i : Nat) : Prop := ∃ p ∈ ow, p.1 ≤ i ∧ i < p.2

/-- the temporary file already holds the final byte at `i`: downloaded, beyond the part of the
original that is still wanted, or overwritten by the client -/
def known (s : St) (i : Nat) : Prop := i < s.dl ∨ s.ds ≤ i ∨ covered s.ow i

def SortedOw (ow : List (Nat × Nat)) : Prop := ow.Pairwise (fun a b => a.1 ≤ b.1)

/-- the part of the invariant that the loop of `write` maintains -/
structure Inv0 (orig ref : Bytes) (s : St) : Prop where
  reflen : ref.length = s.cs
  dscs : s.ds ≤ s.cs
  dsorig : s.ds ≤ orig.length
  A : ∀ i, i < s.cs → known s i → s.f[i]? = ref[i]?
  B : ∀ i, i < s.ds → ¬ known s i → ref[i]? = orig[i]?
  sorted : SortedOw s.ow
  D : s.done = .ok → s.closed = true ∨ ∀ i, i < s.ds → known s i
  ms : ∀ r ∈ s.ms, r.off + r.len ≤ s.cs ∧ ∀ i, r.needed ≤ i → i < r.off + r.len → s.ds ≤ i
  q : ∀ r, (r, true) ∈ s.queue →
        s.closed = true ∨ (r.off + r.len ≤ s.cs ∧ ∀ i, r.off ≤ i → i < r.off + r.len → known s i)
  qf : ∀ r, (r, false) ∈ s.queue → s.done = .failed

structure Inv (orig ref : Bytes) (s : St) : Prop extends Inv0 orig ref s where
  flen : s.f.length ≤ s.cs
  C : s.closed = false → s.dl < s.ds → s.pos = s.dl

/-- the contract under which the class is used -/
def allowed (orig : Bytes) (s : St) : Ev → Prop
  | .overwrite _ _ => s.closed = false ∧ s.ms = [] ∧ s.queue = []   -- read(): "no more overwrites until the Deferred has fired"
  | .setSize _ => s.closed = false ∧ s.ms = [] ∧ s.queue = []
  | .done true => orig.length ≤ s.pos               -- "download finished" comes after the last chunk
  | _ => True

/-- a history all of whose events are allowed in the state in which they occur -/
def WF (v : Variant) (orig : Bytes) : St → List Ev → Prop
  | _, [] => True
  | s, e :: es => allowed orig s e ∧ WF v orig (step v orig s e).1 es

instance (orig : Bytes) (s : St) (e : Ev) : Decidable (allowed orig s e) := by
  cases e <;> unfold allowed <;> (try split) <;> infer_instance

instance instDecidableWF (v : Variant) (orig : Bytes) : (s : St) → (es : List Ev) → Decidable (WF v orig s es)
  | _, [] => isTrue trivial
  | s, e :: es =>
    match (inferInstance : Decidable (allowed orig s e)), instDecidableWF v orig (step v orig s e).1 es with
    | isTrue h1, isTrue h2 => isTrue ⟨h1, h2⟩
    | isFalse h1, _ => isFalse (fun h => h1 h.1)
    | _, isFalse h2 => isFalse (fun h => h2 h.2)

/-- events that are not client writes or size changes (download chunks, `download_done`, queue turns,
reads, close): they leave the reference alone -/
def Ev.keepsRef : Ev → Bool
  | .overwrite _ _ => false
  | .setSize _ => false
  | _ => true

/-- the trace of a history: after each event, the state, the reference and the reads that completed -/
def trace (v : Variant) (orig : Bytes) : St → Bytes → List Ev → List (St × Bytes × List Out)
  | _, _, [] => []
  | s, r, e :: es =>
    let x := step v orig s e
    let r' := refStep r e
    (x.1, r', x.2) :: trace v orig x.1 r' es

end Tahoe.Sftp
