import Tahoe.Spans.Model
/-!
Model of `allmydata/util/spans.py` class `DataSpans` (a sparse byte buffer kept as a sorted list of
`(start, data)` chunks).  Mathlib-free; executable; used by the driver `Drv/C37.lean`.

The Python methods mutate `self.spans` through an index `i`; the part of the list before `i` is never
touched again, so each `while` loop is written here as a structural recursion over the remaining
suffix.  Deviations from a literal transcription, all checked by correspondence on the exact `spans`
list:

* `add`, case A (`start < s_start`): the code inserts the new chunk and loops again *at the same old
  chunk* with `start = s_start` (then case B or C applies, or the loop ends because `data` is used
  up).  Here that second iteration is inlined (`stepAt` is called for the same chunk right away), so
  the recursion stays structural.
* offsets and lengths are `Nat` (Python ints; negative values are not modelled).
* `assert_invariants()` at the end of `add` is modelled separately as `assertOk` (it never fires on
  the states reachable from the empty buffer — theorem `assertOk_of_inv`).
-/
namespace Tahoe.Spans

abbrev Chunk := Nat × List UInt8          -- (start, data)

/-- Python `d[-n:]`: the last `n` elements; the whole list if `n = 0` (`d[-0:]` is `d[0:]`) or `n ≥ len`. -/
def pyLastN (d : List UInt8) (n : Nat) : List UInt8 :=
  if n == 0 then d else d.drop (d.length - n)

/-- One iteration of the `while len(data)` loop of `DataSpans.add` at the old chunk `c = (s_start, s_data)`
when `start < s_start` is false.  `e` is the `end` computed once at the top of `add`.
Returns the chunk(s) that replace `c` and, if the loop goes on, the new `(start, data)`
(`none` = `break`).  Cases as named in the code's comment:
C (replace whole chunk, continue), B (replace prefix, break), E (replace middle, break),
D (replace suffix, continue), else "still looking" (`i += 1`). -/
def stepAt (e start : Nat) (data : List UInt8) (c : Chunk) : List Chunk × Option (Nat × List UInt8) :=
  let sStart := c.1
  let sData := c.2
  let sLen := sData.length
  let sEnd := sStart + sLen
  if sStart ≤ start && start < sEnd then
    if sStart == start then
      if sEnd ≤ e then
        -- case C: self.spans[i] = (s_start, data[:s_len]); start += s_len; data = data[s_len:]
        ([(sStart, data.take sLen)], some (start + sLen, data.drop sLen))
      else
        -- case B: self.spans[i] = (s_start, data + s_data[len(data):]); break
        ([(sStart, data ++ sData.drop data.length)], none)
    else if start > sStart && e < sEnd then
      -- case E: s_data[:prefix_len] + data + s_data[-suffix_len:]; break
      let prefixLen := start - sStart
      let suffixLen := sEnd - e
      ([(sStart, sData.take prefixLen ++ data ++ pyLastN sData suffixLen)], none)
    else
      -- case D: s_data[:prefix_len] + data[:suffix_len]; start += suffix_len; data = data[suffix_len:]
      let prefixLen := start - sStart
      let suffixLen := sLen - prefixLen
      ([(sStart, sData.take prefixLen ++ data.take suffixLen)], some (start + suffixLen, data.drop suffixLen))
  else
    -- not there yet: i += 1
    ([c], some (start, data))

/-- the `while len(data)` loop of `DataSpans.add` over the chunks from index `i` on. -/
def addLoop (e : Nat) : Nat → List UInt8 → List Chunk → List Chunk
  | start, data, [] =>
    -- `i >= len(self.spans)`: append a last span (only if the loop is entered at all)
    if data.length = 0 then [] else [(start, data)]
  | start, data, c :: rest =>
    if data.length = 0 then c :: rest
    else if start < c.1 then
      -- case A: insert (start, data[:s_len]) before c; start = s_start; data = data[s_len:]; loop
      let n := c.1 - start
      let data' := data.drop n
      (start, data.take n) ::
        (if data'.length = 0 then c :: rest
         else
          let r := stepAt e c.1 data' c
          r.1 ++ (match r.2 with
            | none => rest
            | some (st, d) => addLoop e st d rest))
    else
      let r := stepAt e start data c
      r.1 ++ (match r.2 with
        | none => rest
        | some (st, d) => addLoop e st d rest)

/-- the merge pass at the end of `add`: `cur` is `newspans[-1]`. -/
def mergeGo (cur : Chunk) : List Chunk → List Chunk
  | [] => [cur]
  | c :: rest =>
    if adjacent cur.1 cur.2.length c.1 c.2.length then mergeGo (cur.1, cur.2 ++ c.2) rest
    else cur :: mergeGo c rest

def dmerge : List Chunk → List Chunk
  | [] => []
  | c :: rest => mergeGo c rest

/-- `DataSpans.add(start, data)` -/
def dadd (s : List Chunk) (start : Nat) (data : List UInt8) : List Chunk :=
  dmerge (addLoop (start + data.length) start data s)

/-- `assert_invariants()` as written: every later chunk is compared with the end of the *first* chunk
(`prev_end` is never advanced).  `true` = no AssertionError. -/
def assertOk : List Chunk → Bool
  | [] => true
  | c :: rest => rest.all (fun d => d.1 > c.1 + c.2.length)

/-- `DataSpans.remove(start, length)` -/
def dremove (start length : Nat) : List Chunk → List Chunk
  | [] => []
  | c :: rest =>
    let e := start + length
    let sStart := c.1
    let sData := c.2
    if sStart ≥ e then c :: rest                -- entirely right of the removed region: break
    else
      let sLen := sData.length
      let sEnd := sStart + sLen
      match overlap start length sStart sLen with
      | none => c :: dremove start length rest
      | some (oStart, oLen) =>
        let oEnd := oStart + oLen
        if oLen == sLen then dremove start length rest                     -- del self.spans[i]
        else if oStart == sStart then
          (oEnd, sData.drop (oEnd - oStart)) :: dremove start length rest  -- remove a prefix
        else if oEnd == sEnd then
          (sStart, sData.take (oStart - sStart)) :: dremove start length rest  -- remove a suffix
        else
          -- remove the middle: left = s_data[:left_len], right = s_data[-right_len:]; break
          (sStart, sData.take (oStart - sStart)) :: (oEnd, pyLastN sData (sEnd - oEnd)) :: rest

/-- `DataSpans.get(start, length)`: `none` is Python's `None`. -/
def dget (start length : Nat) : List Chunk → Option (List UInt8)
  | [] => none
  | c :: rest =>
    let e := start + length
    let sEnd := c.1 + c.2.length
    if c.1 ≤ start && start < sEnd then
      let offset := start - c.1
      if offset + length > c.2.length then none            -- span falls short
      else some ((c.2.drop offset).take length)            -- s_data[offset:offset+length]
    else if c.1 ≥ e then none                              -- gone too far
    else dget start length rest

/-- `DataSpans.pop(start, length)`: `remove` only when the data is truthy (not `None`, not `b""`). -/
def dpop (s : List Chunk) (start length : Nat) : Option (List UInt8) × List Chunk :=
  match dget start length s with
  | some (b :: bs) => (some (b :: bs), dremove start length s)
  | r => (r, s)

/-- `DataSpans.len()` -/
def dlen (s : List Chunk) : Nat := (s.map (fun c => c.2.length)).sum

/-- `DataSpans._dump()`: the offset of every byte held, chunk by chunk -/
def dDump (s : List Chunk) : List Nat := s.flatMap (fun c => List.range' c.1 c.2.length)

/-- `DataSpans.__bool__`: `bool(self.len())` -/
def dBool (s : List Chunk) : Bool := dlen s != 0

/-- `DataSpans.get_spans()`: `Spans([(start, len(data)) …])`; the constructor `add`s each pair
(and skips everything when the list is empty/falsy). -/
def getSpans (s : List Chunk) : List Span :=
  addAll [] (s.map (fun c => (c.1, c.2.length)))

/-- the state-changing operations of a `DataSpans` history. -/
inductive DOp where
  | add (start : Nat) (data : List UInt8)
  | remove (start length : Nat)
  | pop (start length : Nat)

def applyDOp (s : List Chunk) : DOp → List Chunk
  | .add a d => dadd s a d
  | .remove a l => dremove a l s
  | .pop a l => (dpop s a l).2

def drun (s : List Chunk) (ops : List DOp) : List Chunk := ops.foldl applyDOp s

/-- one step of an observed history: a state-changing operation (`pop` also answers) or the query `get` -/
inductive DQ where
  | op (o : DOp)
  | get (start length : Nat)

/-- new state and the answer (`get`/`pop` result), if the step answers -/
def dstepQ (s : List Chunk) : DQ → List Chunk × Option (Option (List UInt8))
  | .op (.pop a l) => ((dpop s a l).2, some (dpop s a l).1)
  | .op o => (applyDOp s o, none)
  | .get a l => (s, some (dget a l s))

/-- the answers of a whole history, in order -/
def dtrace (s : List Chunk) : List DQ → List (Option (List UInt8))
  | [] => []
  | q :: rest => (dstepQ s q).2.toList ++ dtrace (dstepQ s q).1 rest

/-- abstract view: the byte stored at offset `x`, if any (first chunk that covers `x`). -/
def byteAt : List Chunk → Nat → Option UInt8
  | [], _ => none
  | c :: rest, x => if c.1 ≤ x ∧ x < c.1 + c.2.length then c.2[x - c.1]? else byteAt rest x

/-- the class invariant: sorted, non-empty chunks, a gap of at least one offset between chunks
(`DInv s` is `DChain 0 s`; `b` is a lower bound for the first start). -/
def DChain : Nat → List Chunk → Prop
  | _, [] => True
  | b, c :: rest => b ≤ c.1 ∧ 0 < c.2.length ∧ DChain (c.1 + c.2.length + 1) rest

def DInv (s : List Chunk) : Prop := DChain 0 s

end Tahoe.Spans
