import Tahoe.Spans.DataModel
/-!
Named values for C37: a register file of `Spans` objects `r0, r1, …` and `DataSpans` objects
`d0, d1, …`, with every value-returning operation of `util/spans.py` storing its result under a
name (`r2 = r0 & r1`, `r3 = Spans(r0)`, `r1 = d0.get_spans()`, `d1 = DataSpans(d0)` …) and the
in-place operations (`add`, `remove`, `+=`, `-=`, `DataSpans.add/remove/pop`) acting on one name.

The model is pure, so a result never shares state with an operand: an operation changes the register
it writes and nothing else (`Tahoe.C37.rstep_frame_r/_d`).  That is the value semantics of "a set of
integers" / "a partial map"; the correspondence check compares *all* registers with the real
objects after every step, so a result that aliases an operand in the real code shows up as soon as
either is mutated in place.

The value-returning operators are transcribed with the copies the code makes:
`__add__`/`__sub__` start from `self.__class__(self)` (the copy constructor re-`add`s every span),
`__and__` is `self - (bounds - other)` built from two `__sub__` calls.
-/
namespace Tahoe.Spans

/-- `Spans(other)` / `Spans([(start, length), …])`: a fresh object, every pair `add`ed. -/
def spCopy (s : List Span) : List Span := addAll [] s

/-- `self + other` -/
def spOr (s o : List Span) : List Span := addAll (spCopy s) o

/-- `self - other` -/
def spSub (s o : List Span) : List Span := removeAll (spCopy s) o

/-- `self & other`, as written: empty if `self` is empty, else `self - (bounds - other)` with
`bounds = Spans(first_start, last_start + last_length)` (sic). -/
def spAnd (s o : List Span) : List Span :=
  match s, s.getLast? with
  | [], _ => []
  | f :: _, some lst => spSub s (spSub [(f.1, lst.1 + lst.2)] o)
  | _, none => []

/-- `DataSpans(other)`: a fresh object, every chunk of `other.get_chunks()` `add`ed. -/
def dCopy (s : List Chunk) : List Chunk := s.foldl (fun acc c => dadd acc c.1 c.2) []

structure RState where
  r : Nat → List Span
  d : Nat → List Chunk

def upd {α : Type} (f : Nat → α) (k : Nat) (v : α) : Nat → α := fun i => if i = k then v else f i

inductive ROp where
  | add (k a l : Nat)                       -- rk.add(a, l)
  | rm (k a l : Nat)                        -- rk.remove(a, l)
  | and (k i j : Nat)                       -- rk = ri & rj
  | sub (k i j : Nat)                       -- rk = ri - rj
  | or (k i j : Nat)                        -- rk = ri + rj
  | iadd (i j : Nat)                        -- ri += rj
  | isub (i j : Nat)                        -- ri -= rj
  | copy (k i : Nat)                        -- rk = Spans(ri)
  | set (k : Nat) (pairs : List Span)       -- rk = Spans([(start, length), …])
  | single (k a l : Nat)                    -- rk = Spans(a, l)
  | dadd (d off : Nat) (data : List UInt8)  -- dd.add(off, data)
  | drm (d a l : Nat)                       -- dd.remove(a, l)
  | dpop (d a l : Nat)                      -- dd.pop(a, l)
  | dcopy (d e : Nat)                       -- dd = DataSpans(de)
  | getspans (k d : Nat)                    -- rk = dd.get_spans()

/-- the `Spans` register an operation writes, if any -/
def ROp.rTarget : ROp → Option Nat
  | .add k _ _ | .rm k _ _ | .and k _ _ | .sub k _ _ | .or k _ _ | .copy k _ | .set k _
  | .single k _ _ | .getspans k _ => some k
  | .iadd i _ | .isub i _ => some i
  | _ => none

/-- the `DataSpans` register an operation writes, if any -/
def ROp.dTarget : ROp → Option Nat
  | .dadd d _ _ | .drm d _ _ | .dpop d _ _ | .dcopy d _ => some d
  | _ => none

def rstep (st : RState) : ROp → RState
  | .add k a l => { st with r := upd st.r k (add (st.r k) a l) }
  | .rm k a l => { st with r := upd st.r k (remove (st.r k) a l) }
  | .and k i j => { st with r := upd st.r k (spAnd (st.r i) (st.r j)) }
  | .sub k i j => { st with r := upd st.r k (spSub (st.r i) (st.r j)) }
  | .or k i j => { st with r := upd st.r k (spOr (st.r i) (st.r j)) }
  | .iadd i j => { st with r := upd st.r i (addAll (st.r i) (st.r j)) }
  | .isub i j => { st with r := upd st.r i (removeAll (st.r i) (st.r j)) }
  | .copy k i => { st with r := upd st.r k (spCopy (st.r i)) }
  | .set k pairs => { st with r := upd st.r k (spCopy pairs) }
  | .single k a l => { st with r := upd st.r k [(a, l)] }
  | .dadd d off data => { st with d := upd st.d d (dadd (st.d d) off data) }
  | .drm d a l => { st with d := upd st.d d (dremove a l (st.d d)) }
  | .dpop d a l => { st with d := upd st.d d (dpop (st.d d) a l).2 }
  | .dcopy d e => { st with d := upd st.d d (dCopy (st.d e)) }
  | .getspans k d => { st with r := upd st.r k (getSpans (st.d d)) }

def rrun (st : RState) (ops : List ROp) : RState := ops.foldl rstep st

def RState.empty : RState := { r := fun _ => [], d := fun _ => [] }

end Tahoe.Spans
