import Tahoe.Spans.Lemmas
import Tahoe.Spans.DataLemmas
/-!
Helper lemmas for C37: the representations are maximally merged and canonical — a well-formed span
list / chunk list is determined by the set / partial map it denotes.
-/
namespace Tahoe.Spans

/-! ### Spans -/

theorem mem_head {c : Span} {rest : List Span} (hc : 0 < c.2) : mem (c :: rest) c.1 = true := by
  rw [mem_cons]; simp; left; omega

theorem chain_ext {b : Nat} {s t : List Span} (hs : Chain b s) (ht : Chain b t)
    (h : ∀ x, mem s x = mem t x) : s = t := by
  induction s generalizing b t with
  | nil =>
    cases t with
    | nil => rfl
    | cons d t' =>
      have := h d.1
      rw [mem_head ht.2.1] at this
      simp [mem] at this
  | cons c s' ih =>
    cases t with
    | nil =>
      have := h c.1
      rw [mem_head hs.2.1] at this
      simp [mem] at this
    | cons d t' =>
      obtain ⟨hs1, hs2, hs3⟩ := hs
      obtain ⟨ht1, ht2, ht3⟩ := ht
      have hcs : Chain c.1 (c :: s') := ⟨Nat.le_refl _, hs2, hs3⟩
      have hdt : Chain d.1 (d :: t') := ⟨Nat.le_refl _, ht2, ht3⟩
      -- equal starts
      have e1 : c.1 = d.1 := by
        rcases Nat.lt_trichotomy c.1 d.1 with hlt | heq | hgt
        · have h1 := h c.1
          rw [mem_head hs2] at h1
          have := chain_mem_ge hdt h1.symm; omega
        · exact heq
        · have h1 := h d.1
          rw [mem_head ht2] at h1
          have := chain_mem_ge hcs h1; omega
      -- equal lengths
      have inC : ∀ x, mem (c :: s') x = true → ¬ (c.1 ≤ x ∧ x < c.1 + c.2) → c.1 + c.2 + 1 ≤ x := by
        intro x hx hn
        rw [mem_cons] at hx
        simp only [Bool.or_eq_true, Bool.and_eq_true, decide_eq_true_eq] at hx
        rcases hx with hx | hx
        · exact absurd hx hn
        · exact chain_mem_ge hs3 hx
      have inD : ∀ x, mem (d :: t') x = true → ¬ (d.1 ≤ x ∧ x < d.1 + d.2) → d.1 + d.2 + 1 ≤ x := by
        intro x hx hn
        rw [mem_cons] at hx
        simp only [Bool.or_eq_true, Bool.and_eq_true, decide_eq_true_eq] at hx
        rcases hx with hx | hx
        · exact absurd hx hn
        · exact chain_mem_ge ht3 hx
      have e2 : c.2 = d.2 := by
        rcases Nat.lt_trichotomy c.2 d.2 with hlt | heq | hgt
        · have h1 : mem (d :: t') (c.1 + c.2) = true := by rw [mem_cons]; simp; left; omega
          rw [← h] at h1
          have := inC _ h1 (by omega); omega
        · exact heq
        · have h1 : mem (c :: s') (d.1 + d.2) = true := by rw [mem_cons]; simp; left; omega
          rw [h] at h1
          have := inD _ h1 (by omega); omega
      have ecd : c = d := Prod.ext e1 e2
      subst ecd
      have htail : ∀ x, mem s' x = mem t' x := by
        intro x
        have hx := h x
        rw [mem_cons, mem_cons] at hx
        by_cases hin : c.1 ≤ x ∧ x < c.1 + c.2
        · have a1 : mem s' x = false := by
            cases hm : mem s' x with
            | false => rfl
            | true => have := chain_mem_ge hs3 hm; omega
          have a2 : mem t' x = false := by
            cases hm : mem t' x with
            | false => rfl
            | true => have := chain_mem_ge ht3 hm; omega
          rw [a1, a2]
        · have : (decide (c.1 ≤ x) && decide (x < c.1 + c.2)) = false := by simp; omega
          simpa [this] using hx
      rw [ih hs3 ht3 htail]

/-! ### DataSpans -/

/-- consecutive chunks are separated by at least one free offset (so: not adjacent, not overlapping, sorted) -/
theorem dchain_gap {b : Nat} {s : List Chunk} (h : DChain b s) (i : Nat) (c d : Chunk)
    (hc : s[i]? = some c) (hd : s[i + 1]? = some d) : 0 < c.2.length ∧ c.1 + c.2.length < d.1 := by
  induction s generalizing b i with
  | nil => simp at hc
  | cons c0 rest ih =>
    cases i with
    | zero =>
      simp only [List.getElem?_cons_zero, Option.some.injEq] at hc
      subst hc
      cases rest with
      | nil => simp at hd
      | cons d0 rest' =>
        simp only [Nat.zero_add, List.getElem?_cons_succ, List.getElem?_cons_zero, Option.some.injEq] at hd
        subst hd
        have := h.2.2.1
        exact ⟨h.2.1, by omega⟩
    | succ i =>
      rw [List.getElem?_cons_succ] at hc hd
      exact ih h.2.2 i hc hd

/-- every chunk is a maximal run of stored offsets: the offsets just before and just after it are free,
and the chunk holds exactly the bytes of its range -/
theorem chunk_maximal {b : Nat} {s : List Chunk} (h : DChain b s) (c : Chunk) (hc : c ∈ s) :
    byteAt s (c.1 + c.2.length) = none ∧ (0 < c.1 → byteAt s (c.1 - 1) = none) ∧
    ∀ i, i < c.2.length → byteAt s (c.1 + i) = c.2[i]? := by
  induction s generalizing b with
  | nil => cases hc
  | cons c0 rest ih =>
    obtain ⟨h1, h2, h3⟩ := h
    rcases List.mem_cons.1 hc with rfl | hc
    · refine ⟨?_, fun _ => ?_, fun i hi => ?_⟩
      · rw [byteAt_cons, if_neg (by omega)]; exact byteAt_lt h3.toW (by omega)
      · rw [byteAt_cons, if_neg (by omega)]; exact byteAt_lt h3.toW (by omega)
      · rw [byteAt_cons, if_pos (by omega)]; exact getElem?_congr _ (by omega)
    · obtain ⟨r1, r2, r3⟩ := ih h3 hc
      have hge := dchain_ge h3 c hc
      refine ⟨?_, fun hpos => ?_, fun i hi => ?_⟩
      · rw [byteAt_cons, if_neg (by omega)]; exact r1
      · rw [byteAt_cons, if_neg (by omega)]; exact r2 hpos
      · rw [byteAt_cons, if_neg (by omega)]; exact r3 i hi

theorem byteAt_head {c : Chunk} {rest : List Chunk} (hc : 0 < c.2.length) :
    (byteAt (c :: rest) c.1).isSome = true := by
  rw [byteAt_isSome_cons]; simp; left; omega

theorem dchain_ext {b : Nat} {s t : List Chunk} (hs : DChain b s) (ht : DChain b t)
    (h : ∀ x, byteAt s x = byteAt t x) : s = t := by
  induction s generalizing b t with
  | nil =>
    cases t with
    | nil => rfl
    | cons d t' =>
      have := byteAt_head (rest := t') ht.2.1
      rw [← h] at this
      simp [byteAt] at this
  | cons c s' ih =>
    cases t with
    | nil =>
      have := byteAt_head (rest := s') hs.2.1
      rw [h] at this
      simp [byteAt] at this
    | cons d t' =>
      obtain ⟨hs1, hs2, hs3⟩ := hs
      obtain ⟨ht1, ht2, ht3⟩ := ht
      have hcs : WChain c.1 (c :: s') := ⟨Nat.le_refl _, hs2, hs3.toW.mono (by omega)⟩
      have hdt : WChain d.1 (d :: t') := ⟨Nat.le_refl _, ht2, ht3.toW.mono (by omega)⟩
      have e1 : c.1 = d.1 := by
        rcases Nat.lt_trichotomy c.1 d.1 with hlt | heq | hgt
        · have h1 := byteAt_head (rest := s') hs2
          rw [h, byteAt_lt hdt hlt] at h1; cases h1
        · exact heq
        · have h1 := byteAt_head (rest := t') ht2
          rw [← h, byteAt_lt hcs hgt] at h1; cases h1
      have e2 : c.2.length = d.2.length := by
        rcases Nat.lt_trichotomy c.2.length d.2.length with hlt | heq | hgt
        · have h1 : (byteAt (d :: t') (c.1 + c.2.length)).isSome = true := by
            rw [byteAt_isSome_cons]; simp; left; omega
          rw [← h, byteAt_cons, if_neg (by omega), byteAt_lt hs3.toW (by omega)] at h1; cases h1
        · exact heq
        · have h1 : (byteAt (c :: s') (d.1 + d.2.length)).isSome = true := by
            rw [byteAt_isSome_cons]; simp; left; omega
          rw [h, byteAt_cons, if_neg (by omega), byteAt_lt ht3.toW (by omega)] at h1; cases h1
      have e3 : c.2 = d.2 := by
        apply List.ext_getElem?
        intro i
        by_cases hi : i < c.2.length
        · have := h (c.1 + i)
          rw [byteAt_cons, byteAt_cons, if_pos (by omega), if_pos (by omega)] at this
          rw [show c.1 + i - c.1 = i by omega, show c.1 + i - d.1 = i by omega] at this
          exact this
        · rw [List.getElem?_eq_none (by omega), List.getElem?_eq_none (by omega)]
      have ecd : c = d := Prod.ext e1 e3
      subst ecd
      have htail : ∀ x, byteAt s' x = byteAt t' x := by
        intro x
        by_cases hin : c.1 ≤ x ∧ x < c.1 + c.2.length
        · rw [byteAt_lt hs3.toW (by omega), byteAt_lt ht3.toW (by omega)]
        · have hx := h x
          rw [byteAt_cons, byteAt_cons, if_neg hin, if_neg hin] at hx
          exact hx
      rw [ih hs3 ht3 htail]

end Tahoe.Spans
