/-
Model of `allmydata/util/spans.py` class `Spans` (a set of integers kept as a sorted list of
(start, length) spans).  Mathlib-free; executable; used by the driver `Drv/C37.lean`.

`add` follows the code: scan for the run of spans that overlap or are adjacent to the new span,
replace that run by one span from `min(start, first_start)` to `max(end, last_end)`; if there is
no such run the new span is inserted at its sorted position (the code inserts at 0 and sorts; on
the sorted lists the class maintains this is the same list — checked by correspondence on
`_spans`).

`remove` is written span by span (`flatMap removeOne`); `removeLit` below is the method as written
(in-place pass `removeScan`, deferred slice delete, append+sort as ordered insertion into the not yet
scanned suffix), the driver runs `removeLit`, and `Tahoe.C37.remove_as_written_eq` proves the two equal
on every list satisfying the class invariant.  The code mutates `_spans` while enumerating
it: trims are done in place, a middle split replaces the span, appends the right part, sorts and
`break`s, and completely covered spans are deleted afterwards as one slice
`[first_complete_overlap : last_complete_overlap+1]`.  On the sorted, disjoint lists the class
maintains (`WF`, asserted by `_check` after every mutation) this is the same list: completely
covered spans are contiguous, and a middle split means no other span overlaps.  The lists are
compared after every `remove` by the correspondence check.  `mem_remove` holds for arbitrary lists;
the other theorems assume `WF`, which `wf_add`/`wf_remove`/`spans_history` show is never lost.
-/
namespace Tahoe.Spans

abbrev Span := Nat × Nat          -- (start, length)

/-- `overlap` of spans.py: the overlapping region or none. -/
def overlap (s0 l0 s1 l1 : Nat) : Option Span :=
  let left := max s0 s1
  let right := min (s0 + l0) (s1 + l1)
  if left < right then some (left, right - left) else none

/-- `adjacent` of spans.py. -/
def adjacent (s0 l0 s1 l1 : Nat) : Bool :=
  (s0 < s1 && s0 + l0 == s1) || (s1 < s0 && s1 + l1 == s0)

def touches (sp : Span) (a l : Nat) : Bool :=
  (overlap sp.1 sp.2 a l).isSome || adjacent sp.1 sp.2 a l

/-- absorb the run of touching spans that follows the first one; `lo`/`hi` are the bounds so far.
The code takes `hi` from the *last* touching span only; on sorted disjoint lists that is the max. -/
def absorb (lo hi a l : Nat) : List Span → List Span
  | [] => [(lo, hi - lo)]
  | sp :: rest =>
    if touches sp a l then absorb lo (max hi (sp.1 + sp.2)) a l rest
    else (lo, hi - lo) :: sp :: rest

def add : List Span → Nat → Nat → List Span
  | [], a, l => [(a, l)]
  | sp :: rest, a, l =>
    if touches sp a l then absorb (min a sp.1) (max (a + l) (sp.1 + sp.2)) a l rest
    else if a < sp.1 then (a, l) :: sp :: rest   -- sorted position; nothing further right touches
    else sp :: add rest a l

/-- `remove` of spans.py, span by span (complete overlap → drop, left/right trim, middle split). -/
def removeOne (sp : Span) (a l : Nat) : List Span :=
  match overlap sp.1 sp.2 a l with
  | none => [sp]
  | some (os, ol) =>
    let sEnd := sp.1 + sp.2
    let oEnd := os + ol
    if os == sp.1 && oEnd == sEnd then []
    else if os == sp.1 then [(oEnd, sEnd - oEnd)]
    else if oEnd == sEnd then [(sp.1, os - sp.1)]
    else [(sp.1, os - sp.1), (oEnd, sEnd - oEnd)]

def remove (s : List Span) (a l : Nat) : List Span :=
  s.flatMap (fun sp => removeOne sp a l)

/-- `self._spans.append(x); self._spans.sort()` seen from the not yet scanned suffix: ordered insertion
(tuples compare lexicographically). -/
def insertSpan (x : Span) : List Span → List Span
  | [] => [x]
  | y :: ys => if x.1 < y.1 || (x.1 == y.1 && x.2 ≤ y.2) then x :: y :: ys else y :: insertSpan x ys

/-- the `for i, (s_start, s_length) in enumerate(self._spans)` pass of `Spans.remove` with its in-place edits:
returns the edited list, `first_complete_overlap`, `last_complete_overlap`; `i` is the index of the head. -/
def removeScan (a l : Nat) : Nat → List Span → List Span × Option Nat × Option Nat
  | _, [] => ([], none, none)
  | i, sp :: rest =>
    match overlap sp.1 sp.2 a l with
    | none => let r := removeScan a l (i + 1) rest; (sp :: r.1, r.2.1, r.2.2)
    | some (os, ol) =>
      let sEnd := sp.1 + sp.2
      let oEnd := os + ol
      if os == sp.1 && oEnd == sEnd then
        let r := removeScan a l (i + 1) rest
        (sp :: r.1, some i, some (r.2.2.getD i))
      else if os == sp.1 then
        let r := removeScan a l (i + 1) rest
        ((oEnd, sEnd - oEnd) :: r.1, r.2.1, r.2.2)
      else if oEnd == sEnd then
        let r := removeScan a l (i + 1) rest
        ((sp.1, os - sp.1) :: r.1, r.2.1, r.2.2)
      else ((sp.1, os - sp.1) :: insertSpan (oEnd, sEnd - oEnd) rest, none, none)

/-- `Spans.remove` as written: the pass, then `del self._spans[first:last+1]` -/
def removeLit (s : List Span) (a l : Nat) : List Span :=
  let r := removeScan a l 0 s
  match r.2.1, r.2.2 with
  | some f, some la => r.1.take f ++ r.1.drop (la + 1)
  | _, _ => r.1

def len (s : List Span) : Nat := (s.map (·.2)).sum

/-- `__contains__((start, length))`: some single span contains the whole range. -/
def containsRange (s : List Span) (a l : Nat) : Bool :=
  s.any (fun sp => match overlap a l sp.1 sp.2 with
    | some (os, ol) => os == a && ol == l
    | none => false)

def addAll (s : List Span) (o : List Span) : List Span := o.foldl (fun acc sp => add acc sp.1 sp.2) s
def removeAll (s : List Span) (o : List Span) : List Span := o.foldl (fun acc sp => remove acc sp.1 sp.2) s

/-- `__and__`: `self - (bounds - other)` with bounds = one span from first start of length
`last_start + last_length` (sic: the code passes the *end* as a length; harmless, it only needs to cover). -/
def inter (s o : List Span) : List Span :=
  match s, s.getLast? with
  | [], _ => []
  | f :: _, some lst =>
    let bounds : List Span := [(f.1, lst.1 + lst.2)]
    removeAll s (removeAll bounds o)
  | _, none => []

/-- `each()`: `for start, length in self._spans: for i in range(start, start+length): yield i` -/
def each (s : List Span) : List Nat := s.flatMap (fun sp => List.range' sp.1 sp.2)

/-- `__bool__`: `bool(self.len())` -/
def spBool (s : List Span) : Bool := len s != 0

/-- membership of a point -/
def mem (s : List Span) (x : Nat) : Bool := s.any (fun sp => sp.1 ≤ x && x < sp.1 + sp.2)

/-- the class invariant (`_check`): sorted, every length positive, gaps between consecutive spans. -/
def WF : List Span → Prop
  | [] => True
  | [sp] => 0 < sp.2
  | sp :: sq :: rest => 0 < sp.2 ∧ sp.1 + sp.2 < sq.1 ∧ WF (sq :: rest)

/-- the state-changing operations of a `Spans` history (`add`, `remove`, `self & other`,
`self + other` / `+=`, `self - other` / `-=`). -/
inductive Op where
  | add (a l : Nat)
  | remove (a l : Nat)
  | inter (o : List Span)
  | union (o : List Span)
  | diff (o : List Span)

def applyOp (s : List Span) : Op → List Span
  | .add a l => add s a l
  | .remove a l => remove s a l
  | .inter o => inter s o
  | .union o => addAll s o
  | .diff o => removeAll s o

def run (s : List Span) (ops : List Op) : List Span := ops.foldl applyOp s

/-- one step of an observed history: a state-changing operation or the query `(a, l) in spans` -/
inductive SQ where
  | op (o : Op)
  | contains (a l : Nat)

/-- new state and the answer, if the step is a query -/
def sstepQ (s : List Span) : SQ → List Span × Option Bool
  | .op o => (applyOp s o, none)
  | .contains a l => (s, some (containsRange s a l))

/-- the answers of a whole history, in order -/
def strace (s : List Span) : List SQ → List Bool
  | [] => []
  | q :: rest => (sstepQ s q).2.toList ++ strace (sstepQ s q).1 rest

end Tahoe.Spans
