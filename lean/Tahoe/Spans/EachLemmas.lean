import Tahoe.Spans.Lemmas
import Tahoe.Spans.DataLemmas
/-!
Helper lemmas for C37: the enumerations `each()` / `_dump()`, `bool()`, and `get`/`pop` of an empty range.
-/
namespace Tahoe.Spans

theorem each_cons (sp : Span) (rest : List Span) : each (sp :: rest) = List.range' sp.1 sp.2 ++ each rest := by
  simp [each]

/-- `each()` yields exactly the members (any span list) -/
theorem mem_each (s : List Span) (x : Nat) : x ∈ each s ↔ mem s x = true := by
  simp only [each, List.mem_flatMap, List.mem_range'_1, mem, List.any_eq_true, Bool.and_eq_true, decide_eq_true_eq]

theorem each_length (s : List Span) : (each s).length = len s := by
  induction s with
  | nil => rfl
  | cons sp rest ih => rw [each_cons, List.length_append, List.length_range', ih, len_cons]

/-- on a well-formed list `each()` is strictly increasing: every member exactly once, in ascending order -/
theorem each_sorted {b : Nat} {s : List Span} (h : Chain b s) : (each s).Pairwise (· < ·) := by
  induction s generalizing b with
  | nil => exact List.Pairwise.nil
  | cons sp rest ih =>
    obtain ⟨h1, h2, h3⟩ := h
    rw [each_cons, List.pairwise_append]
    refine ⟨List.pairwise_lt_range', ih h3, ?_⟩
    intro x hx y hy
    rw [List.mem_range'_1] at hx
    have := chain_mem_ge h3 ((mem_each rest y).1 hy)
    omega

theorem spBool_iff {b : Nat} {s : List Span} (h : Chain b s) : spBool s = true ↔ ∃ x, mem s x = true := by
  cases s with
  | nil => simp [spBool, len, mem]
  | cons sp rest =>
    have hpos := h.2.1
    constructor
    · intro _; exact ⟨sp.1, mem_head hpos⟩
    · intro _; simp only [spBool, len_cons, bne_iff_ne, ne_eq]; omega
where
  mem_head {c : Span} {rest : List Span} (hc : 0 < c.2) : mem (c :: rest) c.1 = true := by
    rw [mem_cons]; simp; left; omega

/-! ### DataSpans -/

def toSpan (c : Chunk) : Span := (c.1, c.2.length)

theorem dDump_eq_each (s : List Chunk) : dDump s = each (s.map toSpan) := by
  simp [dDump, each, List.flatMap_map, toSpan]

theorem dlen_eq_len (s : List Chunk) : dlen s = len (s.map toSpan) := by
  simp [dlen, len, toSpan, Function.comp_def]

theorem dchain_map_chain {b : Nat} {s : List Chunk} (h : DChain b s) : Chain b (s.map toSpan) := by
  induction s generalizing b with
  | nil => trivial
  | cons c rest ih => exact ⟨h.1, h.2.1, ih h.2.2⟩

theorem mem_map_toSpan (s : List Chunk) (x : Nat) : mem (s.map toSpan) x = (byteAt s x).isSome :=
  any_map_eq_isSome s x

theorem mem_dDump (s : List Chunk) (x : Nat) : x ∈ dDump s ↔ (byteAt s x).isSome = true := by
  rw [dDump_eq_each, mem_each, mem_map_toSpan]

theorem dDump_sorted {b : Nat} {s : List Chunk} (h : DChain b s) : (dDump s).Pairwise (· < ·) := by
  rw [dDump_eq_each]; exact each_sorted (dchain_map_chain h)

theorem dBool_iff {b : Nat} {s : List Chunk} (h : DChain b s) :
    dBool s = true ↔ ∃ x, (byteAt s x).isSome = true := by
  have := spBool_iff (dchain_map_chain h)
  simp only [spBool, ← dlen_eq_len, mem_map_toSpan] at this
  exact this

/-- `get(a, 0)`: `b""` when `a` is a held offset, `None` otherwise -/
theorem dget_zero {b : Nat} {s : List Chunk} (a : Nat) (h : DChain b s) :
    dget a 0 s = if (byteAt s a).isSome = true then some [] else none := by
  induction s generalizing b with
  | nil => rfl
  | cons c rest ih =>
    obtain ⟨h1, h2, h3⟩ := h
    rw [byteAt_isSome_cons]
    simp only [dget]
    by_cases hin : c.1 ≤ a ∧ a < c.1 + c.2.length
    · have hin' : (decide (c.1 ≤ a) && decide (a < c.1 + c.2.length)) = true := by simp [hin]
      rw [if_pos hin', if_neg (by omega)]
      simp [hin']
    · have hin' : (decide (c.1 ≤ a) && decide (a < c.1 + c.2.length)) = false := by simp; omega
      rw [hin']
      simp only [Bool.false_eq_true, if_false, Bool.false_or]
      by_cases hfar : c.1 ≥ a + 0
      · rw [if_pos hfar, byteAt_lt h3.toW (by omega)]; rfl
      · rw [if_neg hfar]; exact ih h3

/-- `pop(a, 0)` answers like `get(a, 0)` and never changes the buffer -/
theorem dpop_zero {b : Nat} {s : List Chunk} (a : Nat) (h : DChain b s) : dpop s a 0 = (dget a 0 s, s) := by
  unfold dpop
  rw [dget_zero a h]
  split <;> simp_all

end Tahoe.Spans
