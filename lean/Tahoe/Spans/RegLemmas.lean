import Tahoe.Spans.RegModel
import Tahoe.Spans.DataLemmas
/-!
Helper lemmas for the named-value model of C37 (`RegModel.lean`): the copy constructors return an
equal value, the value-returning operators agree with `addAll`/`removeAll`/`inter`, frame lemmas.
-/
namespace Tahoe.Spans

/-- adding a span that starts beyond the end of every span appends it -/
theorem add_last (p : List Span) (a l : Nat) (h : ∀ q ∈ p, q.1 + q.2 < a) : add p a l = p ++ [(a, l)] := by
  induction p with
  | nil => rfl
  | cons sp rest ih =>
    have hsp := h sp (by simp)
    have ht : ¬ (touches sp a l = true) := by rw [touches_iff]; omega
    simp only [add, if_neg ht, if_neg (show ¬ a < sp.1 by omega)]
    rw [ih (fun q hq => h q (by simp [hq]))]; rfl

theorem chain_append_head {c : Nat} {p t : List Span} {sp : Span} (h : Chain c (p ++ sp :: t)) : c ≤ sp.1 := by
  induction p generalizing c with
  | nil => exact h.1
  | cons q p ih => have := ih h.2.2; have := h.1; omega

theorem chain_append_lt {c : Nat} {p t : List Span} {sp : Span} (h : Chain c (p ++ sp :: t)) :
    ∀ q ∈ p, q.1 + q.2 < sp.1 := by
  induction p generalizing c with
  | nil => intro _ hq; cases hq
  | cons q0 p ih =>
    intro q hq
    rcases List.mem_cons.1 hq with rfl | hq
    · have := chain_append_head h.2.2; omega
    · exact ih h.2.2 q hq

theorem addAll_append (p t : List Span) (h : Chain 0 (p ++ t)) : addAll p t = p ++ t := by
  induction t generalizing p with
  | nil => simp [addAll]
  | cons sp t ih =>
    have h1 : addAll p (sp :: t) = addAll (add p sp.1 sp.2) t := by simp [addAll]
    rw [h1, add_last p sp.1 sp.2 (chain_append_lt h)]
    have h2 : p ++ [(sp.1, sp.2)] ++ t = p ++ sp :: t := by simp
    rw [ih (p ++ [(sp.1, sp.2)]) (by rw [h2]; exact h), h2]

/-- the copy constructor returns an equal value -/
theorem spCopy_eq {s : List Span} (h : Chain 0 s) : spCopy s = s := by
  simpa [spCopy] using addAll_append [] s (by simpa using h)

theorem spSub_eq {s : List Span} (o : List Span) (h : Chain 0 s) : spSub s o = removeAll s o := by
  rw [spSub, spCopy_eq h]

theorem spOr_eq {s : List Span} (o : List Span) (h : Chain 0 s) : spOr s o = addAll s o := by
  rw [spOr, spCopy_eq h]

theorem spAnd_eq {s : List Span} (o : List Span) (h : Chain 0 s) : spAnd s o = inter s o := by
  cases s with
  | nil => rfl
  | cons f rest =>
    cases hl : (f :: rest).getLast? with
    | none => simp at hl
    | some lst =>
      have hb : spCopy [(f.1, lst.1 + lst.2)] = [(f.1, lst.1 + lst.2)] := by simp [spCopy, addAll, add]
      simp only [spAnd, inter, hl]
      rw [spSub_eq _ h, spSub, hb]

/-! ### DataSpans(other) -/

theorem dCopy_fold {b : Nat} (t : List Chunk) (acc : List Chunk) (ht : WChain b t) (hacc : DInv acc) :
    DInv (t.foldl (fun acc c => dadd acc c.1 c.2) acc) ∧
    ∀ x, byteAt (t.foldl (fun acc c => dadd acc c.1 c.2) acc) x =
      if (byteAt t x).isSome = true then byteAt t x else byteAt acc x := by
  induction t generalizing b acc with
  | nil => exact ⟨hacc, fun x => by simp [byteAt]⟩
  | cons c t ih =>
    obtain ⟨h1, h2, h3⟩ := ht
    obtain ⟨a1, a2⟩ := dadd_spec c.1 c.2 hacc
    obtain ⟨i1, i2⟩ := ih (dadd acc c.1 c.2) h3 a1
    refine ⟨by simpa [List.foldl_cons] using i1, fun x => ?_⟩
    rw [List.foldl_cons, i2 x, a2 x, byteAt_cons]
    by_cases hx : c.1 ≤ x ∧ x < c.1 + c.2.length
    · have hn : byteAt t x = none := byteAt_lt h3 (by omega)
      have hs : (c.2[x - c.1]?).isSome = true := by
        have : x - c.1 < c.2.length := by omega
        simp [List.getElem?_eq_getElem this]
      simp [hx, hn, hs]
    · rw [if_neg hx, if_neg hx]

/-- the copy constructor of `DataSpans` returns an equal value (same bytes at every offset) -/
theorem dCopy_spec {s : List Chunk} (h : DInv s) : DInv (dCopy s) ∧ ∀ x, byteAt (dCopy s) x = byteAt s x := by
  obtain ⟨r1, r2⟩ := dCopy_fold s [] h.toW trivial
  refine ⟨r1, fun x => ?_⟩
  rw [dCopy, r2 x]
  cases hb : byteAt s x <;> simp [byteAt]

/-! ### frame: an operation changes only the register it writes -/

theorem upd_ne {α : Type} (f : Nat → α) {k j : Nat} (v : α) (h : j ≠ k) : upd f k v j = f j := by
  simp [upd, h]

theorem upd_eq {α : Type} (f : Nat → α) (k : Nat) (v : α) : upd f k v k = v := by
  simp [upd]

theorem rstep_r_frame (st : RState) (op : ROp) (j : Nat) (h : op.rTarget ≠ some j) : (rstep st op).r j = st.r j := by
  cases op <;> simp only [rstep, ROp.rTarget] at h ⊢ <;>
    first | rfl | exact upd_ne _ _ (fun e => h (by rw [e]))

theorem rstep_d_frame (st : RState) (op : ROp) (j : Nat) (h : op.dTarget ≠ some j) : (rstep st op).d j = st.d j := by
  cases op <;> simp only [rstep, ROp.dTarget] at h ⊢ <;>
    first | rfl | exact upd_ne _ _ (fun e => h (by rw [e]))

end Tahoe.Spans
