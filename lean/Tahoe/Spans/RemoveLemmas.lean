import Tahoe.Spans.Lemmas
import Tahoe.Spans.DataLemmas
/-!
Helper lemmas for C37: `Spans.remove` as written (`removeLit`: in-place pass with deferred slice
deletion, append + sort) equals the span-by-span `remove` on lists that satisfy the class invariant.
-/
namespace Tahoe.Spans

theorem overlap_none_iff (s n a l : Nat) : overlap s n a l = none ↔ ¬ (max s a < min (s + n) (a + l)) := by
  simp only [overlap]; split <;> simp_all

theorem removeScan_far {b : Nat} {s : List Span} (a l i : Nat) (h : Chain b s) (hf : a + l ≤ b ∨ l = 0) :
    removeScan a l i s = (s, none, none) := by
  induction s generalizing b i with
  | nil => rfl
  | cons sp rest ih =>
    obtain ⟨h1, h2, h3⟩ := h
    have hn : overlap sp.1 sp.2 a l = none := by rw [overlap_none_iff]; omega
    simp only [removeScan, hn]
    rw [ih (i + 1) h3 (by omega)]

theorem remove_far {b : Nat} {s : List Span} (a l : Nat) (h : Chain b s) (hf : a + l ≤ b ∨ l = 0) :
    remove s a l = s := by
  induction s generalizing b with
  | nil => rfl
  | cons sp rest ih =>
    obtain ⟨h1, h2, h3⟩ := h
    have hn : overlap sp.1 sp.2 a l = none := by rw [overlap_none_iff]; omega
    rw [remove_cons, ih h3 (by omega)]
    simp [removeOne, hn]

theorem insertSpan_head {b : Nat} (x : Span) {s : List Span} (h : Chain b s) (hx : x.1 < b) :
    insertSpan x s = x :: s := by
  cases s with
  | nil => rfl
  | cons y ys =>
    have := h.1
    simp only [insertSpan]
    rw [if_pos (by simp; left; omega)]

/-- if the whole list lies at or right of `a`, the first completely covered span (if any) is the head -/
theorem removeScan_first_head {b : Nat} {s : List Span} (a l i f : Nat) (h : Chain b s) (hab : a ≤ b)
    (hf : (removeScan a l i s).2.1 = some f) : f = i := by
  cases s with
  | nil => simp [removeScan] at hf
  | cons sp rest =>
    obtain ⟨h1, h2, h3⟩ := h
    simp only [removeScan] at hf
    split at hf
    · rename_i hov
      rw [overlap_none_iff] at hov
      rw [removeScan_far a l (i + 1) h3 (by omega)] at hf
      simp at hf
    · rename_i os ol hov
      obtain ⟨hlt, rfl, rfl⟩ := overlap_some hov
      split at hf
      · simp at hf; omega
      · split at hf
        · rename_i hc1 hc2
          simp at hc1 hc2
          rw [removeScan_far a l (i + 1) h3 (by omega)] at hf
          simp at hf
        · split at hf
          · rename_i hc1 hc2 hc3
            simp at hc2
            omega
          · simp at hf

def ScanOk (a l i : Nat) (s : List Span) (r : List Span × Option Nat × Option Nat) : Prop :=
  (r.2.1 = none ∧ r.2.2 = none ∧ r.1 = remove s a l) ∨
  (∃ k m, r.2.1 = some (i + k) ∧ r.2.2 = some (i + k + m) ∧ r.1.take k ++ r.1.drop (k + m + 1) = remove s a l)

theorem removeScan_ok {b : Nat} {s : List Span} (a l i : Nat) (h : Chain b s) :
    ScanOk a l i s (removeScan a l i s) := by
  induction s generalizing b i with
  | nil => left; exact ⟨rfl, rfl, rfl⟩
  | cons sp rest ih =>
    obtain ⟨h1, h2, h3⟩ := h
    have ih' := ih (i + 1) h3
    unfold ScanOk at ih' ⊢
    rw [remove_cons]
    -- a span that stays (possibly trimmed) as the single piece `p`
    have keep : ∀ p : Span,
        ((p :: (removeScan a l (i + 1) rest).1, (removeScan a l (i + 1) rest).2.1, (removeScan a l (i + 1) rest).2.2) :
          List Span × Option Nat × Option Nat).2.1 = (removeScan a l (i + 1) rest).2.1 →
        (((removeScan a l (i + 1) rest).2.1 = none ∧ (removeScan a l (i + 1) rest).2.2 = none ∧
            p :: (removeScan a l (i + 1) rest).1 = [p] ++ remove rest a l) ∨
         ∃ k m, (removeScan a l (i + 1) rest).2.1 = some (i + k) ∧ (removeScan a l (i + 1) rest).2.2 = some (i + k + m) ∧
            (p :: (removeScan a l (i + 1) rest).1).take k ++ (p :: (removeScan a l (i + 1) rest).1).drop (k + m + 1) =
              [p] ++ remove rest a l) := by
      intro p _
      rcases ih' with ⟨e1, e2, e3⟩ | ⟨k, m, e1, e2, e3⟩
      · left; exact ⟨e1, e2, by simp [e3]⟩
      · right; refine ⟨k + 1, m, by rw [e1]; congr 1; omega, by rw [e2]; congr 1; omega, ?_⟩
        rw [show k + 1 + m + 1 = (k + m + 1) + 1 by omega]
        simp [← e3]
    cases hov : overlap sp.1 sp.2 a l with
    | none =>
      simp only [removeScan, removeOne, hov]
      exact keep sp rfl
    | some p =>
      obtain ⟨os, ol⟩ := p
      obtain ⟨hlt, rfl, rfl⟩ := overlap_some hov
      simp only [removeScan, removeOne, hov]
      by_cases hc : (max sp.1 a == sp.1 && max sp.1 a + (min (sp.1 + sp.2) (a + l) - max sp.1 a) == sp.1 + sp.2) = true
      · -- completely covered: deleted by the slice
        simp only [hc, if_true]
        simp at hc
        rcases ih' with ⟨e1, e2, e3⟩ | ⟨k, m, e1, e2, e3⟩
        · right; refine ⟨0, 0, by simp, by simp [e2], ?_⟩
          simp [e3]
        · have hk := removeScan_first_head a l (i + 1) _ h3 (by omega) e1
          have hk0 : k = 0 := by omega
          subst hk0
          right; refine ⟨0, m + 1, by simp, by simp [e2]; omega, ?_⟩
          simp only [Nat.zero_add, List.take_zero, List.nil_append] at e3 ⊢
          rw [List.drop_succ_cons]
          exact e3
      · simp only [hc, if_false, Bool.false_eq_true]
        by_cases hc2 : (max sp.1 a == sp.1) = true
        · simp only [hc2, if_true]
          exact keep _ rfl
        · simp only [hc2, if_false, Bool.false_eq_true]
          by_cases hc3 : (max sp.1 a + (min (sp.1 + sp.2) (a + l) - max sp.1 a) == sp.1 + sp.2) = true
          · simp only [hc3, if_true]
            exact keep _ rfl
          · -- middle: split, append + sort, break
            simp only [hc3, if_false, Bool.false_eq_true]
            simp at hc hc2 hc3
            left
            refine ⟨trivial, trivial, ?_⟩
            rw [remove_far a l h3 (by omega), insertSpan_head _ h3 (by simp only; omega)]
            rfl

/-- on the lists the class maintains, `remove` as written (in-place pass, deferred slice delete, append+sort)
is the span-by-span `remove` the theorems are about -/
theorem removeLit_eq {b : Nat} {s : List Span} (a l : Nat) (h : Chain b s) : removeLit s a l = remove s a l := by
  have := removeScan_ok a l 0 h
  unfold removeLit
  rcases this with ⟨e1, e2, e3⟩ | ⟨k, m, e1, e2, e3⟩
  · simp only [e1, e3]
  · simp only [e1, e2, Nat.zero_add, e3]

end Tahoe.Spans
