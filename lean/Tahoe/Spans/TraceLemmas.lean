import Tahoe.Spans.Lemmas
import Tahoe.Spans.DataLemmas
/-!
Helper lemmas for C37, observational level: the abstract machines (a characteristic function
`Nat → Bool`, a partial map `Nat → Option UInt8`) with their answers to `contains` / `get` / `pop`,
and the proof that the models give the same answers along every history; maximal merging and
canonical form of the representations.
-/
namespace Tahoe.Spans

/-! ### the reference machines -/

/-- reading `l` bytes at `a` from a partial map: all of them, or nothing -/
def specRead (f : Nat → Option UInt8) : Nat → Nat → Option (List UInt8)
  | _, 0 => some []
  | a, l + 1 =>
    match f a, specRead f (a + 1) l with
    | some b, some bs => some (b :: bs)
    | _, _ => none

theorem specRead_of_bytes (f : Nat → Option UInt8) (a l : Nat) (bs : List UInt8)
    (hlen : bs.length = l) (h : ∀ i, i < l → f (a + i) = bs[i]?) : specRead f a l = some bs := by
  induction l generalizing a bs with
  | zero =>
    cases bs with
    | nil => rfl
    | cons _ _ => simp at hlen
  | succ l ih =>
    cases bs with
    | nil => simp at hlen
    | cons b bs =>
      have h0 := h 0 (by omega)
      simp only [Nat.add_zero, List.getElem?_cons_zero] at h0
      have ih' := ih (a + 1) bs (by simpa using hlen) (fun i hi => by
        have := h (i + 1) (by omega)
        rw [List.getElem?_cons_succ] at this
        rw [← this]; congr 1; omega)
      simp only [specRead, h0, ih']

theorem specRead_isSome (f : Nat → Option UInt8) (a l : Nat) (bs : List UInt8) (h : specRead f a l = some bs) :
    ∀ x, a ≤ x → x < a + l → (f x).isSome = true := by
  induction l generalizing a bs with
  | zero => intro x h1 h2; omega
  | succ l ih =>
    intro x h1 h2
    simp only [specRead] at h
    split at h
    · rename_i b bs' hb hbs
      by_cases hx : x = a
      · subst hx; simp [hb]
      · exact ih (a + 1) bs' hbs x (by omega) (by omega)
    · cases h

/-- `get` of the model is the reference read of its abstract map (non-empty ranges) -/
theorem dget_eq_specRead {s : List Chunk} (a l : Nat) (h : DInv s) (hl : 0 < l) :
    dget a l s = specRead (byteAt s) a l := by
  cases hg : dget a l s with
  | some bs =>
    obtain ⟨h1, h2⟩ := dget_some h hg
    exact (specRead_of_bytes _ a l bs h1 h2).symm
  | none =>
    cases hr : specRead (byteAt s) a l with
    | none => rfl
    | some bs =>
      have := (dget_isSome_iff h hl).2 (specRead_isSome _ a l bs hr)
      rw [hg] at this; cases this

/-- one step of the reference partial-map machine -/
def specStepD (f : Nat → Option UInt8) : DQ → (Nat → Option UInt8) × Option (Option (List UInt8))
  | .op (.pop a l) => (dopSem f (.pop a l), some (specRead f a l))
  | .op o => (dopSem f o, none)
  | .get a l => (f, some (specRead f a l))

def specTraceD (f : Nat → Option UInt8) : List DQ → List (Option (List UInt8))
  | [] => []
  | q :: rest => (specStepD f q).2.toList ++ specTraceD (specStepD f q).1 rest

/-- `get`/`pop` of an empty range is outside the statement (`get(x, 0)` answers `b""` inside a chunk, `None` elsewhere) -/
def DQ.valid : DQ → Prop
  | .op (.pop _ l) => 0 < l
  | .op _ => True
  | .get _ l => 0 < l

theorem dstepQ_spec {s : List Chunk} (q : DQ) (hq : q.valid) (h : DInv s) :
    DInv (dstepQ s q).1 ∧ byteAt (dstepQ s q).1 = (specStepD (byteAt s) q).1 ∧
    (dstepQ s q).2 = (specStepD (byteAt s) q).2 := by
  cases q with
  | get a l => exact ⟨h, rfl, by simp only [dstepQ, specStepD]; rw [dget_eq_specRead a l h hq]⟩
  | op o =>
    obtain ⟨a1, a2⟩ := applyDOp_spec o h
    cases o with
    | add a d => exact ⟨a1, a2, rfl⟩
    | remove a l => exact ⟨a1, a2, rfl⟩
    | pop a l =>
      refine ⟨a1, a2, ?_⟩
      simp only [dstepQ, specStepD]
      rw [dpop_fst, dget_eq_specRead a l h hq]

theorem dtrace_spec {s : List Chunk} (qs : List DQ) (hv : ∀ q ∈ qs, q.valid) (h : DInv s) :
    dtrace s qs = specTraceD (byteAt s) qs := by
  induction qs generalizing s with
  | nil => rfl
  | cons q rest ih =>
    obtain ⟨a1, a2, a3⟩ := dstepQ_spec q (hv q (by simp)) h
    simp only [dtrace, specTraceD]
    rw [a3, ih (fun q' hq' => hv q' (by simp [hq'])) a1, a2]

/-! ### Spans: answers of `contains` along histories -/

def specContains (f : Nat → Bool) (a l : Nat) : Bool := (List.range l).all (fun i => f (a + i))

theorem containsRange_eq_spec {s : List Span} (a l : Nat) (h : Chain 0 s) (hl : 0 < l) :
    containsRange s a l = specContains (mem s) a l := by
  have hiff := containsRange_iff (a := a) hl h
  have hspec : specContains (mem s) a l = true ↔ ∀ x, a ≤ x → x < a + l → mem s x = true := by
    simp only [specContains, List.all_eq_true, List.mem_range]
    constructor
    · intro hall x hx1 hx2
      have := hall (x - a) (by omega)
      rwa [show a + (x - a) = x by omega] at this
    · intro hall i hi; exact hall (a + i) (by omega) (by omega)
  rw [Bool.eq_iff_iff]; exact hiff.trans hspec.symm

def specStepS (f : Nat → Bool) : SQ → (Nat → Bool) × Option Bool
  | .op o => (opSem f o, none)
  | .contains a l => (f, some (specContains f a l))

def specTraceS (f : Nat → Bool) : List SQ → List Bool
  | [] => []
  | q :: rest => (specStepS f q).2.toList ++ specTraceS (specStepS f q).1 rest

def SQ.valid : SQ → Prop
  | .op o => o.valid
  | .contains _ l => 0 < l

theorem sstepQ_spec {s : List Span} (q : SQ) (hq : q.valid) (h : Chain 0 s) :
    Chain 0 (sstepQ s q).1 ∧ mem (sstepQ s q).1 = (specStepS (mem s) q).1 ∧
    (sstepQ s q).2 = (specStepS (mem s) q).2 := by
  cases q with
  | op o => exact ⟨applyOp_chain o hq h, applyOp_mem o hq h, rfl⟩
  | contains a l => exact ⟨h, rfl, by simp only [sstepQ, specStepS]; rw [containsRange_eq_spec a l h hq]⟩

theorem strace_spec {s : List Span} (qs : List SQ) (hv : ∀ q ∈ qs, q.valid) (h : Chain 0 s) :
    strace s qs = specTraceS (mem s) qs := by
  induction qs generalizing s with
  | nil => rfl
  | cons q rest ih =>
    obtain ⟨a1, a2, a3⟩ := sstepQ_spec q (hv q (by simp)) h
    simp only [strace, specTraceS]
    rw [a3, ih (fun q' hq' => hv q' (by simp [hq'])) a1, a2]

end Tahoe.Spans
