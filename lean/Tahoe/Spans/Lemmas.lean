import Tahoe.Spans.Model
/-!
Helper lemmas for C37 (`Spans`): the invariant in induction-friendly form (`Chain`), and the
membership / invariant lemmas for `add`, `remove`, `containsRange`, `len`, `inter`, histories.
-/
namespace Tahoe.Spans

/-- `Chain b s`: like `WF s` with a lower bound `b` for the first start — the induction-friendly form. -/
def Chain : Nat → List Span → Prop
  | _, [] => True
  | b, sp :: rest => b ≤ sp.1 ∧ 0 < sp.2 ∧ Chain (sp.1 + sp.2 + 1) rest

theorem Chain.mono {b c : Nat} {s : List Span} (h : Chain b s) (hc : c ≤ b) : Chain c s := by
  cases s with
  | nil => trivial
  | cons sp rest => exact ⟨by have := h.1; omega, h.2.1, h.2.2⟩

theorem chain_pos {b : Nat} {s : List Span} (h : Chain b s) : ∀ sp ∈ s, 0 < sp.2 := by
  induction s generalizing b with
  | nil => intro _ h; cases h
  | cons q rest ih =>
    intro sp hsp
    rcases List.mem_cons.1 hsp with rfl | hsp
    · exact h.2.1
    · exact ih h.2.2 sp hsp

theorem chain_wf {b : Nat} {s : List Span} (h : Chain b s) : WF s := by
  induction s generalizing b with
  | nil => trivial
  | cons sp rest ih =>
    cases rest with
    | nil => exact h.2.1
    | cons sq rest =>
      have h2 := h.2.2
      exact ⟨h.2.1, by have := h2.1; omega, ih h2⟩

theorem wf_chain {s : List Span} (h : WF s) : ∀ b, (∀ sp, s.head? = some sp → b ≤ sp.1) → Chain b s := by
  induction s with
  | nil => intro _ _; trivial
  | cons sp rest ih =>
    intro b hb
    cases rest with
    | nil => exact ⟨hb sp rfl, h, trivial⟩
    | cons sq rest =>
      obtain ⟨h1, h2, h3⟩ := h
      refine ⟨hb sp rfl, h1, ih h3 _ ?_⟩
      intro sp' hsp'
      simp at hsp'; subst hsp'; omega

theorem wf_iff_chain (s : List Span) : WF s ↔ Chain 0 s :=
  ⟨fun h => wf_chain h 0 (fun _ _ => Nat.zero_le _), chain_wf⟩

theorem mem_cons (sp : Span) (rest : List Span) (x : Nat) :
    mem (sp :: rest) x = ((decide (sp.1 ≤ x) && decide (x < sp.1 + sp.2)) || mem rest x) := by
  simp [mem]

theorem chain_mem_ge {b : Nat} {s : List Span} {x : Nat} (h : Chain b s) (hx : mem s x = true) : b ≤ x := by
  induction s generalizing b with
  | nil => simp [mem] at hx
  | cons sp rest ih =>
    rw [mem_cons] at hx
    simp only [Bool.or_eq_true, Bool.and_eq_true, decide_eq_true_eq] at hx
    rcases hx with hx | hx
    · have := h.1; omega
    · have := ih h.2.2 hx; have := h.1; omega

theorem touches_iff (sp : Span) (a l : Nat) :
    touches sp a l = true ↔
      (max sp.1 a < min (sp.1 + sp.2) (a + l)) ∨ (sp.1 < a ∧ sp.1 + sp.2 = a) ∨ (a < sp.1 ∧ a + l = sp.1) := by
  simp only [touches, overlap, adjacent]
  split <;> simp_all <;> omega

theorem absorb_chain {lo hi a l b c : Nat} {rest : List Span}
    (hlo : lo ≤ a) (hhi : a + l ≤ hi) (hl : 0 < l) (hab : a < b) (hb : hi ≤ a + l ∨ hi < b)
    (hc : c ≤ lo) (h : Chain b rest) : Chain c (absorb lo hi a l rest) := by
  induction rest generalizing hi b with
  | nil => exact ⟨hc, by omega, trivial⟩
  | cons sp rest ih =>
    obtain ⟨h1, h2, h3⟩ := h
    simp only [absorb]
    split
    · exact ih (by omega) (by omega) (by omega) h3
    · rename_i ht
      rw [touches_iff] at ht
      refine ⟨hc, by omega, by omega, h2, h3⟩

theorem absorb_mem {lo hi a l b : Nat} {rest : List Span} (x : Nat)
    (hlo : lo ≤ a) (hhi : a + l ≤ hi) (hab : a < b) (h : Chain b rest) :
    mem (absorb lo hi a l rest) x = ((decide (lo ≤ x) && decide (x < hi)) || mem rest x) := by
  induction rest generalizing hi b with
  | nil =>
    have : lo + (hi - lo) = hi := by omega
    simp [absorb, mem, this]
  | cons sp rest ih =>
    obtain ⟨h1, h2, h3⟩ := h
    simp only [absorb]
    split
    · rename_i ht
      rw [touches_iff] at ht
      rw [ih (by omega) (show a < sp.1 + sp.2 + 1 by omega) h3, mem_cons]
      grind
    · have : lo + (hi - lo) = hi := by omega
      rw [mem_cons, mem_cons]; simp [this]

theorem add_chain {b a l : Nat} {s : List Span} (hl : 0 < l) (h : Chain b s) :
    Chain (min a b) (add s a l) := by
  induction s generalizing b with
  | nil => exact ⟨by omega, hl, trivial⟩
  | cons sp rest ih =>
    obtain ⟨h1, h2, h3⟩ := h
    simp only [add]
    split
    · rename_i ht
      rw [touches_iff] at ht
      exact absorb_chain (b := sp.1 + sp.2 + 1) (by omega) (by omega) hl (by omega) (by omega) (by omega) h3
    · rename_i ht
      rw [touches_iff] at ht
      split
      · exact ⟨by omega, hl, by omega, h2, h3⟩
      · have := ih h3
        exact ⟨by omega, h2, this.mono (by omega)⟩

theorem add_mem {b a l : Nat} {s : List Span} (x : Nat) (h : Chain b s) :
    mem (add s a l) x = (mem s x || (decide (a ≤ x) && decide (x < a + l))) := by
  induction s generalizing b with
  | nil => simp [add, mem]
  | cons sp rest ih =>
    obtain ⟨h1, h2, h3⟩ := h
    simp only [add]
    split
    · rename_i ht
      rw [touches_iff] at ht
      rw [absorb_mem (b := sp.1 + sp.2 + 1) x (by omega) (by omega) (by omega) h3, mem_cons]
      grind
    · split
      · simp only [mem_cons]; grind
      · simp only [mem_cons, ih h3]; grind

theorem remove_cons (sp : Span) (rest : List Span) (a l : Nat) :
    remove (sp :: rest) a l = removeOne sp a l ++ remove rest a l := by
  simp [remove]

theorem remove_chain {b a l : Nat} {s : List Span} (h : Chain b s) : Chain b (remove s a l) := by
  induction s generalizing b with
  | nil => trivial
  | cons sp rest ih =>
    obtain ⟨h1, h2, h3⟩ := h
    have ih' := ih h3
    rw [remove_cons]
    simp only [removeOne, overlap]
    split
    · exact ⟨h1, h2, ih'⟩
    · rename_i os ol heq
      split at heq
      · rename_i hlt
        simp only [Option.some.injEq, Prod.mk.injEq] at heq
        obtain ⟨rfl, rfl⟩ := heq
        split
        · exact ih'.mono (by omega)
        · split
          · rename_i hc1 hc2
            simp at hc1 hc2
            refine ⟨by omega, by omega, ih'.mono (by omega)⟩
          · split
            · rename_i hc1 hc2 hc3
              simp at hc1 hc2 hc3
              refine ⟨by omega, by omega, ih'.mono (by omega)⟩
            · rename_i hc1 hc2 hc3
              simp at hc1 hc2 hc3
              refine ⟨by omega, by omega, by omega, by omega, ih'.mono (by omega)⟩
      · simp at heq

theorem containsRange_cons (sp : Span) (rest : List Span) (a l : Nat) (hl : 0 < l) :
    containsRange (sp :: rest) a l =
      ((decide (sp.1 ≤ a) && decide (a + l ≤ sp.1 + sp.2)) || containsRange rest a l) := by
  simp only [containsRange, List.any_cons, overlap]
  congr 1
  split
  · rename_i os ol heq
    split at heq
    · simp only [Option.some.injEq, Prod.mk.injEq] at heq
      obtain ⟨rfl, rfl⟩ := heq
      grind
    · simp at heq
  · rename_i heq
    split at heq
    · simp at heq
    · grind

theorem containsRange_iff {b a l : Nat} {s : List Span} (hl : 0 < l) (h : Chain b s) :
    containsRange s a l = true ↔ ∀ x, a ≤ x → x < a + l → mem s x = true := by
  induction s generalizing b with
  | nil =>
    simp only [containsRange, List.any_nil, mem]
    constructor
    · intro h; cases h
    · intro h; exact h a (Nat.le_refl _) (by omega)
  | cons sp rest ih =>
    obtain ⟨h1, h2, h3⟩ := h
    rw [containsRange_cons _ _ _ _ hl]
    simp only [Bool.or_eq_true, Bool.and_eq_true, decide_eq_true_eq, mem_cons]
    constructor
    · rintro (hc | hc)
      · intro x hx1 hx2; left; omega
      · intro x hx1 hx2; right; exact (ih h3).1 hc x hx1 hx2
    · intro hall
      by_cases ha : sp.1 ≤ a ∧ a < sp.1 + sp.2
      · left
        refine ⟨ha.1, ?_⟩
        by_cases hend : a + l ≤ sp.1 + sp.2
        · exact hend
        · exfalso
          rcases hall (sp.1 + sp.2) (by omega) (by omega) with hm | hm
          · omega
          · have := chain_mem_ge h3 hm; omega
      · right
        have ha' : sp.1 + sp.2 + 1 ≤ a := by
          rcases hall a (Nat.le_refl _) (by omega) with hm | hm
          · omega
          · exact chain_mem_ge h3 hm
        apply (ih h3).2
        intro x hx1 hx2
        rcases hall x hx1 hx2 with hm | hm
        · omega
        · exact hm

theorem countP_or_disjoint {α : Type} (p q : α → Bool) (L : List α)
    (h : ∀ x ∈ L, ¬(p x = true ∧ q x = true)) :
    L.countP (fun x => p x || q x) = L.countP p + L.countP q := by
  induction L with
  | nil => simp
  | cons y L ih =>
    have hy := h y (by simp)
    have ih' := ih (fun x hx => h x (by simp [hx]))
    simp only [List.countP_cons, ih']
    cases hp : p y <;> cases hq : q y <;> simp_all <;> omega

theorem countP_range_interval (a l N : Nat) :
    (List.range N).countP (fun x => decide (a ≤ x) && decide (x < a + l)) = min (a + l) N - min a N := by
  induction N with
  | zero => simp
  | succ N ih =>
    rw [List.range_succ, List.countP_append, ih]
    simp only [List.countP_cons, List.countP_nil]
    split <;> simp_all <;> omega

theorem len_cons (sp : Span) (rest : List Span) : len (sp :: rest) = sp.2 + len rest := by
  simp [len]

theorem len_eq_count {b N : Nat} {s : List Span} (h : Chain b s) (hN : ∀ sp ∈ s, sp.1 + sp.2 ≤ N) :
    len s = (List.range N).countP (mem s) := by
  induction s generalizing b with
  | nil =>
    have : mem [] = fun _ => false := by funext x; simp [mem]
    simp [len, this]
  | cons sp rest ih =>
    obtain ⟨h1, h2, h3⟩ := h
    have hsp := hN sp (by simp)
    have ih' := ih h3 (fun q hq => hN q (by simp [hq]))
    have hfun : mem (sp :: rest) = fun x => (decide (sp.1 ≤ x) && decide (x < sp.1 + sp.2)) || mem rest x := by
      funext x; exact mem_cons sp rest x
    rw [hfun, countP_or_disjoint, countP_range_interval, len_cons, ← ih']
    · omega
    · intro x _ ⟨hx1, hx2⟩
      have := chain_mem_ge h3 hx2
      simp at hx1; omega

/-- removing `[a, a+l)` from one span removes exactly those points -/
theorem mem_removeOne (sp : Span) (a l x : Nat) :
    mem (removeOne sp a l) x = (mem [sp] x && !(decide (a ≤ x) && decide (x < a + l))) := by
  obtain ⟨s, n⟩ := sp
  simp only [removeOne, overlap, mem]
  split
  · rename_i h; split at h <;> simp_all <;> grind
  · rename_i os ol h
    split at h
    · simp at h; obtain ⟨h1, h2⟩ := h; subst h1 h2
      split
      · simp_all; grind
      · split
        · simp_all; grind
        · split
          · simp_all; grind
          · simp_all; grind
    · simp at h

theorem mem_remove (s : List Span) (a l x : Nat) :
    mem (remove s a l) x = (mem s x && !(decide (a ≤ x) && decide (x < a + l))) := by
  induction s with
  | nil => simp [remove, mem]
  | cons sp rest ih =>
    have h1 := mem_removeOne sp a l x
    simp only [remove, mem, List.flatMap_cons, List.any_append, List.any_cons] at *
    rw [ih, h1]; simp; grind

theorem mem_removeAll (s o : List Span) (x : Nat) :
    mem (removeAll s o) x = (mem s x && !mem o x) := by
  induction o generalizing s with
  | nil => simp [removeAll, mem]
  | cons sp rest ih =>
    have : removeAll s (sp :: rest) = removeAll (remove s sp.1 sp.2) rest := by simp [removeAll]
    rw [this, ih, mem_remove, mem_cons]; grind

theorem removeAll_chain {b : Nat} {s : List Span} (o : List Span) (h : Chain b s) : Chain b (removeAll s o) := by
  induction o generalizing s with
  | nil => simpa [removeAll] using h
  | cons sp rest ih =>
    have : removeAll s (sp :: rest) = removeAll (remove s sp.1 sp.2) rest := by simp [removeAll]
    rw [this]; exact ih (remove_chain h)

theorem mem_addAll {b : Nat} (s o : List Span) (x : Nat) (h : Chain b s) (ho : ∀ sp ∈ o, 0 < sp.2) :
    Chain 0 (addAll s o) ∧ mem (addAll s o) x = (mem s x || o.any (fun sp => decide (sp.1 ≤ x) && decide (x < sp.1 + sp.2))) := by
  induction o generalizing s b with
  | nil => exact ⟨by simpa [addAll] using h.mono (Nat.zero_le _), by simp [addAll]⟩
  | cons sp rest ih =>
    have : addAll s (sp :: rest) = addAll (add s sp.1 sp.2) rest := by simp [addAll]
    have hc := add_chain (a := sp.1) (ho sp (by simp)) h
    obtain ⟨i1, i2⟩ := ih (add s sp.1 sp.2) hc (fun q hq => ho q (by simp [hq]))
    rw [this]
    refine ⟨i1, ?_⟩
    rw [i2, add_mem x h]; simp [Bool.or_assoc]

theorem chain_le_last {c : Nat} {t : List Span} {lst : Span} (hc : Chain c t)
    (hlast : t.getLast? = some lst) : c ≤ lst.1 + lst.2 := by
  induction t generalizing c with
  | nil => simp at hlast
  | cons u t iht =>
    have := hc.1
    cases t with
    | nil => simp at hlast; subst hlast; omega
    | cons v t =>
      rw [List.getLast?_cons_cons] at hlast
      have := iht hc.2.2 hlast; omega

theorem chain_mem_lt_last {b : Nat} {s : List Span} {x : Nat} {lst : Span} (h : Chain b s)
    (hl : s.getLast? = some lst) (hx : mem s x = true) : x < lst.1 + lst.2 := by
  induction s generalizing b with
  | nil => simp at hl
  | cons sp rest ih =>
    obtain ⟨h1, h2, h3⟩ := h
    rw [mem_cons] at hx
    simp only [Bool.or_eq_true, Bool.and_eq_true, decide_eq_true_eq] at hx
    cases rest with
    | nil =>
      simp at hl; subst hl
      rcases hx with hx | hx
      · exact hx.2
      · simp [mem] at hx
    | cons sq rest =>
      rw [List.getLast?_cons_cons] at hl
      rcases hx with hx | hx
      · have := chain_le_last h3 hl; omega
      · exact ih h3 hl hx

theorem inter_mem {b : Nat} {s : List Span} (o : List Span) (x : Nat) (h : Chain b s) :
    mem (inter s o) x = (mem s x && mem o x) := by
  cases s with
  | nil => simp [inter, mem]
  | cons f rest =>
    cases hl : (f :: rest).getLast? with
    | none => simp at hl
    | some lst =>
      simp only [inter, hl]
      rw [mem_removeAll, mem_removeAll]
      cases hm : mem (f :: rest) x with
      | false => simp
      | true =>
        have hf : Chain f.1 (f :: rest) := ⟨Nat.le_refl _, h.2.1, h.2.2⟩
        have h1 := chain_mem_ge hf hm
        have h2 := chain_mem_lt_last h hl hm
        have h3 := h.1
        have : mem [(f.1, lst.1 + lst.2)] x = true := by simp [mem]; omega
        simp [this]

theorem inter_chain {b : Nat} {s : List Span} (o : List Span) (h : Chain b s) : Chain b (inter s o) := by
  cases s with
  | nil => simpa [inter] using h
  | cons f rest =>
    cases hl : (f :: rest).getLast? with
    | none => simp at hl
    | some lst => simp only [inter, hl]; exact removeAll_chain _ h

/-! ### set semantics of histories -/

/-- the effect of one operation on the characteristic function of a set of integers -/
def opSem (f : Nat → Bool) : Op → Nat → Bool
  | .add a l => fun x => f x || (decide (a ≤ x) && decide (x < a + l))
  | .remove a l => fun x => f x && !(decide (a ≤ x) && decide (x < a + l))
  | .inter o => fun x => f x && mem o x
  | .union o => fun x => f x || mem o x
  | .diff o => fun x => f x && !mem o x

/-- argument validity as asserted by the code (`length > 0`); `other` of `&` is a `Spans` object -/
def Op.valid : Op → Prop
  | .add _ l => 0 < l
  | .remove _ l => 0 < l
  | .inter o => WF o
  | .union o => WF o
  | .diff o => WF o

theorem applyOp_chain {s : List Span} (op : Op) (hv : op.valid) (h : Chain 0 s) : Chain 0 (applyOp s op) := by
  cases op with
  | add a l => exact (add_chain (a := a) hv h).mono (Nat.zero_le _)
  | remove a l => exact remove_chain h
  | inter o => exact inter_chain o h
  | union o => exact (mem_addAll s o 0 h (chain_pos ((wf_iff_chain o).1 hv))).1
  | diff o => exact removeAll_chain o h

theorem applyOp_mem {s : List Span} (op : Op) (hv : op.valid) (h : Chain 0 s) :
    mem (applyOp s op) = opSem (mem s) op := by
  funext x
  cases op with
  | add a l => exact add_mem x h
  | remove a l => exact mem_remove s a l x
  | inter o => exact inter_mem o x h
  | union o =>
    have ho : ∀ sp ∈ o, 0 < sp.2 := chain_pos ((wf_iff_chain o).1 hv)
    exact (mem_addAll s o x h ho).2
  | diff o => exact mem_removeAll s o x

theorem run_spec {s : List Span} (ops : List Op) (hv : ∀ op ∈ ops, op.valid) (h : Chain 0 s) :
    Chain 0 (run s ops) ∧ mem (run s ops) = ops.foldl opSem (mem s) := by
  induction ops generalizing s with
  | nil => exact ⟨h, rfl⟩
  | cons op rest ih =>
    have hop := hv op (by simp)
    have := ih (fun q hq => hv q (by simp [hq])) (applyOp_chain op hop h)
    simp only [run, List.foldl_cons] at this ⊢
    rw [← applyOp_mem op hop h]
    exact this

end Tahoe.Spans
