import Tahoe.Spans.DataModel
import Tahoe.Spans.Lemmas
/-!
Helper lemmas for C37 (`DataSpans`): the `add` loop and merge pass, `remove`, `get`, `pop`, `len`
against the abstract view `byteAt` (partial map offset ↦ byte) and the invariant `DChain`/`DInv`.
-/
namespace Tahoe.Spans

/-- weak chain: sorted, non-empty, non-overlapping chunks (adjacent allowed): what the `add` loop
produces before the merge pass. -/
def WChain : Nat → List Chunk → Prop
  | _, [] => True
  | b, c :: rest => b ≤ c.1 ∧ 0 < c.2.length ∧ WChain (c.1 + c.2.length) rest

theorem WChain.mono {b c : Nat} {s : List Chunk} (h : WChain b s) (hc : c ≤ b) : WChain c s := by
  cases s with
  | nil => trivial
  | cons sp rest => exact ⟨by have := h.1; omega, h.2.1, h.2.2⟩

theorem DChain.mono {b c : Nat} {s : List Chunk} (h : DChain b s) (hc : c ≤ b) : DChain c s := by
  cases s with
  | nil => trivial
  | cons sp rest => exact ⟨by have := h.1; omega, h.2.1, h.2.2⟩

theorem DChain.toW {b : Nat} {s : List Chunk} (h : DChain b s) : WChain b s := by
  induction s generalizing b with
  | nil => trivial
  | cons c rest ih => exact ⟨h.1, h.2.1, (ih h.2.2).mono (by omega)⟩

theorem byteAt_cons (c : Chunk) (rest : List Chunk) (x : Nat) :
    byteAt (c :: rest) x = if c.1 ≤ x ∧ x < c.1 + c.2.length then c.2[x - c.1]? else byteAt rest x := rfl

theorem byteAt_lt {b : Nat} {s : List Chunk} {x : Nat} (h : WChain b s) (hx : x < b) : byteAt s x = none := by
  induction s generalizing b with
  | nil => rfl
  | cons c rest ih =>
    rw [byteAt_cons, if_neg (by have := h.1; omega)]
    exact ih h.2.2 (by have := h.1; omega)

theorem getElem?_congr {α : Type} (l : List α) {i j : Nat} (h : i = j) : l[i]? = l[j]? := by rw [h]

theorem stepAt_spec (e start : Nat) (data : List UInt8) (c : Chunk)
    (hc : 0 < c.2.length) (hs : c.1 ≤ start) (hd : 0 < data.length) (he : e = start + data.length) :
    ∃ d', (stepAt e start data c).1 = [(c.1, d')] ∧ d'.length = c.2.length ∧
      (∀ i, i < c.2.length →
        d'[i]? = if start ≤ c.1 + i ∧ c.1 + i < e then data[c.1 + i - start]? else c.2[i]?) ∧
      (((stepAt e start data c).2 = none ∧ e ≤ c.1 + c.2.length) ∨
       (∃ st, (stepAt e start data c).2 = some (st, data.drop (st - start)) ∧
          st = max start (c.1 + c.2.length) ∧ st ≤ e)) := by
  obtain ⟨ss, sd⟩ := c
  simp only at hc hs ⊢
  unfold stepAt
  simp only
  by_cases h1 : ss ≤ start ∧ start < ss + sd.length
  · have h1' : (decide (ss ≤ start) && decide (start < ss + sd.length)) = true := by simp [h1]
    rw [if_pos h1']
    by_cases h2 : ss = start
    · have h2' : (ss == start) = true := by simp [h2]
      rw [if_pos h2']
      subst h2
      by_cases h3 : ss + sd.length ≤ e
      · -- case C
        rw [if_pos h3]
        refine ⟨data.take sd.length, rfl, by simp; omega, ?_, Or.inr ⟨ss + sd.length, ?_, by omega, h3⟩⟩
        · intro i hi
          rw [if_pos (by omega), List.getElem?_take, if_pos hi]
          exact getElem?_congr _ (by omega)
        · simp
      · -- case B
        rw [if_neg h3]
        refine ⟨data ++ sd.drop data.length, rfl, by simp; omega, ?_, Or.inl ⟨rfl, by omega⟩⟩
        intro i hi
        rw [List.getElem?_append]
        by_cases hi2 : i < data.length
        · rw [if_pos hi2, if_pos (by omega)]; exact getElem?_congr _ (by omega)
        · rw [if_neg hi2, if_neg (by omega), List.getElem?_drop]; exact getElem?_congr _ (by omega)
    · have h2' : ¬ ((ss == start) = true) := by simp [h2]
      rw [if_neg h2']
      by_cases h3 : start > ss ∧ e < ss + sd.length
      · -- case E
        have h3' : (decide (start > ss) && decide (e < ss + sd.length)) = true := by simp [h3]
        rw [if_pos h3']
        have hsuf : ¬ ((ss + sd.length - e == 0) = true) := by simp; omega
        refine ⟨sd.take (start - ss) ++ data ++ pyLastN sd (ss + sd.length - e), rfl, ?_, ?_, Or.inl ⟨rfl, by omega⟩⟩
        · simp only [pyLastN, if_neg hsuf, List.length_append, List.length_take, List.length_drop]; omega
        · intro i hi
          simp only [pyLastN, if_neg hsuf]
          rw [List.append_assoc, List.getElem?_append]
          simp only [List.length_take]
          by_cases hi1 : i < start - ss
          · rw [if_pos (by omega), if_neg (by omega), List.getElem?_take, if_pos hi1]
          · rw [if_neg (by omega), List.getElem?_append]
            by_cases hi2 : i < e - ss
            · rw [if_pos (by omega), if_pos (by omega)]; exact getElem?_congr _ (by omega)
            · rw [if_neg (by omega), if_neg (by omega), List.getElem?_drop]; exact getElem?_congr _ (by omega)
      · -- case D
        have h3' : ¬ ((decide (start > ss) && decide (e < ss + sd.length)) = true) := by simp; omega
        rw [if_neg h3']
        refine ⟨sd.take (start - ss) ++ data.take (sd.length - (start - ss)), rfl, ?_, ?_,
          Or.inr ⟨start + (sd.length - (start - ss)), ?_, by omega, by omega⟩⟩
        · simp only [List.length_append, List.length_take]; omega
        · intro i hi
          rw [List.getElem?_append]
          simp only [List.length_take]
          by_cases hi1 : i < start - ss
          · rw [if_pos (by omega), if_neg (by omega), List.getElem?_take, if_pos hi1]
          · rw [if_neg (by omega), if_pos (by omega), List.getElem?_take, if_pos (by omega)]
            exact getElem?_congr _ (by omega)
        · simp
  · -- still looking
    have h1' : ¬ ((decide (ss ≤ start) && decide (start < ss + sd.length)) = true) := by simp; omega
    rw [if_neg h1']
    refine ⟨sd, rfl, rfl, ?_, Or.inr ⟨start, by simp, by omega, by omega⟩⟩
    intro i hi
    rw [if_neg (by omega)]

/-- what the `add` loop establishes from position `start` on -/
def LoopSpec (e : Nat) (rest : List Chunk) : Prop :=
  ∀ (b start : Nat) (data : List UInt8), WChain b rest → b ≤ start → e = start + data.length →
    WChain b (addLoop e start data rest) ∧
    ∀ x, byteAt (addLoop e start data rest) x =
      if start ≤ x ∧ x < e then data[x - start]? else byteAt rest x

theorem addLoop_at (e : Nat) {b start : Nat} {data : List UInt8} {c : Chunk} {rest : List Chunk}
    (ih : LoopSpec e rest) (h : WChain b (c :: rest)) (hs : c.1 ≤ start) (hd : 0 < data.length)
    (he : e = start + data.length) :
    let r := stepAt e start data c
    let res := r.1 ++ (match r.2 with
      | none => rest
      | some (st, d) => addLoop e st d rest)
    WChain b res ∧ ∀ x, byteAt res x =
      if start ≤ x ∧ x < e then data[x - start]? else byteAt (c :: rest) x := by
  obtain ⟨h1, h2, h3⟩ := h
  obtain ⟨d', hr1, hlen, hget, hcases⟩ := stepAt_spec e start data c h2 hs hd he
  intro r res
  have hin : ∀ x, c.1 ≤ x → x < c.1 + c.2.length →
      d'[x - c.1]? = if start ≤ x ∧ x < e then data[x - start]? else c.2[x - c.1]? := by
    intro x hx1 hx2
    have := hget (x - c.1) (by omega)
    have hx : c.1 + (x - c.1) = x := by omega
    rw [hx] at this
    exact this
  rcases hcases with ⟨hnone, hle⟩ | ⟨st, hsome, hst, hste⟩
  · have hres : res = (c.1, d') :: rest := by simp only [res, r, hr1, hnone]; rfl
    rw [hres]
    refine ⟨⟨h1, by simp only; omega, by simp only; rw [hlen]; exact h3⟩, ?_⟩
    intro x
    rw [byteAt_cons, byteAt_cons]
    simp only [hlen]
    by_cases hx : c.1 ≤ x ∧ x < c.1 + c.2.length
    · rw [if_pos hx, if_pos hx, hin x hx.1 hx.2]
    · rw [if_neg hx, if_neg hx, if_neg (by omega)]
  · have hres : res = (c.1, d') :: addLoop e st (data.drop (st - start)) rest := by
      simp only [res, r, hr1, hsome]; rfl
    rw [hres]
    obtain ⟨i1, i2⟩ := ih (c.1 + c.2.length) st (data.drop (st - start)) h3 (by omega)
      (by simp only [List.length_drop]; omega)
    refine ⟨⟨h1, by simp only; omega, by simp only; rw [hlen]; exact i1⟩, ?_⟩
    intro x
    rw [byteAt_cons, byteAt_cons]
    simp only [hlen]
    by_cases hx : c.1 ≤ x ∧ x < c.1 + c.2.length
    · rw [if_pos hx, if_pos hx, hin x hx.1 hx.2]
    · rw [if_neg hx, if_neg hx, i2 x]
      by_cases hx2 : start ≤ x ∧ x < e
      · rw [if_pos hx2, if_pos (by omega), List.getElem?_drop]
        exact getElem?_congr _ (by omega)
      · rw [if_neg hx2, if_neg (by omega)]

theorem addLoop_spec (e : Nat) (s : List Chunk) : LoopSpec e s := by
  induction s with
  | nil =>
    intro b start data _ hb he
    simp only [addLoop]
    by_cases hd : data.length = 0
    · rw [if_pos hd]
      exact ⟨trivial, fun x => by rw [if_neg (by omega)]⟩
    · rw [if_neg hd]
      refine ⟨⟨hb, by simp only; omega, trivial⟩, fun x => ?_⟩
      rw [byteAt_cons]
      simp only [← he]
  | cons c rest ih =>
    intro b start data h hb he
    simp only [addLoop]
    by_cases hd : data.length = 0
    · rw [if_pos hd]
      exact ⟨h, fun x => by rw [if_neg (by omega)]⟩
    · rw [if_neg hd]
      by_cases hA : start < c.1
      · rw [if_pos hA]
        by_cases hd2 : (data.drop (c.1 - start)).length = 0
        · -- the new data ends before the old chunk starts
          rw [if_pos hd2]
          simp only [List.length_drop] at hd2
          have htake : data.take (c.1 - start) = data := List.take_of_length_le (by omega)
          rw [htake]
          refine ⟨⟨hb, by simp only; omega, by simp only; have := h.1; omega, h.2.1, h.2.2⟩, fun x => ?_⟩
          rw [byteAt_cons]
          simp only [← he]
        · rw [if_neg hd2]
          simp only [List.length_drop] at hd2
          have hat := addLoop_at e (b := c.1) (start := c.1) (data := data.drop (c.1 - start)) ih
            (show WChain c.1 (c :: rest) from ⟨Nat.le_refl _, h.2.1, h.2.2⟩) (Nat.le_refl _)
            (by simp only [List.length_drop]; omega) (by simp only [List.length_drop]; omega)
          simp only at hat
          obtain ⟨a1, a2⟩ := hat
          refine ⟨⟨hb, by simp only [List.length_take]; omega, a1.mono (by simp only [List.length_take]; omega)⟩,
            fun x => ?_⟩
          rw [byteAt_cons]
          simp only [List.length_take]
          by_cases hx : start ≤ x ∧ x < start + min (c.1 - start) data.length
          · rw [if_pos hx, if_pos (by omega), List.getElem?_take, if_pos (by omega)]
          · rw [if_neg hx]
            refine Eq.trans (a2 x) ?_
            by_cases hx2 : c.1 ≤ x ∧ x < e
            · rw [if_pos hx2, if_pos (by omega), List.getElem?_drop]
              exact getElem?_congr _ (by omega)
            · rw [if_neg hx2, if_neg (by omega)]
      · rw [if_neg hA]
        exact addLoop_at e ih h (by omega) (by omega) he

theorem mergeGo_spec {b : Nat} {cur : Chunk} {rest : List Chunk} (hb : b ≤ cur.1) (hc : 0 < cur.2.length)
    (h : WChain (cur.1 + cur.2.length) rest) :
    DChain b (mergeGo cur rest) ∧ ∀ x, byteAt (mergeGo cur rest) x = byteAt (cur :: rest) x := by
  induction rest generalizing b cur with
  | nil => exact ⟨⟨hb, hc, trivial⟩, fun _ => rfl⟩
  | cons c rest ih =>
    obtain ⟨h1, h2, h3⟩ := h
    simp only [mergeGo]
    by_cases hadj : cur.1 + cur.2.length = c.1
    · have hadj' : adjacent cur.1 cur.2.length c.1 c.2.length = true := by
        simp [adjacent]; left; omega
      rw [if_pos hadj']
      obtain ⟨i1, i2⟩ := ih (b := b) (cur := (cur.1, cur.2 ++ c.2)) hb (by simp only [List.length_append]; omega)
        (by simp only [List.length_append]; rw [← Nat.add_assoc, hadj]; exact h3)
      refine ⟨i1, fun x => ?_⟩
      rw [i2 x, byteAt_cons, byteAt_cons, byteAt_cons]
      simp only [List.length_append]
      by_cases hx1 : cur.1 ≤ x ∧ x < cur.1 + cur.2.length
      · rw [if_pos (by omega), if_pos hx1, List.getElem?_append, if_pos (by omega)]
      · rw [if_neg hx1]
        by_cases hx2 : c.1 ≤ x ∧ x < c.1 + c.2.length
        · rw [if_pos (by omega), if_pos hx2, List.getElem?_append, if_neg (by omega)]
          exact getElem?_congr _ (by omega)
        · rw [if_neg (by omega), if_neg hx2]
    · have hadj' : ¬ (adjacent cur.1 cur.2.length c.1 c.2.length = true) := by
        simp [adjacent]; omega
      rw [if_neg hadj']
      obtain ⟨i1, i2⟩ := ih (b := cur.1 + cur.2.length + 1) (cur := c) (by omega) h2 h3
      refine ⟨⟨hb, hc, i1⟩, fun x => ?_⟩
      rw [byteAt_cons, i2 x]; rfl

theorem dmerge_spec {b : Nat} {s : List Chunk} (h : WChain b s) :
    DChain b (dmerge s) ∧ ∀ x, byteAt (dmerge s) x = byteAt s x := by
  cases s with
  | nil => exact ⟨trivial, fun _ => rfl⟩
  | cons c rest => exact mergeGo_spec h.1 h.2.1 h.2.2

/-- `DataSpans.add`: invariant and later-writes-win refinement -/
theorem dadd_spec {s : List Chunk} (start : Nat) (data : List UInt8) (h : DInv s) :
    DInv (dadd s start data) ∧ ∀ x, byteAt (dadd s start data) x =
      if start ≤ x ∧ x < start + data.length then data[x - start]? else byteAt s x := by
  obtain ⟨l1, l2⟩ := addLoop_spec (start + data.length) s 0 start data h.toW (Nat.zero_le _) rfl
  obtain ⟨m1, m2⟩ := dmerge_spec l1
  exact ⟨m1, fun x => by rw [dadd, m2 x, l2 x]⟩

theorem overlap_some {a l s n os ol : Nat} (h : overlap a l s n = some (os, ol)) :
    max a s < min (a + l) (s + n) ∧ os = max a s ∧ ol = min (a + l) (s + n) - max a s := by
  simp only [overlap] at h
  split at h
  · simp only [Option.some.injEq, Prod.mk.injEq] at h
    exact ⟨by assumption, h.1.symm, h.2.symm⟩
  · cases h

theorem overlap_none {a l s n : Nat} (h : overlap a l s n = none) :
    ¬ (max a s < min (a + l) (s + n)) := by
  simp only [overlap] at h
  split at h
  · cases h
  · assumption

theorem dremove_spec {b : Nat} {s : List Chunk} (a l : Nat) (h : DChain b s) :
    DChain b (dremove a l s) ∧ ∀ x, byteAt (dremove a l s) x =
      if a ≤ x ∧ x < a + l then none else byteAt s x := by
  induction s generalizing b with
  | nil => exact ⟨trivial, fun x => by simp [dremove, byteAt]⟩
  | cons c rest ih =>
    obtain ⟨h1, h2, h3⟩ := h
    obtain ⟨i1, i2⟩ := ih h3
    simp only [dremove]
    by_cases hbrk : c.1 ≥ a + l
    · rw [if_pos hbrk]
      refine ⟨⟨h1, h2, h3⟩, fun x => ?_⟩
      by_cases hx : a ≤ x ∧ x < a + l
      · rw [if_pos hx]
        exact byteAt_lt (b := c.1) ⟨Nat.le_refl _, h2, h3.toW.mono (by omega)⟩ (by omega)
      · rw [if_neg hx]
    · rw [if_neg hbrk]
      split
      · rename_i hov
        have hov := overlap_none hov
        refine ⟨⟨h1, h2, i1⟩, fun x => ?_⟩
        rw [byteAt_cons, byteAt_cons, i2 x]
        by_cases hx : c.1 ≤ x ∧ x < c.1 + c.2.length
        · rw [if_pos hx, if_pos hx, if_neg (by omega)]
        · rw [if_neg hx, if_neg hx]
      · rename_i os ol hov
        obtain ⟨hlt, rfl, rfl⟩ := overlap_some hov
        by_cases hw : min (a + l) (c.1 + c.2.length) - max a c.1 = c.2.length
        · -- whole chunk removed
          have hw' : (min (a + l) (c.1 + c.2.length) - max a c.1 == c.2.length) = true := by simp [hw]
          rw [if_pos hw']
          refine ⟨i1.mono (by omega), fun x => ?_⟩
          rw [i2 x, byteAt_cons]
          by_cases hx : c.1 ≤ x ∧ x < c.1 + c.2.length
          · rw [if_pos hx, if_pos (by omega), if_pos (by omega)]
          · rw [if_neg hx]
        · have hw' : ¬ ((min (a + l) (c.1 + c.2.length) - max a c.1 == c.2.length) = true) := by simp [hw]
          rw [if_neg hw']
          by_cases hp : max a c.1 = c.1
          · -- prefix removed
            have hp' : (max a c.1 == c.1) = true := by simp [hp]
            rw [if_pos hp']
            have e1 : max a c.1 + (min (a + l) (c.1 + c.2.length) - max a c.1) = a + l := by omega
            have e2 : a + l - max a c.1 = a + l - c.1 := by omega
            rw [e1, e2]
            refine ⟨⟨by omega, by simp only [List.length_drop]; omega,
              i1.mono (by simp only [List.length_drop]; omega)⟩, fun x => ?_⟩
            rw [byteAt_cons, byteAt_cons, i2 x]
            simp only [List.length_drop]
            by_cases hx : a + l ≤ x ∧ x < c.1 + c.2.length
            · rw [if_pos (by omega), if_neg (by omega), if_pos (by omega), List.getElem?_drop]
              exact getElem?_congr _ (by omega)
            · rw [if_neg (by omega)]
              by_cases hx2 : a ≤ x ∧ x < a + l
              · rw [if_pos hx2, if_pos hx2]
              · rw [if_neg hx2, if_neg hx2, if_neg (by omega)]
          · have hp' : ¬ ((max a c.1 == c.1) = true) := by simp [hp]
            rw [if_neg hp']
            by_cases hs : max a c.1 + (min (a + l) (c.1 + c.2.length) - max a c.1) = c.1 + c.2.length
            · -- suffix removed
              have hs' : (max a c.1 + (min (a + l) (c.1 + c.2.length) - max a c.1) == c.1 + c.2.length) = true := by
                simp [hs]
              rw [if_pos hs']
              have e1 : max a c.1 - c.1 = a - c.1 := by omega
              rw [e1]
              refine ⟨⟨h1, by simp only [List.length_take]; omega,
                i1.mono (by simp only [List.length_take]; omega)⟩, fun x => ?_⟩
              rw [byteAt_cons, byteAt_cons, i2 x]
              simp only [List.length_take]
              by_cases hx : c.1 ≤ x ∧ x < a
              · rw [if_pos (by omega), if_neg (by omega), if_pos (by omega), List.getElem?_take, if_pos (by omega)]
              · rw [if_neg (by omega)]
                by_cases hx2 : a ≤ x ∧ x < a + l
                · rw [if_pos hx2, if_pos hx2]
                · rw [if_neg hx2, if_neg hx2, if_neg (by omega)]
            · -- middle removed
              have hs' : ¬ ((max a c.1 + (min (a + l) (c.1 + c.2.length) - max a c.1) == c.1 + c.2.length) = true) := by
                simp [hs]
              rw [if_neg hs']
              have e1 : max a c.1 - c.1 = a - c.1 := by omega
              have e2 : max a c.1 + (min (a + l) (c.1 + c.2.length) - max a c.1) = a + l := by omega
              have hne : ¬ ((c.1 + c.2.length - (a + l) == 0) = true) := by simp; omega
              rw [e1, e2]
              simp only [pyLastN, if_neg hne]
              refine ⟨⟨h1, by simp only [List.length_take]; omega, by simp only [List.length_take]; omega,
                by simp only [List.length_drop]; omega,
                h3.mono (by simp only [List.length_drop]; omega)⟩, fun x => ?_⟩
              rw [byteAt_cons, byteAt_cons, byteAt_cons]
              simp only [List.length_take, List.length_drop]
              by_cases hx : c.1 ≤ x ∧ x < a
              · rw [if_pos (by omega), if_neg (by omega), if_pos (by omega), List.getElem?_take, if_pos (by omega)]
              · rw [if_neg (by omega)]
                by_cases hx2 : a ≤ x ∧ x < a + l
                · rw [if_neg (by omega), if_pos hx2]
                  exact byteAt_lt (h3.toW.mono (Nat.le_succ _)) (by omega)
                · rw [if_neg hx2]
                  by_cases hx3 : a + l ≤ x ∧ x < c.1 + c.2.length
                  · rw [if_pos (by omega), if_pos (by omega), List.getElem?_drop]
                    exact getElem?_congr _ (by omega)
                  · rw [if_neg (by omega), if_neg (by omega)]

/-! ### get -/

theorem dget_lt {b : Nat} {s : List Chunk} {a l : Nat} (h : WChain b s) (ha : a < b) : dget a l s = none := by
  induction s generalizing b with
  | nil => rfl
  | cons c rest ih =>
    obtain ⟨h1, h2, h3⟩ := h
    simp only [dget]
    have hn : ¬ ((decide (c.1 ≤ a) && decide (a < c.1 + c.2.length)) = true) := by simp; omega
    rw [if_neg hn]
    split
    · rfl
    · exact ih h3 (by omega)

theorem byteAt_isSome_cons (c : Chunk) (rest : List Chunk) (x : Nat) :
    (byteAt (c :: rest) x).isSome =
      ((decide (c.1 ≤ x) && decide (x < c.1 + c.2.length)) || (byteAt rest x).isSome) := by
  rw [byteAt_cons]
  by_cases hx : c.1 ≤ x ∧ x < c.1 + c.2.length
  · rw [if_pos hx]
    have : x - c.1 < c.2.length := by omega
    simp [hx, List.getElem?_eq_getElem this]
  · rw [if_neg hx]
    have : (decide (c.1 ≤ x) && decide (x < c.1 + c.2.length)) = false := by simp; omega
    simp [this]

/-- what `get` returns is exactly the stored bytes of the range -/
theorem dget_some {b : Nat} {s : List Chunk} {a l : Nat} {bs : List UInt8} (h : DChain b s)
    (hg : dget a l s = some bs) : bs.length = l ∧ ∀ i, i < l → byteAt s (a + i) = bs[i]? := by
  induction s generalizing b with
  | nil => cases hg
  | cons c rest ih =>
    obtain ⟨h1, h2, h3⟩ := h
    simp only [dget] at hg
    by_cases hin : c.1 ≤ a ∧ a < c.1 + c.2.length
    · have hin' : (decide (c.1 ≤ a) && decide (a < c.1 + c.2.length)) = true := by simp [hin]
      rw [if_pos hin'] at hg
      by_cases hshort : a - c.1 + l > c.2.length
      · rw [if_pos hshort] at hg; cases hg
      · rw [if_neg hshort] at hg
        simp only [Option.some.injEq] at hg
        subst hg
        refine ⟨by simp only [List.length_take, List.length_drop]; omega, fun i hi => ?_⟩
        rw [byteAt_cons, if_pos (by omega), List.getElem?_take, if_pos hi, List.getElem?_drop]
        exact getElem?_congr _ (by omega)
    · have hin' : ¬ ((decide (c.1 ≤ a) && decide (a < c.1 + c.2.length)) = true) := by simp; omega
      rw [if_neg hin'] at hg
      split at hg
      · cases hg
      · by_cases ha : a < c.1
        · rw [dget_lt h3.toW (by omega)] at hg; cases hg
        · obtain ⟨r1, r2⟩ := ih h3 hg
          refine ⟨r1, fun i hi => ?_⟩
          rw [byteAt_cons, if_neg (by omega)]
          exact r2 i hi

/-- `get` answers (not `None`) exactly when every offset of the (non-empty) range is present -/
theorem dget_isSome_iff {b : Nat} {s : List Chunk} {a l : Nat} (h : DChain b s) (hl : 0 < l) :
    (dget a l s).isSome = true ↔ ∀ x, a ≤ x → x < a + l → (byteAt s x).isSome = true := by
  induction s generalizing b with
  | nil =>
    simp only [dget, byteAt, Option.isSome_none]
    constructor
    · intro h; cases h
    · intro h; exact h a (Nat.le_refl _) (by omega)
  | cons c rest ih =>
    obtain ⟨h1, h2, h3⟩ := h
    have ih' := ih h3
    have hcw : WChain c.1 (c :: rest) := ⟨Nat.le_refl _, h2, h3.toW.mono (by omega)⟩
    simp only [dget]
    by_cases hin : c.1 ≤ a ∧ a < c.1 + c.2.length
    · have hin' : (decide (c.1 ≤ a) && decide (a < c.1 + c.2.length)) = true := by simp [hin]
      rw [if_pos hin']
      by_cases hshort : a - c.1 + l > c.2.length
      · rw [if_pos hshort]
        constructor
        · intro h; cases h
        · intro hall
          have := hall (c.1 + c.2.length) (by omega) (by omega)
          rw [byteAt_cons, if_neg (by omega), byteAt_lt h3.toW (by omega)] at this
          cases this
      · rw [if_neg hshort]
        constructor
        · intro _ x hx1 hx2
          rw [byteAt_isSome_cons]
          have : (decide (c.1 ≤ x) && decide (x < c.1 + c.2.length)) = true := by simp; omega
          simp [this]
        · intro _; rfl
    · have hin' : ¬ ((decide (c.1 ≤ a) && decide (a < c.1 + c.2.length)) = true) := by simp; omega
      rw [if_neg hin']
      by_cases hfar : c.1 ≥ a + l
      · rw [if_pos hfar]
        constructor
        · intro h; cases h
        · intro hall
          have := hall a (Nat.le_refl _) (by omega)
          rw [byteAt_lt hcw (by omega)] at this
          cases this
      · rw [if_neg hfar]
        by_cases ha : a < c.1
        · constructor
          · intro hs
            have := (ih'.1 hs) a (Nat.le_refl _) (by omega)
            rw [byteAt_lt h3.toW (by omega)] at this
            cases this
          · intro hall
            have := hall a (Nat.le_refl _) (by omega)
            rw [byteAt_lt hcw ha] at this
            cases this
        · rw [ih']
          constructor
          · intro hall x hx1 hx2
            rw [byteAt_cons, if_neg (by omega)]
            exact hall x hx1 hx2
          · intro hall x hx1 hx2
            have := hall x hx1 hx2
            rw [byteAt_cons, if_neg (by omega)] at this
            exact this

/-! ### pop -/

theorem dpop_fst (s : List Chunk) (a l : Nat) : (dpop s a l).1 = dget a l s := by
  unfold dpop
  split <;> simp_all

theorem dpop_snd (s : List Chunk) (a l : Nat) :
    (dpop s a l).2 = match dget a l s with
      | some (_ :: _) => dremove a l s
      | _ => s := by
  unfold dpop
  split <;> simp_all

theorem dpop_spec {s : List Chunk} (a l : Nat) (h : DInv s) :
    DInv (dpop s a l).2 ∧ ∀ x, byteAt (dpop s a l).2 x =
      if (dget a l s).isSome = true ∧ a ≤ x ∧ x < a + l then none else byteAt s x := by
  obtain ⟨r1, r2⟩ := dremove_spec a l h
  rw [dpop_snd]
  cases hg : dget a l s with
  | none => exact ⟨h, fun x => by simp⟩
  | some bs =>
    cases bs with
    | nil =>
      have := (dget_some h hg).1
      simp only [List.length_nil] at this
      refine ⟨h, fun x => ?_⟩
      rw [if_neg (by omega)]
    | cons b0 bs =>
      refine ⟨r1, fun x => ?_⟩
      simp only [Option.isSome_some, true_and]
      exact r2 x

/-! ### len -/

theorem dlen_cons (c : Chunk) (rest : List Chunk) : dlen (c :: rest) = c.2.length + dlen rest := by
  simp [dlen]

theorem dlen_eq_count {b N : Nat} {s : List Chunk} (h : WChain b s) (hN : ∀ c ∈ s, c.1 + c.2.length ≤ N) :
    dlen s = (List.range N).countP (fun x => (byteAt s x).isSome) := by
  induction s generalizing b with
  | nil => simp [dlen, byteAt]
  | cons c rest ih =>
    obtain ⟨h1, h2, h3⟩ := h
    have hc := hN c (by simp)
    have ih' := ih h3 (fun q hq => hN q (by simp [hq]))
    have hfun : (fun x => (byteAt (c :: rest) x).isSome) =
        fun x => (decide (c.1 ≤ x) && decide (x < c.1 + c.2.length)) || (byteAt rest x).isSome := by
      funext x; exact byteAt_isSome_cons c rest x
    rw [hfun, countP_or_disjoint _ (fun x => (byteAt rest x).isSome), countP_range_interval, dlen_cons, ← ih']
    · omega
    · intro x _ ⟨hx1, hx2⟩
      simp at hx1
      rw [byteAt_lt h3 (by omega)] at hx2
      cases hx2

/-! ### assert_invariants, get_spans -/

theorem dchain_ge {b : Nat} {s : List Chunk} (h : DChain b s) : ∀ d ∈ s, b ≤ d.1 := by
  induction s generalizing b with
  | nil => intro _ h; cases h
  | cons c rest ih =>
    intro d hd
    rcases List.mem_cons.1 hd with rfl | hd
    · exact h.1
    · have := ih h.2.2 d hd; have := h.1; omega

theorem assertOk_of_chain {b : Nat} {s : List Chunk} (h : DChain b s) : assertOk s = true := by
  cases s with
  | nil => rfl
  | cons c rest =>
    simp only [assertOk, List.all_eq_true, decide_eq_true_eq]
    intro d hd
    have := dchain_ge h.2.2 d hd
    omega

theorem dchain_pos {b : Nat} {s : List Chunk} (h : DChain b s) : ∀ d ∈ s, 0 < d.2.length := by
  induction s generalizing b with
  | nil => intro _ h; cases h
  | cons c rest ih =>
    intro d hd
    rcases List.mem_cons.1 hd with rfl | hd
    · exact h.2.1
    · exact ih h.2.2 d hd

theorem any_map_eq_isSome (s : List Chunk) (x : Nat) :
    (s.map (fun c => (c.1, c.2.length))).any (fun sp : Span => decide (sp.1 ≤ x) && decide (x < sp.1 + sp.2)) =
      (byteAt s x).isSome := by
  induction s with
  | nil => rfl
  | cons c rest ih => rw [byteAt_isSome_cons, List.map_cons, List.any_cons, ih]


/-- `get_spans()` is a well-formed `Spans` whose members are exactly the stored offsets -/
theorem getSpans_spec {b : Nat} {s : List Chunk} (h : DChain b s) (x : Nat) :
    Chain 0 (getSpans s) ∧ mem (getSpans s) x = (byteAt s x).isSome := by
  have hpos : ∀ sp ∈ s.map (fun c : Chunk => (c.1, c.2.length)), 0 < sp.2 := by
    intro sp hsp
    obtain ⟨c, hc, rfl⟩ := List.mem_map.1 hsp
    exact dchain_pos h c hc
  obtain ⟨r1, r2⟩ := mem_addAll (b := 0) [] (s.map (fun c : Chunk => (c.1, c.2.length))) x trivial hpos
  refine ⟨r1, ?_⟩
  rw [getSpans, r2, any_map_eq_isSome]
  simp [mem]

/-! ### histories -/

/-- the effect of one operation on a partial map offset ↦ byte; later writes win; `pop` clears the
range only when all of it is present. -/
def dopSem (f : Nat → Option UInt8) : DOp → Nat → Option UInt8
  | .add a d => fun x => if a ≤ x ∧ x < a + d.length then d[x - a]? else f x
  | .remove a l => fun x => if a ≤ x ∧ x < a + l then none else f x
  | .pop a l => fun x =>
      if (List.range l).all (fun i => (f (a + i)).isSome) = true ∧ a ≤ x ∧ x < a + l then none else f x

theorem applyDOp_spec {s : List Chunk} (op : DOp) (h : DInv s) :
    DInv (applyDOp s op) ∧ byteAt (applyDOp s op) = dopSem (byteAt s) op := by
  cases op with
  | add a d =>
    obtain ⟨r1, r2⟩ := dadd_spec a d h
    exact ⟨r1, funext r2⟩
  | remove a l =>
    obtain ⟨r1, r2⟩ := dremove_spec a l h
    exact ⟨r1, funext r2⟩
  | pop a l =>
    obtain ⟨r1, r2⟩ := dpop_spec a l h
    refine ⟨r1, funext fun x => ?_⟩
    simp only [applyDOp, dopSem]
    rw [r2 x]
    by_cases hl : 0 < l
    · have hiff : (dget a l s).isSome = true ↔ (List.range l).all (fun i => (byteAt s (a + i)).isSome) = true := by
        rw [dget_isSome_iff h hl]
        simp only [List.all_eq_true, List.mem_range]
        constructor
        · intro hall i hi; exact hall (a + i) (by omega) (by omega)
        · intro hall x hx1 hx2
          have := hall (x - a) (by omega)
          rwa [show a + (x - a) = x by omega] at this
      by_cases hg : (dget a l s).isSome = true
      · have := hiff.1 hg
        simp only [hg, this, true_and]
      · have : ¬ ((List.range l).all (fun i => (byteAt s (a + i)).isSome) = true) := fun hh => hg (hiff.2 hh)
        rw [if_neg (fun hh => hg hh.1), if_neg (fun hh => this hh.1)]
    · rw [if_neg (by omega), if_neg (by omega)]

theorem drun_spec {s : List Chunk} (ops : List DOp) (h : DInv s) :
    DInv (drun s ops) ∧ byteAt (drun s ops) = ops.foldl dopSem (byteAt s) := by
  induction ops generalizing s with
  | nil => exact ⟨h, rfl⟩
  | cons op rest ih =>
    obtain ⟨a1, a2⟩ := applyDOp_spec op h
    have := ih a1
    simp only [drun, List.foldl_cons] at this ⊢
    rw [← a2]
    exact this

end Tahoe.Spans
