import Tahoe.Storage.LemmasSlot
import Tahoe.Storage.LemmasLeaseBucket
/-!
C23 — mutable share containers behave like byte arrays (property theorems only; helper lemmas are in
`Tahoe/Storage/Lemmas{Mutable,Lease,Slot,LeaseBucket}.lean`).

Model: `Tahoe/Storage/Mutable.lean` (container file, byte-exact), `Tahoe/Storage/Slot.lean` (server calls).
Specification: `Tahoe/Storage/Spec.lean`, `SlotSpec.lean` (a share = a growable byte array; a storage
index = a finite map of such arrays).  `absData f = pread f 468 (dataLength f)` is the abstraction.

Coverage of the statement (properties.jsonl C23), clause → theorem(s) proving it for the model:
* "each mutable share behaves like a growable byte array, for any sequence of test-and-write and read operations"
      → `reachable_wf` + `refines_bytearray` (every request from every reachable state, repaired server) +
        `slot_readv_refines`; container level `writev_refines`, invariant `wf_preserved`
* "writes past the end fill the gap with zero bytes" → `writev_refines` (spec `splice`), `truncate_then_extend_zero`
      (an EMPTY write past the end also extends: example after `writev_refines`)
* "a smaller new length truncates" (larger is ignored) → `writev_refines` / `refines_bytearray` (`Spec.newLength`)
* "reads are clipped at the current length" → `writev_refines` (readv part), `slot_readv_refines`
* "test vectors compare against the current data (a missing share reads as empty)" → `refines_bytearray`
      (`Spec.evalTests`, `Spec.dataOf`); C24 `absent_share_tests_count`; length vs specimen:
      `testv_length_exceeding_specimen_fails`
* "a new length of zero deletes the share" → `refines_bytearray` (`Spec.evalWrites` erases)
* (order of the write vectors of one request) → `write_vectors_in_order`
* "data writes never alter the share's leases" → `leases_unchanged_by_data_ops` (container, any vectors, even a failing
      call); whole request: C25 `rtw_keeps_every_lease`
* requests that RETURN on the unrepaired server (no size pre-check) are covered as well: `refines_bytearray` has no
  hypothesis on `precheck` (a write phase that did not raise had only admissible vectors, `evalWrites_none_fits`);
  requests that RAISE are C24's subject (`all_or_nothing`, `all_or_nothing_counterexample`).
* not covered: negative offsets / non-`eq` test operators (rejected by the wire schemas; outside the model).
-/
namespace Tahoe.C23
open Tahoe.Base.File Tahoe.Storage Tahoe.Storage.Mutable Tahoe.Storage.Slot Tahoe.Generated.Storage

/-- the layout numbers written as literals in `Tahoe/Storage/Mutable.lean` are the values of the source -/
theorem layout_constants :
    mut_DATA_LENGTH_OFFSET = 84 ∧ mut_EXTRA_LEASE_OFFSET = 92 ∧ mut_HEADER_SIZE = 100 ∧ mut_LEASE_SIZE = 92 ∧
    mut_DATA_OFFSET = 468 ∧ mut_HEADER_FORMAT = ">32s20s32sQQ" ∧ lease_MUTABLE_FORMAT = ">LL32s32s20s" ∧
    lease_MUTABLE_SIZE = 92 ∧ mut_INITIAL_EXTRA_LEASE_OFFSET = 468 ∧ mut_INITIAL_FILE_SIZE = 472 ∧
    mut_NEWEST_SCHEMA_VERSION = 2 ∧ mut_MAGIC_V1.length = 32 ∧ mut_MAGIC_V2.length = 32 ∧
    mut_MAGIC_V1 ≠ mut_MAGIC_V2 ∧ 468 + mut_MAX_SIZE < 2 ^ 64 := by decide

/-! ### the invariant `WF` is established by `create` and preserved by every operation -/

/-- `WF` (data region below the extra-lease block, container ≤ MAX_SIZE, file holds the whole lease
    block) holds for a new container and is preserved by `writev` (even when it raises half-way),
    `add_lease`, `renew_lease` and `add_or_renew_lease`, for any arguments -/
theorem wf_preserved :
    (∀ s nodeid we, WF (create s nodeid we)) ∧
    (∀ f dv nl, WF f → WF (writev f dv nl).1) ∧
    (∀ f avail l, WF f → WF (addLease f avail l).1) ∧
    (∀ h f secret t, WF f → WF (renewLease h f secret t).1) ∧
    (∀ h f avail li, WF f → WF (addOrRenew h f avail li).1) :=
  ⟨create_wf, fun f dv nl h => (writev_any f h dv nl).1, fun f a l h => (addLease_spec f h a l).wf,
   fun h f s t w => (renewLease_spec h f w s t).wf, fun h f a li w => (addOrRenew_spec h f w a li).wf⟩

example : WF (create .v2 (zeros 20) (zeros 32)) := create_wf _ _ _

/-- every state reachable from the empty storage index by any history of requests is well formed -/
theorem reachable_wf (qs : List Req) : BucketWF (runAll [] qs) := by
  suffices h : ∀ b, BucketWF b → BucketWF (runAll b qs) from h [] BucketWF.nil
  induction qs with
  | nil => intro b hb; exact hb
  | cons q rest ih => intro b hb; exact ih _ (rtw_wf b hb q)

/-! ### refinement to byte arrays -/

/-- container level: `readv` is the clipped read and `check_testv` the comparison on the byte array;
    `writev` whose vectors fit below MAX_SIZE succeeds and is the byte-array `writev`: the gap past
    the end is zero-filled (also for an empty write beyond the end, see the example), a smaller
    `new_length` truncates, a larger one is ignored -/
theorem writev_refines (f : File) (hwf : WF f) (dv : List (Nat × Bytes)) (nl : Option Nat) (hfit : FitsAll dv)
    (rv : List (Nat × Nat)) (tv : List (Nat × Nat × Bytes)) :
    readv f rv = Spec.readv (absData f) rv ∧
    checkTestv f tv = Spec.testv (absData f) tv ∧
    (writev f dv nl).2 = none ∧
    absData (writev f dv nl).1 = Spec.writev (absData f) dv nl := by
  obtain ⟨f', e, _, d, _⟩ := writev_ok f hwf dv nl hfit
  exact ⟨readv_eq f rv, checkTestv_eq f tv, by rw [e], by rw [e]; exact d⟩

example : Spec.writev [1, 2, 3] [(5, [])] none = [1, 2, 3, 0, 0] := by decide
example : Spec.writev [1, 2, 3] [(5, [9])] (some 4) = [1, 2, 3, 0] := by decide
example : Spec.writev [1, 2, 3] [(1, [9])] (some 7) = [1, 9, 3] := by decide
example : Spec.readv [1, 2, 3] [(1, 5), (7, 2)] = [[2, 3], []] := by decide

/-- `slot_readv` reads the byte arrays (clipped), for the selected shares -/
theorem slot_readv_refines (b : Bucket) (shares : List Nat) (rv : List (Nat × Nat)) :
    slotReadv b shares rv = Spec.slotReadv (absBucket b) shares rv := by
  simp only [slotReadv, Spec.slotReadv, absBucket, List.filter_map, List.map_map, Function.comp_def, readv_eq]

/-- **refines_bytearray** (server level; repaired AND unrepaired server — no hypothesis on the size pre-check):
    in every reachable state, a request that
    returns normally answers exactly as the byte-array specification does — the test verdict is the
    comparison against the current arrays (a missing share reads as empty), the read data are clipped
    reads of the arrays BEFORE the request, and afterwards the arrays are those of the specification:
    every write vector spliced in with zero fill, `new_length` applied, `new_length = 0` deleting the
    share; unchanged when a test failed.  Together with `reachable_wf` and `slot_readv_refines` this is
    the simulation of all request histories by the finite map of growable byte arrays. -/
theorem refines_bytearray (qs : List Req) (q : Req)
    (g : Bool) (reads : List (Nat × List Bytes))
    (hout : (q.run (runAll [] qs)).out = .ok (g, reads)) :
    g = Spec.evalTests (absBucket (runAll [] qs)) q.tw ∧
    reads = Spec.evalReads (absBucket (runAll [] qs)) q.rv ∧
    absBucket (q.run (runAll [] qs)).bucket =
      (if g then Spec.evalWrites (absBucket (runAll [] qs)) q.tw else absBucket (runAll [] qs)) := by
  have hb := reachable_wf qs
  generalize runAll [] qs = b at *
  unfold Req.run rtw at hout ⊢
  rw [← evalTests_eq, ← evalReads_eq]
  split at hout
  · simp at hout
  · rename_i hc
    by_cases hg : evalTests b q.tw
    · simp only [hg, Bool.not_true, Bool.false_eq_true, if_false] at hout ⊢
      by_cases hpc : (q.env.precheck && !sizesOk q.tw) = true
      · simp [hpc] at hout
      · simp only [hpc, Bool.false_eq_true, if_false] at hout ⊢
        -- the write phase did not raise (the request returned), so every applied vector was admissible
        have hfits : TwFits q.tw := by
          apply evalWrites_none_fits q.env.nodeid q.we q.tw b [] hb
          generalize evalWrites q.env.nodeid q.we b q.tw [] = r at hout
          obtain ⟨b1, rem, e⟩ := r
          cases e with
          | none => rfl
          | some e => simp at hout
        obtain ⟨b1, rem, e, w1, a1⟩ := evalWrites_ok q.env.nodeid q.we q.tw b [] hb hfits
        simp only [e] at hout ⊢
        by_cases hr : q.renewLeases
        · simp only [hr, Bool.not_true, Bool.false_eq_true, if_false] at hout ⊢
          have ha := (renewShares_abs q.env (makeLease q.env q.renew q.cancel) rem b1 w1).2
          generalize renewShares q.env (makeLease q.env q.renew q.cancel) b1 rem = r at *
          obtain ⟨b2, e2⟩ := r
          cases e2 with
          | some e2 => simp at hout
          | none =>
            simp only [Except.ok.injEq, Prod.mk.injEq] at hout
            obtain ⟨rfl, rfl⟩ := hout
            simp only [if_true]
            exact ⟨trivial, trivial, ha.trans a1⟩
        · simp only [hr, Bool.not_false, if_true, Except.ok.injEq, Prod.mk.injEq] at hout ⊢
          obtain ⟨rfl, rfl⟩ := hout
          simp only [if_true]
          exact ⟨trivial, trivial, a1⟩
    · simp only [hg, Bool.not_false, if_true, Except.ok.injEq, Prod.mk.injEq] at hout ⊢
      obtain ⟨rfl, rfl⟩ := hout
      simp

set_option maxRecDepth 20000 in
/-- non-vacuity on the UNREPAIRED server (`precheck := false`): a request that returns -/
example :
    let q : Req := { env := { h := id, nodeid := zeros 20, now := 0, avail := 0, precheck := false }, we := zeros 32,
                     renew := [], cancel := [], tw := [(0, { testv := [(0, 1, [])], datav := [(2, [7])], newLength := none })],
                     rv := [], renewLeases := false }
    (q.run (runAll [] [])).err = none ∧ absBucket (q.run (runAll [] [])).bucket = [(0, [0, 0, 7])] := by
  decide

/-! ### a test vector reads exactly `length` bytes (clipped at the end of the data) and compares for equality -/

/-- what the code does with `(offset, length, eq, specimen)`: `_read_share_data(offset, length)` returns `length` bytes
    when the data extend that far, and `testv_compare` is `==` on the byte strings.  So a vector whose `length`
    EXCEEDS the specimen's length, over data of at least that extent, FAILS even when the specimen is a prefix of the
    data — in particular the publisher's must-not-exist guard `(0, 1, eq, b"")` fails on every non-empty share and
    passes on a missing / empty one.  (Nothing is idealised: a read that is clipped to exactly the specimen's length
    can still pass, see the examples.) -/
theorem testv_length_exceeding_specimen_fails (f : File) (hwf : WF f) (o l : Nat) (spec : Bytes)
    (rest : List (Nat × Nat × Bytes)) (hext : o + l ≤ dataLength f) (hlen : spec.length < l) :
    checkTestv f ((o, l, spec) :: rest) = false ∧ Spec.testv (absData f) ((o, l, spec) :: rest) = false := by
  have hal := length_absData hwf
  have hrl : (Spec.read (absData f) o l).length = l := by
    unfold Spec.read; exact length_pread_of_le _ _ _ (by rw [hal]; exact hext)
  have hne : (Spec.read (absData f) o l == spec) = false := by
    rw [beq_eq_false_iff_ne]
    intro e; rw [e] at hrl; omega
  have key : Spec.testv (absData f) ((o, l, spec) :: rest) = false := by
    simp only [Spec.testv, List.all_cons, hne, Bool.false_and]
  exact ⟨by rw [checkTestv_eq]; exact key, key⟩

/-- the must-not-exist guard on concrete data; a specimen that is only a prefix; and reads clipped at the end of the
    data, which can still pass -/
example : Spec.testv [1, 2, 3] [(0, 1, [])] = false ∧ Spec.testv [] [(0, 1, [])] = true ∧
    Spec.testv [1, 2, 3] [(0, 3, [1, 2])] = false ∧ Spec.testv [1, 2, 3] [(1, 100, [2, 3])] = true ∧
    Spec.testv [1, 2, 3] [(0, 2, [1, 2, 3])] = false := by decide

/-! ### the write vectors of one share are applied in the order given -/

/-- `writev` applies its vectors as a left fold in list order: appending a vector splices it onto the result of all
    the earlier ones, so where vectors overlap the LATER one wins and an earlier far write has already extended the
    array when a later vector is applied.  (Via `writev_refines` / `refines_bytearray` this is what the container and
    the server do; re-ordering the vectors is observable, see the example.) -/
theorem write_vectors_in_order (a : Bytes) (dv : List (Nat × Bytes)) (o : Nat) (d : Bytes) :
    Spec.writeAll a (dv ++ [(o, d)]) = splice (Spec.writeAll a dv) o d ∧
    pread (Spec.writeAll a (dv ++ [(o, d)])) o d.length = d := by
  have h1 : Spec.writeAll a (dv ++ [(o, d)]) = splice (Spec.writeAll a dv) o d := by
    simp [Spec.writeAll, List.foldl_append]
  refine ⟨h1, ?_⟩
  rw [h1]
  apply List.ext_getElem?; intro i
  rw [getElem?_pread, getElem?_splice]
  by_cases hi : i < d.length
  · have a1 : ¬ (o + i < o) := by omega
    have a2 : o + i < o + d.length := by omega
    simp [hi, a1, a2]
  · simp [hi]

example : Spec.writeAll [] [(0, [1, 1, 1]), (1, [2])] = [1, 2, 1] ∧ Spec.writeAll [] [(1, [2]), (0, [1, 1, 1])] = [1, 1, 1] := by
  decide

/-! ### truncation never exposes stale bytes -/

/-- after truncating to `n`, any later write at `off ≥ n` that extends the share exposes only zeros
    in `[n, off)` — never the bytes that were there before the truncation (they are still in the file) -/
theorem truncate_then_extend_zero (f : File) (hwf : WF f) (n off : Nat) (d : Bytes)
    (hn : n ≤ dataLength f) (hoff : n ≤ off) (hfit : off + d.length ≤ MAX_SIZE) :
    let f1 := (writev f [] (some n)).1
    (writev f1 [(off, d)] none).2 = none ∧
    readShareData (writev f1 [(off, d)] none).1 n (off - n) = zeros (off - n) := by
  intro f1
  have h1 := writev_refines f hwf [] (some n) (fun _ h => by simp at h) [] []
  have wf1 : WF f1 := (writev_any f hwf [] (some n)).1
  have hfit' : FitsAll [(off, d)] := by
    intro p hp; simp only [List.mem_singleton] at hp; subst hp; exact hfit
  have h2 := writev_refines f1 wf1 [(off, d)] none hfit' [] []
  refine ⟨h2.2.2.1, ?_⟩
  rw [readShareData_eq, h2.2.2.2, h1.2.2.2]
  have hal := length_absData hwf
  simp only [Spec.writev, Spec.writeAll, Spec.newLength, List.foldl_nil, List.foldl_cons, hal, Spec.read]
  have hlen : (if n < dataLength f then (absData f).take n else absData f).length = n := by
    split <;> simp [hal] <;> omega
  generalize (if n < dataLength f then (absData f).take n else absData f) = a at *
  apply List.ext_getElem?; intro i
  rw [getElem?_pread, getElem?_splice, getElem?_zeros, hlen]
  by_cases hi : i < off - n
  · have a1 : n + i < off := by omega
    have a2 : ¬ (n + i < n) := by omega
    simp [hi, a1, a2]
  · simp [hi]

example : Spec.writev (Spec.writev [7, 7, 7, 7] [] (some 1)) [(3, [9])] none = [7, 0, 0, 9] := by decide
example : WF (create .v2 (zeros 20) (zeros 32)) ∧ 0 ≤ dataLength (create .v2 (zeros 20) (zeros 32)) :=
  ⟨create_wf _ _ _, Nat.zero_le _⟩

/-! ### data operations never alter the leases -/

/-- `writev` — any vectors, any `new_length`, container growth with relocation of the extra-lease
    block, even a call that raises `DataTooLargeError` half-way — leaves the lease list (all four
    header slots and any number of extra leases), the write enabler and the schema untouched -/
theorem leases_unchanged_by_data_ops (f : File) (hwf : WF f) (dv : List (Nat × Bytes)) (nl : Option Nat) :
    getLeases (writev f dv nl).1 = getLeases f ∧
    enumerateLeases (writev f dv nl).1 = enumerateLeases f ∧
    enabler (writev f dv nl).1 = enabler f ∧
    schemaOf (writev f dv nl).1 = schemaOf f := by
  have hm := (writev_any f hwf dv nl).2
  refine ⟨getLeases_congr hm, enumerateLeases_congr hm, ?_, ?_⟩
  · unfold enabler
    have := congrArg (fun x => pread x 52 32) hm.hdr
    simp only [pread_pread _ _ _ _ _ (show 52 + 32 ≤ 84 by omega)] at this
    simpa using this
  · unfold schemaOf
    have := congrArg (fun x => pread x 0 32) hm.hdr
    simp only [pread_pread _ _ _ _ _ (show 0 + 32 ≤ 84 by omega)] at this
    simp only [Nat.add_zero] at this
    rw [this]

end Tahoe.C23
