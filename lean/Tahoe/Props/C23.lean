import Tahoe.Storage.Slot
/-! C23 — mutable share containers behave like byte arrays (property theorems). -/
namespace Tahoe.C23
open Tahoe.Base.File Tahoe.Storage Tahoe.Storage.Mutable Tahoe.Generated.Storage

/-- the layout numbers written as literals in `Tahoe/Storage/Mutable.lean` are the values of the source -/
theorem layout_constants :
    mut_DATA_LENGTH_OFFSET = 84 ∧ mut_EXTRA_LEASE_OFFSET = 92 ∧ mut_HEADER_SIZE = 100 ∧ mut_LEASE_SIZE = 92 ∧
    mut_DATA_OFFSET = 468 ∧ mut_HEADER_FORMAT = ">32s20s32sQQ" ∧ lease_MUTABLE_FORMAT = ">LL32s32s20s" ∧
    lease_MUTABLE_SIZE = 92 ∧ mut_INITIAL_EXTRA_LEASE_OFFSET = 468 ∧ mut_INITIAL_FILE_SIZE = 472 ∧
    mut_NEWEST_SCHEMA_VERSION = 2 ∧ mut_MAGIC_V1.length = 32 ∧ mut_MAGIC_V2.length = 32 ∧
    mut_MAGIC_V1 ≠ mut_MAGIC_V2 := by decide

end Tahoe.C23
