import Tahoe.Immutable.LemmasRead
import Tahoe.Immutable.Examples
import Tahoe.Immutable.LemmasNodeQueue
import Tahoe.Immutable.LemmasReaders
import Tahoe.Immutable.LemmasSysRefine
import Tahoe.Immutable.LemmasRS256
/-! C04 — random-access and concurrent immutable reads (property theorems; helper lemmas live in
    `Tahoe/Immutable/Lemmas*.lean`).

## Coverage of the statement (properties.jsonl C04)

| clause of the statement | theorem(s) for the model |
|---|---|
| reading any byte range of an immutable file returns exactly that slice of the plaintext | `read_slice_rs256` (zfec's code, no assumption on the erasure code: C36 `rs256_mds`), `read_slice` (CHK, through the segment loop: guessed/known segment size, retry, trimming) + `ctr_offset`, `ctr_stream_chunks` (decryption positioned at the offset); `read_slice_literal` (LIT) |
| … clipped at end-of-file; ranges that start at or past the end return nothing; unspecified size | `read_slice` (`size = none`, any `offset`), `read_slice_literal` (explicit length formula) |
| several reads of different ranges issued concurrently on the same file object each receive their own correct slice | safety: `concurrent_reads_safe` — for every number of readers and every schedule of segment deliveries (any reader may be handed any segment of the file at any time), every reader's output is a prefix of its own slice, equal to it once nothing remains wanted, and is a function of its own deliveries only; over the composed node + reads system of C03/C46 (`Tahoe.Fetch.Sys`, any history): `reads_refine` — every byte a read's consumer receives is the byte at that read's own position, decrypting to its plaintext slice; that the node hands out only genuine segments, to exactly the requesters: `concurrent_reads_independent_partial` (queue) + C01 `upload_download` (segment contents).  **Completion** (every live reader eventually gets all its deliveries) is liveness: **monitor only** here, C03/C46 |
| cancelling or pausing one read does not disturb the others | `concurrent_reads_independent_partial` (1)(2): cancel removes only the canceller's request, pending requests always keep a fetch active; `concurrent_reads_safe` (independence: another reader's events do not change this reader's state; pause/resume change no reader's data state); `reads_refine` (4): pause / resume / turn / stop of any read deliver no byte to anybody, in the composed system where a stop really cancels the request at the node.  That `Tahoe.Fetch.Sys` matches the real plumbing between `process_blocks` and `_got_segment`: correspondence (C46 harness `sys` lines; (scripted pause/resume/stop from inside and outside `write()` in harness/props/c04.py) |
-/
namespace Tahoe.C04
open Tahoe.Immutable Tahoe.Immutable.Sizes Tahoe.Immutable.Pipeline

/-- `ctr_offset`: decrypting the ciphertext slice `[off, off+n)` with a `DecryptingConsumer` positioned
    from `off` (counter = `off // 16`, `off % 16` keystream bytes discarded) gives the plaintext slice —
    for every keystream function, key, plaintext, offset and length (pure keystream algebra). -/
theorem ctr_offset {Key : Type} (ks : Key → Nat → Block16) (key : Key) (pt : List UInt8) (off n : Nat) :
    decryptAt ks key off (((encrypt ks key pt).drop off).take n) = (pt.drop off).take n :=
  decrypt_slice ks key pt off n

example :
    decryptAt toyKs 5 17 (((encrypt toyKs 5 ((List.range 40).map UInt8.ofNat)).drop 17).take 20)
      = (((List.range 40).map UInt8.ofNat).drop 17).take 20 ∧
    encrypt toyKs 5 ((List.range 40).map UInt8.ofNat) ≠ (List.range 40).map UInt8.ofNat := by
  decide

/-- `ctr_stream_chunks`: the consumer's `write` calls share one decryptor, so decrypting chunk after
    chunk equals decrypting their concatenation; the second chunk continues at `off + |first|`. -/
theorem ctr_stream_chunks {Key : Type} (ks : Key → Nat → Block16) (key : Key) (off : Nat) (a b : List UInt8) :
    decryptAt ks key off (a ++ b) = decryptAt ks key off a ++ decryptAt ks key (off + a.length) b :=
  decryptAt_append ks key off a b

/-- `read_slice` (CHK files): for every non-empty plaintext, encoding, lawful codec, keystream, schedule
    `pick`, every `offset`, every `size` (`none` = to EOF), whether or not the node already knows the real
    segment size, and whatever segment size it guesses from `default_max_segment_size > 0`:
    `ImmutableFileNode.read(consumer, offset, size)` delivers exactly `litRead pt offset size`, i.e.
    `pt[offset:]` resp. `pt[offset:offset+size]` (`read_slice_literal` spells the slice out: clipped at EOF,
    empty for `offset ≥ len`), through the real loop — which
    segments are requested, one retry after a wrong guess, how first and last segment are trimmed. -/
theorem read_slice {Key : Type} (ks : Key → Nat → Block16) (c : Codec) (key : Key) (pt : List UInt8)
    (k n maxSeg : Nat) (hk : 1 ≤ k) (hmax : 0 < maxSeg) (hpt : 0 < pt.length) (hlaw : c.Lawful k n)
    (pick : Nat → List Nat) (hpick : ∀ s, ValidIds k n (pick s))
    (defaultMaxSeg : Nat) (_hdm : 0 < defaultMaxSeg) (known : Bool) (offset : Nat) (size : Option Nat) :
    ∃ u, upload ks c key pt k n maxSeg = .ok u ∧
      Pipeline.read ks c u pick defaultMaxSeg known offset size
        = .ok (litRead pt offset size) := by
  obtain ⟨e, m, hc, hm, _, _, hcalc, hct, hup⟩ := upload_ok ks c key pt k n maxSeg hk hmax hpt
  refine ⟨_, hup, ?_⟩
  have hseg := getSegment_uploaded ks c key pt k n e m hlaw hc hm hct pick hpick
    { size := pt.length, segmentSize := e.segmentSize, numSegments := e.numSegments,
      neededShares := k, totalShares := n, codecSize := e.segmentSize, tailCodecSize := e.paddedTailSize } rfl
  have hclip := take_getD_clip (pt.drop offset) size pt.length offset (by simp)
  rw [litRead_drop] at hclip
  have hcl : clipRead pt.length offset size ≤ pt.length - offset := by unfold clipRead; omega
  unfold Pipeline.read readCiphertext readEvents
  simp only [hcalc]
  by_cases hz : clipRead pt.length offset size = 0
  · simp only [hz, if_true, Except.map, chunksOf, List.filterMap_nil, List.flatten_nil]
    rw [← hclip, hz]
    simp [decryptAt_eq, xorBytes]
  · simp only [hz, if_false]
    have hle : offset + clipRead pt.length offset size ≤ (encrypt ks key pt).length := by
      rw [length_encrypt]; omega
    obtain ⟨evs, h1, h2⟩ := segLoop_correct (encrypt ks key pt) e.segmentSize m e.tailSize _ hc.seg_pos hc.tail_pos
      hc.tail_le_seg hct hseg (guessedSegSize pt.length k defaultMaxSeg)
      (clipRead pt.length offset size + 2) known offset (clipRead pt.length offset size) hle
      (by split <;> omega)
    simp only [h1, Except.map, h2]
    rw [decrypt_slice, hclip]

/-- `read_slice_rs256`: `read_slice` with zfec's code and no assumption on the erasure code (C36 `rs256_mds`) -/
theorem read_slice_rs256 {Key : Type} (ks : Key → Nat → Block16) (key : Key) (pt : List UInt8)
    (k n maxSeg : Nat) (hk : 1 ≤ k) (hkn : k ≤ n) (hn : n ≤ 256) (hmax : 0 < maxSeg) (hpt : 0 < pt.length)
    (pick : Nat → List Nat) (hpick : ∀ s, ValidIds k n (pick s))
    (defaultMaxSeg : Nat) (hdm : 0 < defaultMaxSeg) (known : Bool) (offset : Nat) (size : Option Nat) :
    ∃ u, upload ks rs256Codec key pt k n maxSeg = .ok u ∧
      Pipeline.read ks rs256Codec u pick defaultMaxSeg known offset size = .ok (litRead pt offset size) :=
  read_slice ks rs256Codec key pt k n maxSeg hk hmax hpt (rs256Codec_lawful k n hk hkn hn) pick hpick
    defaultMaxSeg hdm known offset size

/-- a concrete run: 1-of-3 replication, 3-byte segments, wrong guess (one retry), a read crossing a
    segment boundary -/
example :
    (upload toyKs repl 5 [10, 11, 12, 13, 14, 15, 16, 17] 1 3 3).toOption.map
        (fun u => (((readEvents repl u (fun s => [s % 3]) 5 false 4 (some 3)).toOption.map
                      (fun evs => evs.map (fun ev => (ev.1, ev.2.map List.length)))),
                   (Pipeline.read toyKs repl u (fun s => [s % 3]) 5 false 4 (some 3)).toOption))
      = some (some [(0, none), (1, some 2), (2, some 1)], some [14, 15, 16]) := by
  decide

/-- `read_slice` for literal files: `LiteralFileNode.read` is the same slice of the embedded data. -/
theorem read_slice_literal (data : List UInt8) (offset : Nat) (size : Option Nat) :
    litRead data offset size = (match size with | none => data.drop offset | some s => (data.drop offset).take s) ∧
    (data.length ≤ offset → litRead data offset size = []) ∧
    (litRead data offset size).length = min (size.getD data.length) (data.length - offset) := by
  refine ⟨by cases size <;> rfl, fun h => ?_, ?_⟩
  · cases size <;> simp [litRead, List.drop_of_length_le h]
  · cases size <;> simp [litRead] <;> omega

example : litRead [1, 2, 3, 4, 5] 2 (some 10) = [3, 4, 5] ∧ litRead [1, 2, 3, 4, 5] 7 none = [] := by decide

/-- `concurrent_reads_safe`: any number of readers of one file, each started for its own range
    `[off0, off0+sz0)`, under *every* schedule of deliveries — an arbitrary list of events "reader `i` is
    handed segment `s`", so any interleaving, any duplication, segments a reader never asked for (fetched
    on behalf of others), wrong guesses; pause/resume events change no `(offset, size, out)` and stopping a
    reader just ends its events.  Then for every reader `i`:
    (safety)       what it has written so far, followed by what it still wants, is exactly its slice — so
                   its output is always a prefix of its own slice, and is the whole slice once `size = 0`;
    (independence) its state equals the state it would have had alone with only its own deliveries:
                   no other reader's requests, deliveries, pauses or cancellation influence it. -/
theorem concurrent_reads_safe (ct : List UInt8) (seg : Nat) (ranges : List (Nat × Nat))
    (hr : ∀ r ∈ ranges, r.1 + r.2 ≤ ct.length) (events : List (Nat × Nat)) (i : Nat) (hi : i < ranges.length) :
    let start := ranges.map (fun r => ({ offset := r.1, size := r.2, out := [] } : ReaderState))
    ∃ st, (feedAll ct seg start events)[i]? = some st ∧
      st.out ++ (ct.drop st.offset).take st.size = (ct.drop ranges[i].1).take ranges[i].2 ∧
      (st.size = 0 → st.out = (ct.drop ranges[i].1).take ranges[i].2) ∧
      st = feed ct seg { offset := ranges[i].1, size := ranges[i].2, out := [] }
             ((events.filter (fun ev => ev.1 == i)).map (·.2)) := by
  intro start
  have hget : start[i]? = some { offset := ranges[i].1, size := ranges[i].2, out := [] } := by
    simp [start, hi]
  have hall := feedAll_getElem? ct seg events start i
  rw [hget] at hall
  simp only [Option.map_some] at hall
  refine ⟨_, hall, ?_⟩
  have hinv := feed_inv ct seg ranges[i].1 ranges[i].2 ((events.filter (fun ev => ev.1 == i)).map (·.2))
    { offset := ranges[i].1, size := ranges[i].2, out := [] }
    ⟨hr _ (List.getElem_mem hi), by simp⟩
  refine ⟨hinv.2, fun h0 => ?_, rfl⟩
  have := hinv.2
  rw [h0] at this
  simpa using this

/-- two readers of a 10-byte file with 4-byte segments: reader 0 wants [1,7), reader 1 wants [5,10); a
    schedule that interleaves them, duplicates a delivery and hands reader 1 a segment it cannot use yet -/
example :
    let ct : List UInt8 := [0, 1, 2, 3, 4, 5, 6, 7, 8, 9]
    feedAll ct 4 [⟨1, 6, []⟩, ⟨5, 5, []⟩] [(1, 2), (0, 0), (1, 1), (0, 0), (1, 2), (0, 1), (1, 0)]
      = [⟨7, 0, [1, 2, 3, 4, 5, 6]⟩, ⟨10, 0, [5, 6, 7, 8, 9]⟩] := by
  decide

/-- `reads_refine` — the refinement, safety half, over the C03/C46 composed system `Tahoe.Fetch.Sys` (imported:
    `DownloadNode` request queue + fetchers + any number of `Segmentation`s; `sysStep` routes every
    `get_segment` / cancel to the node and every retired request, through the queued `_deliver`, back to the read
    that still owns it).  For *every* history — any number of reads started at any time (fresh identity,
    range inside the file), any node events (shares arriving, failing, corrupt, too few: `fetch_failed`,
    decode errors), wrong segment-size guesses with their BadSegmentNumber/WrongSegment retries, any
    pause / resume / turn / stop of any read, deliveries in any order — an observer that reads every
    `consumer.write(start, len)` extent off the ciphertext `ct` sees, for every read `r` of the final state:
    (1) the bytes its consumer has received so far, followed by the range it still wants, are exactly
        `ct[off0 : off0+size0]` — every byte received is the byte at that read's own current position;
    (2) once nothing is wanted any more it has received its whole range;
    (3) decrypted with the counter positioned at `off0`, what it received is a prefix of the plaintext slice;
    and (4) pause / resume / turn / stop events of any read deliver no byte to anybody (so they cannot change
    what other reads receive; with (1) every other read still gets only its own bytes).
    Liveness (that the deliveries eventually happen) is C03/C46. -/
theorem reads_refine {Key : Type} (ks : Key → Nat → Block16) (key : Key) (pt : List UInt8)
    (y0 : Tahoe.Fetch.Sys) (hreads : y0.reads = []) (hfs : y0.filesize = pt.length)
    (es : List Tahoe.Fetch.SysEv) (hok : SysRefine.HistOk (encrypt ks key pt) y0 es) :
    (∀ r ∈ (SysRefine.observeRun (encrypt ks key pt) y0 es (fun _ => [])).1.reads,
      let W := (SysRefine.observeRun (encrypt ks key pt) y0 es (fun _ => [])).2 r.rid
      W ++ ((encrypt ks key pt).drop r.seg.offset).take r.seg.size = ((encrypt ks key pt).drop r.off0).take r.size0 ∧
      (r.seg.size = 0 → W = ((encrypt ks key pt).drop r.off0).take r.size0) ∧
      decryptAt ks key r.off0 W = ((pt.drop r.off0).take r.size0).take W.length) ∧
    (∀ (y : Tahoe.Fetch.Sys) (W : SysRefine.Received) (rid : Nat),
      SysRefine.observe (encrypt ks key pt) y (.stop rid) W = W ∧ SysRefine.observe (encrypt ks key pt) y (.pause rid) W = W ∧
      SysRefine.observe (encrypt ks key pt) y (.resume rid) W = W ∧ SysRefine.observe (encrypt ks key pt) y (.turn rid) W = W) := by
  refine ⟨fun r hr => ?_, fun y W rid => SysRefine.observe_quiet _ y W rid⟩
  have hinv := SysRefine.inv_run (encrypt ks key pt) y0.segsize es y0 (fun _ => [])
    (SysRefine.inv_init _ y0 hreads (by rw [hfs, length_encrypt])) hok
  obtain ⟨_, hdata⟩ := hinv.good r hr
  refine ⟨hdata, fun h0 => ?_, ?_⟩
  · rw [h0] at hdata; simpa using hdata
  · have hpre := SysRefine.prefix_of_append hdata
    rw [List.take_take] at hpre
    generalize (SysRefine.observeRun (encrypt ks key pt) y0 es (fun _ => [])).2 r.rid = W at hpre
    generalize W.length = L at hpre
    rw [hpre, decrypt_slice, List.take_take]

/-- a concrete history of the composed system: both reads are started, read 1 is paused from outside, the node
    fetches segment 0 and hands it to both; read 0 receives bytes 1..3, read 1 (wrong guess) rejects it and,
    resumed, asks for the right segment -/
example : SysRefine.HistOk SysRefine.exCt SysRefine.exSys SysRefine.exHist ∧
    (let fin := SysRefine.observeRun SysRefine.exCt SysRefine.exSys SysRefine.exHist (fun _ => [])
     fin.1.reads.map (fun r => (r.rid, r.seg.offset, r.seg.size, r.req, fin.2 r.rid)))
      = [(0, 4, 3, some 2, [1, 2, 3]), (1, 5, 5, some 3, [])] := by
  decide

/- Full statement (NOT proved; exercised by harness/props/c04.py with up to four scripted readers and
   seeded delivery orders):
     concurrent_reads_independent : for every number m of readers sharing one DownloadNode, every
     interleaving of their get_segment calls, of the node's segment deliveries (each travelling through
     foolscap's eventual-send queue, so a reader may be stopped between `_extract_requests` and
     `_deliver`), and of pause / resume / stop events on any reader, every reader that is not stopped
     finishes with exactly its own slice, and a stopped reader has received a prefix of its slice.
   Proved: the safety and independence half — `concurrent_reads_safe` (over the over-approximate scheduler
   "any reader may be handed any genuine segment at any time") and `reads_refine` (every history of the
   composed node + reads system of C03/C46 delivers to each read only the bytes at its own position; the
   callbacks each `Seg` receives are consumer callbacks, failures or *genuine* segments: `ev_is_rev`,
   `runReader_refines`), and the queue facts below.  Still missing for the full statement: liveness — every
   live reader is eventually handed the segments it asks for (fairness of the eventual-send queue and of the
   servers: C03/C46 `no_stuck_state`, `read_never_idle`).  The composed system `Tahoe.Fetch.Sys` itself is tied
   to the code by the C46 harness, the byte-level reader by harness/props/c04.py (`run_feed`). -/

/-- `concurrent_reads_independent_partial`:
    (1) over every history of `get_segment` / delivery / cancel operations by any number of readers the
        shared queue keeps the invariant "requests pending ⇒ a fetch is active, and the active fetch is
        for a segment somebody still wants" — so cancelling or finishing one read never strands the others;
    (2) `_cancel_request` removes exactly the requests carrying the cancelled handle and keeps all
        others in order; a completed fetch is handed to exactly the requests for that segment and all
        others stay queued in order; `get_segment` appends;
    (3) whatever segment a reader is handed — requested by itself or fetched because of another reader —
        `_got_segment` either rejects it (nothing written) or writes exactly the next bytes of that
        reader's own remaining range: its output depends on no other reader's state. -/
theorem concurrent_reads_independent_partial :
    (∀ ops : List NodeQueue.Op, NodeQueue.Inv (NodeQueue.run NodeQueue.empty ops)) ∧
    (∀ (nd : NodeQueue.Node) (h : Nat),
        (NodeQueue.cancel nd h).requests = nd.requests.filter (fun r => r.handle != h)) ∧
    (∀ (nd : NodeQueue.Node) (s : Nat), nd.active = some s →
        (NodeQueue.deliver nd).1 = (nd.requests.filter (fun r => r.segnum == s)).map (·.handle) ∧
        (NodeQueue.deliver nd).2.requests = nd.requests.filter (fun r => r.segnum != s)) ∧
    (∀ (nd : NodeQueue.Node) (s h : Nat),
        (NodeQueue.getSegment nd s h).requests = nd.requests ++ [{ segnum := s, handle := h }]) ∧
    (∀ (ct : List UInt8) (S seg off sz : Nat) (d : List UInt8), 0 < sz → off + sz ≤ ct.length →
        gotSegment S ((ct.drop S).take seg) off sz = some d →
        0 < d.length ∧ d.length ≤ sz ∧
        d ++ (ct.drop (off + d.length)).take (sz - d.length) = (ct.drop off).take sz) := by
  refine ⟨fun ops => NodeQueue.inv_run _ NodeQueue.inv_empty ops, NodeQueue.cancel_requests,
    NodeQueue.deliver_requests, NodeQueue.getSegment_requests, ?_⟩
  intro ct S seg off sz d hsz hend hg
  obtain ⟨hd, hpos, hle⟩ := gotSegment_sound ct S seg off sz d hsz hend hg
  refine ⟨hpos, hle, ?_⟩
  conv => lhs; arg 1; rw [hd]
  rw [← List.drop_drop]
  have : sz = d.length + (sz - d.length) := by omega
  conv => rhs; rw [this, List.take_add]

/-- two readers (handles 1 and 2) want segment 3, a third (handle 7) wants segment 5; reader 1 cancels:
    reader 2 still gets segment 3, then segment 5 is fetched for reader 7 -/
example :
    let nd := NodeQueue.run NodeQueue.empty [.get 3 1, .get 5 7, .get 3 2, .cancel 1]
    nd.active = some 3 ∧ (NodeQueue.deliver nd).1 = [2] ∧ (NodeQueue.deliver nd).2.active = some 5 ∧
    (NodeQueue.run NodeQueue.empty [.get 3 1, .get 5 7, .cancel 1]).active = some 5 := by
  decide

end Tahoe.C04
