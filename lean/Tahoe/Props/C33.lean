import Tahoe.GridManager.Lemmas
import Tahoe.StorageClient.Upload
import Tahoe.StorageClient.Lemmas
/-!
C33 — Grid-manager certificates grant permission only when valid.

Statements are about `Tahoe.GridManager.verifier`, the model of
`grid_manager.create_grid_manager_verifier`, and about `Tahoe.StorageClient.verdict` / `serversAtA`,
the broker's use of it (`_make_storage_server` → `upload_permitted()` → `get_servers_for_psi`);
10 theorems, tied to the code by `harness/props/c33.py` (driver ops `gmv` and `offer`).
Ed25519 enters as the parameter `verify` and, where needed, the explicit hypothesis
`Unforgeable pub sign verify` (instance: `symVerify_unforgeable`).  No defect of /repo is open for
this property.
-/
/-!
## Coverage of the statement

| clause of C33 | proved for the model by |
|---|---|
| a server is permitted exactly when at least one of its certificates is signed by a configured key, names that server's public key, and has not expired at the current time | `permitted_iff` (iff, for every time; under `SignedWellFormed`), `expired_at_instant_not_permitted` (strict at the instant of expiry), `upload_verdict_iff` (the same for `upload_permitted()` of an announced server as the broker uses it: a function of certificates, keys and the current time, no call history) |
| (consequences used by the use-sites) permission only expires with time; more certificates never revoke | `permission_only_expires`, `more_certificates_never_revoke` |
| with no configured keys every server is permitted | `no_keys_all_permitted`, `upload_verdict_no_keys` |
| tampered, expired, wrong-key or other-server certificates never grant permission | `granted_only_if` (no assumption at all on what was signed), `tampered_or_foreign_never_grants` (under `Unforgeable`; the expiry compared is that of the *same* certificate that names the server — seed C33-a; the signature must be on exactly the presented bytes — seed C33-b) |
| (broker path) an announcement entry that cannot be decoded into a certificate grants nothing and never switches the key check off | `undecodable_entry_never_grants` (seed C33-d); the code refuses the whole announcement (`accept`), compared through the `offer` lines |
| quantifier: random key / certificate sets evaluated at random times including the moment of expiry | all theorems are for arbitrary lists and integer times |

Assumed, not proved: Ed25519 (`Unforgeable`, explicit hypothesis with the instance
`symVerify_unforgeable`); JSON / ISO-8601 parsing (the parameter `parse`, computed by the harness with
the library calls the code uses).  Outside the statement but modelled and compared: a correctly
signed malformed certificate makes the code raise (`Err`), never answer `True` (`granted_only_if`).
-/
namespace Tahoe.C33
open Tahoe.GridManager

variable {PK Sig Msg Id : Type}

/-- Assumption on the grid manager (the trust root), not on servers: whatever it signed with a
    configured key is a well-formed certificate (object with a timezone-aware ISO-8601 `expires`
    and an ASCII `public_key`), which is what `_GridManager.sign` emits. -/
def SignedWellFormed (verify : PK → Sig → Msg → Bool) (parse : Msg → Parsed Id)
    (keys : List PK) (certs : List (SignedCert Sig Msg)) : Prop :=
  ∀ c ∈ certs, ∀ k ∈ keys, verify k c.signature c.certificate = true → WellFormed (parse c.certificate)

/-- The documented predicate, exactly: with at least one configured key, the verifier is created
    without error and at every (timezone-aware) time `now` it answers `True`/`False`, `True`
    precisely when some certificate verifies under a configured key, names this server, and
    expires *strictly* after `now` (at the instant of expiry the certificate has expired:
    the code tests `expires > now`). -/
theorem permitted_iff [DecidableEq Id] (verify : PK → Sig → Msg → Bool) (parse : Msg → Parsed Id)
    (keys : List PK) (certs : List (SignedCert Sig Msg)) (server : Id)
    (hk : keys ≠ []) (hwf : SignedWellFormed verify parse keys certs) :
    ∃ f, verifier verify parse keys certs server = .ok f ∧ ∀ now : Int,
      (f (.aware now) = .ok true ∨ f (.aware now) = .ok false) ∧
      (f (.aware now) = .ok true ↔
        ∃ c ∈ certs, ∃ k ∈ keys, verify k c.signature c.certificate = true ∧
          ∃ e, parse c.certificate = .dict (.time (.aware e)) (.ascii server) ∧ now < e) := by
  have hne : keys.isEmpty = false := by cases keys <;> simp_all
  obtain ⟨r, hr⟩ := scanCerts_ok (verify := verify) (parse := parse) keys certs ⟨[], []⟩
    (fun c hc k hk' hv => by
      obtain ⟨e, id, h⟩ := hwf c hc k hk' hv
      rw [h]; simp)
  refine ⟨fun now => check server now r.valid, ?_, ?_⟩
  · simp [verifier, hne, hr]
  · intro now
    have hmem := scanCerts_mem keys certs ⟨[], []⟩ r hr
    have hall : ∀ p ∈ r.valid, WellFormed p := by
      intro p hp
      rcases (hmem p).mp hp with h | ⟨c, hc, k, hk', hv, hpp, _⟩
      · simp at h
      · rw [← hpp]; exact hwf c hc k hk' hv
    obtain ⟨h1, h2⟩ := check_wellformed server now r.valid hall
    refine ⟨h1, h2.trans ?_⟩
    constructor
    · rintro ⟨e, he, hlt⟩
      rcases (hmem _).mp he with h | ⟨c, hc, k, hk', hv, hpp, _⟩
      · simp at h
      · exact ⟨c, hc, k, hk', hv, e, hpp, hlt⟩
    · rintro ⟨c, hc, k, hk', hv, e, hpp, hlt⟩
      refine ⟨e, (hmem _).mpr (Or.inr ⟨c, hc, k, hk', hv, hpp, ?_, ?_⟩), hlt⟩ <;> simp

/-- symbolic instance: key 1 configured; cert 0 (signed by 1, for server 7, expires 100) and an
    unsigned one; server 7 is permitted at 99 and no longer at 100 (the instant of expiry). -/
example :
    let parse : Nat → Parsed Nat := fun m =>
      if m = 0 then .dict (.time (.aware 100)) (.ascii 7) else .dict (.time (.aware 500)) (.ascii 7)
    let certs : List (SignedCert SymSig Nat) := [⟨1, .junk 3⟩, ⟨0, .signed 1 0⟩]
    SignedWellFormed symVerify parse [1] certs ∧
    ∃ f, verifier symVerify parse [1] certs 7 = .ok f ∧
      f (.aware 99) = .ok true ∧ f (.aware 100) = .ok false := by
  refine ⟨?_, _, rfl, rfl, rfl⟩
  intro c hc k hk hv
  simp at hc hk
  subst hk
  rcases hc with rfl | rfl
  · simp [symVerify] at hv
  · exact ⟨100, 7, by simp⟩

/-- Strictness spelled out: if every certificate that verifies and names the server has
    `expires ≤ now` (in particular `expires = now`), the server is not permitted. -/
theorem expired_at_instant_not_permitted [DecidableEq Id] (verify : PK → Sig → Msg → Bool)
    (parse : Msg → Parsed Id) (keys : List PK) (certs : List (SignedCert Sig Msg)) (server : Id)
    (hk : keys ≠ []) (hwf : SignedWellFormed verify parse keys certs) (now : Int)
    (hexp : ∀ c ∈ certs, ∀ k ∈ keys, verify k c.signature c.certificate = true →
      ∀ e, parse c.certificate = .dict (.time (.aware e)) (.ascii server) → e ≤ now) :
    ∃ f, verifier verify parse keys certs server = .ok f ∧ f (.aware now) = .ok false := by
  obtain ⟨f, hf, hall⟩ := permitted_iff verify parse keys certs server hk hwf
  refine ⟨f, hf, ?_⟩
  obtain ⟨h1, h2⟩ := hall now
  rcases h1 with h | h
  · obtain ⟨c, hc, k, hk', hv, e, hp, hlt⟩ := h2.mp h
    have := hexp c hc k hk' hv e hp
    omega
  · exact h

example : ∃ f, verifier symVerify (fun _ => Parsed.dict (.time (.aware 100)) (.ascii 7)) [1]
    [(⟨0, .signed 1 0⟩ : SignedCert SymSig Nat)] 7 = .ok f ∧ f (.aware 100) = .ok false :=
  ⟨_, rfl, rfl⟩

/-- Permission only ever *expires*: for a fixed certificate set, if the server is permitted at a
    later time it was permitted at every earlier time — equivalently, once the answer is `False`
    it stays `False` until a new announcement brings new certificates.  (So remembering a `True`
    answer is unsound — seeds C32-a, C33-c — while a `False` one can only be refreshed by new
    certificates.) -/
theorem permission_only_expires [DecidableEq Id] (verify : PK → Sig → Msg → Bool) (parse : Msg → Parsed Id)
    (keys : List PK) (certs : List (SignedCert Sig Msg)) (server : Id)
    (hk : keys ≠ []) (hwf : SignedWellFormed verify parse keys certs) (now later : Int) (h : now ≤ later) :
    ∃ f, verifier verify parse keys certs server = .ok f ∧
      (f (.aware later) = .ok true → f (.aware now) = .ok true) ∧
      (f (.aware now) = .ok false → f (.aware later) = .ok false) := by
  obtain ⟨f, hf, hall⟩ := permitted_iff verify parse keys certs server hk hwf
  have mono : f (.aware later) = .ok true → f (.aware now) = .ok true := by
    intro hl
    obtain ⟨c, hc, k, hk', hv, e, hp, hlt⟩ := (hall later).2.mp hl
    exact (hall now).2.mpr ⟨c, hc, k, hk', hv, e, hp, by omega⟩
  refine ⟨f, hf, mono, ?_⟩
  intro hn
  rcases (hall later).1 with h1 | h1
  · rw [mono h1] at hn; cases hn
  · exact h1

/-- Listing more certificates never revokes: if every certificate of `certs` is also in `certs'`,
    a server permitted with `certs` is permitted with `certs'` (order, repetitions and additional
    invalid certificates do not matter). -/
theorem more_certificates_never_revoke [DecidableEq Id] (verify : PK → Sig → Msg → Bool) (parse : Msg → Parsed Id)
    (keys : List PK) (certs certs' : List (SignedCert Sig Msg)) (server : Id) (hk : keys ≠ [])
    (hwf : SignedWellFormed verify parse keys certs) (hwf' : SignedWellFormed verify parse keys certs')
    (hsub : ∀ c ∈ certs, c ∈ certs') (now : Int) :
    ∃ f f', verifier verify parse keys certs server = .ok f ∧ verifier verify parse keys certs' server = .ok f' ∧
      (f (.aware now) = .ok true → f' (.aware now) = .ok true) := by
  obtain ⟨f, hf, hall⟩ := permitted_iff verify parse keys certs server hk hwf
  obtain ⟨f', hf', hall'⟩ := permitted_iff verify parse keys certs' server hk hwf'
  refine ⟨f, f', hf, hf', fun h => ?_⟩
  obtain ⟨c, hc, rest⟩ := (hall now).2.mp h
  exact (hall' now).2.mpr ⟨c, hsub c hc, rest⟩

example : ∃ f, verifier symVerify (fun _ => Parsed.dict (.time (.aware 100)) (.ascii 7)) [1]
    [(⟨0, .signed 1 0⟩ : SignedCert SymSig Nat)] 7 = .ok f ∧
    f (.aware 99) = .ok true ∧ f (.aware 100) = .ok false ∧ f (.aware 5000) = .ok false :=
  ⟨_, rfl, rfl, rfl, rfl⟩

/-- Soundness with no assumption on what was signed: whenever the verifier answers `True`
    (keys configured), some certificate verifies under a configured key, names this server and
    its expiry compares strictly later than `now`. -/
theorem granted_only_if [DecidableEq Id] (verify : PK → Sig → Msg → Bool) (parse : Msg → Parsed Id)
    (keys : List PK) (certs : List (SignedCert Sig Msg)) (server : Id) (hk : keys ≠ [])
    (f : Time → Except Err Bool) (hf : verifier verify parse keys certs server = .ok f)
    (now : Time) (hg : f now = .ok true) :
    ∃ c ∈ certs, ∃ k ∈ keys, verify k c.signature c.certificate = true ∧
      ∃ t, parse c.certificate = .dict (.time t) (.ascii server) ∧ expiresAfter t now = .ok true := by
  have hne : keys.isEmpty = false := by cases keys <;> simp_all
  unfold verifier at hf
  rw [hne] at hf
  simp only [Bool.false_eq_true, if_false] at hf
  split at hf
  · simp at hf
  · rename_i r hr
    simp only [Except.ok.injEq] at hf
    subst hf
    obtain ⟨t, ht, he⟩ := check_true server now r.valid hg
    rcases (scanCerts_mem keys certs ⟨[], []⟩ r hr _).mp ht with h | ⟨c, hc, k, hk', hv, hpp, _⟩
    · simp at h
    · exact ⟨c, hc, k, hk', hv, t, hpp, he⟩

example : ∃ f, verifier symVerify (fun _ => Parsed.dict (.time (.aware 100)) (.ascii 7)) [1]
    [(⟨0, .signed 1 0⟩ : SignedCert SymSig Nat)] 7 = .ok f ∧ f (.aware 5) = .ok true :=
  ⟨_, rfl, rfl⟩

/-- Tampered, wrong-key, other-server and expired certificates never grant permission.
    Under the unforgeability hypothesis, if every certificate is
    (a) not a signature by a configured key's secret on exactly these bytes (certificate bytes or
        signature altered, or signed by some other key), or
    (b) not naming this server, or
    (c) expired at `now` (`expires ≤ now`),
    then the answer at `now` is not `True`. -/
theorem tampered_or_foreign_never_grants [DecidableEq Id] {SK : Type}
    (pub : SK → PK) (sign : SK → Msg → Sig) (verify : PK → Sig → Msg → Bool)
    (hunf : Unforgeable pub sign verify) (parse : Msg → Parsed Id)
    (keys : List PK) (certs : List (SignedCert Sig Msg)) (server : Id) (hk : keys ≠ []) (now : Int)
    (hbad : ∀ c ∈ certs,
      (∀ sk, pub sk ∈ keys → c.signature ≠ sign sk c.certificate) ∨
      (∀ t, parse c.certificate ≠ .dict (.time t) (.ascii server)) ∨
      (∃ e pk, parse c.certificate = .dict (.time (.aware e)) pk ∧ e ≤ now))
    (f : Time → Except Err Bool) (hf : verifier verify parse keys certs server = .ok f) :
    f (.aware now) ≠ .ok true := by
  intro hg
  obtain ⟨c, hc, k, hk', hv, t, hp, he⟩ :=
    granted_only_if verify parse keys certs server hk f hf (.aware now) hg
  rcases hbad c hc with h | h | ⟨e, pk, h, hle⟩
  · obtain ⟨sk, hsk, hs⟩ := hunf.sound k _ _ hv
    exact h sk (hsk ▸ hk') hs
  · exact h t hp
  · rw [hp] at h
    cases h
    simp [expiresAfter] at he
    omega

/-- symbolic instance: one configured key (1); a certificate signed by key 2, one whose bytes were
    changed after signing (signature is for message 5, bytes are message 6), one with a junk
    signature, one valid but for server 8, one valid but expired at 100 — never granted at 100. -/
example :
    let parse : Nat → Parsed Nat := fun m =>
      if m = 3 then .dict (.time (.aware 900)) (.ascii 8)
      else if m = 4 then .dict (.time (.aware 100)) (.ascii 7)
      else .dict (.time (.aware 900)) (.ascii 7)
    let certs : List (SignedCert SymSig Nat) :=
      [⟨0, .signed 2 0⟩, ⟨6, .signed 1 5⟩, ⟨1, .junk 0⟩, ⟨3, .signed 1 3⟩, ⟨4, .signed 1 4⟩]
    (∀ c ∈ certs,
      (∀ sk, id sk ∈ [1] → c.signature ≠ SymSig.signed sk c.certificate) ∨
      (∀ t, parse c.certificate ≠ .dict (.time t) (.ascii 7)) ∨
      (∃ e pk, parse c.certificate = .dict (.time (.aware e)) pk ∧ e ≤ 100)) ∧
    ∃ f, verifier symVerify parse [1] certs 7 = .ok f ∧ f (.aware 100) = .ok false := by
  refine ⟨?_, _, rfl, rfl⟩
  intro c hc
  simp at hc
  rcases hc with rfl | rfl | rfl | rfl | rfl
  · left; intro sk h; simp at h; subst h; simp
  · left; intro sk h; simp at h; subst h; simp
  · left; intro sk h; simp
  · right; left; intro t; simp
  · right; right; exact ⟨100, .ascii 7, by simp, by omega⟩

/-- the cryptographic hypothesis is satisfiable: the symbolic scheme discharges it -/
example := tampered_or_foreign_never_grants (Id := Nat) id SymSig.signed symVerify symVerify_unforgeable

/-- With no configured grid-manager keys every server is permitted, whatever the certificates
    (they are not even looked at) and whatever the time. -/
theorem no_keys_all_permitted [DecidableEq Id] (verify : PK → Sig → Msg → Bool)
    (parse : Msg → Parsed Id) (certs : List (SignedCert Sig Msg)) (server : Id) :
    ∃ f, verifier verify parse [] certs server = .ok f ∧ ∀ now, f now = .ok true :=
  ⟨fun _ => .ok true, by simp [verifier], fun _ => rfl⟩

example : ∃ f, verifier symVerify (fun _ => (Parsed.invalid : Parsed Nat)) []
    [(⟨0, .signed 1 0⟩ : SignedCert SymSig Nat)] 7 = .ok f ∧ f (.naive 0) = .ok true :=
  ⟨_, rfl, rfl⟩

section
open Tahoe.StorageClient

/-- The broker's view: `NativeStorageServer.upload_permitted()` asked at `now` — the verifier built
    from the server's announcement, asked on every call — is the documented predicate *at `now`*, a
    pure function of (certificates, keys, `now`): no call history enters (seeds C32-a / C33-c
    remembered the first answer). -/
theorem upload_verdict_iff {PK Sig Msg : Type} (verify : PK → Sig → Msg → Bool) (parse : Msg → Parsed Nat)
    (keys : List PK) (hk : keys ≠ []) (a : Announced Sig Msg)
    (hwf : SignedWellFormed verify parse keys a.certs) (now : Int) :
    verdict verify parse keys (.aware now) a = true ↔
      ∃ c ∈ a.certs, ∃ k ∈ keys, verify k c.signature c.certificate = true ∧
        ∃ e, parse c.certificate = .dict (.time (.aware e)) (.ascii a.id) ∧ now < e := by
  obtain ⟨f, hf, hall⟩ := permitted_iff verify parse keys a.certs a.id hk hwf
  obtain ⟨h1, h2⟩ := hall now
  rw [← h2]
  unfold verdict
  rw [hf]
  rcases h1 with h | h <;> simp [h]

/-- An undecodable certificate entry grants nothing: every server offered for upload at `now`
    (keys configured) comes from an announcement all of whose entries decoded, and one of those
    decoded certificates verifies under a configured key, names that server and expires after
    `now`.  In particular an announcement with an undecodable entry yields no upload candidate at
    all, and the configured keys are always consulted. -/
theorem undecodable_entry_never_grants {PK Sig Msg : Type} (verify : PK → Sig → Msg → Bool)
    (parse : Msg → Parsed Nat) (keys : List PK) (hk : keys ≠ []) (preferred : List Nat) (now : Time)
    (l : List (Announcement Sig Msg)) (s : Server)
    (hs : s ∈ serversAtA verify parse keys preferred true now l) :
    ∃ a ∈ l, a.id = s.id ∧ (∀ e ∈ a.entries, e ≠ none) ∧
      ∃ c, some c ∈ a.entries ∧ ∃ k ∈ keys, verify k c.signature c.certificate = true ∧
        ∃ t, parse c.certificate = .dict (.time t) (.ascii a.id) ∧ expiresAfter t now = .ok true := by
  unfold serversAtA serversAt at hs
  have hmem := (perm_getServersForPsi preferred true _).subset hs
  simp only [Bool.not_true, Bool.false_or, List.mem_filter, Bool.and_eq_true] at hmem
  obtain ⟨hin, _, hperm⟩ := hmem
  obtain ⟨a', ha', rfl⟩ := List.mem_map.mp hin
  obtain ⟨a, ha, hacc⟩ := List.mem_filterMap.mp ha'
  unfold accept at hacc
  split at hacc
  · rename_i hall
    simp only [Option.some.injEq] at hacc
    subst hacc
    refine ⟨a, ha, rfl, ?_, ?_⟩
    · intro e he hnone
      have := List.all_eq_true.mp hall e he
      simp [hnone] at this
    · simp only [toServer, verdict] at hperm
      cases hv : verifier verify parse keys (a.entries.filterMap id) a.id with
      | error e => simp [hv] at hperm
      | ok f =>
        cases hf : f now with
        | error e => simp [hv, hf] at hperm
        | ok b =>
          cases b with
          | false => simp [hv, hf] at hperm
          | true =>
            obtain ⟨c, hc, k, hk', hvk, t, hp, he⟩ := granted_only_if verify parse keys _ a.id hk f hv now hf
            refine ⟨c, ?_, k, hk', hvk, t, hp, he⟩
            obtain ⟨e, he', hid⟩ := List.mem_filterMap.mp hc
            simp only [id] at hid
            rw [← hid]; exact he'
  · cases hacc

/-- key 1 configured; server 7's announcement has an undecodable entry next to a certificate that
    would be valid, server 8's has an undecodable entry only, server 9's is clean: only 9 is offered;
    with the entries of 7 all decodable it is offered too -/
example :
    let parse : Nat → Parsed Nat := fun m => .dict (.time (.aware 500)) (.ascii m)
    let c : Nat → Option (SignedCert SymSig Nat) := fun m => some ⟨m, .signed 1 m⟩
    (serversAtA symVerify parse [1] [] true (.aware 100)
      [⟨7, true, [none, c 7], 1⟩, ⟨8, true, [none], 2⟩, ⟨9, true, [c 9], 3⟩]).map (·.id) = [9] ∧
    (serversAtA symVerify parse [1] [] true (.aware 100)
      [⟨7, true, [c 7], 1⟩, ⟨9, true, [c 9], 3⟩]).map (·.id) = [7, 9] := by decide

/-- with no configured keys the verdict is `true` whatever was announced -/
theorem upload_verdict_no_keys {PK Sig Msg : Type} (verify : PK → Sig → Msg → Bool) (parse : Msg → Parsed Nat)
    (a : Announced Sig Msg) (now : Time) : verdict verify parse ([] : List PK) now a = true := by
  simp [verdict, verifier]

/-- the same announced server asked at 99, 100 (the expiry instant) and again at 99: the answer
    follows the clock, not the order of the questions -/
example :
    let a : Announced SymSig Nat := ⟨7, true, [⟨0, .signed 1 0⟩], 0⟩
    let parse : Nat → Parsed Nat := fun _ => .dict (.time (.aware 100)) (.ascii 7)
    [99, 100, 99].map (fun t => verdict symVerify parse [1] (.aware t) a) = [true, false, true] := by decide

end

end Tahoe.C33
