import Tahoe.Storage.Immutable
/-! C22 — immutable share storage semantics (property theorems). -/
namespace Tahoe.C22
open Tahoe.Base.File Tahoe.Storage.Imm Tahoe.Generated.Storage

/-- the literals used by the model are the values the live source defines -/
theorem layout_constants :
    imm_LEASE_SIZE = 72 ∧ imm_DATA_OFFSET = 12 ∧ imm_HEADER_SIZE = 12 ∧ imm_NEWEST_SCHEMA_VERSION = 2 ∧
    imm_SCHEMA_VERSIONS = [1, 2] ∧ lease_IMMUTABLE_SIZE = 72 ∧
    header 10 = imm_HEADER_SAMPLE_10 ∧ header (2 ^ 32 + 5) = imm_HEADER_SAMPLE_BIG := by
  decide

end Tahoe.C22
