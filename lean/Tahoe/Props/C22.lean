import Tahoe.Storage.ImmConnLemmas
import Tahoe.Storage.ImmDirLemmas
import Tahoe.Storage.ImmRangeLemmas
import Tahoe.Storage.ImmTimeLemmas
/-!
C22 — immutable share storage semantics (property theorems only; helper lemmas live in
`Tahoe/Storage/ImmLemmas.lean`, `ImmServerLemmas.lean`, `ImmConnLemmas.lean`, `ImmDirLemmas.lean`,
`ImmRangeLemmas.lean`, `ImmTimeLemmas.lean`).

Model: `Tahoe/Storage/Immutable.lean` (ShareFile / BucketWriter / BucketReader / allocate_buckets /
get_buckets; Foolscap front end `allocateConn` / `disconnectOp`; HTTP PATCH rule `httpWriteOp`; restart
`restartOp`; histories `Op` (direct calls) and `FOp` (front end)), `Tahoe/Storage/ImmDirs.lean` (the
incoming/final directory tree); specification and abstraction function: `Tahoe/Storage/ImmSpec.lean`.
`WF` (containers, one writer per incoming file) and `WFH` (distinct, never reused handles) are the
reachable-state invariants; `invariant_holds` / `reachable_invariants` show every history from an empty
server satisfies them, so the hypotheses `WF s` below are never vacuous restrictions.
-/
/-!
## Coverage of the statement (properties.jsonl C22)

| clause of the statement | theorem(s) for the model |
|---|---|
| a share becomes visible to readers only when its upload completes | `visible_iff_closed` (direct histories), `visible_iff_closed_foolscap` (Foolscap histories), `visible_step`/`visible_fstep` |
| reads return exactly the bytes written | `read_returns_written` + `refines_spec` / `refines_spec_foolscap` (cells = accepted writes; complete shares never change) |
| … clipped at the allocated size | `read_returns_written` (array has exactly `maxSize` cells; `pread` clips) ; `bwWrite` rejects writes crossing the size (`refines_spec`, `specWrite`) |
| a write overlapping earlier data with different bytes is rejected without changing stored data | `conflict_rejected_unchanged` (any number of overlapped chunks: `conflicts_iff`, seeded C22-a) |
| an aborted upload leaves no share behind | `aborted_leaves_nothing`; with directories: `abort_removes_exactly_that_upload` (only that incoming file and its empty bucket dir; no final file or directory — seeded C22-c) |
| a timed-out upload leaves no share behind | `timed_out_leaves_nothing` |
| a disconnected upload leaves no share behind | `disconnect_leaves_no_upload` (reachable states; seeded C22-b), `disconnect_is_aborts` |
| … and releases its space reservation | `aborted_leaves_nothing`, `disconnect_leaves_no_upload` (allocated_size = sum over the other writers), C28 `released_on_close_or_abort`, `abort_always_releases`, `lost_connection_releases_space` |
| quantifier: histories over several SIs / share numbers, overlapping out-of-order writes | all of the above are for all histories (`invariant_holds`, `reachable_invariants`); no bounds |
| `write()` answers "finished" iff every byte of the allocated size is written (the HTTP server closes the upload on it — seeded C22-d) | `write_finished_iff_complete`, `http_patch_closes_only_complete` |
| a timed-out upload = one without a write for 30·60 s | `timeout_exactly_30_minutes_after_last_write` (after a write attempt through a live handle the upload survives a clock advance of `dt` iff `dt < 1800`), `timeout_window` (every upload in progress has its deadline in `(now, now+1800]`, in every reachable state); the value 1800 is pinned to the constants of `BucketWriter.__init__` / `write` by `layout_constants` |
-/
namespace Tahoe.C22
open Tahoe.Base.File Tahoe.Storage.Imm Tahoe.Generated.Storage

/-- the literals used by the model are the values the live source defines -/
theorem layout_constants :
    imm_LEASE_SIZE = 72 ∧ imm_DATA_OFFSET = 12 ∧ imm_HEADER_SIZE = 12 ∧ imm_NEWEST_SCHEMA_VERSION = 2 ∧
    imm_SCHEMA_VERSIONS = [1, 2] ∧ lease_IMMUTABLE_SIZE = 72 ∧
    header 10 = imm_HEADER_SAMPLE_10 ∧ header (2 ^ 32 + 5) = imm_HEADER_SAMPLE_BIG ∧
    imm_BW_TIMEOUT_INIT = [30 * 60] ∧ imm_BW_TIMEOUT_WRITE = [30 * 60] := by
  decide

/-! a concrete history used by the `example`s: two shares allocated, out-of-order overlapping
    writes, a conflicting write, one close, one abort -/
def exRec : Bytes := List.replicate 72 7
def exOps : List Op :=
  [.alloc 0 [0, 1] 4 exRec 1000 [], .write 0 2 [5, 6], .write 0 1 [9, 5], .write 0 2 [8], .close 0, .abort 1,
   .advance 1800]
def exS : Server := run (Server.empty false 0) exOps

/-- every history of well-formed operations from an empty server satisfies the invariant -/
theorem invariant_holds (ro : Bool) (rs : Nat) (ops : List Op) (ok : ∀ op ∈ ops, OpOk op) :
    WF (run (Server.empty ro rs) ops) :=
  wf_run _ (wf_empty ro rs) ops ok

example : WF exS := invariant_holds false 0 exOps (by
  intro op ho
  simp only [exOps, List.mem_cons, List.mem_nil_iff, or_false] at ho
  rcases ho with rfl | rfl | rfl | rfl | rfl | rfl | rfl <;> simp [OpOk, exRec])

/-- does `op`, executed in state `s`, complete the upload of `k`? (a `close` through a live handle) -/
def closesKey (s : Server) (op : Op) (k : Key) : Bool :=
  match op with
  | .close wid => match findWid wid s.incoming with
    | some e => e.1 == k
    | none => false
  | _ => false

/-- some operation of the history completed the upload of `k` -/
def closedIn : Server → List Op → Key → Bool
  | _, [], _ => false
  | s, op :: rest, k => closesKey s op k || closedIn (step s op) rest k

theorem visible_step (s : Server) (h : WF s) (op : Op) (ok : OpOk op) (k : Key) :
    visible (step s op) k = (visible s k || closesKey s op k) := by
  cases op with
  | alloc si shs size rec free order =>
    simp [closesKey, step, (allocate_effect s h si shs size rec ok free order).2.1 k]
  | write wid off data =>
    simp only [step, closesKey, Bool.or_false]
    cases hf : findWid wid s.incoming with
    | none => rw [(findWid_none_effects s wid hf off data).1]
    | some e =>
      obtain ⟨k', w, f⟩ := e
      simp only [visible, (writeOp_effect s h wid off data k' w f hf).2.1]
  | close wid =>
    simp only [step, closesKey]
    cases hf : findWid wid s.incoming with
    | none => rw [(findWid_none_effects s wid hf 0 []).2.1]; simp
    | some e =>
      obtain ⟨k', w, f⟩ := e
      simp only [visible, (closeOp_effect s h wid k' w f hf).2.2.2.2.1 k]
      by_cases hk : k' = k <;> simp [hk]
  | abort wid =>
    simp only [step, closesKey, Bool.or_false]
    cases hf : findWid wid s.incoming with
    | none => rw [(findWid_none_effects s wid hf 0 []).2.2]
    | some e =>
      obtain ⟨k', w, f⟩ := e
      simp only [visible, (abortOp_effect s h wid k' w f hf).2.1]
  | advance dt => simp [step, closesKey, visible, (advanceOp_effect s h dt).2.1]
  | read k' off len => simp [step, closesKey]
  | list si => simp [step, closesKey]

/-- **visible_iff_closed**: after any history from an empty server, a share is visible to readers
    (`shnum ∈ get_buckets(si)`, readable) iff some `close()` through a live handle of that share
    happened — never merely by allocating or writing, and whatever aborts/timeouts occurred. -/
theorem visible_iff_closed (ro : Bool) (rs : Nat) (ops : List Op) (ok : ∀ op ∈ ops, OpOk op) (k : Key) :
    visible (run (Server.empty ro rs) ops) k = closedIn (Server.empty ro rs) ops k := by
  suffices H : ∀ (s : Server), WF s → ∀ ops, (∀ op ∈ ops, OpOk op) →
      visible (run s ops) k = (visible s k || closedIn s ops k) by
    have := H _ (wf_empty ro rs) ops ok
    simpa [visible, Server.empty, getK] using this
  intro s h ops
  induction ops generalizing s with
  | nil => intro _; simp [run, closedIn]
  | cons op rest ih =>
    intro ok
    have okh := ok op List.mem_cons_self
    simp only [run, List.foldl_cons, closedIn]
    have := ih (step s op) (step_refines s h op okh).1 (fun o ho => ok o (List.mem_cons_of_mem _ ho))
    simp only [run] at this
    rw [this, visible_step s h op okh k, Bool.or_assoc]

example : visible exS (0, 0) = true ∧ visible exS (0, 1) = false ∧
    closedIn (Server.empty false 0) exOps (0, 0) = true := by decide

/-- **read_returns_written**: when an upload is closed, every read of the now visible share
    returns the written cells of the write-once array (`cellsOf`: the byte written where some
    accepted write covered the offset), zeros where nothing was written, clipped at the allocated
    size (the array has exactly `maxSize` cells).  `refines_spec` shows the cells are exactly the
    accepted writes and that nothing changes them afterwards. -/
theorem read_returns_written (s : Server) (h : WF s) (wid : Nat) (k : Key) (w : Writer) (f : File)
    (hf : findWid wid s.incoming = some (k, (w, f))) (off len : Nat) :
    readOp (closeOp s wid).1 k off len = some (pread (specData (cellsOf w f)) off len) ∧
    (specData (cellsOf w f)).length = w.maxSize ∧
    (∀ i, i < w.maxSize → (specData (cellsOf w f))[i]? =
        some (if rmMem w.written i then f[12 + i]?.getD 0 else 0)) := by
  have e := closeOp_effect s h wid k w f hf
  refine ⟨?_, by simp [specData, cellsOf], ?_⟩
  · rw [read_refines _ e.1, e.2.2.2.1 k, e.2.2.1]
    simp [specClose, specRead]
  · intro i hi
    simp only [specData, cellsOf, List.getElem?_map, List.map_map, List.getElem?_range hi,
      Option.map_some, Function.comp]
    split <;> simp

example : readOp exS (0, 0) 0 100 = some [0, 9, 5, 6] ∧ readOp exS (0, 0) 3 1 = some [6] ∧
    readOp exS (0, 1) 0 1 = none := by decide

/-- **conflict_rejected_unchanged**: a write through a live handle that overlaps already written
    data with a different byte is rejected with `ConflictingWriteError`, and neither the cells of
    that upload, nor any other share, nor the reservation change. -/
theorem conflict_rejected_unchanged (s : Server) (h : WF s) (wid off : Nat) (data : Bytes) (k : Key)
    (w : Writer) (f : File) (hf : findWid wid s.incoming = some (k, (w, f)))
    (hc : ConflictAt w f off data) :
    (writeOp s wid off data).2 = .conflict ∧
    (∀ k', absShare (writeOp s wid off data).1 k' = absShare s k') ∧
    (writeOp s wid off data).1.final = s.final ∧
    allocatedSize (writeOp s wid off data).1 = allocatedSize s := by
  have e := writeOp_effect s h wid off data k w f hf
  have hg : getK k s.incoming = some (w, f) := findWid_getK wid _ h.incKeys _ hf
  have hsc : specConflict (cellsOf w f) off data = true :=
    (specConflict_cellsOf w f off data (h.inc k w f hg)).mpr hc
  refine ⟨?_, ?_, e.2.1, e.2.2.2.2.2⟩
  · have := e.2.2.2.2.1
    simp only [specWrite, hsc, if_true] at this
    cases hr : (writeOp s wid off data).2 <;> simp_all [toSpecRes]
  · intro k'
    rw [e.2.2.2.1 k']
    split
    · rename_i hk; subst hk
      rw [e.2.2.1]; simp [specWriteShare, specWrite, hsc]
    · rfl

example : (writeOp (run (Server.empty false 0) (exOps.take 3)) 0 2 [8]).2 = .conflict := by decide

/-- **aborted_leaves_nothing**: `abort()` / `disconnected()` through a live handle removes the
    incoming file, creates nothing visible, and releases exactly the upload's reservation. -/
theorem aborted_leaves_nothing (s : Server) (h : WF s) (wid : Nat) (k : Key) (w : Writer) (f : File)
    (hf : findWid wid s.incoming = some (k, (w, f))) :
    getK k (abortOp s wid).incoming = none ∧ (abortOp s wid).final = s.final ∧
    absShare (abortOp s wid) k = .absent ∧
    allocatedSize (abortOp s wid) + w.maxSize = allocatedSize s := by
  have e := abortOp_effect s h wid k w f hf
  exact ⟨e.2.2.1, e.2.1, by rw [e.2.2.2.1 k]; simp, e.2.2.2.2⟩

/-- a lost Foolscap connection (`disconnectOp`: the canary fires every watcher still registered)
    is exactly the sequence of `abort` steps of the handles registered on that connection, so
    `aborted_leaves_nothing`, `visible_iff_closed` and `refines_spec` apply to each of them: every
    upload of the connection that is still in progress loses its incoming file and its reservation,
    nothing becomes visible, and completed shares are untouched. -/
theorem disconnect_is_aborts (s : Server) (c : Nat) :
    disconnectOp s c = run s ((widsOfConn s c).map Op.abort) ∧
    (WF s → WF (disconnectOp s c) ∧ (disconnectOp s c).final = s.final ∧
      allocatedSize (disconnectOp s c) ≤ allocatedSize s) := by
  refine ⟨by simp only [disconnectOp, run, List.foldl_map]; rfl, ?_⟩
  simp only [disconnectOp]
  generalize widsOfConn s c = wids
  induction wids generalizing s with
  | nil => intro h; exact ⟨h, rfl, Nat.le_refl _⟩
  | cons wid rest ih =>
    intro h
    simp only [List.foldl_cons]
    cases hf : findWid wid s.incoming with
    | none =>
      rw [(findWid_none_effects s wid hf 0 []).2.2]; exact ih s h
    | some e =>
      obtain ⟨k, w, f⟩ := e
      have e := abortOp_effect s h wid k w f hf
      have r := ih (abortOp s wid) e.1
      exact ⟨r.1, r.2.1.trans e.2.1, by have := e.2.2.2.2; omega⟩

example :
    let s := (allocateConn (Server.empty false 0) 1 0 [0, 1] 4 exRec 1000 []).1
    allocatedSize s = 8 ∧ allocatedSize (closeOp s 0).1 = 4 ∧
    (disconnectOp (closeOp s 0).1 1).incoming = [] ∧ visible (disconnectOp (closeOp s 0).1 1) (0, 0) = true := by
  decide

/-- both invariants (`WF`: containers / one writer per incoming file; `WFH`: distinct, never reused
    handles, distinct registered handles) hold in every state reachable from an empty server by
    direct calls, Foolscap allocations on connections and connection losses -/
theorem reachable_invariants (ro : Bool) (rs : Nat) (ops : List FOp) (ok : ∀ o ∈ ops, FOpOk o) :
    WF (frun (Server.empty ro rs) ops) ∧ WFH (frun (Server.empty ro rs) ops) :=
  frun_inv _ (wf_empty ro rs) (wfh_empty ro rs) ops ok

/-- two connections uploading to the same storage index, plus a direct upload; connection 1 has
    closed one of its shares when it is lost -/
def exFOps : List FOp :=
  [.allocConn 1 0 [0, 1] 4 exRec 1000 [], .allocConn 2 0 [1, 2, 3] 6 exRec 1000 [],
   .direct (.alloc 0 [4] 3 exRec 1000 []), .direct (.write 0 0 [7]), .direct (.close 0)]
def exFS : Server := frun (Server.empty false 0) exFOps

/-- **disconnect_leaves_no_upload**: in every reachable state, losing connection `c` removes exactly
    the writers whose handle is registered on `c`: afterwards no handle of `c` is live, no incoming
    file of `c` remains (every remaining incoming file was there before and belongs to a handle not
    registered on `c`), `allocated_size()` is the sum of the reservations of the remaining (other
    connections' and direct) writers, and no final share changed. -/
theorem disconnect_leaves_no_upload (ro : Bool) (rs : Nat) (ops : List FOp) (ok : ∀ o ∈ ops, FOpOk o)
    (c : Nat) :
    let s := frun (Server.empty ro rs) ops
    (disconnectOp s c).incoming =
        s.incoming.filter (fun e => !((widsOfConn s c).contains e.2.1.wid)) ∧
    (∀ wid ∈ widsOfConn s c, findWid wid (disconnectOp s c).incoming = none) ∧
    (∀ k w f, getK k (disconnectOp s c).incoming = some (w, f) →
        w.wid ∉ widsOfConn s c ∧ getK k s.incoming = some (w, f)) ∧
    allocatedSize (disconnectOp s c) =
        allocSum (s.incoming.filter (fun e => !((widsOfConn s c).contains e.2.1.wid))) ∧
    (disconnectOp s c).final = s.final ∧ WF (disconnectOp s c) ∧ WFH (disconnectOp s c) := by
  intro s
  obtain ⟨hw, hh⟩ := reachable_invariants ro rs ops ok
  have heq := foldl_abort_eq_filter (widsOfConn s c) s hw.incKeys hh.widNodup
  have hinc : (disconnectOp s c).incoming =
      s.incoming.filter (fun e => !((widsOfConn s c).contains e.2.1.wid)) := by
    simp only [disconnectOp]; rw [heq]
  refine ⟨hinc, ?_, ?_, ?_, ?_, (wf_foldl_abort _ s hw).1, wfh_foldl_abort _ s hh⟩
  · intro wid hwid
    rw [hinc]
    apply findWid_eq_none
    intro x hx hxw
    simp only [List.mem_filter, Bool.not_eq_true', List.contains_eq_mem, decide_eq_false_iff_not] at hx
    exact hx.2 (hxw ▸ hwid)
  · intro k w f hk
    rw [hinc, getK_filter _ _ hw.incKeys] at hk
    split at hk
    · rename_i v hv
      split at hk
      · rename_i hp
        simp only [Option.some.injEq] at hk; subst hk
        simp only [Bool.not_eq_true', List.contains_eq_mem, decide_eq_false_iff_not] at hp
        exact ⟨hp, hv⟩
      · simp at hk
    · simp at hk
  · simp only [allocatedSize, hinc, allocSum]
  · exact (wf_foldl_abort _ s hw).2

example : widsOfConn exFS 1 = [0, 1] ∧ widsOfConn exFS 2 = [2, 3] ∧ allocatedSize exFS = 4 + 6 + 6 + 3 ∧
    ((disconnectOp exFS 1).incoming.map (·.1)) = [(0, 4), (0, 3), (0, 2)] ∧
    allocatedSize (disconnectOp exFS 1) = 6 + 6 + 3 ∧ visible (disconnectOp exFS 1) (0, 0) = true ∧
    readOp (disconnectOp exFS 1) (0, 0) 0 10 = some [7, 0, 0, 0] ∧
    ((disconnectOp exFS 2).incoming.map (·.1)) = [(0, 4), (0, 1)] := by decide

/-- `closesKey` for front-end operations: only a direct `close` through a live handle completes an upload -/
def fclosesKey (s : Server) (op : FOp) (k : Key) : Bool :=
  match op with
  | .direct o => closesKey s o k
  | _ => false

def fclosedIn : Server → List FOp → Key → Bool
  | _, [], _ => false
  | s, op :: rest, k => fclosesKey s op k || fclosedIn (fstep s op) rest k

theorem visible_fstep (s : Server) (h : WF s) (op : FOp) (ok : FOpOk op) (k : Key) :
    visible (fstep s op) k = (visible s k || fclosesKey s op k) := by
  cases op with
  | direct o => exact visible_step s h o ok k
  | allocConn c si shs size rec free order =>
    simp only [fstep, fclosesKey, Bool.or_false, visible,
      (allocateConn_fields s c si shs size rec free order).1]
    exact (allocate_effect s h si shs size rec ok free order).2.1 k
  | disconnect c =>
    simp only [fstep, fclosesKey, Bool.or_false, visible, disconnectOp, (wf_foldl_abort _ s h).2]
  | restart => simp [fstep, fclosesKey, visible, restartOp]

/-- **visible_iff_closed over Foolscap histories**: after any history of direct calls, Foolscap
    allocations on connections and connection losses from an empty server, a share is visible iff
    some `close()` through a live handle of that share happened. -/
theorem visible_iff_closed_foolscap (ro : Bool) (rs : Nat) (ops : List FOp) (ok : ∀ o ∈ ops, FOpOk o)
    (k : Key) :
    visible (frun (Server.empty ro rs) ops) k = fclosedIn (Server.empty ro rs) ops k := by
  suffices H : ∀ (s : Server), WF s → WFH s → ∀ ops, (∀ o ∈ ops, FOpOk o) →
      visible (frun s ops) k = (visible s k || fclosedIn s ops k) by
    have := H _ (wf_empty ro rs) (wfh_empty ro rs) ops ok
    simpa [visible, Server.empty, getK] using this
  intro s h hh ops
  induction ops generalizing s with
  | nil => intro _; simp [frun, fclosedIn]
  | cons op rest ih =>
    intro ok
    have okh := ok op List.mem_cons_self
    have e := fstep_inv s h hh op okh
    simp only [frun, List.foldl_cons, fclosedIn]
    have := ih (fstep s op) e.1 e.2 (fun o ho => ok o (List.mem_cons_of_mem _ ho))
    simp only [frun] at this
    rw [this, visible_fstep s h op okh k, Bool.or_assoc]

example : visible exFS (0, 0) = true ∧ fclosedIn (Server.empty false 0) exFOps (0, 0) = true ∧
    visible exFS (0, 1) = false ∧ visible (disconnectOp exFS 2) (0, 2) = false := by decide

/-- **refines_spec over Foolscap histories**: along any history of front-end operations every step
    is a step of the write-once-array specification (`FSpecStep`: a lost connection makes exactly
    its uploads in progress absent), and reads return what the specification returns. -/
theorem refines_spec_foolscap (ro : Bool) (rs : Nat) (pre : List FOp) (op : FOp)
    (ok : ∀ o ∈ pre ++ [op], FOpOk o) :
    let s := frun (Server.empty ro rs) pre
    FSpecStep s (absShare s) op (absShare (fstep s op)) ∧
    (∀ k off len, readOp s k off len = specRead (absShare s k) off len) := by
  intro s
  obtain ⟨hw, hh⟩ := reachable_invariants ro rs pre (fun o ho => ok o (List.mem_append_left _ ho))
  exact ⟨fstep_refines s hw hh op (ok op (by simp)), fun k off len => read_refines s hw k off len⟩

example : absShare exFS (0, 0) = .complete [7, 0, 0, 0] ∧
    absShare exFS (0, 1) = .inProgress 4 [none, none, none, none] ∧
    absShare (fstep exFS (.disconnect 1)) (0, 1) = .absent ∧
    absShare (fstep exFS (.disconnect 1)) (0, 2) = absShare exFS (0, 2) := by decide

/-- a prefix map for the examples: even storage indexes share prefix directory 0, odd ones 1 -/
def exPre : Nat → Nat := fun si => si % 2

/-- the server with its directory tree after: two uploads of SI 0 on connection 1, one upload of
    SI 2 (same prefix directory) directly, share (0,0) completed -/
def exD : DServer := dfrun exPre (DServer.empty false 0)
  [.allocConn 1 0 [0, 1] 4 exRec 1000 [], .direct (.alloc 2 [0] 3 exRec 1000 []), .direct (.write 0 0 [7]),
   .direct (.close 0)]

/-- **abort_removes_exactly_that_upload** (directory level): in every state reachable by front-end
    operations, `abort()` / `disconnected()` / timeout of a live upload never raises; it removes
    exactly that incoming file (every other incoming file and every final file is unchanged); the
    only directory it can remove is that upload's incoming bucket directory, and it removes it iff no
    sibling upload of the storage index remains; no final directory (bucket or prefix) and no
    incoming prefix directory is ever removed. -/
theorem abort_removes_exactly_that_upload (pre : Nat → Nat) (ro : Bool) (rs : Nat) (ops : List FOp)
    (ok : ∀ o ∈ ops, FOpOk o) (wid : Nat) (k : Key) (w : Writer) (f : File) :
    let d := dfrun pre (DServer.empty ro rs) ops
    findWid wid d.srv.incoming = some (k, (w, f)) →
    (dAbort d wid).2 = false ∧ (dAbort d wid).1.srv = abortOp d.srv wid ∧
    (dAbort d wid).1.srv.final = d.srv.final ∧
    (∀ k', getK k' (dAbort d wid).1.srv.incoming = if k = k' then none else getK k' d.srv.incoming) ∧
    (∀ x, x ≠ Dir.incDir k.1 → (x ∈ (dAbort d wid).1.dirs ↔ x ∈ d.dirs)) ∧
    (Dir.incDir k.1 ∈ (dAbort d wid).1.dirs ↔ ∃ e ∈ (dAbort d wid).1.srv.incoming, e.1.1 = k.1) ∧
    DInv (dAbort d wid).1 := by
  intro d hf
  have hd : DInv d := dfrun_dinv pre _ (dinv_empty ro rs) ops ok
  have inv := dAbort_inv d hd.dirs wid
  have ex := dAbort_exact d wid k (w, f) hf
  have hsrv := inv.2.1
  have hinc : (abortOp d.srv wid).incoming = eraseK k d.srv.incoming := by simp [abortOp, hf]
  have hd' : DInv (dAbort d wid).1 := by
    have := dfstep_dinv pre d hd (.direct (.abort wid)) trivial
    simpa [dfstep] using this
  refine ⟨inv.1, hsrv, ex.2.1, ?_, ex.2.2.1, ?_, hd'⟩
  · intro k'; rw [hsrv, hinc]; exact getK_eraseK k k' _
  · constructor
    · intro hin
      apply Classical.byContradiction
      intro hno
      apply dAbort_removes_empty d wid k (w, f) hf inv.1 _ hin
      intro e he heq
      apply hno
      exact ⟨e, by rw [hsrv, hinc]; exact he, heq⟩
    · rintro ⟨e, he, heq⟩
      rw [← heq]; exact hd'.dirs e he

example : exD.dirs.length = 6 ∧ (findWid 1 exD.srv.incoming).map (·.1) = some (0, 1) ∧
    -- aborting the last upload of SI 0: its incoming bucket dir goes, the final dir with share (0,0) stays
    (Dir.incDir 0 ∉ (dAbort exD 1).1.dirs ∧ Dir.finDir 0 ∈ (dAbort exD 1).1.dirs ∧
     Dir.incPrefix 0 ∈ (dAbort exD 1).1.dirs ∧ Dir.incDir 2 ∈ (dAbort exD 1).1.dirs) ∧
    visible (dAbort exD 1).1.srv (0, 0) = true ∧ (dAbort exD 1).2 = false := by decide

/-- **write_finished_iff_complete**: in every reachable state, an accepted `write` through a live
    handle answers "finished" iff afterwards every offset of the allocated size is covered by the
    written-range map (the ranges are sorted and gapped in every reachable state, so "sum of the range
    lengths = allocated size" can only mean the single range `[0, size)`). -/
theorem write_finished_iff_complete (ro : Bool) (rs : Nat) (ops : List FOp) (ok : ∀ o ∈ ops, FOpOk o)
    (wid off : Nat) (data : Bytes) (k : Key) (w : Writer) (f : File) (fin : Bool) :
    let s := frun (Server.empty ro rs) ops
    findWid wid s.incoming = some (k, (w, f)) → (writeOp s wid off data).2 = .ok fin →
    ∃ w' f', getK k (writeOp s wid off data).1.incoming = some (w', f') ∧ w'.maxSize = w.maxSize ∧
      (fin = true ↔ ∀ i, i < w.maxSize → rmMem w'.written i = true) := by
  intro s hf hres
  obtain ⟨hw, hh⟩ := reachable_invariants ro rs ops ok
  have hr : WFR s := wfr_frun _ (by simp [WFR, Server.empty]) ops
  have e := writeOp_effect s hw wid off data k w f hf
  have hr' : WFR (writeOp s wid off data).1 := wfr_fstep s hr (.direct (.write wid off data))
  simp only [writeOp, hf] at hres hr' e ⊢
  have hb := bwWrite_ok _ f off data fin hres
  refine ⟨(bwWrite { w with deadline := s.now + 30 * 60 } f off data).1,
    (bwWrite { w with deadline := s.now + 30 * 60 } f off data).2.1, by rw [getK_setK]; simp, hb.2, ?_⟩
  have hmem := hr' (k, ((bwWrite { w with deadline := s.now + 30 * 60 } f off data).1,
    (bwWrite { w with deadline := s.now + 30 * 60 } f off data).2.1)) (List.mem_cons_self)
  have hwf := e.1.inc k (bwWrite { w with deadline := s.now + 30 * 60 } f off data).1
    (bwWrite { w with deadline := s.now + 30 * 60 } f off data).2.1 (by rw [getK_setK]; simp)
  rw [hb.1]
  have := finished_iff_covered _ _ hmem hwf.bound
  rw [hb.2] at this
  exact this

/-- **http_patch_closes_only_complete**: the HTTP PATCH handler closes the upload (making the share
    visible) exactly when `write` answered "finished", hence only when every byte is written. -/
theorem http_patch_closes_only_complete (ro : Bool) (rs : Nat) (ops : List FOp) (ok : ∀ o ∈ ops, FOpOk o)
    (wid off : Nat) (data : Bytes) (k : Key) (w : Writer) (f : File) :
    let s := frun (Server.empty ro rs) ops
    findWid wid s.incoming = some (k, (w, f)) →
    (httpWriteOp s wid off data).1 ≠ (writeOp s wid off data).1 →
    (writeOp s wid off data).2 = .ok true ∧
    ∃ w' f', getK k (writeOp s wid off data).1.incoming = some (w', f') ∧
      ∀ i, i < w.maxSize → rmMem w'.written i = true := by
  intro s hf hne
  have hres : (writeOp s wid off data).2 = .ok true := by
    simp only [httpWriteOp] at hne
    split at hne
    · assumption
    · exact absurd rfl hne
  obtain ⟨w', f', h1, _, h3⟩ := write_finished_iff_complete ro rs ops ok wid off data k w f true hf hres
  exact ⟨hres, w', f', h1, h3.mp rfl⟩

/-- tail first, then the head: the first write is NOT finished, the second is; over the HTTP route
    the share becomes visible only with the second -/
example :
    let s := frun (Server.empty false 0) [.allocConn 1 0 [0] 4 exRec 1000 []]
    (writeOp s 0 2 [3, 4]).2 = .ok false ∧ visible (httpWriteOp s 0 2 [3, 4]).1 (0, 0) = false ∧
    (writeOp (writeOp s 0 2 [3, 4]).1 0 0 [1, 2]).2 = .ok true ∧
    readOp (httpWriteOp (httpWriteOp s 0 2 [3, 4]).1 0 0 [1, 2]).1 (0, 0) 0 9 = some [1, 2, 3, 4] := by decide

/-- **timeout_window**: in every reachable state every upload in progress has its timeout strictly in
    the future and at most 30 minutes away (so no upload survives 30 minutes without a write, and the
    clock never removes an upload before its deadline). -/
theorem timeout_window (ro : Bool) (rs : Nat) (ops : List FOp) :
    let s := frun (Server.empty ro rs) ops
    ∀ e ∈ s.incoming, s.now < e.2.1.deadline ∧ e.2.1.deadline ≤ s.now + 30 * 60 :=
  wft_frun _ (by simp [WFT, Server.empty]) ops

/-- **timeout_exactly_30_minutes_after_last_write**: in every reachable state, after a write attempt
    through a live handle (accepted or rejected — `_timeout.reset(30*60)` comes first), the upload
    is still in progress after the clock advances by `dt` iff `dt < 30·60`. -/
theorem timeout_exactly_30_minutes_after_last_write (ro : Bool) (rs : Nat) (ops : List FOp)
    (ok : ∀ o ∈ ops, FOpOk o) (wid off : Nat) (data : Bytes) (k : Key) (w : Writer) (f : File) (dt : Nat) :
    let s := frun (Server.empty ro rs) ops
    findWid wid s.incoming = some (k, (w, f)) →
    (findWid wid (advanceOp (writeOp s wid off data).1 dt).incoming).isSome = decide (dt < 30 * 60) := by
  intro s hf
  obtain ⟨_, hh⟩ := reachable_invariants ro rs ops ok
  have hh1 : WFH (writeOp s wid off data).1 := wfh_writeOp s hh wid off data
  have hwid : w.wid = wid := (findWid_mem wid _ _ hf).2
  simp only [advanceOp]
  rw [findWid_filter _ wid _ hh1.widNodup]
  simp only [writeOp, hf, setK, findWid, bwWrite_wid, hwid, ↓reduceIte, bwWrite_deadline]
  by_cases hd : dt < 30 * 60
  · have : s.now + dt < s.now + 1800 := by omega
    simp [hd, this]
  · have : ¬ (s.now + dt < s.now + 1800) := by omega
    simp [hd, this]

example :
    let s := frun (Server.empty false 0) [.allocConn 1 0 [0] 4 exRec 1000 [], .direct (.advance 1000)]
    (findWid 0 (advanceOp s 799).incoming).isSome = true ∧ (findWid 0 (advanceOp s 800).incoming).isSome = false ∧
    (findWid 0 (advanceOp (writeOp s 0 9 [1]).1 1799).incoming).isSome = true ∧
    (findWid 0 (advanceOp (writeOp s 0 9 [1]).1 1800).incoming).isSome = false := by decide

/-- the same for the 30-minute timeout: once the clock passes an upload's deadline the upload is
    gone (file and reservation), nothing becomes visible, and uploads whose deadline has not
    passed are untouched -/
theorem timed_out_leaves_nothing (s : Server) (h : WF s) (dt : Nat) :
    (advanceOp s dt).final = s.final ∧
    (∀ k w f, getK k s.incoming = some (w, f) → w.deadline ≤ s.now + dt →
        getK k (advanceOp s dt).incoming = none ∧ absShare (advanceOp s dt) k = .absent) ∧
    (∀ k w f, getK k (advanceOp s dt).incoming = some (w, f) →
        getK k s.incoming = some (w, f) ∧ s.now + dt < w.deadline) := by
  have e := advanceOp_effect s h dt
  refine ⟨e.2.1, ?_, e.2.2.1⟩
  intro k w f hk hd
  have hn := e.2.2.2.1 k w f hk hd
  refine ⟨hn, ?_⟩
  have hfin := final_none_of_inc s h k _ hk
  simp only [absShare, e.2.1, hfin, hn]

example : allocatedSize (run (Server.empty false 0) (exOps.take 5)) = 4 ∧
    allocatedSize (run (Server.empty false 0) (exOps.take 6)) = 0 ∧ exS.incoming = [] := by decide

/-- **refines_spec**: along any history over any number of (SI, shnum), every step of the model
    is a step of the specification "map (SI, shnum) → write-once byte array with an in-progress
    flag" under the abstraction `absShare`, and reads return what the specification returns. -/
theorem refines_spec (ro : Bool) (rs : Nat) (pre : List Op) (op : Op)
    (ok : ∀ o ∈ pre ++ [op], OpOk o) :
    let s := run (Server.empty ro rs) pre
    SpecStep s (absShare s) op (absShare (step s op)) ∧
    (∀ k off len, readOp s k off len = specRead (absShare s k) off len) ∧
    (∀ wid off data k w f, findWid wid s.incoming = some (k, (w, f)) →
        absShare s k = .inProgress w.maxSize (cellsOf w f) ∧
        toSpecRes (writeOp s wid off data).2 = (specWrite w.maxSize (cellsOf w f) off data).2) := by
  intro s
  have hw : WF s := invariant_holds ro rs pre (fun o ho => ok o (List.mem_append_left _ ho))
  refine ⟨(step_refines s hw op (ok op (by simp))).2, fun k off len => read_refines s hw k off len, ?_⟩
  intro wid off data k w f hf
  have e := writeOp_effect s hw wid off data k w f hf
  exact ⟨e.2.2.1, e.2.2.2.2.1⟩

example : absShare exS (0, 0) = .complete [0, 9, 5, 6] ∧ absShare exS (0, 1) = .absent ∧
    absShare (run (Server.empty false 0) (exOps.take 3)) (0, 0) = .inProgress 4 [none, some 9, some 5, some 6] := by
  decide

end Tahoe.C22
