import Tahoe.Dir.Authority
import Tahoe.Dir.PackLemmas
/-! C18 — read-only directory access is transitive (property theorems; models in
    `Tahoe/Dir/Authority.lean` (symbolic terms, Dolev–Yao derivability, handles) and `Tahoe/Dir/Pack.lean`
    (`_unpack_contents`, `create_from_cap`)). -/
/-! ## Coverage of the statement (C18, properties.jsonl)

| clause of the statement | theorem(s) |
|---|---|
| "through a read-only directory capability, every child … is obtained with read-only (or weaker) authority" | `ro_children_ro`, `createFromCap_none_rw` on the unpack model of C19 (`_unpack_contents` with `writeable = False`, `create_from_cap(None, ro_uri)`): no write cap on any child, for every packed entry whose ro slot holds what packing writes there |
| "… and every descendant" | `read_only_is_transitive` (induction along any path of handles) |
| a blacklisted child (`ProhibitedNode`) re-packed while prohibited (seeded C18-e) | `prohibited_repack_keeps_writecap_encrypted` (the wrapper's accessors as packing sees them: `prohibitedView`, tied by the `packp` correspondence) + monitor |
| the node cache must not hand a writeable node to a read-only parent (seeded C18-a) | **monitor only** (cold / warm walks with write attempts); the model has no cache |
| "the directory contents a read-cap holder can decrypt do not reveal any child's write-cap" | `readcap_cannot_derive_child_writecap` (Dolev–Yao: read cap + all packed entries ⊬ any secret write cap), `derivable_good`; a cap given only as write authority never reaches a clear-text slot: `rw_only_cap_never_in_ro_slot`, `lone_unknown_cap_is_not_packed` |
| per-child salt / key (no key-stream reuse between siblings, seeded C18-b) | the symbolic entry has `salt = H(rw_uri)` per child (`encryptRwUri`); key-stream xor is outside a symbolic model: **correspondence** (every rwcapdata recomputed) **+ monitor** (sibling-xor adversary) |
| "only a holder of the directory's write-cap can recover the write-caps of its children" | `writecap_recovers` (derivation and `_decrypt_rwcapdata` computation) together with `readcap_cannot_derive_child_writecap` |
| computational secrecy of AES-CTR / SHA-256d / HMAC, guessing attacks through the deterministic salt | **not covered** (symbolic model; stated in LEVEL_NOTE) |
-/
namespace Tahoe.C18
open Tahoe.Dir.Authority Tahoe.Dir.Authority.Term
open Tahoe.Dir.Pack

/-- Everything derivable from `Good` knowledge is `Good`: no derivation rule produces a secret of `Sec`. -/
theorem derivable_good (Sec : Nat → Prop) (S : Term → Prop) (hS : ∀ t, S t → Good Sec t) (t : Term)
    (h : Derivable S t) : Good Sec t := by
  induction h with
  | known hs => exact hS _ hs
  | pub n => trivial
  | pair _ _ iha ihb => exact ⟨iha, ihb⟩
  | fst _ ih => exact ih.1
  | snd _ ih => exact ih.2
  | hsh tag _ _ => trivial
  | kdf _ _ _ ihk => exact ihk
  | enc _ _ _ ihm => exact fun _ => ihm
  | dec _ _ ihe ihk => exact ihe ihk
  | mac _ _ _ _ => trivial

/-- **A read-cap holder cannot derive a child's write cap.**  Knowing the directory's read cap, the read
    caps of any objects, all public material, and every packed entry of the directory (names, read caps and
    metadata in clear, rwcapdata = salt ‖ CTR(KDF(salt, writekey), rw_uri) ‖ MAC), with arbitrary write caps
    of objects of `Sec` inside the encrypted slots: no write cap of an object in `Sec` — in particular
    neither a child's nor the directory's own — is derivable.  (`Sec` = the objects whose write caps the party
    was not given some other way: "unless already derivable without the directory".) -/
theorem readcap_cannot_derive_child_writecap (Sec : Nat → Prop) (parent : Nat) (hp : Sec parent)
    (entries : List (Term × Term × Term × Term))          -- (name, ro_uri, rw_uri, metadata) of each child
    (hclear : ∀ e ∈ entries, Good Sec e.1 ∧ Good Sec e.2.1 ∧ Good Sec e.2.2.2)   -- the clear fields hold no secret
    (S : Term → Prop)
    (hS : ∀ t, S t → (∃ n, t = readCap n) ∨ (∃ n, ¬ Sec n ∧ t = writeCap n) ∨
        (∃ e ∈ entries, t = entry (writeCap parent) e.1 e.2.1 e.2.2.1 e.2.2.2))
    (child : Nat) (hc : Sec child) : ¬ Derivable S (writeCap child) := by
  intro hd
  have hgood := derivable_good Sec S ?_ _ hd
  · exact hgood hc
  · intro t ht
    rcases hS t ht with ⟨n, rfl⟩ | ⟨n, hn, rfl⟩ | ⟨e, he, rfl⟩
    · trivial
    · exact hn
    · obtain ⟨h1, h2, h3⟩ := hclear e he
      refine ⟨h1, h2, ⟨trivial, ?_, trivial⟩, h3⟩
      intro hk
      exact absurd hp hk

/-- a directory with a secret write key, a child linked by its write cap: the hypotheses are satisfiable -/
example : ¬ Derivable (fun t => t = readCap 0 ∨ t = entry (writeCap 0) (pub 7) (readCap 1) (writeCap 1) (pub 8))
    (writeCap 1) := by
  apply readcap_cannot_derive_child_writecap (fun n => n = 0 ∨ n = 1) 0 (Or.inl rfl)
    [(pub 7, readCap 1, writeCap 1, pub 8)]
  · intro e he
    simp only [List.mem_singleton] at he
    subst he
    exact ⟨trivial, trivial, trivial⟩
  · intro t ht
    rcases ht with rfl | rfl
    · left; exact ⟨0, rfl⟩
    · right; right; exact ⟨(pub 7, readCap 1, writeCap 1, pub 8), by simp, rfl⟩
  · exact Or.inr rfl

/-- **Only the write cap recovers the children's write caps**: from the directory's write cap and a packed
    entry the child's rw_uri is derivable, and `_decrypt_rwcapdata` computes exactly it. -/
theorem writecap_recovers (parent : Nat) (name roUri rwUri md : Term) (S : Term → Prop)
    (hw : S (writeCap parent)) (he : S (entry (writeCap parent) name roUri rwUri md)) :
    Derivable S rwUri ∧ decryptRwcapdata (writeCap parent) (encryptRwUri (writeCap parent) rwUri) = some rwUri := by
  constructor
  · have e := Derivable.known (S := S) he
    have cap := Derivable.fst (Derivable.snd (Derivable.snd e))       -- encryptRwUri …
    have salt := Derivable.fst cap
    have ct := Derivable.fst (Derivable.snd cap)
    have key := Derivable.kdf salt (Derivable.known hw)
    exact Derivable.dec ct key
  · simp [decryptRwcapdata, encryptRwUri]

example : decryptRwcapdata (writeCap 0) (encryptRwUri (writeCap 0) (writeCap 1)) = some (writeCap 1) ∧
    decryptRwcapdata (writeCap 5) (encryptRwUri (writeCap 0) (writeCap 1)) = none := by decide

/-- what `create_from_cap(None, ro_uri)` returns has no write cap, provided the string in the ro slot is not
    a known *write* cap (packing stores `get_readonly_uri()` there, which never is) -/
theorem createFromCap_none_rw (classify : Bytes → CapClass) (ro : Option Bytes) (dI : Bool)
    (hro : ∀ r m w cn rf, ro = some r → fromString classify r dI = .known m w cn rf → w = false) :
    (createFromCap classify none ro dI).rw = none := by
  unfold createFromCap
  simp only [truthy, Bool.false_eq_true, if_false]
  cases ho : orNone ro with
  | none => rfl
  | some c =>
    have hc : ro = some c := by
      unfold orNone at ho
      split at ho
      · exact ho
      · cases ho
    simp only []
    cases hf : fromString classify c dI with
    | known m w cn rf =>
      have := hro c m w cn rf hc hf
      subst this
      rfl
    | unknownOk =>
      simp only [mkUnknown, orNone, truthy, Bool.false_eq_true, if_false]
      (repeat' split) <;> rfl
    | unknownErr =>
      simp only [mkUnknown, orNone, truthy, Bool.false_eq_true, if_false]
      (repeat' split) <;> rfl

/-- **A cap given only in the write slot never reaches the clear-text read slot.**  `create_from_cap(cap, None)`
    with a non-empty cap that carries no `ro.`/`imm.` prefix either recognises the cap — then the node's
    `get_readonly_uri()` is the read-only form computed by the cap library — or yields an `UnknownNode` that
    records an error (`MustNotBeUnknownRWError`: "we cannot tell whether it is a writecap, and we don't know how
    to diminish it"), and such a node is refused by `_pack_normalized_children` (`child.raise_error()`), in every
    kind of directory.  So `_pack_normalized_children` never writes the given string into an `ro_uri` field. -/
theorem rw_only_cap_never_in_ro_slot (classify : Bytes → CapClass) (cap : Bytes) (dI : Bool)
    (hne : truthy (some cap) = true)
    (hp1 : startsWith cap immPrefix = false) (hp2 : startsWith cap roPrefix = false) :
    (createFromCap classify (some cap) none dI).err = true ∨
    ∃ m w cn rf, classify cap = .known m w cn rf ∧
      createFromCap classify (some cap) none dI = ⟨false, if w then some cn else none, some rf, m, false⟩ := by
  have hunk : (mkUnknown classify (some cap) none dI).err = true := by
    cases cap with
    | nil => simp [truthy] at hne
    | cons a t => cases dI <;> simp [mkUnknown, orNone, truthy, hp1, hp2, opaqueNode]
  unfold createFromCap
  simp only [hne, if_true, orNone]
  cases hf : fromString classify cap dI with
  | known m w cn rf =>
    right
    refine ⟨m, w, cn, rf, ?_, rfl⟩
    simp only [fromString, hp1, hp2, Bool.false_eq_true, if_false] at hf
    cases hc : classify cap with
    | known m' w' cn' rf' =>
      rw [hc] at hf
      simp only [] at hf
      split at hf
      · split at hf
        · cases hf; rfl
        · cases hf
      · split at hf
        · split at hf
          · cases hf; rfl
          · cases hf
        · cases hf; rfl
    | testWriteable => rw [hc] at hf; simp only [] at hf; split at hf <;> cases hf
    | testMutable => rw [hc] at hf; simp only [] at hf; split at hf <;> cases hf
    | unknown => rw [hc] at hf; cases hf
    | bad => rw [hc] at hf; cases hf
  | unknownOk => left; exact hunk
  | unknownErr => left; exact hunk

/-- … and a child list containing such an unrecognised lone cap cannot be packed at all. -/
theorem lone_unknown_cap_is_not_packed {Name J Key : Type} [DecidableEq Name] (W : World Name J Key)
    (cap : Bytes) (dI : Bool) (hne : truthy (some cap) = true)
    (hp1 : startsWith cap immPrefix = false) (hp2 : startsWith cap roPrefix = false)
    (hcls : ∀ m w cn rf, W.classify cap ≠ .known m w cn rf)
    (key : Option Key) (deepImm aux : Bool) (c : List (Name × Child J)) (name : Name) (md : J) (a : Option Bytes)
    (hin : (name, ⟨createFromCap W.classify (some cap) none dI, md, a⟩) ∈ c) (data : Bytes) :
    pack W key deepImm aux c ≠ .ok data := by
  intro hpack
  have hp := pack_ok_inv W key deepImm aux c data hpack _ hin
  rcases rw_only_cap_never_in_ro_slot W.classify cap dI hne hp1 hp2 with h | ⟨m, w, cn, rf, hk, _⟩
  · rw [hp.1] at h; cases h
  · exact hcls m w cn rf hk

example : (createFromCap (fun _ => .unknown) (some [108, 97]) none false).err = true ∧
    (createFromCap (fun _ => .unknown) (some (roPrefix ++ [108, 97])) none false).ro = some (roPrefix ++ [108, 97]) := by
  decide

/-- **Re-packing a blacklisted child keeps its write cap encrypted.**  A child wrapped in `ProhibitedNode`
    (its storage index is in the client's `access.blacklist`) is packed from the wrapper's accessors, which
    delegate to the wrapped node: the entry written for it — by a rename, `set_metadata_for`, `set_node` of the
    listed node, a copy of the listing — is byte for byte the entry of the wrapped node: the `ro_uri` slot holds
    the wrapped node's read-only URI and the write cap goes only into the encrypted rwcapdata field. -/
theorem prohibited_repack_keeps_writecap_encrypted {Name J Key : Type} [DecidableEq Name] (W : World Name J Key)
    (key : Option Key) (dI : Bool) (name : Name) (wrapped : Node) (md : J) (a a' : Option Bytes) :
    entryBytes W key dI name ⟨prohibitedView wrapped, md, a⟩ = entryBytes W key dI name ⟨wrapped, md, a'⟩ ∧
    (prohibitedView wrapped).ro = wrapped.ro ∧ (prohibitedView wrapped).rw = wrapped.rw := ⟨rfl, rfl, rfl⟩

/-- … so what `ro_children_ro` and `rw_only_cap_never_in_ro_slot` say about the clear-text slot holds for it as for
    any known node: a known mutable node's read slot is its read-only form, never its write cap. -/
example : (prohibitedView ⟨false, some [87], some [82], true, false⟩).ro = some [82] ∧
    (prohibitedView ⟨false, some [87], some [82], true, false⟩).err = false := by decide

/-- **Children of a read-only directory are read-only.**  Every child that `_unpack_contents` returns through
    a read-only parent (`writeable = False`: rw_uri forced empty, node created from the ro slot alone) — for any
    packed children whose ro slot holds what packing puts there — has no write cap: it is a read-only known
    node, or an unknown node without rw_uri.  And by induction along any path (`read_only_is_transitive`)
    every descendant is opened read-only. -/
theorem ro_children_ro {Name J Key : Type} [DecidableEq Name] (W : World Name J Key) (cx : DirCtx Key)
    (hro : cx.writeable = false) (n : Node)
    (hslot : ∀ r m w cn rf, rstripOrNone (stripPrefixForRo (n.ro.getD []) (!cx.mutableDir)) = some r →
      fromString W.classify r (!cx.mutableDir) = .known m w cn rf → w = false) :
    (canon W cx n).rw = none ∧ ((canon W cx n).unknown = false ∨ truthy (canon W cx n).rw = false) := by
  have h : (canon W cx n).rw = none := by
    unfold canon
    simp only [hro, Bool.false_eq_true, if_false]
    have : rstripOrNone ([] : Bytes) = none := by simp [rstripOrNone, rstrip]
    rw [this]
    exact createFromCap_none_rw W.classify _ _ hslot
  exact ⟨h, Or.inr (by rw [h]; rfl)⟩

/-- Read-only access is transitive: starting from a read-only handle, every node reached along any path is
    opened read-only, whatever write caps the entries on the way store. -/
theorem read_only_is_transitive (t : Tree) (n : Nat) (path : List String) (m : Nat) (w : Bool)
    (h : walk t (n, false) path = some (m, w)) : w = false := by
  induction path generalizing n with
  | nil => simp only [walk, Option.some.injEq, Prod.mk.injEq] at h; exact h.2.symm
  | cons name rest ih =>
    simp only [walk] at h
    split at h
    · rename_i l _
      simp only [childMode, Bool.false_and] at h
      exact ih l.target h
    · cases h

example : let t : Tree := fun n => if n = 0 then [⟨"a", 1, true⟩] else if n = 1 then [⟨"b", 2, true⟩] else []
    walk t (0, false) ["a", "b"] = some (2, false) ∧ walk t (0, true) ["a", "b"] = some (2, true) := by decide

end Tahoe.C18
