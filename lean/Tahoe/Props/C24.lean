import Tahoe.Storage.LemmasSlot
import Tahoe.Storage.LemmasLeaseBucket
/-!
C24 — read-test-write is atomic and guarded by the write enabler (property theorems).

Model: `Tahoe/Storage/Slot.lean` `rtw` = `StorageServer.slot_testv_and_readv_and_writev`.
`env.precheck = true` is the server WITH the size pre-check (fixes/C24-precheck.diff — committed to /repo, so this is
the code under verification); `env.precheck = false` is the tree before that fix, kept for the negation witness:
there `all_or_nothing` is FALSE (`all_or_nothing_counterexample`).

Coverage of the statement (properties.jsonl C24), clause → theorem(s):
* "a request either applies all of its writes, to every share it names, or none" → `all_or_nothing` (repaired server,
      any well-formed bucket); exact form `request_level_decision`; FALSE for the unchanged tree:
      `all_or_nothing_counterexample` (kernel-evaluated), `counterexample_repaired`
* "it applies none if any test fails" → `failed_test_no_effect`, `request_level_decision` (tests of ALL entries on the
      pre-state, absent shares as empty: `absent_share_tests_count`)
* "… or if the write enabler does not match every existing share of that storage index" → `bad_enabler_no_effect`
      (any share of the bucket, named or not)
* "its read results always reflect the data before the request" → `reads_are_pre_state`
* shares not named by the request are untouched → `unnamed_shares_untouched` (whole request: test, write and lease
      phase, any outcome, both servers); write phase alone `unnamed_shares_untouched_by_writes`
* write vectors applied in the order given → C23 `write_vectors_in_order` + `request_level_decision` (`Spec.evalWrites`)
* an error raised by the lease renewal AFTER the writes (`NoSpace`, `struct.error`): covered by `all_or_nothing` /
  `request_level_decision` — all writes are applied in that case (second disjunct), never a part of them.
* not covered: directory-listing order (only WHICH error is reported for a bucket with both an unknown container and
  a foreign enabler depends on it: `bad_enabler_no_effect` allows either).
-/
namespace Tahoe.C24
open Tahoe.Base.File Tahoe.Storage Tahoe.Storage.Mutable Tahoe.Storage.Slot

/-- if the write enabler differs from that of ANY existing share of the storage index (named by the
    request or not), the request raises and no file changes — whatever else the request contains.
    (Holds for the repaired and the unrepaired server.) -/
theorem bad_enabler_no_effect (env : Env) (b : Bucket) (we renew cancel : Bytes) (tw : List (Nat × TW))
    (rv : List (Nat × Nat)) (rl : Bool) (hbad : ∃ p ∈ b, enabler p.2 ≠ we) :
    (rtw env b we renew cancel tw rv rl).bucket = b ∧
    ((rtw env b we renew cancel tw rv rl).out = .error .badWriteEnabler ∨
     (rtw env b we renew cancel tw rv rl).out = .error .unknownVersion) := by
  have hc : collect b we = some .badWriteEnabler ∨ collect b we = some .unknownVersion := by
    unfold collect
    split
    · exact Or.inr rfl
    · have : ¬ (b.all fun p => enabler p.2 == we) = true := by
        simp only [List.all_eq_true, beq_iff_eq]
        intro h
        obtain ⟨p, hp, hne⟩ := hbad
        exact hne (h p hp)
      simp only [this]
      exact Or.inl (by simp)
  unfold rtw
  rcases hc with hc | hc <;> simp [hc]

example : ∃ p ∈ [(0, create .v2 (zeros 20) (zeros 32))], enabler p.2 ≠ [1] := by
  refine ⟨_, List.mem_singleton.mpr rfl, ?_⟩
  rw [(create_fields _ _ _).2.2.2.2.1]; decide

/-- if any test vector fails (a missing share being compared as empty), the answer is `False` with
    the read data, and no file changes -/
theorem failed_test_no_effect (env : Env) (b : Bucket) (we renew cancel : Bytes) (tw : List (Nat × TW))
    (rv : List (Nat × Nat)) (rl : Bool) (hc : collect b we = none)
    (hfail : Spec.evalTests (absBucket b) tw = false) :
    (rtw env b we renew cancel tw rv rl).bucket = b ∧
    (rtw env b we renew cancel tw rv rl).out = .ok (false, Spec.evalReads (absBucket b) rv) := by
  rw [← evalTests_eq] at hfail
  unfold rtw
  simp [hc, hfail, evalReads_eq]

example : Spec.evalTests [] [(0, { testv := [(0, 1, [5])], datav := [], newLength := none })] = false := by decide

/-- the read data returned by a request (with the verdict `True` or `False`) are the clipped reads of
    every existing share's byte array as it was BEFORE the request — never of data written by it -/
theorem reads_are_pre_state (env : Env) (b : Bucket) (we renew cancel : Bytes) (tw : List (Nat × TW))
    (rv : List (Nat × Nat)) (rl : Bool) (g : Bool) (reads : List (Nat × List Bytes))
    (hout : (rtw env b we renew cancel tw rv rl).out = .ok (g, reads)) :
    reads = Spec.evalReads (absBucket b) rv := by
  rw [← evalReads_eq]
  unfold rtw at hout
  split at hout
  · simp at hout
  · simp only at hout
    split at hout
    · simp only [Except.ok.injEq, Prod.mk.injEq] at hout; exact hout.2.symm
    · split at hout
      · simp at hout
      · split at hout
        · simp at hout
        · split at hout
          · simp only [Except.ok.injEq, Prod.mk.injEq] at hout; exact hout.2.symm
          · split at hout
            · simp at hout
            · simp only [Except.ok.injEq, Prod.mk.injEq] at hout; exact hout.2.symm

/-- **all_or_nothing** (repaired server): from any well-formed storage index, after the request
    either NO file has changed at all (bad enabler, failed test, oversized vector: byte-for-byte the
    same bucket), or the share data are exactly the specification's result of applying EVERY write
    vector to EVERY share the request names (creating, truncating and deleting as asked) — never
    something in between.  In the second case the answer is `True`, or an error raised by the lease
    renewal that follows the writes (`NoSpace`). -/
theorem all_or_nothing (env : Env) (hfix : env.precheck = true) (b : Bucket) (hb : BucketWF b)
    (we renew cancel : Bytes) (tw : List (Nat × TW)) (rv : List (Nat × Nat)) (rl : Bool) :
    (rtw env b we renew cancel tw rv rl).bucket = b ∨
    (absBucket (rtw env b we renew cancel tw rv rl).bucket = Spec.evalWrites (absBucket b) tw ∧
     (∀ reads, (rtw env b we renew cancel tw rv rl).out ≠ .ok (false, reads)) ∧
     (rtw env b we renew cancel tw rv rl).out ≠ .error .badWriteEnabler ∧
     (rtw env b we renew cancel tw rv rl).out ≠ .error .dataTooLarge) := by
  unfold rtw
  split
  · exact Or.inl rfl
  · simp only
    by_cases hg : evalTests b tw
    · simp only [hg, Bool.not_true, Bool.false_eq_true, if_false, hfix, Bool.true_and]
      by_cases hs : sizesOk tw
      · simp only [hs, Bool.not_true, Bool.false_eq_true, if_false]
        obtain ⟨b1, rem, e, w1, a1⟩ := evalWrites_ok env.nodeid we tw b [] hb ((sizesOk_iff _).mp hs)
        simp only [e]
        right
        by_cases hr : rl
        · simp only [hr, Bool.not_true, Bool.false_eq_true, if_false]
          have ha := (renewShares_abs env (makeLease env renew cancel) rem b1 w1).2
          have herr := renewShares_err env (makeLease env renew cancel) rem b1
          generalize renewShares env (makeLease env renew cancel) b1 rem = r at *
          obtain ⟨b2, e2⟩ := r
          cases e2 with
          | some e2 =>
            simp only at herr ⊢
            refine ⟨ha.trans a1, by simp, ?_, ?_⟩ <;> (intro hh; simp only [Except.error.injEq] at hh; subst hh; simp at herr)
          | none => exact ⟨ha.trans a1, by simp, by simp, by simp⟩
        · simp only [hr, Bool.not_false, if_true]
          exact ⟨a1, by simp, by simp, by simp⟩
      · simp [hs]
    · simp [hg]

/-- **request-level decision** (repaired server; enabler accepted, sizes admissible): ALL test vectors of ALL entries
    of the request are evaluated on the byte arrays as they are BEFORE the request — a share the server does not
    hold counting as the empty array (`Spec.dataOf`) —; if any fails, nothing at all changes and the answer is
    `(False, pre-state reads)`; if all pass, the share data afterwards are exactly the specification's result of
    applying every entry in request order and every write vector in vector order (`Spec.evalWrites`,
    `Spec.writeAll` is a left fold), and the answer is `(True, pre-state reads)` or an error of the lease renewal
    that follows the writes -/
theorem request_level_decision (env : Env) (hfix : env.precheck = true) (b : Bucket) (hb : BucketWF b)
    (we renew cancel : Bytes) (tw : List (Nat × TW)) (rv : List (Nat × Nat)) (rl : Bool)
    (hc : collect b we = none) (hs : sizesOk tw = true) :
    (Spec.evalTests (absBucket b) tw = false →
      (rtw env b we renew cancel tw rv rl).bucket = b ∧
      (rtw env b we renew cancel tw rv rl).out = .ok (false, Spec.evalReads (absBucket b) rv)) ∧
    (Spec.evalTests (absBucket b) tw = true →
      absBucket (rtw env b we renew cancel tw rv rl).bucket = Spec.evalWrites (absBucket b) tw ∧
      ((rtw env b we renew cancel tw rv rl).out = .ok (true, Spec.evalReads (absBucket b) rv) ∨
       ∃ e, (rtw env b we renew cancel tw rv rl).out = .error e)) := by
  refine ⟨fun hf => failed_test_no_effect env b we renew cancel tw rv rl hc hf, ?_⟩
  intro hp
  rw [← evalTests_eq] at hp
  unfold rtw
  simp only [hc, hp, Bool.not_true, Bool.false_eq_true, if_false, hfix, Bool.true_and, hs, evalReads_eq]
  obtain ⟨b1, rem, e, w1, a1⟩ := evalWrites_ok env.nodeid we tw b [] hb ((sizesOk_iff _).mp hs)
  simp only [e]
  by_cases hr : rl
  · simp only [hr, Bool.not_true, Bool.false_eq_true, if_false]
    have ha := (renewShares_abs env (makeLease env renew cancel) rem b1 w1).2
    generalize renewShares env (makeLease env renew cancel) b1 rem = r at *
    obtain ⟨b2, e2⟩ := r
    cases e2 with
    | some e2 => exact ⟨ha.trans a1, Or.inr ⟨e2, rfl⟩⟩
    | none => exact ⟨ha.trans a1, by simp⟩
  · simp only [hr, Bool.not_false, if_true]
    exact ⟨a1, by simp⟩

/-- test vectors of a share the server does NOT hold are evaluated too (against the empty array): an entry for an
    absent share with a non-empty specimen makes the whole request fail, so — by `failed_test_no_effect` — none of
    its writes, to any share, is applied -/
theorem absent_share_tests_count (b : Bucket) (tw : List (Nat × TW)) (n : Nat) (t : TW) (hmem : (n, t) ∈ tw)
    (habs : lookup b n = none) (o l : Nat) (spec : Bytes) (hv : (o, l, spec) ∈ t.testv) (hne : spec ≠ []) :
    Spec.evalTests (absBucket b) tw = false := by
  unfold Spec.evalTests
  rw [List.all_eq_false]
  refine ⟨(n, t), hmem, ?_⟩
  simp only [Spec.dataOf, lookup_abs, habs, Option.map_none, Option.getD_none, Spec.testv]
  intro hall
  rw [List.all_eq_true] at hall
  have := hall (o, l, spec) hv
  simp only [Spec.read, pread, List.drop_nil, List.take_nil, beq_iff_eq] at this
  exact hne this.symm

example : Spec.evalTests [] [(3, { testv := [(0, 2, [7, 7])], datav := [(0, [1])], newLength := none })] = false := by decide

/-- shares the request does not name are not touched by its write phase (byte-identical files) -/
theorem unnamed_shares_untouched_by_writes (nodeid we : Bytes) (b : Bucket) (tw : List (Nat × TW)) (n : Nat)
    (hn : n ∉ tw.map (·.1)) : lookup (evalWrites nodeid we b tw []).1 n = lookup b n :=
  evalWrites_untouched nodeid we tw b [] n hn

/-- **shares the request does not name are untouched by the whole request** — test, write AND lease phase (the lease
    renewal only visits the shares the request wrote, `evalWrites_rem_subset`): the file of every other share of the
    storage index is byte-for-byte the same afterwards, whatever the outcome, on the repaired and the unrepaired server -/
theorem unnamed_shares_untouched (env : Env) (b : Bucket) (we renew cancel : Bytes) (tw : List (Nat × TW))
    (rv : List (Nat × Nat)) (rl : Bool) (n : Nat) (hn : n ∉ tw.map (·.1)) :
    lookup (rtw env b we renew cancel tw rv rl).bucket n = lookup b n :=
  rtw_untouched env b we renew cancel tw rv rl n hn

set_option maxRecDepth 20000 in
/-- non-vacuity: a request naming share 1 on a bucket that holds share 0; share 0's file is the same, share 1 appears -/
example :
    let env : Env := { h := id, nodeid := zeros 20, now := 5, avail := 1000, precheck := true }
    let b : Bucket := [(0, create .v2 (zeros 20) (zeros 32))]
    let r := rtw env b (zeros 32) (zeros 32) (zeros 32) [(1, { testv := [], datav := [(0, [9])], newLength := none })] [] true
    lookup r.bucket 0 = lookup b 0 ∧ (lookup r.bucket 1).isSome = true ∧ r.err = none := by
  decide

/-- the storage index used by the negation witness: empty; the request names two new shares, the
    second with a write vector at offset `MAX_SIZE` -/
def cexRequest : List (Nat × TW) :=
  [(0, { testv := [], datav := [(0, [88, 88, 88, 88])], newLength := none }),
   (1, { testv := [], datav := [(MAX_SIZE, [89])], newLength := none })]

def cexEnv : Env := { h := id, nodeid := zeros 20, now := 0, avail := 0, precheck := false }

set_option maxRecDepth 20000 in
/-- **negation witness for the unchanged tree** (`precheck = false`): the request `cexRequest` on an
    empty storage index raises `DataTooLargeError`, yet share 0 has been created and written and
    share 1 has been created empty — some writes applied, not all.  (Observed identically on the real
    `StorageServer`: harness/props/c24.py, corpus case `partial-write`.) -/
theorem all_or_nothing_counterexample :
    (rtw cexEnv [] (zeros 32) [] [] cexRequest [] false).err = some .dataTooLarge ∧
    (rtw cexEnv [] (zeros 32) [] [] cexRequest [] false).bucket ≠ [] ∧
    absBucket (rtw cexEnv [] (zeros 32) [] [] cexRequest [] false).bucket = [(0, [88, 88, 88, 88]), (1, [])] := by
  decide

/-- the repaired server refuses the same request without touching anything -/
theorem counterexample_repaired :
    (rtw { cexEnv with precheck := true } [] (zeros 32) [] [] cexRequest [] false).err = some .dataTooLarge ∧
    (rtw { cexEnv with precheck := true } [] (zeros 32) [] [] cexRequest [] false).bucket = [] := by
  decide

end Tahoe.C24
