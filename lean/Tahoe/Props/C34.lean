import Tahoe.Introducer.Lemmas
/-!
C34 — Introducer announcements are authentic and fresh.

Statements are about `Tahoe.Introducer.gotStream` / `gotBatch` / `processAnn` / `gotEvents` /
`gotStreamS`, the model of `IntroducerClient.got_announcements` (the repaired batch loop:
`fixes/C34-batch-except.diff`, committed in /repo), `_process_announcement`, `subscribe_to` and of
`unsign_from_foolscap` with key strings decoded to verifying keys; 11 theorems, tied to the code by
`harness/props/c34.py`.
-/
/-!
## Coverage of the statement

| clause of C34 | proved for the model by |
|---|---|
| a client accepts an announcement only if its signature verifies | `accepted_implies_verified_and_attributed` (every stored and every delivered announcement; the signature verifies for exactly the message bytes that decode to it — seed C34-a) |
| and attributes it to the key that signed it | same theorem (filed under the verifying key and the announcement's own service name), `accepted_implies_signed_by_key_owner` (under `Unforgeable`), `respelling_is_irrelevant` (identity is the verifying key, not the spelling of the key string — seed C34-c) |
| for each (service, key) it never replaces a stored announcement with one carrying an equal or lower sequence number, whatever stream it receives | `replace_requires_higher_seqnum` (one step, any state: also missing / non-integer new seqnums cannot replace a numbered one — seed C34-b), `seqnum_monotone` (any stream of batches), `seqnum_rule_per_verifying_key` (whatever spellings the stream uses) |
| (table size) the rule holds however many (service, key) pairs the client has seen | the same theorems: `State.store` is an unbounded list, nothing is ever evicted (`processAnn` only adds or replaces), so `seqnum_monotone` covers streams with any number of distinct keys; an implementation that forgets entries (seed C34-e, 256) disagrees with the model on the final table and is flagged by the monitor on the replay it then accepts — corpus history with 2 victims + 257 one-shot keys in `harness/props/c34.py` |
| a bad announcement does not stop the others in the same batch | `bad_one_does_not_stop_batch`, `batch_is_sequential` — for the repaired loop (`fixes/C34-batch-except.diff`, committed in /repo) |
| quantifier: seeded streams from several keys: valid, forged, replayed, reordered, missing / non-integer seqnums | theorems are over arbitrary lists of batches of arbitrary wire tuples |

Assumed, not proved: Ed25519 (`Unforgeable`); UTF-8 / JSON decoding and the reads made of the
decoded object (parameter `parse`); base32 / key decoding (parameter `dec`).  Late `subscribe_to` is
modelled (`gotEvents`): `accepted_implies_verified_with_subscriptions`,
`late_subscriber_is_told_the_stored_announcements`, `seqnum_monotone_with_subscriptions`.
Not modelled: the announcement cache file (`_load_announcements` delivers the locally cached
announcements without re-verifying them when the introducer cannot be reached), announcements
containing NaN.
-/
namespace Tahoe.C34
open Tahoe.Introducer
open Tahoe.GridManager (SymSig symVerify Unforgeable)

variable {PK Sig Msg : Type}

/-- An announcement is accepted (stored, or delivered to a subscriber) only if its signature
    verified, and it is attributed to the key that verified it: starting from the empty client,
    after any stream of batches every delivered `(key, ann)` and every stored
    `((service, key), ann)` arrived in a tuple claiming `key` whose signature verifies under `key`
    for the bytes that decode to `ann` (and is filed under `ann`'s own service name). -/
theorem accepted_implies_verified_and_attributed [DecidableEq PK]
    (verify : PK → Sig → Msg → Bool) (parse : Msg → Option Ann) (subs : List Nat)
    (batches : List (List (Wire PK Sig Msg))) :
    Authentic verify parse batches.flatten (gotStream verify parse subs ⟨[], []⟩ batches) := by
  rw [gotStream_eq_flatten]
  have := authentic_batch verify parse subs [] ⟨[], []⟩ batches.flatten
    ⟨by simp, by simp⟩
  simpa using this

/-- With unforgeable signatures, "verified" means: signed by the owner of the key it is
    attributed to, on exactly those message bytes. -/
theorem accepted_implies_signed_by_key_owner [DecidableEq PK] {SK : Type}
    (pub : SK → PK) (sign : SK → Msg → Sig) (verify : PK → Sig → Msg → Bool)
    (hunf : Unforgeable pub sign verify) (parse : Msg → Option Ann) (subs : List Nat)
    (batches : List (List (Wire PK Sig Msg))) (k : PK) (ann : Ann)
    (h : (k, ann) ∈ (gotStream verify parse subs ⟨[], []⟩ batches).delivered) :
    ∃ sk msg, pub sk = k ∧ parse msg = some ann ∧
      Wire.tuple msg (.bytes (sign sk msg)) (.key k) ∈ batches.flatten := by
  obtain ⟨msg, s, hm, hv, hp⟩ :=
    (accepted_implies_verified_and_attributed verify parse subs batches).1 _ h
  obtain ⟨sk, hsk, hs⟩ := hunf.sound k s msg hv
  exact ⟨sk, msg, hsk, hp, hs ▸ hm⟩

/-- symbolic instance: key 2's announcement with a signature by key 1 is not delivered, key 1's is -/
example :
    let parse : Nat → Option Ann := fun m => some ⟨m, .name 0, false, .int 5⟩
    (gotStream symVerify parse [0] ⟨[], []⟩
      [[.tuple 7 (.bytes (.signed 1 7)) (.key 2), .tuple 8 (.bytes (.signed 1 8)) (.key 1)]]).delivered
      = [(1, ⟨8, .name 0, false, .int 5⟩)] := by decide

/-- One step never replaces a stored announcement by one with an equal or lower sequence number:
    for every state, index and stored `old`, after processing any verified announcement the index
    still holds `old`, or it holds the new announcement and then `old` had no `seqnum` at all, or the
    new `seqnum` is an integer `n` for which `n <= old["seqnum"]` evaluated to `False`. -/
theorem replace_requires_higher_seqnum [DecidableEq PK] (subs : List Nat) (st : State PK)
    (ann : Ann) (key : PK) (idx : Index PK) (old : Ann) (hold : lookup idx st.store = some old) :
    lookup idx (processAnn subs st ann key).2.store = some old ∨
    (lookup idx (processAnn subs st ann key).2.store = some ann ∧ idx.2 = key ∧
      (old.seq = .absent ∨ ∃ n, ann.seq = .int n ∧ leOld n old.seq = some false)) :=
  processAnn_lookup subs st ann key idx old hold

example : (processAnn [0] (⟨[((0, 1), ⟨3, .name 0, false, .int 5⟩)], []⟩ : State Nat)
    ⟨4, .name 0, false, .int 5⟩ 1).1 = .oldSeqnum ∧
    (processAnn [0] (⟨[((0, 1), ⟨3, .name 0, false, .int 5⟩)], []⟩ : State Nat)
    ⟨4, .name 0, false, .int 6⟩ 1).1 = .update := by decide

/-- Per index, over any stream (forged, replayed, reordered, malformed — any list of batches of any
    wire tuples): once an index holds an announcement `a` with integer sequence number `m`, then
    after any further stream it holds either `a` itself or an announcement whose sequence number is
    an integer strictly greater than `m`. -/
theorem seqnum_monotone [DecidableEq PK] (verify : PK → Sig → Msg → Bool)
    (parse : Msg → Option Ann) (subs : List Nat) (st : State PK)
    (batches : List (List (Wire PK Sig Msg))) (idx : Index PK) (a : Ann) (m : Int)
    (hst : lookup idx st.store = some a) (ha : a.seq = .int m) :
    ∃ b n, lookup idx (gotStream verify parse subs st batches).store = some b ∧ b.seq = .int n ∧
      (b = a ∨ m < n) := by
  rw [gotStream_eq_flatten]
  have key : ∀ (ws : List (Wire PK Sig Msg)) (st : State PK),
      (∃ b n, lookup idx st.store = some b ∧ b.seq = .int n ∧ (b = a ∨ m < n)) →
      ∃ b n, lookup idx (gotBatch verify parse subs st ws).store = some b ∧ b.seq = .int n ∧
        (b = a ∨ m < n) := by
    intro ws
    induction ws with
    | nil => intro st h; exact h
    | cons w ws ih =>
      intro st h
      exact ih _ (seq_mono_one verify parse subs st w idx a m ha h)
  exact key _ st ⟨a, m, hst, ha, Or.inl rfl⟩

/-- replay of seqnum 5 and a lower seqnum 4 after 7 was accepted: index (0,1) keeps the 7 -/
example :
    let parse : Nat → Option Ann := fun m => some ⟨m, .name 0, false, .int m⟩
    let w : Nat → Wire Nat SymSig Nat := fun m => .tuple m (.bytes (.signed 1 m)) (.key 1)
    lookup (0, 1) (gotStream symVerify parse [0] ⟨[], []⟩ [[w 5, w 7], [w 5, w 4]]).store
      = some ⟨7, .name 0, false, .int 7⟩ := by decide

/-- The sequence-number rule is applied per *verifying key*, not per spelling of the key string:
    whatever decoding `dec` of key strings is in force, and however the tuples of the further stream
    spell their keys, once the index `(service, k)` of verifying key `k` holds an announcement with
    integer sequence number `m` it afterwards holds that announcement or one with a strictly greater
    integer sequence number. -/
theorem seqnum_rule_per_verifying_key {Sp : Type} [DecidableEq PK] (dec : Sp → KeyField PK)
    (verify : PK → Sig → Msg → Bool) (parse : Msg → Option Ann) (subs : List Nat) (st : State PK)
    (batches : List (List (SpelledWire Sp Sig Msg))) (svc : Nat) (k : PK) (a : Ann) (m : Int)
    (hst : lookup (svc, k) st.store = some a) (ha : a.seq = .int m) :
    ∃ b n, lookup (svc, k) (gotStreamS dec verify parse subs st batches).store = some b ∧
      b.seq = .int n ∧ (b = a ∨ m < n) :=
  seqnum_monotone verify parse subs st _ (svc, k) a m hst ha

/-- Re-spelling key strings without changing the key they decode to changes nothing: the client's
    state is a function of the decoded verifying keys only. -/
theorem respelling_is_irrelevant {Sp : Type} [DecidableEq PK] (dec : Sp → KeyField PK) (ren : Sp → Sp)
    (hren : ∀ sp, dec (ren sp) = dec sp)
    (verify : PK → Sig → Msg → Bool) (parse : Msg → Option Ann) (subs : List Nat) (st : State PK)
    (batches : List (List (SpelledWire Sp Sig Msg))) :
    gotStreamS dec verify parse subs st (batches.map (fun b => b.map (respell ren))) =
      gotStreamS dec verify parse subs st batches := by
  unfold gotStreamS
  rw [map_decode_respell dec ren hren]

/-- spellings are strings; "K1" decodes to key 1 and so does "k1" (a liberal decoder, as in seed
    C34-c): seqnum 5 arrives under "k1", then a stale seqnum 4 under "K1" — refused, one identity.
    With the strict decoder of the unchanged tree "K1" is not base32 and the tuple is skipped. -/
example :
    let parse : Nat → Option Ann := fun m => some ⟨m, .name 0, false, .int m⟩
    let liberal : String → KeyField Nat := fun s => if s = "k1" ∨ s = "K1" then .key 1 else .badB32
    let strict : String → KeyField Nat := fun s => if s = "k1" then .key 1 else .badB32
    let ws : List (List (SpelledWire String SymSig Nat)) :=
      [[.tuple 5 (.bytes (.signed 1 5)) "k1"], [.tuple 4 (.bytes (.signed 1 4)) "K1"]]
    (gotStreamS liberal symVerify parse [0] ⟨[], []⟩ ws).store = [((0, 1), ⟨5, .name 0, false, .int 5⟩)] ∧
    (gotStreamS strict symVerify parse [0] ⟨[], []⟩ ws).store = [((0, 1), ⟨5, .name 0, false, .int 5⟩)] ∧
    (∀ sp, liberal ((fun s => if s = "K1" then "k1" else s) sp) = liberal sp) := by
  refine ⟨by decide, by decide, ?_⟩
  intro sp
  by_cases h : sp = "K1" <;> simp [h]

/-- Authenticity over whole client histories — `got_announcements` calls interleaved with
    `subscribe_to` calls at any time: everything stored and every notification (including the
    replays a late subscription triggers) is an announcement that arrived with a signature verifying
    under the key it is attributed to. -/
theorem accepted_implies_verified_with_subscriptions [DecidableEq PK]
    (verify : PK → Sig → Msg → Bool) (parse : Msg → Option Ann) (subs : List Nat)
    (evs : List (Ev PK Sig Msg)) :
    Authentic verify parse (wiresOf evs) (gotEvents verify parse subs ⟨[], []⟩ evs).2 := by
  have := authentic_events verify parse evs subs [] ⟨[], []⟩ ⟨by simp, by simp⟩
  simpa using this

/-- A late subscriber is told exactly what is stored for its service, in table order, and the table
    itself is untouched: the sequence-number state cannot be disturbed by subscribing. -/
theorem late_subscriber_is_told_the_stored_announcements [DecidableEq PK] (svc : Nat) (st : State PK) :
    (subscribeTo svc st).store = st.store ∧
    (subscribeTo svc st).delivered = st.delivered ++
      (st.store.filter (fun e => e.1.1 == svc)).map (fun e => (e.1.2, e.2)) :=
  ⟨rfl, rfl⟩

/-- The sequence-number rule over histories with subscriptions: once an index holds integer
    sequence number `m`, after any further batches and `subscribe_to` calls it holds the same
    announcement or one with a strictly greater integer sequence number. -/
theorem seqnum_monotone_with_subscriptions [DecidableEq PK] (verify : PK → Sig → Msg → Bool)
    (parse : Msg → Option Ann) (subs : List Nat) (st : State PK) (evs : List (Ev PK Sig Msg))
    (idx : Index PK) (a : Ann) (m : Int) (hst : lookup idx st.store = some a) (ha : a.seq = .int m) :
    ∃ b n, lookup idx (gotEvents verify parse subs st evs).2.store = some b ∧ b.seq = .int n ∧
      (b = a ∨ m < n) :=
  seq_mono_events verify parse evs subs st idx a m ha ⟨a, m, hst, ha, Or.inl rfl⟩

/-- service 0 subscribed from the start, key 1 announces seqnum 5 and then 7; a second subscription
    to service 0 re-notifies the stored 7 (not the superseded 5); subscribing to service 3, for
    which nothing could be stored, notifies nothing; the stale 5 afterwards is still refused -/
example :
    let parse : Nat → Option Ann := fun m => some ⟨m, .name 0, false, .int m⟩
    let w : Nat → Wire Nat SymSig Nat := fun m => .tuple m (.bytes (.signed 1 m)) (.key 1)
    let r := gotEvents symVerify parse [0] ⟨[], []⟩
      [.batch [w 5, w 7], .subscribe 0, .subscribe 3, .batch [w 5]]
    r.1 = [0, 0, 3] ∧ r.2.delivered.map (·.2.content) = [5, 7, 7] ∧
    lookup (0, 1) r.2.store = some ⟨7, .name 0, false, .int 7⟩ := by decide

/-- A bad announcement does not stop the others in the same batch (repaired loop): a batch with a
    bad announcement anywhere in it leaves the client in the same state as the batch without it —
    everything before and after it is processed exactly as if it had not been there. -/
theorem bad_one_does_not_stop_batch [DecidableEq PK] (verify : PK → Sig → Msg → Bool)
    (parse : Msg → Option Ann) (subs : List Nat) (st : State PK)
    (pre post : List (Wire PK Sig Msg)) (bad : Wire PK Sig Msg)
    (hbad : Bad verify parse subs (gotBatch verify parse subs st pre) bad) :
    gotBatch verify parse subs st (pre ++ bad :: post) = gotBatch verify parse subs st (pre ++ post) := by
  rw [gotBatch_append, gotBatch_append]
  have : (gotOne verify parse subs (gotBatch verify parse subs st pre) bad).2
      = gotBatch verify parse subs st pre := by
    unfold gotOne
    rcases hbad with ⟨e, he⟩ | ⟨ann, k, hu, hr⟩
    · rw [he]
    · rw [hu]; exact raised_keeps_state subs _ ann k hr
  simp [gotBatch, this]

/-- and a batch is nothing but its announcements one after the other -/
theorem batch_is_sequential [DecidableEq PK] (verify : PK → Sig → Msg → Bool)
    (parse : Msg → Option Ann) (subs : List Nat) (st : State PK) (a b : List (Wire PK Sig Msg)) :
    gotBatch verify parse subs st (a ++ b) =
      gotBatch verify parse subs (gotBatch verify parse subs st a) b :=
  gotBatch_append verify parse subs st a b

/-- symbolic instance: a tuple without the `v0-` signature prefix (UnknownKeyError in the code) and
    a correctly signed message that is not JSON, in front of a good announcement — which is
    delivered all the same -/
example :
    let parse : Nat → Option Ann := fun m => if m = 9 then none else some ⟨m, .name 0, false, .int 1⟩
    let ws : List (Wire Nat SymSig Nat) :=
      [.tuple 3 .noPrefix (.key 1), .tuple 9 (.bytes (.signed 1 9)) (.key 1),
       .tuple 4 (.bytes (.signed 1 4)) (.key 1)]
    Bad symVerify parse [0] ⟨[], []⟩ ws[0] ∧ Bad symVerify parse [0] ⟨[], []⟩ ws[1] ∧
    (gotBatch symVerify parse [0] ⟨[], []⟩ ws).delivered = [(1, ⟨4, .name 0, false, .int 1⟩)] := by
  refine ⟨Or.inl ⟨.unknownKey, rfl⟩, Or.inl ⟨.json, rfl⟩, by decide⟩

end Tahoe.C34
