import Tahoe.Spans.Lemmas
import Tahoe.Spans.DataLemmas
import Tahoe.Spans.RegLemmas
/-! C37 — byte-range bookkeeping is exact (property theorems; helper lemmas live in
`Tahoe/Spans/Lemmas.lean` and `Tahoe/Spans/DataLemmas.lean`).

Part 1: `Spans` behaves like a set of integers.  `WF` is the class invariant checked by `_check`
(sorted, positive lengths, a gap between consecutive spans); `mem s x` is "x is in the set". -/
namespace Tahoe.C37
open Tahoe.Spans

/-! ### Spans.remove -/

/-- removing `[a, a+l)` from one span removes exactly those points -/
theorem mem_removeOne (sp : Span) (a l x : Nat) :
    mem (removeOne sp a l) x = (mem [sp] x && !(a ≤ x && x < a + l)) :=
  Tahoe.Spans.mem_removeOne sp a l x

/-- `remove` acts pointwise like set difference, for every span list (no invariant needed) -/
theorem mem_remove (s : List Span) (a l x : Nat) :
    mem (remove s a l) x = (mem s x && !(a ≤ x && x < a + l)) :=
  Tahoe.Spans.mem_remove s a l x

example : mem (remove [(0, 10)] 3 4) 5 = false ∧ mem (remove [(0, 10)] 3 4) 7 = true := by decide

/-- `remove` preserves the class invariant -/
theorem wf_remove (s : List Span) (a l : Nat) (h : WF s) : WF (remove s a l) :=
  chain_wf (remove_chain ((wf_iff_chain s).1 h))

example : WF [(0, 4), (6, 4), (12, 4)] ∧ remove [(0, 4), (6, 4), (12, 4)] 2 11 = [(0, 2), (13, 3)] :=
  ⟨by simp [WF], by decide⟩

/-! ### Spans.add -/

/-- `add` preserves the class invariant (the code asserts `length > 0`) -/
theorem wf_add (s : List Span) (a l : Nat) (h : WF s) (hl : 0 < l) : WF (add s a l) :=
  chain_wf (add_chain (a := a) hl ((wf_iff_chain s).1 h))

/-- `add` acts pointwise like set union with `[a, a+l)` -/
theorem mem_add (s : List Span) (a l x : Nat) (h : WF s) :
    mem (add s a l) x = (mem s x || (a ≤ x && x < a + l)) :=
  add_mem x ((wf_iff_chain s).1 h)

example : WF [(0, 4), (6, 4), (12, 4)] ∧ add [(0, 4), (6, 4), (12, 4)] 4 2 = [(0, 10), (12, 4)] ∧
    add [(0, 4), (6, 4), (12, 4)] 11 1 = [(0, 4), (6, 4), (11, 5)] :=
  ⟨by simp [WF], by decide, by decide⟩

/-! ### `(start, length) in spans` and `len()` -/

/-- `__contains__` answers true exactly when every point of the (non-empty) range is a member -/
theorem containsRange_iff_forall_mem (s : List Span) (a l : Nat) (h : WF s) (hl : 0 < l) :
    containsRange s a l = true ↔ ∀ x, a ≤ x → x < a + l → mem s x = true :=
  containsRange_iff hl ((wf_iff_chain s).1 h)

example : WF [(0, 4), (5, 4)] ∧ containsRange [(0, 4), (5, 4)] 5 4 = true ∧ containsRange [(0, 4), (5, 4)] 3 2 = false :=
  ⟨by simp [WF], by decide, by decide⟩

/-- `len()` is the number of members (counted below any bound `N` that is beyond every span) -/
theorem len_eq_card (s : List Span) (N : Nat) (h : WF s) (hN : ∀ sp ∈ s, sp.1 + sp.2 ≤ N) :
    len s = ((List.range N).filter (mem s)).length := by
  rw [← List.countP_eq_length_filter]
  exact len_eq_count ((wf_iff_chain s).1 h) hN

/-- nothing is a member at or beyond such a bound, so the count above is the size of the whole set -/
theorem mem_lt_bound (s : List Span) (N x : Nat) (hN : ∀ sp ∈ s, sp.1 + sp.2 ≤ N) (hx : mem s x = true) :
    x < N := by
  simp only [mem, List.any_eq_true, Bool.and_eq_true, decide_eq_true_eq] at hx
  obtain ⟨sp, hsp, _, h2⟩ := hx
  have := hN sp hsp; omega

example : WF [(0, 4), (6, 4)] ∧ (∀ sp ∈ [((0, 4) : Span), (6, 4)], sp.1 + sp.2 ≤ 10) ∧
    len [(0, 4), (6, 4)] = ((List.range 10).filter (mem [(0, 4), (6, 4)])).length :=
  ⟨by simp [WF], by decide, by decide⟩

/-! ### `self & other` -/

/-- `__and__` (`self - (bounds - other)`, bounds built with the *end* passed as length) is pointwise `&&`.
Only the invariant of `self` is needed. -/
theorem mem_inter (s o : List Span) (x : Nat) (h : WF s) :
    mem (inter s o) x = (mem s x && mem o x) :=
  inter_mem o x ((wf_iff_chain s).1 h)

/-- `__and__` preserves the class invariant -/
theorem wf_inter (s o : List Span) (h : WF s) : WF (inter s o) :=
  chain_wf (inter_chain o ((wf_iff_chain s).1 h))

example : WF [(2, 6), (10, 3)] ∧ inter [(2, 6), (10, 3)] [(0, 4), (7, 4)] = [(2, 2), (7, 1), (10, 1)] :=
  ⟨by simp [WF], by decide⟩

/-! ### `+`, `-` (and `+=`, `-=`): fold of add / remove over the spans of `other` -/

/-- `self + other` is pointwise `||` and keeps the invariant -/
theorem mem_addAll (s o : List Span) (x : Nat) (h : WF s) (ho : WF o) :
    WF (addAll s o) ∧ mem (addAll s o) x = (mem s x || mem o x) := by
  have hpos := chain_pos ((wf_iff_chain o).1 ho)
  obtain ⟨h1, h2⟩ := Tahoe.Spans.mem_addAll s o x ((wf_iff_chain s).1 h) hpos
  exact ⟨chain_wf h1, by rw [h2]; rfl⟩

/-- `self - other` is pointwise "and not" and keeps the invariant -/
theorem mem_removeAll (s o : List Span) (x : Nat) (h : WF s) :
    WF (removeAll s o) ∧ mem (removeAll s o) x = (mem s x && !mem o x) :=
  ⟨chain_wf (removeAll_chain o ((wf_iff_chain s).1 h)), Tahoe.Spans.mem_removeAll s o x⟩

example : addAll [(0, 2)] [(2, 2), (10, 1)] = [(0, 4), (10, 1)] ∧
    removeAll [(0, 12)] [(2, 2), (10, 1)] = [(0, 2), (4, 6), (11, 1)] := by decide

/-! ### histories -/

/-- Any history of `add` / `remove` / `&` with valid arguments, from the empty set: the invariant
holds at the end and membership is the fold of the set semantics (`opSem`) over the history. -/
theorem spans_history (ops : List Op) (hv : ∀ op ∈ ops, op.valid) :
    WF (run [] ops) ∧ ∀ x, mem (run [] ops) x = ops.foldl opSem (fun _ => false) x := by
  obtain ⟨h1, h2⟩ := run_spec (s := []) ops hv trivial
  refine ⟨chain_wf h1, fun x => ?_⟩
  rw [h2]
  have : mem [] = fun _ => false := by funext y; simp [mem]
  rw [this]

example : (∀ op ∈ [Op.add 3 4, Op.add 10 2, Op.remove 5 6, Op.inter [(0, 4), (11, 5)]], op.valid) ∧
    run [] [Op.add 3 4, Op.add 10 2, Op.remove 5 6, Op.inter [(0, 4), (11, 5)]] = [(3, 1), (11, 1)] := by
  refine ⟨?_, by decide⟩
  intro op hop
  simp only [List.mem_cons, List.mem_nil_iff, or_false] at hop
  rcases hop with rfl | rfl | rfl | rfl <;> simp [Op.valid, WF]

/-! ## Part 2: `DataSpans` behaves like a partial map offset ↦ byte (later writes win).

`DInv` is the class invariant (sorted, non-empty chunks, at least one free offset between chunks —
so non-adjacent and non-overlapping); `byteAt s x` is the byte stored at offset `x`, if any. -/

/-- `add` preserves the invariant (for any data, including empty) -/
theorem dinv_add (s : List Chunk) (off : Nat) (data : List UInt8) (h : DInv s) : DInv (dadd s off data) :=
  (dadd_spec off data h).1

/-- `add` overwrites exactly the range `[off, off+len)` with `data` and leaves every other offset alone -/
theorem byteAt_add (s : List Chunk) (off : Nat) (data : List UInt8) (x : Nat) (h : DInv s) :
    byteAt (dadd s off data) x =
      if off ≤ x ∧ x < off + data.length then data[x - off]? else byteAt s x :=
  (dadd_spec off data h).2 x

example : DInv [(0, [1, 2, 3]), (5, [9]), (8, [4, 4])] ∧
    dadd [(0, [1, 2, 3]), (5, [9]), (8, [4, 4])] 2 [7, 7, 7, 7, 7] = [(0, [1, 2, 7, 7, 7, 7, 7]), (8, [4, 4])] ∧
    dadd [(0, [1, 2, 3]), (5, [9]), (8, [4, 4])] 4 [6] = [(0, [1, 2, 3]), (4, [6, 9]), (8, [4, 4])] :=
  ⟨by simp [DInv, DChain], by decide, by decide⟩

/-- the code's own `assert_invariants()` never fires on a state that satisfies the invariant -/
theorem assertOk_of_inv (s : List Chunk) (h : DInv s) : assertOk s = true :=
  assertOk_of_chain h

/-- `remove` preserves the invariant -/
theorem dinv_remove (s : List Chunk) (a l : Nat) (h : DInv s) : DInv (dremove a l s) :=
  (dremove_spec a l h).1

/-- `remove` clears exactly the range `[a, a+l)` -/
theorem byteAt_remove (s : List Chunk) (a l x : Nat) (h : DInv s) :
    byteAt (dremove a l s) x = if a ≤ x ∧ x < a + l then none else byteAt s x :=
  (dremove_spec a l h).2 x

example : DInv [(0, [1, 2, 3, 4, 5]), (7, [9])] ∧
    dremove 1 2 [(0, [1, 2, 3, 4, 5]), (7, [9])] = [(0, [1]), (3, [4, 5]), (7, [9])] ∧
    dremove 3 5 [(0, [1, 2, 3, 4, 5]), (7, [9])] = [(0, [1, 2, 3])] :=
  ⟨by simp [DInv, DChain], by decide, by decide⟩

/-- `get` answers (something other than `None`) exactly when every offset of the non-empty range is present -/
theorem get_isSome_iff (s : List Chunk) (a l : Nat) (h : DInv s) (hl : 0 < l) :
    (dget a l s).isSome = true ↔ ∀ x, a ≤ x → x < a + l → (byteAt s x).isSome = true :=
  dget_isSome_iff h hl

/-- and then it returns exactly the `l` stored bytes of the range -/
theorem get_some_bytes (s : List Chunk) (a l : Nat) (bs : List UInt8) (h : DInv s) (hg : dget a l s = some bs) :
    bs.length = l ∧ ∀ i, i < l → byteAt s (a + i) = bs[i]? :=
  dget_some h hg

example : DInv [(0, [1, 2, 3, 4, 5]), (7, [9])] ∧ dget 1 3 [(0, [1, 2, 3, 4, 5]), (7, [9])] = some [2, 3, 4] ∧
    dget 4 2 [(0, [1, 2, 3, 4, 5]), (7, [9])] = none ∧ dget 6 1 [(0, [1, 2, 3, 4, 5]), (7, [9])] = none :=
  ⟨by simp [DInv, DChain], by decide, by decide, by decide⟩

/-- `pop` returns what `get` returns; it clears the range exactly when `get` answered, and keeps the invariant.
(The code tests `if data:`; an empty answer only occurs for `l = 0`, where clearing is a no-op anyway.) -/
theorem pop_spec (s : List Chunk) (a l : Nat) (h : DInv s) :
    (dpop s a l).1 = dget a l s ∧ DInv (dpop s a l).2 ∧
    ∀ x, byteAt (dpop s a l).2 x =
      if (dget a l s).isSome = true ∧ a ≤ x ∧ x < a + l then none else byteAt s x :=
  ⟨dpop_fst s a l, (dpop_spec a l h).1, (dpop_spec a l h).2⟩

example : DInv [(0, [1, 2, 3, 4, 5])] ∧ dpop [(0, [1, 2, 3, 4, 5])] 1 2 = (some [2, 3], [(0, [1]), (3, [4, 5])]) ∧
    dpop [(0, [1, 2, 3, 4, 5])] 4 2 = (none, [(0, [1, 2, 3, 4, 5])]) :=
  ⟨by simp [DInv, DChain], by decide, by decide⟩

/-- `len()` is the number of stored offsets (counted below any bound `N` beyond every chunk) -/
theorem dlen_eq_card (s : List Chunk) (N : Nat) (h : DInv s) (hN : ∀ c ∈ s, c.1 + c.2.length ≤ N) :
    dlen s = ((List.range N).filter (fun x => (byteAt s x).isSome)).length := by
  rw [← List.countP_eq_length_filter]
  exact dlen_eq_count h.toW hN

/-- `get_spans()` is a well-formed `Spans` whose members are exactly the stored offsets -/
theorem getSpans_mem (s : List Chunk) (x : Nat) (h : DInv s) :
    WF (getSpans s) ∧ mem (getSpans s) x = (byteAt s x).isSome :=
  ⟨chain_wf (getSpans_spec h x).1, (getSpans_spec h x).2⟩

example : DInv [(0, [1, 2, 3]), (5, [9])] ∧ dlen [(0, [1, 2, 3]), (5, [9])] = 4 ∧
    getSpans [(0, [1, 2, 3]), (5, [9])] = [(0, 3), (5, 1)] ∧ assertOk [(0, [1, 2, 3]), (5, [9])] = true :=
  ⟨by simp [DInv, DChain], by decide, by decide, by decide⟩

/-- Any history of `add` / `remove` / `pop` from the empty buffer: the invariant holds at the end and the
stored bytes are the fold of the partial-map semantics (`dopSem`: later writes win) over the history.
`get`, `len`, `get_spans` do not change the state; the theorems above apply to them at every such state. -/
theorem dspans_history (ops : List DOp) :
    DInv (drun [] ops) ∧ ∀ x, byteAt (drun [] ops) x = ops.foldl dopSem (fun _ => none) x := by
  obtain ⟨h1, h2⟩ := drun_spec (s := []) ops trivial
  refine ⟨h1, fun x => ?_⟩
  rw [h2]
  rfl

example : drun [] [DOp.add 0 [1, 2, 3, 4], DOp.add 6 [8, 8], DOp.add 3 [5, 5, 5], DOp.pop 1 2, DOp.remove 7 1] =
    [(0, [1]), (3, [5, 5, 5, 8])] := by decide

/-! ## Part 3: named values.  Value-returning operations (`&`, `-`, `+`, the copy constructors,
`get_spans()`) produce a value of their own: in the model (`RegModel.lean`: registers `r0, r1, …` of `Spans`,
`d0, d1, …` of `DataSpans`) an operation changes the register it writes and no other — this is the spec the
correspondence check holds the real objects to after every step (a result that is the same object as an
operand would change together with it). -/

/-- an operation changes no `Spans` register other than the one it writes -/
theorem rstep_frame_r (st : RState) (op : ROp) (j : Nat) (h : op.rTarget ≠ some j) :
    (rstep st op).r j = st.r j :=
  rstep_r_frame st op j h

/-- an operation changes no `DataSpans` register other than the one it writes -/
theorem rstep_frame_d (st : RState) (op : ROp) (j : Nat) (h : op.dTarget ≠ some j) :
    (rstep st op).d j = st.d j :=
  rstep_d_frame st op j h

/-- in particular: after `r2 = r0 - r1` (or `&`, `+`, copy), an in-place `add`/`remove` on the result leaves both
operands as they were, whatever the operands are (empty, equal, superset, the same register twice) -/
theorem result_then_mutate_keeps_operands (st : RState) (i j k a l : Nat) (hi : i ≠ k) (hj : j ≠ k) :
    (rrun st [.sub k i j, .add k a l]).r i = st.r i ∧ (rrun st [.sub k i j, .add k a l]).r j = st.r j ∧
    (rrun st [.and k i j, .rm k a l]).r i = st.r i ∧ (rrun st [.and k i j, .rm k a l]).r j = st.r j := by
  simp only [rrun, List.foldl_cons, List.foldl_nil, rstep]
  simp only [upd, if_neg hi, if_neg hj]
  exact ⟨trivial, trivial, trivial, trivial⟩

example : let st := rrun RState.empty [.set 0 [(0, 4), (6, 4)], .sub 2 0 1, .add 2 20 2, .single 1 0 50, .and 3 0 1, .rm 3 0 2]
    st.r 0 = [(0, 4), (6, 4)] ∧ st.r 2 = [(0, 4), (6, 4), (20, 2)] ∧ st.r 3 = [(2, 2), (6, 4)] := by decide

/-- `Spans(other)` returns an equal value -/
theorem spCopy_eq_self (s : List Span) (h : WF s) : spCopy s = s :=
  spCopy_eq ((wf_iff_chain s).1 h)

/-- the operators as written (with the copies they make) are the folds / the intersection of Part 1, so
`mem_addAll`, `mem_removeAll`, `mem_inter` describe them -/
theorem operators_eq (s o : List Span) (h : WF s) :
    spOr s o = addAll s o ∧ spSub s o = removeAll s o ∧ spAnd s o = inter s o :=
  have hc := (wf_iff_chain s).1 h
  ⟨spOr_eq o hc, spSub_eq o hc, spAnd_eq o hc⟩

example : WF [(2, 6), (10, 3)] ∧ spAnd [(2, 6), (10, 3)] [(0, 4), (7, 4)] = [(2, 2), (7, 1), (10, 1)] ∧
    spSub [(2, 6), (10, 3)] [] = [(2, 6), (10, 3)] ∧ spCopy [(2, 6), (10, 3)] = [(2, 6), (10, 3)] :=
  ⟨by simp [WF], by decide, by decide, by decide⟩

/-- `DataSpans(other)` returns an equal value: the invariant holds and every offset maps to the same byte -/
theorem dCopy_byteAt (s : List Chunk) (x : Nat) (h : DInv s) : DInv (dCopy s) ∧ byteAt (dCopy s) x = byteAt s x :=
  ⟨(dCopy_spec h).1, (dCopy_spec h).2 x⟩

example : DInv [(0, [1, 2, 3]), (5, [9])] ∧ dCopy [(0, [1, 2, 3]), (5, [9])] = [(0, [1, 2, 3]), (5, [9])] :=
  ⟨by simp [DInv, DChain], by decide⟩

end Tahoe.C37
