import Tahoe.Spans.Model
/-! C37 — byte-range bookkeeping is exact (property theorems; helper lemmas live elsewhere). -/
namespace Tahoe.C37
open Tahoe.Spans

/-- removing `[a, a+l)` from one span removes exactly those points -/
theorem mem_removeOne (sp : Span) (a l x : Nat) :
    mem (removeOne sp a l) x = (mem [sp] x && !(a ≤ x && x < a + l)) := by
  obtain ⟨s, n⟩ := sp
  simp only [removeOne, overlap, mem]
  split
  · rename_i h; split at h <;> simp_all <;> grind
  · rename_i os ol h
    split at h
    · simp at h; obtain ⟨h1, h2⟩ := h; subst h1 h2
      split
      · simp_all; grind
      · split
        · simp_all; grind
        · split
          · simp_all; grind
          · simp_all; grind
    · simp at h

/-- `remove` acts pointwise like set difference, for every span list (no invariant needed) -/
theorem mem_remove (s : List Span) (a l x : Nat) :
    mem (remove s a l) x = (mem s x && !(a ≤ x && x < a + l)) := by
  induction s with
  | nil => simp [remove, mem]
  | cons sp rest ih =>
    have h1 := mem_removeOne sp a l x
    simp only [remove, mem, List.flatMap_cons, List.any_append, List.any_cons] at *
    rw [ih, h1]; simp; grind

example : mem (remove [(0, 10)] 3 4) 5 = false ∧ mem (remove [(0, 10)] 3 4) 7 = true := by decide

end Tahoe.C37
