import Tahoe.Spans.Lemmas
import Tahoe.Spans.DataLemmas
import Tahoe.Spans.RegLemmas
import Tahoe.Spans.TraceLemmas
import Tahoe.Spans.CanonLemmas
import Tahoe.Spans.EachLemmas
import Tahoe.Spans.RemoveLemmas
/-! C37 — byte-range bookkeeping is exact (property theorems; helper lemmas live in
`Tahoe/Spans/{Lemmas,DataLemmas,RegLemmas,TraceLemmas,CanonLemmas,EachLemmas,RemoveLemmas}.lean`).

## Coverage of the statement

"The span set and the sparse byte buffer used to plan and assemble share reads behave exactly like a set of
integers and a partial map from offset to byte (later writes win) under any sequence of add, remove,
intersect, get and pop operations."  Models: `Tahoe/Spans/Model.lean` (`Spans`), `DataModel.lean`
(`DataSpans`), `RegModel.lean` (several named objects); all driven by `Drv/C37.lean` and compared with
`util/spans.py` on the internal lists after every operation.

| clause | theorem(s) |
|---|---|
| span set = set of integers under **add** | `mem_add`, `wf_add` |
| … under **remove** | `mem_removeOne`, `mem_remove`, `wf_remove`; the method as written (in-place pass, deferred slice delete, append+sort): `remove_as_written_eq` |
| … under **intersect** (`&`) | `mem_inter`, `wf_inter`; the operator as written, with its copies: `operators_eq` |
| … `+`, `-`, `+=`, `-=` (not named in the statement, used by the callers) | `mem_addAll`, `mem_removeAll`, `operators_eq` |
| queries of the span set: `(s,l) in spans`, `len()` | `containsRange_iff_forall_mem`, `len_eq_card`, `mem_lt_bound` |
| "Spans iteration" (observe_at): iteration yields the span list | `spans_canonical`: the list is determined by the set (so is `dump`) |
| byte buffer = partial map, **later writes win**, under **add** | `byteAt_add`, `dinv_add`, `assertOk_of_inv` |
| buffer stays maximally merged (no two adjacent/overlapping chunks) | `dinv_no_adjacent`, `chunk_is_maximal_run`, `dspans_canonical` |
| … under **remove** | `byteAt_remove`, `dinv_remove` |
| **get** returns the bytes iff every byte of the range is held | `get_isSome_iff`, `get_some_bytes`, `get_eq_specRead` |
| **pop** = get, then clear iff answered | `pop_spec` |
| `len()`, `get_spans()` of the buffer | `dlen_eq_card`, `getSpans_mem` |
| "**exactly like** … under **any sequence**": final state of every history | `spans_history`, `dspans_history` |
| … every *answer* (contains / get / pop) along every history equals the reference machine's | `spans_trace`, `dspans_trace`, `get_after_history` |
| several objects: results of `&`, `-`, `+`, copies are values of their own | model spec `rstep_frame_r`, `rstep_frame_d`, `result_then_mutate_keeps_operands`; for the real objects (aliasing is not expressible in a pure model): correspondence + monitor on named-value histories (`aliased-result:*`) |
| copy constructors `Spans(other)`, `DataSpans(other)` return an equal value | `spCopy_eq_self`, `dCopy_byteAt` |
| `each()` / `_dump()` enumerate exactly the members / held offsets, once each, ascending; `bool()` = non-empty | `each_enumerates_members`, `dump_enumerates_offsets`, `bool_iff_nonempty` |
| `dump()` (debug string), `get_chunks()` returning a fresh list | monitor only (formatting / object identity; no model definition) |
| `get`/`pop` with `length = 0` (outside the statement: a partial map has no answer to prefer) | characterised exactly: `get_pop_zero_length` (`b""` iff the offset is held, else `None`; `pop` never changes the buffer) |
| `a += a`, `a -= a` (operand is the object being mutated; repaired in /repo 13d6c66) | model = fold over a snapshot (`Op.union`/`Op.diff` in `spans_history`); correspondence on named-value histories + monitor probe |
| negative offsets / lengths (Python ints) | not covered (`Nat`; `Spans` asserts `start >= 0`, `length > 0`) |

As built: 43 theorems, none `_partial`, axioms ⊆ {propext, Classical.choice, Quot.sound}.  Every model definition
(`add`, `remove`, `removeLit`, `inter`, `addAll`, `removeAll`, `containsRange`, `len`, `each`, `spBool`, `sstepQ`/`strace`,
`dadd`, `dremove`, `dget`, `dpop`, `dlen`, `dDump`, `dBool`, `getSpans`, `dstepQ`/`dtrace`, `rstep` with `spAnd`/`spSub`/`spOr`/
`spCopy`/`dCopy`) is reached from `Drv/C37.lean` (`spans`, `dspans`, `strace`, `dtrace`, `reg`) and compared with `util/spans.py` by
`harness/props/c37.py`.  Remaining trusted deviations of the transcription: insert/append + sort as ordered insertion, `add`
taking the max of the absorbed ends (the code: the last), loops as structural recursion, `DataSpans.add` case A inlined.
One defect was found and repaired in /repo (13d6c66: `a -= a`); seeded changes C37-a..e are each caught by a fixed-corpus case.

Part 1: `Spans` behaves like a set of integers.  `WF` is the class invariant checked by `_check`
(sorted, positive lengths, a gap between consecutive spans); `mem s x` is "x is in the set". -/
namespace Tahoe.C37
open Tahoe.Spans

/-! ### Spans.remove -/

/-- removing `[a, a+l)` from one span removes exactly those points -/
theorem mem_removeOne (sp : Span) (a l x : Nat) :
    mem (removeOne sp a l) x = (mem [sp] x && !(a ≤ x && x < a + l)) :=
  Tahoe.Spans.mem_removeOne sp a l x

/-- `remove` acts pointwise like set difference, for every span list (no invariant needed) -/
theorem mem_remove (s : List Span) (a l x : Nat) :
    mem (remove s a l) x = (mem s x && !(a ≤ x && x < a + l)) :=
  Tahoe.Spans.mem_remove s a l x

example : mem (remove [(0, 10)] 3 4) 5 = false ∧ mem (remove [(0, 10)] 3 4) 7 = true := by decide

/-- `remove` preserves the class invariant -/
theorem wf_remove (s : List Span) (a l : Nat) (h : WF s) : WF (remove s a l) :=
  chain_wf (remove_chain ((wf_iff_chain s).1 h))

example : WF [(0, 4), (6, 4), (12, 4)] ∧ remove [(0, 4), (6, 4), (12, 4)] 2 11 = [(0, 2), (13, 3)] :=
  ⟨by simp [WF], by decide⟩

/-! ### Spans.add -/

/-- `add` preserves the class invariant (the code asserts `length > 0`) -/
theorem wf_add (s : List Span) (a l : Nat) (h : WF s) (hl : 0 < l) : WF (add s a l) :=
  chain_wf (add_chain (a := a) hl ((wf_iff_chain s).1 h))

/-- `add` acts pointwise like set union with `[a, a+l)` -/
theorem mem_add (s : List Span) (a l x : Nat) (h : WF s) :
    mem (add s a l) x = (mem s x || (a ≤ x && x < a + l)) :=
  add_mem x ((wf_iff_chain s).1 h)

example : WF [(0, 4), (6, 4), (12, 4)] ∧ add [(0, 4), (6, 4), (12, 4)] 4 2 = [(0, 10), (12, 4)] ∧
    add [(0, 4), (6, 4), (12, 4)] 11 1 = [(0, 4), (6, 4), (11, 5)] :=
  ⟨by simp [WF], by decide, by decide⟩

/-! ### `(start, length) in spans` and `len()` -/

/-- `__contains__` answers true exactly when every point of the (non-empty) range is a member -/
theorem containsRange_iff_forall_mem (s : List Span) (a l : Nat) (h : WF s) (hl : 0 < l) :
    containsRange s a l = true ↔ ∀ x, a ≤ x → x < a + l → mem s x = true :=
  containsRange_iff hl ((wf_iff_chain s).1 h)

example : WF [(0, 4), (5, 4)] ∧ containsRange [(0, 4), (5, 4)] 5 4 = true ∧ containsRange [(0, 4), (5, 4)] 3 2 = false :=
  ⟨by simp [WF], by decide, by decide⟩

/-- `len()` is the number of members (counted below any bound `N` that is beyond every span) -/
theorem len_eq_card (s : List Span) (N : Nat) (h : WF s) (hN : ∀ sp ∈ s, sp.1 + sp.2 ≤ N) :
    len s = ((List.range N).filter (mem s)).length := by
  rw [← List.countP_eq_length_filter]
  exact len_eq_count ((wf_iff_chain s).1 h) hN

/-- nothing is a member at or beyond such a bound, so the count above is the size of the whole set -/
theorem mem_lt_bound (s : List Span) (N x : Nat) (hN : ∀ sp ∈ s, sp.1 + sp.2 ≤ N) (hx : mem s x = true) :
    x < N := by
  simp only [mem, List.any_eq_true, Bool.and_eq_true, decide_eq_true_eq] at hx
  obtain ⟨sp, hsp, _, h2⟩ := hx
  have := hN sp hsp; omega

example : WF [(0, 4), (6, 4)] ∧ (∀ sp ∈ [((0, 4) : Span), (6, 4)], sp.1 + sp.2 ≤ 10) ∧
    len [(0, 4), (6, 4)] = ((List.range 10).filter (mem [(0, 4), (6, 4)])).length :=
  ⟨by simp [WF], by decide, by decide⟩

/-! ### `self & other` -/

/-- `__and__` (`self - (bounds - other)`, bounds built with the *end* passed as length) is pointwise `&&`.
Only the invariant of `self` is needed. -/
theorem mem_inter (s o : List Span) (x : Nat) (h : WF s) :
    mem (inter s o) x = (mem s x && mem o x) :=
  inter_mem o x ((wf_iff_chain s).1 h)

/-- `__and__` preserves the class invariant -/
theorem wf_inter (s o : List Span) (h : WF s) : WF (inter s o) :=
  chain_wf (inter_chain o ((wf_iff_chain s).1 h))

example : WF [(2, 6), (10, 3)] ∧ inter [(2, 6), (10, 3)] [(0, 4), (7, 4)] = [(2, 2), (7, 1), (10, 1)] :=
  ⟨by simp [WF], by decide⟩

/-! ### `+`, `-` (and `+=`, `-=`): fold of add / remove over the spans of `other` -/

/-- `self + other` is pointwise `||` and keeps the invariant -/
theorem mem_addAll (s o : List Span) (x : Nat) (h : WF s) (ho : WF o) :
    WF (addAll s o) ∧ mem (addAll s o) x = (mem s x || mem o x) := by
  have hpos := chain_pos ((wf_iff_chain o).1 ho)
  obtain ⟨h1, h2⟩ := Tahoe.Spans.mem_addAll s o x ((wf_iff_chain s).1 h) hpos
  exact ⟨chain_wf h1, by rw [h2]; rfl⟩

/-- `self - other` is pointwise "and not" and keeps the invariant -/
theorem mem_removeAll (s o : List Span) (x : Nat) (h : WF s) :
    WF (removeAll s o) ∧ mem (removeAll s o) x = (mem s x && !mem o x) :=
  ⟨chain_wf (removeAll_chain o ((wf_iff_chain s).1 h)), Tahoe.Spans.mem_removeAll s o x⟩

example : addAll [(0, 2)] [(2, 2), (10, 1)] = [(0, 4), (10, 1)] ∧
    removeAll [(0, 12)] [(2, 2), (10, 1)] = [(0, 2), (4, 6), (11, 1)] := by decide

/-! ### histories -/

/-- Any history of `add` / `remove` / `&` / `+` / `-` (`Op.union`, `Op.diff`: also `+=`, `-=`) with valid arguments, from the empty set: the invariant
holds at the end and membership is the fold of the set semantics (`opSem`) over the history. -/
theorem spans_history (ops : List Op) (hv : ∀ op ∈ ops, op.valid) :
    WF (run [] ops) ∧ ∀ x, mem (run [] ops) x = ops.foldl opSem (fun _ => false) x := by
  obtain ⟨h1, h2⟩ := run_spec (s := []) ops hv trivial
  refine ⟨chain_wf h1, fun x => ?_⟩
  rw [h2]
  have : mem [] = fun _ => false := by funext y; simp [mem]
  rw [this]

example : (∀ op ∈ [Op.add 3 4, Op.add 10 2, Op.remove 5 6, Op.inter [(0, 4), (11, 5)]], op.valid) ∧
    run [] [Op.add 3 4, Op.add 10 2, Op.remove 5 6, Op.inter [(0, 4), (11, 5)]] = [(3, 1), (11, 1)] := by
  refine ⟨?_, by decide⟩
  intro op hop
  simp only [List.mem_cons, List.mem_nil_iff, or_false] at hop
  rcases hop with rfl | rfl | rfl | rfl <;> simp [Op.valid, WF]

/-! ## Part 2: `DataSpans` behaves like a partial map offset ↦ byte (later writes win).

`DInv` is the class invariant (sorted, non-empty chunks, at least one free offset between chunks —
so non-adjacent and non-overlapping); `byteAt s x` is the byte stored at offset `x`, if any. -/

/-- `add` preserves the invariant (for any data, including empty) -/
theorem dinv_add (s : List Chunk) (off : Nat) (data : List UInt8) (h : DInv s) : DInv (dadd s off data) :=
  (dadd_spec off data h).1

/-- `add` overwrites exactly the range `[off, off+len)` with `data` and leaves every other offset alone -/
theorem byteAt_add (s : List Chunk) (off : Nat) (data : List UInt8) (x : Nat) (h : DInv s) :
    byteAt (dadd s off data) x =
      if off ≤ x ∧ x < off + data.length then data[x - off]? else byteAt s x :=
  (dadd_spec off data h).2 x

example : DInv [(0, [1, 2, 3]), (5, [9]), (8, [4, 4])] ∧
    dadd [(0, [1, 2, 3]), (5, [9]), (8, [4, 4])] 2 [7, 7, 7, 7, 7] = [(0, [1, 2, 7, 7, 7, 7, 7]), (8, [4, 4])] ∧
    dadd [(0, [1, 2, 3]), (5, [9]), (8, [4, 4])] 4 [6] = [(0, [1, 2, 3]), (4, [6, 9]), (8, [4, 4])] :=
  ⟨by simp [DInv, DChain], by decide, by decide⟩

/-- the code's own `assert_invariants()` never fires on a state that satisfies the invariant -/
theorem assertOk_of_inv (s : List Chunk) (h : DInv s) : assertOk s = true :=
  assertOk_of_chain h

/-- `remove` preserves the invariant -/
theorem dinv_remove (s : List Chunk) (a l : Nat) (h : DInv s) : DInv (dremove a l s) :=
  (dremove_spec a l h).1

/-- `remove` clears exactly the range `[a, a+l)` -/
theorem byteAt_remove (s : List Chunk) (a l x : Nat) (h : DInv s) :
    byteAt (dremove a l s) x = if a ≤ x ∧ x < a + l then none else byteAt s x :=
  (dremove_spec a l h).2 x

example : DInv [(0, [1, 2, 3, 4, 5]), (7, [9])] ∧
    dremove 1 2 [(0, [1, 2, 3, 4, 5]), (7, [9])] = [(0, [1]), (3, [4, 5]), (7, [9])] ∧
    dremove 3 5 [(0, [1, 2, 3, 4, 5]), (7, [9])] = [(0, [1, 2, 3])] :=
  ⟨by simp [DInv, DChain], by decide, by decide⟩

/-- `get` answers (something other than `None`) exactly when every offset of the non-empty range is present -/
theorem get_isSome_iff (s : List Chunk) (a l : Nat) (h : DInv s) (hl : 0 < l) :
    (dget a l s).isSome = true ↔ ∀ x, a ≤ x → x < a + l → (byteAt s x).isSome = true :=
  dget_isSome_iff h hl

/-- and then it returns exactly the `l` stored bytes of the range -/
theorem get_some_bytes (s : List Chunk) (a l : Nat) (bs : List UInt8) (h : DInv s) (hg : dget a l s = some bs) :
    bs.length = l ∧ ∀ i, i < l → byteAt s (a + i) = bs[i]? :=
  dget_some h hg

example : DInv [(0, [1, 2, 3, 4, 5]), (7, [9])] ∧ dget 1 3 [(0, [1, 2, 3, 4, 5]), (7, [9])] = some [2, 3, 4] ∧
    dget 4 2 [(0, [1, 2, 3, 4, 5]), (7, [9])] = none ∧ dget 6 1 [(0, [1, 2, 3, 4, 5]), (7, [9])] = none :=
  ⟨by simp [DInv, DChain], by decide, by decide, by decide⟩

/-- `pop` returns what `get` returns; it clears the range exactly when `get` answered, and keeps the invariant.
(The code tests `if data:`; an empty answer only occurs for `l = 0`, where clearing is a no-op anyway.) -/
theorem pop_spec (s : List Chunk) (a l : Nat) (h : DInv s) :
    (dpop s a l).1 = dget a l s ∧ DInv (dpop s a l).2 ∧
    ∀ x, byteAt (dpop s a l).2 x =
      if (dget a l s).isSome = true ∧ a ≤ x ∧ x < a + l then none else byteAt s x :=
  ⟨dpop_fst s a l, (dpop_spec a l h).1, (dpop_spec a l h).2⟩

example : DInv [(0, [1, 2, 3, 4, 5])] ∧ dpop [(0, [1, 2, 3, 4, 5])] 1 2 = (some [2, 3], [(0, [1]), (3, [4, 5])]) ∧
    dpop [(0, [1, 2, 3, 4, 5])] 4 2 = (none, [(0, [1, 2, 3, 4, 5])]) :=
  ⟨by simp [DInv, DChain], by decide, by decide⟩

/-- `len()` is the number of stored offsets (counted below any bound `N` beyond every chunk) -/
theorem dlen_eq_card (s : List Chunk) (N : Nat) (h : DInv s) (hN : ∀ c ∈ s, c.1 + c.2.length ≤ N) :
    dlen s = ((List.range N).filter (fun x => (byteAt s x).isSome)).length := by
  rw [← List.countP_eq_length_filter]
  exact dlen_eq_count h.toW hN

/-- `get_spans()` is a well-formed `Spans` whose members are exactly the stored offsets -/
theorem getSpans_mem (s : List Chunk) (x : Nat) (h : DInv s) :
    WF (getSpans s) ∧ mem (getSpans s) x = (byteAt s x).isSome :=
  ⟨chain_wf (getSpans_spec h x).1, (getSpans_spec h x).2⟩

example : DInv [(0, [1, 2, 3]), (5, [9])] ∧ dlen [(0, [1, 2, 3]), (5, [9])] = 4 ∧
    getSpans [(0, [1, 2, 3]), (5, [9])] = [(0, 3), (5, 1)] ∧ assertOk [(0, [1, 2, 3]), (5, [9])] = true :=
  ⟨by simp [DInv, DChain], by decide, by decide, by decide⟩

/-- Any history of `add` / `remove` / `pop` from the empty buffer: the invariant holds at the end and the
stored bytes are the fold of the partial-map semantics (`dopSem`: later writes win) over the history.
`get`, `len`, `get_spans` do not change the state; the theorems above apply to them at every such state. -/
theorem dspans_history (ops : List DOp) :
    DInv (drun [] ops) ∧ ∀ x, byteAt (drun [] ops) x = ops.foldl dopSem (fun _ => none) x := by
  obtain ⟨h1, h2⟩ := drun_spec (s := []) ops trivial
  refine ⟨h1, fun x => ?_⟩
  rw [h2]
  rfl

example : drun [] [DOp.add 0 [1, 2, 3, 4], DOp.add 6 [8, 8], DOp.add 3 [5, 5, 5], DOp.pop 1 2, DOp.remove 7 1] =
    [(0, [1]), (3, [5, 5, 5, 8])] := by decide

/-! ## Part 3: named values.  Value-returning operations (`&`, `-`, `+`, the copy constructors,
`get_spans()`) produce a value of their own: in the model (`RegModel.lean`: registers `r0, r1, …` of `Spans`,
`d0, d1, …` of `DataSpans`) an operation changes the register it writes and no other — this is the spec the
correspondence check holds the real objects to after every step (a result that is the same object as an
operand would change together with it). -/

/-- an operation changes no `Spans` register other than the one it writes -/
theorem rstep_frame_r (st : RState) (op : ROp) (j : Nat) (h : op.rTarget ≠ some j) :
    (rstep st op).r j = st.r j :=
  rstep_r_frame st op j h

/-- an operation changes no `DataSpans` register other than the one it writes -/
theorem rstep_frame_d (st : RState) (op : ROp) (j : Nat) (h : op.dTarget ≠ some j) :
    (rstep st op).d j = st.d j :=
  rstep_d_frame st op j h

/-- in particular: after `r2 = r0 - r1` (or `&`, `+`, copy), an in-place `add`/`remove` on the result leaves both
operands as they were, whatever the operands are (empty, equal, superset, the same register twice) -/
theorem result_then_mutate_keeps_operands (st : RState) (i j k a l : Nat) (hi : i ≠ k) (hj : j ≠ k) :
    (rrun st [.sub k i j, .add k a l]).r i = st.r i ∧ (rrun st [.sub k i j, .add k a l]).r j = st.r j ∧
    (rrun st [.and k i j, .rm k a l]).r i = st.r i ∧ (rrun st [.and k i j, .rm k a l]).r j = st.r j := by
  simp only [rrun, List.foldl_cons, List.foldl_nil, rstep]
  simp only [upd, if_neg hi, if_neg hj]
  exact ⟨trivial, trivial, trivial, trivial⟩

example : let st := rrun RState.empty [.set 0 [(0, 4), (6, 4)], .sub 2 0 1, .add 2 20 2, .single 1 0 50, .and 3 0 1, .rm 3 0 2]
    st.r 0 = [(0, 4), (6, 4)] ∧ st.r 2 = [(0, 4), (6, 4), (20, 2)] ∧ st.r 3 = [(2, 2), (6, 4)] := by decide

/-- `Spans(other)` returns an equal value -/
theorem spCopy_eq_self (s : List Span) (h : WF s) : spCopy s = s :=
  spCopy_eq ((wf_iff_chain s).1 h)

/-- the operators as written (with the copies they make) are the folds / the intersection of Part 1, so
`mem_addAll`, `mem_removeAll`, `mem_inter` describe them -/
theorem operators_eq (s o : List Span) (h : WF s) :
    spOr s o = addAll s o ∧ spSub s o = removeAll s o ∧ spAnd s o = inter s o :=
  have hc := (wf_iff_chain s).1 h
  ⟨spOr_eq o hc, spSub_eq o hc, spAnd_eq o hc⟩

example : WF [(2, 6), (10, 3)] ∧ spAnd [(2, 6), (10, 3)] [(0, 4), (7, 4)] = [(2, 2), (7, 1), (10, 1)] ∧
    spSub [(2, 6), (10, 3)] [] = [(2, 6), (10, 3)] ∧ spCopy [(2, 6), (10, 3)] = [(2, 6), (10, 3)] :=
  ⟨by simp [WF], by decide, by decide, by decide⟩

/-- `DataSpans(other)` returns an equal value: the invariant holds and every offset maps to the same byte -/
theorem dCopy_byteAt (s : List Chunk) (x : Nat) (h : DInv s) : DInv (dCopy s) ∧ byteAt (dCopy s) x = byteAt s x :=
  ⟨(dCopy_spec h).1, (dCopy_spec h).2 x⟩

example : DInv [(0, [1, 2, 3]), (5, [9])] ∧ dCopy [(0, [1, 2, 3]), (5, [9])] = [(0, [1, 2, 3]), (5, [9])] :=
  ⟨by simp [DInv, DChain], by decide⟩

/-! ## Part 4: maximal merging, canonical form, and answers along histories -/

/-- consecutive chunks of a state satisfying the invariant are non-empty and separated by at least one free
offset: never adjacent, never overlapping, sorted -/
theorem dinv_no_adjacent (s : List Chunk) (h : DInv s) (i : Nat) (c d : Chunk)
    (hc : s[i]? = some c) (hd : s[i + 1]? = some d) : 0 < c.2.length ∧ c.1 + c.2.length < d.1 :=
  dchain_gap h i c d hc hd

/-- every chunk is a maximal run: the offsets just before and just after it are free, and it holds exactly the
bytes of its range -/
theorem chunk_is_maximal_run (s : List Chunk) (h : DInv s) (c : Chunk) (hc : c ∈ s) :
    byteAt s (c.1 + c.2.length) = none ∧ (0 < c.1 → byteAt s (c.1 - 1) = none) ∧
    ∀ i, i < c.2.length → byteAt s (c.1 + i) = c.2[i]? :=
  chunk_maximal h c hc

example : DInv [(2, [1, 2, 3]), (7, [9])] ∧ byteAt [(2, [1, 2, 3]), (7, [9])] 5 = none ∧
    byteAt [(2, [1, 2, 3]), (7, [9])] 1 = none ∧ byteAt [(2, [1, 2, 3]), (7, [9])] 4 = some 3 :=
  ⟨by simp [DInv, DChain], by decide, by decide, by decide⟩

/-- the chunk list is canonical: two states satisfying the invariant that hold the same bytes are the same list
(so the internal list after any history is determined by the partial map alone) -/
theorem dspans_canonical (s t : List Chunk) (hs : DInv s) (ht : DInv t) (h : ∀ x, byteAt s x = byteAt t x) :
    s = t :=
  dchain_ext hs ht h

/-- the span list is canonical: iteration, `dump()` … of a `Spans` are determined by the set it denotes -/
theorem spans_canonical (s t : List Span) (hs : WF s) (ht : WF t) (h : ∀ x, mem s x = mem t x) : s = t :=
  chain_ext ((wf_iff_chain s).1 hs) ((wf_iff_chain t).1 ht) h

/-- two histories with the same set semantics end in the same list -/
example : run [] [Op.add 0 4, Op.add 6 4, Op.add 4 2] = run [] [Op.add 3 7, Op.add 0 3] := by decide

example : drun [] [DOp.add 0 [1, 2], DOp.add 3 [4], DOp.add 2 [3]] = drun [] [DOp.add 1 [2, 3, 4], DOp.add 0 [1]] := by
  decide

/-- `get` of a non-empty range is the reference read of the partial map: all `l` bytes if every one is held,
`None` otherwise -/
theorem get_eq_specRead (s : List Chunk) (a l : Nat) (h : DInv s) (hl : 0 < l) :
    dget a l s = specRead (byteAt s) a l :=
  dget_eq_specRead a l h hl

/-- what the excluded case does: for `length = 0` the code answers `b""` inside a chunk and `None` outside,
the reference read answers `b""` everywhere -/
example : dget 1 0 [(0, [1, 2, 3])] = some [] ∧ dget 6 0 [(0, [1, 2, 3])] = none ∧
    specRead (byteAt [(0, [1, 2, 3])]) 6 0 = some [] := by decide

/-- after ANY history of add / remove / pop from the empty buffer, `get(a, l)` returns exactly the bytes the
reference partial map (later writes win) holds on `[a, a+l)` if it holds all of them, and `None` otherwise -/
theorem get_after_history (ops : List DOp) (a l : Nat) (hl : 0 < l) :
    dget a l (drun [] ops) = specRead (ops.foldl dopSem (fun _ => none)) a l := by
  obtain ⟨h1, h2⟩ := drun_spec (s := []) ops trivial
  rw [dget_eq_specRead a l h1 hl, h2]
  rfl

/-- the hole-filling add (adjacent on both sides) merges into one chunk, and a read across both old boundaries answers -/
example : drun [] [DOp.add 100 [1, 2, 3, 4], DOp.add 108 [9, 9, 9, 9], DOp.add 104 [5, 6, 7, 8]] =
      [(100, [1, 2, 3, 4, 5, 6, 7, 8, 9, 9, 9, 9])] ∧
    dget 102 8 (drun [] [DOp.add 100 [1, 2, 3, 4], DOp.add 108 [9, 9, 9, 9], DOp.add 104 [5, 6, 7, 8]]) =
      some [3, 4, 5, 6, 7, 8, 9, 9] := by decide

/-- every answer of `get` / `pop` along any history (of add, remove, pop, get with non-empty ranges) from the
empty buffer equals the answer of the reference partial-map machine `specTraceD` -/
theorem dspans_trace (qs : List DQ) (hv : ∀ q ∈ qs, q.valid) :
    dtrace [] qs = specTraceD (fun _ => none) qs :=
  dtrace_spec (s := []) qs hv trivial

example : (∀ q ∈ [DQ.op (.add 5 [1, 2, 3]), DQ.get 5 2, DQ.op (.pop 6 2), DQ.get 5 1, DQ.get 6 1], q.valid) ∧
    dtrace [] [DQ.op (.add 5 [1, 2, 3]), DQ.get 5 2, DQ.op (.pop 6 2), DQ.get 5 1, DQ.get 6 1] =
      [some [1, 2], some [2, 3], some [1], none] := by
  refine ⟨?_, by decide⟩
  intro q hq
  simp only [List.mem_cons, List.mem_nil_iff, or_false] at hq
  rcases hq with rfl | rfl | rfl | rfl | rfl <;> simp [DQ.valid]

/-- every answer of `(a, l) in spans` along any history (add, remove, `&`, `+`, `-` with valid arguments, queries
with `l > 0`) from the empty set equals the answer of the reference set machine `specTraceS` -/
theorem spans_trace (qs : List SQ) (hv : ∀ q ∈ qs, q.valid) :
    strace [] qs = specTraceS (fun _ => false) qs := by
  have := strace_spec (s := []) qs hv trivial
  rw [this]
  have : mem [] = fun _ => false := by funext y; simp [mem]
  rw [this]

example : (∀ q ∈ [SQ.op (.add 0 4), SQ.contains 1 2, SQ.op (.union [(4, 2)]), SQ.contains 0 6, SQ.op (.diff [(1, 1)]),
      SQ.contains 0 2], q.valid) ∧
    strace [] [SQ.op (.add 0 4), SQ.contains 1 2, SQ.op (.union [(4, 2)]), SQ.contains 0 6, SQ.op (.diff [(1, 1)]),
      SQ.contains 0 2] = [true, true, false] := by
  refine ⟨?_, by decide⟩
  intro q hq
  simp only [List.mem_cons, List.mem_nil_iff, or_false] at hq
  rcases hq with rfl | rfl | rfl | rfl | rfl | rfl <;> simp [SQ.valid, Op.valid, WF]

/-! ## Part 5: enumerations, truthiness, empty ranges -/

/-- `each()` yields exactly the members (for any span list), as many as `len()` says; on a well-formed list
strictly ascending, i.e. every member exactly once in increasing order -/
theorem each_enumerates_members (s : List Span) (h : WF s) :
    (∀ x, x ∈ each s ↔ mem s x = true) ∧ (each s).length = len s ∧ (each s).Pairwise (· < ·) :=
  ⟨mem_each s, each_length s, each_sorted ((wf_iff_chain s).1 h)⟩

/-- `_dump()` yields exactly the held offsets, as many as `len()` says, strictly ascending -/
theorem dump_enumerates_offsets (s : List Chunk) (h : DInv s) :
    (∀ x, x ∈ dDump s ↔ (byteAt s x).isSome = true) ∧ (dDump s).length = dlen s ∧ (dDump s).Pairwise (· < ·) :=
  ⟨mem_dDump s, by rw [dDump_eq_each, each_length, dlen_eq_len], dDump_sorted h⟩

/-- `bool(spans)` / `bool(dataspans)` (`bool(self.len())`) is true exactly when something is held -/
theorem bool_iff_nonempty (s : List Span) (d : List Chunk) (hs : WF s) (hd : DInv d) :
    (spBool s = true ↔ ∃ x, mem s x = true) ∧ (dBool d = true ↔ ∃ x, (byteAt d x).isSome = true) :=
  ⟨spBool_iff ((wf_iff_chain s).1 hs), dBool_iff hd⟩

example : WF [(3, 2), (9, 1)] ∧ each [(3, 2), (9, 1)] = [3, 4, 9] ∧ spBool [(3, 2), (9, 1)] = true ∧ spBool [] = false ∧
    DInv [(3, [7, 7]), (9, [1])] ∧ dDump [(3, [7, 7]), (9, [1])] = [3, 4, 9] ∧ dBool [(3, [7, 7]), (9, [1])] = true :=
  ⟨by simp [WF], by decide, by decide, by decide, by simp [DInv, DChain], by decide, by decide⟩

/-- the empty range, which the statement does not speak about, exactly as the code answers it: `get(a, 0)` is `b""`
when offset `a` is held and `None` otherwise; `pop(a, 0)` answers the same and never changes the buffer -/
theorem get_pop_zero_length (s : List Chunk) (a : Nat) (h : DInv s) :
    dget a 0 s = (if (byteAt s a).isSome = true then some [] else none) ∧ dpop s a 0 = (dget a 0 s, s) :=
  ⟨dget_zero a h, dpop_zero a h⟩

example : DInv [(0, [1, 2, 3])] ∧ dget 1 0 [(0, [1, 2, 3])] = some [] ∧ dget 3 0 [(0, [1, 2, 3])] = none ∧
    dpop [(0, [1, 2, 3])] 1 0 = (some [], [(0, [1, 2, 3])]) :=
  ⟨by simp [DInv, DChain], by decide, by decide, by decide⟩

/-- `Spans.remove` as written — one pass over `_spans` with in-place trims, the completely covered spans deleted
afterwards as one slice `[first_complete_overlap : last_complete_overlap+1]`, a middle split done by append + sort +
break (`removeLit`) — equals the span-by-span `remove` of Part 1 on every list satisfying the class invariant
(the completely covered spans are contiguous there, and a middle split leaves no other overlap) -/
theorem remove_as_written_eq (s : List Span) (a l : Nat) (h : WF s) : removeLit s a l = remove s a l :=
  removeLit_eq a l ((wf_iff_chain s).1 h)

example : WF [(0, 2), (4, 2), (8, 2), (12, 4)] ∧ removeLit [(0, 2), (4, 2), (8, 2), (12, 4)] 1 13 = [(0, 1), (14, 2)] ∧
    removeLit [(0, 10)] 3 4 = [(0, 3), (7, 3)] :=
  ⟨by simp [WF], by decide, by decide⟩

/-- what the hypothesis excludes: on a list that violates the invariant (unsorted) the slice delete also takes a span
that is not covered, and the two differ -/
example : removeLit [(0, 2), (20, 2), (4, 2)] 0 10 = [] ∧ remove [(0, 2), (20, 2), (4, 2)] 0 10 = [(20, 2)] := by decide

end Tahoe.C37
