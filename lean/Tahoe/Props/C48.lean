import Tahoe.Config.Lemmas
import Tahoe.Config.GlueLemmas
/-!
# C48 — configuration values parse to their documented meaning

Property theorems over the models `Tahoe/Config/Parse.lean` (the four util functions) and
`Tahoe/Config/Glue.lean` (the client.py code between tahoe.cfg and `StorageServer(...)`); the documented
tables and grammars are in `Tahoe/Config/Doc.lean`, helper lemmas in `Tahoe/Config/Lemmas.lean` and
`Tahoe/Config/GlueLemmas.lean`.

As built: 39 theorems.  The two defects found for this property (documented size spellings with a space were
rejected; `parse_date` accepted impossible days and trailing time-of-day text) are repaired in /repo (commits
8480b59, 396b8df — formerly fixes/C48-size-whitespace.diff, fixes/C48-date-strict.diff) and the model is the
repaired code.  Open: printed sizes ≥ 1024 do not parse back (known finding `print-parse-decimal-rejected`), so
`print_then_parse_partial` stays partial.  Not a C48 violation but noted (DESIGN §8.9): the docs say an
`override_lease_duration` in cutoff-date mode "will be rejected"; the code parses it and ignores it
(`glue_override_lease_duration` states exactly that).

## Coverage of the statement

| clause of the statement (properties.jsonl) | proved for the model by |
|---|---|
| durations: every documented spelling (any number, whitespace, case) parses to the documented seconds | `documented_spellings_duration`, `duration_accepts_iff` (⇐); unit values pinned by `duration_units_pinned`, `second_is_1`, `day_is_86400`, `month_is_31_days`, `year_is_365_days` |
| sizes: every documented spelling parses to the documented bytes | `documented_spellings_size`, `size_accepts_iff` (⇐); `size_multipliers_pinned` |
| dates: documented spelling parses to the documented timestamp (midnight UTC of that day) | `documented_spellings_date`, `date_accepts_iff`, `date_midnight_utc`; meaning of the day count: `ordinal_epoch`, `ordinal_next_day` |
| … whatever the node's time zone | model has no zone; **correspondence only** (harness runs `parse_date` under 10 process time zones) |
| malformed values are rejected, not silently read as something else | `duration_accepts_iff`, `size_accepts_iff`, `date_accepts_iff` (⇒: the *whole* string has the documented form and the value is the documented one), `accepted_implies_grammar_*`, `malformed_rejected` (always an exception, never a value), `duration_trailing_text_rejected` (the inputs of seed C48-c), `size_rejection_is_valueError`, `long_s_rejected` |
| "accepted in tahoe.cfg (lease-duration overrides, cutoff dates, reserved space …)": each setting reaches its parser | `glue_reserved_space`, `glue_override_lease_duration`, `glue_cutoff_date`, `glue_booleans` |
| a malformed setting stops node start | `glue_malformed_value_stops_start`, `glue_bad_boolean_or_mode_stops_start` |
| a documented configuration starts the node | `glue_documented_config_starts` |
| `_Config.get_config`: a present value (blank or not) reaches its parser unchanged but for `strip`; blank ≠ absent | `get_config_present_reaches_parser`, `glue_blank_value_stops_start` (seed C48-e) |
| boolean settings (`getboolean` words, any case / surrounding whitespace) and the mode literals | `getboolean_spellings`, `classifyBool_iff`, `mode_literals` |
| abbreviated sizes the node prints parse back to the same value | `print_then_parse_partial` (sizes < 1024, exact); for sizes ≥ 1024 **false of the code**: `print_then_parse_counterexample`, `printed_large_rejected` (open known finding `print-parse-decimal-rejected`) |
| the regexes / tables in the source are the ones modelled | `duration_regex_pinned`, `size_regex_pinned`, `date_regex_pinned` (extracted constants); recogniser ≙ regex and character classes ≙ `Sym`: **correspondence only** (every code point in the thorough tier) |
| configparser's file syntax (line splitting, `key = value`, continuation lines, `%` interpolation, option-name folding) | **correspondence only** (the harness writes real tahoe.cfg text; the model starts from the text after `key =`) |
-/
namespace Tahoe.C48
open Tahoe.Config Tahoe.Generated

/-! ## The source still says what the model transcribes (extracted constants pinned) -/

/-- the pattern `parse_duration` builds from `ParseDurationUnitFormat` -/
theorem duration_regex_pinned :
    Config.duration_regex = "^\\s*(\\d+)\\s*(s|second|seconds|day|days|mo|month|months|year|years)\\s*$" := by decide

/-- `parse_abbreviated_size` matches `s.upper()` with `re.match` against this pattern (whitespace before the suffix allowed) -/
theorem size_regex_pinned :
    Config.size_regex_fn = "match" ∧ Config.size_regex = "^(\\d+)\\s*([KMGTPE]?[I]?[B]?)$" := by decide

/-- `parse_date` itself applies `re.fullmatch` with the bare `YYYY-MM-DD` pattern -/
theorem date_regex_pinned :
    Config.date_regex_fn = "fullmatch" ∧ Config.date_regex = "(\\d{4})-(\\d{2})-(\\d{2})" := by decide

/-- `time_map`, in alternation order, is the documented table -/
theorem duration_units_pinned : Config.duration_units = docDurationUnits := by decide

theorem second_is_1 : ∀ w ∈ [[115], [115, 101, 99, 111, 110, 100], [115, 101, 99, 111, 110, 100, 115]],
    lookupWord Config.duration_units (wordSyms w) = some 1 := by decide

theorem day_is_86400 : ∀ w ∈ [[100, 97, 121], [100, 97, 121, 115]],
    lookupWord Config.duration_units (wordSyms w) = some 86400 := by decide

/-- "mo", "month", "months" -/
theorem month_is_31_days : ∀ w ∈ [[109, 111], [109, 111, 110, 116, 104], [109, 111, 110, 116, 104, 115]],
    lookupWord Config.duration_units (wordSyms w) = some (31 * 86400) := by decide

/-- "year", "years" -/
theorem year_is_365_days : ∀ w ∈ [[121, 101, 97, 114], [121, 101, 97, 114, 115]],
    lookupWord Config.duration_units (wordSyms w) = some (365 * 86400) := by decide

/-- the multiplier dict: scale letter number `i`, optional "I" → 1000^i resp. 1024^i -/
theorem size_multipliers_pinned : ∀ i ∈ [0, 1, 2, 3, 4, 5, 6], ∀ bin : Bool,
    lookupWord Config.size_multipliers (wordSyms (sizeSuffix i bin false)) = some (sizeBase bin ^ i) := by decide

/-! ## Durations -/

/-- **documented_spellings (durations).** Any amount of surrounding and separating whitespace, any
    number (digit string `ds`), any documented unit in any mix of upper and lower case: the result is
    number × (1 | 86400 | 31·86400 | 365·86400). -/
theorem documented_spellings_duration (pre mid post : List Sym) (ds : List (Fin 10)) (w : List Sym)
    (word : List Nat) (k : Nat)
    (hpre : pre.all isWs = true) (hmid : mid.all isWs = true) (hpost : post.all isWs = true) (hds : ds ≠ [])
    (hu : (word, k) ∈ docDurationUnits) (hw : w.map lowerSym = wordSyms word) :
    parseDuration (pre ++ ds.map Sym.dig ++ mid ++ w ++ post) = .ok (num ds * k) := by
  have hwne : w ≠ [] := by
    intro h; subst h
    simp only [docDurationUnits, List.mem_cons, Prod.mk.injEq, List.not_mem_nil, or_false] at hu
    rcases hu with h | h | h | h | h | h | h | h | h | h <;> (rw [h.1] at hw; simp [wordSyms] at hw)
  -- the part after the number does not start with a digit; the unit does not start with whitespace
  have hwhead : headNotDig (w ++ post) = true ∧ headNotWs (w ++ post) = true := by
    cases w with
    | nil => exact absurd rfl hwne
    | cons x xs =>
      cases word with
      | nil => simp [wordSyms] at hw
      | cons c cs =>
        simp only [wordSyms, List.map_cons, List.cons.injEq] at hw
        have := not_isWs_of_lowerSym hw.1
        cases x <;> simp_all [headNotDig, headNotWs, lowerSym]
  have hdhead : headNotWs (ds.map Sym.dig ++ (mid ++ (w ++ post))) = true := by
    cases ds with
    | nil => exact absurd rfl hds
    | cons d ds => simp [headNotWs, isWs]
  have e : pre ++ ds.map Sym.dig ++ mid ++ w ++ post = pre ++ (ds.map Sym.dig ++ (mid ++ (w ++ post))) := by
    simp [List.append_assoc]
  have hlook : lookupWord docDurationUnits (wordSyms word) = some k := by
    simp only [docDurationUnits, List.mem_cons, Prod.mk.injEq, List.not_mem_nil, or_false] at hu
    rcases hu with h | h | h | h | h | h | h | h | h | h <;> (rw [h.1, h.2]; decide)
  have hds' : ds.isEmpty = false := by cases ds <;> simp_all
  unfold parseDuration parseDurationWith
  simp only [duration_units_pinned, e, dropWs_append_ws _ _ hpre, dropWs_of_headNotWs _ hdhead,
    takeDigits_map_dig _ _ (headNotDig_ws_append _ _ hmid hwhead.1), hds', Bool.false_eq_true, if_false,
    dropWs_append_ws _ _ hmid, dropWs_of_headNotWs _ hwhead.2,
    findSome_tryUnit docDurationUnits w word post hw hpost k hu, hw, hlook]

example : parseDuration [.ws, .dig 1, .dig 2, .ws, .ws, .asc 77, .asc 111, .asc 78, .asc 116, .asc 72, .asc 115, .nl]
    = .ok (12 * (31 * 86400)) := by decide   -- " 12  MoNtHs\n"

/-- **accepted_implies_grammar (durations).** Whatever `parse_duration` accepts is whitespace, a
    non-empty digit string, whitespace, an ASCII case variant of a documented unit, whitespace — and
    the value is number × that unit's documented length.  Nothing else is read as a duration. -/
theorem accepted_implies_grammar_duration (s : List Sym) (v : Nat) (h : parseDuration s = .ok v) :
    ∃ pre ds mid w post word k,
      s = pre ++ ds.map Sym.dig ++ mid ++ w ++ post ∧
      pre.all isWs = true ∧ mid.all isWs = true ∧ post.all isWs = true ∧ ds ≠ [] ∧
      (word, k) ∈ docDurationUnits ∧ w.map lowerSym = wordSyms word ∧ v = num ds * k := by
  unfold parseDuration parseDurationWith at h
  simp only [duration_units_pinned] at h
  obtain ⟨pre, hs1, hpre⟩ := dropWs_spec s
  obtain ⟨hs2, -⟩ := takeDigits_spec (dropWs s)
  obtain ⟨mid, hs3, hmid⟩ := dropWs_spec (takeDigits (dropWs s)).2
  generalize hds : (takeDigits (dropWs s)).1 = ds at h hs2
  generalize hr3 : dropWs (takeDigits (dropWs s)).2 = r3 at h hs3
  split at h
  · simp at h
  · rename_i hne
    split at h
    · simp at h
    · rename_i m hm
      split at h
      · rename_i k hk
        obtain ⟨p, -, hp⟩ := List.exists_of_findSome?_eq_some hm
        unfold tryUnit at hp
        split at hp
        · rename_i m' rest hmatch
          split at hp
          · rename_i hrest
            simp only [Option.some.injEq] at hp
            subst hp
            obtain ⟨hr, -⟩ := matchWordCI_spec p.1 r3 m' rest hmatch
            obtain ⟨word, hmem, hword⟩ := lookupWord_spec _ _ _ hk
            refine ⟨pre, ds, mid, m', rest, word, k, ?_, hpre, hmid, hrest, ?_, hmem, hword.symm, ?_⟩
            · rw [hs1, hs2, hs3, hr]; simp [List.append_assoc]
            · intro hnil; simp [hnil] at hne
            · simp only [Res.ok.injEq] at h; exact h.symm
          · simp at hp
        · simp at hp
      · simp at h

example : parseDuration [.dig 6, .dig 0, .ws, .asc 100, .asc 97, .asc 121, .asc 115] = .ok (60 * 86400) := by decide  -- "60 days"

/-- 'ſ' (U+017F) is matched by the regex (IGNORECASE) but is not a key of `time_map`: the call ends
    in `KeyError`, which is still a rejection ("1ſ"). -/
theorem long_s_rejected : parseDuration [.dig 1, .longS] = .keyError := by decide

/-! ## Sizes -/

/-- **documented_spellings (sizes).** number, optional whitespace, optional scale letter (K M G T P E,
    number `i`), optional "i", optional "B", in any case (`w.map upperSym` is the upper-case suffix):
    the result is number × 1000^i, resp. number × 1024^i with the "i". -/
theorem documented_spellings_size (ds : List (Fin 10)) (mid w : List Sym) (i : Nat) (bin hasB : Bool)
    (hds : ds ≠ []) (hmid : mid.all isWs = true) (hi : i ≤ 6)
    (hw : w.map upperSym = wordSyms (sizeSuffix i bin hasB)) :
    parseSize (ds.map Sym.dig ++ mid ++ w) = .ok (num ds * sizeBase bin ^ i) := by
  have hne : (ds.map Sym.dig ++ mid ++ w).isEmpty = false := by cases ds <;> simp_all
  have hds' : ds.isEmpty = false := by cases ds <;> simp_all
  have hcore : sizeMult Config.size_multipliers (wordSyms (sizeSuffix i bin hasB)) = .ok (sizeBase bin ^ i) := by
    have : i = 0 ∨ i = 1 ∨ i = 2 ∨ i = 3 ∨ i = 4 ∨ i = 5 ∨ i = 6 := by omega
    rcases this with rfl | rfl | rfl | rfl | rfl | rfl | rfl <;> cases bin <;> cases hasB <;> decide
  have hhead : headNotDig (wordSyms (sizeSuffix i bin hasB)) = true ∧ headNotWs (wordSyms (sizeSuffix i bin hasB)) = true := by
    have h1 := headNotDig_wordSyms (sizeSuffix i bin hasB) [] rfl
    have h2 := headNotWs_wordSyms (sizeSuffix i bin hasB) [] rfl
    simp only [List.append_nil] at h1 h2
    exact ⟨h1, h2⟩
  unfold parseSize parseSizeWith
  rw [if_neg (by rw [hne]; simp)]
  simp only [Bool.false_eq_true, if_false, List.map_append, map_upperSym_dig, map_upperSym_ws mid hmid, hw,
    List.append_assoc, takeDigits_map_dig _ _ (headNotDig_ws_append _ _ hmid hhead.1), hds',
    dropWs_append_ws _ _ hmid, dropWs_of_headNotWs _ hhead.2, hcore]

example : parseSize [.dig 1, .dig 0, .dig 2, .dig 4, .ws, .asc 75, .asc 105] = .ok (1024 * 1024 ^ 1) := by decide  -- "1024 Ki"
example : parseSize [.dig 1, .dig 0, .dig 0, .ws, .asc 77] = .ok (100 * 1000 ^ 2) := by decide                   -- "100 M"

/-- **accepted_implies_grammar (sizes).** Whatever `parse_abbreviated_size` accepts is a non-empty
    digit string, whitespace, a spelling `w` whose `str.upper()` is a documented suffix (so 'ı' U+0131
    counts as "i"), optionally one final newline (`$`) — and the value is number × 1000^i resp. 1024^i. -/
theorem accepted_implies_grammar_size (s : List Sym) (v : Nat) (h : parseSize s = .ok v) :
    ∃ ds mid w tail i bin hasB,
      s = ds.map Sym.dig ++ mid ++ w ++ tail ∧ ds ≠ [] ∧ mid.all isWs = true ∧ (tail = [] ∨ tail = [.nl]) ∧
      i ≤ 6 ∧ w.map upperSym = wordSyms (sizeSuffix i bin hasB) ∧ v = num ds * sizeBase bin ^ i := by
  unfold parseSize parseSizeWith at h
  dsimp only at h
  split at h
  · simp at h
  · obtain ⟨hu1, -⟩ := takeDigits_spec (s.map upperSym)
    obtain ⟨mid', hu2, hmid'⟩ := dropWs_spec (takeDigits (s.map upperSym)).2
    generalize hds : (takeDigits (s.map upperSym)).1 = ds at h hu1
    generalize hr2 : dropWs (takeDigits (s.map upperSym)).2 = r2 at h hu2
    split at h
    · simp at h
    · rename_i hne
      split at h
      · rename_i k hk
        simp only [Res.ok.injEq] at h
        obtain ⟨a, b, c, tail, hr, ha, hb, hc, htail, hlook⟩ := sizeMult_spec _ _ _ hk
        -- pull the decomposition of `s.upper()` back to `s`
        have hu : s.map upperSym = ds.map Sym.dig ++ (mid' ++ (wordSyms (a ++ b ++ c) ++ tail)) := by
          rw [hu1, hu2, hr]
        obtain ⟨s1, t1, e1, m1, n1⟩ := List.map_eq_append_iff.mp hu
        obtain ⟨s2, t2, e2, m2, n2⟩ := List.map_eq_append_iff.mp n1
        obtain ⟨s3, s4, e3, m3, m4⟩ := List.map_eq_append_iff.mp n2
        have hs1 := map_upperSym_eq_dig s1 ds m1
        have hs2 : s2.all isWs = true := all_isWs_of_map_upperSym s2 (by rw [m2]; exact hmid')
        have hs4 : s4 = [] ∨ s4 = [.nl] := by
          rcases htail with ht | ht
          · left; rw [ht] at m4; simpa using m4
          · right; rw [ht] at m4
            cases s4 with
            | nil => simp at m4
            | cons x xs =>
              simp only [List.map_cons, List.cons.injEq, List.map_eq_nil_iff] at m4
              rw [upperSym_eq_nl m4.1, m4.2]
        obtain ⟨i, bin, hasB, hi, hsfx, hkv⟩ := suffix_enum a b c k ha hb hc hlook
        refine ⟨ds, s2, s3, s4, i, bin, hasB, ?_, ?_, hs2, hs4, hi, ?_, ?_⟩
        · rw [e1, e2, e3, hs1]; simp [List.append_assoc]
        · intro hnil; simp [hnil] at hne
        · rw [m3, hsfx]
        · rw [← h, hkv]
      · rename_i hnot; exact absurd h (hnot v)

/-- a malformed size is always a `ValueError` (the only exception client.py expects), never a `KeyError`;
    the empty value is `None` (no reservation) -/
theorem size_rejection_is_valueError (s : List Sym) : parseSize s ≠ .keyError ∧ (parseSize s = .none ↔ s = []) := by
  unfold parseSize parseSizeWith
  dsimp only
  constructor
  · split
    · simp
    · split
      · simp
      · have := sizeMult_ne_keyError (dropWs (takeDigits (List.map upperSym s)).2)
        split
        · simp
        · rename_i e he; intro h; exact this h
  · cases s with
    | nil => simp
    | cons x xs =>
      simp only [List.isEmpty_cons, Bool.false_eq_true, if_false, reduceCtorEq, iff_false]
      split
      · simp
      · split
        · simp
        · rename_i e he
          intro h
          unfold sizeMult at h
          dsimp only at h
          split at h
          · simp at h
          · split at h <;> simp at h

/-! ## Dates -/

/-- **documented_spellings (dates).** `YYYY-MM-DD` naming a day that exists is accepted and read as the
    number of days from 1970-01-01 to that day, times 86400. -/
theorem documented_spellings_date (a b c d e f g h : Fin 10)
    (hv : validDate (num [a, b, c, d]) (num [e, f]) (num [g, h]) = true) :
    parseDate [.dig a, .dig b, .dig c, .dig d, .asc 45, .dig e, .dig f, .asc 45, .dig g, .dig h]
      = .ok (((ordinal (num [a, b, c, d]) (num [e, f]) (num [g, h]) : Int) - (epochOrd : Int)) * 86400) := by
  simp [parseDate, hv]

-- the three dates of docs/garbage-collection.rst
example : parseDate [.dig 2, .dig 0, .dig 0, .dig 9, .asc 45, .dig 0, .dig 1, .asc 45, .dig 1, .dig 6] = .ok 1232064000 := by decide
example : parseDate [.dig 2, .dig 0, .dig 0, .dig 8, .asc 45, .dig 0, .dig 2, .asc 45, .dig 0, .dig 2] = .ok 1201910400 := by decide
example : parseDate [.dig 2, .dig 0, .dig 0, .dig 7, .asc 45, .dig 1, .dig 2, .asc 45, .dig 2, .dig 5] = .ok 1198540800 := by decide

/-- **date_midnight_utc** (and soundness for dates).  Whatever `parse_date` accepts is exactly ten
    characters `YYYY-MM-DD` naming an existing day, and the value is midnight UTC at the beginning of
    that day: a multiple of 86400, namely 86400 × (days since 1970-01-01).  No time of day, no
    trailing text and no day that does not exist is accepted. -/
theorem date_midnight_utc (s : List Sym) (t : Int) (ht : parseDate s = .ok t) :
    ∃ a b c d e f g h : Fin 10,
      s = [.dig a, .dig b, .dig c, .dig d, .asc 45, .dig e, .dig f, .asc 45, .dig g, .dig h] ∧
      validDate (num [a, b, c, d]) (num [e, f]) (num [g, h]) = true ∧
      t = 86400 * ((ordinal (num [a, b, c, d]) (num [e, f]) (num [g, h]) : Int) - (epochOrd : Int)) ∧
      t % 86400 = 0 := by
  unfold parseDate at ht
  split at ht
  · rename_i a b c d e f g h
    dsimp only at ht
    split at ht
    · rename_i hv
      simp only [Res.ok.injEq] at ht
      refine ⟨a, b, c, d, e, f, g, h, rfl, hv, by omega, by omega⟩
    · simp at ht
  · simp at ht

example : parseDate [.dig 2, .dig 0, .dig 0, .dig 9, .asc 45, .dig 0, .dig 2, .asc 45, .dig 3, .dig 1] = .valueError := by decide  -- 2009-02-31
example : parseDate [.dig 2, .dig 0, .dig 0, .dig 0, .asc 45, .dig 0, .dig 2, .asc 45, .dig 2, .dig 9] = .ok 951782400 := by decide  -- 2000-02-29

/-- the day count is anchored at the epoch … -/
theorem ordinal_epoch : ordinal 1970 1 1 = epochOrd := by decide

/-- … and advances by exactly one from each existing day to the next calendar day (month lengths, leap
    years every 4th year except centuries not divisible by 400).  Together with `ordinal_epoch` this
    determines `ordinal`, hence the timestamp of every date, uniquely: "days since 1970-01-01". -/
theorem ordinal_next_day (y m d : Nat) (hv : validDate y m d = true) :
    validDate (nextDay y m d).1 (nextDay y m d).2.1 (nextDay y m d).2.2 = true ∧
    ordinal (nextDay y m d).1 (nextDay y m d).2.1 (nextDay y m d).2.2 = ordinal y m d + 1 := by
  simp only [validDate, Bool.and_eq_true, decide_eq_true_eq] at hv
  obtain ⟨⟨⟨⟨hy, hm1⟩, hm12⟩, hd1⟩, hd⟩ := hv
  have hyear := daysBeforeYear_succ y hy
  have hm : m = 1 ∨ m = 2 ∨ m = 3 ∨ m = 4 ∨ m = 5 ∨ m = 6 ∨ m = 7 ∨ m = 8 ∨ m = 9 ∨ m = 10 ∨ m = 11 ∨ m = 12 := by omega
  rcases hm with rfl | rfl | rfl | rfl | rfl | rfl | rfl | rfl | rfl | rfl | rfl | rfl <;>
    cases hl : isLeap y <;>
    simp [daysInMonth, hl] at hd <;>
    simp [nextDay, daysInMonth, daysBeforeMonth, ordinal, validDate, hl] <;>
    split <;> simp_all <;> omega

example : nextDay 2008 2 29 = (2008, 3, 1) ∧ validDate 2008 2 29 = true := by decide

/-! ## Printed sizes

Full statement (property text: "abbreviated sizes that the node prints parse back to the same value"):
`∀ si s, parseSize (abbreviateSpace si s) = .ok s`.  It is false of the code for every `s ≥ 1024`
(`printed_large_rejected`; witness `print_then_parse_counterexample`; known finding
`print-parse-decimal-rejected`), and could not hold exactly there in any case because printing rounds to
two decimals.  What is true, and proved, is the guarded statement for `s < 1024`. -/

/-- **print_then_parse (partial: sizes below 1024, printed `"%d B"`).**  Guard `s < 1024` is exactly the
    branch of `abbreviate_space` that prints an integer. -/
theorem print_then_parse_partial (si : Bool) (s : Nat) (hs : s < 1024) :
    parseSize (abbreviateSpace si s) = .ok s := by
  have h := documented_spellings_size (digitsOf s) [.ws] [.asc 66] 0 false true (digitsOf_ne_nil s) rfl (by decide) (by decide)
  simp only [abbreviateSpace, hs, if_true]
  rw [show (digitsOf s).map Sym.dig ++ [Sym.ws, Sym.asc 66] = (digitsOf s).map Sym.dig ++ [Sym.ws] ++ [Sym.asc 66] by simp,
    h, num_digitsOf]
  simp

example : abbreviateSpace true 1023 = [.dig 1, .dig 0, .dig 2, .dig 3, .ws, .asc 66] := by decide

/-- negation witness of the full statement: 1024 is printed "1.02 kB", which is rejected -/
theorem print_then_parse_counterexample :
    abbreviateSpace true 1024 = [.dig 1, .asc 46, .dig 0, .dig 2, .ws, .asc 107, .asc 66] ∧
    parseSize (abbreviateSpace true 1024) = .valueError := by decide

/-- in fact no size from 1024 up parses back, in either mode: the printed text has a decimal point -/
theorem printed_large_rejected (si : Bool) (s : Nat) (hs : 1024 ≤ s) :
    parseSize (abbreviateSpace si s) = .valueError := by
  have hs' : ¬ s < 1024 := by omega
  simp only [abbreviateSpace, hs', if_false, List.append_assoc, List.cons_append, List.nil_append]
  exact parseSize_digits_dot _ _ (digitsOf_ne_nil _) _

/-! ## The parsers accept exactly the documented grammar (both directions) -/

/-- `parse_duration` returns `v` **iff** the whole string is whitespace · number · whitespace · documented
    unit (any ASCII case) · whitespace and `v` = number × the unit's documented seconds. -/
theorem duration_accepts_iff (s : List Sym) (v : Nat) : parseDuration s = .ok v ↔ DocDuration s v := by
  constructor
  · exact accepted_implies_grammar_duration s v
  · rintro ⟨pre, ds, mid, w, post, word, k, rfl, hpre, hmid, hpost, hds, hu, hw, rfl⟩
    exact documented_spellings_duration pre mid post ds w word k hpre hmid hpost hds hu hw

/-- `parse_abbreviated_size` returns `v` **iff** the whole string is number · whitespace · documented suffix
    (as `str.upper()` sees it) · at most one final newline and `v` = number × 1000^i resp. 1024^i. -/
theorem size_accepts_iff (s : List Sym) (v : Nat) : parseSize s = .ok v ↔ DocSize s v := by
  constructor
  · exact accepted_implies_grammar_size s v
  · rintro ⟨ds, mid, w, tail, i, bin, hasB, rfl, hds, hmid, htail, hi, hw, rfl⟩
    exact parseSize_complete ds mid w tail i bin hasB hds hmid htail hi hw

/-- `parse_date` returns `t` **iff** the string is exactly `YYYY-MM-DD` for a day that exists and `t` is
    86400 × (days from 1970-01-01 to it). -/
theorem date_accepts_iff (s : List Sym) (t : Int) : parseDate s = .ok t ↔ DocDate s t := by
  constructor
  · intro h
    obtain ⟨a, b, c, d, e, f, g, h', hs, hv, ht, -⟩ := date_midnight_utc s t h
    exact ⟨a, b, c, d, e, f, g, h', hs, hv, ht⟩
  · rintro ⟨a, b, c, d, e, f, g, h', rfl, hv, rfl⟩
    rw [documented_spellings_date a b c d e f g h' hv]
    congr 1; omega

example : DocDuration [.dig 7, .asc 100, .asc 97, .asc 121, .asc 115] (7 * 86400) :=        -- "7days"
  (duration_accepts_iff _ _).mp (by decide)
example : DocSize [.dig 1, .dig 0, .dig 0, .ws, .asc 77] (100 * 1000 ^ 2) := (size_accepts_iff _ _).mp (by decide)  -- "100 M"
example : DocDate [.dig 2, .dig 0, .dig 0, .dig 9, .asc 45, .dig 0, .dig 1, .asc 45, .dig 1, .dig 6] 1232064000 :=
  (date_accepts_iff _ _).mp (by decide)

/-- a string outside the documented grammar never yields a value: the call raises (or, for the empty size
    only, returns `None`) -/
theorem malformed_rejected (s : List Sym) :
    ((¬ ∃ v, DocDuration s v) → parseDuration s = .valueError ∨ parseDuration s = .keyError) ∧
    ((¬ ∃ v, DocSize s v) → s ≠ [] → parseSize s = .valueError) ∧
    ((¬ ∃ t, DocDate s t) → parseDate s = .valueError ∨ parseDate s = .keyError) := by
  refine ⟨fun h => ?_, fun h hne => ?_, fun h => ?_⟩
  · cases hp : parseDuration s with
    | ok v => exact absurd ⟨v, (duration_accepts_iff s v).mp hp⟩ h
    | none => exact absurd hp (parseDuration_ne_none s)
    | valueError => exact Or.inl rfl
    | keyError => exact Or.inr rfl
  · cases hp : parseSize s with
    | ok v => exact absurd ⟨v, (size_accepts_iff s v).mp hp⟩ h
    | none => exact absurd ((parseSize_none_iff s).mp hp) hne
    | valueError => rfl
    | keyError => exact absurd hp (size_rejection_is_valueError s).1
  · cases hp : parseDate s with
    | ok v => exact absurd ⟨v, (date_accepts_iff s v).mp hp⟩ h
    | none => exact absurd hp (parseDate_ne_none s)
    | valueError => exact Or.inl rfl
    | keyError => exact Or.inr rfl

/-- the end anchor matters (seed C48-c dropped it): a valid duration followed by more text is not a duration —
    "1 month 15 days", "3 mon", "45 days #", "1 day 12 hours", "2 moons" are all rejected (instances of
    `duration_accepts_iff` ⇒; the seeded code read them as 31 days, 3 months, 45 days, 1 day, 2 months) -/
theorem duration_trailing_text_rejected :
    parseDuration [.dig 1, .ws, .asc 109, .asc 111, .asc 110, .asc 116, .asc 104, .ws, .dig 1, .dig 5, .ws, .asc 100, .asc 97, .asc 121, .asc 115] = .valueError ∧
    parseDuration [.dig 3, .ws, .asc 109, .asc 111, .asc 110] = .valueError ∧
    parseDuration [.dig 4, .dig 5, .ws, .asc 100, .asc 97, .asc 121, .asc 115, .ws, .asc 35] = .valueError ∧
    parseDuration [.dig 1, .ws, .asc 100, .asc 97, .asc 121, .ws, .dig 1, .dig 2, .ws, .asc 104, .asc 111, .asc 117, .asc 114, .asc 115] = .valueError ∧
    parseDuration [.dig 2, .ws, .asc 109, .asc 111, .asc 111, .asc 110, .asc 115] = .valueError := by decide

/-! ## The client.py glue: each `[storage]` setting reaches its parser; a malformed one stops node start -/

/-- `reserved_space`: absent or empty → 0 bytes reserved; otherwise the stripped value has the documented
    size grammar and the server reserves its documented number of bytes. -/
theorem glue_reserved_space (c : StorageCfg) (st : Started) (h : startStorage c = .started st) :
    (c.reservedSpace = none ∧ st.reserved = 0) ∨
    ∃ v, c.reservedSpace = some v ∧ ((strip v = [] ∧ st.reserved = 0) ∨ DocSize (strip v) st.reserved) := by
  obtain ⟨en, mode, old, cut, -, hrs, -⟩ := startStorageE_inv c st ((startStorage_started_iff c st).mp h)
  rcases readReserved_ok c _ hrs with h0 | ⟨v, hv, h1 | h2⟩
  · exact Or.inl h0
  · exact Or.inr ⟨v, hv, Or.inl h1⟩
  · exact Or.inr ⟨v, hv, Or.inr ((size_accepts_iff _ _).mp h2)⟩

/-- `expire.override_lease_duration`: if present it has the documented duration grammar (whatever the mode),
    and in "age" mode the lease checker uses exactly its documented number of seconds; absent → no override. -/
theorem glue_override_lease_duration (c : StorageCfg) (st : Started) (h : startStorage c = .started st) :
    (c.overrideLeaseDuration = none ∧ st.overrideDuration = none) ∨
    ∃ v n, c.overrideLeaseDuration = some v ∧ DocDuration (strip v) n ∧
      st.overrideDuration = (if st.mode = .age then some n else none) := by
  obtain ⟨en, mode, old, cut, -, -, -, -, -, hold, -, -, -, -, hm, -, ho, -⟩ :=
    startStorageE_inv c st ((startStorage_started_iff c st).mp h)
  rcases readOverride_ok c _ hold with ⟨h0, rfl⟩ | ⟨v, n, hv, hp, rfl⟩
  · left; refine ⟨h0, ?_⟩; rw [ho]; split <;> rfl
  · right; exact ⟨v, n, hv, (duration_accepts_iff _ _).mp hp, by rw [ho, hm]⟩

/-- `expire.cutoff_date`: in "cutoff-date" mode the key is present, is a documented date, and the lease
    checker's cutoff is that day's midnight UTC; in "age" mode there is no cutoff. -/
theorem glue_cutoff_date (c : StorageCfg) (st : Started) (h : startStorage c = .started st) :
    (st.mode = .age ∧ st.cutoff = none) ∨
    (st.mode = .cutoff ∧ c.expireMode = some .cutoff ∧
      ∃ v t, c.cutoffDate = some v ∧ DocDate (strip v) t ∧ st.cutoff = some t) := by
  obtain ⟨en, mode, old, cut, -, -, -, -, hmode, -, hcut, -, -, hne, hm, -, -, hc⟩ :=
    startStorageE_inv c st ((startStorage_started_iff c st).mp h)
  cases mode with
  | age => left; exact ⟨hm, by rw [hc]; rfl⟩
  | other => exact absurd rfl hne
  | cutoff =>
    right
    obtain ⟨v, t, hv, hp, rfl⟩ := readCutoff_ok c _ hcut
    refine ⟨hm, ?_, v, t, hv, (date_accepts_iff _ _).mp hp, by rw [hc]; rfl⟩
    unfold readMode at hmode
    split at hmode
    · rename_i m hm'; simp only [Except.ok.injEq] at hmode; rw [hm', hmode]
    · split at hmode <;> simp at hmode

/-- the boolean settings mean what they say, with the documented defaults (`readonly` false,
    `expire.enabled` false, `expire.immutable` / `expire.mutable` true); "age" is the default mode only
    while expiry is disabled -/
theorem glue_booleans (c : StorageCfg) (st : Started) (h : startStorage c = .started st) :
    getBool c.readonly false = .ok st.readonly ∧ getBool c.expireEnabled false = .ok st.enabled ∧
    getBool c.expireImmutable true = .ok st.immutable ∧ getBool c.expireMutable true = .ok st.mutable ∧
    (c.expireMode = none → st.enabled = false ∧ st.mode = .age) := by
  obtain ⟨en, mode, old, cut, hro, -, -, hen, hmode, -, -, himm, hmut, -, hm, he, -, -⟩ :=
    startStorageE_inv c st ((startStorage_started_iff c st).mp h)
  refine ⟨hro, by rw [he]; exact hen, himm, hmut, fun hnone => ?_⟩
  unfold readMode at hmode
  rw [hnone] at hmode
  cases en <;> simp at hmode
  exact ⟨he, by rw [hm, ← hmode]⟩

/-- **a malformed value stops node start**: `reserved_space` non-empty and not a documented size, an
    `override_lease_duration` that is not a documented duration (in any mode), or — in "cutoff-date" mode —
    a `cutoff_date` that is not a documented date: `get_anonymous_storage_server` raises. -/
theorem glue_malformed_value_stops_start (c : StorageCfg) :
    ((∃ v, c.reservedSpace = some v ∧ strip v ≠ [] ∧ ¬ ∃ n, DocSize (strip v) n) → ∃ e, startStorage c = .error e) ∧
    ((∃ v, c.overrideLeaseDuration = some v ∧ ¬ ∃ n, DocDuration (strip v) n) → ∃ e, startStorage c = .error e) ∧
    ((c.expireMode = some .cutoff ∧ ∃ v, c.cutoffDate = some v ∧ ¬ ∃ t, DocDate (strip v) t) →
      ∃ e, startStorage c = .error e) := by
  refine ⟨?_, ?_, ?_⟩
  · rintro ⟨v, hv, hne, hbad⟩
    rcases startStorage_total c with ⟨st, hst⟩ | he
    · rcases glue_reserved_space c st hst with ⟨h0, -⟩ | ⟨v', hv', ⟨h1, -⟩ | h2⟩
      · rw [hv] at h0; simp at h0
      · rw [hv] at hv'; cases hv'; exact absurd h1 hne
      · rw [hv] at hv'; cases hv'; exact absurd ⟨_, h2⟩ hbad
    · exact he
  · rintro ⟨v, hv, hbad⟩
    rcases startStorage_total c with ⟨st, hst⟩ | he
    · rcases glue_override_lease_duration c st hst with ⟨h0, -⟩ | ⟨v', n, hv', hd, -⟩
      · rw [hv] at h0; simp at h0
      · rw [hv] at hv'; cases hv'; exact absurd ⟨n, hd⟩ hbad
    · exact he
  · rintro ⟨hmode, v, hv, hbad⟩
    rcases startStorage_total c with ⟨st, hst⟩ | he
    · rcases glue_cutoff_date c st hst with ⟨hage, -⟩ | ⟨-, -, v', t, hv', hd, -⟩
      · -- mode "age" is impossible: the key says cutoff-date
        obtain ⟨en, mode, old, cut, -, -, -, -, hm', -, -, -, -, -, hm, -⟩ :=
          startStorageE_inv c st ((startStorage_started_iff c st).mp hst)
        unfold readMode at hm'
        rw [hmode] at hm'
        simp only [Except.ok.injEq] at hm'
        rw [← hm', hage] at hm
        exact absurd hm (by decide)
      · rw [hv] at hv'; cases hv'; exact absurd ⟨t, hd⟩ hbad
    · exact he

/-- an unreadable boolean, a mode other than "age"/"cutoff-date", expiry enabled without a mode, or
    "cutoff-date" without a date: node start stops -/
theorem glue_bad_boolean_or_mode_stops_start (c : StorageCfg)
    (h : c.readonly = some .bad ∨ c.debugDiscard = some .bad ∨ c.expireEnabled = some .bad ∨
         c.expireImmutable = some .bad ∨ c.expireMutable = some .bad ∨ c.expireMode = some .other ∨
         (c.expireEnabled = some .t ∧ c.expireMode = none) ∨ (c.expireMode = some .cutoff ∧ c.cutoffDate = none)) :
    ∃ e, startStorage c = .error e := by
  rcases startStorage_total c with ⟨st, hst⟩ | he
  · exfalso
    obtain ⟨en, mode, old, cut, hro, -, ⟨dd, hdd⟩, hen, hmode, -, hcut, himm, hmut, hne, -⟩ :=
      startStorageE_inv c st ((startStorage_started_iff c st).mp hst)
    rcases h with h | h | h | h | h | h | ⟨h1, h2⟩ | ⟨h1, h2⟩
    · rw [h] at hro; simp [getBool] at hro
    · rw [h] at hdd; simp [getBool] at hdd
    · rw [h] at hen; simp [getBool] at hen
    · rw [h] at himm; simp [getBool] at himm
    · rw [h] at hmut; simp [getBool] at hmut
    · unfold readMode at hmode; rw [h] at hmode; simp only [Except.ok.injEq] at hmode; exact hne hmode.symm
    · rw [h1] at hen; simp only [getBool, Except.ok.injEq] at hen
      unfold readMode at hmode; rw [h2, ← hen] at hmode; simp at hmode
    · unfold readMode at hmode; rw [h1] at hmode; simp only [Except.ok.injEq] at hmode
      rw [← hmode] at hcut
      unfold readCutoff at hcut; rw [h2] at hcut; simp [getConfig] at hcut
  · exact he

/-- **a documented configuration starts the node**: readable booleans, a documented (or empty / absent)
    `reserved_space`, a documented (or absent) override, mode "age" or "cutoff-date" (or absent while expiry
    is not enabled), and in "cutoff-date" mode a documented date. -/
theorem glue_documented_config_starts (c : StorageCfg)
    (hb : c.readonly ≠ some .bad ∧ c.debugDiscard ≠ some .bad ∧ c.expireEnabled ≠ some .bad ∧
          c.expireImmutable ≠ some .bad ∧ c.expireMutable ≠ some .bad)
    (hrs : ∀ v, c.reservedSpace = some v → strip v = [] ∨ ∃ n, DocSize (strip v) n)
    (hold : ∀ v, c.overrideLeaseDuration = some v → ∃ n, DocDuration (strip v) n)
    (hmode : c.expireMode = some .age ∨ c.expireMode = some .cutoff ∨ (c.expireMode = none ∧ c.expireEnabled ≠ some .t))
    (hcut : c.expireMode = some .cutoff → ∃ v t, c.cutoffDate = some v ∧ DocDate (strip v) t) :
    ∃ st, startStorage c = .started st := by
  obtain ⟨ro, h1⟩ := getBool_ok c.readonly false hb.1
  obtain ⟨dd, h3⟩ := getBool_ok c.debugDiscard false hb.2.1
  obtain ⟨en, h4⟩ := getBool_ok c.expireEnabled false hb.2.2.1
  obtain ⟨imm, h8⟩ := getBool_ok c.expireImmutable true hb.2.2.2.1
  obtain ⟨mu, h9⟩ := getBool_ok c.expireMutable true hb.2.2.2.2
  have h2 : ∃ rs, readReserved c = .ok rs := by
    unfold readReserved
    cases hc : c.reservedSpace with
    | none => exact ⟨0, rfl⟩
    | some v =>
      rcases hrs v hc with h0 | ⟨n, hn⟩
      · exact ⟨0, by simp only [getConfig, h0]; rfl⟩
      · exact ⟨n, by simp only [getConfig, (size_accepts_iff _ _).mpr hn]; rfl⟩
  obtain ⟨rs, h2⟩ := h2
  have h6 : ∃ old, readOverride c = .ok old := by
    unfold readOverride
    cases hc : c.overrideLeaseDuration with
    | none => exact ⟨none, rfl⟩
    | some v =>
      obtain ⟨n, hn⟩ := hold v hc
      exact ⟨some n, by simp only [getConfig, (duration_accepts_iff _ _).mpr hn]; rfl⟩
  obtain ⟨old, h6⟩ := h6
  have h5 : ∃ mode, readMode c en = .ok mode ∧ mode ≠ .other ∧ (mode = .cutoff → c.expireMode = some .cutoff) := by
    unfold readMode
    rcases hmode with h | h | ⟨h, hne⟩
    · exact ⟨.age, by rw [h], by decide, by intro h'; cases h'⟩
    · exact ⟨.cutoff, by rw [h], by decide, fun _ => h⟩
    · refine ⟨.age, ?_, by decide, by intro h'; cases h'⟩
      rw [h]
      have : en = false := by
        cases he : c.expireEnabled with
        | none => rw [he] at h4; simp only [getBool, Except.ok.injEq] at h4; exact h4.symm
        | some x =>
          cases x with
          | t => exact absurd he hne
          | f => rw [he] at h4; simp only [getBool, Except.ok.injEq] at h4; exact h4.symm
          | bad => exact absurd he hb.2.2.1
      simp [this]
  obtain ⟨mode, h5, hno, hcm⟩ := h5
  have h7 : ∃ cut, readCutoff c mode = .ok cut := by
    unfold readCutoff
    by_cases hm : mode = .cutoff
    · obtain ⟨v, t, hv, ht⟩ := hcut (hcm hm)
      exact ⟨some t, by simp only [hm, if_true, hv, getConfig, (date_accepts_iff _ _).mpr ht]; rfl⟩
    · exact ⟨none, by simp only [hm, if_false]⟩
  obtain ⟨cut, h7⟩ := h7
  have := startStorageE_of_reads c ro dd en imm mu rs mode old cut h1 h2 h3 h4 h5 h6 h7 h8 h9
  unfold startStorage
  rw [this]
  cases mode with
  | age => exact ⟨_, rfl⟩
  | cutoff => exact ⟨_, rfl⟩
  | other => exact absurd rfl hno

-- a whole documented [storage] section: reserved_space = " 1 G ", expire.enabled, mode age, override "2 mo", expire.mutable = no
example : startStorage { reservedSpace := some [.ws, .dig 1, .ws, .asc 71, .ws], expireEnabled := some .t, expireMode := some .age,
                         overrideLeaseDuration := some [.dig 2, .asc 109, .asc 111], expireMutable := some .f }
    = .started ⟨1000000000, true, .age, some 5356800, none, true, false, false⟩ := by decide
-- cutoff-date mode with the documented date; an override in this mode is parsed (must be well-formed) but not used
set_option maxRecDepth 8000 in
example : startStorage { expireMode := some .cutoff, cutoffDate := some [.dig 2, .dig 0, .dig 0, .dig 9, .asc 45, .dig 0, .dig 1, .asc 45, .dig 1, .dig 6],
                         overrideLeaseDuration := some [.dig 7, .asc 100, .asc 97, .asc 121, .asc 115] }
    = .started ⟨0, false, .cutoff, none, some 1232064000, true, true, false⟩ := by decide
-- malformed values stop the start: "1.5G", "1 month 15 days", 2009-02-31, "1ſ" (KeyError), enabled without a mode
example : startStorage { reservedSpace := some [.dig 1, .asc 46, .dig 5, .asc 71] } = .error .valueError := by decide
example : startStorage { expireMode := some .cutoff, cutoffDate := some [.dig 2, .dig 0, .dig 0, .dig 9, .asc 45, .dig 0, .dig 2, .asc 45, .dig 3, .dig 1] }
    = .error .valueError := by decide
example : startStorage { overrideLeaseDuration := some [.dig 1, .longS] } = .error .keyError := by decide
example : startStorage { expireEnabled := some .t } = .error .missingEntry := by decide

/-! ## `_Config.get_config`: a present value — blank or not — reaches its parser; `getboolean` and the mode literals -/

/-- `get_config` hands the parser the stripped item whenever the option is present; only an absent option
    yields the default.  In particular a blank item is `some []`, not the default `none` (seed C48-e). -/
theorem get_config_present_reaches_parser :
    getConfig none = none ∧ (∀ v, getConfig (some v) = some (strip v)) ∧
    (∀ v, v.all isWs = true → getConfig (some v) = some []) := by
  refine ⟨rfl, fun _ => rfl, fun v h => ?_⟩
  simp [getConfig, strip_allWs v h]

/-- **a present-but-blank value is malformed, not absent**: a blank `expire.override_lease_duration` (in any
    mode), a blank `expire.cutoff_date` in "cutoff-date" mode, a blank `expire.mode` and a blank boolean all stop
    node start; only `reserved_space`, whose documentation makes it optional, reads blank as "no reservation". -/
theorem glue_blank_value_stops_start (r : RawStorageCfg) :
    ((∃ v, r.overrideLeaseDuration = some v ∧ v.all isWs = true) → ∃ e, startStorageRaw r = .error e) ∧
    ((∃ v, r.expireMode = some v ∧ v.all isWs = true) → ∃ e, startStorageRaw r = .error e) ∧
    ((∃ m, r.expireMode = some m ∧ classifyMode m = .cutoff) → (∃ v, r.cutoffDate = some v ∧ v.all isWs = true) →
      ∃ e, startStorageRaw r = .error e) ∧
    ((∃ v, v.all isWs = true ∧ (r.readonly = some v ∨ r.debugDiscard = some v ∨ r.expireEnabled = some v ∨
        r.expireImmutable = some v ∨ r.expireMutable = some v)) → ∃ e, startStorageRaw r = .error e) ∧
    (∀ v st, r.reservedSpace = some v → v.all isWs = true → startStorageRaw r = .started st → st.reserved = 0) := by
  unfold startStorageRaw
  refine ⟨?_, ?_, ?_, ?_, ?_⟩
  · rintro ⟨v, hv, hb⟩
    refine (glue_malformed_value_stops_start _).2.1 ⟨v, by simp [readSection, hv], ?_⟩
    rw [strip_allWs v hb]; exact not_docDuration_nil
  · rintro ⟨v, hv, hb⟩
    exact glue_bad_boolean_or_mode_stops_start _ (by simp [readSection, hv, classifyMode_blank v hb])
  · rintro ⟨m, hm, hc⟩ ⟨v, hv, hb⟩
    refine (glue_malformed_value_stops_start _).2.2 ⟨by simp [readSection, hm, hc], v, by simp [readSection, hv], ?_⟩
    rw [strip_allWs v hb]; exact not_docDate_nil
  · rintro ⟨v, hb, h⟩
    apply glue_bad_boolean_or_mode_stops_start
    rcases h with h | h | h | h | h <;> simp [readSection, h, classifyBool_blank v hb]
  · intro v st hv hb hst
    rcases glue_reserved_space _ st hst with ⟨h0, -⟩ | ⟨v', hv', ⟨-, h1⟩ | h2⟩
    · simp [readSection, hv] at h0
    · exact h1
    · simp only [readSection, hv, Option.some.injEq] at hv'
      subst hv'
      rw [strip_allWs v hb] at h2
      obtain ⟨ds, mid, w, tail, i, bin, hasB, hs, hds, -⟩ := h2
      cases ds with
      | nil => exact absurd rfl hds
      | cons d ds => simp at hs

/-- `configparser.getboolean`: true for "1", "yes", "true", "on", false for "0", "no", "false", "off" — in any
    case, with any surrounding whitespace — and exactly those (`classifyBool_iff`). -/
theorem getboolean_spellings (pre w post : List Sym) (hpre : pre.all isWs = true) (hpost : post.all isWs = true) :
    (w = [.dig 1] ∨ (∃ word ∈ [[121, 101, 115], [116, 114, 117, 101], [111, 110]], w.map lowerSym = wordSyms word) →
      classifyBool (pre ++ w ++ post) = .t) ∧
    (w = [.dig 0] ∨ (∃ word ∈ [[110, 111], [102, 97, 108, 115, 101], [111, 102, 102]], w.map lowerSym = wordSyms word) →
      classifyBool (pre ++ w ++ post) = .f) := by
  constructor
  · rintro (rfl | ⟨word, hmem, hw⟩)
    · rw [classifyBool, strip_pad pre _ post hpre hpost (by simp) rfl rfl]; decide
    · have he := variant_ends w word hw
      have hne : w ≠ [] := by
        rintro rfl
        simp only [List.mem_cons, List.not_mem_nil, or_false] at hmem
        rcases hmem with rfl | rfl | rfl <;> simp [wordSyms] at hw
      rw [classifyBool, strip_pad pre w post hpre hpost hne he.1 he.2]
      simp only [hw, List.mem_cons, List.not_mem_nil, or_false] at hmem ⊢
      rcases hmem with rfl | rfl | rfl <;> decide
  · rintro (rfl | ⟨word, hmem, hw⟩)
    · rw [classifyBool, strip_pad pre _ post hpre hpost (by simp) rfl rfl]; decide
    · have he := variant_ends w word hw
      have hne : w ≠ [] := by
        rintro rfl
        simp only [List.mem_cons, List.not_mem_nil, or_false] at hmem
        rcases hmem with rfl | rfl | rfl <;> simp [wordSyms] at hw
      rw [classifyBool, strip_pad pre w post hpre hpost hne he.1 he.2]
      simp only [hw, List.mem_cons, List.not_mem_nil, or_false] at hmem ⊢
      rcases hmem with rfl | rfl | rfl <;> decide

theorem classifyBool_iff (v : List Sym) :
    (classifyBool v = .t ↔ (strip v).map lowerSym ∈ trueWords) ∧
    (classifyBool v = .f ↔ (strip v).map lowerSym ∈ falseWords) := by
  have hdisj : ∀ w, w ∈ trueWords → w ∉ falseWords := by decide
  unfold classifyBool
  simp only [List.contains_iff_mem]
  by_cases ht : (strip v).map lowerSym ∈ trueWords
  · simp [ht, hdisj _ ht]
  · by_cases hf : (strip v).map lowerSym ∈ falseWords <;> simp [ht, hf]

/-- the mode is compared with the two literals, case-sensitively, after stripping -/
theorem mode_literals (v : List Sym) :
    (classifyMode v = .age ↔ strip v = wordSyms [97, 103, 101]) ∧
    (classifyMode v = .cutoff ↔ strip v = wordSyms [99, 117, 116, 111, 102, 102, 45, 100, 97, 116, 101]) := by
  unfold classifyMode
  by_cases ha : strip v = wordSyms [97, 103, 101]
  · simp [ha]; decide
  · by_cases hc : strip v = wordSyms [99, 117, 116, 111, 102, 102, 45, 100, 97, 116, 101]
    · simp [hc]; decide
    · simp [ha, hc]

-- " Yes " is true, "OFF" is false, "" / "maybe" are not booleans; "age" vs "Age"; whole raw sections
example : classifyBool [.ws, .asc 89, .asc 101, .asc 115, .ws] = .t ∧ classifyBool [.asc 79, .asc 70, .asc 70] = .f ∧
    classifyBool [] = .bad ∧ classifyBool [.asc 109, .asc 97, .asc 121, .asc 98, .asc 101] = .bad := by decide
example : classifyMode [.asc 97, .asc 103, .asc 101, .ws] = .age ∧ classifyMode [.asc 65, .asc 103, .asc 101] = .other := by decide
example : startStorageRaw { expireEnabled := some [.asc 116, .asc 114, .asc 117, .asc 101], expireMode := some [.asc 97, .asc 103, .asc 101],
                            overrideLeaseDuration := some [.ws] } = .error .valueError := by decide     -- blank override: not "no override"
example : startStorageRaw { expireEnabled := some [.asc 111, .asc 110], expireMode := some [.asc 97, .asc 103, .asc 101],
                            overrideLeaseDuration := some [.dig 0, .ws, .asc 100, .asc 97, .asc 121, .asc 115] }
    = .started ⟨0, true, .age, some 0, none, true, true, false⟩ := by decide                            -- "0 days" is 0, not None (seed C48-d)

end Tahoe.C48
