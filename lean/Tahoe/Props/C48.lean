import Tahoe.Config.Parse
namespace Tahoe.C48
end Tahoe.C48
