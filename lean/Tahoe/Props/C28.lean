import Tahoe.Storage.ImmSpaceLemmas
import Tahoe.Storage.ImmConnLemmas
import Tahoe.Storage.ImmDirLemmas
/-!
C28 — storage space reservations are honoured (property theorems only).
Model: `allocate` / `allocLoop` / `allocatedSize` / `availableSpace` in `Tahoe/Storage/Immutable.lean`
(`allocate_buckets`, `allocated_size`, `get_available_space`, `bucket_writer_closed`).
`free` is what the disk reports at the call (`freeBytes st = f_frsize × f_bavail` for a statvfs record
`st`); `availableSpace s free = max(free − reserved_space, 0)`, and `0` on a read-only server.  The
read-only repair (fixes/C28-readonly.diff) is in /repo; the `…_unfixed…` theorems describe the old code.
Reachable-state theorems (`abort_always_releases`, `lost_connection_releases_space`) are over front-end
histories `FOp` (direct calls, Foolscap allocations, connection losses, restarts).
-/
/-!
## Coverage of the statement (properties.jsonl C28)

| clause of the statement | theorem(s) for the model |
|---|---|
| never accepts new allocations whose reserved sizes, together with uploads in progress and reserved_space, exceed the available space | `never_overcommits` (every state, request, disk reading; Σ in progress after ≤ max(0, free − reserved_space); each accepted share reserves its full `size` — seeded C28-a/C28-b) |
| a read-only server accepts none | `readonly_accepts_none` (repaired code, any size); unrepaired code: `readonly_accepts_none_unfixed_counterexample`, `readonly_unfixed_partial` |
| space reserved for an upload is released when the upload completes | `released_on_close_or_abort` (close) |
| … or is aborted (abort, disconnect, timeout) | `released_on_close_or_abort` (abort, timeout sweep), `abort_always_releases` (with the directory cleanup of abort, siblings present or not — seeded C28-c), `lost_connection_releases_space` (Foolscap disconnect, reachable states — seeded C22-b) |
| quantifier: histories × configurations (capacity, reserved_space, read-only) | theorems are per step for every state/configuration; reachable-state ones by induction over front-end histories |
| available space is computed from the statvfs record as `f_bavail × f_frsize` (not `f_bsize`), minus reserved_space, floored at 0 | model `freeBytes` / `diskAvail`; `never_overcommits_statvfs` (admitted total ≤ f_bavail·f_frsize − reserved_space for every statvfs record — seeded C28-e); tied by correspondence on geometries with f_bsize ≠ f_frsize (real `get_disk_stats` runs on a patched `os.statvfs`) |
| platform without statvfs (`None` = unlimited) | not covered (not modelled) |
-/
namespace Tahoe.C28
open Tahoe.Base.File Tahoe.Storage.Imm

def exRec : Bytes := List.replicate 72 7

/-- **never_overcommits**: whenever `allocate_buckets` accepts at least one share, the sizes reserved
    by all uploads in progress afterwards (the new ones included) do not exceed
    `max(0, free − reserved_space)` as observed at that call; in every case the reservation total
    grows by exactly `size` per accepted share.  Holds for every server state, every request and every
    disk reading (no invariant needed). -/
theorem never_overcommits (s : Server) (si : Nat) (shs : List Nat) (size : Nat) (rec : Bytes)
    (free : Nat) (order : List Nat) (o : AllocOut)
    (h : (allocate s si shs size rec free order).2 = .ok o) :
    allocatedSize (allocate s si shs size rec free order).1 = allocatedSize s + o.writers.length * size ∧
    (o.writers ≠ [] → allocatedSize (allocate s si shs size rec free order).1 ≤ availableSpace s free) ∧
    availableSpace s free = (if s.readonly then 0 else free - s.reserved) := by
  simp only [allocate, allocateWith] at h ⊢
  generalize leaseLoop (availableSpace s free) rec si s.final order = ll at h ⊢
  obtain ⟨fin', err⟩ := ll
  cases err with
  | some e => simp at h
  | none =>
    simp only at h ⊢
    have sp := allocLoop_space si size rec shs { s with final := fin' }
      ((availableSpace s free : Int) - (allocatedSize s : Int))
    simp only at sp
    simp only [Except.ok.injEq] at h
    subst h
    have ha : allocatedSize { s with final := fin' } = allocatedSize s := rfl
    rw [ha] at sp
    refine ⟨sp.1, fun hne => ?_, rfl⟩
    have b := sp.2 hne
    rw [sp.1]; omega

example : (allocate (Server.empty false 10) 0 [0, 1, 2] 40 exRec 100 []).2.toOption.map (·.writers) =
    some [(0, 0), (1, 1)] ∧
    allocatedSize (allocate (Server.empty false 10) 0 [0, 1, 2] 40 exRec 100 []).1 = 80 := by decide

/-- **released_on_close_or_abort**: closing or aborting (also: disconnect, timeout) an upload in
    progress lowers the reservation total by exactly that upload's allocated size; a timeout sweep
    keeps exactly the reservations of the uploads whose deadline has not passed. -/
theorem released_on_close_or_abort (s : Server) (h : WF s) (wid : Nat) (k : Key) (w : Writer) (f : File)
    (hf : findWid wid s.incoming = some (k, (w, f))) (dt : Nat) :
    allocatedSize (closeOp s wid).1 + w.maxSize = allocatedSize s ∧
    allocatedSize (abortOp s wid) + w.maxSize = allocatedSize s ∧
    allocatedSize (advanceOp s dt) =
      allocSum (s.incoming.filter (fun e => decide (s.now + dt < e.2.1.deadline))) :=
  ⟨(closeOp_effect s h wid k w f hf).2.2.2.2.2, (abortOp_effect s h wid k w f hf).2.2.2.2, rfl⟩

example :
    let s := (allocate (Server.empty false 10) 0 [0, 1, 2] 40 exRec 100 []).1
    allocatedSize s = 80 ∧ allocatedSize (closeOp s 0).1 = 40 ∧ allocatedSize (abortOp s 1) = 40 ∧
    allocatedSize (advanceOp s 1800) = 0 := by decide

/-- **lost_connection_releases_space**: in every state reachable from an empty server (direct calls,
    Foolscap allocations on connections, connection losses), losing connection `c` lowers the
    reservation total by exactly the reservations of the uploads in progress whose handle is
    registered on `c` (all of them are released, nothing else is), and afterwards no writer of `c`
    holds a reservation. -/
theorem lost_connection_releases_space (ro : Bool) (rs : Nat) (ops : List FOp) (ok : ∀ o ∈ ops, FOpOk o)
    (c : Nat) :
    let s := frun (Server.empty ro rs) ops
    allocatedSize (disconnectOp s c) +
        allocSum (s.incoming.filter (fun e => (widsOfConn s c).contains e.2.1.wid)) = allocatedSize s ∧
    (∀ e ∈ (disconnectOp s c).incoming, e.2.1.wid ∉ widsOfConn s c) := by
  intro s
  obtain ⟨hw, hh⟩ := frun_inv _ (wf_empty ro rs) (wfh_empty ro rs) ops ok
  have heq := foldl_abort_eq_filter (widsOfConn s c) s hw.incKeys hh.widNodup
  have hinc : (disconnectOp s c).incoming =
      s.incoming.filter (fun e => !((widsOfConn s c).contains e.2.1.wid)) := by
    simp only [disconnectOp]; rw [heq]
  constructor
  · have := allocSum_filter_split s.incoming (fun e => (widsOfConn s c).contains e.2.1.wid)
    simp only [allocatedSize, hinc, allocSum] at this ⊢
    omega
  · intro e he
    rw [hinc] at he
    simp only [List.mem_filter, Bool.not_eq_true', List.contains_eq_mem, decide_eq_false_iff_not] at he
    exact he.2

/-- two connections on one storage index: 2×40 reserved by connection 1 (one share then closed),
    2×10 by connection 2; losing connection 1 releases its remaining 40, connection 2 keeps 20 -/
example :
    let s := frun (Server.empty false 10) [.allocConn 1 0 [0, 1] 40 exRec 200 [], .allocConn 2 0 [1, 2, 3] 10 exRec 200 [],
      .direct (.close 0)]
    allocatedSize s = 60 ∧ allocatedSize (disconnectOp s 1) = 20 ∧ allocatedSize (disconnectOp s 2) = 40 ∧
    allocatedSize (disconnectOp (disconnectOp s 1) 2) = 0 := by decide

/-- **abort_always_releases**: in every state reachable by front-end operations on the server with
    its directory tree (`dfrun`), aborting a live upload — explicitly, by disconnect or by timeout —
    never raises in its directory cleanup (`os.rmdir` is only attempted on an existing, empty
    directory), so `bucket_writer_closed` is always reached and the reservation total drops by
    exactly that upload's size, whether or not sibling uploads share its incoming directories. -/
theorem abort_always_releases (pre : Nat → Nat) (ro : Bool) (rs : Nat) (ops : List FOp)
    (ok : ∀ o ∈ ops, FOpOk o) (wid : Nat) (k : Key) (w : Writer) (f : File) :
    let d := dfrun pre (DServer.empty ro rs) ops
    findWid wid d.srv.incoming = some (k, (w, f)) →
    (dAbort d wid).2 = false ∧
    allocatedSize (dAbort d wid).1.srv + w.maxSize = allocatedSize d.srv := by
  intro d hf
  have hd : DInv d := dfrun_dinv pre _ (dinv_empty ro rs) ops ok
  have inv := dAbort_inv d hd.dirs wid
  refine ⟨inv.1, ?_⟩
  rw [inv.2.1]
  exact (abortOp_effect d.srv hd.wf wid k w f hf).2.2.2.2

/-- two uploads of one storage index share the incoming bucket directory (the C28-c situation):
    aborting the first cannot rmdir it, and still releases; aborting the second removes it -/
example :
    let d := dfrun (fun si => si % 2) (DServer.empty false 0) [.allocConn 1 0 [0, 1] 40 exRec 200 []]
    allocatedSize d.srv = 80 ∧ (dAbort d 0).2 = false ∧ allocatedSize (dAbort d 0).1.srv = 40 ∧
    Dir.incDir 0 ∈ (dAbort d 0).1.dirs ∧
    allocatedSize (dAbort (dAbort d 0).1 1).1.srv = 0 ∧ Dir.incDir 0 ∉ (dAbort (dAbort d 0).1 1).1.dirs := by
  decide

/-- **readonly_accepts_none** (with the repair fixes/C28-readonly.diff): a read-only server creates
    no BucketWriter and reserves nothing, whatever the requested size (0 included), the disk and the
    state. -/
theorem readonly_accepts_none (s : Server) (hro : s.readonly = true) (si : Nat) (shs : List Nat)
    (size : Nat) (rec : Bytes) (free : Nat) (order : List Nat) :
    (allocate s si shs size rec free order).1.incoming = s.incoming ∧
    (∀ o, (allocate s si shs size rec free order).2 = .ok o → o.writers = []) := by
  simp only [allocate, allocateWith]
  generalize leaseLoop (availableSpace s free) rec si s.final order = ll
  obtain ⟨fin', err⟩ := ll
  cases err with
  | some e => simp
  | none =>
    simp only
    rw [allocLoop_readonly si size rec shs { s with final := fin' } _ hro]
    simp only [true_and]
    intro o ho
    simp only [Except.ok.injEq] at ho
    subst ho; rfl

example : (allocate (Server.empty true 0) 0 [0, 1] 0 exRec 1000 []).2.toOption.map (·.writers) = some [] := by
  decide

/-- **never_overcommits_statvfs**: for every `os.statvfs` record (whatever `f_bsize` says), whenever
    `allocate_buckets` accepts a share, the reservations in progress afterwards do not exceed the bytes
    really free for the server, `f_bavail × f_frsize`, minus `reserved_space` (floored at 0), and on a
    read-only server nothing is accepted. -/
theorem never_overcommits_statvfs (s : Server) (st : StatVfs) (si : Nat) (shs : List Nat) (size : Nat)
    (rec : Bytes) (order : List Nat) (o : AllocOut)
    (h : (allocate s si shs size rec (freeBytes st) order).2 = .ok o) (hne : o.writers ≠ []) :
    allocatedSize (allocate s si shs size rec (freeBytes st) order).1 ≤ st.bavail * st.frsize - s.reserved ∧
    allocatedSize (allocate s si shs size rec (freeBytes st) order).1 ≤ diskAvail st s.reserved ∧
    s.readonly = false := by
  have e := never_overcommits s si shs size rec (freeBytes st) order o h
  have h1 := e.2.1 hne
  have hro : s.readonly = false := by
    cases hr : s.readonly with
    | false => rfl
    | true => exact absurd ((readonly_accepts_none s hr si shs size rec (freeBytes st) order).2 o h) hne
  rw [e.2.2, hro] at h1
  simp only [Bool.false_eq_true, if_false] at h1
  refine ⟨?_, h1, hro⟩
  simp only [freeBytes] at h1
  rw [Nat.mul_comm]; exact h1

/-- 4 KiB fragments, 1 MiB preferred I/O size, 3 fragments available, 1000 bytes reserved: of three
    5000-byte shares two fit into 3·4096 − 1000 = 11288 bytes (with `f_bsize` as the unit all would) -/
example :
    let st : StatVfs := { frsize := 4096, bsize := 1048576, blocks := 100, bfree := 3, bavail := 3 }
    let r := allocate (Server.empty false 1000) 0 [0, 1, 2] 5000 exRec (freeBytes st) []
    diskAvail st 1000 = 11288 ∧ r.2.toOption.map (·.writers) = some [(0, 0), (1, 1)] ∧
    allocatedSize r.1 = 10000 := by
  refine ⟨by decide, ?_, ?_⟩ <;> rfl

/-- the code as it is in the unrepaired tree (`allocLoopUnfixed`: no read-only test of its own, only
    `remaining_space >= allocated_size` with `remaining_space = 0`) accepts zero-size shares on a
    read-only server — the defect reproduced by the monitor (signature `c28-readonly-accepts-size0`) -/
theorem readonly_accepts_none_unfixed_counterexample :
    (allocateUnfixed (Server.empty true 0) 0 [0, 1] 0 exRec 1000 []).2.toOption.map (·.writers) =
      some [(0, 0), (1, 1)] := by decide

/-- …and only those: with a positive size the unrepaired loop on a read-only server with nothing in
    progress accepts nothing either (`remaining_space = 0 − allocated ≤ 0 < size`) -/
theorem readonly_unfixed_partial (s : Server) (hro : s.readonly = true) (si : Nat) (shs : List Nat)
    (size : Nat) (hs : 0 < size) (rec : Bytes) (free : Nat) (order : List Nat) (o : AllocOut)
    (h : (allocateUnfixed s si shs size rec free order).2 = .ok o) : o.writers = [] := by
  simp only [allocateUnfixed, allocateWith] at h
  generalize leaseLoop (availableSpace s free) rec si s.final order = ll at h
  obtain ⟨fin', err⟩ := ll
  cases err with
  | some e => simp at h
  | none =>
    simp only [Except.ok.injEq] at h
    subst h
    have sp := allocLoopUnfixed_space si size rec shs { s with final := fin' }
      ((availableSpace s free : Int) - (allocatedSize s : Int))
    simp only at sp ⊢
    apply Classical.byContradiction; intro hne
    have b := sp.2 hne
    have h0 : availableSpace s free = 0 := by simp [availableSpace, hro]
    rw [h0] at b
    have hl : 0 < (allocLoopUnfixed si size rec { s with final := fin' }
        (((0 : Nat) : Int) - (allocatedSize s : Int)) shs).2.length := by
      rw [h0] at hne; exact List.length_pos_iff.mpr hne
    have := Nat.mul_pos hl hs
    omega

end Tahoe.C28
