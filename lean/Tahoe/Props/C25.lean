import Tahoe.Storage.LemmasSlot
import Tahoe.Storage.LemmasImmLease
import Tahoe.Storage.LemmasLeaseBucket
/-!
C25 — lease semantics (property theorems).  Models: `Tahoe/Storage/Lease.lean` (records, v1/v2
serializers with an abstract `blake2b`, immutable container incl. `cancel_lease`, `createWithLease`,
`write_share_data`), `Tahoe/Storage/Mutable.lean` (mutable container incl. `cancel_lease`),
`Tahoe/Storage/Slot.lean` (server-level `add_lease` / `renew_lease` / `allocate_buckets` / upload write and close /
per-share cancel).  Helper lemmas: `Tahoe/Storage/Lemmas{Lease,ImmLease,Slot,LeaseBucket}.lean`.

Coverage of the statement (properties.jsonl C25), clause → theorem(s):
* "adding a lease whose renew secret already exists renews that lease … instead of adding a duplicate"
      → container: `renew_or_add` (= `renew_or_add_mutable` + `renew_or_add_immutable`); server `add_lease` over a whole
        mixed bucket: `add_lease_no_duplicate`
* "… and never shortens its expiry" → container: `no_backdating` (renew path and add path, both kinds),
      `no_backdating_renew_*`; whole buckets / server ops (`add_lease`, `renew_lease`, `allocate_buckets` renewing the
      shares already held): `server_lease_ops_keep_every_lease`, `add_lease_keeps_share`;
      `slot_testv_and_readv_and_writev`: `rtw_keeps_every_lease`
* "renewing with an unknown secret changes nothing and reports an error" → `unknown_renew_noop_error` (both kinds),
      `unknown_renew_noop_error_server`
* "leases survive share data writes and container growth" → mutable: `leases_survive_data_ops`, whole request
      `rtw_keeps_every_lease`; immutable upload: `data_write_keeps_leases_immutable` + `open_upload_container`
* "new-format containers never store lease secrets in cleartext" → `v2_no_cleartext` (non-interference, both kinds,
      abstract blake2b)
* cancel (quantifier of the statement: add/renew/cancel/write histories) → `cancel_unknown_noop_error(_immutable)`,
      `cancel_removes_exactly(_immutable)`, `cancel_all_unlinks_*`, `cancel_unlink_removes_share_only`
* constants → `lease_constants`
* hypotheses that exclude inputs: expiry `< 2^32` and immutable lease count `+1 < 2^32` (Python raises `struct.error`
  there, the model packs mod 2^32); request keys distinct in `rtw_keeps_every_lease` (a Python dict).
* lease counts under the other server calls → `renew_lease_keeps_lease_counts` (never adds or removes a lease),
      `allocate_no_duplicate` (the upload's lease renews where the secret is known)
* not covered: the exact bucket-level expiry value `max(old, new)` (container level: `renew_or_add`; bucket level only
  "not smaller"); expirer-driven cancellation schedules (C26).
-/
namespace Tahoe.C25
open Tahoe.Base.File Tahoe.Storage Tahoe.Storage.Mutable Tahoe.Storage.Slot Tahoe.Generated.Storage

/-- record formats and sizes are those of the source -/
theorem lease_constants :
    lease_IMMUTABLE_FORMAT = ">L32s32sL" ∧ lease_MUTABLE_FORMAT = ">LL32s32s20s" ∧ lease_IMMUTABLE_SIZE = 72 ∧
    lease_MUTABLE_SIZE = 92 ∧ imm_LEASE_SIZE = 72 ∧ mut_LEASE_SIZE = 92 ∧ imm_DATA_OFFSET = 12 ∧
    imm_SCHEMA_VERSIONS = [1, 2] ∧ imm_NEWEST_SCHEMA_VERSION = 2 ∧ mut_NEWEST_SCHEMA_VERSION = 2 ∧
    imm_V1_CLEARTEXT = true ∧ imm_V2_HASHED = true ∧ mut_V1_CLEARTEXT = true ∧ mut_V2_HASHED = true ∧
    DEFAULT_RENEWAL_TIME = 31 * 24 * 60 * 60 := by decide

/-! ### renewing with an unknown secret changes nothing and reports an error -/

/-- container level, mutable and immutable: if no lease of the container matches the secret,
    `renew_lease` returns the container byte-for-byte unchanged and raises `IndexError` -/
theorem unknown_renew_noop_error (h : Bytes → Bytes) (secret : Bytes) (t : Nat) :
    (∀ f s, Mutable.schemaOf f = some s → Mutable.findRenew h s secret (enumerateLeases f) = none →
      Mutable.renewLease h f secret t = (f, some .indexError)) ∧
    (∀ f s, ImmL.schemaOf f = some s → ImmL.findRenew h s secret (ImmL.getLeases f) 0 = none →
      ImmL.renewLease h f secret t = (f, some .indexError)) := by
  constructor
  · intro f s hs hf; simp only [Mutable.renewLease, hs, hf]
  · intro f s hs hf; simp only [ImmL.renewLease, hs, hf]

/-- server level (`StorageServer.renew_lease`): if no share file of the bucket knows the secret (each
    container's `renew_lease` raises, leaving its file unchanged by the theorem above), the call raises
    and every file of the bucket is unchanged — also when the bucket is empty (`IndexError`) -/
theorem unknown_renew_noop_error_server (env : Env) (b : Bucket) (secret : Bytes)
    (hunk : ∀ p ∈ b, ∃ e, shareRenew env p.2 secret (env.now + renewalTime) = (p.2, some e)) :
    (serverRenewLease env b secret).1 = b ∧ (serverRenewLease env b secret).2 ≠ none := by
  unfold serverRenewLease
  split
  · exact ⟨rfl, by simp⟩
  · cases b with
    | nil => simp at *
    | cons p rest =>
      obtain ⟨n, f⟩ := p
      obtain ⟨e, he⟩ := hunk (n, f) (List.mem_cons_self ..)
      simp only at he
      simp only [renewAll, he]
      exact ⟨trivial, by simp⟩

/-! ### renew-or-add and no backdating (both container kinds) -/

/-- **renew_or_add**, mutable container (v1 and v2): `add_or_renew_lease` with a renew secret that an
    existing lease already carries succeeds without needing any space, leaves the NUMBER of leases
    unchanged, sets that lease's expiry to `max(old, new)` and leaves every other lease — and the
    renewed lease's owner, secrets and nodeid — exactly as they were -/
theorem renew_or_add_mutable (h : Bytes → Bytes) (f : File) (hwf : WF f) (s : Schema) (hs : Mutable.schemaOf f = some s)
    (avail : Nat) (li : Lease) (hexp : li.expire < 2 ^ 32) (i : Nat) (l : Lease)
    (hfind : Mutable.findRenew h s li.renew (enumerateLeases f) = some (i, l)) :
    (addOrRenew h f avail li).2 = none ∧
    enumerateLeases (addOrRenew h f avail li).1 =
      (enumerateLeases f).map (fun p => if p.1 = i then (i, { l with expire := max l.expire li.expire }) else p) ∧
    (getLeases (addOrRenew h f avail li).1).length = (getLeases f).length := by
  have hmem := (findRenew_some hfind).1
  obtain ⟨ho, ho', he, hr, hc, hn⟩ := listed_lease f hwf i l hmem
  have key : (addOrRenew h f avail li).2 = none ∧
      enumerateLeases (addOrRenew h f avail li).1 =
        (enumerateLeases f).map (fun p => if p.1 = i then (i, { l with expire := max l.expire li.expire }) else p) := by
    simp only [Mutable.addOrRenew, Mutable.renewLease, hs, hfind]
    by_cases hgt : li.expire > l.expire
    · simp only [hgt, if_true, true_and]
      have hmax : max l.expire li.expire = li.expire := Nat.max_eq_right (by omega)
      rw [hmax]
      apply enumerateLeases_write f hwf i l _ hmem _ (length_serMut _)
      unfold decodeRec
      rw [parseMut_serMut { l with expire := li.expire } ho' hexp hr hc hn]
      simp [ho]
    · simp only [hgt, if_false, true_and]
      have hmax : max l.expire li.expire = l.expire := Nat.max_eq_left (by omega)
      rw [hmax]
      symm
      have : ∀ p ∈ enumerateLeases f, (fun p : Nat × Lease => if p.1 = i then (i, { l with expire := l.expire }) else p) p = p := by
        intro p hp
        obtain ⟨j, x⟩ := p
        by_cases hj : j = i
        · subst hj
          have a := (mem_enumerateLeases.mp hp).2
          have b := (mem_enumerateLeases.mp hmem).2
          rw [a] at b
          simp only [Option.some.injEq] at b
          subst b
          simp
        · simp [hj]
      rw [List.map_congr_left this]; simp
  refine ⟨key.1, key.2, ?_⟩
  unfold getLeases
  rw [key.2]; simp

set_option maxRecDepth 20000 in
/-- the hypotheses of `renew_or_add_mutable` are satisfiable: a v1 container holding one lease -/
example :
    Mutable.findRenew id .v1 (zeros 32)
      (enumerateLeases (addOrRenew id (create .v1 (zeros 20) (zeros 32)) 1000
        { owner := 1, expire := 100, renew := zeros 32, cancel := zeros 32, nodeid := zeros 20 }).1)
    = some (0, { owner := 1, expire := 100, renew := zeros 32, cancel := zeros 32, nodeid := zeros 20 }) := by decide

/-- **no_backdating** for the mutable container's `renew_lease(allow_backdate=False)`: whatever the secret
    and the proposed expiry time, every lease listed before the call is listed afterwards in the same
    slot with the same owner and secrets and an expiry time that is NOT SMALLER -/
theorem no_backdating_renew_mutable (h : Bytes → Bytes) (f : File) (hwf : WF f) (secret : Bytes) (t : Nat) (ht : t < 2 ^ 32)
    (j : Nat) (x : Lease) (hx : (j, x) ∈ enumerateLeases f) :
    ∃ x', (j, x') ∈ enumerateLeases (Mutable.renewLease h f secret t).1 ∧ x.expire ≤ x'.expire ∧
      x'.owner = x.owner ∧ x'.renew = x.renew ∧ x'.cancel = x.cancel ∧ x'.nodeid = x.nodeid :=
  mut_renew_keeps h f hwf secret t ht j x hx

/-- **no_backdating**, mutable container, for the whole `add_or_renew_lease` (renew path AND the path that adds a
    new lease into an empty slot or a new extra slot): every lease listed before is listed afterwards in the same
    slot with the same owner and secrets and an expiry that is not smaller -/
theorem no_backdating_mutable (h : Bytes → Bytes) (f : File) (hwf : WF f) (avail : Nat) (li : Lease)
    (hexp : li.expire < 2 ^ 32) (j : Nat) (x : Lease) (hx : (j, x) ∈ enumerateLeases f) :
    ∃ x', (j, x') ∈ enumerateLeases (Mutable.addOrRenew h f avail li).1 ∧ x.expire ≤ x'.expire ∧
      x'.owner = x.owner ∧ x'.renew = x.renew ∧ x'.cancel = x.cancel ∧ x'.nodeid = x.nodeid :=
  mut_addOrRenew_keeps h f hwf avail li hexp j x hx

/-- **renew_or_add**, immutable container (v1 and v2): same statement over `get_leases` (entry `i` of the
    list is replaced, `List.set`); the share data is untouched -/
theorem renew_or_add_immutable (h : Bytes → Bytes) (f : File) (hwf : ImmL.WF f) (s : Schema)
    (hs : ImmL.schemaOf f = some s) (avail : Nat) (li : Lease) (hexp : li.expire < 2 ^ 32) (i : Nat) (l : Lease)
    (hfind : ImmL.findRenew h s li.renew (ImmL.getLeases f) 0 = some (i, l)) :
    (ImmL.addOrRenew h f avail li).2 = none ∧
    ImmL.getLeases (ImmL.addOrRenew h f avail li).1 =
      (ImmL.getLeases f).set i { l with expire := max l.expire li.expire } ∧
    (ImmL.getLeases (ImmL.addOrRenew h f avail li).1).length = (ImmL.getLeases f).length ∧
    ImmL.dataOf (ImmL.addOrRenew h f avail li).1 = ImmL.dataOf f ∧ ImmL.WF (ImmL.addOrRenew h f avail li).1 := by
  obtain ⟨_, hget, _⟩ := ImmL.findRenew_some hfind
  rw [Nat.sub_zero] at hget
  obtain ⟨hi, _, ho, he, hr, hc, hn⟩ := ImmL.listed_lease hwf hget
  have key : (ImmL.addOrRenew h f avail li).2 = none ∧
      ImmL.getLeases (ImmL.addOrRenew h f avail li).1 =
        (ImmL.getLeases f).set i { l with expire := max l.expire li.expire } ∧
      ImmL.dataOf (ImmL.addOrRenew h f avail li).1 = ImmL.dataOf f ∧ ImmL.WF (ImmL.addOrRenew h f avail li).1 := by
    simp only [ImmL.addOrRenew, ImmL.renewLease, hs, hfind]
    by_cases hgt : li.expire > l.expire
    · simp only [hgt, if_true, true_and, ImmL.writeLeaseRecord]
      have w := ImmL.write_spec f hwf i hi (serImm { l with expire := li.expire }) (length_serImm _)
      rw [w.getLeases hwf, ImmL.parseImm_serImm { l with expire := li.expire } ho hexp hr hc hn,
        Nat.max_eq_right (by omega)]
      exact ⟨rfl, w.data, w.wf⟩
    · simp only [hgt, if_false, true_and]
      rw [Nat.max_eq_left (by omega)]
      refine And.intro ?_ hwf
      apply List.ext_getElem?; intro k
      rw [List.getElem?_set]
      by_cases hk : i = k
      · subst hk
        have : i < (ImmL.getLeases f).length := by rw [ImmL.length_getLeases hwf]; exact hi
        have hl : (ImmL.getLeases f)[i] = l := by
          have := List.getElem?_eq_getElem this
          rw [hget] at this; exact (Option.some.inj this).symm
        simp [this, hl]
      · simp [hk]
  refine ⟨key.1, key.2.1, ?_, key.2.2.1, key.2.2.2⟩
  rw [key.2.1]; simp

/-- **renew_or_add** (both container kinds): adding a lease whose renew secret already exists renews that
    lease — count unchanged, expiry `max(old, new)`, everything else untouched — instead of adding a duplicate -/
theorem renew_or_add (h : Bytes → Bytes) (avail : Nat) (li : Lease) (hexp : li.expire < 2 ^ 32) :
    (∀ f s i l, WF f → Mutable.schemaOf f = some s →
      Mutable.findRenew h s li.renew (enumerateLeases f) = some (i, l) →
      (addOrRenew h f avail li).2 = none ∧
      enumerateLeases (addOrRenew h f avail li).1 =
        (enumerateLeases f).map (fun p => if p.1 = i then (i, { l with expire := max l.expire li.expire }) else p) ∧
      (getLeases (addOrRenew h f avail li).1).length = (getLeases f).length) ∧
    (∀ f s i l, ImmL.WF f → ImmL.schemaOf f = some s →
      ImmL.findRenew h s li.renew (ImmL.getLeases f) 0 = some (i, l) →
      (ImmL.addOrRenew h f avail li).2 = none ∧
      ImmL.getLeases (ImmL.addOrRenew h f avail li).1 =
        (ImmL.getLeases f).set i { l with expire := max l.expire li.expire } ∧
      (ImmL.getLeases (ImmL.addOrRenew h f avail li).1).length = (ImmL.getLeases f).length) :=
  ⟨fun f s i l hwf hs hf => renew_or_add_mutable h f hwf s hs avail li hexp i l hf,
   fun f s i l hwf hs hf =>
     let r := renew_or_add_immutable h f hwf s hs avail li hexp i l hf
     ⟨r.1, r.2.1, r.2.2.1⟩⟩

/-- **no_backdating**, immutable container, `renew_lease(allow_backdate=False)`: every lease keeps its position
    in `get_leases`, its owner and secrets, and its expiry does not decrease -/
theorem no_backdating_renew_immutable (h : Bytes → Bytes) (f : File) (hwf : ImmL.WF f) (secret : Bytes) (t : Nat)
    (ht : t < 2 ^ 32) (j : Nat) (x : Lease) (hx : (ImmL.getLeases f)[j]? = some x) :
    ∃ x', (ImmL.getLeases (ImmL.renewLease h f secret t).1)[j]? = some x' ∧ x.expire ≤ x'.expire ∧
      x'.owner = x.owner ∧ x'.renew = x.renew ∧ x'.cancel = x.cancel ∧ x'.nodeid = x.nodeid :=
  imm_renew_keeps h f hwf secret t ht j x hx

/-- **no_backdating**, immutable container, for the whole `add_or_renew_lease` (renew path and append path) -/
theorem no_backdating_immutable (h : Bytes → Bytes) (f : File) (hwf : ImmL.WF f) (avail : Nat) (li : Lease)
    (hexp : li.expire < 2 ^ 32) (hcount : ImmL.numLeases f + 1 < 2 ^ 32)
    (j : Nat) (x : Lease) (hx : (ImmL.getLeases f)[j]? = some x) :
    ∃ x', (ImmL.getLeases (ImmL.addOrRenew h f avail li).1)[j]? = some x' ∧ x.expire ≤ x'.expire ∧
      x'.owner = x.owner ∧ x'.renew = x.renew ∧ x'.cancel = x.cancel ∧ x'.nodeid = x.nodeid :=
  imm_addOrRenew_keeps h f hwf avail li hexp hcount j x hx

/-- **no_backdating** (both container kinds): `add_or_renew_lease` — whichever path it takes — never removes a
    lease, never changes its owner or secrets, and never shortens its expiry.  (`numLeases f + 1 < 2^32`:
    Python raises `struct.error` when the lease count no longer fits its 4-byte field.) -/
theorem no_backdating (h : Bytes → Bytes) (avail : Nat) (li : Lease) (hexp : li.expire < 2 ^ 32) :
    (∀ f j x, WF f → (j, x) ∈ enumerateLeases f →
      ∃ x', (j, x') ∈ enumerateLeases (Mutable.addOrRenew h f avail li).1 ∧ x.expire ≤ x'.expire ∧
        x'.owner = x.owner ∧ x'.renew = x.renew ∧ x'.cancel = x.cancel ∧ x'.nodeid = x.nodeid) ∧
    (∀ f (j : Nat) x, ImmL.WF f → ImmL.numLeases f + 1 < 2 ^ 32 → (ImmL.getLeases f)[j]? = some x →
      ∃ x', (ImmL.getLeases (ImmL.addOrRenew h f avail li).1)[j]? = some x' ∧ x.expire ≤ x'.expire ∧
        x'.owner = x.owner ∧ x'.renew = x.renew ∧ x'.cancel = x.cancel ∧ x'.nodeid = x.nodeid) :=
  ⟨fun f j x hwf hx => no_backdating_mutable h f hwf avail li hexp j x hx,
   fun f j x hwf hc hx => no_backdating_immutable h f hwf avail li hexp hc j x hx⟩

/-! ### the same at the level of whole buckets and the server operations -/

/-- **no_backdating / leases survive, server level**: `StorageServer.add_lease`, `StorageServer.renew_lease` and the
    lease renewal inside `allocate_buckets`, on a bucket mixing mutable and immutable share files of any schema:
    the bucket keeps the same share numbers, and EVERY lease of EVERY share is still listed afterwards with the same
    owner, secrets and nodeid and an expiry that is not smaller — also when the loop over the shares is interrupted
    by an error (`NoSpace`, `IndexError` on a share that lacks the secret) -/
theorem server_lease_ops_keep_every_lease (env : Env) (b : Bucket) (hb : MixedWF b)
    (hexp : env.now + renewalTime < 2 ^ 32) (renew cancel : Bytes) (inc : Incoming) (n size : Nat) :
    BucketKept b (serverAddLease env b renew cancel).1 ∧
    BucketKept b (serverRenewLease env b renew).1 ∧
    BucketKept b (allocate env b inc n size renew cancel).1 := by
  refine ⟨addLeaseAll_kept env _ hexp b hb, ?_, ?_⟩
  · unfold serverRenewLease
    split
    · exact BucketKept.refl b
    · exact renewAll_kept env renew _ hexp b hb
  · have h := addLeaseAll_kept env
      { owner := 0, expire := env.now + renewalTime, renew := renew, cancel := cancel, nodeid := env.nodeid } hexp b hb
    have hfst : (allocate env b inc n size renew cancel).1 = (addLeaseAll env
        { owner := 0, expire := env.now + renewalTime, renew := renew, cancel := cancel, nodeid := env.nodeid } b).1 := by
      simp only [allocate]
      split
      · rename_i e; rw [e]
      · rename_i e; rw [e]
        split
        · rfl
        · split <;> rfl
    rw [hfst]; exact h

/-- in `lookup` form: share `n` is still there and keeps every lease -/
theorem add_lease_keeps_share (env : Env) (b : Bucket) (hb : MixedWF b) (hexp : env.now + renewalTime < 2 ^ 32)
    (renew cancel : Bytes) (n : Nat) (f : File) (hl : lookup b n = some f) :
    ∃ f', lookup (serverAddLease env b renew cancel).1 n = some f' ∧ Kept f f' :=
  (server_lease_ops_keep_every_lease env b hb hexp renew cancel [] 0 0).1.lookup n f hl

/-- **renew_or_add, server level** (`StorageServer.add_lease`): when the call completes, every share file of the bucket
    (mutable or immutable) has been through `add_or_renew_lease`; a share that already held the renew secret has
    exactly as many leases as before — no duplicate -/
theorem add_lease_no_duplicate (env : Env) (b : Bucket) (hb : MixedWF b) (hexp : env.now + renewalTime < 2 ^ 32)
    (renew cancel : Bytes) (hok : (serverAddLease env b renew cancel).2 = none)
    (n : Nat) (f : File) (hl : lookup b n = some f) (hk : KnowsRenew env.h f renew) :
    ∃ f', lookup (serverAddLease env b renew cancel).1 n = some f' ∧
      f' = (shareAddOrRenew env f (makeLease env renew cancel)).1 ∧ (leasesOf f').length = (leasesOf f).length := by
  unfold serverAddLease at hok ⊢
  rw [addLeaseAll_lookup env _ b hok n, hl]
  refine ⟨_, rfl, rfl, ?_⟩
  exact (shareAddOrRenew_no_duplicate env f (hb (n, f) (lookup_mem hl)) (makeLease env renew cancel) hexp hk).2

/-- **renew never adds or removes a lease, server level** (`StorageServer.renew_lease` over a mixed bucket): every share
    file has exactly as many leases afterwards as before, whether the call succeeds or is interrupted by `IndexError`
    on a share that lacks the secret -/
theorem renew_lease_keeps_lease_counts (env : Env) (b : Bucket) (hb : MixedWF b)
    (hexp : env.now + renewalTime < 2 ^ 32) (secret : Bytes) :
    BucketRel SameCount b (serverRenewLease env b secret).1 := by
  unfold serverRenewLease
  split
  · exact BucketRel.refl (R := SameCount) (fun _ => rfl) b
  · exact renewAll_rel SameCount (fun _ => rfl) env secret _ (shareRenew_count env secret _ hexp) b hb

/-- **renew_or_add, `allocate_buckets`**: the lease an upload puts on the shares the bucket already holds renews where
    the renew secret is already known — that share has exactly as many leases as before — instead of adding a duplicate -/
theorem allocate_no_duplicate (env : Env) (b : Bucket) (hb : MixedWF b) (hexp : env.now + renewalTime < 2 ^ 32)
    (inc : Incoming) (m size : Nat) (renew cancel : Bytes)
    (hok : (allocate env b inc m size renew cancel).2.2.2 = none)
    (n : Nat) (f : File) (hl : lookup b n = some f) (hk : KnowsRenew env.h f renew) :
    ∃ f', lookup (allocate env b inc m size renew cancel).1 n = some f' ∧ (leasesOf f').length = (leasesOf f).length := by
  obtain ⟨h1, h2⟩ := allocate_eq env b inc m size renew cancel
  rw [h2] at hok
  rw [h1, addLeaseAll_lookup env _ b hok n, hl]
  refine ⟨_, rfl, ?_⟩
  exact (shareAddOrRenew_no_duplicate env f (hb (n, f) (lookup_mem hl))
    { owner := 0, expire := env.now + renewalTime, renew := renew, cancel := cancel, nodeid := env.nodeid } hexp hk).2

/-- **leases survive share data writes, server level** (`slot_testv_and_readv_and_writev`, request keys distinct as in
    a Python dict): a share that exists before and after the request keeps every (slot, lease) entry of
    `get_slot_leases` — through the data writes, container growth / relocation, truncation and the request's own
    renew-or-add on every share it names — whatever the outcome (success, failed test, bad enabler, any error),
    for the repaired and the unrepaired server -/
theorem rtw_keeps_every_lease (env : Env) (b : Bucket) (hb : BucketWF b) (we renew cancel : Bytes)
    (tw : List (Nat × TW)) (hnd : (tw.map (·.1)).Nodup) (rv : List (Nat × Nat)) (rl : Bool)
    (hexp : env.now + renewalTime < 2 ^ 32) (n : Nat) (f f' : File) (h1 : lookup b n = some f)
    (h2 : lookup (rtw env b we renew cancel tw rv rl).bucket n = some f') : KeptM f f' :=
  rtw_keptM env b hb we renew cancel tw hnd rv rl hexp n f f' h1 h2

/-! ### cancel_lease (mutable container; the lease crawler's way of removing expired leases) -/

/-- cancelling with a secret no listed lease carries changes nothing and raises `IndexError` -/
theorem cancel_unknown_noop_error (h : Bytes → Bytes) (f : File) (s : Schema) (hs : Mutable.schemaOf f = some s)
    (secret : Bytes) (hun : ∀ p ∈ enumerateLeases f, isCancelSecret h s p.2 secret = false) :
    Mutable.cancelLease h f secret = (some f, 0, some .indexError) := by
  have : (enumerateLeases f).filter (fun p => isCancelSecret h s p.2 secret) = [] := by
    rw [List.filter_eq_nil_iff]; intro p hp; simp [hun p hp]
  simp only [Mutable.cancelLease, hs, this, List.isEmpty_nil, if_true]

/-- **cancel removes exactly the leases with that cancel secret**: when `cancel_lease` succeeds and the
    share survives, the container is still well formed, share data and write enabler are untouched, and the
    lease list is the old one minus the leases carrying the cancel secret — every other lease keeps its
    slot number and its record (the blanked slots stay behind as holes: `_pack_leases` is a no-op) -/
theorem cancel_removes_exactly (h : Bytes → Bytes) (f : File) (hwf : WF f) (s : Schema)
    (hs : Mutable.schemaOf f = some s) (secret : Bytes) (f' : File) (freed : Nat)
    (hc : Mutable.cancelLease h f secret = (some f', freed, none)) :
    WF f' ∧ absData f' = absData f ∧ enabler f' = enabler f ∧
    enumerateLeases f' = (enumerateLeases f).filter (fun p => !isCancelSecret h s p.2 secret) := by
  simp only [Mutable.cancelLease, hs] at hc
  split at hc
  · simp at hc
  · split at hc
    · simp at hc
    · simp only [Prod.mk.injEq, Option.some.injEq] at hc
      obtain ⟨rfl, _, _⟩ := hc
      have hblank : decodeRec (serMut (toStored h s blankLease)) = none :=
        decodeRec_blank _ (by cases s <;> rfl)
      have his : ∀ i ∈ ((enumerateLeases f).filter (fun p => isCancelSecret h s p.2 secret)).map (·.1),
          i < 4 + numExtra f := by
        intro i hi
        rw [List.mem_map] at hi
        obtain ⟨p, hp, rfl⟩ := hi
        exact (mem_enumerateLeases.mp (List.mem_filter.mp hp).1).1
      obtain ⟨a, b, c, _, e⟩ := blankSlots_spec _ (length_serMut _) hblank _ f hwf his
      refine ⟨a, b, c, ?_⟩
      rw [e]
      apply List.filter_congr
      intro p hp
      obtain ⟨j, x⟩ := p
      by_cases hm : isCancelSecret h s x secret = true
      · have : (j, x) ∈ (enumerateLeases f).filter (fun p => isCancelSecret h s p.2 secret) :=
          List.mem_filter.mpr ⟨hp, hm⟩
        have hj : j ∈ ((enumerateLeases f).filter (fun p => isCancelSecret h s p.2 secret)).map (·.1) :=
          List.mem_map.mpr ⟨(j, x), this, rfl⟩
        simp [hm, hj]
      · have hnot : j ∉ ((enumerateLeases f).filter (fun p => isCancelSecret h s p.2 secret)).map (·.1) := by
          intro hj
          rw [List.mem_map] at hj
          obtain ⟨q, hq, e1⟩ := hj
          obtain ⟨k, y⟩ := q
          simp only at e1; subst e1
          have hq' := List.mem_filter.mp hq
          have r1 := (mem_enumerateLeases.mp hq'.1).2
          have r2 := (mem_enumerateLeases.mp hp).2
          rw [r1] at r2
          simp only [Option.some.injEq] at r2
          subst r2
          exact hm hq'.2
        simp [hm, hnot]

/-! ### cancel_lease, immutable container, and the unlink case of both kinds -/

theorem cancel_unknown_noop_error_immutable (h : Bytes → Bytes) (f : File) (s : Schema)
    (hs : ImmL.schemaOf f = some s) (secret : Bytes)
    (hun : ∀ l ∈ ImmL.getLeases f, isCancelSecret h s l secret = false) :
    ImmL.cancelLease h f secret = (some f, 0, some .indexError) := by
  have : (ImmL.getLeases f).filter (fun l => !isCancelSecret h s l secret) = ImmL.getLeases f := by
    rw [List.filter_eq_self]; intro l hl; simp [hun l hl]
  simp only [ImmL.cancelLease, hs, this, Nat.sub_self, if_true]

/-- **cancel removes exactly the leases with that cancel secret**, immutable container: when `cancel_lease`
    succeeds and the share survives, the new file is well formed, `get_leases` is the old list minus exactly the
    leases carrying the cancel secret IN THE SAME ORDER (re-packed, no holes), the share data and the version are
    untouched, the count field and the file length are consistent with the remaining leases, and the freed
    space is 72 bytes per removed lease -/
theorem cancel_removes_exactly_immutable (h : Bytes → Bytes) (f : File) (hwf : ImmL.WF f) (s : Schema)
    (hs : ImmL.schemaOf f = some s) (secret : Bytes) (f' : File) (freed : Nat)
    (hc : ImmL.cancelLease h f secret = (some f', freed, none)) :
    ImmL.WF f' ∧
    ImmL.getLeases f' = (ImmL.getLeases f).filter (fun l => !isCancelSecret h s l secret) ∧
    ImmL.dataOf f' = ImmL.dataOf f ∧ ImmL.schemaOf f' = ImmL.schemaOf f ∧
    ImmL.numLeases f' = ((ImmL.getLeases f).filter (fun l => !isCancelSecret h s l secret)).length ∧
    ImmL.leaseOffset f' = ImmL.leaseOffset f ∧
    f'.length = ImmL.leaseOffset f + ImmL.numLeases f' * 72 ∧
    freed = 72 * (ImmL.numLeases f - ImmL.numLeases f') := by
  simp only [ImmL.cancelLease, hs] at hc
  split at hc
  · simp at hc
  · split at hc
    · simp at hc
    · simp only [Prod.mk.injEq, Option.some.injEq, and_true] at hc
      obtain ⟨hf', hfreed⟩ := hc
      have hsub : ∀ l ∈ (ImmL.getLeases f).filter (fun l => !isCancelSecret h s l secret),
          ∃ j : Nat, (ImmL.getLeases f)[j]? = some l := by
        intro l hl
        exact List.getElem?_of_mem (List.mem_filter.mp hl).1
      have hle : ((ImmL.getLeases f).filter (fun l => !isCancelSecret h s l secret)).length ≤ ImmL.numLeases f := by
        rw [← ImmL.length_getLeases hwf]; exact List.length_filter_le _ _
      obtain ⟨a, b, c, d, e, g, k⟩ := ImmL.cancel_file_spec f hwf _ hsub hle f' hf'.symm
      refine ⟨a, b, c, d, e, g, by rw [e]; exact k, ?_⟩
      rw [e, ← hfreed, ImmL.length_getLeases hwf]

/-- **unlink case**, immutable container: cancelling with a secret that EVERY lease carries (at least one lease)
    removes the file; the freed space is the whole file -/
theorem cancel_all_unlinks_immutable (h : Bytes → Bytes) (f : File) (hwf : ImmL.WF f) (s : Schema)
    (hs : ImmL.schemaOf f = some s) (secret : Bytes) (hne : ImmL.numLeases f ≠ 0)
    (hall : ∀ l ∈ ImmL.getLeases f, isCancelSecret h s l secret = true) :
    ImmL.cancelLease h f secret = (none, f.length, none) := by
  have hk : (ImmL.getLeases f).filter (fun l => !isCancelSecret h s l secret) = [] := by
    rw [List.filter_eq_nil_iff]; intro l hl; simp [hall l hl]
  have hlen := ImmL.length_getLeases hwf
  have hend := (ImmL.lo_facts hwf).2
  simp only [ImmL.cancelLease, hs, hk, List.length_nil, Nat.sub_zero, hlen, hne, if_false, if_true,
    length_truncate, Nat.zero_mul, Nat.add_zero, Prod.mk.injEq, true_and, and_true]
  omega

/-- **unlink case**, mutable container: when every listed lease carries the cancel secret the file is removed -/
theorem cancel_all_unlinks_mutable (h : Bytes → Bytes) (f : File) (s : Schema) (hs : Mutable.schemaOf f = some s)
    (secret : Bytes) (hne : enumerateLeases f ≠ [])
    (hall : ∀ p ∈ enumerateLeases f, isCancelSecret h s p.2 secret = true) :
    ∃ freed, Mutable.cancelLease h f secret = (none, freed, none) := by
  have hk : (enumerateLeases f).filter (fun p => isCancelSecret h s p.2 secret) = enumerateLeases f := by
    rw [List.filter_eq_self]; intro p hp; exact hall p hp
  have hemp : (enumerateLeases f).isEmpty = false := by
    cases hL : enumerateLeases f with
    | nil => exact absurd hL hne
    | cons _ _ => rfl
  simp only [Mutable.cancelLease, hs, hk, hemp, Nat.sub_self, if_true, Bool.false_eq_true, if_false]
  exact ⟨_, rfl⟩

/-- **unlink at the bucket**: when `cancel_lease` on the file of share `n` unlinks it (either kind), the share is
    gone from the bucket and every other share is exactly as before -/
theorem cancel_unlink_removes_share_only (env : Env) (b : Bucket) (n : Nat) (secret : Bytes) (f : File)
    (hl : lookup b n = some f) (freed : Nat) (e : Option Err)
    (hres : (kindOf f = .mutable ∧ Mutable.cancelLease env.h f secret = (none, freed, e)) ∨
            (kindOf f = .immutable ∧ ImmL.cancelLease env.h f secret = (none, freed, e))) :
    shareCancel env b n secret = some (erase b n, freed, e) ∧
    lookup (erase b n) n = none ∧ ∀ m, m ≠ n → lookup (erase b n) m = lookup b m := by
  refine ⟨?_, lookup_erase_self b n, fun m hm => lookup_erase_ne b n m hm⟩
  rcases hres with ⟨hk, hr⟩ | ⟨hk, hr⟩ <;> simp only [shareCancel, hl, hk, hr]

/-! ### share data writes of an immutable upload never touch a lease record -/

/-- **leases survive share data writes**, immutable container: `write_share_data` with the bound `max_size` (offsets
    count from the start of the share DATA, and `12 + max_size` is at or below the lease offset — with equality for
    the container of an open upload, `createWithLease_spec`) either raises `DataTooLargeError` and leaves the file
    alone, or is accepted and then every byte from the lease offset on — every lease record —, the lease count, the
    lease offset, the file length and `get_leases` are exactly what they were -/
theorem data_write_keeps_leases_immutable (f : File) (hwf : ImmL.WF f) (m : Nat) (hm : 12 + m ≤ ImmL.leaseOffset f)
    (off : Nat) (d : Bytes) :
    (off + d.length > m → ImmL.writeShareData f (some m) off d = .error .dataTooLarge) ∧
    (∀ g, ImmL.writeShareData f (some m) off d = .ok g →
      off + d.length ≤ m ∧ g.length = f.length ∧ ImmL.numLeases g = ImmL.numLeases f ∧
      ImmL.leaseOffset g = ImmL.leaseOffset f ∧ ImmL.WF g ∧
      (∀ o k, ImmL.leaseOffset f ≤ o → pread g o k = pread f o k) ∧
      (∀ j, ImmL.recAt g j = ImmL.recAt f j) ∧ ImmL.getLeases g = ImmL.getLeases f) := by
  constructor
  · intro h; simp [ImmL.writeShareData, h]
  · intro g hg
    obtain ⟨a, b, c, _, e, fr, r, gl⟩ := ImmL.writeShareData_spec f hwf m hm off d g hg
    refine ⟨?_, a, b, c, e, fr, r, gl⟩
    simp only [ImmL.writeShareData] at hg
    split at hg
    · simp at hg
    · omega

/-- the container of an open upload meets the hypotheses with equality: `12 + max_size = lease offset` -/
theorem open_upload_container (h : Bytes → Bytes) (size : Nat) (li : Lease) :
    ImmL.WF (ImmL.createWithLease h size li) ∧ 12 + size ≤ ImmL.leaseOffset (ImmL.createWithLease h size li) := by
  obtain ⟨a, b, _, _⟩ := ImmL.createWithLease_spec h size li
  exact ⟨a, by rw [b]; exact Nat.le_refl _⟩

set_option maxRecDepth 20000 in
/-- the bound matters: checking against the absolute lease offset instead of `max_size` (12 bytes too generous)
    lets a 5-byte overrun of a 1-byte share rewrite the first lease record -/
example :
    let f := ImmL.createWithLease id 1
      { owner := 1, expire := 100, renew := List.replicate 32 1, cancel := List.replicate 32 3, nodeid := [] }
    (match ImmL.writeShareData f (some 1) 0 [9, 9, 9, 9, 9, 9] with | .error .dataTooLarge => true | _ => false) = true ∧
    (match ImmL.writeShareData f (some (ImmL.leaseOffset f)) 0 [9, 9, 9, 9, 9, 9] with
     | .ok g => decide (ImmL.recAt g 0 ≠ ImmL.recAt f 0)
     | _ => false) = true := by
  decide

/-! ### non-vacuity: concrete containers meeting the hypotheses above -/

/-- an immutable v2 share with 3 data bytes and two leases (secrets `[1]*32` / `[2]*32`, cancel `[3]*32` / `[4]*32`) -/
def exImm : File :=
  ImmL.addLease id (ImmL.addLease id (ImmL.fresh 2 [1, 2, 3])
    { owner := 1, expire := 100, renew := List.replicate 32 1, cancel := List.replicate 32 3, nodeid := [] })
    { owner := 1, expire := 200, renew := List.replicate 32 2, cancel := List.replicate 32 4, nodeid := [] }

set_option maxRecDepth 20000 in
example : (ImmL.schemaOf exImm = some .v2 ∧ 12 + ImmL.numLeases exImm * 72 ≤ exImm.length) ∧
    ImmL.numLeases exImm + 1 < 2 ^ 32 ∧ ImmL.dataOf exImm = [1, 2, 3] ∧
    -- hypothesis of `renew_or_add_immutable` / `no_backdating_immutable`
    ImmL.findRenew id .v2 (List.replicate 32 2) (ImmL.getLeases exImm) 0 =
      some (1, { owner := 1, expire := 200, renew := List.replicate 32 2, cancel := List.replicate 32 4, nodeid := [] }) ∧
    -- and its conclusion on this instance: renewed in place, count unchanged
    (ImmL.getLeases (ImmL.addOrRenew id exImm 0
        { owner := 1, expire := 300, renew := List.replicate 32 2, cancel := [], nodeid := [] }).1).map (·.expire) = [100, 300] ∧
    -- an older expiry does not backdate
    (ImmL.getLeases (ImmL.addOrRenew id exImm 0
        { owner := 1, expire := 50, renew := List.replicate 32 2, cancel := [], nodeid := [] }).1).map (·.expire) = [100, 200] := by
  decide

/-- the immutable example after cancelling `[3]*32` -/
def exImm' : File := (ImmL.cancelLease id exImm (List.replicate 32 3)).1.getD []

set_option maxRecDepth 20000 in
/-- `cancel_removes_exactly_immutable` and the unlink case are not vacuous: cancelling `[3]*32` succeeds, frees 72
    bytes and keeps the second lease and the data; cancelling that one next removes the file -/
example :
    (ImmL.cancelLease id exImm (List.replicate 32 3)).1.isSome = true ∧
    (ImmL.cancelLease id exImm (List.replicate 32 3)).2 = (72, none) ∧
    (ImmL.getLeases exImm').map (·.expire) = [200] ∧ ImmL.dataOf exImm' = [1, 2, 3] ∧
    (ImmL.cancelLease id exImm' (List.replicate 32 4)).1 = none ∧
    (ImmL.cancelLease id exImm' (List.replicate 32 4)).2.2 = none := by
  decide

/-- a mutable v1 container with two leases (slots 0 and 1) -/
def exMut : File :=
  (addOrRenew id (addOrRenew id (create .v1 (zeros 20) (zeros 32)) 1000
      { owner := 1, expire := 100, renew := List.replicate 32 1, cancel := List.replicate 32 3, nodeid := zeros 20 }).1 1000
      { owner := 1, expire := 200, renew := List.replicate 32 2, cancel := List.replicate 32 4, nodeid := zeros 20 }).1

def exMut' : File := (Mutable.cancelLease id exMut (List.replicate 32 3)).1.getD []

set_option maxRecDepth 20000 in
/-- mutable: cancelling the first lease leaves a hole in slot 0 and the second lease in slot 1 (still renewable
    behind the hole); cancelling both unlinks -/
example :
    (enumerateLeases exMut).map (fun p => (p.1, p.2.expire)) = [(0, 100), (1, 200)] ∧
    (Mutable.cancelLease id exMut (List.replicate 32 3)).2.2 = none ∧
    (enumerateLeases exMut').map (fun p => (p.1, p.2.expire)) = [(1, 200)] ∧
    (enumerateLeases (addOrRenew id exMut' 0
        { owner := 1, expire := 300, renew := List.replicate 32 2, cancel := [], nodeid := zeros 20 }).1).map
      (fun p => (p.1, p.2.expire)) = [(1, 300)] ∧
    (Mutable.cancelLease id exMut' (List.replicate 32 4)).1 = none := by
  decide

set_option maxRecDepth 20000 in
/-- non-vacuity of the bucket theorems: a bucket holding the mutable and the immutable example containers -/
example : kindOf exMut = .mutable ∧ kindOf exImm = .immutable := by
  constructor
  · exact kindOf_mutable (by decide)
  · exact kindOf_immutable (by decide)

set_option maxRecDepth 20000 in
/-- … it satisfies `MixedWF`-style hypotheses concretely, `add_lease` with the second lease's secret does not add a
    lease to either share, and with a fresh secret adds exactly one to each -/
example :
    let env : Env := { h := id, nodeid := zeros 20, now := 1000, avail := 10 ^ 9, precheck := true }
    let b : Bucket := [(0, exMut), (1, exImm)]
    ((serverAddLease env b (List.replicate 32 2) (List.replicate 32 4)).1.map fun p => (leasesOf p.2).length) = [2, 2] ∧
    ((serverAddLease env b (List.replicate 32 9) (List.replicate 32 9)).1.map fun p => (leasesOf p.2).length) = [3, 3] ∧
    (serverAddLease env b (List.replicate 32 2) (List.replicate 32 4)).2 = none := by
  decide

set_option maxRecDepth 20000 in
/-- non-vacuity for `renew_lease_keeps_lease_counts` / `allocate_no_duplicate` on the mixed example bucket -/
example :
    let env : Env := { h := id, nodeid := zeros 20, now := 1000, avail := 10 ^ 9, precheck := true }
    let b : Bucket := [(0, exMut), (1, exImm)]
    ((serverRenewLease env b (List.replicate 32 2)).1.map fun p => (leasesOf p.2).length) = [2, 2] ∧
    (serverRenewLease env b (List.replicate 32 2)).2 = none ∧
    ((allocate env b [] 5 10 (List.replicate 32 2) (List.replicate 32 4)).1.map fun p => (leasesOf p.2).length) = [2, 2] ∧
    (allocate env b [] 5 10 (List.replicate 32 2) (List.replicate 32 4)).2.2 = (true, none) := by
  decide

/-! ### leases survive data writes and container growth -/

/-- any `writev` (growth, relocation of the extra-lease block, truncation, even a failing call) keeps
    every lease — slot numbers, owners, stored secrets, expiry times, for 0..∞ leases — and a whole
    read-test-write request never changes share data's leases except through its own renewal, which
    in turn never changes share data (`renewShares_abs`) -/
theorem leases_survive_data_ops (f : File) (hwf : WF f) (dv : List (Nat × Bytes)) (nl : Option Nat) :
    enumerateLeases (writev f dv nl).1 = enumerateLeases f ∧ WF (writev f dv nl).1 := by
  have h := writev_any f hwf dv nl
  exact ⟨enumerateLeases_congr h.2, h.1⟩

/-- and, conversely, lease operations never change the share data or the write enabler -/
theorem lease_ops_keep_data (h : Bytes → Bytes) (f : File) (hwf : WF f) (avail : Nat) (li : Lease) :
    absData (addOrRenew h f avail li).1 = absData f ∧ enabler (addOrRenew h f avail li).1 = enabler f ∧
    WF (addOrRenew h f avail li).1 := by
  have lw := addOrRenew_spec h f hwf avail li
  exact ⟨lw.data hwf, lw.enabler, lw.wf⟩

/-! ### new-format containers never store secrets in cleartext -/

/-- **v2_no_cleartext** (non-interference in the secrets): for a v2 container, mutable or immutable,
    the bytes of the container after `add_or_renew_lease` — and whether it raises — depend on the
    lease secrets ONLY through `blake2b secret`: two runs with different secrets (and even different
    hash functions) that agree on the hashes produce identical files.  `blake2b` is abstract. -/
theorem v2_no_cleartext (h h' : Bytes → Bytes) (rs rs' cs cs' : Bytes) (hr : h rs = h' rs') (hc : h cs = h' cs')
    (owner expire avail : Nat) (nodeid : Bytes) :
    (∀ f, Mutable.schemaOf f = some .v2 →
      Mutable.addOrRenew h f avail { owner := owner, expire := expire, renew := rs, cancel := cs, nodeid := nodeid } =
      Mutable.addOrRenew h' f avail { owner := owner, expire := expire, renew := rs', cancel := cs', nodeid := nodeid }) ∧
    (∀ f, ImmL.schemaOf f = some .v2 →
      ImmL.addOrRenew h f avail { owner := owner, expire := expire, renew := rs, cancel := cs, nodeid := nodeid } =
      ImmL.addOrRenew h' f avail { owner := owner, expire := expire, renew := rs', cancel := cs', nodeid := nodeid }) := by
  constructor
  · intro f hs
    simp only [Mutable.addOrRenew, Mutable.renewLease, hs, findRenew_v2_congr h h' rs rs' hr, toStored, hr, hc]
  · intro f hs
    simp only [ImmL.addOrRenew, ImmL.renewLease, ImmL.addLease, hs, imm_findRenew_v2_congr h h' rs rs' hr, toStored, hr, hc]

/-- the hypothesis of `v2_no_cleartext` is satisfiable with different secrets (a constant "hash") and
    the conclusion is not trivial: a v1 container does depend on the secret itself -/
example : (fun _ : Bytes => ([7] : Bytes)) [1] = (fun _ : Bytes => ([7] : Bytes)) [2] := rfl
example : toStored id .v1 { owner := 1, expire := 0, renew := [1], cancel := [], nodeid := [] } ≠
          toStored id .v1 { owner := 1, expire := 0, renew := [2], cancel := [], nodeid := [] } := by decide

end Tahoe.C25
