import Tahoe.Storage.LemmasSlot
/-!
C25 — lease semantics (property theorems).  Models: `Tahoe/Storage/Lease.lean` (records, v1/v2
serializers with an abstract `blake2b`, immutable container), `Tahoe/Storage/Mutable.lean` (mutable
container), `Tahoe/Storage/Slot.lean` (server-level `add_lease` / `renew_lease`).
-/
namespace Tahoe.C25
open Tahoe.Base.File Tahoe.Storage Tahoe.Storage.Mutable Tahoe.Storage.Slot Tahoe.Generated.Storage

/-- record formats and sizes are those of the source -/
theorem lease_constants :
    lease_IMMUTABLE_FORMAT = ">L32s32sL" ∧ lease_MUTABLE_FORMAT = ">LL32s32s20s" ∧ lease_IMMUTABLE_SIZE = 72 ∧
    lease_MUTABLE_SIZE = 92 ∧ imm_LEASE_SIZE = 72 ∧ mut_LEASE_SIZE = 92 ∧ imm_DATA_OFFSET = 12 ∧
    imm_SCHEMA_VERSIONS = [1, 2] ∧ imm_NEWEST_SCHEMA_VERSION = 2 ∧ mut_NEWEST_SCHEMA_VERSION = 2 ∧
    imm_V1_CLEARTEXT = true ∧ imm_V2_HASHED = true ∧ mut_V1_CLEARTEXT = true ∧ mut_V2_HASHED = true ∧
    DEFAULT_RENEWAL_TIME = 31 * 24 * 60 * 60 := by decide

/-! ### renewing with an unknown secret changes nothing and reports an error -/

/-- container level, mutable and immutable: if no lease of the container matches the secret,
    `renew_lease` returns the container byte-for-byte unchanged and raises `IndexError` -/
theorem unknown_renew_noop_error (h : Bytes → Bytes) (secret : Bytes) (t : Nat) :
    (∀ f s, Mutable.schemaOf f = some s → Mutable.findRenew h s secret (enumerateLeases f) = none →
      Mutable.renewLease h f secret t = (f, some .indexError)) ∧
    (∀ f s, ImmL.schemaOf f = some s → ImmL.findRenew h s secret (ImmL.getLeases f) 0 = none →
      ImmL.renewLease h f secret t = (f, some .indexError)) := by
  constructor
  · intro f s hs hf; simp only [Mutable.renewLease, hs, hf]
  · intro f s hs hf; simp only [ImmL.renewLease, hs, hf]

/-- server level (`StorageServer.renew_lease`): if no share file of the bucket knows the secret (each
    container's `renew_lease` raises, leaving its file unchanged by the theorem above), the call raises
    and every file of the bucket is unchanged — also when the bucket is empty (`IndexError`) -/
theorem unknown_renew_noop_error_server (env : Env) (b : Bucket) (secret : Bytes)
    (hunk : ∀ p ∈ b, ∃ e, shareRenew env p.2 secret (env.now + renewalTime) = (p.2, some e)) :
    (serverRenewLease env b secret).1 = b ∧ (serverRenewLease env b secret).2 ≠ none := by
  unfold serverRenewLease
  split
  · exact ⟨rfl, by simp⟩
  · cases b with
    | nil => simp at *
    | cons p rest =>
      obtain ⟨n, f⟩ := p
      obtain ⟨e, he⟩ := hunk (n, f) (List.mem_cons_self ..)
      simp only at he
      simp only [renewAll, he]
      exact ⟨trivial, by simp⟩

/-! ### renew-or-add and no backdating (mutable container) -/

/-- **renew_or_add** — `_partial`: proved for the MUTABLE container (v1 and v2); the immutable side is the
    comment below.   `add_or_renew_lease` with a renew secret that an
    existing lease already carries succeeds without needing any space, leaves the NUMBER of leases
    unchanged, sets that lease's expiry to `max(old, new)` and leaves every other lease — and the
    renewed lease's owner, secrets and nodeid — exactly as they were -/
theorem renew_or_add_partial (h : Bytes → Bytes) (f : File) (hwf : WF f) (s : Schema) (hs : Mutable.schemaOf f = some s)
    (avail : Nat) (li : Lease) (hexp : li.expire < 2 ^ 32) (i : Nat) (l : Lease)
    (hfind : Mutable.findRenew h s li.renew (enumerateLeases f) = some (i, l)) :
    (addOrRenew h f avail li).2 = none ∧
    enumerateLeases (addOrRenew h f avail li).1 =
      (enumerateLeases f).map (fun p => if p.1 = i then (i, { l with expire := max l.expire li.expire }) else p) ∧
    (getLeases (addOrRenew h f avail li).1).length = (getLeases f).length := by
  have hmem := (findRenew_some hfind).1
  obtain ⟨ho, ho', he, hr, hc, hn⟩ := listed_lease f hwf i l hmem
  have key : (addOrRenew h f avail li).2 = none ∧
      enumerateLeases (addOrRenew h f avail li).1 =
        (enumerateLeases f).map (fun p => if p.1 = i then (i, { l with expire := max l.expire li.expire }) else p) := by
    simp only [Mutable.addOrRenew, Mutable.renewLease, hs, hfind]
    by_cases hgt : li.expire > l.expire
    · simp only [hgt, if_true, true_and]
      have hmax : max l.expire li.expire = li.expire := Nat.max_eq_right (by omega)
      rw [hmax]
      apply enumerateLeases_write f hwf i l _ hmem _ (length_serMut _)
      unfold decodeRec
      rw [parseMut_serMut { l with expire := li.expire } ho' hexp hr hc hn]
      simp [ho]
    · simp only [hgt, if_false, true_and]
      have hmax : max l.expire li.expire = l.expire := Nat.max_eq_left (by omega)
      rw [hmax]
      symm
      have : ∀ p ∈ enumerateLeases f, (fun p : Nat × Lease => if p.1 = i then (i, { l with expire := l.expire }) else p) p = p := by
        intro p hp
        obtain ⟨j, x⟩ := p
        by_cases hj : j = i
        · subst hj
          have a := (mem_enumerateLeases.mp hp).2
          have b := (mem_enumerateLeases.mp hmem).2
          rw [a] at b
          simp only [Option.some.injEq] at b
          subst b
          simp
        · simp [hj]
      rw [List.map_congr_left this]; simp
  refine ⟨key.1, key.2, ?_⟩
  unfold getLeases
  rw [key.2]; simp

set_option maxRecDepth 20000 in
/-- the hypotheses of `renew_or_add_partial` are satisfiable: a v1 container holding one lease -/
example :
    Mutable.findRenew id .v1 (zeros 32)
      (enumerateLeases (addOrRenew id (create .v1 (zeros 20) (zeros 32)) 1000
        { owner := 1, expire := 100, renew := zeros 32, cancel := zeros 32, nodeid := zeros 20 }).1)
    = some (0, { owner := 1, expire := 100, renew := zeros 32, cancel := zeros 32, nodeid := zeros 20 }) := by decide

/-- **no_backdating** — `_partial`: proved for the MUTABLE container's `renew_lease(allow_backdate=False)` (which
    is also the renew path of `add_or_renew_lease`); the immutable side is the comment below: whatever the secret
    and the proposed expiry time, every lease listed before the call is listed afterwards in the same
    slot with the same owner and secrets and an expiry time that is NOT SMALLER -/
theorem no_backdating_partial (h : Bytes → Bytes) (f : File) (hwf : WF f) (secret : Bytes) (t : Nat) (ht : t < 2 ^ 32)
    (j : Nat) (x : Lease) (hx : (j, x) ∈ enumerateLeases f) :
    ∃ x', (j, x') ∈ enumerateLeases (Mutable.renewLease h f secret t).1 ∧ x.expire ≤ x'.expire ∧
      x'.owner = x.owner ∧ x'.renew = x.renew ∧ x'.cancel = x.cancel ∧ x'.nodeid = x.nodeid := by
  unfold Mutable.renewLease
  split
  · exact ⟨x, hx, Nat.le_refl _, rfl, rfl, rfl, rfl⟩
  · split
    · exact ⟨x, hx, Nat.le_refl _, rfl, rfl, rfl, rfl⟩
    · rename_i s _ i l hfind
      have hmem := (findRenew_some hfind).1
      obtain ⟨ho, ho', he, hr, hc, hn⟩ := listed_lease f hwf i l hmem
      split
      · rename_i hgt
        have hw := enumerateLeases_write f hwf i l { l with expire := t } hmem (serMut { l with expire := t })
          (length_serMut _) (by unfold decodeRec; rw [parseMut_serMut { l with expire := t } ho' ht hr hc hn]; simp [ho])
        simp only
        rw [hw]
        by_cases hj : j = i
        · subst hj
          have a := (mem_enumerateLeases.mp hx).2
          have b := (mem_enumerateLeases.mp hmem).2
          rw [a] at b
          simp only [Option.some.injEq] at b
          subst b
          refine ⟨{ x with expire := t }, ?_, by simp only; omega, rfl, rfl, rfl, rfl⟩
          rw [List.mem_map]
          exact ⟨(j, x), hx, by simp⟩
        · refine ⟨x, ?_, Nat.le_refl _, rfl, rfl, rfl, rfl⟩
          rw [List.mem_map]
          exact ⟨(j, x), hx, by simp [hj]⟩
      · exact ⟨x, hx, Nat.le_refl _, rfl, rfl, rfl, rfl⟩

/- NOT PROVED IN LEAN (immutable side of `renew_or_add` / `no_backdating`): the same two statements for
   `ImmL.addOrRenew` / `ImmL.renewLease` over `ImmL.getLeases` under `ImmL.WF`:
     ImmL.findRenew h s li.renew (ImmL.getLeases f) 0 = some (i, l) → li.expire < 2^32 →
       (ImmL.addOrRenew h f avail li).2 = none ∧
       ImmL.getLeases (ImmL.addOrRenew h f avail li).1 = (ImmL.getLeases f).set i { l with expire := max l.expire li.expire }
   What is missing is the read-after-write lemma for the 72-byte record array at `leaseOffset`
   (the analogue of `enumerateLeases_write`).  The immutable model is tied to storage/immutable.py by the
   C25 correspondence (lease lists and raw bytes of v1 and v2 immutable share files after every
   add_lease / renew_lease) and the monitor checks both statements on the real code; for immutable
   containers Lean proves `unknown_renew_noop_error` and `v2_no_cleartext` only. -/

/-! ### cancel_lease (mutable container; the lease crawler's way of removing expired leases) -/

/-- cancelling with a secret no listed lease carries changes nothing and raises `IndexError` -/
theorem cancel_unknown_noop_error (h : Bytes → Bytes) (f : File) (s : Schema) (hs : Mutable.schemaOf f = some s)
    (secret : Bytes) (hun : ∀ p ∈ enumerateLeases f, isCancelSecret h s p.2 secret = false) :
    Mutable.cancelLease h f secret = (some f, 0, some .indexError) := by
  have : (enumerateLeases f).filter (fun p => isCancelSecret h s p.2 secret) = [] := by
    rw [List.filter_eq_nil_iff]; intro p hp; simp [hun p hp]
  simp only [Mutable.cancelLease, hs, this, List.isEmpty_nil, if_true]

/-- **cancel removes exactly the leases with that cancel secret**: when `cancel_lease` succeeds and the
    share survives, the container is still well formed, share data and write enabler are untouched, and the
    lease list is the old one minus the leases carrying the cancel secret — every other lease keeps its
    slot number and its record (the blanked slots stay behind as holes: `_pack_leases` is a no-op) -/
theorem cancel_removes_exactly (h : Bytes → Bytes) (f : File) (hwf : WF f) (s : Schema)
    (hs : Mutable.schemaOf f = some s) (secret : Bytes) (f' : File) (freed : Nat)
    (hc : Mutable.cancelLease h f secret = (some f', freed, none)) :
    WF f' ∧ absData f' = absData f ∧ enabler f' = enabler f ∧
    enumerateLeases f' = (enumerateLeases f).filter (fun p => !isCancelSecret h s p.2 secret) := by
  simp only [Mutable.cancelLease, hs] at hc
  split at hc
  · simp at hc
  · split at hc
    · simp at hc
    · simp only [Prod.mk.injEq, Option.some.injEq] at hc
      obtain ⟨rfl, _, _⟩ := hc
      have hblank : decodeRec (serMut (toStored h s blankLease)) = none :=
        decodeRec_blank _ (by cases s <;> rfl)
      have his : ∀ i ∈ ((enumerateLeases f).filter (fun p => isCancelSecret h s p.2 secret)).map (·.1),
          i < 4 + numExtra f := by
        intro i hi
        rw [List.mem_map] at hi
        obtain ⟨p, hp, rfl⟩ := hi
        exact (mem_enumerateLeases.mp (List.mem_filter.mp hp).1).1
      obtain ⟨a, b, c, _, e⟩ := blankSlots_spec _ (length_serMut _) hblank _ f hwf his
      refine ⟨a, b, c, ?_⟩
      rw [e]
      apply List.filter_congr
      intro p hp
      obtain ⟨j, x⟩ := p
      by_cases hm : isCancelSecret h s x secret = true
      · have : (j, x) ∈ (enumerateLeases f).filter (fun p => isCancelSecret h s p.2 secret) :=
          List.mem_filter.mpr ⟨hp, hm⟩
        have hj : j ∈ ((enumerateLeases f).filter (fun p => isCancelSecret h s p.2 secret)).map (·.1) :=
          List.mem_map.mpr ⟨(j, x), this, rfl⟩
        simp [hm, hj]
      · have hnot : j ∉ ((enumerateLeases f).filter (fun p => isCancelSecret h s p.2 secret)).map (·.1) := by
          intro hj
          rw [List.mem_map] at hj
          obtain ⟨q, hq, e1⟩ := hj
          obtain ⟨k, y⟩ := q
          simp only at e1; subst e1
          have hq' := List.mem_filter.mp hq
          have r1 := (mem_enumerateLeases.mp hq'.1).2
          have r2 := (mem_enumerateLeases.mp hp).2
          rw [r1] at r2
          simp only [Option.some.injEq] at r2
          subst r2
          exact hm hq'.2
        simp [hm, hnot]

/- `ImmL.cancelLease` (immutable container: remaining leases re-packed, count rewritten, file truncated, file
   unlinked when no lease is left) and the unlink case of the mutable container are tied to the code by the C25
   correspondence only (results, freed-space values, lease lists and raw bytes after every cancel). -/

/-! ### leases survive data writes and container growth -/

/-- any `writev` (growth, relocation of the extra-lease block, truncation, even a failing call) keeps
    every lease — slot numbers, owners, stored secrets, expiry times, for 0..∞ leases — and a whole
    read-test-write request never changes share data's leases except through its own renewal, which
    in turn never changes share data (`renewShares_abs`) -/
theorem leases_survive_data_ops (f : File) (hwf : WF f) (dv : List (Nat × Bytes)) (nl : Option Nat) :
    enumerateLeases (writev f dv nl).1 = enumerateLeases f ∧ WF (writev f dv nl).1 := by
  have h := writev_any f hwf dv nl
  exact ⟨enumerateLeases_congr h.2, h.1⟩

/-- and, conversely, lease operations never change the share data or the write enabler -/
theorem lease_ops_keep_data (h : Bytes → Bytes) (f : File) (hwf : WF f) (avail : Nat) (li : Lease) :
    absData (addOrRenew h f avail li).1 = absData f ∧ enabler (addOrRenew h f avail li).1 = enabler f ∧
    WF (addOrRenew h f avail li).1 := by
  have lw := addOrRenew_spec h f hwf avail li
  exact ⟨lw.data hwf, lw.enabler, lw.wf⟩

/-! ### new-format containers never store secrets in cleartext -/

/-- **v2_no_cleartext** (non-interference in the secrets): for a v2 container, mutable or immutable,
    the bytes of the container after `add_or_renew_lease` — and whether it raises — depend on the
    lease secrets ONLY through `blake2b secret`: two runs with different secrets (and even different
    hash functions) that agree on the hashes produce identical files.  `blake2b` is abstract. -/
theorem v2_no_cleartext (h h' : Bytes → Bytes) (rs rs' cs cs' : Bytes) (hr : h rs = h' rs') (hc : h cs = h' cs')
    (owner expire avail : Nat) (nodeid : Bytes) :
    (∀ f, Mutable.schemaOf f = some .v2 →
      Mutable.addOrRenew h f avail { owner := owner, expire := expire, renew := rs, cancel := cs, nodeid := nodeid } =
      Mutable.addOrRenew h' f avail { owner := owner, expire := expire, renew := rs', cancel := cs', nodeid := nodeid }) ∧
    (∀ f, ImmL.schemaOf f = some .v2 →
      ImmL.addOrRenew h f avail { owner := owner, expire := expire, renew := rs, cancel := cs, nodeid := nodeid } =
      ImmL.addOrRenew h' f avail { owner := owner, expire := expire, renew := rs', cancel := cs', nodeid := nodeid }) := by
  constructor
  · intro f hs
    simp only [Mutable.addOrRenew, Mutable.renewLease, hs, findRenew_v2_congr h h' rs rs' hr, toStored, hr, hc]
  · intro f hs
    simp only [ImmL.addOrRenew, ImmL.renewLease, ImmL.addLease, hs, imm_findRenew_v2_congr h h' rs rs' hr, toStored, hr, hc]

/-- the hypothesis of `v2_no_cleartext` is satisfiable with different secrets (a constant "hash") and
    the conclusion is not trivial: a v1 container does depend on the secret itself -/
example : (fun _ : Bytes => ([7] : Bytes)) [1] = (fun _ : Bytes => ([7] : Bytes)) [2] := rfl
example : toStored id .v1 { owner := 1, expire := 0, renew := [1], cancel := [], nodeid := [] } ≠
          toStored id .v1 { owner := 1, expire := 0, renew := [2], cancel := [], nodeid := [] } := by decide

end Tahoe.C25
