import Tahoe.Mutable.ServerMapLemmas
import Tahoe.Mutable.ResurveyLemmas
import Tahoe.Mutable.UpdaterLemmas
/-! C11 — mutable version ordering and rollback resistance (property theorems; helper lemmas live in
    `Tahoe/Mutable/ServerMapLemmas.lean`). -/
/-!
## Coverage of the statement (properties.jsonl C11)

| clause of the statement | theorem(s) |
|---|---|
| "Each successful publish writes a version whose sequence number is higher than every version its survey observed" | `new_seqnum_exceeds_survey` (one survey; `Publish.publish` and `Publish.update` both take `highest_seqnum()+1` — tied per call by correspondence), `new_seqnum_exceeds_all_passes` (operations that survey several times into one servermap: `modify()`, the MODE_CHECK retry, the MDMF update path; servers may stop answering between passes in any pattern; hypothesis: the shares themselves do not change during the operation), `new_seqnum_is_successor` |
| "…so one writer's versions strictly increase" | `one_writer_strictly_increasing` (histories of any length; hypothesis = the statement's own: each survey observed the writer's previous version or something at least as new) |
| "A read returns the recoverable version with the highest sequence number among the versions it located" | `best_is_max_recoverable` (`best_recoverable_version`: max (seqnum, root hash) among versions with ≥ k distinct shares; `None` iff none); that `download_best_version` reads exactly that version: C14 `download_version_exact` + monitor |
| "…and keeps querying further servers while it has seen a newer version it cannot yet recover" | `keeps_querying` (never `done`), `keeps_querying_sends` (a new query is actually sent), `read_done_sound` (converse: what `done` implies) |
| quantifier: stale shares on any subset of servers, unavailable servers, servers that replay older shares | the theorems quantify over all servermaps / updater states / pass sequences; which servermap a given grid produces is correspondence + monitor (grid histories) |
| MODE_WRITE boundary rule (EPSILON empty servers after the last share, everybody to the left answered) | `write_done_boundary` (done ⇒ exhausted, or: a version recoverable, private key not pending, and the scan stopped after a prefix of the permuted list in which everybody answered, a server with shares occurs and ≥ EPSILON servers answered "no shares"); that the EPSILON empty answers are *consecutive after the last server with shares* is in the model (`scanLoop`, tied by the `upd` cases) but the theorem states only their number |
| MODE_CHECK / MODE_ANYTHING / MODE_REPAIR exits of `_check_for_done` | `check_repair_anything_exits` (CHECK/REPAIR: done ⇔ no must-query server pending; ANYTHING: done ⇔ exhausted or something recoverable) |
-/
namespace Tahoe.C11
open Tahoe.Mutable Tahoe.Mutable.ServerMap

/-- a small concrete servermap used by the `example`s: seq 3 on shares 0,1 (k = 2: recoverable),
    seq 5 on share 2 only (unrecoverable, newer) -/
def vA : VerInfo := { seqnum := 3, rootHash := [7], iv := some [1], segsize := 6, datalength := 6, k := 2, n := 3, pfx := [3], offsets := [] }
def vB : VerInfo := { vA with seqnum := 5, rootHash := [2], pfx := [5] }
def smEx : ServerMap := { known := [((10, 0), vA), ((11, 1), vA), ((12, 2), vB)] }

/-- The sequence number `Publish` chooses (`highest_seqnum() + 1`) is larger than the sequence number of
    every share in the servermap it was given — every version its survey observed; the initial publish
    (no servermap) uses 1. -/
theorem new_seqnum_exceeds_survey (sm : ServerMap) :
    (∀ key v, (key, v) ∈ sm.known → v.seqnum < newSeqnum (some sm)) ∧ newSeqnum none = 1 := by
  refine ⟨fun key v h => ?_, rfl⟩
  have := seqnum_le_highest sm key v h
  simp only [newSeqnum]; omega

example : newSeqnum (some smEx) = 6 ∧ ((12, 2), vB) ∈ smEx.known := by decide

/-- …and it is exactly one more than some observed version (or 1 when nothing was observed): the
    writer does not skip ahead arbitrarily. -/
theorem new_seqnum_is_successor (sm : ServerMap) :
    newSeqnum (some sm) = 1 ∨ ∃ v, sm.Located v ∧ newSeqnum (some sm) = v.seqnum + 1 := by
  rcases highest_is_located sm with h | ⟨v, hv, he⟩
  · left; simp [newSeqnum, h]
  · right; exact ⟨v, hv, by simp [newSeqnum, he]⟩

example : smEx.Located vB ∧ newSeqnum (some smEx) = vB.seqnum + 1 := ⟨⟨(12, 2), by decide⟩, by decide⟩

/-- the sequence numbers one writer chooses: 1 at creation, then one publish per survey -/
def writerSeqnums (surveys : List ServerMap) : List Nat :=
  newSeqnum none :: surveys.map (fun sm => newSeqnum (some sm))

/-- the hypothesis the statement itself makes: the survey of each publish observed (a share of) the
    version written by the writer's preceding publish, or something at least as new -/
def ObservesPrevious : Nat → List ServerMap → Prop
  | _, [] => True
  | prev, sm :: rest =>
    (∃ key v, (key, v) ∈ sm.known ∧ prev ≤ v.seqnum) ∧ ObservesPrevious (newSeqnum (some sm)) rest

theorem lt_of_observes (prev : Nat) (surveys : List ServerMap) (h : ObservesPrevious prev surveys) :
    (∀ x ∈ surveys.map (fun sm => newSeqnum (some sm)), prev < x) ∧
    (surveys.map (fun sm => newSeqnum (some sm))).Pairwise (· < ·) := by
  induction surveys generalizing prev with
  | nil => simp
  | cons sm rest ih =>
    obtain ⟨⟨key, v, hmem, hle⟩, hrest⟩ := h
    have hlt : prev < newSeqnum (some sm) :=
      Nat.lt_of_le_of_lt hle ((new_seqnum_exceeds_survey sm).1 key v hmem)
    obtain ⟨ih1, ih2⟩ := ih _ hrest
    constructor
    · intro x hx
      simp only [List.map_cons, List.mem_cons] at hx
      rcases hx with rfl | hx
      · exact hlt
      · exact Nat.lt_trans hlt (ih1 x hx)
    · simp only [List.map_cons, List.pairwise_cons]
      exact ⟨ih1, ih2⟩

/-- One writer's versions strictly increase, over publish histories of any length. -/
theorem one_writer_strictly_increasing (surveys : List ServerMap)
    (h : ObservesPrevious (newSeqnum none) surveys) : (writerSeqnums surveys).Pairwise (· < ·) := by
  obtain ⟨h1, h2⟩ := lt_of_observes _ _ h
  simp only [writerSeqnums, List.pairwise_cons]
  exact ⟨h1, h2⟩

/-- a history: creation (1), then a survey that sees version 1, then a survey that sees 2 and a stale 1 -/
example :
    let v1 : VerInfo := { vA with seqnum := 1 }
    let v2 : VerInfo := { vA with seqnum := 2 }
    let s1 : ServerMap := { known := [((0, 0), v1), ((1, 1), v1)] }
    let s2 : ServerMap := { known := [((0, 0), v2), ((1, 1), v1)] }
    ObservesPrevious (newSeqnum none) [s1, s2] ∧ writerSeqnums [s1, s2] = [1, 2, 3] := by
  refine ⟨⟨⟨(0, 0), _, List.mem_cons_self, by decide⟩, ⟨(0, 0), _, List.mem_cons_self, by decide⟩, trivial⟩, by decide⟩

/-- `best_recoverable_version` is `None` exactly when nothing is recoverable; otherwise it is a located
    version with at least `k` distinct share numbers, and no recoverable version in the map has a higher
    sequence number (ties: no higher root hash). -/
theorem best_is_max_recoverable (sm : ServerMap) :
    (sm.bestRecoverable = none ↔ ∀ v, sm.Located v → sm.distinctShnums v < v.k) ∧
    ∀ b, sm.bestRecoverable = some b →
      (sm.Located b ∧ b.k ≤ sm.distinctShnums b) ∧
      ∀ w, sm.Located w → w.k ≤ sm.distinctShnums w →
        w.seqnum ≤ b.seqnum ∧ (w.seqnum = b.seqnum → w.rootHash ≤ b.rootHash) := by
  constructor
  · unfold bestRecoverable
    rw [maxVer_none]
    constructor
    · intro h v hv
      have : v ∉ sm.recoverable := by rw [h]; simp
      rw [mem_recoverable] at this
      exact Nat.lt_of_not_le (fun hk => this ⟨hv, hk⟩)
    · intro h
      apply List.eq_nil_iff_forall_not_mem.mpr
      intro v hv
      rw [mem_recoverable] at hv
      have := h v hv.1
      omega
  · intro b hb
    obtain ⟨hmem, hmax⟩ := maxVer_some _ _ hb
    refine ⟨(mem_recoverable sm b).mp hmem, fun w hw hk => ?_⟩
    exact le_seqnum (hmax w ((mem_recoverable sm w).mpr ⟨hw, hk⟩))

example : smEx.bestRecoverable = some vA ∧ smEx.distinctShnums vA = 2 ∧ smEx.distinctShnums vB = 1 := by decide

/-- MODE_READ keeps querying: while the updater is running, if the map shows an unrecoverable version
    whose sequence number is above every recoverable one and there is still something to wait for or to
    ask (`_queries_outstanding` or `extra_servers` non-empty), `_check_for_done` does not finish. -/
theorem keeps_querying (u : Upd) (hmode : u.mode = .read) (hrun : u.running = true)
    (hmore : u.extra ≠ [] ∨ u.outstanding ≠ [])
    (hnewer : ∃ v ∈ u.sm.unrecoverable, ∀ w ∈ u.sm.recoverable, w.seqnum < v.seqnum) :
    checkForDone u ≠ .done := by
  obtain ⟨v, hv, hnew⟩ := hnewer
  have hne : (u.outstanding.isEmpty && u.extra.isEmpty) = false := by
    rcases hmore with h | h
    · cases he : u.extra with
      | nil => exact absurd he h
      | cons a l => simp
    · cases he : u.outstanding with
      | nil => exact absurd he h
      | cons a l => simp
  unfold checkForDone
  simp only [hrun, hmode, hne, Bool.not_true, Bool.false_eq_true, if_false]
  split
  · simp
  · simp only [show (Mode.read = Mode.anything) = False from by simp,
      show (Mode.read = Mode.check) = False from by simp,
      show (Mode.read = Mode.repair) = False from by simp, decide_false, Bool.false_and, Bool.or_self,
      Bool.false_eq_true, if_false, if_true]
    split
    · simp
    · split
      · simp
      · rename_i hi hmax
        obtain ⟨hmem, _⟩ := maxVer_some _ _ hmax
        have hlt := hnew hi hmem
        have hany : u.sm.unrecoverable.any (fun v => decide (hi.seqnum < v.seqnum)) = true :=
          List.any_eq_true.mpr ⟨v, hv, by simpa using hlt⟩
        simp [hany]

/-- a MODE_READ updater that has heard from 4 servers (k + EPSILON = 4), sees seq 3 recoverable and
    seq 5 on one share, and has two more servers to ask: it asks them -/
def updEx : Upd :=
  { mode := .read, running := true, mustQuery := [], outstanding := [], extra := [13, 14], completed := 4,
    numToQuery := 4, epsilon := 2, needPrivkey := false, full := [10, 11, 12, 9, 13, 14], bad := [],
    empty := [9], withShares := [10, 11, 12], sm := smEx }

example : (∃ v ∈ updEx.sm.unrecoverable, ∀ w ∈ updEx.sm.recoverable, w.seqnum < v.seqnum) ∧
    checkForDone updEx = .more 5 ∧ (stepCheck updEx).2.1 = [13, 14] := by
  refine ⟨⟨vB, by decide, by decide⟩, by decide, by decide⟩

/-- …and asking is effective: when fewer than `MAX_IN_FLIGHT` queries are outstanding and a server
    remains, at least one new query is sent. -/
theorem keeps_querying_sends (u : Upd) (hmode : u.mode = .read) (hrun : u.running = true)
    (hmust : u.mustQuery = []) (hextra : u.extra ≠ []) (hout : u.outstanding.length < MAX_IN_FLIGHT)
    (hdone : u.numToQuery ≤ u.completed)
    (hnewer : ∃ v ∈ u.sm.unrecoverable, ∀ w ∈ u.sm.recoverable, w.seqnum < v.seqnum) :
    (stepCheck u).1 = .more MAX_IN_FLIGHT ∧ (stepCheck u).2.1 ≠ [] := by
  have hnd := keeps_querying u hmode hrun (Or.inl hextra) hnewer
  have hdec : checkForDone u = .more MAX_IN_FLIGHT := by
    have hne : (u.outstanding.isEmpty && u.extra.isEmpty) = false := by
      cases he : u.extra with
      | nil => exact absurd he hextra
      | cons a l => simp
    have hnl : ¬ u.completed < u.numToQuery := by omega
    unfold checkForDone at hnd ⊢
    simp only [hrun, hmode, hmust, hne, hnl, Bool.not_true, Bool.false_eq_true, if_false,
      List.isEmpty_nil, show (Mode.read = Mode.anything) = False from by simp,
      show (Mode.read = Mode.check) = False from by simp,
      show (Mode.read = Mode.repair) = False from by simp, decide_false, Bool.false_and, Bool.or_self,
      if_true] at hnd ⊢
    split
    · rfl
    · rename_i hi hmax
      rw [hmax] at hnd
      simp only at hnd
      split
      · rfl
      · rename_i hany
        simp [hany] at hnd
  unfold stepCheck
  rw [hdec]
  refine ⟨rfl, ?_⟩
  cases he : u.extra with
  | nil => exact absurd he hextra
  | cons a l =>
    have : ¬ MAX_IN_FLIGHT ≤ u.outstanding.length := by omega
    simp [sendMore, this]

/-- The converse reading of the MODE_READ rule: when it does finish, either nothing more can be asked
    and nothing is pending, or some version is recoverable and no unrecoverable version in the map is
    newer than the best recoverable one. -/
theorem read_done_sound (u : Upd) (hmode : u.mode = .read) (h : checkForDone u = .done) :
    (u.outstanding = [] ∧ u.extra = []) ∨
    (u.numToQuery ≤ u.completed ∧ ∃ b, u.sm.bestRecoverable = some b ∧
      ∀ v ∈ u.sm.unrecoverable, v.seqnum ≤ b.seqnum) := by
  unfold checkForDone at h
  simp only [hmode, show (Mode.read = Mode.anything) = False from by simp,
      show (Mode.read = Mode.check) = False from by simp,
      show (Mode.read = Mode.repair) = False from by simp, decide_false, Bool.false_and, Bool.or_self,
      Bool.false_eq_true, if_false, if_true] at h
  split at h
  · simp at h
  · split at h
    · simp at h
    · split at h
      · rename_i h3
        left
        simp only [Bool.and_eq_true, List.isEmpty_iff] at h3
        exact h3
      · split at h
        · simp at h
        · rename_i hc
          split at h
          · simp at h
          · rename_i hi hmax
            split at h
            · simp at h
            · rename_i hany
              right
              refine ⟨by omega, hi, hmax, fun v hv => ?_⟩
              have : ¬ (hi.seqnum < v.seqnum) := by
                intro hlt
                exact hany (List.any_eq_true.mpr ⟨v, hv, by simpa using hlt⟩)
              omega

example : checkForDone { updEx with sm := { known := [((10, 0), vA), ((11, 1), vA)] } } = .done := by decide

/-- Several survey passes into one servermap (`modify()`, the MODE_CHECK retry, the MDMF update path): the
    observations are never removed.  If the shares do not change while the operation runs (every report of
    a slot names the same version — servers may stop answering between passes, in any pattern), then the
    sequence number chosen after the last pass is above the sequence number of every share reported in
    ANY pass, and above everything that was in the map before. -/
theorem new_seqnum_exceeds_all_passes (sm0 : ServerMap) (passes : List (List SurveyEv))
    (hstable : ∀ s sh v v', SurveyEv.share s sh v ∈ passes.flatten → SurveyEv.share s sh v' ∈ passes.flatten → v' = v)
    (hstable0 : ∀ key v v', (key, v) ∈ sm0.known → SurveyEv.share key.1 key.2 v' ∈ passes.flatten → v' = v) :
    (∀ s sh v, SurveyEv.share s sh v ∈ passes.flatten → v.seqnum < newSeqnum (some (resurvey sm0 passes))) ∧
    (∀ key v, (key, v) ∈ sm0.known → v.seqnum < newSeqnum (some (resurvey sm0 passes))) := by
  rw [resurvey_eq_foldl]
  constructor
  · intro s sh v hm
    exact (new_seqnum_exceeds_survey _).1 (s, sh) v
      (foldl_records _ _ s sh v hm (fun v' hm' => hstable s sh v v' hm hm'))
  · intro key v hk
    exact (new_seqnum_exceeds_survey _).1 key v
      (foldl_keeps _ _ key v hk (fun v' hm' => hstable0 key v v' hk hm'))

/-- pass 1: server 12 answers with its seq-5 share; pass 2: server 12 fails.  The choice is still 6. -/
example : newSeqnum (some (resurvey {} [[.share 10 0 vA, .answered 10, .share 12 2 vB, .answered 12],
    [.share 10 0 vA, .answered 10, .failed 12]])) = 6 := by decide

/-! ### the other modes of `_check_for_done` -/

/-- MODE_WRITE finishes only when nothing more can be asked, or: some version is recoverable, the private key is
    not still being waited for, and the scan of the permuted server list stopped at a boundary — after a prefix in
    which every server has answered, which contains a server with shares, and in which at least `EPSILON` servers
    answered "no shares". -/
theorem write_done_boundary (u : Upd) (hmode : u.mode = .write) (h : checkForDone u = .done) :
    (u.outstanding = [] ∧ u.extra = []) ∨
    (u.sm.recoverable ≠ [] ∧ u.needPrivkey = false ∧
      ∃ pre suf, u.full = pre ++ suf ∧ (∀ x ∈ pre, u.responded x) ∧ (∃ x ∈ pre, u.isFound x) ∧
        u.epsilon ≤ (pre.filter (fun x => decide (u.isEmptyResp x))).length) := by
  unfold checkForDone at h
  simp only [hmode, show (Mode.write = Mode.anything) = False from by simp,
      show (Mode.write = Mode.check) = False from by simp, show (Mode.write = Mode.repair) = False from by simp,
      show (Mode.write = Mode.read) = False from by simp, decide_false, Bool.false_and, Bool.or_self,
      Bool.false_eq_true, if_false, if_true] at h
  split at h
  · simp at h
  · split at h
    · simp at h
    · split at h
      · rename_i h3
        left
        simp only [Bool.and_eq_true, List.isEmpty_iff] at h3
        exact h3
      · split at h
        · simp at h
        · rename_i hrec
          split at h
          · rename_i hfb
            split at h
            · rename_i hln
              split at h
              · simp at h
              · rename_i hpk
                right
                refine ⟨fun hnil => hrec (by rw [hnil]; rfl), by simpa using hpk, ?_⟩
                have hln' : (scanLoop u 0 u.full {}).lastNotResponded = none := by
                  cases hc : (scanLoop u 0 u.full {}).lastNotResponded with
                  | none => rfl
                  | some x => rw [hc] at hln; simp at hln
                obtain ⟨pre, suf, h1, h2, h3, h4⟩ := scanLoop_boundary u u.full 0 {} rfl rfl hfb hln'
                refine ⟨pre, suf, h1, h2, ?_, by simpa using h4⟩
                rcases h3 with h3 | h3
                · simp at h3
                · exact h3
            · simp at h
          · simp at h

/-- write-mode updater: servers 0..3 answered (0, 1 with shares, 2, 3 empty), EPSILON = 2, 4 and 5 not asked -/
def updW : Upd :=
  { mode := .write, running := true, mustQuery := [], outstanding := [], extra := [4, 5], completed := 4,
    numToQuery := 5, epsilon := 2, needPrivkey := false, full := [0, 1, 2, 3, 4, 5], bad := [],
    empty := [2, 3], withShares := [0, 1], sm := { known := [((0, 0), vA), ((1, 1), vA)] } }
example : checkForDone updW = .done ∧ checkForDone { updW with empty := [2] } = .more 5 ∧
    checkForDone { updW with needPrivkey := true } = .more 5 := by decide

/-- MODE_CHECK and MODE_REPAIR ask every server at the start and finish exactly when no server that must answer is
    still pending; MODE_ANYTHING finishes as soon as one version is recoverable (or nothing more can be asked). -/
theorem check_repair_anything_exits (u : Upd) (hrun : u.running = true) :
    ((u.mode = .check ∨ u.mode = .repair) → (checkForDone u = .done ↔ u.mustQuery = [])) ∧
    (u.mode = .anything → u.mustQuery = [] →
      (checkForDone u = .done ↔ (u.outstanding = [] ∧ u.extra = []) ∨ u.sm.recoverable ≠ [])) := by
  constructor
  · intro hm
    unfold checkForDone
    cases hq : u.mustQuery with
    | cons a l => simp [hrun, hq]
    | nil =>
      simp only [hrun, hq, Bool.not_true, Bool.false_eq_true, if_false, List.isEmpty_nil, iff_true]
      split
      · rfl
      · rcases hm with hm | hm <;> simp [hm]
  · intro hm hq
    unfold checkForDone
    simp only [hrun, hq, hm, Bool.not_true, Bool.false_eq_true, if_false, List.isEmpty_nil]
    by_cases hx : (u.outstanding.isEmpty && u.extra.isEmpty) = true
    · simp only [hx, if_true, true_iff]
      left
      simpa [List.isEmpty_iff] using hx
    · simp only [hx, if_false]
      have hx' : ¬ (u.outstanding = [] ∧ u.extra = []) := by
        intro h; apply hx; simp [h.1, h.2]
      cases hr : u.sm.recoverable with
      | nil => simp [hx']
      | cons a l => simp

example : checkForDone { updW with mode := .check } = .done ∧
    checkForDone { updW with mode := .check, mustQuery := [3] } = .wait ∧
    checkForDone { updW with mode := .anything } = .done ∧
    checkForDone { updW with mode := .anything, sm := {} } = .more 5 := by decide

end Tahoe.C11
