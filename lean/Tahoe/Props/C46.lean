import Tahoe.Immutable.FetchLemmasC46
import Tahoe.Immutable.SegLemmas
import Tahoe.Immutable.SysLemmas
import Tahoe.Immutable.SysFinderLemmas
/-! C46 — immutable reads always terminate (property theorems over the DownloadNode segment queue
`Tahoe.Fetch.Node` on top of the SegmentFetcher event system, over one read `Tahoe.Fetch.Seg`
(`Segmentation`) and over the composed system `Tahoe.Fetch.Sys` = reads routed through the node;
helper lemmas in `Tahoe/Immutable/FetchLemmas*.lean`, `SegLemmas.lean`, `SysLemmas.lean`).

As built: 11 theorems — `no_stuck_state`, `later_reads_progress`, `do_loop_terminates`,
`idle_fetcher_has_asked_for_more` (node / fetcher), `read_never_idle`,
`read_terminates_when_answered`, `bad_segnum_retry`, `read_writes_exact_range` (one read),
`waiting_read_request_is_routed`, `every_read_terminates` (composed system, end to end), and
`unfixed_stuck_counterexample`.  All three models are tied to node.py / fetcher.py / segmentation.py
by per-event state comparison (`node`, `seg`, `sys` lines of `Drv/C46.lean`).

Termination is stated as a safety property: *no stuck quiescent state*.  The environment may do
anything in any order (requests, cancels, share announcements, `no_more_shares`, answers of every
kind for every started share, stale events of finished fetchers, spurious loops) except send
OVERDUE for a share that is not outstanding (`NEvOk`).  `NQuiescent`: nothing is pending for the
active fetcher (no queued loop, the finder said `no_more_shares`, every started share has sent its
terminal event).

The theorems are about the code as repaired in /repo by 6853eb2 (`fixes/C46-active-segment.diff`,
`Node.fixed = true`); `unfixed_stuck_counterexample` shows that the tree before that fix violated them.

## Coverage of the statement (properties.jsonl C46)

| clause of the statement | covered by |
|---|---|
| every read eventually completes, delivering its data or an error | read layer: `read_never_idle`, `read_terminates_when_answered` (a started read that is not paused always has a request outstanding or has fired); node layer: `no_stuck_state` (every request is retired at quiescence); fetcher layer: `Struct.quiet` inside `no_stuck_state`, `do_loop_terminates`.  composed: `every_read_terminates` (system `Sys`), `waiting_read_request_is_routed` |
| … for any pattern of server failures, corrupted or inconsistent shares | node/fetcher theorems allow every answer for every started share in any order (`NEvOk` only forbids OVERDUE from a share that is not outstanding); decode / ciphertext-hash failures = `badSegs` in `no_stuck_state`; the mapping from server faults to share events: monitor only |
| … late answers | OVERDUE events in the fetcher model (theorem); finder / DYHB overdue timers: `C03.finder_answers_every_hungry` (ShareFinder model) |
| … concurrent reads on the same file object | `no_stuck_state` quantifies over any interleaving of `getSegment` requests (several per segment, several segments) and cancels; each read is its own `Seg` (`read_never_idle`) — concurrency between reads exists only through the node queue |
| the finder inside the composed system (`SysF`: `want_more_shares` → `hungry`, queued `got_shares` / `no_more_shares` back to the node) | model tied (`sysf` lines: real DownloadNode + real ShareFinder + scripted servers); `every_read_terminates_with_finder_partial` (routing invariant preserved; the `noMore` clause still a hypothesis — see its docstring) |
| a read never hangs once every server has answered or failed | `no_stuck_state` + `read_terminates_when_answered`; `NQuiescent` = "every server has answered or failed" at the fetcher interface; that the finder reaches that state: `idle_fetcher_has_asked_for_more` (an idle un-told fetcher has called `want_more_shares`) + `C03.finder_answers_every_hungry` (every `want_more_shares` is answered by `got_shares` or `no_more_shares` once every server call returned or failed); that the shares do (every `get_block` gets a terminal event): assumption, monitor only (share.py not modelled) |
| a failed read does not prevent later reads from completing | `later_reads_progress` (after any history incl. failed segments a new request is accepted by a fresh running fetcher and retired at quiescence); `unfixed_stuck_counterexample` (the code before the fix violated it) |
| quantifier: decode failures and ciphertext hash mismatches followed by further reads on the same node | `no_stuck_state` / `later_reads_progress` with `badSegs`; end-to-end: crafted shares (monitor) |
| wrong segment-size guess / BadSegmentNumberError retry (seeded C46-c) | `bad_segnum_retry`, `read_never_idle`; `read_writes_exact_range` |

Remaining assumptions: the environment predicates `NEvOk`/`NQuiescent` and `SEvOk` (answers only for
outstanding requests; every queued `eventually` turn runs); ShareFinder answers every
`want_more_shares` with `add_shares` or `no_more_shares` (both halves proved — fetcher: `idle_fetcher_has_asked_for_more`,
finder: `C03.finder_answers_every_hungry` — but finder and `Sys` are not one transition system yet);
every `get_block` gets a terminal event (share.py not modelled; true for dead shares since 4f1ea1b);
`eventually(self._deliver, …)` fires the request's Deferred exactly once (Twisted/foolscap); decode in
the CPU thread pool is one atomic step; a consumer that pauses a read resumes it.

End to end: `every_read_terminates` (the composed system `Sys` = reads + node + the node's fetchers) and
`waiting_read_request_is_routed`; the shares and the finder remain the environment (assumptions above).
-/
namespace Tahoe.C46
open Tahoe.Fetch

/-- **C46 (1).**  In every state reached by a valid event sequence in which nothing is pending any
more, the request queue is empty, no fetcher is left active, and every segment request ever
submitted has been retired (its Deferred was handed the segment or a Failure) or was cancelled by
its caller.  Decode / ciphertext-hash failures (`badSegs`), bad segment numbers, cancels and
concurrent requests for several segments included. -/
theorem no_stuck_state (k numSegs : Nat) (badSegs : List Nat) (es : List NEv)
    (hv : NValidFrom (initNode k numSegs badSegs) es)
    (hq : NQuiescent (nrun (initNode k numSegs badSegs) es)) :
    (nrun (initNode k numSegs badSegs) es).requests = [] ∧
    (nrun (initNode k numSegs badSegs) es).active = none ∧
    ∀ r ∈ submitted es, r ∈ (nrun (initNode k numSegs badSegs) es).retired.map (·.1) ∨ r ∈ cancelled es := by
  have hi := ninv_run es _ (ninv_init k numSegs badSegs) hv
  have hnone : (nrun (initNode k numSegs badSegs) es).active = none := by
    cases ha : (nrun (initNode k numSegs badSegs) es).active with
    | none => rfl
    | some a =>
      obtain ⟨hr, _, hs⟩ := hi.live a ha
      unfold NQuiescent at hq
      rw [ha] at hq
      rcases hq with h | ⟨h1, h2, h3⟩
      · simp [hr] at h
      · exact absurd h3 (hs.quiet hr h1 h2)
  have hreq := hi.served hnone
  refine ⟨hreq, hnone, ?_⟩
  have hacc := acc_run es (initNode k numSegs badSegs) [] [] (by intro r hr; simp at hr)
  intro r hr
  rcases hacc r (by simpa using hr) with h1 | h1 | h1
  · rw [hreq] at h1; simp at h1
  · left; exact h1
  · right; simpa using h1

/-- **C46 (2).**  After any history — in particular after segments that failed with
NotEnoughShares / NoShares / BadSegmentNumber or in decode / ciphertext-hash checking — a new
`get_segment` is *accepted*: when it returns a running fetcher is active, and if the node was idle
that fetcher is a fresh one for exactly the requested segment; and it is *served*: whenever the
system becomes quiescent afterwards the request has been retired or was cancelled. -/
theorem later_reads_progress (k numSegs : Nat) (badSegs : List Nat) (es₁ es₂ : List NEv) (seg r : Nat)
    (hv : NValidFrom (initNode k numSegs badSegs) (es₁ ++ .getSegment seg r :: es₂)) :
    (∃ a, (nrun (initNode k numSegs badSegs) (es₁ ++ [.getSegment seg r])).active = some a ∧
        a.f.running = true ∧ a.f.verdict = none ∧
        ((nrun (initNode k numSegs badSegs) es₁).active = none → a.segnum = seg)) ∧
    (NQuiescent (nrun (initNode k numSegs badSegs) (es₁ ++ .getSegment seg r :: es₂)) →
      r ∈ (nrun (initNode k numSegs badSegs) (es₁ ++ .getSegment seg r :: es₂)).retired.map (·.1) ∨
      r ∈ cancelled (es₁ ++ .getSegment seg r :: es₂)) := by
  constructor
  · have hv1 : NValidFrom (initNode k numSegs badSegs) es₁ := nvalid_prefix es₁ _ _ hv
    have hi1 := ninv_run es₁ _ (ninv_init k numSegs badSegs) hv1
    have hi2 := ninv_step hi1 (.getSegment seg r) trivial
    rw [nrun_append]
    simp only [nrun]
    generalize nrun (initNode k numSegs badSegs) es₁ = n₁ at hi1 hi2 ⊢
    cases ha : (nstep n₁ (.getSegment seg r)).active with
    | none =>
      have := hi2.served ha
      simp only [nstep, startNewSegment] at this ha
      split at this <;> simp_all
    | some a =>
      obtain ⟨h1, h2, _⟩ := hi2.live a ha
      refine ⟨a, rfl, h1, h2, ?_⟩
      intro hidle
      have hreq := hi1.served hidle
      simp only [nstep, startNewSegment, hidle, hreq, List.nil_append] at ha
      simp only [Option.some.injEq] at ha
      rw [← ha]
  · intro hq
    have := (no_stuck_state k numSegs badSegs _ hv hq).2.2 r
    apply this
    have : ∀ (es₁ : List NEv), r ∈ submitted (es₁ ++ .getSegment seg r :: es₂) := by
      intro es₁
      induction es₁ with
      | nil => simp [submitted]
      | cons e es ih => rw [List.cons_append, submitted_cons]; simp [ih]
    exact this es₁

/-- **C46 (3).**  The `while` loop of `_do_loop` itself terminates: one `loop` turn makes at most
`3·|unused shares| + |outstanding| + 2` iterations (the model's fuel is never exhausted). -/
theorem do_loop_terminates (s : Fetcher) (h : Out.exc .fuel ∉ s.out) : Out.exc .fuel ∉ (doLoop s).out := by
  unfold doLoop
  split
  · exact h
  · split
    · show Out.exc .fuel ∉ (stop s).out; rw [stop_out]; exact h
    · exact whileLoop_fuel h _ (mu_lt_fuelFor s)



/-- **C46 (10), the fetcher's half of the finder contract.**  Every `loop` turn that leaves the
fetcher running, not yet told `no_more_shares` and without any block request outstanding has called
`node.want_more_shares()` (→ `ShareFinder.hungry()`) during that turn.  Together with
`C03.finder_answers_every_hungry` (a hungry finder with no query in flight has delivered shares or
announced `no_more_shares`) this is why a quiescent system satisfies the `noMore` clause of
`NQuiescent`: the fetcher cannot sit idle un-told without having asked, and the finder cannot stay
asked without answering. -/
theorem idle_fetcher_has_asked_for_more (s : Fetcher) (hact : ∀ x ∈ s.active, x ∈ s.outstanding) :
    (doLoop { s with out := [] }).running = true → (doLoop { s with out := [] }).noMore = false →
    (doLoop { s with out := [] }).outstanding = [] → Out.wantMore ∈ (doLoop { s with out := [] }).out := by
  unfold doLoop
  split
  · rename_i hr
    intro hrun
    simp only [Bool.not_eq_true', ] at hr
    simp [hr] at hrun
  · rename_i hr
    simp only [Bool.not_eq_true, Bool.not_eq_false'] at hr
    split
    · intro hrun; simp [stop, hr] at hrun
    · exact whileLoop_asks (s := { s with out := [] }) hact hr _ (mu_lt_fuelFor _)

/-! ### the read layer (`Segmentation`) -/

/-- a fresh `Segmentation(node, offset, size, …)` -/
def freshRead (segsize guess offset size : Nat) : Seg :=
  { segsize := segsize, guess := guess, offset := offset, size := size }

/-- **C46 (4).**  A read never goes idle: after `start()` and any history of answers (right segment,
wrong segment, `BadSegmentNumberError`, any other failure — with the segment size known or not at
each moment), pauses, resumes, queued turns and `stopProducing`, a read whose Deferred has not fired
is alive and — unless its consumer paused it — has a `get_segment` request outstanding or a turn
queued.  (`_request_retired` runs on every outcome; a seeded change that skipped it on the
`BadSegmentNumberError` path made exactly this false.) -/
theorem read_never_idle (segsize guess offset size : Nat) (k0 : Bool) (es : List (SEv × Bool))
    (hv : SegValid (segStep (freshRead segsize guess offset size) k0 .start) es) :
    SegLive (segRun (segStep (freshRead segsize guess offset size) k0 .start) es) :=
  seglive_run es _ (seglive_start _ k0 rfl) hv

/-- **C46 (5).**  Consequently: once every request the read made has been answered (the node layer
guarantees that at quiescence, `no_stuck_state`), no turn is queued and the consumer is not pausing
it, the read's Deferred has fired. -/
theorem read_terminates_when_answered (segsize guess offset size : Nat) (k0 : Bool) (es : List (SEv × Bool))
    (hv : SegValid (segStep (freshRead segsize guess offset size) k0 .start) es)
    (hidle : (segRun (segStep (freshRead segsize guess offset size) k0 .start) es).active = none)
    (hturn : (segRun (segStep (freshRead segsize guess offset size) k0 .start) es).turns = 0)
    (hhungry : (segRun (segStep (freshRead segsize guess offset size) k0 .start) es).hungry = true) :
    (segRun (segStep (freshRead segsize guess offset size) k0 .start) es).result.isSome = true := by
  have h := read_never_idle segsize guess offset size k0 es hv
  cases hr : (segRun (segStep (freshRead segsize guess offset size) k0 .start) es).result with
  | some _ => rfl
  | none =>
    rcases (h.1 hr).2 hhungry with h1 | h1
    · simp [hidle] at h1
    · omega

/-- **C46 (6).**  The one-shot retry: a request made on a *guessed* segment size that comes back
with `BadSegmentNumberError` (or as the wrong segment) is followed by a new request computed from the
real segment size, with no further retry armed; a failure of a request made with the real segment
size (or any other failure) fires the errback with that failure. -/
theorem bad_segnum_retry (s : Seg) (e : SegErr) (hr : s.result = none) (ha : s.alive = true)
    (hh : s.hungry = true) (hsz : s.size ≠ 0) :
    (s.retryArmed = true → (e = .badSegnum ∨ e = .wrongSegment) →
      (segStep s true (.failed e)).active = some (if s.offset = 0 then 0 else s.offset / s.segsize) ∧
      (segStep s true (.failed e)).retryArmed = false ∧ (segStep s true (.failed e)).result = none) ∧
    (s.retryArmed = false → ∀ k, (segStep s k (.failed e)).result = some (some e)) := by
  constructor
  · intro harm he
    have hcond : (s.retryArmed && (decide (e = .wrongSegment) || decide (e = .badSegnum))) = true := by
      rcases he with h | h <;> simp [harm, h]
    simp only [segStep, segFailure, hcond, if_true, maybeFetchNext, ha, hh, fetchNext, hsz]
    simp [hr]
  · intro harm k
    simp [segStep, segFailure, harm, segError]

/-- **C46 (7) / C03.**  Whatever the guess and whatever the answers: the consumer receives the
requested range in order without gap or overlap, and the Deferred fires with success only when the
whole range `[offset, offset+size)` has been written. -/
theorem read_writes_exact_range (segsize guess offset size : Nat) (k0 : Bool) (es : List (SEv × Bool))
    (hdone : (segRun (segStep (freshRead segsize guess offset size) k0 .start) es).result = some none) :
    contigEnd offset (writesOf (segRun (segStep (freshRead segsize guess offset size) k0 .start) es).out)
      = some (offset + size) := by
  have h0 : SegRange offset size (freshRead segsize guess offset size) := by
    simp [SegRange, freshRead, writesOf, contigEnd]
  have h := segrange_run es _ (segrange_step k0 .start h0)
  have hz := h.2.2 hdone
  have := h.1
  rw [h.2.1]
  congr 1
  omega


/-! ### the composed system (`Sys`: reads routed through the node) -/

/-- **C46 (8), routing invariant.**  In every reachable state of the composed system a read that is
waiting for a segment (Deferred not fired, `_active_segnum` set) holds the id of a request that is
in the node's queue or has been retired (its `_deliver` queued or run) — requests are never lost
between `Segmentation` and `DownloadNode`, whatever the interleaving of reads, deliveries, answers,
cancels, pauses and failures. -/
theorem waiting_read_request_is_routed (k numSegs : Nat) (badSegs : List Nat) (filesize segsize guess : Nat)
    (es : List SysEv) (hv : SysValid (sysInit k numSegs badSegs filesize segsize guess) es) :
    ∀ r ∈ (sysRun (sysInit k numSegs badSegs filesize segsize guess) es).reads,
      r.seg.result = none → r.seg.active.isSome = true →
      ∃ q, r.req = some q ∧
        (q ∈ (sysRun (sysInit k numSegs badSegs filesize segsize guess) es).node.requests.map (·.2) ∨
         q ∈ (sysRun (sysInit k numSegs badSegs filesize segsize guess) es).node.retired.map (·.1)) := by
  intro r hr
  exact ((sysinv_run es _ (sysinv_init _ _ _ _ _ _) hv).reads r hr).track

/-- **C46 (9), end to end.**  Every history of the whole stack above the shares — any number of
concurrent `read()` calls on one node with any ranges and any segment-size guess, share
announcements, answers of every kind, decode failures, bad segment numbers, deliveries in any
order, pauses, resumes, `stopProducing` — that ends with nothing pending (`SysQuiescent`: the active
fetcher, if any, has no loop queued, was told `no_more_shares` and has no block request outstanding;
no read has a queued turn; every retired request's `_deliver` has run) ends with every read's
Deferred fired, except reads their own consumer is pausing. -/
theorem every_read_terminates (k numSegs : Nat) (badSegs : List Nat) (filesize segsize guess : Nat)
    (es : List SysEv) (hv : SysValid (sysInit k numSegs badSegs filesize segsize guess) es)
    (hq : SysQuiescent (sysRun (sysInit k numSegs badSegs filesize segsize guess) es)) :
    ∀ r ∈ (sysRun (sysInit k numSegs badSegs filesize segsize guess) es).reads,
      r.seg.result.isSome = true ∨ r.seg.hungry = false := by
  intro r hr
  have hi := sysinv_run es _ (sysinv_init k numSegs badSegs filesize segsize guess) hv
  obtain ⟨hnq, hturns, hdel⟩ := hq
  have hempty := ninv_quiescent_empty hi.node hnq
  have hri := hi.reads r hr
  cases hres : r.seg.result with
  | some _ => exact Or.inl rfl
  | none =>
    right
    cases hh : r.seg.hungry with
    | false => rfl
    | true =>
      exfalso
      rcases (hri.live.1 hres).2 hh with hact | hturn
      · obtain ⟨q, hq1, hin⟩ := hri.track hres hact
        rcases hin with hin | hin
        · rw [hempty] at hin; simp at hin
        · exact hdel r hr q hq1 hin
      · have := hturns r hr; omega


/-! ### the composed system with the real finder (`SysF` = `Sys` + `Tahoe.Finder`) -/

def sysfInit (k numSegs : Nat) (badSegs : List Nat) (filesize segsize guess mx : Nat) (servers : List Nat) : SysF :=
  { sys := sysInit k numSegs badSegs filesize segsize guess, finder := { maxOutstanding := mx, servers := servers } }

/-- **C46 (11), with the finder inside — partial.**  Full statement wanted: "every history of `SysF`
(reads + node + fetchers + ShareFinder, shares as the only environment) in which nothing is pending
any more — no queued turn of a read, a fetcher or the finder, no `get_buckets` query in flight, no
queued `got_shares` / `no_more_shares` call, every `_deliver` run, no block request outstanding —
ends with every read's Deferred fired."  Proved here: the same conclusion from `SysQuiescent` of the
`Sys` component, for every valid history of `SysF` — i.e. the routing through the finder
(`want_more_shares` → `hungry()`, queued `got_shares` / `no_more_shares` calls reaching the node
later, in any interleaving with everything else) preserves the routing invariant of `Sys`.
Missing: the invariant that links the finder's `told` flag to the `noMore` flag of every *fresh*
fetcher generation (a new fetcher starts un-told, asks again — `idle_fetcher_has_asked_for_more` —
and the finder, already exhausted, queues `no_more_shares` again — `C03.finder_answers_every_hungry`),
which would derive the `noMore` clause of `NQuiescent` from "finder quiescent ∧ mail empty" instead
of assuming it. -/
theorem every_read_terminates_with_finder_partial (k numSegs : Nat) (badSegs : List Nat)
    (filesize segsize guess mx : Nat) (servers : List Nat) (es : List SysFEv)
    (hv : SysFValid (sysfInit k numSegs badSegs filesize segsize guess mx servers) es)
    (hq : SysQuiescent (sysfRun (sysfInit k numSegs badSegs filesize segsize guess mx servers) es).sys) :
    ∀ r ∈ (sysfRun (sysfInit k numSegs badSegs filesize segsize guess mx servers) es).sys.reads,
      r.seg.result.isSome = true ∨ r.seg.hungry = false := by
  intro r hr
  have hi := sysf_run_inv es _ (sysinv_init k numSegs badSegs filesize segsize guess)
    (by intro m hm; simp [sysfInit] at hm) hv
  obtain ⟨hnq, hturns, hdel⟩ := hq
  have hempty := ninv_quiescent_empty hi.node hnq
  have hri := hi.reads r hr
  cases hres : r.seg.result with
  | some _ => exact Or.inl rfl
  | none =>
    right
    cases hh : r.seg.hungry with
    | false => rfl
    | true =>
      exfalso
      rcases (hri.live.1 hres).2 hh with hact | hturn
      · obtain ⟨q, hq1, hin⟩ := hri.track hres hact
        rcases hin with hin | hin
        · rw [hempty] at hin; simp at hin
        · exact hdel r hr q hq1 hin
      · have := hturns r hr; omega

/-! ### concrete instances -/

private def sh (id shnum server rtt : Nat) : Share := { id := id, shnum := shnum, server := server, rtt := rtt }

instance (n : Node) : Decidable (NQuiescent n) := by
  unfold NQuiescent; cases n.active <;> infer_instance

/-- 1-of-N file with two segments; segment 1 fails its ciphertext hash check.  Read of segment 1
(request 7) fails; a later read of segment 0 (request 8) on the same node. -/
private def exRun : List NEv :=
  [.getSegment 1 7, .loop 0, .gotShares [sh 0 0 0 0], .loop 0, .uebKnown, .share 0 (sh 0 0 0 0) .complete,
   .loop 0,                                  -- process_blocks(1): decode fails, request 7 gets the Failure
   .getSegment 0 8, .loop 1, .share 1 (sh 0 0 0 0) .complete, .loop 1]

example : NValidFrom (initNode 1 2 [1]) exRun := by simp [NValidFrom, NEvOk, exRun]

/-- with the fix: both requests are retired, nothing is left -/
example : NQuiescent (nrun (initNode 1 2 [1]) exRun) ∧
    (nrun (initNode 1 2 [1]) exRun).retired = [(7, .decodeErr), (8, .ok)] ∧
    (nrun (initNode 1 2 [1]) exRun).requests = [] := by decide

/-- **Counterexample on the tree before fix 6853eb2** (`fixed = false`: the failure branch of
`process_blocks._deliver` leaves `_active_segment` pointing at the stopped fetcher): the same valid
history ends quiescent with request 8 still queued and never retired. -/
theorem unfixed_stuck_counterexample :
    NValidFrom (unfixedNode 1 2 [1]) exRun ∧ NQuiescent (nrun (unfixedNode 1 2 [1]) exRun) ∧
    (nrun (unfixedNode 1 2 [1]) exRun).requests = [(0, 8)] ∧
    (nrun (unfixedNode 1 2 [1]) exRun).retired = [(7, .decodeErr)] := by
  refine ⟨by simp [NValidFrom, NEvOk, exRun], ?_⟩
  decide


instance (s : Seg) (e : SEv) : Decidable (SEvOk s e) := by
  cases e <;> unfold SEvOk <;> infer_instance

instance decSegValid : ∀ (es : List (SEv × Bool)) (s : Seg), Decidable (SegValid s es)
  | [], _ => isTrue trivial
  | (e, k) :: es, s =>
    have := decSegValid es (segStep s k e)
    by unfold SegValid; infer_instance

/-- the seeded `segmentation.py` history: 3000-byte file, 2000-byte segments, reader guesses 1000,
read(2500, 50) on a fresh node: segment 2 does not exist → retry with the real size → segment 1. -/
private def exRead : List (SEv × Bool) :=
  [(.failed .badSegnum, true), (.segment 2000 1000 false, true)]

example : SegValid (segStep (freshRead 2000 1000 2500 50) false .start) exRead ∧
    (segStep (freshRead 2000 1000 2500 50) false .start).active = some 2 ∧
    (segRun (segStep (freshRead 2000 1000 2500 50) false .start) exRead).result = some none ∧
    (segRun (segStep (freshRead 2000 1000 2500 50) false .start) exRead).out =
      [.getSegment 2, .getSegment 1, .write 2500 50, .done] := by decide

/-- guess larger than the real size: the guessed segment 0 is the wrong one for offset 70 -/
example : (segRun (segStep (freshRead 64 1000 70 10) false .start)
      [(.segment 0 64 false, true), (.segment 64 64 false, true)]).out =
    [.getSegment 0, .getSegment 1, .write 70 10, .done] := by decide

/-- a second bad answer after the retry is an error, not a hang -/
example : (segRun (segStep (freshRead 2000 1000 2500 50) false .start)
      [(.failed .badSegnum, true), (.failed .badSegnum, true)]).result = some (some .badSegnum) := by decide


/-- two concurrent reads of a 1-of-N, 2-segment file (segments of 16 bytes, reader guesses 5) that both
first ask for segments that do not exist / are wrong, one server with one share -/
private def exSys : List SysEv :=
  [.startRead 0 20 8, .startRead 1 3 20, .node (.loop 0), .node (.gotShares [sh 0 0 0 0]), .node (.loop 0),
   .node .uebKnown, .node (.loop 0),          -- segment 4 does not exist: BadSegmentNumber for read 0
   .deliver 0, .node (.loop 1), .node (.share 1 (sh 0 0 0 0) .complete), .node (.loop 1),
   .deliver 1, .node (.loop 2), .node (.share 2 (sh 0 0 0 0) .complete), .node (.loop 2),
   .deliver 2, .deliver 3, .node (.loop 3), .node (.share 3 (sh 0 0 0 0) .complete), .node (.loop 3), .deliver 4]

instance (y : Sys) : Decidable (SysQuiescent y) := by
  unfold SysQuiescent; infer_instance

example : SysValid (sysInit 1 2 [] 32 16 5) exSys := by
  simp [SysValid, SysEvOk, NEvOk, exSys, cancelled, submitted, sysStep, findRead]
  decide

example : SysQuiescent (sysRun (sysInit 1 2 [] 32 16 5) exSys) ∧
    (sysRun (sysInit 1 2 [] 32 16 5) exSys).reads.map (fun r => (r.rid, r.seg.result, r.seg.offset)) =
      [(0, some none, 28), (1, some none, 23)] := by decide


/-- a fresh 2-of-N fetcher that was given one share: it starts it and asks for more; once that share
has answered CORRUPT the next turn asks again -/
example : (doLoop { (step (step (step (init 2) (.addShares [sh 0 0 0 0])) .loop) (.share (sh 0 0 0 0) .corrupt)) with out := [] }).out
    = [.wantMore] := by decide


/-- the whole stack on a one-segment 1-of-N file with one server: the fetcher's `want_more_shares` makes
the finder ask the server, its answer travels back as a queued `got_shares`, the read completes -/
private def exSysF : List SysFEv :=
  [.sys (.startRead 0 0 8), .sys (.node (.loop 0)), .fturn, .fturn, .fresponse 0 [0], .fturn, .mail,
   .sys (.node (.loop 0)), .sys (.node .uebKnown), .sys (.node (.share 0 (sh 0 0 0 0) .complete)),
   .sys (.node (.loop 0)), .sys (.deliver 0)]

example : SysQuiescent (sysfRun (sysfInit 1 1 [] 8 8 8 2 [0]) exSysF).sys ∧
    (sysfRun (sysfInit 1 1 [] 8 8 8 2 [0]) exSysF).sys.reads.map (fun r => (r.rid, r.seg.result)) = [(0, some none)] ∧
    (sysfRun (sysfInit 1 1 [] 8 8 8 2 [0]) exSysF).mail = [] ∧
    (sysfRun (sysfInit 1 1 [] 8 8 8 2 [0]) exSysF).finder.pending = [] := by decide

end Tahoe.C46
