import Tahoe.Immutable.FetchLemmasC46
/-! C46 — immutable reads always terminate (property theorems over the DownloadNode segment queue
`Tahoe.Fetch.Node` on top of the SegmentFetcher event system; helper lemmas in
`Tahoe/Immutable/FetchLemmas*.lean`).

Termination is stated as a safety property: *no stuck quiescent state*.  The environment may do
anything in any order (requests, cancels, share announcements, `no_more_shares`, answers of every
kind for every started share, stale events of finished fetchers, spurious loops) except send
OVERDUE for a share that is not outstanding (`NEvOk`).  `NQuiescent`: nothing is pending for the
active fetcher (no queued loop, the finder said `no_more_shares`, every started share has sent its
terminal event).

The theorems are about the code with `fixes/C46-active-segment.diff` applied (`Node.fixed = true`);
`unfixed_stuck_counterexample` shows that the unchanged tree violates them. -/
namespace Tahoe.C46
open Tahoe.Fetch

/-- **C46 (1).**  In every state reached by a valid event sequence in which nothing is pending any
more, the request queue is empty, no fetcher is left active, and every segment request ever
submitted has been retired (its Deferred was handed the segment or a Failure) or was cancelled by
its caller.  Decode / ciphertext-hash failures (`badSegs`), bad segment numbers, cancels and
concurrent requests for several segments included. -/
theorem no_stuck_state (k numSegs : Nat) (badSegs : List Nat) (es : List NEv)
    (hv : NValidFrom (initNode k numSegs badSegs) es)
    (hq : NQuiescent (nrun (initNode k numSegs badSegs) es)) :
    (nrun (initNode k numSegs badSegs) es).requests = [] ∧
    (nrun (initNode k numSegs badSegs) es).active = none ∧
    ∀ r ∈ submitted es, r ∈ (nrun (initNode k numSegs badSegs) es).retired.map (·.1) ∨ r ∈ cancelled es := by
  have hi := ninv_run es _ (ninv_init k numSegs badSegs) hv
  have hnone : (nrun (initNode k numSegs badSegs) es).active = none := by
    cases ha : (nrun (initNode k numSegs badSegs) es).active with
    | none => rfl
    | some a =>
      obtain ⟨hr, _, hs⟩ := hi.live a ha
      unfold NQuiescent at hq
      rw [ha] at hq
      rcases hq with h | ⟨h1, h2, h3⟩
      · simp [hr] at h
      · exact absurd h3 (hs.quiet hr h1 h2)
  have hreq := hi.served hnone
  refine ⟨hreq, hnone, ?_⟩
  have hacc := acc_run es (initNode k numSegs badSegs) [] [] (by intro r hr; simp at hr)
  intro r hr
  rcases hacc r (by simpa using hr) with h1 | h1 | h1
  · rw [hreq] at h1; simp at h1
  · left; exact h1
  · right; simpa using h1

/-- **C46 (2).**  After any history — in particular after segments that failed with
NotEnoughShares / NoShares / BadSegmentNumber or in decode / ciphertext-hash checking — a new
`get_segment` is *accepted*: when it returns a running fetcher is active, and if the node was idle
that fetcher is a fresh one for exactly the requested segment; and it is *served*: whenever the
system becomes quiescent afterwards the request has been retired or was cancelled. -/
theorem later_reads_progress (k numSegs : Nat) (badSegs : List Nat) (es₁ es₂ : List NEv) (seg r : Nat)
    (hv : NValidFrom (initNode k numSegs badSegs) (es₁ ++ .getSegment seg r :: es₂)) :
    (∃ a, (nrun (initNode k numSegs badSegs) (es₁ ++ [.getSegment seg r])).active = some a ∧
        a.f.running = true ∧ a.f.verdict = none ∧
        ((nrun (initNode k numSegs badSegs) es₁).active = none → a.segnum = seg)) ∧
    (NQuiescent (nrun (initNode k numSegs badSegs) (es₁ ++ .getSegment seg r :: es₂)) →
      r ∈ (nrun (initNode k numSegs badSegs) (es₁ ++ .getSegment seg r :: es₂)).retired.map (·.1) ∨
      r ∈ cancelled (es₁ ++ .getSegment seg r :: es₂)) := by
  constructor
  · have hv1 : NValidFrom (initNode k numSegs badSegs) es₁ := nvalid_prefix es₁ _ _ hv
    have hi1 := ninv_run es₁ _ (ninv_init k numSegs badSegs) hv1
    have hi2 := ninv_step hi1 (.getSegment seg r) trivial
    rw [nrun_append]
    simp only [nrun]
    generalize nrun (initNode k numSegs badSegs) es₁ = n₁ at hi1 hi2 ⊢
    cases ha : (nstep n₁ (.getSegment seg r)).active with
    | none =>
      have := hi2.served ha
      simp only [nstep, startNewSegment] at this ha
      split at this <;> simp_all
    | some a =>
      obtain ⟨h1, h2, _⟩ := hi2.live a ha
      refine ⟨a, rfl, h1, h2, ?_⟩
      intro hidle
      have hreq := hi1.served hidle
      simp only [nstep, startNewSegment, hidle, hreq, List.nil_append] at ha
      simp only [Option.some.injEq] at ha
      rw [← ha]
  · intro hq
    have := (no_stuck_state k numSegs badSegs _ hv hq).2.2 r
    apply this
    have : ∀ (es₁ : List NEv), r ∈ submitted (es₁ ++ .getSegment seg r :: es₂) := by
      intro es₁
      induction es₁ with
      | nil => simp [submitted]
      | cons e es ih => rw [List.cons_append, submitted_cons]; simp [ih]
    exact this es₁

/-- **C46 (3).**  The `while` loop of `_do_loop` itself terminates: one `loop` turn makes at most
`3·|unused shares| + |outstanding| + 2` iterations (the model's fuel is never exhausted). -/
theorem do_loop_terminates (s : Fetcher) (h : Out.exc .fuel ∉ s.out) : Out.exc .fuel ∉ (doLoop s).out := by
  unfold doLoop
  split
  · exact h
  · split
    · show Out.exc .fuel ∉ (stop s).out; rw [stop_out]; exact h
    · exact whileLoop_fuel h _ (mu_lt_fuelFor s)

/-! ### concrete instances -/

private def sh (id shnum server rtt : Nat) : Share := { id := id, shnum := shnum, server := server, rtt := rtt }

instance (n : Node) : Decidable (NQuiescent n) := by
  unfold NQuiescent; cases n.active <;> infer_instance

/-- 1-of-N file with two segments; segment 1 fails its ciphertext hash check.  Read of segment 1
(request 7) fails; a later read of segment 0 (request 8) on the same node. -/
private def exRun : List NEv :=
  [.getSegment 1 7, .loop 0, .gotShares [sh 0 0 0 0], .loop 0, .uebKnown, .share 0 (sh 0 0 0 0) .complete,
   .loop 0,                                  -- process_blocks(1): decode fails, request 7 gets the Failure
   .getSegment 0 8, .loop 1, .share 1 (sh 0 0 0 0) .complete, .loop 1]

example : NValidFrom (initNode 1 2 [1]) exRun := by simp [NValidFrom, NEvOk, exRun]

/-- with the fix: both requests are retired, nothing is left -/
example : NQuiescent (nrun (initNode 1 2 [1]) exRun) ∧
    (nrun (initNode 1 2 [1]) exRun).retired = [(7, .decodeErr), (8, .ok)] ∧
    (nrun (initNode 1 2 [1]) exRun).requests = [] := by decide

/-- **Counterexample on the unchanged tree** (`fixed = false`: the failure branch of
`process_blocks._deliver` leaves `_active_segment` pointing at the stopped fetcher): the same valid
history ends quiescent with request 8 still queued and never retired. -/
theorem unfixed_stuck_counterexample :
    NValidFrom (unfixedNode 1 2 [1]) exRun ∧ NQuiescent (nrun (unfixedNode 1 2 [1]) exRun) ∧
    (nrun (unfixedNode 1 2 [1]) exRun).requests = [(0, 8)] ∧
    (nrun (unfixedNode 1 2 [1]) exRun).retired = [(7, .decodeErr)] := by
  refine ⟨by simp [NValidFrom, NEvOk, exRun], ?_⟩
  decide

end Tahoe.C46
