import Tahoe.Mutable.PublishLemmas
/-! C47 — a successful mutable publish is recoverable (property theorems; helper lemmas live in
    `Tahoe/Mutable/PublishLemmas.lean`). -/
namespace Tahoe.C47
open Tahoe.Mutable Tahoe.Mutable.Pub

/-- 2-of-3 publish, one proxy per share on servers 10, 11, 12; new checkstring 7 -/
def pEx : Pub := { k := 2, writers := [⟨0, 10⟩, ⟨1, 11⟩, ⟨2, 12⟩], checkstring := 7, haveVerinfo := true }

/-- `Publish` reports success only if, for at least `k` distinct share numbers, a write proxy of that share
    (i) never hit a connection problem and (ii) was answered, every answer saying `wrote = True`; and no
    answer showed an unexpected version: every share with a checkstring other than the publish's own that
    a server reported was the answering proxy's own share or a share this publish was itself writing to
    that server.  Holds for every order of the answers; the only assumption is Twisted's `DeferredList`
    contract (every proxy's Deferred fired before the final `_push`). -/
theorem success_implies_k_acked (p : Pub) (evs : List Event)
    (hfired : ∀ w ∈ p.writers, ∃ e ∈ evs, e.writer = w)
    (h : run p evs = .success) :
    ∃ acked : List Writer,
      p.k ≤ numShnums acked ∧
      (∀ w ∈ acked, w ∈ p.writers ∧ Event.problem w ∉ evs ∧ (∃ rd, Event.answer w true rd ∈ evs) ∧
        ∀ wrote rd, Event.answer w wrote rd ∈ evs → wrote = true) ∧
      (∀ w wrote rd, Event.answer w wrote rd ∈ evs → ∀ e ∈ rd, e.2 ≠ p.checkstring →
        e.1 = w.shnum ∨ ∃ x ∈ p.writers, x.server = w.server ∧ x.shnum = e.1) := by
  obtain ⟨hs, hk⟩ := run_success p evs h
  obtain ⟨_, hans⟩ := foldl_not_surprised p evs hs
  refine ⟨(evs.foldl step p).writers, hk, ?_, fun w wrote rd hm => (hans w wrote rd hm).2⟩
  intro w hw
  rw [foldl_writers] at hw
  simp only [List.mem_filter, decide_eq_true_eq] at hw
  obtain ⟨hw1, hw2⟩ := hw
  refine ⟨hw1, hw2, ?_, fun wrote rd hm => (hans w wrote rd hm).1⟩
  obtain ⟨e, he, hew⟩ := hfired w hw1
  cases e with
  | problem w' => simp only [Event.writer] at hew; subst hew; exact absurd he hw2
  | answer w' wrote rd =>
    simp only [Event.writer] at hew; subst hew
    have := (hans w' wrote rd he).1
    subst this
    exact ⟨rd, he⟩

/-- share 2's server fails, shares 0 and 1 are acknowledged (server 11 also still reports share 2 of the
    publish's own version): success with exactly two acknowledged shares -/
example : run pEx [.answer ⟨1, 11⟩ true [(1, 3), (2, 7)], .problem ⟨2, 12⟩, .answer ⟨0, 10⟩ true [(0, 3)]] = .success ∧
    (∀ w ∈ pEx.writers, ∃ e ∈ [Event.answer ⟨1, 11⟩ true [(1, 3), (2, 7)], .problem ⟨2, 12⟩, .answer ⟨0, 10⟩ true [(0, 3)]],
      e.writer = w) := by decide

/-- Fewer than `k` share numbers could be placed (the proxies whose requests did not fail cover fewer
    than `k` distinct share numbers) ⇒ the publish reports an error, whatever else happened. -/
theorem fewer_than_k_fails (p : Pub) (evs : List Event)
    (h : numShnums (p.writers.filter (fun w => decide (Event.problem w ∉ evs))) < p.k) :
    run p evs ≠ .success := by
  intro hs
  obtain ⟨_, hk⟩ := run_success p evs hs
  rw [foldl_writers] at hk
  omega

example : numShnums (pEx.writers.filter (fun w => decide (Event.problem w ∉
      [Event.problem ⟨1, 11⟩, .problem ⟨2, 12⟩, .answer ⟨0, 10⟩ true []]))) = 1 ∧
    run pEx [.problem ⟨1, 11⟩, .problem ⟨2, 12⟩, .answer ⟨0, 10⟩ true []] = .notEnoughServers := by decide

/-- The error class: a rejected write (`wrote = False`) or an unexpected version makes the result
    `UncoordinatedWriteError`, never success and never the milder `NotEnoughServersError`, provided the
    publish got as far as writing. -/
theorem refused_or_surprising_write_is_ucw (p : Pub) (evs : List Event) (w : Writer) (wrote : Bool)
    (rd : List (Nat × Nat)) (hstart : pushCheck p = none) (hm : Event.answer w wrote rd ∈ evs)
    (hbad : wrote = false) : run p evs = .uncoordinatedWrite := by
  have hsur : (evs.foldl step p).surprised = true := by
    cases hc : (evs.foldl step p).surprised
    · have := (foldl_not_surprised p evs hc).2 w wrote rd hm
      rw [hbad] at this; exact absurd this.1 (by simp)
    · rfl
  unfold run
  rw [hstart]
  simp only [pushCheck, hsur, Bool.or_true, if_true]

example : run pEx [.answer ⟨1, 11⟩ true [(1, 3)], .answer ⟨2, 12⟩ false [(2, 9)], .answer ⟨0, 10⟩ true [(0, 3)]] =
    .uncoordinatedWrite := by decide

end Tahoe.C47
