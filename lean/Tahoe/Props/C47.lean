import Tahoe.Mutable.PublishLemmas
import Tahoe.Mutable.PublishRunLemmas
import Tahoe.Mutable.WireTestv
/-! C47 — a successful mutable publish is recoverable (property theorems; helper lemmas live in
    `Tahoe/Mutable/PublishLemmas.lean` and `PublishRunLemmas.lean`; the wire model in `WireTestv.lean`). -/
/-!
## Coverage of the statement (properties.jsonl C47)

| clause of the statement | theorem(s) |
|---|---|
| "reports success only if servers acknowledged storing the new version's shares for at least k distinct share numbers" | `success_implies_k_acked` (bookkeeping level: ≥ k share numbers with a proxy never dropped and only answered `wrote=True`), `success_implies_k_stored` (end to end: ≥ k distinct share numbers are *stored* on the servers, through proxy layer + callback chain + storage semantics, for every arrival order and failure pattern), `bookkeeping_sound` (`placed`, `bad_servers`, `goal`, `writers` after any answer sequence) |
| "…and no unexpected version was encountered" | `success_implies_k_acked` (third conjunct), `refused_or_surprising_write_is_ucw`; that a write guarded by a test vector cannot land on a share holding anything else: `wire_testv_guards` (the 4-tuple `_StorageServer` puts on the wire + the server's compare; tied by the `testv` cases: the real glue's tuples and a real storage server's verdict vs the model) and C12 `new_share_write_must_not_exist` |
| "It reports an error when fewer than k shares could be placed" | `fewer_than_k_fails`, `fewer_than_k_stored_fails` (end to end) |
| quantifier: SDMF and MDMF, create and update | one model for both: both proxies send one request per share (`finish_publishing`); `update()` differs only in the initial goal (known shares only) — covered by the arbitrary initial `writers`; tied per format by correspondence (`pub`, `rpc`, `proxy` cases of harness/props/c47.py) |
| quantifier: failing and slow servers, failures on any write, every response ordering | all theorems quantify over arbitrary arrival lists (`Rpc.lostBefore`, `lostAfter`, refused answers, any order); a hung server = no arrival: the publish never reports (hypothesis `hfired` is Twisted's `DeferredList` contract) |
| every share number gets a home (`update_goal`), needed for "N shares" in C14 | `update_goal_covers`, `update_goal_sound` (never a bad server; new homes only on permitted servers of the permuted list), `fault_free_publish_stores_all` (no failed request ⇒ all N share numbers stored); the preference order among eligible servers (fewest shares first, permuted order, round robin): correspondence only (`goal` cases) |
-/
namespace Tahoe.C47
open Tahoe.Mutable Tahoe.Mutable.Pub

/-- 2-of-3 publish, one proxy per share on servers 10, 11, 12; new checkstring 7 -/
def pEx : Pub := { k := 2, writers := [⟨0, 10⟩, ⟨1, 11⟩, ⟨2, 12⟩], checkstring := 7, haveVerinfo := true }

/-- `Publish` reports success only if, for at least `k` distinct share numbers, a write proxy of that share
    (i) never hit a connection problem and (ii) was answered, every answer saying `wrote = True`; and no
    answer showed an unexpected version: every share with a checkstring other than the publish's own that
    a server reported was the answering proxy's own share or a share this publish was itself writing to
    that server.  Holds for every order of the answers; the only assumption is Twisted's `DeferredList`
    contract (every proxy's Deferred fired before the final `_push`). -/
theorem success_implies_k_acked (p : Pub) (evs : List Event)
    (hfired : ∀ w ∈ p.writers, ∃ e ∈ evs, e.writer = w)
    (h : run p evs = .success) :
    ∃ acked : List Writer,
      p.k ≤ numShnums acked ∧
      (∀ w ∈ acked, w ∈ p.writers ∧ Event.problem w ∉ evs ∧ (∃ rd, Event.answer w true rd ∈ evs) ∧
        ∀ wrote rd, Event.answer w wrote rd ∈ evs → wrote = true) ∧
      (∀ w wrote rd, Event.answer w wrote rd ∈ evs → ∀ e ∈ rd, e.2 ≠ p.checkstring →
        e.1 = w.shnum ∨ ∃ x ∈ p.writers, x.server = w.server ∧ x.shnum = e.1) := by
  obtain ⟨hs, hk⟩ := run_success p evs h
  obtain ⟨_, hans⟩ := foldl_not_surprised p evs hs
  refine ⟨(evs.foldl step p).writers, hk, ?_, fun w wrote rd hm => (hans w wrote rd hm).2⟩
  intro w hw
  rw [foldl_writers] at hw
  simp only [List.mem_filter, decide_eq_true_eq] at hw
  obtain ⟨hw1, hw2⟩ := hw
  refine ⟨hw1, hw2, ?_, fun wrote rd hm => (hans w wrote rd hm).1⟩
  obtain ⟨e, he, hew⟩ := hfired w hw1
  cases e with
  | problem w' => simp only [Event.writer] at hew; subst hew; exact absurd he hw2
  | answer w' wrote rd =>
    simp only [Event.writer] at hew; subst hew
    have := (hans w' wrote rd he).1
    subst this
    exact ⟨rd, he⟩

/-- share 2's server fails, shares 0 and 1 are acknowledged (server 11 also still reports share 2 of the
    publish's own version): success with exactly two acknowledged shares -/
example : run pEx [.answer ⟨1, 11⟩ true [(1, 3), (2, 7)], .problem ⟨2, 12⟩, .answer ⟨0, 10⟩ true [(0, 3)]] = .success ∧
    (∀ w ∈ pEx.writers, ∃ e ∈ [Event.answer ⟨1, 11⟩ true [(1, 3), (2, 7)], .problem ⟨2, 12⟩, .answer ⟨0, 10⟩ true [(0, 3)]],
      e.writer = w) := by decide

/-- Fewer than `k` share numbers could be placed (the proxies whose requests did not fail cover fewer
    than `k` distinct share numbers) ⇒ the publish reports an error, whatever else happened. -/
theorem fewer_than_k_fails (p : Pub) (evs : List Event)
    (h : numShnums (p.writers.filter (fun w => decide (Event.problem w ∉ evs))) < p.k) :
    run p evs ≠ .success := by
  intro hs
  obtain ⟨_, hk⟩ := run_success p evs hs
  rw [foldl_writers] at hk
  omega

example : numShnums (pEx.writers.filter (fun w => decide (Event.problem w ∉
      [Event.problem ⟨1, 11⟩, .problem ⟨2, 12⟩, .answer ⟨0, 10⟩ true []]))) = 1 ∧
    run pEx [.problem ⟨1, 11⟩, .problem ⟨2, 12⟩, .answer ⟨0, 10⟩ true []] = .notEnoughServers := by decide

/-- The error class: a rejected write (`wrote = False`) or an unexpected version makes the result
    `UncoordinatedWriteError`, never success and never the milder `NotEnoughServersError`, provided the
    publish got as far as writing. -/
theorem refused_or_surprising_write_is_ucw (p : Pub) (evs : List Event) (w : Writer) (wrote : Bool)
    (rd : List (Nat × Nat)) (hstart : pushCheck p = none) (hm : Event.answer w wrote rd ∈ evs)
    (hbad : wrote = false) : run p evs = .uncoordinatedWrite := by
  have hsur : (evs.foldl step p).surprised = true := by
    cases hc : (evs.foldl step p).surprised
    · have := (foldl_not_surprised p evs hc).2 w wrote rd hm
      rw [hbad] at this; exact absurd this.1 (by simp)
    · rfl
  unfold run
  rw [hstart]
  simp only [pushCheck, hsur, Bool.or_true, if_true]

example : run pEx [.answer ⟨1, 11⟩ true [(1, 3)], .answer ⟨2, 12⟩ false [(2, 9)], .answer ⟨0, 10⟩ true [(0, 3)]] =
    .uncoordinatedWrite := by decide

/-! ### end to end: what the servers hold -/

/-- 2-of-3; share 2's request fails before reaching the server, share 1's answer is lost after the write -/
def arrEx : List (Writer × Rpc) :=
  [(⟨1, 11⟩, .lostAfter true), (⟨2, 12⟩, .lostBefore), (⟨0, 10⟩, .answered true [(0, 3)])]
def arrOk : List (Writer × Rpc) :=
  [(⟨1, 11⟩, .answered true [(1, 3)]), (⟨2, 12⟩, .lostBefore), (⟨0, 10⟩, .answered true [(0, 3)])]

/-- A publish that reports success has *stored* the new version under at least `k` distinct share numbers:
    for every pattern of requests that fail before or after being executed, refused writes, and every
    arrival order.  Goes through the write proxy (`proxyResult`: an answer and a failure are handed on
    unchanged), `finish_publishing`'s callback chain (`chainEvent`: the failure of proxy `w` drops proxy `w`),
    the bookkeeping (`step`) and `_push`'s count of distinct share numbers with a live proxy. -/
theorem success_implies_k_stored (p : Pub) (arrivals : List (Writer × Rpc))
    (hfired : ∀ w ∈ p.writers, ∃ r, (w, r) ∈ arrivals)
    (h : runRpcs p arrivals = .success) :
    ∃ ws : List Writer, p.k ≤ numShnums ws ∧
      ∀ w ∈ ws, w ∈ p.writers ∧ (w.server, w.shnum) ∈ storedSlots arrivals := by
  have hf : ∀ w ∈ p.writers, ∃ e ∈ eventsOf arrivals, e.writer = w := by
    intro w hw
    obtain ⟨r, hr⟩ := hfired w hw
    exact ⟨chainEvent w r, (mem_eventsOf _ _).mpr ⟨w, r, hr, rfl⟩, chainEvent_writer w r⟩
  obtain ⟨acked, hk, hall, _⟩ := success_implies_k_acked p (eventsOf arrivals) hf h
  refine ⟨acked, hk, fun w hw => ?_⟩
  obtain ⟨hmem, _, ⟨rd, hans⟩, _⟩ := hall w hw
  obtain ⟨w', r, hin, hce⟩ := (mem_eventsOf _ _).mp hans
  obtain ⟨rfl, hst⟩ := chainEvent_answer_true w w' r rd hce
  exact ⟨hmem, mem_storedSlots _ _ _ hin hst⟩

example : runRpcs pEx arrOk = .success ∧ storedSlots arrOk = [(11, 1), (10, 0)] ∧
    (∀ w ∈ pEx.writers, ∃ r, (w, r) ∈ arrOk) := by
  refine ⟨by decide, by decide, fun w hw => ?_⟩
  simp only [pEx, List.mem_cons, List.not_mem_nil, or_false] at hw
  rcases hw with rfl | rfl | rfl
  · exact ⟨_, List.mem_cons_of_mem _ (List.mem_cons_of_mem _ List.mem_cons_self)⟩
  · exact ⟨_, List.mem_cons_self⟩
  · exact ⟨_, List.mem_cons_of_mem _ List.mem_cons_self⟩

/-- Conversely: if the requests that were stored cover fewer than `k` distinct share numbers, the publish
    does not report success (a lost answer counts against success even though the share is there). -/
theorem fewer_than_k_stored_fails (p : Pub) (arrivals : List (Writer × Rpc))
    (hfired : ∀ w ∈ p.writers, ∃ r, (w, r) ∈ arrivals)
    (h : ∀ ws : List Writer, (∀ w ∈ ws, w ∈ p.writers ∧ (w.server, w.shnum) ∈ storedSlots arrivals) →
      numShnums ws < p.k) :
    runRpcs p arrivals ≠ .success := by
  intro hs
  obtain ⟨ws, hk, hall⟩ := success_implies_k_stored p arrivals hfired hs
  have := h ws hall
  omega

/-- share 1 was stored but its answer was lost, share 2 never arrived: only one acknowledged share number -/
example : runRpcs pEx arrEx = .notEnoughServers ∧ storedSlots arrEx = [(11, 1), (10, 0)] := by decide

/-- The bookkeeping sets after any sequence of answers and failures: `writers` = the initial proxies minus
    exactly those whose request failed; `goal` is untouched; `placed` gains only slots whose proxy was
    answered `wrote=True` (hence stored); `bad_servers` gains only servers that refused a write. -/
theorem bookkeeping_sound (p : Pub) (arrivals : List (Writer × Rpc)) :
    let q := (eventsOf arrivals).foldl step p
    q.writers = p.writers.filter (fun w => decide (Event.problem w ∉ eventsOf arrivals)) ∧
    q.goal = p.goal ∧
    (∀ x ∈ q.placed, x ∈ p.placed ∨ x ∈ storedSlots arrivals) ∧
    (∀ s ∈ q.badServers, s ∈ p.badServers ∨ ∃ w rd, (w, Rpc.answered false rd) ∈ arrivals ∧ s = w.server) := by
  refine ⟨foldl_writers _ _, foldl_goal _ _, fun x hx => ?_, fun s hs => ?_⟩
  · rcases foldl_placed _ _ x hx with h | ⟨w, rd, hm, rfl⟩
    · exact Or.inl h
    · obtain ⟨w', r, hin, hce⟩ := (mem_eventsOf _ _).mp hm
      obtain ⟨rfl, hst⟩ := chainEvent_answer_true w w' r rd hce
      exact Or.inr (mem_storedSlots _ _ _ hin hst)
  · rcases foldl_bad _ _ s hs with h | ⟨w, rd, hm, rfl⟩
    · exact Or.inl h
    · obtain ⟨w', r, hin, hce⟩ := (mem_eventsOf _ _).mp hm
      right
      cases r with
      | answered wr rd' =>
        simp only [chainEvent, proxyResult, Event.answer.injEq] at hce
        obtain ⟨rfl, rfl, rfl⟩ := hce
        exact ⟨w', rd', hin, rfl⟩
      | lostBefore => simp [chainEvent, proxyResult] at hce
      | lostAfter wr => simp [chainEvent, proxyResult] at hce

example : ((eventsOf arrEx).foldl step pEx).writers = [⟨0, 10⟩] ∧
    ((eventsOf arrEx).foldl step pEx).placed = [(10, 0)] := by decide

/-- `update_goal`: when it does not raise, every share number below `total_shares` has a home in the new goal
    (so a publish that keeps all its proxies stores all N share numbers — the "N distinct shares" of C14). -/
theorem update_goal_covers (goal : List (Nat × Nat)) (bad : List Nat) (total : Nat) (full : List (Nat × Bool))
    (g : List (Nat × Nat)) (h : updateGoal goal bad total full = some g) :
    ∀ sh, sh < total → ∃ srv, (srv, sh) ∈ g :=
  fun sh hsh => updateGoal_covers goal bad total full g h sh hsh

/-- share 1 already lives on server 0; server 2 may not be uploaded to: shares 0, 2, 3 go to servers 1, 0, 1 -/
example : updateGoal [(0, 1)] [] 4 [(0, true), (1, true), (2, false)] = some [(0, 1), (1, 0), (0, 2), (1, 3)] := by decide
/-- no usable server: `NotEnoughServersError` -/
example : updateGoal [] [0] 4 [(0, true)] = none := by decide

/-- `update_goal` never keeps or chooses a bad server, and a share it newly places goes to a server of the permuted
    list that may be uploaded to. -/
theorem update_goal_sound (goal : List (Nat × Nat)) (bad : List Nat) (total : Nat) (full : List (Nat × Bool))
    (g : List (Nat × Nat)) (h : updateGoal goal bad total full = some g) :
    ∀ x ∈ g, x.1 ∉ bad ∧ (x ∈ goal ∨ (x.1, true) ∈ full) :=
  fun x hx => updateGoal_sound goal bad total full g h x hx

/-- server 0 is bad (its share 1 is dropped from the goal), server 2 may not be uploaded to: everything goes to 1 -/
example : updateGoal [(0, 1)] [0] 3 [(0, true), (1, true), (2, false)] = some [(1, 0), (1, 1), (1, 2)] := by decide

/-- A publish in which no request fails stores all `N` share numbers: `update_goal` gives each a home, `publish`
    makes one proxy per goal entry, and an answered `wrote=True` request has stored its share.  (The "recoverable
    from N distinct shares" of C14, for a repair whose servers all answer.) -/
theorem fault_free_publish_stores_all (goal : List (Nat × Nat)) (bad : List Nat) (total : Nat)
    (full : List (Nat × Bool)) (g : List (Nat × Nat)) (h : updateGoal goal bad total full = some g)
    (arrivals : List (Writer × Rpc))
    (hall : ∀ w ∈ writersOfGoal g, ∃ rd, (w, Rpc.answered true rd) ∈ arrivals) :
    ∀ sh, sh < total → ∃ srv, (srv, sh) ∈ storedSlots arrivals := by
  intro sh hsh
  obtain ⟨srv, hmem⟩ := update_goal_covers goal bad total full g h sh hsh
  have hw : (⟨sh, srv⟩ : Writer) ∈ writersOfGoal g := List.mem_map.mpr ⟨(srv, sh), hmem, rfl⟩
  obtain ⟨rd, harr⟩ := hall _ hw
  exact ⟨srv, mem_storedSlots arrivals ⟨sh, srv⟩ _ harr rfl⟩

example : writersOfGoal [(1, 0), (1, 1), (1, 2)] = [⟨0, 1⟩, ⟨1, 1⟩, ⟨2, 1⟩] ∧
    storedSlots [((⟨0, 1⟩ : Writer), Rpc.answered true []), (⟨1, 1⟩, .answered true []), (⟨2, 1⟩, .answered true [])]
      = [(1, 0), (1, 1), (1, 2)] := by decide

/-! ### the wire form of the test vectors (storage_client glue + the server's compare) -/
open Tahoe.Mutable.Wire in
/-- The "share must not exist yet" vector, as it goes over the wire, passes exactly on a missing or zero-length
    share; a checkstring vector passes exactly on a share that starts with that checkstring and never on a missing
    share.  So a write guarded by either cannot land on a share holding anything else. -/
theorem wire_testv_guards (share : Option (List Nat)) (cs : List Nat) (hcs : cs ≠ []) :
    (passes share (wireOf mustNotExist) = true ↔ share = none ∨ share = some []) ∧
    (passes share (wireOf (holds cs)) = true ↔ ∃ data, share = some data ∧ data.take cs.length = cs) := by
  constructor
  · cases share with
    | none => simp [passes, wireOf, mustNotExist]
    | some data =>
      cases data with
      | nil => simp [passes, wireOf, mustNotExist]
      | cons a l => simp [passes, wireOf, mustNotExist]
  · cases share with
    | none =>
      simp only [passes, wireOf, holds, reduceCtorEq, false_and, exists_false, iff_false]
      cases cs with
      | nil => exact absurd rfl hcs
      | cons a l => simp
    | some data => simp [passes, wireOf, holds]

open Tahoe.Mutable.Wire in
example : passes (some [1, 2, 3]) (wireOf mustNotExist) = false ∧ passes none (wireOf mustNotExist) = true ∧
    passes (some [1, 2, 3]) (wireOf (holds [1, 2])) = true ∧ passes (some [9, 2, 3]) (wireOf (holds [1, 2])) = false ∧
    wireOf mustNotExist = (0, 1, "eq", []) ∧
    -- what the seeded change C47-e sent instead, `(0, len(specimen), eq, specimen)`, passes on every share:
    passes (some [1, 2, 3]) (0, 0, "eq", []) = true := by decide

end Tahoe.C47
