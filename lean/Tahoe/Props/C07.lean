import Tahoe.Happiness.Placement
/-! C07 — share placement (placeholder while proofs are built). -/
namespace Tahoe.C07
open Tahoe.Happiness

theorem readonly_only_existing_counterexample :
    sharePlacement Cfg.asIs [0] [2, 3] [0] [(3, [0])] = .ok [(0, 2)] := by decide

end Tahoe.C07
