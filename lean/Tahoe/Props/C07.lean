import Tahoe.Happiness.LemmasSpread2
import Tahoe.Happiness.Selector
import Tahoe.Happiness.LemmasSelector
/-!
C07 — share placement is complete, respects read-only servers, maximizes spread.

Model: `Tahoe/Happiness/Placement.lean` (transcription of `share_placement` and all helpers of
`immutable/happiness_upload.py` on top of the flow model of C08) with two switches: `Cfg.asIs` is
the code before the two repairs (`fixes/C07-indexedshares.diff`, `fixes/C07-dropped-peer.diff`; in
/repo as 9abb482 and b0ebc0d), `Cfg.fixed` the repository's code; `Tahoe/Happiness/Selector.lean`
(`PeerSelector`, the caller, as a state machine; `toldState`, the specification of what the
uploader must have told it; `Answer` / `roundOps` / `roundStates`, the allocation rounds of
`Tahoe2ServerSelector.get_shareholders` as far as the selector sees them).  Helper lemmas:
`Tahoe/Happiness/LemmasPlacement*.lean`, `LemmasInner.lean`, `LemmasSpread*.lean`,
`LemmasSelector.lean`.  No `_partial` theorem remains.

## Coverage of the statement

| clause of the statement | theorem(s) over the model |
|---|---|
| "for any set of writable servers (at least one), read-only servers and pre-existing shares" | hypotheses `W ≠ []`, `∀ x ∈ W, x ∉ R`; inputs are arbitrary lists (any order, duplicates allowed: the model normalises them as `set(...)` does) |
| "the planned placement assigns every share number to a server" | `placement_total` (every share is a key, its server is in `W ∪ R`), `placement_returns` (a result is returned: no spinning round-robin) |
| "assigns a read-only server only shares it already holds" | `readonly_only_existing`; for the plans of a selector history `plan_readonly_only_existing` |
| "spreads shares over the largest number of distinct servers achievable under those constraints" | `spread_maximal` (no placement respecting the read-only clause uses more distinct servers), `spread_ge_matching` (same against every server/share matching), `phase_is_maximum_matching` (each phase is a maximum matching of its network) |
| "so an upload is never declared unhappy when a happy layout was reachable" | planning side, per allocation round of `Tahoe2ServerSelector.get_shareholders` (model: `Answer`, `roundOps`, `SelState.afterRound`, `roundStates`): `round_demotes_every_failure` (error, lost connection and query timeout alike), `round_changes_nothing_else`, `failed_earlier_stays_out`, `plan_after_round_spread_maximal`, `plan_after_round_reaches_happiness` (h healthy writable servers and ≥ h shares ⇒ the next plan uses ≥ h distinct servers), plan freshness `plan_is_fresh`, `state_ignores_gets`; that the real loop feeds the selector exactly `roundOps` is correspondence (`run_grid`: state and plan at every `get_share_placements()` vs `rounds` of the driver) + monitor. **Not modelled**: the loop's exit tests and the verdict itself (`servers_of_happiness(merge_servers(...)) < happy` ⇒ `UploadUnhappinessError`), which depend on the trackers' allocated buckets — monitor only (`selection-unhappy-although-achievable` on the grid); the value compared there is C08's `upload_effective_happiness` |
| the plan's *input*: what the uploader told the selector before the first plan | specification `toldState` (every server added, read-only ones demoted, every share on disk booked under the server that answered with it) with `told_state_is_ground_truth`; that `Tahoe2ServerSelector.get_shareholders` really puts the selector into that state is **correspondence + monitor** (`run_reupload`: re-uploads on the in-process grid, recorded selector state vs shares on disk and vs `toldState`) |
| between plans: a server whose allocation failed **or timed out** must leave the writable set | event `SelOp.allocationFailed` (= demotion) with `failed_server_not_writable`, `plan_after_failed_allocation`; that `_buckets_allocated` performs the demotion for every kind of failure incl. the 15 s query timeout is **correspondence + monitor** (`run_grid`: error / hang faults on allocate_buckets and get_buckets, selector state at every plan) |
| (code before the repairs) | `readonly_only_existing_counterexample`, `shared_indexedShares_row`, `spread_maximal_counterexample`, `spread_maximal_counterexample_after_first_fix`: clauses 2 and 3 are false of `Cfg.asIs` |

Not covered by theorems: existing-share entries of servers in neither set (bad servers) and share
numbers outside the shares to place (outside the statement's domain; on such inputs the code may
hand a share to a bad server, e.g. `share_placement({'w0'},{},{0,1},{'b0':{1}})` gives `{1:'b0'}`);
iteration order of sets of ids ≥ 8 (the theorems hold for the model's ascending order; the three
clauses are order-independent statements and are monitored on byte-string ids).
-/
namespace Tahoe.C07
open Tahoe.Happiness

/-! ### The code as it is -/

/-- DESIGN §3 probe, ids relabelled `w0,w1,r0,r1 ↦ 0,1,2,3` with the existing share on `r1`:
the only share goes to read-only peer 2, which does not hold it (peer 3 does). -/
theorem readonly_only_existing_counterexample :
    sharePlacement Cfg.asIs [0, 1] [2, 3] [0] [(3, [0])] = .ok [(0, 2)] ∧
    ¬ (dget [(3, [0])] 2).contains 0 := by decide

/-- cause of the above: in `_servermap_flow_graph` every peer's adjacency row is the same list
object, so read-only peer 2 (vertex 1) is connected to share 0 (vertex 3) although only peer 3
(vertex 2) holds it -/
theorem shared_indexedShares_row :
    servermapFlowGraph Cfg.asIs [2, 3] [0] [(3, [0])] = [[1, 2], [3], [3], [4], []] ∧
    servermapFlowGraph Cfg.fixed [2, 3] [0] [(3, [0])] = [[1, 2], [], [3], [4], []] := by decide

/-- second defect: writable peer 2 holds only share 0, which the read-only phase places on
read-only peer 0; `share_placement` then drops peer 2 from the later phases: two distinct servers
are used although `{0↦0, 1↦1, 2↦2}` uses three and satisfies the read-only clause. -/
theorem spread_maximal_counterexample :
    sharePlacement Cfg.asIs [1, 2] [0] [0, 1, 2] [(0, [0]), (1, [1, 2]), (2, [0])]
      = .ok [(0, 0), (1, 1), (2, 1)] := by decide

/-- resetting `indexedShares` per peer alone does not repair the second defect -/
theorem spread_maximal_counterexample_after_first_fix :
    sharePlacement ⟨true, false⟩ [1, 2] [0] [0, 1, 2] [(0, [0]), (1, [1, 2]), (2, [0])]
      = .ok [(0, 0), (1, 1), (2, 1)] := by decide

/-! ### The repaired code -/

/-- on the failing inputs above the repaired model returns placements satisfying all three clauses -/
theorem fixed_on_counterexamples :
    sharePlacement Cfg.fixed [0, 1] [2, 3] [0] [(3, [0])] = .ok [(0, 3)] ∧
    sharePlacement Cfg.fixed [1, 2] [0] [0, 1, 2] [(0, [0]), (1, [1, 2]), (2, [0])]
      = .ok [(0, 0), (1, 1), (2, 2)] := by decide

/-- **placement_total**: with at least one writable peer, every share number gets a server, and
that server is one of the given peers (existing shares are assumed to sit on given peers only). -/
theorem placement_total (W R S : List Nat) (E : SetMap) (res : List (Nat × Nat)) (hW : W ≠ [])
    (hdom : ∀ x ∈ E, x.1 ∈ W ∨ x.1 ∈ R) (h : sharePlacement Cfg.fixed W R S E = .ok res) :
    ∀ s ∈ S, ∃ p, (s, p) ∈ res ∧ (p ∈ W ∨ p ∈ R) := by
  obtain ⟨h1, h2⟩ := sharePlacement_fixed_spec W R S E res hW h
  intro s hs
  obtain ⟨e, he, rfl⟩ := List.mem_map.mp (h1 s hs)
  refine ⟨e.2, he, ?_⟩
  rcases h2 e he with h | ⟨h, _⟩ | ⟨_, h⟩
  · left; exact h
  · right; exact h
  · obtain ⟨x, hx, hx'⟩ := List.mem_map.mp h
    rw [← hx']; exact hdom x hx

example : sharePlacement Cfg.fixed [0, 1] [2] [0, 1, 2, 3] [(2, [0, 1, 2, 3])]
    = .ok [(0, 2), (1, 0), (2, 1), (3, 0)] := by decide

/-- a result is always returned when some writable peer is not also listed read-only (the
round-robin generator is never asked to cycle over an empty set) -/
theorem placement_returns (W R S : List Nat) (E : SetMap) (w : Nat) (hw : w ∈ W) (hwr : w ∉ R) :
    sharePlacement Cfg.fixed W R S E ≠ .hang := by
  rw [sharePlacement_fixed_eq]
  split
  · simp
  · unfold finalize
    have hmem : w ∈ sdiff (mkSet W) (mkSet R) :=
      (mem_sdiff _ _ _).mpr ⟨(mem_mkSet W w).mpr hw, fun h => hwr ((mem_mkSet R w).mp h)⟩
    have hne : (sdiff (mkSet W) (mkSet R)).isEmpty = false := by
      cases hs : sdiff (mkSet W) (mkSet R) with
      | nil => rw [hs] at hmem; simp at hmem
      | cons _ _ => rfl
    simp [hne]

/-- **readonly_only_existing**: a read-only peer is assigned share `s` only if it already holds
`s` (writable and read-only peers disjoint). -/
theorem readonly_only_existing (W R S : List Nat) (E : SetMap) (res : List (Nat × Nat)) (hW : W ≠ [])
    (hdisj : ∀ x ∈ W, x ∉ R) (h : sharePlacement Cfg.fixed W R S E = .ok res) :
    ∀ s p, (s, p) ∈ res → p ∈ R → ∃ x ∈ E, x.1 = p ∧ s ∈ x.2 := by
  obtain ⟨_, h2⟩ := sharePlacement_fixed_spec W R S E res hW h
  intro s p hsp hp
  rcases h2 (s, p) hsp with h | ⟨_, h⟩ | ⟨h, _⟩
  · exact absurd hp (hdisj p h)
  · exact h
  · exact absurd hp h

example : ([0, 1] : List Nat) ≠ [] ∧ ∀ x ∈ ([0, 1] : List Nat), x ∉ ([2, 3] : List Nat) := by decide

/-- **spread_maximal**: no placement `A` (any list of `(share, server)` with distinct shares — total or
not) that puts shares to place on given servers and gives a read-only server only shares it holds
uses more distinct servers than the placement returned by the repaired `share_placement`.
(`Holds E p s`: `s ∈ E[p]`; by `placement_total` and `readonly_only_existing` the returned
placement is itself such an `A`, so its spread is the maximum.) -/
theorem spread_maximal (W R S : List Nat) (E : SetMap) (res : List (Nat × Nat)) (hW : W ≠ [])
    (hdisj : ∀ x ∈ W, x ∉ R) (h : sharePlacement Cfg.fixed W R S E = .ok res)
    (A : List (Nat × Nat)) (hkeys : (A.map (·.1)).Nodup)
    (hA : ∀ e ∈ A, e.1 ∈ S ∧ (e.2 ∈ W ∨ (e.2 ∈ R ∧ Holds E e.2 e.1))) :
    distinctServers A ≤ distinctServers res := by
  obtain ⟨Mo, h1, h2, h3⟩ := placement_has_matching A hkeys
  rw [← h3]
  exact spread_ge_matching W R S E res hW hdisj h Mo h1 (fun e he => hA (e.2, e.1) (h2 e he))

/-- a competing placement on three servers for the layout `W={0,1}`, `R={2}`, `2` holds share 0:
it meets the hypotheses of `spread_maximal`, and the model's placement also uses three servers -/
example : (([(0, 2), (1, 0), (2, 1)] : List (Nat × Nat)).map (·.1)).Nodup ∧
    (∀ e ∈ ([(0, 2), (1, 0), (2, 1)] : List (Nat × Nat)),
      e.1 ∈ [0, 1, 2] ∧ (e.2 ∈ [0, 1] ∨ (e.2 ∈ [2] ∧ (dget [(2, mkSet [0])] e.2).contains e.1))) ∧
    distinctServers [(0, 2), (1, 0), (2, 1)] = 3 ∧
    sharePlacement Cfg.fixed [0, 1] [2] [0, 1, 2] [(2, [0])] = .ok [(0, 2), (1, 0), (2, 1)] := by
  decide

/-- the same against matchings: the returned placement uses at least as many distinct servers as
any matching of servers to shares (writable: any share; read-only: a share it holds) -/
theorem spread_ge_matching (W R S : List Nat) (E : SetMap) (res : List (Nat × Nat)) (hW : W ≠ [])
    (hdisj : ∀ x ∈ W, x ∉ R) (h : sharePlacement Cfg.fixed W R S E = .ok res)
    (Mo : List (Nat × Nat)) (hMo : Matching Mo)
    (hedge : ∀ e ∈ Mo, e.2 ∈ S ∧ (e.1 ∈ W ∨ (e.1 ∈ R ∧ Holds E e.1 e.2))) :
    Mo.length ≤ distinctServers res :=
  Tahoe.Happiness.spread_ge_matching W R S E res hW hdisj h Mo hMo hedge

example : Matching [(2, 0), (0, 1)] ∧ Holds [(2, [0])] 2 0 := by
  refine ⟨?_, by unfold Holds; decide⟩
  unfold Matching; simp

/-- for a dict (distinct keys) `Holds` is "some entry of `E` for `p` lists `s`" -/
theorem holds_iff_entry (E : SetMap) (hk : (E.map (·.1)).Nodup) (p s : Nat) :
    Holds E p s ↔ ∃ x ∈ E, x.1 = p ∧ s ∈ x.2 := holds_iff E hk p s

example : ([(2, [0]), (3, [1])].map (·.1)).Nodup := by decide

/-- **phase_is_maximum_matching**: each `_calculate_mappings` phase of the repaired code ends with
a maximum matching `M` of its flow network (servers `1..|peers|`, share vertices after them): the
value stored for a share is `None` iff the share is unmatched in `M`, and the matched server
otherwise; no matching of the network's server/share edges is larger than `M`. -/
theorem phase_is_maximum_matching (peers shares : List Nat) (sm : SetMap) (hp : peers.Nodup)
    (hs : shares.Nodup) (hrows : ∀ p, (dget sm p).Nodup) :
    ∃ M : List (Nat × Nat), Matching M ∧
      (∀ e ∈ M, 1 ≤ e.1 ∧ e.1 ≤ peers.length ∧ e.2 ∈ adj (cmGraph peers shares sm) e.1) ∧
      (∀ M' : List (Nat × Nat), Matching M' →
        (∀ e ∈ M', 1 ≤ e.1 ∧ e.1 ≤ peers.length ∧ e.2 ∈ adj (cmGraph peers shares sm) e.1) →
        M'.length ≤ M.length) ∧
      ∀ si, peers.length + 1 ≤ si → si ≤ peers.length + shares.length →
        (cmgValue (cmGraph peers shares sm) si = none ∧ si ∉ M.map (·.2)) ∨
        (∃ i, cmgValue (cmGraph peers shares sm) si = some i ∧ (i, si) ∈ M) :=
  cmgValue_spec (cmGraph_layered peers shares sm hp hs hrows)

example : ([3, 5] : List Nat).Nodup ∧ ([0, 1] : List Nat).Nodup ∧
    ∀ p, (dget [(3, [0, 1]), (5, [1])] p).Nodup := by
  refine ⟨by decide, by decide, ?_⟩
  intro p
  apply dget_nodup
  intro e he
  simp only [List.mem_cons, List.not_mem_nil, or_false] at he
  rcases he with rfl | rfl <;> decide

/-- the phase result in closed form: one entry per share, in the order of the share set -/
theorem calculate_mappings_closed_form (peers shares : List Nat) (sm : SetMap) (hp : peers.Nodup)
    (hs : shares.Nodup) :
    calculateMappings Cfg.fixed peers shares sm =
      shares.map (fun s => (s, (cmgValue (cmGraph peers shares sm)
        (toIndex (reindexItems shares (peers.length + 1)) s)).map (ofIndex (reindexItems peers 1)))) :=
  calculateMappings_eq peers shares sm hp hs

/-! ### The caller: `PeerSelector` as a state machine (`Tahoe/Happiness/Selector.lean`)

The specification of `get_share_placements()`: whatever sequence of `add_peer`,
`add_peer_with_share`, `mark_readonly_peer`, `mark_bad_peer` and earlier
`get_share_placements()` calls came before, the plan returned is `share_placement` of the
selector's *current* knowledge.  (A selector that remembers an earlier plan across a
`mark_readonly_peer` breaks this; the harness compares every plan of random histories on the real
`PeerSelector` with `SelState.run`.) -/

/-- the outputs of a history extended by one operation -/
theorem run_append (cfg : Cfg) (s : SelState) (pre : List SelOp) (op : SelOp) :
    s.run cfg (pre ++ [op]) = s.run cfg pre ++ [(s.after pre).out cfg op] := by
  induction pre generalizing s with
  | nil => simp [SelState.run, SelState.after]
  | cons a rest ih => simp [SelState.run, SelState.after, ih]

/-- **plan_is_fresh**: after any history the plan returned is `share_placement` of the current state -/
theorem plan_is_fresh (cfg : Cfg) (s : SelState) (pre : List SelOp) :
    s.run cfg (pre ++ [SelOp.getPlacements]) = s.run cfg pre ++ [SelOut.plan ((s.after pre).plan cfg)] :=
  run_append cfg s pre .getPlacements

/-- earlier `get_share_placements()` calls have no influence on the state a later plan is computed from -/
theorem state_ignores_gets (s : SelState) (ops : List SelOp) :
    s.after (ops.filter (fun o => o != SelOp.getPlacements)) = s.after ops := by
  induction ops generalizing s with
  | nil => rfl
  | cons a rest ih =>
    by_cases h : a = SelOp.getPlacements
    · subst h; simpa [SelState.after, SelState.next] using ih s
    · have : (a != SelOp.getPlacements) = true := by simpa using h
      simp only [List.filter_cons, this, if_true]
      exact ih (s.next a)

/-- the history of the seeded stale-plan scenario: two writable servers, one share, a plan, server 0
is demoted to read-only, a second plan: the second plan must move the share to server 1 -/
theorem demoted_server_loses_its_share :
    (SelState.init 1).run Cfg.fixed
      [.addPeer 0, .addPeer 1, .getPlacements, .markReadonly 0, .getPlacements]
      = [.none, .none, .plan (.ok [(0, 0)]), .none, .plan (.ok [(0, 1)])] := by decide

/-- on states reached by histories the three clauses apply to every returned plan: here the
read-only clause, for the plan after any history (writable and read-only sets disjoint) -/
theorem plan_readonly_only_existing (s : SelState) (pre : List SelOp) (res : List (Nat × Nat))
    (hW : (s.after pre).peers ≠ []) (hdisj : ∀ x ∈ (s.after pre).peers, x ∉ (s.after pre).readonly)
    (h : (s.after pre).plan Cfg.fixed = .ok res) :
    ∀ sh p, (sh, p) ∈ res → p ∈ (s.after pre).readonly → ∃ x ∈ (s.after pre).existing, x.1 = p ∧ sh ∈ x.2 :=
  readonly_only_existing _ _ _ _ res hW hdisj h

example : ((SelState.init 2).after [.addPeer 0, .addPeer 1, .addPeerWithShare 1 0, .markReadonly 1]).peers = [0] ∧
    ((SelState.init 2).after [.addPeer 0, .addPeer 1, .addPeerWithShare 1 0, .markReadonly 1]).readonly = [1] := by
  decide

/-! ### The planner's input (`toldState`)

`share_placement` can only be as good as the existing-share relation it is given.  The
specification of that input: at the first plan of an upload the selector holds exactly the ground
truth — each share found on a server is booked under *that* server (an answer attributed to
another server gives the planner a false relation; the harness compares the real selector's state
in grid re-uploads with `toldState` and with the shares on disk). -/

/-- **told_state_is_ground_truth**: the prescribed state has writable = all servers but the read-only
ones, read-only as given, no bad server, and its existing-share relation is exactly "server holds
share on disk" (as a well-formed dict: distinct keys, sorted duplicate-free share sets) -/
theorem told_state_is_ground_truth (total nsrv : Nat) (ro : List Nat) (held : SetMap) :
    (∀ p, p ∈ (toldState total nsrv ro held).peers ↔ p < nsrv ∧ p ∉ ro) ∧
    (∀ p, p ∈ (toldState total nsrv ro held).readonly ↔ p ∈ ro) ∧
    (toldState total nsrv ro held).bad = [] ∧
    (∀ e, e ∈ relOfServermap (toldState total nsrv ro held).existing ↔ e ∈ relOfServermap held) ∧
    SbsInv (toldState total nsrv ro held).existing :=
  toldState_spec total nsrv ro held

/-- the seeded scenario: four servers, server 1 read-only and holding share 0: the plan computed
from the prescribed state keeps share 0 on server 1 and uses all four servers -/
example : (toldState 4 4 [1] [(1, [0])]).existing = [(1, [0])] ∧
    (toldState 4 4 [1] [(1, [0])]).peers = [0, 2, 3] ∧ (toldState 4 4 [1] [(1, [0])]).readonly = [1] ∧
    (toldState 4 4 [1] [(1, [0])]).plan Cfg.fixed = .ok [(0, 1), (1, 0), (2, 2), (3, 3)] := by decide

/-- the plan for the prescribed state obeys the read-only clause w.r.t. the shares on disk -/
theorem plan_of_told_state_readonly (total nsrv : Nat) (ro : List Nat) (held : SetMap)
    (res : List (Nat × Nat)) (hW : (toldState total nsrv ro held).peers ≠ [])
    (h : (toldState total nsrv ro held).plan Cfg.fixed = .ok res) :
    ∀ sh p, (sh, p) ∈ res → p ∈ ro → (p, sh) ∈ relOfServermap held := by
  obtain ⟨h1, h2, _, h4, _⟩ := toldState_spec total nsrv ro held
  intro sh p hsp hp
  have := readonly_only_existing _ _ _ _ res hW (fun x hx hr => ((h1 x).mp hx).2 ((h2 x).mp hr)) h sh p hsp
    ((h2 p).mpr hp)
  obtain ⟨x, hx, hx1, hx2⟩ := this
  apply (h4 (p, sh)).mp
  rw [mem_relOfServermap]
  exact ⟨x, hx, hx1, hx2⟩

example : (toldState 4 4 [1] [(1, [0])]).peers ≠ [] := by decide

/-- **failed_server_not_writable**: once the allocation on server `p` has failed -- for any reason,
including the uploader's query timeout (`SelOp.allocationFailed`) -- `p` is not in the writable set
of any later state, whatever else happens, until someone adds it again; so no later plan is
computed with `p` as a writable server. -/
theorem failed_server_not_writable (s : SelState) (p : Nat) (ops : List SelOp)
    (hops : SelOp.addPeer p ∉ ops) :
    p ∉ ((s.next (SelOp.allocationFailed p)).after ops).peers := by
  apply not_writable_persists p ops hops
  simp [SelState.next]

/-- six writable servers, four shares; the plan uses servers 0..3; server 1's allocation fails
(e.g. times out): the next plan is spread over four servers again, without server 1 -/
example : (SelState.init 4).run Cfg.fixed
    [.addPeer 0, .addPeer 1, .addPeer 2, .addPeer 3, .addPeer 4, .addPeer 5, .getPlacements,
     SelOp.allocationFailed 1, .getPlacements]
    = [.none, .none, .none, .none, .none, .none, .plan (.ok [(0, 0), (1, 1), (2, 2), (3, 3)]),
       .none, .plan (.ok [(0, 0), (1, 2), (2, 3), (3, 4)])] := by decide +kernel

/-- a later plan gives the failed server only shares it already holds: it stays read-only (unless it
is later written off as bad), and the read-only clause applies to it -/
theorem plan_after_failed_allocation (s : SelState) (p : Nat) (ops : List SelOp)
    (hbad : SelOp.markBad p ∉ ops) (res : List (Nat × Nat))
    (hW : ((s.next (SelOp.allocationFailed p)).after ops).peers ≠ [])
    (hdisj : ∀ x ∈ ((s.next (SelOp.allocationFailed p)).after ops).peers,
      x ∉ ((s.next (SelOp.allocationFailed p)).after ops).readonly)
    (h : ((s.next (SelOp.allocationFailed p)).after ops).plan Cfg.fixed = .ok res) :
    ∀ sh, (sh, p) ∈ res →
      ∃ x ∈ ((s.next (SelOp.allocationFailed p)).after ops).existing, x.1 = p ∧ sh ∈ x.2 := by
  intro sh hsp
  have hro : p ∈ ((s.next (SelOp.allocationFailed p)).after ops).readonly :=
    readonly_persists p ops hbad _ (by simp [SelState.next, mem_sinsert])
  exact readonly_only_existing _ _ _ _ res hW hdisj h sh p hsp hro

example : SelOp.markBad 1 ∉ [SelOp.getPlacements, SelOp.addPeerWithShare 1 0] := by decide

/-! ### The allocation rounds (`SelState.afterRound`, `roundStates`)

`Tahoe2ServerSelector.get_shareholders` alternates `get_share_placements()` with a round of
`allocate_buckets` queries; `_buckets_allocated` reports to the selector exactly the failed queries
(`roundOps`).  The theorems say what the next plan is computed from and what it achieves. -/

/-- **round_demotes_every_failure**: a server whose query failed in the round -- `error`,
`disconnected` or `timeout` alike -- is read-only and not writable when the next plan is computed -/
theorem round_demotes_every_failure (s : SelState) (answers : List (Nat × Answer)) (p : Nat)
    (a : Answer) (hm : (p, a) ∈ answers) (hf : a.failed = true) :
    p ∉ (s.afterRound answers).peers ∧ p ∈ (s.afterRound answers).readonly := by
  obtain ⟨_, _, _, h4, h5⟩ := afterRound_spec s answers
  exact ⟨fun h => ((h5 p).mp h).2 ⟨a, hm, hf⟩, (h4 p).mpr (Or.inl ⟨a, hm, hf⟩)⟩

example : Answer.timeout.failed = true ∧ Answer.error.failed = true ∧ Answer.disconnected.failed = true ∧
    Answer.ok.failed = false ∧ Answer.noProgress.failed = false := by decide

/-- **round_changes_nothing_else**: servers that answered (also a full one: `noProgress`) keep their
class, and the existing-share relation, the bad set and the number of shares are untouched -/
theorem round_changes_nothing_else (s : SelState) (answers : List (Nat × Answer)) :
    (s.afterRound answers).existing = s.existing ∧ (s.afterRound answers).bad = s.bad ∧
    (s.afterRound answers).total = s.total ∧
    ∀ p, ¬ FailedIn answers p →
      ((p ∈ (s.afterRound answers).peers ↔ p ∈ s.peers) ∧
       (p ∈ (s.afterRound answers).readonly ↔ p ∈ s.readonly)) := by
  obtain ⟨h1, h2, h3, h4, h5⟩ := afterRound_spec s answers
  refine ⟨h1, h2, h3, fun p hp => ⟨?_, ?_⟩⟩
  · rw [h5 p]; exact ⟨fun h => h.1, fun h => ⟨h, hp⟩⟩
  · rw [h4 p]; exact ⟨fun h => h.resolve_left hp, Or.inr⟩

/-- **failed_earlier_stays_out**: a server that failed in some round is not writable at any later
`get_share_placements()` of the loop -/
theorem failed_earlier_stays_out (s : SelState) (r : List (Nat × Answer)) (p : Nat) (hf : FailedIn r p)
    (later : List (List (Nat × Answer))) :
    ∀ st ∈ (s.afterRound r).roundStates later, p ∉ st.peers := by
  have h0 : p ∉ (s.afterRound r).peers := fun h => (((afterRound_spec s r).2.2.2.2 p).mp h).2 hf
  generalize s.afterRound r = t at h0
  induction later generalizing t with
  | nil => intro st hst; simp only [SelState.roundStates, List.mem_singleton] at hst; subst hst; exact h0
  | cons r' rest ih =>
    intro st hst
    simp only [SelState.roundStates, List.mem_cons] at hst
    rcases hst with rfl | hst
    · exact h0
    · exact ih (t.afterRound r') (fun h => h0 (((afterRound_spec t r').2.2.2.2 p).mp h).1) st hst

/-- two rounds on six servers: server 1 times out in the first round, server 4 raises in the
second; the states and plans at the three `get_share_placements()` calls -/
example : ((toldState 4 6 [] []).roundStates [[(0, .ok), (1, .timeout), (2, .ok), (3, .ok)],
      [(0, .ok), (2, .ok), (3, .ok), (4, .error)]]).map (fun st => (st.peers, st.readonly)) =
    [([0, 1, 2, 3, 4, 5], []), ([0, 2, 3, 4, 5], [1]), ([0, 2, 3, 5], [1, 4])] := by decide

/-- **plan_after_round_spread_maximal**: the plan computed after a round is spread-maximal for the
servers as they then are: the failed ones count as read-only (they may keep shares they hold), the
others as before -/
theorem plan_after_round_spread_maximal (s : SelState) (answers : List (Nat × Answer))
    (hdisj : ∀ x ∈ s.peers, x ∉ s.readonly) (hW : (s.afterRound answers).peers ≠ [])
    (res : List (Nat × Nat)) (h : (s.afterRound answers).plan Cfg.fixed = .ok res)
    (A : List (Nat × Nat)) (hkeys : (A.map (·.1)).Nodup)
    (hA : ∀ e ∈ A, e.1 < s.total ∧
      ((e.2 ∈ s.peers ∧ ¬ FailedIn answers e.2) ∨
       ((FailedIn answers e.2 ∨ e.2 ∈ s.readonly) ∧ Holds s.existing e.2 e.1))) :
    distinctServers A ≤ distinctServers res := by
  obtain ⟨h1, _, h3, h4, h5⟩ := afterRound_spec s answers
  apply spread_maximal _ _ _ _ res hW ?_ h A hkeys
  · intro e he
    obtain ⟨ha, hb⟩ := hA e he
    refine ⟨by rw [h3]; exact List.mem_range.mpr ha, ?_⟩
    rcases hb with hb | ⟨hb, hh⟩
    · left; exact (h5 e.2).mpr hb
    · right; exact ⟨(h4 e.2).mpr hb, by rw [h1]; exact hh⟩
  · intro x hx hr
    have hx' := (h5 x).mp hx
    rcases (h4 x).mp hr with hf | hro
    · exact hx'.2 hf
    · exact hdisj x hx'.1 hro

/-- **plan_after_round_reaches_happiness**: if `h` distinct writable servers did not fail in the
round and there are at least `h` shares, the next plan is spread over at least `h` distinct
servers -- a happy layout that is reachable is planned -/
theorem plan_after_round_reaches_happiness (s : SelState) (answers : List (Nat × Answer))
    (hdisj : ∀ x ∈ s.peers, x ∉ s.readonly) (H : List Nat) (hH : H.Nodup)
    (hhealthy : ∀ x ∈ H, x ∈ s.peers ∧ ¬ FailedIn answers x) (hne : H ≠ []) (hshares : H.length ≤ s.total)
    (res : List (Nat × Nat)) (h : (s.afterRound answers).plan Cfg.fixed = .ok res) :
    H.length ≤ distinctServers res := by
  obtain ⟨_, _, h3, h4, h5⟩ := afterRound_spec s answers
  have hW : (s.afterRound answers).peers ≠ [] := by
    cases H with
    | nil => exact absurd rfl hne
    | cons a _ =>
      have := (h5 a).mpr (hhealthy a (by simp))
      intro e; rw [e] at this; simp at this
  have := Tahoe.Happiness.spread_ge_matching _ _ _ _ res hW (by
      intro x hx hr
      have hx' := (h5 x).mp hx
      rcases (h4 x).mp hr with hf | hro
      · exact hx'.2 hf
      · exact hdisj x hx'.1 hro) h (H.zip (List.range s.total))
    (zip_matching _ _ hH List.nodup_range) (by
      intro e he
      obtain ⟨x, y⟩ := e
      have hm := List.of_mem_zip he
      exact ⟨by rw [h3]; exact hm.2, Or.inl ((h5 x).mpr (hhealthy x hm.1))⟩)
  simpa [Nat.min_eq_left hshares] using this

/-- the seeded C07-e scenario in the model: six writable servers, four shares, server 1 never
answers its allocation (timeout): four healthy servers `[0,2,3,4]` meet the hypotheses, and the
plan after the round indeed uses four distinct servers -/
example : (∀ x ∈ [0, 2, 3, 4], x ∈ (toldState 4 6 [] []).peers ∧
      ¬ FailedIn [(0, Answer.ok), (1, .timeout), (2, .ok), (3, .ok)] x) ∧
    ((toldState 4 6 [] []).afterRound [(0, .ok), (1, .timeout), (2, .ok), (3, .ok)]).plan Cfg.fixed
      = .ok [(0, 0), (1, 2), (2, 3), (3, 4)] := by
  refine ⟨?_, by decide +kernel⟩
  intro x hx
  refine ⟨by revert x; decide, ?_⟩
  rintro ⟨a, ha, hf⟩
  simp only [List.mem_cons, Prod.mk.injEq, List.not_mem_nil, or_false] at ha hx
  rcases ha with ⟨rfl, rfl⟩ | ⟨rfl, rfl⟩ | ⟨rfl, rfl⟩ | ⟨rfl, rfl⟩ <;> simp_all [Answer.failed]

end Tahoe.C07
