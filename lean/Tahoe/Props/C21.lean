import Tahoe.Dir.TraverseLemmas
/-! C21 — deep traversal visits every reachable object exactly once (property theorems; helper lemmas in
    `Tahoe/Dir/TraverseLemmas.lean`, model in `Tahoe/Dir/Traverse.lean`).

    What the code does with objects that have no verify cap — LIT files, LIT directories, unknown nodes —
    is stated exactly: they are never entered into `found`, so they are reported once *per link* of a
    visited directory (`literal_reported_per_link`); "exactly once" is about objects that have a verify cap. -/
namespace Tahoe.C21
open Tahoe.Dir.Traverse

section
variable {V : Type} [DecidableEq V] (g : Graph V)

/-- **Exactly once per verify cap.**  However long the walk runs, on whatever graph (cycles, shared
    subdirectories, the same object reached through its write cap and through its read cap), no two
    `add_node` calls are for nodes with the same verify cap. -/
theorem at_most_once_per_verifier (hunk : ∀ n, (g n).kind = .unknown → (g n).verifier = none)
    (root fuel : Nat) : (reportedV g (traverse g root fuel).1).Nodup := by
  have h0 : Inv1 g (init g root) := by
    unfold Inv1 init
    cases hv : (g root).verifier <;> simp [reportedV, vs, hv]
  have := run_inv g (P := Inv1 g) (fun s s' => step_inv1 g hunk s s') fuel (init g root) h0
  have hnd := this.1
  rw [List.nodup_append] at hnd
  exact hnd.1

example : let g : Graph Nat := fun n =>
      if n = 0 then ⟨.dir, some 10, [("a", 1), ("b", 2), ("c", 0)]⟩
      else if n = 1 then ⟨.dir, some 11, [("up", 0), ("ro", 2)]⟩
      else if n = 2 then ⟨.dir, some 11, [("up", 0)]⟩          -- the same object as 1, other cap
      else ⟨.file, none, []⟩
    (traverse g 0 10) =
      ([.addNode 0 [], .enterDir 0, .addNode 1 ["a"], .enterDir 1], true) := by decide

/-- invariant: every pending and every reported (node, path) is what resolving the path from the root gives -/
def Inv2 (root : Nat) (s : St V) : Prop :=
  (∀ x ∈ s.stack, resolve g root x.2 = some x.1) ∧
  (∀ n p, Event.addNode n p ∈ s.out → resolve g root p = some n)

/-- **Each reported path leads to the node reported for it**: following the names of the path from the
    root (`get_child_at_path`) arrives at exactly the node handed to the walker.  (Names of a directory are
    distinct — they are dict keys.) -/
theorem paths_lead_to_node (hnames : ∀ n, ((g n).children.map (·.1)).Nodup) (root fuel : Nat) (n : Nat)
    (p : Path) (h : Event.addNode n p ∈ (traverse g root fuel).1) : resolve g root p = some n := by
  have h0 : Inv2 g root (init g root) := by
    constructor
    · intro x hx
      simp only [init, List.mem_singleton] at hx
      subst hx; rfl
    · intro n p hm; simp [init] at hm
  have hstep : ∀ s s', Inv2 g root s → step g s = some s' → Inv2 g root s' := by
    intro s s' hinv hs
    unfold step at hs
    cases hst : s.stack with
    | nil => rw [hst] at hs; cases hs
    | cons top rest =>
      obtain ⟨d, path⟩ := top
      rw [hst] at hs
      simp only [Option.some.injEq] at hs
      subst hs
      have hfrom := scan_from g path (g d).children (g d).children ⟨s.found, [], [], []⟩ (fun x hx => hx)
        ⟨by simp, by simp⟩
      generalize scan g path (g d).children ⟨s.found, [], [], []⟩ = r at hfrom
      obtain ⟨h1, h2⟩ := hinv
      rw [hst] at h1
      have hd : resolve g root path = some d := h1 (d, path) (by simp)
      have hlink : ∀ name c, (name, c) ∈ (g d).children → resolve g root (path ++ [name]) = some c := by
        intro name c hm
        exact resolve_append g root path d name c hd (find_of_mem_nodup _ name c hm (hnames d))
      constructor
      · intro x hx
        simp only [List.mem_append] at hx
        rcases hx with hx | hx
        · obtain ⟨name, hm, hp⟩ := hfrom.items x (by simp [hx])
          rw [hp]; exact hlink name x.1 hm
        · exact h1 x (by simp [hx])
      · intro n p hm
        simp only [List.mem_append, List.mem_cons, List.mem_map, List.not_mem_nil, or_false] at hm
        rcases hm with ((hm | hm) | hm) | hm
        · exact h2 n p hm
        · rcases hm with hm | hm
          · cases hm; exact hd
          · cases hm
        · obtain ⟨name, c, hm2, he⟩ := hfrom.unk _ hm
          cases he
          exact hlink _ _ hm2
        · obtain ⟨f, hf, he⟩ := hm
          cases he
          obtain ⟨name, hm2, hp⟩ := hfrom.items f (by simp [hf])
          rw [hp]; exact hlink name f.1 hm2
  have := run_inv g (P := Inv2 g root) hstep fuel (init g root) h0
  exact this.2 n p h

example : let g : Graph Nat := fun n =>
      if n = 0 then ⟨.dir, some 10, [("a", 1), ("b", 2)]⟩
      else if n = 1 then ⟨.dir, some 11, [("x", 3)]⟩
      else ⟨.file, none, []⟩
    Event.addNode 3 ["a", "x"] ∈ (traverse g 0 10).1 ∧ resolve g 0 ["a", "x"] = some 3 := by decide

/-- **Every child link of a visited directory is accounted for** (the closure half of "visits every
    reachable object"): when the walker is told about directory `d` at `path`, then in the same step every
    child `c` of `d` is either reported at `path ++ [name]` (unknown nodes; files), or pending on the stack at
    that path (directories), or its verify cap is already in `found`.

    Full statement kept for the record — `visits_all_reachable`: if the walk completes (`(traverse g root
    fuel).2 = true`) and nodes with the same verify cap have the same kind and children with the same
    names and verify caps, then every node reachable from the root is reported, or a node with the same verify
    cap is.  What is missing is the induction along a path from the root using this closure property and the
    invariant `Inv1` ("every verify cap in `found` is reported or pending", pending = ∅ at completion); the
    correspondence run's monitor checks the full statement on every generated graph. -/
theorem visits_all_reachable_partial (s s' : St V) (d : Nat) (path : Path) (rest : List (Nat × Path))
    (hst : s.stack = (d, path) :: rest) (hs : step g s = some s') (name : String) (c : Nat)
    (hc : (name, c) ∈ (g d).children) :
    Event.addNode d path ∈ s'.out ∧
    (Event.addNode c (path ++ [name]) ∈ s'.out ∨ (c, path ++ [name]) ∈ s'.stack ∨
      ∃ v, (g c).verifier = some v ∧ v ∈ s'.found) := by
  unfold step at hs
  rw [hst] at hs
  simp only [Option.some.injEq] at hs
  subst hs
  refine ⟨by simp, ?_⟩
  -- generalized over the accumulator of the scan
  have key : ∀ (kids : List (String × Nat)) (acc : Scan V), (name, c) ∈ kids →
      let r := scan g path kids acc
      (Event.addNode c (path ++ [name]) ∈ r.unknowns ∨ (c, path ++ [name]) ∈ r.files ∨
        (c, path ++ [name]) ∈ r.dirs ∨ ∃ v, (g c).verifier = some v ∧ v ∈ r.found) := by
    -- monotonicity of the accumulator along a scan
    have mono : ∀ (kids : List (String × Nat)) (acc : Scan V),
        (∀ e ∈ acc.unknowns, e ∈ (scan g path kids acc).unknowns) ∧
        (∀ e ∈ acc.files, e ∈ (scan g path kids acc).files) ∧
        (∀ e ∈ acc.dirs, e ∈ (scan g path kids acc).dirs) ∧
        (∀ v ∈ acc.found, v ∈ (scan g path kids acc).found) := by
      intro kids
      induction kids with
      | nil => intro acc; exact ⟨fun _ h => h, fun _ h => h, fun _ h => h, fun _ h => h⟩
      | cons kc rest ih =>
        intro acc
        obtain ⟨nm, k⟩ := kc
        simp only [scan]
        split
        · have := ih { acc with unknowns := acc.unknowns ++ [.addNode k (path ++ [nm])] }
          exact ⟨fun e h => this.1 e (by simp [h]), this.2.1, this.2.2.1, this.2.2.2⟩
        · split
          · split
            · exact ih acc
            · split
              · rename_i v _ _ _
                have := ih { found := v :: acc.found, unknowns := acc.unknowns, files := acc.files,
                             dirs := acc.dirs ++ [(k, path ++ [nm])] }
                exact ⟨this.1, this.2.1, fun e h => this.2.2.1 e (by simp [h]), fun x h => this.2.2.2 x (by simp [h])⟩
              · rename_i v _ _ _
                have := ih { found := v :: acc.found, unknowns := acc.unknowns,
                             files := acc.files ++ [(k, path ++ [nm])], dirs := acc.dirs }
                exact ⟨this.1, fun e h => this.2.1 e (by simp [h]), this.2.2.1, fun x h => this.2.2.2 x (by simp [h])⟩
          · split
            · have := ih { acc with dirs := acc.dirs ++ [(k, path ++ [nm])] }
              exact ⟨this.1, this.2.1, fun e h => this.2.2.1 e (by simp [h]), this.2.2.2⟩
            · have := ih { acc with files := acc.files ++ [(k, path ++ [nm])] }
              exact ⟨this.1, fun e h => this.2.1 e (by simp [h]), this.2.2.1, this.2.2.2⟩
    intro kids
    induction kids with
    | nil => intro acc h; cases h
    | cons kc rest ih =>
      intro acc hmem
      simp only [List.mem_cons] at hmem
      rcases hmem with hm | hm
      · cases hm
        simp only [scan]
        split
        · left
          exact (mono rest _).1 _ (by simp)
        · split
          · rename_i v hv
            split
            · rename_i hin
              right; right; right
              exact ⟨v, hv, (mono rest acc).2.2.2 v hin⟩
            · split
              · right; right; left
                exact (mono rest _).2.2.1 _ (by simp)
              · right; left
                exact (mono rest _).2.1 _ (by simp)
          · split
            · right; right; left
              exact (mono rest _).2.2.1 _ (by simp)
            · right; left
              exact (mono rest _).2.1 _ (by simp)
      · obtain ⟨nm, k⟩ := kc
        simp only [scan]
        split
        · exact ih _ hm
        · split
          · split
            · exact ih _ hm
            · split <;> exact ih _ hm
          · split <;> exact ih _ hm
  have := key (g d).children ⟨s.found, [], [], []⟩ hc
  simp only [] at this
  rcases this with h | h | h | h
  · left; simp [h]
  · left
    simp only [List.mem_append, List.mem_map]
    right; exact ⟨_, h, rfl⟩
  · right; left; simp [h]
  · right; right; exact h

/-- Literal files, literal directories and unknown nodes are never entered into `found`: a literal child of
    a visited directory is reported (file) or visited (directory) for this very link, whatever was seen
    before — once per link, as the comment in the code says. -/
theorem literal_reported_per_link (s s' : St V) (d : Nat) (path : Path) (rest : List (Nat × Path))
    (hst : s.stack = (d, path) :: rest) (hs : step g s = some s') (name : String) (c : Nat)
    (hc : (name, c) ∈ (g d).children) (hlit : (g c).verifier = none) :
    Event.addNode c (path ++ [name]) ∈ s'.out ∨ (c, path ++ [name]) ∈ s'.stack := by
  rcases (visits_all_reachable_partial g s s' d path rest hst hs name c hc).2 with h | h | ⟨v, hv, _⟩
  · left; exact h
  · right; exact h
  · rw [hlit] at hv; cases hv

end
end Tahoe.C21
