import Tahoe.Dir.TraverseStats
import Tahoe.Dir.TraversePotential
/-! C21 — deep traversal visits every reachable object exactly once (property theorems; helper lemmas in
    `Tahoe/Dir/TraverseLemmas.lean`, model in `Tahoe/Dir/Traverse.lean`).

    What the code does with objects that have no verify cap — LIT files, LIT directories, unknown nodes —
    is stated exactly: they are never entered into `found`, so they are reported once *per link* of a
    visited directory (`literal_reported_per_link`); "exactly once" is about objects that have a verify cap.

    Hypotheses used below, all of them facts about real directory graphs:
    * `hroot`  the root is a directory;
    * `hunk`   unknown nodes have no verify cap (`UnknownNode.get_verify_cap()` is `None`);
    * `hnames` the names of one directory are distinct (dict keys);
    * `hcons`  `Consistent g`: an object looks the same through its write cap and its read cap (same kind,
               same names, children that are the same objects);
    * `hU`     every verify cap of the graph lies in the finite list `U` (the graph is finite);
    * `cost`, `hC`, `hcost`  a potential for directories without verify cap: `1 + Σ cost(literal-directory
               children of n) ≤ cost n ≤ C`.  It exists exactly when literal directories do not contain
               themselves (they are immutable, so they cannot); with no literal directory inside a directory,
               `cost = 1` (`fuel_graph_size_suffices`). -/
/-! ## Coverage of the statement (C21, properties.jsonl)

| clause of the statement | theorem(s) for the model `Tahoe.Dir.Traverse` |
|---|---|
| "building a manifest, collecting deep statistics or deep-checking" — all three are walkers driven by one `deep_traverse` | the model is `deep_traverse` with the walker's event list as output; the walkers themselves (ManifestWalker, DeepStats, DeepChecker) are folds over that list: `deepStats` is in the model (`stats_count_each_object_once`), manifest order / deep-check counters / result paths are **correspondence + monitor only** (harness compares all five operations with the event list) |
| "visits every file and directory reachable from it" | `visits_all_reachable` (+ `visits_only_reachable`) |
| "exactly once" (objects with a verify cap) | `at_most_once_per_verifier`, `visits_each_object_exactly_once`, `stats_count_each_object_once` |
| "exactly once" read for objects without verify cap (LIT files/dirs, unknown): once per link, as the code's comment says | `literal_reported_per_link` |
| "even when subdirectories are shared between parents or form cycles" (termination) | `terminates_on_cycles`, `fuel_graph_size_suffices`, `terminates_with_nested_literal_dirs` (potential constructed from cap-length nesting; no hypothesis on cycles) |
| "each reported path leads to the object reported for it" | `paths_lead_to_node` |
| sizes in deep-stats (size-*, largest-*, histogram) | **correspondence + monitor only** (sizes are not in the model) |
| several traversals in progress at once (build_manifest + deep-stats, concurrent requests; seeded C21-e) | `concurrent_traversals_independent` (any interleaving of any number of traversals; the model's traversals share only the graph — that the code's `list()` shares nothing more is **correspondence + monitor**: concurrent recorder walks vs the driver's `multi`) |
| behaviour under concurrent *modification* of the directories, cancellation, errors from `list()` | **not covered** |
-/
namespace Tahoe.C21
open Tahoe.Dir.Traverse

section
variable {V : Type} [DecidableEq V] (g : Graph V)

/-- **Exactly once per verify cap.**  However long the walk runs, on whatever graph (cycles, shared
    subdirectories, the same object reached through its write cap and through its read cap), no two
    `add_node` calls are for nodes with the same verify cap. -/
theorem at_most_once_per_verifier (hunk : ∀ n, (g n).kind = .unknown → (g n).verifier = none)
    (root fuel : Nat) : (reportedV g (traverse g root fuel).1).Nodup := by
  have h0 : Inv1 g (init g root) := by
    unfold Inv1 init
    cases hv : (g root).verifier <;> simp [reportedV, vs, hv]
  have := run_inv g (P := Inv1 g) (fun s s' => step_inv1 g hunk s s') fuel (init g root) h0
  have hnd := this.1
  rw [List.nodup_append] at hnd
  exact hnd.1

example : let g : Graph Nat := fun n =>
      if n = 0 then ⟨.dir, some 10, [("a", 1), ("b", 2), ("c", 0)]⟩
      else if n = 1 then ⟨.dir, some 11, [("up", 0), ("ro", 2)]⟩
      else if n = 2 then ⟨.dir, some 11, [("up", 0)]⟩          -- the same object as 1, other cap
      else ⟨.file, none, []⟩
    (traverse g 0 10) =
      ([.addNode 0 [], .enterDir 0, .addNode 1 ["a"], .enterDir 1], true) := by decide

/-- invariant: every pending and every reported (node, path) is what resolving the path from the root gives -/
def Inv2 (root : Nat) (s : St V) : Prop :=
  (∀ x ∈ s.stack, resolve g root x.2 = some x.1) ∧
  (∀ n p, Event.addNode n p ∈ s.out → resolve g root p = some n)

/-- **Each reported path leads to the node reported for it**: following the names of the path from the
    root (`get_child_at_path`) arrives at exactly the node handed to the walker.  (Names of a directory are
    distinct — they are dict keys.) -/
theorem paths_lead_to_node (hnames : ∀ n, ((g n).children.map (·.1)).Nodup) (root fuel : Nat) (n : Nat)
    (p : Path) (h : Event.addNode n p ∈ (traverse g root fuel).1) : resolve g root p = some n := by
  have h0 : Inv2 g root (init g root) := by
    constructor
    · intro x hx
      simp only [init, List.mem_singleton] at hx
      subst hx; rfl
    · intro n p hm; simp [init] at hm
  have hstep : ∀ s s', Inv2 g root s → step g s = some s' → Inv2 g root s' := by
    intro s s' hinv hs
    unfold step at hs
    cases hst : s.stack with
    | nil => rw [hst] at hs; cases hs
    | cons top rest =>
      obtain ⟨d, path⟩ := top
      rw [hst] at hs
      simp only [Option.some.injEq] at hs
      subst hs
      have hfrom := scan_from g path (g d).children (g d).children ⟨s.found, [], [], []⟩ (fun x hx => hx)
        ⟨by simp, by simp⟩
      generalize scan g path (g d).children ⟨s.found, [], [], []⟩ = r at hfrom
      obtain ⟨h1, h2⟩ := hinv
      rw [hst] at h1
      have hd : resolve g root path = some d := h1 (d, path) (by simp)
      have hlink : ∀ name c, (name, c) ∈ (g d).children → resolve g root (path ++ [name]) = some c := by
        intro name c hm
        exact resolve_append g root path d name c hd (find_of_mem_nodup _ name c hm (hnames d))
      constructor
      · intro x hx
        simp only [List.mem_append] at hx
        rcases hx with hx | hx
        · obtain ⟨name, hm, hp⟩ := hfrom.items x (by simp [hx])
          rw [hp]; exact hlink name x.1 hm
        · exact h1 x (by simp [hx])
      · intro n p hm
        simp only [List.mem_append, List.mem_cons, List.mem_map, List.not_mem_nil, or_false] at hm
        rcases hm with ((hm | hm) | hm) | hm
        · exact h2 n p hm
        · rcases hm with hm | hm
          · cases hm; exact hd
          · cases hm
        · obtain ⟨name, c, hm2, he⟩ := hfrom.unk _ hm
          cases he
          exact hlink _ _ hm2
        · obtain ⟨f, hf, he⟩ := hm
          cases he
          obtain ⟨name, hm2, hp⟩ := hfrom.items f (by simp [hf])
          rw [hp]; exact hlink name f.1 hm2
  have := run_inv g (P := Inv2 g root) hstep fuel (init g root) h0
  exact this.2 n p h

example : let g : Graph Nat := fun n =>
      if n = 0 then ⟨.dir, some 10, [("a", 1), ("b", 2)]⟩
      else if n = 1 then ⟨.dir, some 11, [("x", 3)]⟩
      else ⟨.file, none, []⟩
    Event.addNode 3 ["a", "x"] ∈ (traverse g 0 10).1 ∧ resolve g 0 ["a", "x"] = some 3 := by decide

/-- **(a) The walk terminates, cycles or not.**  The measure
    `Σ_{pending directories} cost + C · |{verify caps of U not yet in found}|` drops with every directory
    visit (`step_measure`), so `cost root + C · |U|` visits are enough: the walk reaches `walker.finish()`. -/
theorem terminates_on_cycles (cost : Nat → Nat) (C : Nat) (U : List V) (hC : ∀ n, cost n ≤ C)
    (hU : ∀ n v, (g n).verifier = some v → v ∈ U)
    (hcost : ∀ n, 1 + litCost g cost (g n).children ≤ cost n) (root fuel : Nat)
    (hfuel : cost root + C * U.length ≤ fuel) : (traverse g root fuel).2 = true := by
  have := run_completes g cost C U hC hU hcost fuel (init g root)
    (Nat.le_trans (measure_init_le g cost C U root) hfuel)
  exact this.1

/-- … and when no directory has a literal directory as a child, fuel = number of verify caps + 1 (at most
    the size of the graph) suffices, whatever the cycles, shared subdirectories and repeated literal files. -/
theorem fuel_graph_size_suffices (U : List V) (hU : ∀ n v, (g n).verifier = some v → v ∈ U)
    (hlit : ∀ n name c, (name, c) ∈ (g n).children → ¬ ((g c).kind = .dir ∧ (g c).verifier = none))
    (root fuel : Nat) (hfuel : U.length + 1 ≤ fuel) : (traverse g root fuel).2 = true := by
  apply terminates_on_cycles g (fun _ => 1) 1 U (fun _ => Nat.le_refl 1) hU
  · intro n
    rw [litCost_one_zero g (g n).children (hlit n)]
    exact Nat.le_refl 1
  · omega

/-- **(a, with literal directories nested in directories)** The potential that `terminates_on_cycles` takes as a
    hypothesis exists whenever literal directories nest well-foundedly, which they do: a LIT directory is its
    own cap string and a LIT directory inside it is a part of that string, so the cap length `size` strictly
    decreases from a literal directory to a literal directory it contains.  With at most `B` children per
    directory and literal directories of `size ≤ R`, `potBound B (R+1) · (|U| + 1)` directory visits suffice
    (`potBound B 0 = 1`, `potBound B (r+1) = 1 + B · potBound B r`) — again whatever the cycles through
    directories that have a verify cap. -/
theorem terminates_with_nested_literal_dirs (U : List V) (hU : ∀ n v, (g n).verifier = some v → v ∈ U)
    (B R : Nat) (size : Nat → Nat) (hB : ∀ n, (g n).children.length ≤ B)
    (hR : ∀ n, IsLitDir g n → size n ≤ R)
    (hsize : ∀ n name c, IsLitDir g n → (name, c) ∈ (g n).children → IsLitDir g c → size c < size n)
    (root fuel : Nat) (hfuel : potBound B (R + 1) * (U.length + 1) ≤ fuel) :
    (traverse g root fuel).2 = true := by
  obtain ⟨hC, hcost⟩ := potCost_ok g B R size hB hR hsize
  apply terminates_on_cycles g (potCost g B R size) (potBound B (R + 1)) U hC hU hcost
  have := hC root
  rw [Nat.mul_add, Nat.mul_one] at hfuel
  omega

/-- a LIT directory (node 2, cap length 9) holding a LIT directory (node 3, cap length 4), both linked twice from a
    directory that is part of a cycle: `B = 3`, `R = 9` meet the hypotheses, and the walk finishes -/
example :
    let g : Graph Nat := fun n =>
      match n with
      | 0 => ⟨.dir, some 10, [("a", 1), ("l", 2), ("m", 2)]⟩
      | 1 => ⟨.dir, some 11, [("up", 0), ("l", 2)]⟩
      | 2 => ⟨.dir, none, [("inner", 3), ("again", 3)]⟩
      | 3 => ⟨.dir, none, [("f", 4)]⟩
      | _ => ⟨.file, none, []⟩
    let size : Nat → Nat := fun n => if n = 2 then 9 else if n = 3 then 4 else 0
    (∀ n, n < 5 → (g n).children.length ≤ 3) ∧
    (∀ n, n < 5 → IsLitDir g n → size n ≤ 9) ∧
    (∀ n, n < 5 → ∀ kc ∈ (g n).children, IsLitDir g n → IsLitDir g kc.2 → size kc.2 < size n) ∧
    (traverse g 0 40).2 = true ∧ ((traverse g 0 40).1.filter (· == .enterDir 3)).length = 6 := by
  decide

/-- **(b) Every reachable node is visited.**  When the walk has finished, every node reachable from the root
    by links through directories has been handed to the walker — itself, or (for an object with a verify cap
    that is linked through several caps) a node that is the same object.  Proof: induction along the path,
    from the invariant "every child link of a reported directory is reported, pending, or in `found`" and
    "every verify cap in `found` is reported or pending", with nothing pending at the end. -/
theorem visits_all_reachable (hcons : Consistent g) (root fuel : Nat) (hroot : (g root).kind = .dir)
    (hdone : (traverse g root fuel).2 = true) (n : Nat) (hr : Reach g root n) :
    ∃ m p, Event.addNode m p ∈ (traverse g root fuel).1 ∧ Same g m n :=
  visits_of_inv g hcons root _ (walkInv_run g root hroot fuel) (run_done_stack g fuel _ hdone) n hr

/-- … and nothing else is: every node handed to the walker is reachable from the root. -/
theorem visits_only_reachable (root fuel : Nat) (hroot : (g root).kind = .dir) (m : Nat) (p : Path)
    (h : Event.addNode m p ∈ (traverse g root fuel).1) : Reach g root m :=
  (walkInv_run g root hroot fuel).reachOut m p h

/-- **(c) Each object with a verify cap is visited exactly once**: if a reachable node has verify cap `v`,
    then exactly one `add_node` call is for a node with verify cap `v`. -/
theorem visits_each_object_exactly_once (hcons : Consistent g)
    (hunk : ∀ n, (g n).kind = .unknown → (g n).verifier = none) (root fuel : Nat)
    (hroot : (g root).kind = .dir) (hdone : (traverse g root fuel).2 = true) (n : Nat) (v : V)
    (hr : Reach g root n) (hv : (g n).verifier = some v) :
    (reportedV g (traverse g root fuel).1).count v = 1 := by
  have hnd := at_most_once_per_verifier g hunk root fuel
  have hmem : v ∈ reportedV g (traverse g root fuel).1 := by
    obtain ⟨m, p, hm, hs⟩ := visits_all_reachable g hcons root fuel hroot hdone n hr
    have hmv : (g m).verifier = some v := by
      rcases hs with rfl | ⟨w, h1, h2⟩
      · exact hv
      · rw [hv] at h2; cases h2; exact h1
    exact List.mem_filterMap.mpr ⟨_, hm, hmv⟩
  rw [hnd.count]
  simp [hmem]

/-- **(d) The statistics count each object once.**  The object counters of deep-stats are folds over the
    `add_node` calls (`deepStats`).  For any duplicate-free enumeration `objs` of the verify caps of the
    reachable objects: the reported verify caps are a permutation of `objs`, so the counters of verified
    directories and files are exactly the numbers of such objects — however many links, caps or cycles lead to
    them — and no unknown node is counted as a verified object. -/
theorem stats_count_each_object_once (hcons : Consistent g)
    (hunk : ∀ n, (g n).kind = .unknown → (g n).verifier = none) (root fuel : Nat)
    (hroot : (g root).kind = .dir) (hdone : (traverse g root fuel).2 = true)
    (objs : List V) (hobjs : objs.Nodup)
    (henum : ∀ v, v ∈ objs ↔ ∃ n, Reach g root n ∧ (g n).verifier = some v)
    (kindV : V → Kind) (hkindV : ∀ n v, (g n).verifier = some v → kindV v = (g n).kind) :
    (reportedV g (traverse g root fuel).1).Perm objs ∧
    (deepStats g (traverse g root fuel).1).verifiedDirs = objs.countP (fun v => kindV v == .dir) ∧
    (deepStats g (traverse g root fuel).1).verifiedFiles = objs.countP (fun v => kindV v == .file) := by
  have hperm : (reportedV g (traverse g root fuel).1).Perm objs := by
    rw [List.perm_ext_iff_of_nodup (at_most_once_per_verifier g hunk root fuel) hobjs]
    intro v
    constructor
    · intro hv
      obtain ⟨e, he, hev⟩ := List.mem_filterMap.mp hv
      cases e with
      | enterDir n => simp at hev
      | addNode m p =>
        exact (henum v).mpr ⟨m, visits_only_reachable g root fuel hroot m p he, hev⟩
    · intro hv
      obtain ⟨n, hr, hnv⟩ := (henum v).mp hv
      obtain ⟨m, p, hm, hs⟩ := visits_all_reachable g hcons root fuel hroot hdone n hr
      have hmv : (g m).verifier = some v := by
        rcases hs with rfl | ⟨w, h1, h2⟩
        · exact hnv
        · rw [hnv] at h2; cases h2; exact h1
      exact List.mem_filterMap.mpr ⟨_, hm, hmv⟩
  refine ⟨hperm, ?_, ?_⟩
  · simp only [deepStats]
    rw [countNodes_verified g kindV hkindV]
    exact hperm.countP_eq _
  · simp only [deepStats]
    rw [countNodes_verified g kindV hkindV]
    exact hperm.countP_eq _

/-- **(d, continued) Literal files, literal directories and unknown nodes are counted once per link**, as the
    code does (they are never entered into `found`).  When the walk has finished:
    every link of a reported directory to a node without verify cap has its own `add_node` call, at the path of
    that link; every `add_node` call for a node without verify cap (other than the root) comes from such a
    link; and no two `add_node` calls have the same path — so these calls correspond one-to-one to the links. -/
theorem literal_reported_per_link (hnames : ∀ n, ((g n).children.map (·.1)).Nodup) (root fuel : Nat)
    (hroot : (g root).kind = .dir) (hdone : (traverse g root fuel).2 = true) :
    (∀ m p name c, Event.addNode m p ∈ (traverse g root fuel).1 → (g m).kind = .dir →
        (name, c) ∈ (g m).children → (g c).verifier = none →
        Event.addNode c (p ++ [name]) ∈ (traverse g root fuel).1) ∧
    (∀ c q, Event.addNode c q ∈ (traverse g root fuel).1 →
        (q = [] ∧ c = root) ∨ ∃ m p name, q = p ++ [name] ∧ Event.addNode m p ∈ (traverse g root fuel).1 ∧
          (g m).kind = .dir ∧ (name, c) ∈ (g m).children) ∧
    ((traverse g root fuel).1.filterMap evPath).Nodup := by
  have inv := walkInv_run g root hroot fuel
  have hstack := run_done_stack g fuel _ hdone
  refine ⟨?_, ?_, ?_⟩
  · intro m p name c hm hk hc hlit
    rcases inv.closure m p hm hk name c hc with h1 | h1 | ⟨v, hv, _⟩
    · exact h1
    · rw [hstack] at h1; cases h1
    · rw [hlit] at hv; cases hv
  · intro c q hm
    exact inv.provOut c q hm
  · have := inv.pathsNodup hnames
    unfold allPaths at this
    rw [hstack] at this
    have h2 : (traverse g root fuel).1 = (run g fuel (init g root)).1.out := rfl
    rw [h2]
    simpa using this

/-- **Traversals that run at the same time do not disturb each other.**  Any number of traversals — of the same
    root or of different ones — may be in progress in one process, their directory visits interleaved in any order
    (`sched` says whose turn it is): each has its own `found` set, stack and walker, and listing a directory only
    reads the graph.  A traversal that alone finishes within `fuel` visits and gets at least that many turns ends
    with exactly the report it produces alone — so every theorem above holds for each of them. -/
theorem concurrent_traversals_independent (roots : Nat → Nat) (sched : List Nat) (i fuel : Nat)
    (hdone : (traverse g (roots i) fuel).2 = true) (hturns : fuel ≤ sched.count i) :
    (multiRun g sched (fun j => init g (roots j)) i).out = (traverse g (roots i) fuel).1 ∧
    (multiRun g sched (fun j => init g (roots j)) i).stack = [] := by
  rw [multiRun_component]
  have h := iter_after_done g fuel (sched.count i) (init g (roots i)) hdone hturns
  rw [h]
  exact ⟨rfl, run_done_stack g fuel _ hdone⟩

/-- three traversals of `demo` (two from the root, one from directory 3) under an irregular schedule -/
example :
    let f := multiRun demo [0, 1, 1, 2, 0, 2, 2, 1, 0, 0, 1, 2, 2, 0, 1] (fun j => init demo (if j = 2 then 3 else 0))
    (f 0).out = (traverse demo 0 6).1 ∧ (f 1).out = (traverse demo 0 6).1 ∧ (f 2).out = (traverse demo 3 6).1 ∧
    (traverse demo 3 6).2 = true := by decide

/-- the walk on `demo`: every object once, the literal file once per link, finished after 4 directory visits;
    and `demo` meets every hypothesis of the theorems above (with `U` = its five verify caps, `cost = 1`) -/
example :
    traverse demo 0 6 =
      ([.addNode 0 [], .enterDir 0, .addNode 5 ["lit"],
        .addNode 1 ["a"], .enterDir 1,
        .addNode 3 ["a", "x"], .enterDir 3, .addNode 4 ["a", "x", "f"], .addNode 5 ["a", "x", "l1"],
        .addNode 5 ["a", "x", "l2"],
        .addNode 2 ["b"], .enterDir 2], true) ∧
    deepStats demo (traverse demo 0 6).1 = ⟨4, 0, 1, 3, 0⟩ ∧
    (demo 0).kind = .dir ∧
    (∀ n, (demo n).kind = .unknown → (demo n).verifier = none) ∧
    (∀ n, ((demo n).children.map (·.1)).Nodup) ∧
    Consistent demo ∧
    (∀ n v, (demo n).verifier = some v → v ∈ [10, 11, 12, 13, 14]) ∧
    (∀ n name c, (name, c) ∈ (demo n).children → ¬ ((demo c).kind = .dir ∧ (demo c).verifier = none)) := by
  have small : ∀ (P : Nat → Prop), (∀ n, n < 6 → P n) → (∀ n, 6 ≤ n → P n) → ∀ n, P n := by
    intro P h1 h2 n
    rcases Nat.lt_or_ge n 6 with h | h
    · exact h1 n h
    · exact h2 n h
  refine ⟨by decide, by decide, rfl, ?_, ?_, ?_, ?_, ?_⟩
  · apply small
    · decide
    · intro n hn; rw [demo_big n hn]; intro h; cases h
  · apply small
    · decide
    · intro n hn; rw [demo_big n hn]; simp
  · intro a b v ha hb
    have hab : a = b := by
      have ha6 : a < 6 := by
        rcases Nat.lt_or_ge a 6 with h | h
        · exact h
        · rw [demo_big a h] at ha; cases ha
      have hb6 : b < 6 := by
        rcases Nat.lt_or_ge b 6 with h | h
        · exact h
        · rw [demo_big b h] at hb; cases hb
      have key : ∀ a, a < 6 → ∀ b, b < 6 → (demo a).verifier.isSome = true →
          (demo a).verifier = (demo b).verifier → a = b := by decide
      exact key a ha6 b hb6 (by simp [ha]) (by rw [ha, hb])
    subst hab
    exact ⟨rfl, fun name c hc => ⟨c, hc, Or.inl rfl⟩⟩
  · apply small
    · decide
    · intro n hn v h; rw [demo_big n hn] at h; cases h
  · apply small
    · have key : ∀ n, n < 6 → ∀ kc ∈ (demo n).children,
          ¬ ((demo kc.2).kind = .dir ∧ (demo kc.2).verifier = none) := by decide
      intro n hn name c hc
      exact key n hn (name, c) hc
    · intro n hn name c hc; rw [demo_big n hn] at hc; cases hc

end
end Tahoe.C21
