import Tahoe.Uri.LemmasCaps
import Tahoe.Generated.Uri
/-! C15 — capability strings round-trip and parse canonically (`uri.py`).

The model (`Tahoe/Uri/Grammar.lean`, `Caps.lean`) is the grammar with the two repairs of
`/verif/fixes/C15-canonical-numbers.diff` and `/verif/fixes/C15-chk-verifier-anchor.diff` applied;
the `pattern_*` theorems below pin the regex source texts extracted from the working tree to the
model's pattern data, so on an unrepaired tree `pattern_CHK` and `pattern_CHKV` fail by name.

`print_parse` at full strength ("an accepted string re-serializes to exactly itself, apart from MDMF
extension fields") is FALSE of the code and of the model: every `$`-anchored pattern also accepts one
trailing "\n" (known finding `trailing-newline`).  It is replaced by the witness
`print_parse_counterexample` and by `print_parse_partial` (guard: the input does not end in "\n").
Throughout, an accepted string is compared after removing the single alleged prefix `ro.`/`imm.`
that `from_string` consumes as context (`allegedBody`).
-/
namespace Tahoe.C15
open Tahoe.Uri
open Tahoe.Generated

set_option maxRecDepth 100000

/-! ### the regex source texts, prefixes and dispatch order of the working tree -/

theorem pattern_CHK : render (filePrefix .chk) (spec .chk) = Uri.RE_CHK := by decide
theorem pattern_CHKV : render (filePrefix .chkV) (spec .chkV) = Uri.RE_CHKV := by decide
theorem pattern_LIT : render (filePrefix .lit) (spec .lit) = Uri.RE_LIT := by decide
theorem pattern_SSK : render (filePrefix .ssk) (spec .ssk) = Uri.RE_SSK := by decide
theorem pattern_SSKRO : render (filePrefix .sskRo) (spec .sskRo) = Uri.RE_SSKRO := by decide
theorem pattern_SSKV : render (filePrefix .sskV) (spec .sskV) = Uri.RE_SSKV := by decide
theorem pattern_MDMF : render (filePrefix .mdmf) (spec .mdmf) = Uri.RE_MDMF := by decide
theorem pattern_MDMFRO : render (filePrefix .mdmfRo) (spec .mdmfRo) = Uri.RE_MDMFRO := by decide
theorem pattern_MDMFV : render (filePrefix .mdmfV) (spec .mdmfV) = Uri.RE_MDMFV := by decide

/-- no MULTILINE / DOTALL / IGNORECASE: `^` only at offset 0, `$` only at the end or before a final newline -/
theorem pattern_flags :
    [Uri.RE_FLAGS_CHK, Uri.RE_FLAGS_CHKV, Uri.RE_FLAGS_LIT, Uri.RE_FLAGS_SSK, Uri.RE_FLAGS_SSKRO, Uri.RE_FLAGS_SSKV,
     Uri.RE_FLAGS_MDMF, Uri.RE_FLAGS_MDMFRO, Uri.RE_FLAGS_MDMFV] = [0, 0, 0, 0, 0, 0, 0, 0, 0] := by decide

/-- `BASE_STRING` of the nine file classes -/
theorem file_prefixes :
    FileKind.all.map filePrefix = [Uri.BASE_CHK, Uri.BASE_CHKV, Uri.BASE_LIT, Uri.BASE_SSK, Uri.BASE_SSKRO, Uri.BASE_SSKV,
      Uri.BASE_MDMF, Uri.BASE_MDMFRO, Uri.BASE_MDMFV] := by decide

/-- `BASE_STRING` of the nine directory classes (indexed by their INNER_URI_CLASS), their
`BASE_STRING_RE` = `^` + BASE_STRING, and the INNER_URI_CLASS assignment itself -/
theorem dir_prefixes :
    FileKind.all.map dirPrefix = [Uri.DIR_BASE_CHK, Uri.DIR_BASE_CHKV, Uri.DIR_BASE_LIT, Uri.DIR_BASE_SSK, Uri.DIR_BASE_SSKRO,
      Uri.DIR_BASE_SSKV, Uri.DIR_BASE_MDMF, Uri.DIR_BASE_MDMFRO, Uri.DIR_BASE_MDMFV] ∧
    FileKind.all.map (fun k => 94 :: dirPrefix k) = [Uri.DIR_RE_CHK, Uri.DIR_RE_CHKV, Uri.DIR_RE_LIT, Uri.DIR_RE_SSK,
      Uri.DIR_RE_SSKRO, Uri.DIR_RE_SSKV, Uri.DIR_RE_MDMF, Uri.DIR_RE_MDMFRO, Uri.DIR_RE_MDMFV] ∧
    [Uri.DIR_INNER_CHK, Uri.DIR_INNER_CHKV, Uri.DIR_INNER_LIT, Uri.DIR_INNER_SSK, Uri.DIR_INNER_SSKRO, Uri.DIR_INNER_SSKV,
      Uri.DIR_INNER_MDMF, Uri.DIR_INNER_MDMFRO, Uri.DIR_INNER_MDMFV] =
    [[67, 72, 75], [67, 72, 75, 86], [76, 73, 84], [83, 83, 75], [83, 83, 75, 82, 79], [83, 83, 75, 86],
     [77, 68, 77, 70], [77, 68, 77, 70, 82, 79], [77, 68, 77, 70, 86]] := by decide

/-- `ro.` / `imm.` and the base32 alphabet -/
theorem alleged_prefixes :
    roPrefix = Uri.ALLEGED_READONLY_PREFIX ∧ immPrefix = Uri.ALLEGED_IMMUTABLE_PREFIX ∧ clsB32 = Uri.BASE32_CHARS := by
  decide

/-- the literals `from_string` tests with `startswith`, in source order -/
theorem dispatch_order : dispatchTable.map (·.1) = Uri.DISPATCH_ORDER := by decide

/-! ### parse ∘ print -/

/-- Every well-formed capability object of every kind (9 file kinds, 9 directory kinds) serializes
to a string that parses back to the *same* object (same kind, same fields), in every context that
admits the kind. -/
theorem parse_print (deep : Bool) (c : Cap) (hwf : c.wf = true) (hctx : ctxAllows deep c.tailKind = true) :
    ∃ s, c.toString = some s ∧ fromString deep s = c :=
  fromString_toString deep c hwf hctx

/-- in the default context (`deep_immutable=False`) there is no side condition -/
theorem parse_print_default (c : Cap) (hwf : c.wf = true) : ∃ s, c.toString = some s ∧ fromString false s = c :=
  fromString_toString false c hwf (ctxAllows_false _)

example : ∃ s, (Cap.dir .chk (.chk (List.replicate 16 7) (List.replicate 32 9) 3 10 (2 ^ 70))).toString = some s ∧
    fromString true s = Cap.dir .chk (.chk (List.replicate 16 7) (List.replicate 32 9) 3 10 (2 ^ 70)) :=
  parse_print true _ (by decide) (by decide)

/-! ### strings outside the grammar -/

/-- Every string accepted as a known capability is — after its alleged prefix — the canonical text of
the returned (well-formed) capability itself, followed by nothing, by one "\n", or (MDMF kinds only)
by ":" and an extension.  So a string is never read as a capability other than the one it spells. -/
theorem accepted_is_own_text (deep : Bool) (u : Bytes) (c : Cap) (h : fromString deep u = c) (hk : c.isKnown = true) :
    c.wf = true ∧ ∃ base tail, c.toString = some base ∧ allegedBody u = base ++ tail ∧ tailOk c.tailKind tail :=
  fromString_known deep u c h hk

/-- Strings outside the grammar (not of the form canonical-text ++ permitted-tail for any well-formed
capability) are reported as `UnknownURI` carrying the original string. -/
theorem unknown_outside (deep : Bool) (u : Bytes)
    (hout : ¬ ∃ c : Cap, c.wf = true ∧ ∃ base tail, c.toString = some base ∧ allegedBody u = base ++ tail ∧
      tailOk c.tailKind tail) :
    ∃ e, fromString deep u = .unknown u e := by
  cases hc : fromString deep u with
  | unknown u' e =>
    exact ⟨e, by rw [fromString_unknown_keeps deep u u' e hc]⟩
  | file f => exact absurd ⟨_, fromString_known deep u _ hc rfl⟩ hout
  | dir dk f => exact absurd ⟨_, fromString_known deep u _ hc rfl⟩ hout

example : fromString false [85, 82, 73, 58, 76, 73, 84, 58, 98] = .unknown [85, 82, 73, 58, 76, 73, 84, 58, 98] (some .badURI) := by
  decide   -- "URI:LIT:b": a lone base32 character is not an encoding of any byte string

/-! ### print ∘ parse -/

/-- FULL STATEMENT (false): `fromString deep u = c → c.isKnown → c.toString = some (allegedBody u) ∨ <MDMF extension>`.
Witness: `URI:LIT:\n` is accepted as `LiteralFileURI(b"")`, whose text is `URI:LIT:`. -/
theorem print_parse_counterexample :
    ∃ (u : Bytes) (c : Cap), fromString false u = c ∧ c.isKnown = true ∧ c.toString ≠ some (allegedBody u) ∧
      ¬ isMdmfKind c.tailKind := by
  refine ⟨[85, 82, 73, 58, 76, 73, 84, 58, 10], .file (.lit []), by decide, rfl, by decide, ?_⟩
  simp [isMdmfKind, Cap.tailKind, FileCap.kind]

/-- The same for a mutable write cap: `URI:SSK:<26 a's>:<52 a's>\n` is accepted and printed without the newline. -/
theorem print_parse_counterexample_ssk :
    let s := filePrefix .ssk ++ List.replicate 26 97 ++ [58] ++ List.replicate 52 97
    fromString false (s ++ [10]) = .file (.ssk (List.replicate 16 0) (List.replicate 32 0)) ∧
    (Cap.file (.ssk (List.replicate 16 0) (List.replicate 32 0))).toString = some s := by
  decide

/-- Any accepted string that does not end in a newline re-serializes to exactly itself (after the
alleged prefix), apart from the `:`-introduced extension of the MDMF kinds. -/
theorem print_parse_partial (deep : Bool) (u : Bytes) (c : Cap) (h : fromString deep u = c) (hk : c.isKnown = true)
    (hnl : u.getLast? ≠ some 10) :
    c.toString = some (allegedBody u) ∨
    (isMdmfKind c.tailKind ∧ ∃ base r, c.toString = some base ∧ allegedBody u = base ++ 58 :: r) := by
  obtain ⟨_, base, tail, hb, hu, ht⟩ := fromString_known deep u c h hk
  rcases ht with rfl | rfl | ⟨hm, r, rfl⟩
  · left; rw [hb, hu, List.append_nil]
  · exfalso
    apply hnl
    have hl : (allegedBody u).getLast? = some 10 := by rw [hu]; simp
    have hne : allegedBody u ≠ [] := by rw [hu]; simp
    simp only [allegedBody] at hl hne
    split at hl
    · rw [List.getLast?_drop] at hl; split at hl <;> simp_all
    · split at hl
      · rw [List.getLast?_drop] at hl; split at hl <;> simp_all
      · exact hl
  · right; exact ⟨hm, base, r, hb, hu⟩

example : fromString false (roPrefix ++ filePrefix .lit ++ [109, 121]) = .file (.lit [0x66]) ∧
    (Cap.file (.lit [0x66])).toString = some (allegedBody (roPrefix ++ filePrefix .lit ++ [109, 121])) := by decide

/-! ### the two repaired defects, as witnesses on the patterns exactly as written -/

/-- `CHKFileVerifierURI.STRING_RE` as written has no `$`: trailing junk is accepted and dropped. -/
theorem asWritten_chk_verifier_junk :
    let s := filePrefix .chkV ++ List.replicate 26 97 ++ [58] ++ List.replicate 52 97 ++ [58, 51, 58, 49, 48, 58, 53]
    fromStringAsWritten false (s ++ [106, 117, 110, 107]) = .file (.chkV (List.replicate 16 0) (List.replicate 32 0) 3 10 5) ∧
    (Cap.file (.chkV (List.replicate 16 0) (List.replicate 32 0) 3 10 5)).toString = some s ∧
    fromString false (s ++ [106, 117, 110, 107]) = .unknown (s ++ [106, 117, 110, 107]) (some .badURI) := by
  decide

/-- `NUMBER = ([0-9]+)` as written accepts leading zeros, which `%d` does not reproduce. -/
theorem asWritten_leading_zeros :
    let p := filePrefix .chk ++ List.replicate 26 97 ++ [58] ++ List.replicate 52 97
    fromStringAsWritten false (p ++ [58, 48, 51, 58, 49, 48, 58, 53]) = .file (.chk (List.replicate 16 0) (List.replicate 32 0) 3 10 5) ∧
    (Cap.file (.chk (List.replicate 16 0) (List.replicate 32 0) 3 10 5)).toString = some (p ++ [58, 51, 58, 49, 48, 58, 53]) ∧
    fromString false (p ++ [58, 48, 51, 58, 49, 48, 58, 53]) = .unknown (p ++ [58, 48, 51, 58, 49, 48, 58, 53]) (some .badURI) := by
  decide

end Tahoe.C15
