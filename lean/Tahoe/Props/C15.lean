import Tahoe.Uri.Caps
import Tahoe.Generated.Uri
namespace Tahoe.C15
open Tahoe.Uri
theorem stub : (1:Nat) = 1 := rfl
end Tahoe.C15
