import Tahoe.Mutable.RaceLemmas
import Tahoe.Mutable.ServerMap
/-! C12 — concurrent writers are detected, never silently clobbered (property theorems; helper lemmas live
    in `Tahoe/Mutable/RaceLemmas.lean`).  Schedules are arbitrary lists of atomic server operations of
    any number of writers. -/
/-!
## Coverage of the statement (properties.jsonl C12)

| clause of the statement | theorem(s) |
|---|---|
| "each server write succeeds only if the share still holds the version the publisher saw (or does not exist yet)" | `write_only_if_unchanged` (a write changes the slot only if it equals the writer's belief, `none` = must not exist; nothing else changes), `view_is_survey_or_own_write` (the belief comes only from the writer's own survey of that server or its own successful write) — every schedule, any number of writers |
| "no publisher overwrites a share that changed after its survey without noticing … a publisher that meets a different version reports an uncoordinated-write error" | `surprise_reported` (failed test vector or foreign surprise share at any point ⇒ `UncoordinatedWriteError`, whatever happens before and after); error class at the bookkeeping level: C47 `refused_or_surprising_write_is_ucw` |
| "In every interleaving where no writer stops midway and (writers + 1) × k ≤ N, at least one version (old or new) remains recoverable" | `some_version_recoverable` ((old versions + W)·k ≤ N, every share number present or attempted), `some_version_recoverable_one_old` (the statement's form) |
| MDMF multi-write guarded by its own checkstring | in the model (`seen` := own version after a successful write; `view_is_survey_or_own_write`); the code base sends one request per share, so only the single-write case is exercised by correspondence |
| retry with backoff (`MutableFileVersion._modify_and_retry`), i.e. that concurrent `modify()` calls converge without losing a reported edit | NOT a theorem: false for the code as it is — `modify_convergence_counterexample` (negation witness on the model; open finding in known_findings.d/C12.json); the stale-pinned-version defect of the retry loop is repaired in /repo (3e3100d) and is monitored on the grid |
| test vector a new-share write carries is "must not exist" | `new_share_write_must_not_exist` (a slot the writer never surveyed nor wrote: lands only if still empty, otherwise refused and reported), tied by the test-vector kind of every recorded write vs the model's expectation; the wire form of that vector (`(0, 1, eq, b"")` through `storage_client._StorageServer`, and the server's verdict on it) is modelled and proved in C47 `wire_testv_guards` and tied by C47's `testv` cases |
-/
namespace Tahoe.C12
open Tahoe.Mutable.Race

/-- 2-of-4, one server per share; writers 0 and 1 publish versions 1 and 2 over the old version 0 -/
def cfgEx : Cfg :=
  { nsh := 4, k := 2, ver := fun w => w + 1, goal := fun _ => [(0, 0), (1, 1), (2, 2), (3, 3)],
    expect := fun w => some (w + 1) }
def oldStore : Slot → Option Ver := fun s => if s.1 = s.2 ∧ s.2 < 4 then some 0 else none
/-- both survey everything, then their writes interleave: writer 0 wins shares 0 and 1, writer 1 wins 2, 3 -/
def schedEx : List Ev :=
  [.survey 0 0, .survey 0 1, .survey 0 2, .survey 0 3, .survey 1 0, .survey 1 1, .survey 1 2, .survey 1 3,
   .write 0 (0, 0), .write 1 (2, 2), .write 0 (1, 1), .write 1 (3, 3),
   .write 1 (0, 0), .write 0 (2, 2), .write 1 (1, 1), .write 0 (3, 3)]

/-- A server write changes a share only if the share still holds what the writer believes it holds — and
    it changes nothing else.  What a writer believes is pinned down by `view_is_survey_or_own_write`. -/
theorem write_only_if_unchanged (cfg : Cfg) (st : St) (w : Nat) (slot : Slot) :
    ((step cfg st (.write w slot)).store ≠ st.store → st.store slot = st.seen w slot) ∧
    (∀ s, s ≠ slot → (step cfg st (.write w slot)).store s = st.store s) ∧
    (st.store slot ≠ st.seen w slot → (step cfg st (.write w slot)).store = st.store) := by
  refine ⟨fun hne => ?_, fun s hs => ?_, fun hne => ?_⟩
  · apply Classical.byContradiction
    intro h
    apply hne
    simp only [step, h, if_false]
  · simp only [step]
    split
    · exact upd_other _ _ _ _ hs
    · rfl
  · simp only [step, hne, if_false]

example : (run cfgEx (St.init oldStore) schedEx).store (0, 0) = some 1 ∧
    (run cfgEx (St.init oldStore) schedEx).store (2, 2) = some 2 := by decide

/-- A writer's belief about a slot changes only through its own survey of that slot's server (to what the
    server holds at that moment; "no share" if the server has none) or through its own successful write
    (to its own new version — the multi-write guard of `MDMFSlotWriteProxy._write`).  Other writers'
    operations never change it; so a successful write means: unchanged since this writer's survey or since
    its own last write, or — for a share it never saw — still absent. -/
theorem view_is_survey_or_own_write (cfg : Cfg) (st : St) (e : Ev) (w : Nat) (slot : Slot) :
    (step cfg st e).seen w slot = st.seen w slot ∨
    (∃ srv, e = .survey w srv ∧ slot.1 = srv ∧ (step cfg st e).seen w slot = st.store slot) ∨
    (e = .write w slot ∧ st.store slot = st.seen w slot ∧ (step cfg st e).seen w slot = some (cfg.ver w)) := by
  cases e with
  | survey w' srv =>
    simp only [step]
    split
    · left; rfl
    · by_cases hw : w = w'
      · subst hw
        by_cases hs : slot.1 = srv
        · right; left; exact ⟨srv, rfl, hs, by simp [upd, hs]⟩
        · left; simp [upd, hs]
      · left; simp [upd, hw]
  | write w' sl =>
    simp only [step]
    split
    · rename_i heq
      by_cases hw : w = w'
      · subst hw
        by_cases hs : slot = sl
        · subst hs; right; right; exact ⟨rfl, heq, by simp [upd]⟩
        · left; simp [upd, hs]
      · left; simp [upd, hw]
    · left; rfl

example : (run cfgEx (St.init oldStore) (schedEx.take 9)).seen 0 (0, 0) = some 1 ∧
    (run cfgEx (St.init oldStore) (schedEx.take 9)).seen 1 (0, 0) = some 0 := by decide

/-- A writer that meets a different version reports it: if at any point of any schedule one of its writes
    finds the share different from what it believes (the test vector fails), or an answer shows an
    unexpected share with a foreign checkstring, its publish ends in `UncoordinatedWriteError` — whatever
    happens before and after. -/
theorem surprise_reported (cfg : Cfg) (st0 : St) (pre post : List Ev) (w : Nat) (slot : Slot)
    (h : (run cfg st0 pre).store slot ≠ (run cfg st0 pre).seen w slot ∨
         isSurprise cfg (run cfg st0 pre) w slot = true) :
    outcome cfg (run cfg st0 (pre ++ .write w slot :: post)) w = .uncoordinatedWrite := by
  rw [run_append]
  show outcome cfg (run cfg (step cfg (run cfg st0 pre) (.write w slot)) post) w = .uncoordinatedWrite
  have hflag : (step cfg (run cfg st0 pre) (.write w slot)).refused w = true ∨
      (step cfg (run cfg st0 pre) (.write w slot)).surprised w = true := by
    rcases h with h | h
    · left; simp only [step, h, if_false]; simp [upd]
    · right
      simp only [step]
      split <;> simp [upd, h]
  unfold outcome
  rcases hflag with hf | hf
  · rw [run_refused_mono cfg _ post w hf]; simp
  · rw [run_surprised_mono cfg _ post w hf]; simp

example : outcome cfgEx (run cfgEx (St.init oldStore) schedEx) 0 = .uncoordinatedWrite ∧
    outcome cfgEx (run cfgEx (St.init oldStore) schedEx) 1 = .uncoordinatedWrite := by decide

/-- …and a writer nobody interfered with succeeds -/
example : outcome cfgEx (run cfgEx (St.init oldStore) (schedEx.filter (fun e => match e with
    | .survey w _ => w == 0 | .write w _ => w == 0))) 0 = .success := by decide

/-- Pigeonhole: let every share initially present hold one of the versions `olds`, let `W` writers publish
    (any schedule of surveys and conditional writes, before which nobody has surveyed), and let every share
    number below `N` (`N ≥ 1`) be present initially or be attempted by some writer (every writer that runs to
    completion attempts all `N`).  If `(|olds| + W) · k ≤ N` then at the end some version — old or new — is
    held by at least `k` distinct share numbers.  (Every share write in this code base writes a whole share,
    so a share holds exactly one whole version.) -/
theorem some_version_recoverable (cfg : Cfg) (store0 : Slot → Option Ver) (evs : List Ev) (olds : List Ver)
    (W N k : Nat) (hN : 0 < N)
    (hold : ∀ slot v, store0 slot = some v → v ∈ olds)
    (hcomplete : ∀ sh, sh < N → (∃ srv, store0 (srv, sh) ≠ none) ∨ ∃ w srv, Ev.write w (srv, sh) ∈ evs)
    (hW : ∀ e ∈ evs, ∀ w slot, e = Ev.write w slot → w < W)
    (hbound : (olds.length + W) * k ≤ N) :
    ∃ v, (v ∈ olds ∨ ∃ w, w < W ∧ v = cfg.ver w) ∧ ∃ shs : List Nat, shs.Nodup ∧ k ≤ shs.length ∧
      ∀ sh ∈ shs, sh < N ∧ ∃ srv, (run cfg (St.init store0) evs).store (srv, sh) = some v := by
  -- writers ≥ W never write, so their version ids are irrelevant: remap them to writer 0's … simpler: use
  -- the version list olds ++ map ver (range W) and show every stored version lies in it
  let vers := olds ++ (List.range W).map cfg.ver
  let fin := run cfg (St.init store0) evs
  have hseen0 : SeenPop (St.init store0) := fun w slot h => absurd rfl h
  -- every stored version is in `vers`
  have hvers : ∀ slot v, fin.store slot = some v → v ∈ vers := by
    -- invariant along the run, using that only writers < W write
    have key : ∀ (l : List Ev) (st : St), (∀ e ∈ l, ∀ w slot, e = Ev.write w slot → w < W) →
        VersIn vers st → VersIn vers (run cfg st l) := by
      intro l
      induction l with
      | nil => intro st _ h; exact h
      | cons e l ih =>
        intro st hl h
        apply ih _ (fun e' he' => hl e' (List.mem_cons_of_mem _ he'))
        intro slot v hs
        cases e with
        | survey w s => rw [step_survey_store] at hs; exact h slot v hs
        | write w sl =>
          have hw := hl _ List.mem_cons_self w sl rfl
          simp only [step] at hs
          split at hs
          · simp only [upd] at hs
            split at hs
            · simp only [Option.some.injEq] at hs
              rw [← hs]
              exact List.mem_append_right _ (List.mem_map.mpr ⟨w, List.mem_range.mpr hw, rfl⟩)
            · exact h slot v hs
          · exact h slot v hs
    exact key evs _ hW (fun slot v hs => List.mem_append_left _ (hold slot v hs))
  have hlen : vers.length * k ≤ (List.range N).length := by
    simp only [vers, List.length_append, List.length_map, List.length_range]; exact hbound
  by_cases hne : vers = []
  · -- no candidate version at all contradicts share number 0 being populated
    exfalso
    rcases hcomplete 0 hN with ⟨srv, hs⟩ | ⟨w, srv, hm⟩
    · cases hv : store0 (srv, 0) with
      | none => exact hs hv
      | some v =>
        have := List.mem_append_left ((List.range W).map cfg.ver) (hold _ v hv)
        rw [show olds ++ (List.range W).map cfg.ver = [] from hne] at this; simp at this
    · have hpop := attempted_populated cfg _ evs w (srv, 0) hseen0 hm
      cases hv : fin.store (srv, 0) with
      | none => exact hpop hv
      | some v => have := hvers _ v hv; rw [hne] at this; simp at this
  · obtain ⟨v, hv, shs, hnd, hkk, hall⟩ :=
      pigeonhole (fun v sh => ∃ srv, fin.store (srv, sh) = some v) k vers (List.range N) hne
        List.nodup_range
        (by
          intro sh hsh
          have hlt := List.mem_range.mp hsh
          have hpop : ∃ srv, fin.store (srv, sh) ≠ none := by
            rcases hcomplete sh hlt with ⟨srv, hs⟩ | ⟨w, srv, hm⟩
            · exact ⟨srv, run_store_populated cfg _ evs _ hs⟩
            · exact ⟨srv, attempted_populated cfg _ evs w (srv, sh) hseen0 hm⟩
          obtain ⟨srv, hs⟩ := hpop
          cases hv : fin.store (srv, sh) with
          | none => exact absurd hv hs
          | some v => exact ⟨v, hvers _ v hv, srv, hv⟩)
        hlen
    refine ⟨v, ?_, shs, hnd, hkk, fun sh hsh => ⟨List.mem_range.mp (hall sh hsh).1, (hall sh hsh).2⟩⟩
    rcases List.mem_append.mp hv with h | h
    · exact Or.inl h
    · obtain ⟨w, hw, rfl⟩ := List.mem_map.mp h
      exact Or.inr ⟨w, List.mem_range.mp hw, rfl⟩

/-- the statement's form: one old version, `W` writers, `(W + 1) · k ≤ N` -/
theorem some_version_recoverable_one_old (cfg : Cfg) (store0 : Slot → Option Ver) (evs : List Ev) (old : Ver)
    (W N k : Nat) (hN : 0 < N)
    (hold : ∀ slot v, store0 slot = some v → v = old)
    (hcomplete : ∀ sh, sh < N → (∃ srv, store0 (srv, sh) ≠ none) ∨ ∃ w srv, Ev.write w (srv, sh) ∈ evs)
    (hW : ∀ e ∈ evs, ∀ w slot, e = Ev.write w slot → w < W)
    (hbound : (W + 1) * k ≤ N) :
    ∃ v, (v = old ∨ ∃ w, w < W ∧ v = cfg.ver w) ∧ ∃ shs : List Nat, shs.Nodup ∧ k ≤ shs.length ∧
      ∀ sh ∈ shs, sh < N ∧ ∃ srv, (run cfg (St.init store0) evs).store (srv, sh) = some v := by
  obtain ⟨v, hv, rest⟩ := some_version_recoverable cfg store0 evs [old] W N k hN
    (fun slot v h => by rw [hold slot v h]; exact List.mem_cons_self) hcomplete hW
    (by simpa [Nat.add_comm] using hbound)
  refine ⟨v, ?_, rest⟩
  rcases hv with h | h
  · left; simpa using h
  · right; exact h

/-- the example schedule meets the hypotheses with W = 2, N = 4, k = 1 (3 · 1 ≤ 4); with k = 2 the bound
    fails (3 · 2 > 4) and indeed no version ends with two shares… here each new version ends with exactly 2 -/
example : (∀ slot v, oldStore slot = some v → v = 0) ∧ (∀ sh, sh < 4 → ∃ srv, oldStore (srv, sh) ≠ none) ∧
    (∀ e ∈ schedEx, ∀ w slot, e = Ev.write w slot → w < 2) := by
  refine ⟨fun slot v h => ?_, fun sh hsh => ⟨sh, by simp [oldStore, hsh]⟩, ?_⟩
  · simp only [oldStore] at h
    split at h <;> simp_all
  · intro e he w slot hw
    subst hw
    simp only [schedEx, List.mem_cons, Ev.write.injEq, reduceCtorEq, false_or, List.not_mem_nil, or_false] at he
    omega

/-- A share the writer places for the first time — it never surveyed that server and never wrote that slot, in any
    schedule from the start — carries the "must not exist" test: the write lands only if the slot is still empty; if
    another writer has put a share there meanwhile it is refused, nothing changes, and the writer is marked refused
    (hence `UncoordinatedWriteError`, by `surprise_reported`). -/
theorem new_share_write_must_not_exist (cfg : Cfg) (store0 : Slot → Option Ver) (pre : List Ev) (w : Nat) (slot : Slot)
    (hev : ∀ e ∈ pre, e ≠ .survey w slot.1 ∧ e ≠ .write w slot) :
    let st := run cfg (St.init store0) pre
    st.seen w slot = none ∧
    (st.store slot = none → (step cfg st (.write w slot)).store slot = some (cfg.ver w)) ∧
    (st.store slot ≠ none → (step cfg st (.write w slot)).store = st.store ∧
      (step cfg st (.write w slot)).refused w = true) := by
  intro st
  have hnone : st.seen w slot = none := run_seen_none cfg _ pre w slot rfl hev
  refine ⟨hnone, fun hempty => ?_, fun hfull => ?_⟩
  · simp only [step, hempty, hnone, if_true]; simp [upd]
  · have hne : ¬ st.store slot = st.seen w slot := by rw [hnone]; exact hfull
    constructor
    · simp only [step, hne, if_false]
    · simp only [step, hne, if_false]; simp [upd]

/-- two writers place the lost share 3 on server 0 without having surveyed it: the first lands, the second is refused -/
example :
    let cfg : Cfg := { cfgEx with goal := fun _ => [(0, 3)] }
    (run cfg (St.init oldStore) [.write 0 (0, 3)]).store (0, 3) = some 1 ∧
    (run cfg (St.init oldStore) [.write 0 (0, 3), .write 1 (0, 3)]).store (0, 3) = some 1 ∧
    outcome cfg (run cfg (St.init oldStore) [.write 0 (0, 3), .write 1 (0, 3)]) 1 = .uncoordinatedWrite := by decide

/-! ### the open finding (known_findings.d/C12.json) as a theorem about the model of the code as it is

`modify()` = survey, take the best recoverable version of that survey (`ServerMap.best_recoverable_version`),
publish `f(contents)` under `highest_seqnum()+1`, and on `UncoordinatedWriteError` survey again and retry.  The
publish-level theorems above all hold in the run below, and yet a successfully reported edit disappears: the
first attempt of writer A surveys while B is half-way, sees B's version on fewer than `k` shares
(`unrecoverable_newer_versions()` is non-empty), publishes anyway from the older version, is refused on most
shares but leaves `k` shares of its stale-based, highest-seqnum version; its retry then (correctly, by the
rules) takes that version as best. -/

/-- version ids of the run: 0 = the old version (seq 1, no edits); 1 = B's (seq 2, edit b);
    2 = A's first attempt (seq 3); 3 = A's retry (seq 4) -/
def mSeq (v : Ver) : Nat := v + 1
def mInfo (v : Ver) : Tahoe.Mutable.VerInfo :=
  { seqnum := mSeq v, rootHash := [v], iv := none, segsize := 6, datalength := 6, k := 2, n := 4, pfx := [v], offsets := [] }
/-- the servermap a writer holds: its beliefs about the slots it knows -/
def viewMap (st : St) (w : Nat) (slots : List Slot) : Tahoe.Mutable.ServerMap :=
  { known := slots.filterMap (fun s => (st.seen w s).map (fun v => (s, mInfo v))) }

def mSlots : List Slot := [(0, 0), (1, 1), (2, 2), (0, 3), (1, 3)]
/-- 2-of-4: shares 0,1,2 on servers 0,1,2; share 3 is lost.  Attempt 0 = writer B; attempts 1, 2 = writer A. -/
def mStore : Slot → Option Ver := fun s => if s = (0, 0) ∨ s = (1, 1) ∨ s = (2, 2) then some 0 else none
def mCfg : Cfg :=
  { nsh := 4, k := 2, ver := fun w => w + 1, expect := fun w => some (w + 1),
    goal := fun w => if w = 0 then [(0, 0), (1, 1), (2, 2), (1, 3)]
                     else if w = 1 then [(0, 0), (1, 1), (2, 2), (0, 3)] else mSlots }
/-- B surveys; A surveys servers 1, 2; B writes everything; A surveys server 0 (sees one share of B's version),
    publishes; A's retry surveys everything and publishes -/
def mSched1 : List Ev :=
  [.survey 0 0, .survey 0 1, .survey 0 2, .survey 1 1, .survey 1 2,
   .write 0 (0, 0), .write 0 (1, 1), .write 0 (2, 2), .write 0 (1, 3), .survey 1 0]
def mSched2 : List Ev := [.write 1 (0, 0), .write 1 (1, 1), .write 1 (2, 2), .write 1 (0, 3), .survey 2 0, .survey 2 1, .survey 2 2]
def mSched3 : List Ev := [.write 2 (0, 0), .write 2 (1, 1), .write 2 (2, 2), .write 2 (0, 3), .write 2 (1, 3)]
/-- contents as sets of edits: each attempt adds its writer's edit (b = 1, a = 2) to the best version of its survey -/
def mContent : Ver → List Nat
  | 0 => [] | 1 => [1] | 2 => [2] | _ => [2]

/-- Counterexample to "a successfully reported modify() is never lost" for the code as it is: every attempt
    takes the best recoverable version of its own survey and the next sequence number of that survey (the
    model of `modify()`), B's publish and A's retry both succeed, A's first attempt ends in
    `UncoordinatedWriteError` — and at the end every share holds A's version, whose contents lack B's edit. -/
theorem modify_convergence_counterexample :
    let st1 := run mCfg (St.init mStore) mSched1
    let st2 := run mCfg st1 mSched2
    let st3 := run mCfg st2 mSched3
    -- A's first attempt: best recoverable = the old version, B's version visible but unrecoverable and newer
    (viewMap st1 1 mSlots).bestRecoverable = some (mInfo 0) ∧
    (viewMap st1 1 mSlots).unrecoverableNewer ≠ [] ∧
    Tahoe.Mutable.newSeqnum (some (viewMap st1 1 mSlots)) = mSeq (mCfg.ver 1) ∧
    mContent (mCfg.ver 1) = mContent 0 ++ [2] ∧
    -- A's retry: its full survey shows its own stale-based version as best (seq 3 over B's seq 2)
    (viewMap st2 2 mSlots).bestRecoverable = some (mInfo 2) ∧
    Tahoe.Mutable.newSeqnum (some (viewMap st2 2 mSlots)) = mSeq (mCfg.ver 2) ∧
    mContent (mCfg.ver 2) = mContent 2 ∧
    -- what the callers are told
    outcome mCfg st3 0 = .success ∧ outcome mCfg st3 1 = .uncoordinatedWrite ∧ outcome mCfg st3 2 = .success ∧
    -- the grid afterwards: A's version everywhere; B's edit (1) is gone
    (∀ s ∈ mSlots, st3.store s = some 3) ∧ 1 ∉ mContent 3 ∧ 1 ∈ mContent (mCfg.ver 0) := by
  decide

end Tahoe.C12
