import Tahoe.Mutable.AuthenticLemmas
import Tahoe.Mutable.RetrieveSelectLemmas
/-! C10 — mutable reads return only published versions (property theorems).
Cryptographic assumptions are explicit hypotheses; `Tahoe.C10.Inst` shows they are jointly
satisfiable by a concrete (toy, symbolic) instance, so no theorem below is vacuous.
Models: Tahoe/Mutable/Authentic.lean (share acceptance, signature cache, signed fields, share hash tree
of a Retrieve, decryption salt, Dolev–Yao terms), Tahoe/Mutable/RetrieveSelect.lean (version identity
with offsets, `best`, the Retrieve selection loop, `download_best_version`'s retry); lemmas:
AuthenticLemmas.lean, RetrieveSelectLemmas.lean.  One open finding: `offset_table_counterexample`.

## Coverage of the statement

| clause of the statement | theorem(s) on the model | rest |
|---|---|---|
| a read returns the plaintext of a version a write-cap holder published, or an error, never other bytes | `accepted_version_published` (one share: prefix + blocks are a published version's), `installed_key_genuine`, `signed_root_never_reset`, `accepted_blocks_hash_to_signed_root`, `retrieve_validates_only_published_blocks` (a whole Retrieve, any sequence of rejected shares); `reset_variant_counterexample` shows the invariant is load-bearing | `decrypt_salt_is_signed` (the IV/salt handed to the decryptor is the signed one; `fresh_reader_counterexample` = seed C10-e); decoding k validated block sets to the plaintext is C36/C09; the servermap's per-update signature cache: `map_update_enters_only_verified_prefixes` (`coarse_cache_key_counterexample` = seed C10-a) |
| … for any tampering: flipped bytes, forged signatures or keys, mixed versions, another file's shares | same theorems (the adversary supplies every field of every share; `World.unforgeable`, `fp_inj`, `chain_sound`, `bht_inj` are the hypotheses); `fieldDecision_table` for single-field alterations | `version_identity_signed_except_offsets` (which fields the signature covers, which are in the version identity, what a map update does with a share altered in one field; the offsets table is the one unsigned component of the identity = the open finding); which bytes of the two hash-chain fields a read consults: **correspondence/monitor only** |
| if at least k intact shares of the newest published version are reachable, the read succeeds | `intact_share_accepted` (an intact share is accepted); `retrieve_succeeds_with_k_intact_partial` (the Retrieve loop ends with k good shares — guard: only the bad share is dropped, or one share per server); `readOnce_succeeds_partial` (one read, given `best` = that version). `drop_server_counterexample` = the code before /repo 280b4a6 (repaired; the harness compares the real loop with the `dropSrv = false` variant now); **still not true of the code as it is**: `offset_table_counterexample` (open finding, reproduced by the monitor) | `best_is_maximal_recoverable` (`best` = the largest recoverable verinfo) and `read_succeeds_with_k_intact_newest_partial` (first survey + one retry on the complete map) -- guard: no recoverable verinfo sorts above the newest published version's, which the open offset-table finding breaks; which servers the partial MODE_READ survey asks: **correspondence only** (`rd`); one share has one identity whichever proxy surveyed it: `canonical_offsets_same_identity` (`insertion_order_offsets_counterexample` = the code before 80fa722) |
| holders of only a read-cap or verify-cap, and storage servers, cannot create a version that readers accept | `readcap_cannot_publish` (Dolev–Yao closure: no signature on an unpublished prefix, nor the signing or write key, is derivable) with `accepted_version_published` | computational soundness of RSA/SHA-256d: assumed |
| SDMF and MDMF | the model is format-independent (salt inside the prefix for SDMF, hashed with the blocks for MDMF: `Prims.bhtRoot`) | both formats in every harness family |
-/
namespace Tahoe.C10
open Tahoe.Authentic

variable {PK Sig H FP Chain Blocks : Type} [DecidableEq FP]

/-- The environment in which a reader runs: the genuine key `pk0` (the one whose fingerprint is in
the cap), the set of versions its holder published, and the assumptions on the primitives. -/
structure World (P : Prims PK Sig H FP Chain Blocks) (capFp : FP) where
  pk0 : PK
  published : Version H Blocks → Prop
  /-- the fingerprint in the cap is that of the genuine key, and fingerprints do not collide -/
  fp_pk0 : P.fp pk0 = capFp
  fp_inj : ∀ a b, P.fp a = P.fp b → a = b
  /-- unforgeability: a signature that verifies under the genuine key is on a published prefix -/
  unforgeable : ∀ pre s, P.verify pk0 pre s = true → ∃ v, published v ∧ v.pre = pre
  /-- the share hash tree binds: a root determines each leaf (Merkle soundness, C35) -/
  leafAt : H → Nat → H
  chain_sound : ∀ c i leaf root, P.chainOk c i leaf root = true → leaf = leafAt root i
  /-- published shares are built honestly: leaf i of the tree under the signed root is the block-hash root of share i -/
  honest : ∀ v, published v → ∀ i, leafAt v.pre.root i = P.bhtRoot (v.blocksOf i)
  /-- two published versions with the same signed prefix are the same version (the prefix contains seqnum and root hash) -/
  prefix_determines : ∀ v w, published v → published w → v.pre = w.pre → v = w
  /-- block hash trees do not collide -/
  bht_inj : ∀ a b, P.bhtRoot a = P.bhtRoot b → a = b

/-- **accepted version is a published one**: whatever bytes the servers supply, if the reader accepts
share `shnum` then its signed prefix is the prefix of a version the key holder published and its
blocks are exactly the blocks that version wrote for that share number.  `known` is any public key
the node holds, which (invariant of `_try_to_set_pubkey`) passed the fingerprint check. -/
theorem accepted_version_published (P : Prims PK Sig H FP Chain Blocks) (capFp : FP) (W : World P capFp)
    (known : Option PK) (hknown : ∀ pk, known = some pk → P.fp pk = capFp)
    (shnum : Nat) (s : Share PK Sig H Chain Blocks) (h : accept P capFp known shnum s = true) :
    ∃ v, W.published v ∧ v.pre = s.pre ∧ v.blocksOf shnum = s.blocks := by
  unfold accept at h
  simp only [Bool.and_eq_true] at h
  obtain ⟨⟨hpk, hver⟩, hchain⟩ := h
  have hkey : known.getD s.pubkey = W.pk0 := by
    cases known with
    | some pk =>
      simp only [Option.getD_some]
      exact W.fp_inj _ _ (by rw [hknown pk rfl, W.fp_pk0])
    | none =>
      simp only [Option.getD_none]
      have : P.fp s.pubkey = capFp := by simpa using hpk
      exact W.fp_inj _ _ (by rw [this, W.fp_pk0])
  rw [hkey] at hver
  obtain ⟨v, hv, hpre⟩ := W.unforgeable _ _ hver
  refine ⟨v, hv, hpre, ?_⟩
  have hleaf := W.chain_sound _ _ _ _ hchain
  rw [← hpre, W.honest v hv shnum] at hleaf
  exact (W.bht_inj _ _ hleaf).symm

/-- the reader's own key slot only ever receives the genuine key -/
theorem installed_key_genuine (P : Prims PK Sig H FP Chain Blocks) (capFp : FP) (W : World P capFp)
    (s : Share PK Sig H Chain Blocks) (shnum : Nat) (h : accept P capFp none shnum s = true) :
    s.pubkey = W.pk0 := by
  unfold accept at h
  simp only [Bool.and_eq_true] at h
  have : P.fp s.pubkey = capFp := by simpa using h.1.1
  exact W.fp_inj _ _ (by rw [this, W.fp_pk0])

/-- **intact shares are accepted** (so k intact shares of the newest version suffice, by C36):
completeness hypotheses = signatures made by the key holder verify and honest chains check. -/
theorem intact_share_accepted (P : Prims PK Sig H FP Chain Blocks) (capFp : FP) (pk0 : PK)
    (hfp : P.fp pk0 = capFp) (known : Option PK) (hknown : ∀ pk, known = some pk → pk = pk0)
    (shnum : Nat) (s : Share PK Sig H Chain Blocks) (hpk : s.pubkey = pk0)
    (hsig : P.verify pk0 s.pre s.sig = true)
    (hchain : P.chainOk s.chain shnum (P.bhtRoot s.blocks) s.pre.root = true) :
    accept P capFp known shnum s = true := by
  unfold accept
  cases known with
  | some pk => simp [hknown pk rfl, hsig, hchain]
  | none => simp [hpk, hfp, hsig, hchain]

/-- the field-level decision table agrees with `accept`: altering a field the reader validates makes it
reject; the only unvalidated fields are the encrypted private key and (for a node that already holds
the key) the public-key field. -/
theorem fieldDecision_table :
    fieldDecision false .pubkey = false ∧ fieldDecision true .pubkey = true ∧
    (∀ w, fieldDecision w .encPrivkey = true) ∧ (∀ w, fieldDecision w .none = true) ∧
    (∀ w f, f ≠ .none → f ≠ .encPrivkey → f ≠ .pubkey → fieldDecision w f = false) := by
  refine ⟨rfl, rfl, fun _ => rfl, fun _ => rfl, ?_⟩
  intro w f h1 h2 h3
  cases f <;> simp_all [fieldDecision]

/-! ### the signed root stays in force for the whole Retrieve -/

/-- **the signed root is never reset**: whatever shares are offered and whichever of them are rejected
(for any reason, in any order), the share hash tree of a Retrieve still holds the root hash that
`_setup_download` took from the signed prefix. -/
theorem signed_root_never_reset [DecidableEq H] (T : TreeOps H Chain) (bhtRoot : Blocks → H) (root : H)
    (evs : List (REv Chain Blocks)) :
    (rrun T bhtRoot (Retr.setup root) evs).tree = some root :=
  (rinv_run T bhtRoot root evs _ (rinv_setup T bhtRoot root)).1

/-- **every accepted block set hashes to the signed root**, whatever the sequence of rejected shares
before or after it: a share is only ever validated against the root seeded from the signed prefix,
never against a root computed from other (unsigned) shares; and "hashes to" means that the supplied
hashes connect the leaf all the way up (`chainRoot = some …`): a chain that stops below the root
(`none`, NotEnoughHashesError in `set_hashes`, also for parents it computed itself) never validates a
share -- `surplus_variant_counterexample` shows what happens otherwise. -/
theorem accepted_blocks_hash_to_signed_root [DecidableEq H] (T : TreeOps H Chain) (bhtRoot : Blocks → H)
    (root : H) (evs : List (REv Chain Blocks)) (i : Nat) (b : Blocks)
    (h : (i, b) ∈ (rrun T bhtRoot (Retr.setup root) evs).shares) :
    ∃ c, T.chainRoot c i (bhtRoot b) = some root :=
  (rinv_run T bhtRoot root evs _ (rinv_setup T bhtRoot root)).2 i b h

omit [DecidableEq FP] in
/-- **a Retrieve only validates blocks of the published version it was started for**: if the prefix
carrying `v.pre.root` was accepted by the servermap update (so it is the prefix of a published version
`v`, by `accepted_version_published`), every share the Retrieve validates -- after any number of
rejected shares -- holds exactly the blocks `v` wrote for that share number.  `hT` says `chainOk` is
"the computed root equals the known root". -/
theorem retrieve_validates_only_published_blocks [DecidableEq H] (P : Prims PK Sig H FP Chain Blocks)
    (capFp : FP) (W : World P capFp) (T : TreeOps H Chain)
    (hT : ∀ c i leaf root, T.chainRoot c i leaf = some root → P.chainOk c i leaf root = true)
    (v : Version H Blocks) (hv : W.published v) (evs : List (REv Chain Blocks)) (i : Nat) (b : Blocks)
    (h : (i, b) ∈ (rrun T P.bhtRoot (Retr.setup v.pre.root) evs).shares) :
    b = v.blocksOf i := by
  obtain ⟨c, hc⟩ := accepted_blocks_hash_to_signed_root T P.bhtRoot v.pre.root evs i b h
  have hleaf := W.chain_sound _ _ _ _ (hT _ _ _ _ hc)
  rw [W.honest v hv i] at hleaf
  exact W.bht_inj _ _ hleaf

/-- the invariant is load-bearing: in the variant where bad-share handling starts over with a clean
share hash tree (`rstepReset`, not the code), one rejected share followed by shares of another,
mutually consistent, family makes the reader validate blocks that do not hash to the signed root. -/
theorem reset_variant_counterexample :
    let evs : List (REv (Nat × Bool) Toy.TH) :=
      [.offer 0 (1, true) (.leafOf 1 0), .offer 1 (1, true) (.leafOf 1 1), .offer 2 (1, true) (.leafOf 1 2)]
    let r := evs.foldl (rstepReset Toy.ops id) (Retr.setup (Toy.TH.fam 0))
    r.shares = [(1, .leafOf 1 1), (2, .leafOf 1 2)] ∧ r.tree = some (.fam 1) ∧
    (rrun Toy.ops id (Retr.setup (Toy.TH.fam 0)) evs).shares = [] := by decide

/-- a leaf must be CONNECTED to the signed root: in the variant where a node without a known sibling is
dropped as a "surplus hash" unless it was passed in as a leaf (`rstepSurplus`, not the code), two
sibling shares of another family whose chains stop below the root (they name only each other's leaf)
are validated although nothing ties them to the signed root; the code as modelled rejects both and
goes on to validate genuine shares. -/
theorem surplus_variant_counterexample :
    let evs : List Toy.Ev := [.truncated 0 1, .truncated 1 1, .offer 2 0]
    (evs.foldl (fun r e => rstepSurplus Toy.ops id r (Toy.toREv e)) (Retr.setup (Toy.TH.fam 0))).shares
      = [(0, .leafOf 1 0), (1, .leafOf 1 1), (2, .leafOf 0 2)] ∧
    (rrun Toy.ops id (Retr.setup (Toy.TH.fam 0)) (evs.map Toy.toREv)).shares = [(2, .leafOf 0 2)] ∧
    (Toy.run (some 0) evs).1 = [false, false, true] := by decide

/-- non-vacuity: a genuine share is validated after a forged and a damaged one were rejected, and
forged ones keep being rejected afterwards -/
example : (Toy.run (some 0) [.offer 0 1, .damaged 1 0 7, .offer 2 0, .offer 3 1, .fail 4, .offer 5 0]).1
    = [false, false, true, false, false, true] := by decide
example : (Toy.run (some 0) [.offer 0 1, .damaged 1 0 7, .offer 2 0, .offer 3 1]).2.tree = some (.fam 0) := by decide

/-! ### what the signature covers -/

/-- **the version identity is signed except for the offsets table**: every component of verinfo is
inside the signed prefix, with exactly one exception, the offsets table -- and a share altered in one
field gets a version identity of its own in exactly that case (every other alteration is rejected by
the map update or leaves the share under the identity of the intact ones, to be judged by Retrieve's
hash checks).  The exception is the open finding (`offset_table_counterexample`). -/
theorem version_identity_signed_except_offsets (f : HField) :
    (inVerinfo f = true → signedField f = true ∨ f = .offsets) ∧
    (inVerinfo f = true ∧ signedField f = false ↔ f = .offsets) ∧
    (mapOutcome f = .newIdentity ↔ f = .offsets) ∧
    (signedField f = true → mapOutcome f = .rejected) := by
  cases f <;> simp [inVerinfo, signedField, mapOutcome]

theorem hfield_all_complete (f : HField) : f ∈ HField.all := by
  cases f <;> simp [HField.all]

example : (HField.all.filter (fun f => inVerinfo f && !signedField f)) = [.offsets] ∧
    (HField.all.filter signedField).length = 7 ∧ mapOutcome .shareData = .sameIdentity := by decide

/-! ### the map update's signature cache -/

/-- **every share entered into the servermap carries a verified prefix**: whatever shares the servers
send in whatever order, with the cache keyed on the whole verinfo (the code), every verinfo the map
update enters belongs to a prefix for which a signature verified under the file's key -- also when the
RSA check was skipped because of a cache hit.  (With `World.unforgeable` that prefix is a published
version's; Retrieve then trusts exactly this prefix.) -/
theorem map_update_enters_only_verified_prefixes {S : Type} [DecidableEq H] (verify : Prefix H → S → Bool)
    (xs : List (SigIn H S)) (p : Prefix H) (o : Nat) (h : (p, o) ∈ (mapUpdate verify fullKey xs).entered) :
    ∃ s, verify p s = true := by
  have hinv := sigInv_foldl verify fullKey (by intro p o p' o' hk; exact (Prod.mk.inj hk).1) xs
    { valid := [], entered := [] } ⟨by intro kk hkk; simp at hkk, by intro p o hpo; simp at hpo⟩
  exact hinv.2 p o h

/-- the key matters (seed C10-a): keyed on (seqnum, root hash, salt) only, one genuine share primes the
cache and a share with another datalength and a worthless signature is entered as a version of its own;
keyed on the whole verinfo it is rejected. -/
theorem coarse_cache_key_counterexample :
    let pre : Prefix Nat := { seqnum := 2, root := 9, salt := 7, k := 2, n := 4, segsize := 10, datalen := 10 }
    let forged : Prefix Nat := { pre with datalen := 9 }
    let xs : List (SigIn Nat Bool) := [⟨pre, 0, true⟩, ⟨forged, 0, false⟩]
    (mapUpdate (fun _ s => s) coarseKey xs).entered = [(forged, 0), (pre, 0)] ∧
    (mapUpdate (fun _ s => s) fullKey xs).entered = [(pre, 0)] := by decide

example : (mapUpdate (fun (_ : Prefix Nat) (s : Bool) => s) fullKey
    [⟨{ seqnum := 2, root := 9, salt := 7, k := 2, n := 4, segsize := 10, datalen := 10 }, 0, true⟩,
     ⟨{ seqnum := 2, root := 9, salt := 7, k := 2, n := 4, segsize := 10, datalen := 10 }, 0, false⟩]).entered.length = 2 := by decide

/-! ### the salt used for decryption is the signed one -/

/-- **decryption uses the IV of the signed prefix**: in a Retrieve for the version with signed prefix
`pre` whose active readers are the ones cached by the map update that verified `pre` (the code: a
version object keeps its servermap, and the servermap keeps its readers), the salt handed to the
decryptor is `pre.salt`, whatever headers the servers would send now. -/
theorem decrypt_salt_is_signed (pre : Prefix H) (readers : List (ReaderHdr H)) (hne : readers ≠ [])
    (hc : ∀ r, r ∈ readers → r.cached = true ∧ r.verified = pre) :
    decryptSalt readers = some pre.salt := by
  cases readers with
  | nil => exact absurd rfl hne
  | cons r rest =>
    obtain ⟨h1, h2⟩ := hc r List.mem_cons_self
    simp [decryptSalt, ReaderHdr.believed, h1, h2]

/-- why the readers must be the cached ones: one fresh reader for the lowest share, whose server now
sends a header with another IV, and the segment is decrypted with that IV (nothing else in the header
or the hash trees changes, so every check passes).  This is the variant "let go of the slot readers
after a read", not the code. -/
theorem fresh_reader_counterexample :
    let pre : Prefix Nat := { seqnum := 2, root := 9, salt := 7, k := 2, n := 4, segsize := 10, datalen := 10 }
    decryptSalt [⟨false, pre, { pre with salt := 99 }⟩, ⟨true, pre, pre⟩] = some 99 ∧
    decryptSalt [⟨true, pre, { pre with salt := 99 }⟩, ⟨true, pre, pre⟩] = some 7 := by decide

/-! ### liveness: which shares a Retrieve uses, which version a read goes for -/
section Liveness
open Tahoe.RetrSel

/- Full statement (the property's liveness clause on the model): for every servermap `m`, `k`, and
   every published newest version `v` with at least k good shares of `v` in `m`,
       read dropSrv k first m ≠ none.
   It did NOT hold for the code as found, for two independent reasons, each with its witness below:
   `drop_server_counterexample` (a bad share took its server's other shares with it; repaired in /repo
   280b4a6, `dropSrv = false` is the code now) and `offset_table_counterexample` (the unsigned offsets
   table is part of the version identity; still open).
   Proved: the Retrieve level under the guard "only the bad share is dropped, or every server holds
   one share" (`retrieve_succeeds_with_k_intact_partial`) and its lifting to one read on a map whose
   best version is the one with the good shares (`readOnce_succeeds_partial`).  Missing for the full
   statement: that `best` picks the published version -- false when offsets differ between shares. -/

/-- **k intact shares suffice for a Retrieve** (partial: under the guard).  Shares of the version being
retrieved, one server per share number, at least k of them good: the loop ends with exactly k good
shares, however many bad ones it meets first and in whatever positions. -/
theorem retrieve_succeeds_with_k_intact_partial (dropSrv : Bool) (k : Nat) (shares : List MShare)
    (hn : (shares.map (·.shnum)).Nodup) (hk : k ≤ (shares.filter (·.good)).length)
    (guard : dropSrv = false ∨ (shares.map (·.server)).Nodup) :
    ∃ used, retrieve dropSrv k shares = .ok used ∧ used.length = k ∧
      ∀ n, n ∈ used → ∃ s, s ∈ shares ∧ s.good = true ∧ s.shnum = n := by
  have h := retrLoop_fixed_ok k (shares.length + 1) [] shares (by simpa [shn] using hn) (by simp) (by simp)
    (by simpa using hk) (by omega)
  simp only [List.nil_append] at h
  unfold retrieve
  rcases guard with g | g
  · rw [g]; exact h
  · cases dropSrv with
    | false => exact h
    | true => rw [retrLoop_dropSrv_eq k _ shares [] g hn]; exact h

example : retrieve true 2 [⟨0, 0, 1, 1, 1, 0, false⟩, ⟨1, 1, 1, 1, 1, 0, true⟩, ⟨2, 2, 1, 1, 1, 0, false⟩, ⟨3, 3, 1, 1, 1, 0, true⟩]
    = .ok [1, 3] := by decide

/-- the code before the repair (/repo 280b4a6): 2-of-3, server 0 holds shares 0 and 2, server 1 holds share 1, share 0 is bad.
Two good shares are there; the loop drops server 0 with its good share 2 and fails.  Dropping only the
bad share succeeds on the same input. -/
theorem drop_server_counterexample :
    let shares : List MShare := [⟨0, 0, 1, 1, 1, 0, false⟩, ⟨1, 1, 1, 1, 1, 0, true⟩, ⟨2, 0, 1, 1, 1, 0, true⟩]
    (shares.filter (·.good)).length = 2 ∧ retrieve true 2 shares = .fail ∧ retrieve false 2 shares = .ok [1, 2] := by
  decide

/-- one read on a servermap whose best version has k good shares succeeds with that version (partial:
same guard; that `best` is the published newest version is an assumption here, see above). -/
theorem readOnce_succeeds_partial (dropSrv : Bool) (k : Nat) (m : List MShare) (v : VerInfo)
    (hb : best k m = some v) (hn : ((sharesOf m v).map (·.shnum)).Nodup)
    (hk : k ≤ ((sharesOf m v).filter (·.good)).length)
    (guard : dropSrv = false ∨ ((sharesOf m v).map (·.server)).Nodup) :
    readOnce dropSrv k m = some v := by
  obtain ⟨used, hu, _, _⟩ := retrieve_succeeds_with_k_intact_partial dropSrv k (sharesOf m v) hn hk guard
  simp [readOnce, hb, hu]

example : readOnce true 1 [⟨0, 0, 3, 7, 1, 0, true⟩, ⟨1, 1, 2, 5, 1, 0, true⟩] = some (3, 7, 1, 0) := by decide

/-- **`best_recoverable_version` is the largest recoverable verinfo**: if `v` is carried by some share
of the map, is recoverable, and no recoverable verinfo of the map sorts above it, then `best` returns
`v` -- whatever else is in the map, in whatever order. -/
theorem best_is_maximal_recoverable (k : Nat) (m : List MShare) (v : VerInfo)
    (hmem : ∃ s, s ∈ m ∧ s.verinfo = v) (hrec : recoverable k m v = true)
    (hmax : ∀ s, s ∈ m → recoverable k m s.verinfo = true → vlt v s.verinfo = false) :
    best k m = some v := by
  rw [best_eq_foldl]
  exact bestStep_finds_max (recoverable k m) v hrec m hmem hmax none (Or.inl rfl)

example : best 2 [⟨0, 0, 3, 7, 1, 0, true⟩, ⟨1, 1, 3, 7, 1, 0, false⟩, ⟨0, 2, 2, 5, 1, 0, true⟩, ⟨2, 3, 4, 1, 1, 0, true⟩]
    = some (3, 7, 1, 0) := by decide

/-- **k intact shares of the newest version ⇒ `download_best_version` succeeds** (partial).  `v` = the
verinfo of the newest published version; the complete map `full` holds k good shares of it on distinct
share numbers, and no recoverable verinfo of `full` sorts above `v`; the first (partial) survey found
some recoverable version (otherwise the code raises UnrecoverableFileError without a second survey).
Then the read returns a version: the first survey's best if its Retrieve succeeds, else `v` from the
complete map.  Guards: bad-share handling drops only the share (the code since 280b4a6) or one share
per server; and the maximality of `v` -- which an offset-altered share of the same version breaks
(`offset_table_counterexample`, the open finding). -/
theorem read_succeeds_with_k_intact_newest_partial (dropSrv : Bool) (k : Nat) (first full : List MShare) (v : VerInfo)
    (hfirst : best k first ≠ none)
    (hmem : ∃ s, s ∈ full ∧ s.verinfo = v) (hrec : recoverable k full v = true)
    (hmax : ∀ s, s ∈ full → recoverable k full s.verinfo = true → vlt v s.verinfo = false)
    (hn : ((sharesOf full v).map (·.shnum)).Nodup) (hk : k ≤ ((sharesOf full v).filter (·.good)).length)
    (guard : dropSrv = false ∨ ((sharesOf full v).map (·.server)).Nodup) :
    ∃ w, read dropSrv k first full = some w := by
  have hfull := readOnce_succeeds_partial dropSrv k full v (best_is_maximal_recoverable k full v hmem hrec hmax) hn hk guard
  unfold RetrSel.read
  cases hb : best k first with
  | none => exact absurd hb hfirst
  | some b =>
    simp only
    cases hr : readOnce dropSrv k first with
    | some w => exact ⟨w, rfl⟩
    | none => exact ⟨v, hfull⟩

/-- first survey sees only two damaged shares of the newest version; the complete map has two good ones further out -/
example : read false 2 [⟨0, 0, 3, 7, 1, 0, false⟩, ⟨1, 1, 3, 7, 1, 0, false⟩]
    [⟨0, 0, 3, 7, 1, 0, false⟩, ⟨1, 1, 3, 7, 1, 0, false⟩, ⟨2, 2, 3, 7, 1, 0, true⟩, ⟨3, 3, 3, 7, 1, 0, true⟩] = some (3, 7, 1, 0) := by decide

/-- the open finding, on the model of the code as it is: a 1-of-2 file, share 0 intact, share 1 with an
altered (unsigned) offsets table that sorts higher and does not read.  The altered share is a
recoverable "version" of its own, `best` picks it, its Retrieve fails, the retry on the complete map
picks it again: the read fails although k = 1 intact share of the published version is reachable.
(With offsets taken out of the version identity -- same input, `offs` equal -- the read succeeds.) -/
theorem offset_table_counterexample :
    let intact : MShare := ⟨0, 0, 3, 7, 1, 0, true⟩
    let altered : MShare := ⟨1, 1, 3, 7, 1, 1, false⟩
    best 1 [intact, altered] = some (3, 7, 1, 1) ∧
    read true 1 [intact, altered] [intact, altered] = none ∧ read false 1 [intact, altered] [intact, altered] = none ∧
    read true 1 [intact, { altered with offs := 0 }] [intact, { altered with offs := 0 }] = some (3, 7, 1, 0) := by
  decide

/-- **one share, one identity**: with the canonical (sorted) offsets tuple, two surveys of the same
share -- the publisher's own record made with the write proxy and a later map update made with the
read proxy, whose offsets dicts hold the same entries in different insertion orders -- give the same
tuple, hence the same verinfo: one version cannot sit in a reused servermap under two identities. -/
theorem canonical_offsets_same_identity (writer reader : Offsets) (h : writer.Perm reader) :
    offsetsTuple true writer = offsetsTuple true reader := by
  simp only [offsetsTuple, if_true]
  exact mergeSort_eq_of_perm writer reader h

/-- before the repair (insertion order kept): the offsets of one real SDMF share as the publisher
recorded them and as a later survey read them -- fields numbered alphabetically: 0 EOF,
1 block_hash_tree, 2 enc_privkey, 3 share_data, 4 share_hash_chain, 5 signature -- are permutations
of each other and give different tuples (the publisher's sorts higher: 'share_hash_chain' >
'share_data' at the first difference, so `best` prefers the entries that were not re-surveyed);
canonically they coincide. -/
theorem insertion_order_offsets_counterexample :
    let writer : Offsets := [(5, 401), (4, 657), (1, 725), (3, 757), (2, 760), (0, 1978)]
    let reader : Offsets := [(5, 401), (3, 757), (1, 725), (4, 657), (2, 760), (0, 1978)]
    writer.Perm reader ∧ offsetsTuple false writer ≠ offsetsTuple false reader ∧
    offsetsTuple true writer = offsetsTuple true reader ∧
    offsetsTuple true writer = [(0, 1978), (1, 725), (2, 760), (3, 757), (4, 657), (5, 401)] := by
  intro writer reader
  have hp : writer.Perm reader := by decide
  refine ⟨hp, by decide, canonical_offsets_same_identity writer reader hp, ?_⟩
  simp only [offsetsTuple, if_true]
  exact mergeSort_eq_of_sorted_perm writer _ (by decide) (by decide)

end Liveness

/-! ### read-cap / verify-cap holders and servers cannot make a version -/

theorem derivable_pub (published : Nat → Prop) (K : T → Prop) (hK : ∀ t, K t → Pub published t) :
    ∀ t, Derivable K t → Pub published t := by
  intro t h
  induction h with
  | known hk => exact hK _ hk
  | hash tag _ ih => exact Or.inr ih
  | sign _ _ ihk ihm => exact Or.inr ⟨ihk, ihm⟩
  | encrypt _ _ _ ihp => exact Or.inl ihp
  | decrypt _ _ ihe ihk =>
    simp only [Pub] at ihe
    rcases ihe with h | h
    · exact h
    · exact absurd ihk h
  | pair _ _ iha ihb => exact ⟨iha, ihb⟩
  | fst _ ih => exact ih.1
  | snd _ ih => exact ih.2
  | pkOfSk _ ih => exact absurd ih (by simp [Pub])

/-- what a read-cap holder, a verify-cap holder and every storage server can see: the read key
(= hash of the write key), the public key, every published prefix with its signature, and the
private key encrypted under a key derived from the write key. -/
def readerKnowledge (published : Nat → Prop) : T → Prop := fun t =>
  t = .hash readkeyTag .writekey ∨ t = .pk ∨ (∃ n, t = .msg n) ∨
  (∃ n, published n ∧ t = .sig .sk (.msg n)) ∨ t = .enc (.hash 2 .writekey) .sk

/-- **readcap cannot publish**: from everything readers and servers know, no signature under the
file's signing key on an unpublished prefix can be derived, nor the signing key or the write key. -/
theorem readcap_cannot_publish (published : Nat → Prop) :
    (∀ n, Derivable (readerKnowledge published) (.sig .sk (.msg n)) → published n) ∧
    ¬ Derivable (readerKnowledge published) .sk ∧ ¬ Derivable (readerKnowledge published) .writekey := by
  have hK : ∀ t, readerKnowledge published t → Pub published t := by
    intro t ht
    rcases ht with h | h | ⟨n, h⟩ | ⟨n, hp, h⟩ | h <;> subst h
    · exact Or.inl ⟨rfl, rfl⟩
    · trivial
    · trivial
    · exact Or.inl ⟨rfl, n, rfl, hp⟩
    · right; simp [Pub, readkeyTag]
  have hd := derivable_pub published _ hK
  refine ⟨?_, fun h => hd _ h, fun h => hd _ h⟩
  intro n h
  have := hd _ h
  simp only [Pub] at this
  rcases this with ⟨_, m, hm, hp⟩ | ⟨hsk, _⟩
  · cases hm; exact hp
  · exact absurd hsk (by simp [Pub])

/-! ### satisfiability of the assumptions: a concrete symbolic instance -/
namespace Inst
/-- toy primitives: keys are numbers, a signature is the pair (key, prefix) it was made with, the
fingerprint is the key itself, a chain is the list of all leaves, the block-hash root is the block list. -/
def P : Prims Nat (Nat × Prefix (List (List Nat))) (List (List Nat)) Nat Unit (List Nat) where
  verify := fun pk pre s => s.1 == pk && s.2 == pre
  fp := id
  bhtRoot := fun b => [b]
  chainOk := fun _ i leaf root => root[i]? == some (leaf.headD [])  && leaf.length == 1

def v0 : Version (List (List Nat)) (List Nat) :=
  { pre := { seqnum := 1, root := [[7], [8]], salt := 0, k := 1, n := 2, segsize := 1, datalen := 1 },
    blocksOf := fun i => if i = 0 then [7] else [8] }

/-- an intact share of `v0` is accepted by a reader that knows no key yet, and a forged signature is not -/
example : accept P 5 none 0 { pubkey := 5, pre := v0.pre, sig := (5, v0.pre), chain := (), blocks := [7] } = true := by decide
example : accept P 5 none 0 { pubkey := 5, pre := v0.pre, sig := (6, v0.pre), chain := (), blocks := [7] } = false := by decide
example : accept P 5 none 0 { pubkey := 6, pre := v0.pre, sig := (6, v0.pre), chain := (), blocks := [7] } = false := by decide
example : accept P 5 none 0 { pubkey := 5, pre := v0.pre, sig := (5, v0.pre), chain := (), blocks := [9] } = false := by decide
end Inst

end Tahoe.C10
