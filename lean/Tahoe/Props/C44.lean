import Tahoe.Immutable.LemmasHelper
import Tahoe.Immutable.LemmasHelperPresence
import Tahoe.Immutable.LemmasHelperClient
/-! C44 — helper-assisted uploads are equivalent to direct uploads (property theorems; models in
`Tahoe/Immutable/Helper.lean` (helper side) and `Tahoe/Immutable/HelperClient.lean` (client-side reader),
lemmas in `Tahoe/Immutable/LemmasHelper*.lean`).

PARTIAL: wall-clock timing and several concurrent clients for one storage index are not modelled; encoding is
an abstract function of (ciphertext, parameters).  A disturbance of an attempt is "the n-th `read_encrypted`
call fails", "the helper dies there and only a prefix of the partial file survives" (`Fault.crash`) or "a
failure after the fetch completed"; every theorem about attempts quantifies over all lists of them.  16
theorems, none `_partial`; definitions marked "NOT model code" exist only for the counterexample theorems
that show what a seeded change broke.

## Coverage of the statement

| clause of the statement | theorem(s) for the model | tie to the code |
|---|---|---|
| uploading through a helper produces the **same read-cap and verify-cap** as uploading directly with the same convergence secret and parameters | `helper_cap_eq_direct_cap` (for every encoder that is a function of ciphertext and parameters, every interruption pattern); rests on `resumed_fetch_eq_ciphertext` (helper side) and `client_reader_returns_ciphertext` (client side) | real Helper + AssistedUploader vs direct upload on a twin grid: caps compared (corpus + random) |
| … for **every size**, LIT-sized files included (≤ 55 bytes: LIT cap on both paths, nothing pushed, helper not asked) | `upload_with_helper_eq_upload_without`, `literal_sizes_bypass_helper`, `lit_threshold_is_55` (+ `helper_first_counterexample`: seeded C44-d) | twin grids at sizes 0, 1, 54, 55, 56, 57 and segment boundaries (`pick` driver line; caps, helper / server contact) |
| key / storage index are the same on both paths (same convergence secret) | not a theorem here: both are derived by the same client code before the paths diverge (C17 is about the derivation) | caps compared |
| an **interrupted** helper upload that is **resumed** produces the **same shares** as an uninterrupted one | `resumed_fetch_eq_ciphertext` (every list of disturbed attempts, any chunk size > 0), `incoming_file_is_prefix` (the partial file is always a prefix of the ciphertext), `client_reader_returns_ciphertext` (the resumed client reader returns the right bytes although it skips ahead in several pieces), hence the shares component of `helper_cap_eq_direct_cap` | file sizes after every attempt + ciphertext handed to the encoder vs driver (`fetch`), client reader vs driver (`reader`), share bytes vs direct upload, plaintext downloaded |
| encoding itself is a function of (ciphertext, parameters) | assumed here (hypothesis: any `encode`); C01 / C36 are about the real one | share bytes compared |
| the helper **reports an already-present file without re-uploading** it | `present_not_reuploaded` (results, no upload helper, no share write, same caps) | counters + storage write calls on the real servers |
| "already present" only for a file that is present | `present_implies_all_shares` (every one of the N share numbers exists, however many duplicates), `absent_needs_upload` | pre-existing-copy scenarios on twin grids (`presentp` driver line) |
| … also when the *same helper* placed the file earlier and shares were lost since (no memory) | `present_answer_reflects_current_grid` (every history of placements / losses / queries; + `memory_counterexample`: seeded C44-e) | re-upload scenarios on twin grids with one reused Helper (`hist` driver line; share sets, download) |
| … also when the helper process dies and the tail of the partial ciphertext file is lost | same theorems: `Fault.crash i keep` (only the first `keep` bytes survive) is one of the disturbances they quantify over; `incoming_file_is_prefix` | harness truncates the partial file and restarts the Helper between attempts (`xI.K` in the `fetch` driver line) |
| several clients uploading the same storage index at once (reader pool of `AskUntilSuccessMixin`); wall-clock timing | not covered | not covered (one reader per attempt) |
-/
namespace Tahoe.C44
open Tahoe.Helper

/-- **`resumed_fetch_eq_ciphertext`**: for *every* interruption pattern — any list of disturbed
attempts (each failing at an arbitrary `read_encrypted` call, or after the fetch, or not at all)
followed by one undisturbed attempt, any positive chunk size, any ciphertext — the resumed upload
succeeds and the ciphertext file the helper encodes from is exactly the client's ciphertext. -/
theorem resumed_fetch_eq_ciphertext (chunk : Nat) (hc : 0 < chunk) (ct : List UInt8) (faults : List Fault) :
    (runAttempts chunk ct ⟨none, none⟩ (faults ++ [.none])).2 = some ct := by
  obtain ⟨used, hu⟩ := runAttempts_succeeds chunk hc ct faults ⟨none, none⟩ (good_empty ct)
  have := (runAttempts_good chunk hc ct (faults ++ [.none]) ⟨none, none⟩ (good_empty ct)).2 used hu
  rw [hu, this]

/-- interrupted after the 2nd chunk, then after the (resumed) 1st chunk, then after the fetch, then clean -/
example : runAttempts 3 [1, 2, 3, 4, 5, 6, 7, 8, 9, 10] ⟨none, none⟩ [.read 2, .read 1, .encode, .none]
      = (⟨none, none⟩, some [1, 2, 3, 4, 5, 6, 7, 8, 9, 10]) ∧
    (traceAttempts 3 [1, 2, 3, 4, 5, 6, 7, 8, 9, 10] ⟨none, none⟩ [.read 2, .read 1, .encode, .none]).map
      (fun x => (x.1.incoming.map List.length, x.1.encoding.map List.length, x.2))
      = [(some 6, none, false), (some 9, none, false), (none, some 10, false), (none, none, true)] := by
  decide

/-- a helper crash that loses the tail of the partial file (appended but not yet on disk) is one of the
disturbances `resumed_fetch_eq_ciphertext` quantifies over: here the helper dies at its 3rd read with only 4 of
the 6 bytes fetched so far surviving, then at its 2nd read with nothing new surviving, then runs clean -/
example : runAttempts 3 [1, 2, 3, 4, 5, 6, 7, 8, 9, 10] ⟨none, none⟩ [.crash 2 4, .crash 1 4, .none]
      = (⟨none, none⟩, some [1, 2, 3, 4, 5, 6, 7, 8, 9, 10]) ∧
    (traceAttempts 3 [1, 2, 3, 4, 5, 6, 7, 8, 9, 10] ⟨none, none⟩ [.crash 2 4, .crash 1 4, .none]).map
      (fun x => (x.1.incoming.map List.length, x.2)) = [(some 4, false), (some 4, false), (none, true)] := by
  decide

/-- at every moment the partial file is a prefix of the ciphertext and a complete file *is* the
ciphertext (so a resume never re-fetches or misplaces a byte), whatever the disturbances -/
theorem incoming_file_is_prefix (chunk : Nat) (hc : 0 < chunk) (ct : List UInt8) (faults : List Fault) :
    Good ct (runAttempts chunk ct ⟨none, none⟩ faults).1 :=
  (runAttempts_good chunk hc ct faults ⟨none, none⟩ (good_empty ct)).1

example : (runAttempts 4 [9, 8, 7, 6, 5, 4, 3] ⟨none, none⟩ [.read 1]).1 = ⟨some [9, 8, 7, 6], none⟩ := by decide

/-- the chunk size must be positive: with `CHUNK_SIZE = 0` the loop would declare an empty file complete -/
theorem zero_chunk_counterexample :
    (runAttempts 0 [1, 2, 3] ⟨none, none⟩ [.none]).2 = some [] := by decide

/-! ### the client-side reader (`EncryptAnUploadable` behind `RemoteEncryptedUploadable`) -/

/-- the requests a helper makes in one attempt: forward, inside the file -/
def ForwardReads (size : Nat) : Nat → List (Nat × Nat) → Prop
  | _, [] => True
  | from_, (off, len) :: rest => from_ ≤ off ∧ off + len ≤ size ∧ ForwardReads size (off + len) rest

/-- **`client_reader_returns_ciphertext`**: for every plaintext, keystream, positive client-side chunk size
and every sequence of forward `remote_read_encrypted(offset, length)` calls inside the file — in
particular a first call at a resume offset `> 0`, whose skipped part is read in several `CHUNKSIZE` pieces
— every call returns exactly the ciphertext bytes `[offset, offset+length)`.  (This is the assumption the
fetch model `fetchLoop` makes about its reader.) -/
theorem client_reader_returns_ciphertext (chunk : Nat) (hc : 0 < chunk) (pt ks : List UInt8) :
    ∀ (reads : List (Nat × Nat)) (s : Remote), Sync s → ForwardReads pt.length s.offset reads →
    remoteReads chunk pt ks s reads = reads.map (fun r => some (ctSlice pt ks r.1 r.2)) := by
  intro reads
  induction reads with
  | nil => intro s _ _; rfl
  | cons r rest ih =>
    intro s hs hf
    obtain ⟨off, len⟩ := r
    obtain ⟨h1, h2, h3⟩ := hf
    simp only [remoteReads, remoteRead_sync chunk hc pt ks s off len hs h1 h2, List.map_cons]
    congr 1
    exact ih ⟨⟨off + len, off + len⟩, off + len⟩ ⟨rfl, rfl⟩ h3

/-- a resumed transfer: the helper already holds 7 bytes, the client skips them in pieces of 3 -/
example : remoteReads 3 [10, 20, 30, 40, 50, 60, 70, 80, 90, 100] [1, 2, 3, 4, 5, 6, 7, 8, 9, 10] ⟨⟨0, 0⟩, 0⟩ [(7, 2), (9, 1)]
    = [some [80 ^^^ 8, 90 ^^^ 9], some [100 ^^^ 10]] ∧
    ForwardReads 10 0 [(7, 2), (9, 1)] := by
  refine ⟨by decide, ?_⟩
  simp [ForwardReads]

/-- a backward request is refused (`precondition(offset >= self._offset)`) -/
example : remoteReads 3 [10, 20, 30, 40, 50] [1, 2, 3, 4, 5] ⟨⟨0, 0⟩, 0⟩ [(2, 2), (1, 1)] = [some [30 ^^^ 3, 40 ^^^ 4], none] := by
  decide

/-- NOT model code: the reader of the seeded change C44-a — skipped pieces are not encrypted, the
"keystream lag" remembered is the size of the *last* skipped piece only, and the encryptor catches up
by that much before the next real encryption. -/
def readLag (chunk : Nat) (pt ks : List UInt8) (hashOnly : Bool) :
    Nat → Enc × Nat → Nat → List UInt8 × (Enc × Nat)
  | 0, st, _ => ([], st)
  | fuel + 1, (e, lag), remaining =>
    if remaining == 0 then ([], (e, lag))
    else
      let n := min (min remaining chunk) (pt.length - e.pos)
      if hashOnly then readLag chunk pt ks hashOnly fuel (⟨e.pos + n, e.kpos⟩, n) (remaining - min remaining chunk)
      else
        let r1 := encPiece pt ks ⟨e.pos, e.kpos + lag⟩ n
        let r2 := readLag chunk pt ks hashOnly fuel (r1.2, 0) (remaining - min remaining chunk)
        (r1.1 ++ r2.1, r2.2)

/-- a skip that fits one piece is harmless, a skip spanning two pieces yields wrong bytes -/
theorem keystream_lag_counterexample :
    let pt : List UInt8 := [10, 20, 30, 40, 50, 60, 70, 80, 90, 100]
    let ks : List UInt8 := [1, 2, 3, 4, 5, 6, 7, 8, 9, 10]
    (readLag 3 pt ks false 5 (readLag 3 pt ks true 5 (⟨0, 0⟩, 0) 3).2 2).1 = ctSlice pt ks 3 2 ∧
    (readLag 3 pt ks false 5 (readLag 3 pt ks true 9 (⟨0, 0⟩, 0) 7).2 2).1 ≠ ctSlice pt ks 7 2 := by
  decide

/-- **`helper_cap_eq_direct_cap`**: for every encoder, key, storage index, ciphertext, parameters and
interruption pattern ending in an undisturbed attempt, the helper-assisted upload yields the same
shares, the same read-cap and the same verify-cap as the direct upload. -/
theorem helper_cap_eq_direct_cap (encode : List UInt8 → Params → Encoded) (chunk : Nat) (hc : 0 < chunk)
    (key si : Nat) (ct : List UInt8) (p : Params) (faults : List Fault) :
    helperUpload encode chunk key si ct p (faults ++ [.none]) = some (directUpload encode key si ct p) := by
  unfold helperUpload directUpload
  rw [resumed_fetch_eq_ciphertext chunk hc ct faults]
  simp [clientCaps]

/-- a toy encoder (shares = the ciphertext twice, UEB hash = a checksum) shows the statement is not vacuous -/
def toyEncode (ct : List UInt8) (p : Params) : Encoded :=
  ⟨[ct, ct.reverse], ct.foldl (fun a b => (a * 31 + b.toNat) % 65521) p.k⟩

example : helperUpload toyEncode 2 7 11 [5, 6, 7, 8, 9] ⟨1, 2, 4⟩ [.read 1, .encode, .none]
    = some (directUpload toyEncode 7 11 [5, 6, 7, 8, 9] ⟨1, 2, 4⟩) := by decide

/-- `URI_LIT_SIZE_THRESHOLD` as extracted from the source: 55, the largest size that fits a LIT cap -/
theorem lit_threshold_is_55 : Tahoe.Generated.Immutable.URI_LIT_SIZE_THRESHOLD = 55 := rfl

/-- **`upload_with_helper_eq_upload_without`** (`helper_cap_eq_direct_cap` over ALL sizes, literals included):
for every plaintext of every size, every encoder, parameters, chunk size > 0 and interruption pattern ending in
an undisturbed attempt, the client with a helper returns the same cap and the grid receives the same shares as
the client without one. -/
theorem upload_with_helper_eq_upload_without (encode : List UInt8 → Params → Encoded) (chunk : Nat) (hc : 0 < chunk)
    (key si : Nat) (pt ct : List UInt8) (p : Params) (faults : List Fault) :
    clientUpload encode true chunk key si pt ct p (faults ++ [.none]) =
    clientUpload encode false chunk key si pt ct p [] := by
  unfold clientUpload pickUploader
  by_cases h : pt.length ≤ Tahoe.Generated.Immutable.URI_LIT_SIZE_THRESHOLD
  · simp [h]
  · simp [h, helper_cap_eq_direct_cap encode chunk hc key si ct p faults]

/-- up to 55 bytes both paths return the LIT cap of the data and push nothing; the helper is not even asked -/
theorem literal_sizes_bypass_helper (encode : List UInt8 → Params → Encoded) (hasHelper : Bool) (chunk key si : Nat)
    (pt ct : List UInt8) (p : Params) (faults : List Fault) (h : pt.length ≤ 55) :
    pickUploader hasHelper pt.length = .literal ∧
    clientUpload encode hasHelper chunk key si pt ct p faults = some ([], .lit pt) := by
  have hp : pickUploader hasHelper pt.length = .literal := by
    simp [pickUploader, Tahoe.Generated.Immutable.URI_LIT_SIZE_THRESHOLD, h]
  exact ⟨hp, by simp [clientUpload, hp]⟩

example : pickUploader true 55 = .literal ∧ pickUploader true 56 = .assisted ∧ pickUploader false 56 = .direct ∧
    pickUploader true 0 = .literal := by decide

example : clientUpload toyEncode true 2 7 11 [1, 2, 3] [9, 9, 9] ⟨1, 2, 4⟩ [.read 0, .none] = some ([], .lit [1, 2, 3]) := by
  decide

example : clientUpload toyEncode true 2 7 11 (List.replicate 56 1) (List.replicate 56 2) ⟨1, 2, 4⟩ ([.read 3] ++ [.none]) =
    clientUpload toyEncode false 2 7 11 (List.replicate 56 1) (List.replicate 56 2) ⟨1, 2, 4⟩ [] :=
  upload_with_helper_eq_upload_without toyEncode 2 (by decide) 7 11 _ _ ⟨1, 2, 4⟩ [.read 3]

/-- NOT model code: the choice of the seeded change C44-d — helper first, with `size >= threshold` -/
def pickHelperFirst (hasHelper : Bool) (size : Nat) : Picked :=
  if hasHelper && decide (Tahoe.Generated.Immutable.URI_LIT_SIZE_THRESHOLD ≤ size) then .assisted
  else if size ≤ Tahoe.Generated.Immutable.URI_LIT_SIZE_THRESHOLD then .literal else .direct

/-- the two comparisons overlap at exactly 55 bytes: with a helper a CHK upload, without one a LIT cap -/
theorem helper_first_counterexample :
    pickHelperFirst true 55 = .assisted ∧ pickHelperFirst false 55 = .literal ∧
    (∀ n, n ≠ 55 → (pickHelperFirst true n = .literal ↔ pickHelperFirst false n = .literal)) := by
  refine ⟨by decide, by decide, ?_⟩
  intro n hn
  simp only [pickHelperFirst, Tahoe.Generated.Immutable.URI_LIT_SIZE_THRESHOLD]
  by_cases h1 : 55 ≤ n
  · have h2 : ¬ n ≤ 55 := by omega
    simp [h1, h2]
  · have h2 : n ≤ 55 := by omega
    simp [h1, h2]

/-- **`present_not_reuploaded`**: if no upload of the storage index is active, a UEB could be read and
at least `total_shares` distinct share numbers were found, the helper answers with results and *no*
upload helper, reports zero pushed shares and issues no share write; the caps the client then builds
are those of the direct upload whenever the UEB on the grid is the one the direct upload wrote. -/
theorem present_not_reuploaded (encode : List UInt8 → Params → Encoded) (key si : Nat) (ct : List UInt8)
    (p : Params) (shnums : List Nat) (hfound : ¬ (dedup shnums).length < p.n) :
    let u : HUR := ⟨(encode ct p).uebHash, p.k, p.n, p.seg, ct.length, p.n⟩
    uploadChk false shnums (some u) = .present { u with pushed := 0 } ∧
    writesFor encode ct p (uploadChk false shnums (some u)) = [] ∧
    clientCaps key si p ct.length { u with pushed := 0 } =
      some ((directUpload encode key si ct p).2.1, (directUpload encode key si ct p).2.2) := by
  simp [uploadChk, alreadyPresent, hfound, writesFor, clientCaps, directUpload]

example : uploadChk false [0, 1, 1, 0, 2] (some ⟨99, 2, 3, 64, 100, 3⟩) = .present ⟨99, 2, 3, 64, 100, 0⟩ := by decide

/-- conversely: fewer than `total_shares` distinct shares, or no readable UEB, and the helper asks for
the ciphertext (a new upload helper), it never claims the file is present -/
theorem absent_needs_upload (shnums : List Nat) (u : HUR) (h : (dedup shnums).length < u.n) :
    uploadChk false shnums (some u) = .needUpload true ∧ uploadChk false shnums none = .needUpload true := by
  simp [uploadChk, alreadyPresent, h]

example : uploadChk false [0, 1, 1, 0] (some ⟨99, 2, 3, 64, 100, 3⟩) = .needUpload true ∧
    uploadChk true [0, 1, 2] (some ⟨99, 2, 3, 64, 100, 3⟩) = .needUpload false := by decide

/-- **`present_implies_all_shares`**: for every multiset of `get_buckets` answers (server, share
number) in which share numbers are below `N = total_shares`: if the helper's check says "present",
then every one of the `N` share numbers is held by some server — however many servers hold duplicates. -/
theorem present_implies_all_shares (answers : List (Nat × Nat)) (n : Nat)
    (hvalid : ∀ a ∈ answers, a.2 < n) (h : presentOf answers (some n) = true) :
    ∀ i, i < n → ∃ srv, (srv, i) ∈ answers := by
  intro i hi
  have hlen : n ≤ (dedup (answers.map (·.2))).length := by
    simp only [presentOf, alreadyPresent, Bool.not_eq_true', decide_eq_false_iff_not] at h
    omega
  have hmem := nodup_covers n (dedup (answers.map (·.2))) (dedup_nodup _) (by
    intro x hx
    have := (mem_dedup _ x).1 hx
    simp only [List.mem_map] at this
    obtain ⟨a, ha, rfl⟩ := this
    exact hvalid a ha) hlen i hi
  have := (mem_dedup _ i).1 hmem
  simp only [List.mem_map] at this
  obtain ⟨a, ha, rfl⟩ := this
  exact ⟨a.1, ha⟩

/-- **`present_answer_reflects_current_grid`**: for every history of share placements, share losses and
queries, a query answered "present" means that *at that moment* every one of the N share numbers is held
by some server — the answer is a function of the servers' current answers, not of what the helper placed
earlier. (Stated for the last query of a history; share numbers are below N.) -/
theorem present_answer_reflects_current_grid (n : Nat) (g0 : List (Nat × Nat)) (h : List GridEvent)
    (hvalid : ∀ a ∈ gridAfter g0 h, a.2 < n)
    (hp : presentOf (gridAfter g0 h) (if (gridAfter g0 h).isEmpty then none else some n) = true) :
    ∀ i, i < n → ∃ srv, (srv, i) ∈ gridAfter g0 h := by
  by_cases he : (gridAfter g0 h).isEmpty = true
  · simp [he, presentOf, alreadyPresent] at hp
  · simp only [he] at hp
    exact present_implies_all_shares (gridAfter g0 h) n hvalid hp

/-- upload places all 3 shares, a later query says present; share 2 is lost, the next query says not present -/
example : answersOver 3 [] [.query, .placed 0 0, .placed 1 1, .placed 2 2, .query, .lost 2 2, .query, .placed 0 2, .query]
    = [false, true, false, true] := by decide

/-- NOT model code: the helper of the seeded change C44-e, which remembers (for 10 minutes) that it placed a
complete set of shares and then answers from memory -/
def answersWithMemory (total : Nat) : Bool → List (Nat × Nat) → List GridEvent → List Bool
  | _, _, [] => []
  | mem, g, .query :: rest =>
    let now := presentOf g (if g.isEmpty then none else some total)
    (mem || now) :: answersWithMemory total (mem || now) g rest
  | mem, g, e :: rest => answersWithMemory total mem (gridAfter g [e]) rest

/-- it answers "present" after a share was lost although that share number exists nowhere -/
theorem memory_counterexample :
    answersWithMemory 3 false [] [.placed 0 0, .placed 1 1, .placed 2 2, .query, .lost 2 2, .query] = [true, true] ∧
    answersOver 3 [] [.placed 0 0, .placed 1 1, .placed 2 2, .query, .lost 2 2, .query] = [true, false] ∧
    ¬ ∃ srv, (srv, 2) ∈ gridAfter [] [.placed 0 0, .placed 1 1, .placed 2 2, .query, .lost 2 2, .query] := by
  refine ⟨by decide, by decide, ?_⟩
  rintro ⟨srv, h⟩
  have : gridAfter [] [.placed 0 0, .placed 1 1, .placed 2 2, .query, .lost 2 2, .query] = [(0, 0), (1, 1)] := by decide
  rw [this] at h
  simp at h

/-- shares 0 and 1 doubled, share 2 lost: four share files for N = 3, not present; with share 2 back: present -/
example : presentOf [(0, 0), (1, 0), (1, 1), (2, 1)] (some 3) = false ∧
    presentOf [(0, 0), (1, 0), (1, 1), (2, 1), (3, 2)] (some 3) = true := by decide

/-- NOT model code: the rule of the seeded change C44-c, "count the share files" -/
def presentByFileCount (answers : List (Nat × Nat)) (uebTotal : Option Nat) : Bool :=
  match uebTotal with
  | none => false
  | some total => !(answers.length < total)

/-- counting share *files* instead of distinct share numbers breaks it: the rule says "present" for
the layout above although share 2 exists nowhere -/
theorem counting_files_counterexample :
    presentByFileCount [(0, 0), (1, 0), (1, 1), (2, 1)] (some 3) = true ∧
    ¬ ∃ srv, (srv, 2) ∈ [((0 : Nat), (0 : Nat)), (1, 0), (1, 1), (2, 1)] := by
  refine ⟨by decide, ?_⟩
  rintro ⟨srv, h⟩
  simp at h

end Tahoe.C44
