import Tahoe.Sftp.LemmasMain
/-! C39 — SFTP writes are never lost to the background download (property theorems; the model is
`Tahoe/Sftp/Consumer.lean`, the invariant and the notion of an allowed history are in
`Tahoe/Sftp/Inv.lean`, helper lemmas in `Tahoe/Sftp/Lemmas*.lean`).

`Variant.fixed` is `OverwriteableFileConsumer` with fixes/C39-overwrite-merge.diff (`end = max(end, end1)`
in the merge loop of `write`); `Variant.asIs` is the code as it is, for which the property is false.

A history is *allowed* (`WF`) when the client obeys the contract in `read`'s docstring (no overwrite
or size change while a read's Deferred is unfired, none after `close`) and `download_done(bytes)`
arrives only after the producer delivered the whole original (the wiring in `GeneralSFTPFile.open`).
Download chunks of any sizes, eventual-queue turns, reads, a failing download and `close` may be
interleaved in any order. -/
namespace Tahoe.C39
open Tahoe.Sftp

/-- For every original file, every allowed history (any chunking of the download, any interleaving
with client writes, truncations, extensions, reads, queue turns) and every point of that history:
every read that completes there returns exactly the reference bytes `ref[off .. off+len)`, an
`EOFError` is only raised at or beyond the reference's end, a read fails only if the download failed
or the file was closed; and as soon as the download is reported done (and until `close`) the
temporary file — what `GeneralSFTPFile.close` uploads — equals the reference, i.e. the original
contents with the client's operations applied in order. -/
theorem refines_reference (orig : Bytes) (es : List Ev) (hwf : WF .fixed orig (init orig) es) :
    ∀ x ∈ trace .fixed orig (init orig) orig es,
      (∀ o ∈ x.2.2, (∀ b, o.res = .data b → b = pread x.2.1 o.off o.len)
                    ∧ (o.res = .eof → x.2.1.length ≤ o.off)
                    ∧ (o.res = .fail → x.1.done = .failed ∨ x.1.closed = true))
      ∧ (x.1.done = .ok → x.1.closed = false → x.1.f = x.2.1) := by
  intro x hx
  have := trace_inv orig es (init orig) orig (init_inv orig) hwf x hx
  exact ⟨this.2, final_eq orig x.2.1 x.1 this.1⟩

/-- the same for the end of the history, in terms of `run` and `refRun` -/
theorem final_file_is_reference (orig : Bytes) (es : List Ev) (hwf : WF .fixed orig (init orig) es)
    (hd : (run .fixed orig (init orig) es).1.done = .ok) (hc : (run .fixed orig (init orig) es).1.closed = false) :
    (run .fixed orig (init orig) es).1.f = refRun orig es :=
  final_eq orig _ _ (run_inv orig es (init orig) orig (init_inv orig) hwf) hd hc

/-- between the issue of a read and its completion the reference does not move (so "the reference
when the read completes" above is also "the reference when the read was issued") -/
theorem reference_frozen_while_read_pending (orig ref : Bytes) (s : St) (e : Ev)
    (hal : allowed orig s e) (hp : s.ms ≠ [] ∨ s.queue ≠ []) : refStep ref e = ref := by
  cases e <;> simp only [refStep]
  · exact absurd hal.2 (by rcases hp with a | a <;> simp [a])
  · exact absurd hal.2 (by rcases hp with a | a <;> simp [a])

/-- DESIGN §3 probe, as a history: overwrite [0,10), overwrite [2,5), then the download in one chunk -/
def probe : List Ev :=
  [.overwrite 0 [120, 120, 120, 120, 120, 120, 120, 120, 120, 120], .overwrite 2 [121, 121, 121], .chunk 20,
   .done true, .read 4 8, .flush]

def probeOrig : Bytes := [65, 66, 67, 68, 69, 70, 71, 72, 73, 74, 75, 76, 77, 78, 79, 80, 81, 82, 83, 84]

/-- the code as it is loses a client write: the probe history is allowed, the download is done, and
the temporary file differs from the reference (bytes 5..9 hold downloaded data) -/
theorem asIs_clobbers_client_write_counterexample :
    WF .asIs probeOrig (init probeOrig) probe
    ∧ (run .asIs probeOrig (init probeOrig) probe).1.done = .ok
    ∧ (run .asIs probeOrig (init probeOrig) probe).1.f ≠ refRun probeOrig probe
    ∧ (run .asIs probeOrig (init probeOrig) probe).1.f
        = [120, 120, 121, 121, 121, 70, 71, 72, 73, 74, 75, 76, 77, 78, 79, 80, 81, 82, 83, 84] := by
  decide

/-- non-vacuity: the same history is allowed for the repaired code, completes a read and finishes -/
example : WF .fixed probeOrig (init probeOrig) probe
    ∧ (run .fixed probeOrig (init probeOrig) probe).1.done = .ok
    ∧ (run .fixed probeOrig (init probeOrig) probe).2 = [⟨0, 4, 8, .data [121, 120, 120, 120, 120, 120, 75, 76]⟩]
    ∧ (run .fixed probeOrig (init probeOrig) probe).1.f
        = [120, 120, 121, 121, 121, 120, 120, 120, 120, 120, 75, 76, 77, 78, 79, 80, 81, 82, 83, 84] := by
  decide

/-- non-vacuity with a pending read: truncate, extend, read across the hole while chunks arrive -/
example : let h : List Ev := [.overwrite 3 [200, 201], .setSize 4, .setSize 9, .read 0 9, .chunk 2, .flush, .chunk 5,
                              .flush, .done true]
    WF .fixed [1, 2, 3, 4, 5, 6, 7] (init [1, 2, 3, 4, 5, 6, 7]) h
    ∧ (run .fixed [1, 2, 3, 4, 5, 6, 7] (init [1, 2, 3, 4, 5, 6, 7]) h).2 = [⟨0, 0, 9, .data [1, 2, 3, 200, 0, 0, 0, 0, 0]⟩] := by
  decide

end Tahoe.C39
