import Tahoe.Sftp.Consumer
namespace Tahoe.C39
open Tahoe.Sftp
theorem placeholder : True := trivial
end Tahoe.C39
