import Tahoe.Sftp.LemmasMain
import Tahoe.Sftp.LemmasLive
import Tahoe.Sftp.LemmasHandle
/-! C39 — SFTP writes are never lost to the background download (property theorems; the model is
`Tahoe/Sftp/Consumer.lean`, the invariant and the notion of an allowed history are in
`Tahoe/Sftp/Inv.lean`, helper lemmas in `Tahoe/Sftp/Lemmas*.lean`).

`Variant.fixed` is `OverwriteableFileConsumer` as it now is in /repo (fixes/C39-overwrite-merge.diff,
`end = max(end, end1)` in the merge loop of `write`, is committed there); `Variant.asIs` is the code
before that fix, for which the property is false (counterexample below).

A history is *allowed* (`WF`) when the client obeys the contract in `read`'s docstring (no overwrite
or size change while a read's Deferred is unfired, none after `close`) and `download_done(bytes)`
arrives only after the producer delivered the whole original (the wiring in `GeneralSFTPFile.open`).
Download chunks of any sizes, eventual-queue turns, reads (several may be pending; they complete in
milestone order through the FIFO eventual queue), a failing download and `close` may be interleaved
in any order.

## Coverage of the statement

| clause of the statement (properties.jsonl C39)                                   | theorem(s) on the model |
|---|---|
| "for any interleaving of the background download … with client writes, truncations and reads" | the quantification of `refines_reference`: every `orig`, every allowed `es : List Ev` (chunks of any size, overwrite, setSize = truncate/extend, read, flush, done ok/fail, close), no length bound |
| every read equals the original contents with the client's writes and size changes applied in order | `refines_reference` (first conjunct: data = `pread ref off len`, EOF only at/after the reference's end, failure only after a failed download or close), the reference being the one current when the read completes; `reference_frozen_while_read_pending`: that is also the reference when the read was issued (the argument that a read stays in `ms`/`queue` from issue to completion is by inspection of the model, not a theorem) |
| the contents finally uploaded equal … | `refines_reference` (second conjunct, at every point of the history once `done_status` is success and until `close`), `final_file_is_reference` (end of the history, against `refRun`) |
| client writes always take precedence over downloaded data that arrives later | `client_write_beats_later_download` |
| truncation / extension semantics (size changes "applied in order")              | part of the reference (`refStep`: truncate = `take`, extend = zero fill; write past EOF zero-fills the hole) and so of the three theorems above |
| the three code paths hit by the seeded changes: merge loop of `write` (`mergeRun`), `set_current_size` leaving the heap alone on truncation (`setSize`), `overwrite` recording every region with `end > downloaded` also across the frontier (`overwrite`) | all inside `refines_reference` (lemmas `writeLoop_inv`, `setSize_inv`, `overwrite_inv0`); each is also compared with the real class after every event (heap contents included) |
| the code before the fix violates the statement                                   | `asIs_clobbers_client_write_counterexample` |
| every read is eventually answered (liveness; not claimed by the statement)       | `reads_answered_once_done` (no milestone survives `done_status`; one queue turn answers all fired reads); that the download does end is the environment's part |
| the contents finally uploaded, at the level of the SFTP handle: `close` commits whenever a write *or a size change* was accepted, wherever close falls relative to the start of the download and the queued requests (`has_changed` set at request time; seeded C39-e, fix d9a6762) | `handle_close_commits_writes_and_size_changes` (the code as it is), from `handle_close_commits_reference` (both settings of `sizeSets`); model `Tahoe/Sftp/Handle.lean` of `GeneralSFTPFile`'s queue, `has_changed`, `close`/`_commit`; `seedE_pipelined_close_loses_write_counterexample` for the set-point of the seed |
| size changes applied — when the handle's only requests are `setAttrs(size)`     | covered by `handle_close_commits_writes_and_size_changes`; it was FALSE before d9a6762: `preFix_size_change_only_not_stored_counterexample` |
| `GeneralSFTPFile.readChunk` honours the consumer's read contract                | not covered — it does not (see the `example` on `WF`); reads are not part of the handle model |
| two pending reads with equal milestone index (`heapq` compares Deferreds → TypeError) | outside the model; noted in harness/props/c39.py |
-/
namespace Tahoe.C39
open Tahoe.Sftp

/-- For every original file, every allowed history (any chunking of the download, any interleaving
with client writes, truncations, extensions, reads, queue turns) and every point of that history:
every read that completes there returns exactly the reference bytes `ref[off .. off+len)`, an
`EOFError` is only raised at or beyond the reference's end, a read fails only if the download failed
or the file was closed; and as soon as the download is reported done (and until `close`) the
temporary file — what `GeneralSFTPFile.close` uploads — equals the reference, i.e. the original
contents with the client's operations applied in order. -/
theorem refines_reference (orig : Bytes) (es : List Ev) (hwf : WF .fixed orig (init orig) es) :
    ∀ x ∈ trace .fixed orig (init orig) orig es,
      (∀ o ∈ x.2.2, (∀ b, o.res = .data b → b = pread x.2.1 o.off o.len)
                    ∧ (o.res = .eof → x.2.1.length ≤ o.off)
                    ∧ (o.res = .fail → x.1.done = .failed ∨ x.1.closed = true))
      ∧ (x.1.done = .ok → x.1.closed = false → x.1.f = x.2.1) := by
  intro x hx
  have := trace_inv orig es (init orig) orig (init_inv orig) hwf x hx
  exact ⟨this.2, final_eq orig x.2.1 x.1 this.1⟩

/-- the same for the end of the history, in terms of `run` and `refRun` -/
theorem final_file_is_reference (orig : Bytes) (es : List Ev) (hwf : WF .fixed orig (init orig) es)
    (hd : (run .fixed orig (init orig) es).1.done = .ok) (hc : (run .fixed orig (init orig) es).1.closed = false) :
    (run .fixed orig (init orig) es).1.f = refRun orig es :=
  final_eq orig _ _ (run_inv orig es (init orig) orig (init_inv orig) hwf) hd hc

/-- between the issue of a read and its completion the reference does not move (so "the reference
when the read completes" above is also "the reference when the read was issued") -/
theorem reference_frozen_while_read_pending (orig ref : Bytes) (s : St) (e : Ev)
    (hal : allowed orig s e) (hp : s.ms ≠ [] ∨ s.queue ≠ []) : refStep ref e = ref := by
  cases e <;> simp only [refStep]
  · exact absurd hal.2 (by rcases hp with a | a <;> simp [a])
  · exact absurd hal.2 (by rcases hp with a | a <;> simp [a])

/-- DESIGN §3 probe, as a history: overwrite [0,10), overwrite [2,5), then the download in one chunk -/
def probe : List Ev :=
  [.overwrite 0 [120, 120, 120, 120, 120, 120, 120, 120, 120, 120], .overwrite 2 [121, 121, 121], .chunk 20,
   .done true, .read 4 8, .flush]

def probeOrig : Bytes := [65, 66, 67, 68, 69, 70, 71, 72, 73, 74, 75, 76, 77, 78, 79, 80, 81, 82, 83, 84]

/-- Client writes take precedence over downloaded data that arrives later: after a client write of
`data` at `off`, whatever download chunks (of any sizes), queue turns, reads and `download_done` follow,
once the download is reported done the temporary file holds exactly `data` at `off` — for every
allowed history `es` before the write (so for every state of the heaps and of `downloaded`, whether the
write lies ahead of, behind, or across the download frontier). -/
theorem client_write_beats_later_download (orig : Bytes) (es ds : List Ev) (off : Nat) (data : Bytes)
    (hds : ∀ e ∈ ds, e.keepsRef = true)
    (hwf : WF .fixed orig (init orig) (es ++ .overwrite off data :: ds))
    (hd : (run .fixed orig (init orig) (es ++ .overwrite off data :: ds)).1.done = .ok)
    (hc : (run .fixed orig (init orig) (es ++ .overwrite off data :: ds)).1.closed = false) :
    pread (run .fixed orig (init orig) (es ++ .overwrite off data :: ds)).1.f off data.length = data := by
  rw [final_file_is_reference orig _ hwf hd hc]
  simp only [refRun, List.foldl_append, List.foldl_cons, refStep]
  rw [foldl_refStep_keepsRef ds _ hds, pread_refWrite]

/-- non-vacuity: a write across the download frontier (start < downloaded < end), then the rest of the
download in two chunks (the situation of seeded change C39-c) -/
example : let es : List Ev := [.chunk 6]
    let ds : List Ev := [.chunk 3, .flush, .chunk 40, .done true]
    (∀ e ∈ ds, e.keepsRef = true)
    ∧ WF .fixed probeOrig (init probeOrig) (es ++ .overwrite 4 [200, 201, 202, 203, 204] :: ds)
    ∧ (run .fixed probeOrig (init probeOrig) (es ++ .overwrite 4 [200, 201, 202, 203, 204] :: ds)).1.done = .ok
    ∧ (run .fixed probeOrig (init probeOrig) (es ++ .overwrite 4 [200, 201, 202, 203, 204] :: ds)).1.f
        = [65, 66, 67, 68, 200, 201, 202, 203, 204, 74, 75, 76, 77, 78, 79, 80, 81, 82, 83, 84] := by
  decide

/-- No read is left waiting: for every history whatsoever (allowed or not, either variant), once
`done_status` is set — download finished, failed, size changed below `downloaded`, or `close` — no read
waits on a milestone any more, and one turn of the eventual queue answers every read that was fired
(one answer per queued callback, queue empty afterwards). -/
theorem reads_answered_once_done (v : Variant) (orig : Bytes) (es : List Ev)
    (hd : (run v orig (init orig) es).1.done ≠ .running) :
    (run v orig (init orig) es).1.ms = []
    ∧ (flush (run v orig (init orig) es).1).1.queue = []
    ∧ (flush (run v orig (init orig) es).1).2.length = (run v orig (init orig) es).1.queue.length := by
  refine ⟨run_noWait v orig es (init orig) (fun _ => rfl) hd, rfl, ?_⟩
  simp [flush]

/-- non-vacuity: two reads wait on milestones (12 and 20) when the download fails; both are answered
(with a failure) by the next queue turn -/
example : let h : List Ev := [.read 0 12, .read 5 30, .chunk 3, .done false]
    (run .fixed probeOrig (init probeOrig) h).1.done = .failed
    ∧ (run .fixed probeOrig (init probeOrig) h).1.queue.length = 2
    ∧ (flush (run .fixed probeOrig (init probeOrig) h).1).2 = [⟨0, 0, 12, .fail⟩, ⟨1, 5, 15, .fail⟩] := by
  decide

/-- what the hypothesis `WF` excludes, and what the code does there: if the caller breaks the contract
of `read` and writes while a read is pending (as `GeneralSFTPFile.readChunk` does — it drops the
Deferred of `consumer.read`), the read completes with the *later* write's bytes, not with the contents
at the time it was issued (reproduced on the real class; outside C39's anchors) -/
example : let h : List Ev := [.read 0 10, .overwrite 2 [90, 90, 90], .chunk 20, .flush]
    ¬ WF .fixed probeOrig (init probeOrig) h
    ∧ (run .fixed probeOrig (init probeOrig) h).2 = [⟨0, 0, 10, .data [65, 66, 90, 90, 90, 70, 71, 72, 73, 74]⟩] := by
  decide

/-- the code as it is loses a client write: the probe history is allowed, the download is done, and
the temporary file differs from the reference (bytes 5..9 hold downloaded data) -/
theorem asIs_clobbers_client_write_counterexample :
    WF .asIs probeOrig (init probeOrig) probe
    ∧ (run .asIs probeOrig (init probeOrig) probe).1.done = .ok
    ∧ (run .asIs probeOrig (init probeOrig) probe).1.f ≠ refRun probeOrig probe
    ∧ (run .asIs probeOrig (init probeOrig) probe).1.f
        = [120, 120, 121, 121, 121, 70, 71, 72, 73, 74, 75, 76, 77, 78, 79, 80, 81, 82, 83, 84] := by
  decide

/-- non-vacuity: the same history is allowed for the repaired code, completes a read and finishes -/
example : WF .fixed probeOrig (init probeOrig) probe
    ∧ (run .fixed probeOrig (init probeOrig) probe).1.done = .ok
    ∧ (run .fixed probeOrig (init probeOrig) probe).2 = [⟨0, 4, 8, .data [121, 120, 120, 120, 120, 120, 75, 76]⟩]
    ∧ (run .fixed probeOrig (init probeOrig) probe).1.f
        = [120, 120, 121, 121, 121, 120, 120, 120, 120, 120, 75, 76, 77, 78, 79, 80, 81, 82, 83, 84] := by
  decide

/-- non-vacuity with a pending read: truncate, extend, read across the hole while chunks arrive -/
example : let h : List Ev := [.overwrite 3 [200, 201], .setSize 4, .setSize 9, .read 0 9, .chunk 2, .flush, .chunk 5,
                              .flush, .done true]
    WF .fixed [1, 2, 3, 4, 5, 6, 7] (init [1, 2, 3, 4, 5, 6, 7]) h
    ∧ (run .fixed [1, 2, 3, 4, 5, 6, 7] (init [1, 2, 3, 4, 5, 6, 7]) h).2 = [⟨0, 0, 9, .data [1, 2, 3, 200, 0, 0, 0, 0, 0]⟩] := by
  decide

/-! ### the SFTP handle (`GeneralSFTPFile`): `has_changed` and the commit decision of `close` -/

/-- For a handle opened on an existing file for writing (no TRUNC/CREAT), with `has_changed` set at the
time of the request — by `writeChunk` always, by `setAttrs(size)` iff `sz` (`sz = true` is the code as
it is, `HVariant.code`; `sz = false` the code before d9a6762): in every history of requests (writeChunk,
setAttrs, close) interleaved in any way with the start of the download (`get_best_readable_version()`
firing — before or after any of the requests, also after `close`), download chunks of any sizes,
`download_done` and queue turns, if at least one marking request was accepted (requested before
`close`: a writeChunk, or — when `sz` — a size change) and the close is reported successful, then what
was stored in the grid is exactly the reference: the original with all accepted writes and size changes
applied in order. -/
theorem handle_close_commits_reference (sz : Bool) (orig : Bytes) (es : List HEv)
    (hwf : HWF ⟨.atRequest, sz⟩ orig (hinit orig) es)
    (hmark : (es.foldl (markStep sz) (false, false)).1 = true)
    (hok : (hrun ⟨.atRequest, sz⟩ orig (hinit orig) es).res = .ok) :
    (hrun ⟨.atRequest, sz⟩ orig (hinit orig) es).stored = some (href orig es) := by
  have hp := hrun_phase sz orig es (hinit orig) (orig, false) (false, false) (hinit_phase orig) rfl rfl hwf
  cases hp with
  | queued cl hcl hs hp hr hc hw hf hres => rw [hres] at hok; cases hok
  | queuedClosed cl commit hcl hs hp hr hc hw hf hres => rw [hres (hf hmark)] at hok; cases hok
  | live hs hp hc hw hinv hq hcc hf hres => rw [hres] at hok; cases hok
  | committing hs hp hc hw hinv hq hcc hres => rw [hres] at hok; cases hok
  | finished hs hp hc hw hfin => exact hfin hmark hok

/-- the statement for the code as it is: at least one accepted writeChunk *or size change* -/
theorem handle_close_commits_writes_and_size_changes (orig : Bytes) (es : List HEv)
    (hwf : HWF .code orig (hinit orig) es)
    (hmark : (es.foldl (markStep true) (false, false)).1 = true)
    (hok : (hrun .code orig (hinit orig) es).res = .ok) :
    (hrun .code orig (hinit orig) es).stored = some (href orig es) :=
  handle_close_commits_reference true orig es hwf hmark hok

/-- a pipelined open / write / close: the close request arrives before the download has even started -/
def pipelined : List HEv :=
  [.write 2 [200, 201, 202], .close, .start, .chunk 4, .write 0 [9], .chunk 50, .done true, .turn]

/-- only size changes, pipelined: truncate, extend, close, then the download -/
def sizesOnly : List HEv := [.setSize 3, .setSize 5, .close, .start, .chunk 50, .done true, .turn]

/-- non-vacuity: both histories are well-formed, contain an accepted marking request (the second write
of `pipelined`, after `close`, is refused), end with a successful close and the reference stored -/
example : HWF .code [1, 2, 3, 4, 5, 6, 7] (hinit [1, 2, 3, 4, 5, 6, 7]) pipelined
    ∧ (pipelined.foldl (markStep true) (false, false)).1 = true
    ∧ (hrun .code [1, 2, 3, 4, 5, 6, 7] (hinit [1, 2, 3, 4, 5, 6, 7]) pipelined).res = .ok
    ∧ (hrun .code [1, 2, 3, 4, 5, 6, 7] (hinit [1, 2, 3, 4, 5, 6, 7]) pipelined).stored = some [1, 2, 200, 201, 202, 6, 7]
    ∧ href [1, 2, 3, 4, 5, 6, 7] pipelined = [1, 2, 200, 201, 202, 6, 7] := by decide

example : HWF .code [1, 2, 3, 4, 5, 6, 7] (hinit [1, 2, 3, 4, 5, 6, 7]) sizesOnly
    ∧ (sizesOnly.foldl (markStep true) (false, false)).1 = true
    ∧ (hrun .code [1, 2, 3, 4, 5, 6, 7] (hinit [1, 2, 3, 4, 5, 6, 7]) sizesOnly).res = .ok
    ∧ (hrun .code [1, 2, 3, 4, 5, 6, 7] (hinit [1, 2, 3, 4, 5, 6, 7]) sizesOnly).stored = some [1, 2, 3, 0, 0]
    ∧ href [1, 2, 3, 4, 5, 6, 7] sizesOnly = [1, 2, 3, 0, 0] := by decide

/-- seeded change C39-e (`has_changed` set only when the queued write runs): the same pipelined history
reports a successful close and stores nothing — the client's write is lost -/
theorem seedE_pipelined_close_loses_write_counterexample :
    (hrun .seedE [1, 2, 3, 4, 5, 6, 7] (hinit [1, 2, 3, 4, 5, 6, 7]) pipelined).res = .ok
    ∧ (hrun .seedE [1, 2, 3, 4, 5, 6, 7] (hinit [1, 2, 3, 4, 5, 6, 7]) pipelined).stored = none := by decide

/-- the code before d9a6762 (`setAttrs(size)` did not set `has_changed`): a handle whose only requests
are size changes reports a successful close and stores nothing, although the reference is the truncated
/ extended file (defect reproduced on the real class; repaired by fixes/C39-setattrs-has-changed.diff).
For that variant `handle_close_commits_reference false` needs an accepted writeChunk, and this is why. -/
theorem preFix_size_change_only_not_stored_counterexample :
    (hrun .preFix [1, 2, 3, 4, 5, 6, 7] (hinit [1, 2, 3, 4, 5, 6, 7]) sizesOnly).res = .ok
    ∧ (hrun .preFix [1, 2, 3, 4, 5, 6, 7] (hinit [1, 2, 3, 4, 5, 6, 7]) sizesOnly).stored = none
    ∧ href [1, 2, 3, 4, 5, 6, 7] sizesOnly = [1, 2, 3, 0, 0] := by decide

end Tahoe.C39
